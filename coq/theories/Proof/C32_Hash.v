(* C32 follow-up 2 - proofs about targets with pinned hashes (Model/C32_Hash.v): an output that failed the
   verification against the pinned hashes is never recorded as up to date, at any kill point of any history,
   PROVIDED the check comes before the record - which is what the source does (Gen/C32Order.calc_prog). *)
From Coq Require Import String.
From PlzV Require Import Base.Harness Base.StrFacts Model.C32 Model.C32_Tmp Model.C32_Hash Proof.C32 Gen.C32Order.
From Coq Require Import Lia List.

(* ------------------------------------------------------------------------------------------ *)
(* record-free step lists *)

Lemma norec_firstn l k : forallb norec l = true -> forallb norec (firstn k l) = true.
Proof.
  revert k; induction l as [|x l IH]; intros [|k] H; cbn in *; try reflexivity.
  apply andb_true_iff in H. destruct H as [Hx Hl]. rewrite Hx, (IH k Hl). reflexivity.
Qed.

Lemma norec_md_steps d : forallb norec (md_steps d) = true.
Proof. reflexivity. Qed.

Lemma norec_move_steps b s n : forallb norec (move_steps b s n) = true.
Proof. unfold move_steps. destruct (s_out s n) as [f|]; [destruct (N.eqb (eff_hash f) (b_new b n))|]; reflexivity. Qed.

Lemma norec_moves b l : forall s, forallb norec (moves b l s) = true.
Proof.
  induction l as [|n r IH]; intros s; cbn [moves]; [reflexivity|].
  rewrite forallb_app, norec_move_steps, IH. reflexivity.
Qed.

Lemma norec_sethash outs : forallb norec (map SetHash outs) = true.
Proof. induction outs as [|n r IH]; cbn; [reflexivity|exact IH]. Qed.

Lemma norec_remove outs : forallb norec (remove_steps outs) = true.
Proof. induction outs as [|n r IH]; cbn; [reflexivity|exact IH]. Qed.

(* the check comes first and fails: calculateAndCheckRuleHash returns the error having written no record *)
Lemma calc_bad_check_first b outs ph :
  check_first ph = true ->
  forallb norec (fst (calc_steps true b outs ph)) = true /\ snd (calc_steps true b outs ph) = true.
Proof.
  induction ph as [|p r IH]; cbn [check_first]; intros H; [discriminate|].
  destruct p; cbn [calc_steps fst snd].
  - destruct (IH H) as [H1 H2]. rewrite forallb_app, norec_sethash, H1, H2. split; reflexivity.
  - split; reflexivity.
  - discriminate.
Qed.

Lemma hbuild_bad_norec ph t b s :
  check_first ph = true -> forallb norec (hbuild_steps ph true t b s) = true.
Proof.
  intros H. unfold hbuild_steps. cbn zeta.
  destruct (calc_bad_check_first b (all_outs t b) ph H) as [H1 H2].
  rewrite H2. rewrite !forallb_app, norec_md_steps, norec_moves, H1, norec_remove. reflexivity.
Qed.

Lemma hfails_bad ph t b : check_first ph = true -> hfails ph true t b = true.
Proof. intros H. unfold hfails. apply (calc_bad_check_first b (all_outs t b) ph H). Qed.

(* the outputs match (or there are no pinned hashes): the steps are those of Model/C32.v *)
Lemma calc_ok_src b outs :
  calc_steps false b outs src_phases = (map SetHash outs ++ rec_steps b outs ++ [], false).
Proof. reflexivity. Qed.

Lemma hbuild_ok_src t b s : hbuild_steps src_phases false t b s = build_steps t b s.
Proof.
  unfold hbuild_steps, build_steps. cbn zeta. rewrite calc_ok_src. cbn [fst snd].
  rewrite !app_nil_r. reflexivity.
Qed.

(* ------------------------------------------------------------------------------------------ *)
(* the invariant: no record anywhere in the target's part of plz-out is the current one *)

Section NoCur.
  Variable cur : rec.

  Definition curp (r : rec) : bool :=
    N.eqb (r_cfg r) (r_cfg cur) && N.eqb (r_pre r) (r_pre cur) && N.eqb (r_src r) (r_src cur) && N.eqb (r_sec r) (r_sec cur).

  Definition rec_not_cur (o : option rec) : Prop := forall r, o = Some r -> curp r = false.

  Definition no_cur (s : st) : Prop :=
    (forall n f, s_out s n = Some f -> rec_not_cur (f_rec f))
    /\ (forall m, s_md s = Some m -> rec_not_cur (m_rec m))
    /\ match s_fb s with
       | None => True
       | Some FbEmpty => curp zero_rec = false
       | Some (FbRec r) => curp r = false
       end.

  Lemma no_cur_empty : no_cur empty_st.
  Proof. split; [|split]; cbn; try discriminate; exact I. Qed.

  Lemma no_cur_run1 x s : norec x = true -> no_cur s -> no_cur (run1 x s).
  Proof.
    intros Hx [Ho [Hm Hf]]. destruct x; try discriminate Hx; cbn [run1].
    - (* RmMd *) split; [exact Ho|split; [cbn; discriminate|exact Hf]].
    - (* MdTmp *) split; [exact Ho|split; [exact Hm|exact Hf]].
    - (* MvMd *) split; [exact Ho|split; [|exact Hf]]. cbn. intros m E. inversion E; subst. cbn. intros r Er. discriminate.
    - (* DamageOut *)
      destruct (s_out s n) as [f|] eqn:E; [|split; [exact Ho|split; [exact Hm|exact Hf]]].
      split; [|split; [exact Hm|exact Hf]]. cbn [s_out]. intros n' f'. unfold upd.
      destruct (str_eqb n' n); [|apply Ho]. intros E'. inversion E'; subst. cbn. apply (Ho n f E).
    - (* RmOut *)
      split; [|split; [exact Hm|exact Hf]]. cbn [s_out]. intros n' f'. unfold upd.
      destruct (str_eqb n' n); [discriminate|apply Ho].
    - (* MvOut *)
      split; [|split; [exact Hm|exact Hf]]. cbn [s_out]. intros n' f'. unfold upd.
      destruct (str_eqb n' n); [|apply Ho]. intros E'. inversion E'; subst. cbn. intros r Er. discriminate.
    - (* SetHash *)
      destruct (s_out s n) as [f|] eqn:E; [|split; [exact Ho|split; [exact Hm|exact Hf]]].
      split; [|split; [exact Hm|exact Hf]]. cbn [s_out]. intros n' f'. unfold upd.
      destruct (str_eqb n' n); [|apply Ho]. intros E'. inversion E'; subst. cbn. apply (Ho n f E).
  Qed.

  Lemma no_cur_run l : forall s, forallb norec l = true -> no_cur s -> no_cur (run l s).
  Proof.
    induction l as [|x r IH]; intros s H Hs; [exact Hs|].
    cbn in H. apply andb_true_iff in H. destruct H as [Hx Hr].
    change (run (x :: r) s) with (run r (run1 x s)). apply IH; [exact Hr|apply no_cur_run1; assumption].
  Qed.

  (* what the loop of readRuleHashFromXattrs returns is the record of some output (or the one it started with) *)
  Lemma read_outs_src names s : forall h0 h,
    read_outs names s h0 = Some (Some h) ->
    h0 = Some h \/ exists n f, s_out s n = Some f /\ f_rec f = Some h.
  Proof.
    induction names as [|n r IH]; intros h0 h; cbn [read_outs].
    - intros E. inversion E. left. reflexivity.
    - unfold attr_of. destruct (s_out s n) as [f|] eqn:Ef; [|discriminate].
      destruct (f_rec f) as [bb|] eqn:Eb; [|discriminate].
      destruct h0 as [h'|].
      + destruct (rec_eqb h' bb); [|discriminate]. intros E. destruct (IH _ _ E) as [E1|E1]; [|right; exact E1].
        inversion E1; subst. right. exists n, f. split; assumption.
      + intros E. destruct (IH _ _ E) as [E1|E1]; [|right; exact E1].
        inversion E1; subst. right. exists n, f. split; assumption.
  Qed.

  Lemma no_cur_read t names s r : no_cur s -> read_rec false t names s = Some r -> curp r = false.
  Proof.
    intros [Ho [Hm Hf]]. unfold read_rec.
    destruct (read_outs names s None) as [[h|]|] eqn:E; [| |discriminate].
    - intros E'. inversion E'; subst. destruct (read_outs_src names s None r E) as [E1|[n [f [E1 E2]]]]; [discriminate|].
      apply (Ho n f E1 r E2).
    - destruct (t_mod t && negb false).
      + destruct (s_md s) as [m|] eqn:Em; [|discriminate]. intros E'. apply (Hm m eq_refl r E').
      + destruct (s_fb s) as [[|r']|]; [| |discriminate]; intros E'; inversion E'; subst; exact Hf.
  Qed.

  (* the pre-build check of the next build: the target needs building *)
  Lemma no_cur_rebuild t b s : b_cur b = cur -> no_cur s -> decide t b s = Rebuild.
  Proof.
    intros Hc Hs. unfold decide, needs.
    assert (Hr : rec_matches false t b (declared t) s = false).
    { unfold rec_matches. destruct (read_rec false t (declared t) s) as [r|] eqn:E; [|reflexivity].
      pose proof (no_cur_read t (declared t) s r Hs E) as Hn. unfold curp in Hn. rewrite Hc.
      change (if false then r_post r else r_pre r) with (r_pre r).
      change (if false then r_post cur else r_pre cur) with (r_pre cur).
      rewrite Hn. reflexivity. }
    rewrite Hr. cbn [negb]. rewrite orb_true_r. reflexivity.
  Qed.
End NoCur.

(* ------------------------------------------------------------------------------------------ *)
(* RemoveOutputs leaves none of the outputs *)

Lemma remove_keeps_none outs : forall s n, s_out s n = None -> s_out (run (remove_steps outs) s) n = None.
Proof.
  induction outs as [|a r IH]; intros s n H; [exact H|].
  change (run (remove_steps (a :: r)) s) with (run (remove_steps r) (run1 (RmOut a) (run1 (DamageOut a) s))).
  apply IH. cbn [run1 s_out]. unfold upd. destruct (str_eqb n a) eqn:E; [reflexivity|].
  destruct (s_out s a) as [f|]; [|exact H]. cbn [s_out]. unfold upd. rewrite E. exact H.
Qed.

Lemma remove_all_none outs : forall s n, In n outs -> s_out (run (remove_steps outs) s) n = None.
Proof.
  induction outs as [|a r IH]; intros s n Hin; [contradiction|].
  change (run (remove_steps (a :: r)) s) with (run (remove_steps r) (run1 (RmOut a) (run1 (DamageOut a) s))).
  destruct (str_eqb n a) eqn:E.
  - apply remove_keeps_none. cbn [run1 s_out]. unfold upd. rewrite E. reflexivity.
  - destruct Hin as [Hin|Hin]; [subst; rewrite str_eqb_refl in E; discriminate|]. apply IH, Hin.
Qed.

Lemma hfull_bad_no_outputs ph t b s :
  check_first ph = true -> visible t b (hfull ph true t b s) = map (fun _ => None) (all_outs t b).
Proof.
  intros H. unfold visible. apply map_ext_in. intros n Hn.
  unfold hfull, hbuild_steps. cbn zeta.
  destruct (calc_bad_check_first b (all_outs t b) ph H) as [_ H2]. rewrite H2.
  rewrite !app_assoc, run_app. rewrite (remove_all_none _ _ n Hn). reflexivity.
Qed.

(* ------------------------------------------------------------------------------------------ *)
(* histories *)

Lemma all_outs_force t b f : all_outs t (with_force b f) = all_outs t b.
Proof. reflexivity. Qed.

Lemma visible_force t b f s : visible t (with_force b f) s = visible t b s.
Proof. reflexivity. Qed.

Lemma hafter_no_cur ph t b evs :
  check_first ph = true -> forall s, no_cur (b_cur b) s -> no_cur (b_cur b) (hafter ph true t b evs s).
Proof.
  intros H. induction evs as [|e r IH]; intros s Hs; [exact Hs|].
  unfold hafter. cbn [fold_left]. apply IH. unfold hstep_event.
  destruct (decide t (with_force b (fst e)) s); try exact Hs.
  unfold hcrash. apply no_cur_run; [|exact Hs]. apply norec_firstn, hbuild_bad_norec, H.
Qed.

(* For EVERY order of the phases in which the check comes before the record: a target whose outputs do not match
   its pinned hashes, started from any state without a current record, after any history of builds (normal or
   --rebuild) each killed after any number of its steps: the next normal build rebuilds the target, fails with
   "Bad output hash" and leaves none of its outputs - exactly as the clean build does. *)
Theorem bad_hash_histories ph t b s0 evs :
  check_first ph = true -> no_cur (b_cur b) s0 ->
  exists s' c,
    hrecover ph true t b (hafter ph true t b evs s0) = OBadHash s'
    /\ hclean ph true t b = OBadHash c
    /\ visible t b s' = visible t b c
    /\ visible t b s' = map (fun _ => None) (all_outs t b).
Proof.
  intros H Hs. pose proof (hafter_no_cur ph t b evs H s0 Hs) as Hk.
  unfold hclean, hrecover.
  rewrite (no_cur_rebuild (b_cur b) t (with_force b false) _ eq_refl Hk).
  rewrite (no_cur_rebuild (b_cur b) t (with_force b false) empty_st eq_refl (no_cur_empty _)).
  rewrite (hfails_bad ph t (with_force b false) H).
  eexists; eexists. split; [reflexivity|]. split; [reflexivity|].
  rewrite <- !(visible_force t b false).
  rewrite !(hfull_bad_no_outputs ph t (with_force b false) _ H). split; reflexivity.
Qed.

(* one killed build keeps the invariant, whatever the kill point *)
Theorem bad_hash_build_one ph t b s k :
  check_first ph = true -> no_cur (b_cur b) s ->
  no_cur (b_cur b) (hcrash ph true k t b s) /\ decide t (with_force b false) (hcrash ph true k t b s) = Rebuild.
Proof.
  intros H Hs.
  assert (Hk : no_cur (b_cur b) (hcrash ph true k t b s)).
  { unfold hcrash. apply no_cur_run; [|exact Hs]. apply norec_firstn, hbuild_bad_norec, H. }
  split; [exact Hk|]. apply (no_cur_rebuild (b_cur b)); [reflexivity|exact Hk].
Qed.

(* the outputs match: nothing changes with respect to Model/C32.v, so C32_full applies *)
Lemma hafter_ok_src t b evs : forall s, hafter src_phases false t b evs s = after t b evs s.
Proof.
  induction evs as [|e r IH]; intros s; [reflexivity|].
  unfold hafter, after in *. cbn [fold_left]. rewrite IH. f_equal.
  unfold hstep_event, step_event, hcrash, crash. rewrite hbuild_ok_src. reflexivity.
Qed.

Theorem good_hash_histories t b s0 evs :
  trusted t b s0 ->
  exists s', hrecover src_phases false t b (hafter src_phases false t b evs s0) = OBuilt s' /\ good_end t b s'.
Proof.
  intros Ht. destruct (histories_full t b s0 evs Ht) as [s' [Hr Hg]].
  rewrite hafter_ok_src. exists s'. split; [|exact Hg].
  unfold hrecover. unfold recover in Hr. unfold hfails, hfull. rewrite hbuild_ok_src.
  destruct (decide t (with_force b false) (after t b evs s0)); cbn in *; congruence.
Qed.

(* ------------------------------------------------------------------------------------------ *)
(* the tie to the source (Gen/C32Order.v, regenerated on every run) *)

Local Open Scope string_scope.

(* a call the model does not know counts as a record (the worst case) *)
Definition phase_of_calc_call (c : string) : phase :=
  if String.eqb c "OutputHash" then PHash else if String.eqb c "checkRuleHashes" then PCheck else PRecord.

Definition gen_phases : list phase := map phase_of_calc_call C32Order.calc_prog.

Lemma gen_phases_src : gen_phases = src_phases.
Proof. reflexivity. Qed.

Lemma gen_check_first : check_first gen_phases = true.
Proof. reflexivity. Qed.

Lemma gen_check_returns : forall a b c, C32Order.calc_check_returns a b c = check_returns a b c.
Proof. intros [|] [|] [|]; reflexivity. Qed.

(* plz build: NeedHashesOnly = false, VerifyHashes = true (the default) *)
Lemma gen_bad_returns : forall o, C32Order.calc_check_returns false o true = true.
Proof. intros [|]; reflexivity. Qed.

Lemma gen_error_path :
  C32Order.build_on_error = ["buildTarget"; "RemoveOutputs"]
  /\ C32Order.remove_outputs = ["fs.RemoveAll"; "fs.EnsureDir"]
  /\ C32Order.calc_record_guard = "!target.IsFilegroup".
Proof. repeat split; reflexivity. Qed.

(* the theorem for the order the source has *)
Theorem bad_hash_histories_src t b s0 evs :
  no_cur (b_cur b) s0 ->
  exists s' c,
    hrecover gen_phases (C32Order.calc_check_returns false false true) t b
             (hafter gen_phases (C32Order.calc_check_returns false false true) t b evs s0) = OBadHash s'
    /\ hclean gen_phases (C32Order.calc_check_returns false false true) t b = OBadHash c
    /\ visible t b s' = visible t b c
    /\ visible t b s' = map (fun _ => None) (all_outs t b).
Proof. rewrite (gen_bad_returns false). apply bad_hash_histories, gen_check_first. Qed.

(* ------------------------------------------------------------------------------------------ *)
(* the order matters: with the record hoisted above the check (the seeded change r2-m1) a build killed after the
   record and before RemoveOutputs leaves an unverified output that the next build reports unchanged *)

Definition ph_m1 : list phase := [PHash; PRecord; PCheck].
Definition ht : target := mkT [s "vendor.txt"] false.
Definition hcur : rec := mkRec 1 2 3 4 5.
Definition hb : build := mkB [] (fun _ => 7%N) hcur false.

Definition is_built (o : outcome) : bool := match o with OBuilt _ => true | _ => false end.

Lemma m1_order_refuted :
  check_first ph_m1 = false
  /\ length (hbuild_steps ph_m1 true ht hb empty_st) = 12
  /\ is_built (hrecover ph_m1 true ht hb (hcrash ph_m1 true 9 ht hb empty_st)) = true
  /\ visible ht hb (hcrash ph_m1 true 9 ht hb empty_st) = [Some 7%N]
  /\ outcome_badhash (hclean ph_m1 true ht hb) = true
  /\ forallb (fun k => outcome_badhash (hrecover src_phases true ht hb (hcrash src_phases true k ht hb empty_st))) (seq 0 12) = true.
Proof. vm_compute. repeat split. Qed.
