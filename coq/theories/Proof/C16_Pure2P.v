(* C16 - the enlarged pure fragment: operators (third deepening: `fmt % scalar` through fmt_rel, d | e), operator chains, index
   and slices (vslice_sim: a window of the same array in asp, a copy in CPython) on related arguments. *)
From Coq Require Import Lia.
From PlzV Require Import Base.Harness Base.StrFacts Gen.AspTables Model.C16_Syntax Model.C16_Ops Model.C16_Prim Model.C16_Eval Model.C16 Model.C16_Pure Model.C16_Sort Model.C16_Pure2.
From PlzV Require Import Proof.C16_Ops Proof.C16_Int Proof.C16_Pure Proof.C16_Pure2U Proof.C16_Pure2R.
Local Open Scope Z_scope.

(* the real evaluation succeeded in a state that only allocated, with a value that represents p *)
Definition sim1 (d : dialect) (st : state) (r : res (value * state)) (p : qval) : Prop :=
  exists v st', r = Ok (v, st') /\ xle st st' /\ vrel d (hp st') p v.

Section Prim.
  Variable d : dialect.
  Variable chk : binop -> Z -> Z -> ires.
  Variable cneg : Z -> option Z.
  Hypothesis chk_ok : forall o a b, match chk o a b with IOk _ | IBool _ => int_op d o a b = chk o a b | _ => True end.
  Hypothesis cneg_ok : forall z z', cneg z = Some z' -> (match d with Asp => wrap64 (- z) | Py => - z end) = z'.
  Notation vr st := (vrel d (hp st)).
  Notation sim st r p := (sim1 d st r p).

  Lemma ok_here : forall (r : res (value * state)) v st p, r = Ok (v, st) -> vr st p v -> sim st r p.
  Proof. intros r v st p H Hv. exists v, st. split; [exact H|]. split; [apply xle_refl|exact Hv]. Qed.

  Lemma sim_xle : forall st st1 r p, xle st st1 -> sim st1 r p -> sim st r p.
  Proof. intros st st1 r p Hx (v & st' & E & Hx' & Hv). exists v, st'. split; [exact E|]. split; [now apply (xle_trans st st1)|exact Hv]. Qed.

  Lemma veq_rel : forall f st pa pb va vb e,
    qeq pa pb = Some e -> vr st pa va -> vr st pb vb -> veq d (S f) st va vb = Ok e.
  Proof.
    intros f st pa pb va vb e E Ha Hb.
    destruct pa, pb; cbn in E; try discriminate; injection E as <-; cbn [vrel] in Ha, Hb; subst va vb;
      destruct d; try reflexivity.
    cbn. now destruct b, b0.
  Qed.

  Lemma iface_eq_rel : forall st pa pb va vb e,
    qeq pa pb = Some e -> vr st pa va -> vr st pb vb -> iface_eq va vb = Ok e.
  Proof.
    intros st pa pb va vb e E Ha Hb.
    destruct pa, pb; cbn in E; try discriminate; injection E as <-; cbn [vrel] in Ha, Hb; subst va vb; reflexivity.
  Qed.

  Lemma vin_list_rel : forall f st px vx ps items r, vr st px vx -> vrels d (hp st) ps items -> qin_list px ps = Ok r ->
    (fix go (l : list value) : res bool :=
       match l with
       | [] => Ok false
       | y :: r => rbind (match d with Asp => iface_eq y vx | Py => veq d (S f) st y vx end) (fun e => if e then Ok true else go r)
       end) items = Ok r.
  Proof.
    intros f st px vx ps items r Hx Hi. revert r. induction Hi as [|py vy ps items Hy _ IH]; intros r H; cbn [qin_list] in H.
    - exact H.
    - destruct (qeq py px) as [e|] eqn:E; [|discriminate].
      assert (Hq : match d with Asp => iface_eq vy vx | Py => veq d (S f) st vy vx end = Ok e).
      { pose proof (iface_eq_rel st py px vy vx e E Hy Hx) as Hi0. pose proof (veq_rel f st py px vy vx e E Hy Hx) as Hv0.
        revert Hi0 Hv0. destruct d; intros; assumption. }
      rewrite Hq. cbn [rbind]. destruct e; [exact H|now apply IH].
  Qed.

  Lemma apply_bin_int_int : forall f o x y st, is_int_arith o = true ->
    apply_bin d (S f) o (VInt x) (VInt y) st =
      match int_op d o x y with
      | IOk z => Ok (VInt z, st) | IBool r => Ok (VBool r, st)
      | IErr => Err EType | IUnsup => Err EUnsupported | IFloat => Err EFloat
      end.
  Proof. intros f o x y st H. destruct o; try discriminate; reflexivity. Qed.

  Lemma vstr_top_rel : forall f st p v x, vr st p v -> qstr p = Some x -> vstr d (S f) st true v = Ok x.
  Proof.
    intros f st p v x Hv H. destruct p; try discriminate; cbn [vrel] in Hv; subst v; injection H as <-; try reflexivity. destruct d; reflexivity.
  Qed.

  Ltac split_char :=
    repeat match goal with
           | H : context [match ?p with xI _ => _ | xO _ => _ | xH => _ end] |- _ => is_var p; destruct p; cbv beta iota in H |- *
           | H : context [match ?c with N0 => _ | Npos _ => _ end] |- _ => is_var c; destruct c; cbv beta iota in H |- *
           end.

  Lemma fmt_rel : forall f st n x pargs args r, (length x <= n)%nat -> vrels d (hp st) pargs args -> qfmt x pargs = Ok r ->
    fmt_go d (S f) st x args = Ok r.
  Proof.
    intros f st n. induction n as [|n IH]; intros x pargs args r Hn Ha H.
    - destruct x; [|cbn in Hn; lia]. cbn [qfmt fmt_go] in *. destruct pargs; [|discriminate]. inversion Ha; subst. exact H.
    - destruct x as [|c x].
      + cbn [qfmt fmt_go] in *. destruct pargs; [|discriminate]. inversion Ha; subst. exact H.
      + cbn [length] in Hn.
        assert (Hother : forall c0, (do y <- qfmt x pargs; Ok (c0 :: y)) = Ok r -> (do y <- fmt_go d (S f) st x args; Ok (c0 :: y)) = Ok r).
        { intros c0 H0. destruct (qfmt x pargs) as [y| |] eqn:Ey; try discriminate. rewrite (IH x pargs args y ltac:(lia) Ha Ey). exact H0. }
        destruct x as [|c2 x2].
        * (* a single character: never a verb *)
          cbn [qfmt fmt_go] in H |- *. split_char; try discriminate; try (now apply Hother).
        * cbn [length] in Hn.
          assert (Hpct : (do y <- qfmt x2 pargs; Ok (37%N :: y)) = Ok r -> (do y <- fmt_go d (S f) st x2 args; Ok (37%N :: y)) = Ok r).
          { intros H0. destruct (qfmt x2 pargs) as [y| |] eqn:Ey; try discriminate. rewrite (IH x2 pargs args y ltac:(lia) Ha Ey). exact H0. }
          assert (Hs : match pargs with
                       | a :: ar => match qstr a with Some z => do y <- qfmt x2 ar; Ok (z ++ y) | None => Err EUnsupported end
                       | [] => Err EUnsupported
                       end = Ok r ->
                       match args with
                       | a :: ar => do z <- vstr d (S f) st true a; do y <- fmt_go d (S f) st x2 ar; Ok (z ++ y)
                       | [] => Err (match d with Asp => EUnsupported | Py => EType end)
                       end = Ok r).
          { intros H0. destruct Ha as [|pa a par ar Hpa Hpar]; [discriminate|]. destruct (qstr pa) as [z|] eqn:Ez; [|discriminate].
            rewrite (vstr_top_rel f st pa a z Hpa Ez). cbn [rbind].
            destruct (qfmt x2 par) as [y| |] eqn:Ey; try discriminate. rewrite (IH x2 par ar y ltac:(lia) Hpar Ey). exact H0. }
          assert (Hd : match pargs with
                       | QInt z :: ar => do y <- qfmt x2 ar; Ok (z_to_str z ++ y)
                       | _ => Err EUnsupported
                       end = Ok r ->
                       match args with
                       | VInt z :: ar => do y <- fmt_go d (S f) st x2 ar; Ok (z_to_str z ++ y)
                       | _ => Err (match d with Asp => EUnsupported | Py => EType end)
                       end = Ok r).
          { intros H0. destruct Ha as [|pa a par ar Hpa Hpar]; [discriminate|]. destruct pa; try discriminate. cbn [vrel] in Hpa. subst a.
            destruct (qfmt x2 par) as [y| |] eqn:Ey; try discriminate. rewrite (IH x2 par ar y ltac:(lia) Hpar Ey). exact H0. }
          assert (Hother2 : forall c0, (do y <- qfmt (c2 :: x2) pargs; Ok (c0 :: y)) = Ok r -> (do y <- fmt_go d (S f) st (c2 :: x2) args; Ok (c0 :: y)) = Ok r)
            by exact Hother.
          clear Hother IH.
          change (qfmt (c :: c2 :: x2) pargs) with
            (match c :: c2 :: x2 with
             | [] => match pargs with [] => Ok [] | _ => Err EUnsupported end
             | 37%N :: 37%N :: r0 => do y <- qfmt r0 pargs; Ok (37%N :: y)
             | 37%N :: 115%N :: r0 =>
                 match pargs with
                 | a :: ar => match qstr a with Some z => do y <- qfmt r0 ar; Ok (z ++ y) | None => Err EUnsupported end
                 | [] => Err EUnsupported
                 end
             | 37%N :: 100%N :: r0 => match pargs with QInt z :: ar => do y <- qfmt r0 ar; Ok (z_to_str z ++ y) | _ => Err EUnsupported end
             | 37%N :: _ => Err EUnsupported
             | c0 :: r0 => do y <- qfmt r0 pargs; Ok (c0 :: y)
             end) in H.
          change (fmt_go d (S f) st (c :: c2 :: x2) args) with
            (match c :: c2 :: x2 with
             | [] => match args with [] => Ok [] | _ => Err (match d with Asp => EUnsupported | Py => EType end) end
             | 37%N :: 37%N :: r0 => do y <- fmt_go d (S f) st r0 args; Ok (37%N :: y)
             | 37%N :: 115%N :: r0 =>
                 match args with
                 | a :: ar => do z <- vstr d (S f) st true a; do y <- fmt_go d (S f) st r0 ar; Ok (z ++ y)
                 | [] => Err (match d with Asp => EUnsupported | Py => EType end)
                 end
             | 37%N :: 100%N :: r0 =>
                 match args with
                 | VInt z :: ar => do y <- fmt_go d (S f) st r0 ar; Ok (z_to_str z ++ y)
                 | _ => Err (match d with Asp => EUnsupported | Py => EType end)
                 end
             | 37%N :: _ => Err EUnsupported
             | c0 :: r0 => do y <- fmt_go d (S f) st r0 args; Ok (c0 :: y)
             end).
          cbv beta iota in H |- *.
          split_char; try discriminate; first [ now apply Hother2 | now apply Hpct | now apply Hs | now apply Hd ].
  Qed.

  Lemma fold_env_set_rel' : forall h pairs ppairs acc pacc, env_rel d h pairs ppairs -> env_rel d h acc pacc ->
    env_rel d h (fold_left (fun acc kv => env_set (fst kv) (snd kv) acc) pairs acc)
                (fold_left (fun acc kv => qenv_set (fst kv) (snd kv) acc) ppairs pacc).
  Proof.
    intros h pairs ppairs acc pacc H. revert acc pacc. induction H as [|kv pkv pairs ppairs [H1 H2] _ IH]; intros acc pacc Ha; cbn [fold_left].
    - exact Ha.
    - apply IH. rewrite H1. now apply env_set_rel.
  Qed.

  Lemma apply_bin_sim : forall fuel o pa pb p st va vb,
    vr st pa va -> vr st pb vb -> qapply_bin chk fuel o pa pb = Ok p -> sim st (apply_bin d fuel o va vb st) p.
  Proof.
    intros fuel o pa pb p st va vb Ha Hb H. destruct fuel as [|f]; [discriminate|].
    assert (Heq : forall e, qeq pa pb = Some e ->
              apply_bin d (S f) C16_Syntax.Eq va vb st = Ok (VBool e, st) /\ apply_bin d (S f) Ne va vb st = Ok (VBool (negb e), st)).
    { intros e E. pose proof (veq_rel f st pa pb va vb e E Ha Hb) as Hq. split.
      - change (apply_bin d (S f) C16_Syntax.Eq va vb st) with (do x <- veq d (S f) st va vb; Ok (VBool (xorb false x), st)).
        rewrite Hq. cbn [rbind]. now rewrite Bool.xorb_false_l.
      - change (apply_bin d (S f) Ne va vb st) with (do x <- veq d (S f) st va vb; Ok (VBool (xorb true x), st)).
        rewrite Hq. cbn [rbind]. now rewrite Bool.xorb_true_l. }
    assert (Hin : forall (neg : bool) (K : res (value * state)),
              K = (do x <- vin d (S f) st va vb; Ok (VBool (xorb neg x), st)) ->
              match pa, pb with
              | QStr x, QStr y => Ok (QBool (xorb neg (str_contains x y)))
              | (QInt _ | QStr _ | QBool _ | QNone), QList l => do r <- qin_list pa l; Ok (QBool (xorb neg r))
              | QStr k, QDict kvs => Ok (QBool (xorb neg (match qenv_get k kvs with Some _ => true | None => false end)))
              | _, _ => Err EUnsupported
              end = Ok p -> sim st K p).
    { intros neg K -> H0.
      assert (Hl : forall l, pb = QList l -> (do r <- qin_list pa l; Ok (QBool (xorb neg r))) = Ok p ->
                sim st (do x <- vin d (S f) st va vb; Ok (VBool (xorb neg x), st)) p).
      { intros l -> H1. destruct (qin_list pa l) as [r| |] eqn:Er; try discriminate. cbn [rbind] in H1. injection H1 as <-.
        destruct (vrel_list_inv d st l vb Hb) as (sl & -> & Hi & _). unfold vin.
        rewrite (vin_list_rel f st pa va l _ r Ha Hi Er). cbn [rbind]. eapply ok_here; reflexivity. }
      destruct pa, pb; try discriminate H0; try (now apply (Hl _ eq_refl)).
      - injection H0 as <-. cbn [vrel] in Ha, Hb. subst va vb. eapply ok_here; reflexivity.
      - injection H0 as <-. cbn [vrel] in Ha. subst va. apply vrel_dict in Hb. destruct Hb as (i & es & -> & H2 & _ & H4).
        cbn [vin rbind]. unfold dict_of. cbn [hp snd] in H2. rewrite (nth_error_nth _ _ _ H2).
        pose proof (env_get_rel d _ x _ _ H4) as Hg. destruct (qenv_get x kvs).
        + destruct Hg as (v & -> & _). eapply ok_here; reflexivity.
        + rewrite Hg. eapply ok_here; reflexivity. }
    destruct o.
    1-10: cbn [qapply_bin] in H; destruct pa, pb; try discriminate; cbn [vrel] in Ha, Hb;
      try (subst va vb;
           match type of H with
           | (if is_int_arith ?o then _ else _) = _ =>
               cbn [is_int_arith] in H; rewrite (apply_bin_int_int f o z z0 st eq_refl);
               pose proof (chk_ok o z z0) as C; destruct (chk o z z0) eqn:E; cbn [qof_ires] in H; try discriminate;
               injection H as <-; rewrite C; eapply ok_here; reflexivity
           | Ok _ = _ => injection H as <-; eapply ok_here; reflexivity
           end).
    (* the only case left: list + list *)
    - injection H as <-. fold (vrel d (hp st) (QList l) va) in Ha. fold (vrel d (hp st) (QList l0) vb) in Hb.
      destruct (vrel_list_inv d st l va Ha) as (s1 & -> & Hc1 & _). destruct (vrel_list_inv d st l0 vb Hb) as (s2 & -> & Hc2 & _).
      pose proof (vrels_length _ _ _ _ Hc1) as L1. pose proof (vrels_length _ _ _ _ Hc2) as L2.
      assert (Hs1 : s_len s1 = length l) by (apply vrel_list in Ha; destruct Ha as (? & ? & E & _ & E3 & _); injection E as <-; exact E3).
      assert (Hall : vrels d (hp st) (l ++ l0) (list_items d st s1 ++ list_items d st s2)) by (now apply Forall2_app).
      change (apply_bin d (S f) Add (VList s1) (VList s2) st)
        with (let '(r, st1) := list_add d s1 (list_items d st s2) st in Ok (VList r, st1)).
      assert (Hadd : exists sl st', list_add d s1 (list_items d st s2) st = (sl, st') /\ xle st st' /\ vr st' (QList (l ++ l0)) (VList sl)).
      { unfold list_add. destruct d; apply alloc_vrel; try exact Hall; try discriminate. intros _. lia. }
      destruct Hadd as (sl & st' & E & Hx & Hv). rewrite E. exists (VList sl), st'. now split.
    - (* "fmt" % int *)
      subst va vb. destruct (qfmt x [QInt z]) as [r| |] eqn:Ef; try discriminate. cbn [rbind] in H. injection H as <-.
      assert (Hf : fmt_go d (S f) st x [VInt z] = Ok r).
      { apply (fmt_rel f st (length x) x [QInt z]); [lia| |exact Ef]. constructor; [reflexivity|constructor]. }
      change (apply_bin d (S f) Mod (VStr x) (VInt z) st) with (do l <- Ok [VInt z]; do r0 <- fmt_go d (S f) st x l; Ok (VStr r0, st)).
      cbn [rbind]. rewrite Hf. cbn [rbind]. eapply ok_here; reflexivity.
    - (* "fmt" % str *)
      subst va vb. destruct (qfmt x [QStr x0]) as [r| |] eqn:Ef; try discriminate. cbn [rbind] in H. injection H as <-.
      assert (Hf : fmt_go d (S f) st x [VStr x0] = Ok r).
      { apply (fmt_rel f st (length x) x [QStr x0]); [lia| |exact Ef]. constructor; [reflexivity|constructor]. }
      change (apply_bin d (S f) Mod (VStr x) (VStr x0) st) with (do l <- Ok [VStr x0]; do r0 <- fmt_go d (S f) st x l; Ok (VStr r0, st)).
      cbn [rbind]. rewrite Hf. cbn [rbind]. eapply ok_here; reflexivity.
    - (* Eq *) cbn [qapply_bin] in H. destruct (qeq pa pb) as [e|] eqn:E; [|discriminate]. injection H as <-.
      eapply ok_here; [exact (proj1 (Heq e eq_refl))|reflexivity].
    - (* Ne *) cbn [qapply_bin] in H. destruct (qeq pa pb) as [e|] eqn:E; [|discriminate]. injection H as <-.
      eapply ok_here; [exact (proj2 (Heq e eq_refl))|reflexivity].
    - (* In *) cbn [qapply_bin] in H. now apply (Hin false).
    - (* NotIn *) cbn [qapply_bin] in H. now apply (Hin true).
    - cbn [qapply_bin] in H. destruct pa, pb; discriminate.
    - cbn [qapply_bin] in H. destruct pa, pb; discriminate.
    - (* d | e *)
      cbn [qapply_bin] in H. destruct pa, pb; try discriminate. cbv zeta in H.
      destruct (ssorted _) eqn:Ess; [|discriminate]. injection H as <-.
      apply vrel_dict in Ha. destruct Ha as (i & es & -> & Ei & _ & Hes).
      apply vrel_dict in Hb. destruct Hb as (j & es' & -> & Ej & _ & Hes').
      cbn [hp snd] in Ei, Ej.
      change (apply_bin d (S f) Union (VDict i) (VDict j) st)
        with (let merged := fold_left (fun acc kv => env_set (fst kv) (snd kv) acc) (dict_of st j) (dict_of st i) in
              let '(n, st1) := alloc_dict merged st in Ok (VDict n, st1)).
      unfold dict_of, alloc_dict. rewrite (nth_error_nth _ _ _ Ei), (nth_error_nth _ _ _ Ej). cbv zeta.
      eexists. eexists. split; [reflexivity|]. split; [apply xle_set_dicts|].
      apply vrel_dict. eexists. eexists. split; [reflexivity|]. cbn [hp snd set_dicts dicts]. split; [|split; [exact Ess|]].
      + rewrite nth_error_app2 by lia. rewrite Nat.sub_diag. reflexivity.
      + apply (env_rel_mono d (hp st)); [apply (x_heap _ _ (xle_set_dicts st _))|]. now apply fold_env_set_rel'.
    - cbn [qapply_bin] in H. destruct pa, pb; discriminate.
    - cbn [qapply_bin] in H. destruct pa, pb; discriminate.
  Qed.

  Lemma apply_un_sim : forall u p q st v,
    vr st p v -> qapply_un cneg u p = Ok q -> exists v', apply_un d u st v = Ok v' /\ vr st q v'.
  Proof.
    intros u p q st v Hv H. destruct u; cbn [qapply_un] in H.
    - destruct p; try discriminate. destruct (cneg z) as [z'|] eqn:E; [|discriminate]. injection H as <-.
      cbn [vrel] in Hv. subst v. cbn [apply_un]. rewrite (cneg_ok z z' E). eexists. split; reflexivity.
    - injection H as <-. cbn [apply_un]. rewrite (truthy_rel d st p v Hv). eexists. split; reflexivity.
  Qed.

  (* ---- grouped chains ---- *)
  Fixpoint tree_rel2 (h : heap) (t : tree vexpr value) (tp : tree vexpr qval) : Prop :=
    match t, tp with
    | TLeaf x, TLeaf y => x = y
    | TVal v, TVal p => vrel d h p v
    | TUn u a, TUn u' b => u = u' /\ tree_rel2 h a b
    | TBin o l r, TBin o' l' r' => o = o' /\ tree_rel2 h l l' /\ tree_rel2 h r r'
    | _, _ => False
    end.

  Lemma tree_rel2_mono : forall h h' t tp, hext h h' -> tree_rel2 h t tp -> tree_rel2 h' t tp.
  Proof.
    intros h h' t tp He. revert tp. induction t as [x|v|u a IH|o l IHl r IHr]; intros [y|p|u' b|o' l' r'] H; cbn [tree_rel2] in *; try contradiction.
    - exact H.
    - now apply (vrel_mono d h).
    - destruct H as [H1 H2]. split; [exact H1|now apply IH].
    - destruct H as (H1 & H2 & H3). repeat split; [exact H1|now apply IHl|now apply IHr].
  Qed.

  Lemma node_rel2 : forall h (i : item vexpr) acc accp, tree_rel2 h acc accp -> tree_rel2 h (node i acc) (node i accp).
  Proof. intros h [o x|u] acc accp H; cbn [node tree_rel2]; repeat split; assumption. Qed.

  Lemma asp_tree_rel2 : forall h (ops : list (item vexpr)) acc accp,
    tree_rel2 h acc accp -> tree_rel2 h (asp_tree acc ops) (asp_tree accp ops).
  Proof.
    intros h ops. induction ops as [|i0 rest IH]; intros acc accp H; [exact H|].
    destruct rest as [|i1 rest'].
    - cbn [asp_tree]. now apply node_rel2.
    - rewrite !asp_tree_cons2. destruct (aprec (ikey i0) >=? aprec (ikey i1)).
      + apply IH. now apply node_rel2.
      + destruct i0 as [o x|u]; cbn [tree_rel2]; repeat split; try assumption; apply IH; try assumption; reflexivity.
  Qed.

  Section Tree.
    Variable f : nat.
    Variable ps : qstate.
    Hypothesis HV : forall x st p, srel d st ps -> qeval_vexpr chk cneg f x ps = Ok p -> sim st (eval_vexpr d [] f x st) p.

    Notation TEV := (teval (eval_vexpr d [] f) (apply_bin d f) (fun u v st0 => apply_un d u st0 v) (fun v st0 => truthy d st0 v)).
    Notation QTEV := (qteval chk cneg (fun x => qeval_vexpr chk cneg f x ps) f).

    Lemma teval_sim : forall t tp st p, srel d st ps -> tree_rel2 (hp st) t tp -> QTEV tp = Ok p -> sim st (TEV t st) p.
    Proof.
      induction t as [x|v|u a IH|o l IHl r IHr]; intros [y|q|u' b|o' l' r'] st p Hs Hr H; cbn [tree_rel2] in Hr; try contradiction.
      - subst y. cbn [qteval teval] in *. now apply HV.
      - cbn [qteval teval] in *. injection H as <-. eapply ok_here; [reflexivity|exact Hr].
      - destruct Hr as [<- Hr]. cbn [qteval teval] in *.
        destruct (QTEV b) as [pv| |] eqn:Eb; try discriminate. cbn [rbind] in H.
        destruct (IH b st pv Hs Hr Eb) as (v & st1 & Hev & Hx & Hv). rewrite Hev. cbn [rbind]. unfold lift_un.
        destruct (apply_un_sim u pv p st1 v Hv H) as (v' & Hu & Hv').
        rewrite Hu. cbn [rbind]. exists v', st1. now split.
      - destruct Hr as (<- & Hl & Hr). cbn [qteval teval] in *.
        destruct (QTEV l') as [pa| |] eqn:El; try discriminate. cbn [rbind] in H.
        destruct (IHl l' st pa Hs Hl El) as (va & st1 & Hev1 & Hx1 & Hva). rewrite Hev1. cbn [rbind].
        assert (Hs1 : srel d st1 ps) by now apply (srel_xle d st).
        assert (Hr1 : tree_rel2 (hp st1) r r') by (apply (tree_rel2_mono (hp st)); [apply Hx1|exact Hr]).
        assert (Hstrict : forall (K : res (value * state)),
                  (do b <- QTEV r'; qapply_bin chk f o pa b) = Ok p ->
                  K = (do '(b, st2) <- TEV r st1; apply_bin d f o va b st2) -> sim st K p).
        { intros K H0 ->. destruct (QTEV r') as [pb| |] eqn:Er; try discriminate. cbn [rbind] in H0.
          destruct (IHr r' st1 pb Hs1 Hr1 Er) as (vb & st2 & Hev2 & Hx2 & Hvb). rewrite Hev2. cbn [rbind].
          assert (Hva2 : vr st2 pa va) by now apply (vr_xle d st1).
          apply (sim_xle st st2); [now apply (xle_trans st st1)|].
          now apply (apply_bin_sim f o pa pb p st2 va vb). }
        assert (Hlazy : forall (isand : bool) (K : res (value * state)),
                  (if Bool.eqb (qtruthy pa) isand then QTEV r' else Ok pa) = Ok p ->
                  K = (if Bool.eqb (truthy d st1 va) isand
                       then do '(b, st2) <- TEV r st1;
                            recheck (fun v st0 => truthy d st0 v) va st1 st2 (Ok (b, st2))
                       else Ok (va, st1)) -> sim st K p).
        { intros isand K H0 ->. rewrite (truthy_rel d st1 pa va Hva).
          destruct (Bool.eqb (qtruthy pa) isand).
          - destruct (IHr r' st1 p Hs1 Hr1 H0) as (vb & st2 & Hev2 & Hx2 & Hvb). rewrite Hev2. cbn [rbind].
            unfold recheck. rewrite (truthy_rel d st1 pa va Hva).
            assert (Hva2 : vr st2 pa va) by now apply (vr_xle d st1).
            rewrite (truthy_rel d _ pa va Hva2), eqb_reflx.
            exists vb, st2. split; [reflexivity|]. split; [now apply (xle_trans st st1)|exact Hvb].
          - injection H0 as <-. exists va, st1. now split. }
        destruct o; first [ now apply (Hlazy true _ H) | now apply (Hlazy false _ H) | now apply (Hstrict _ H) ].
    Qed.
  End Tree.

  (* ---- index ---- *)
  Lemma vindex_sim : forall st pobj pidx obj idx p, vr st pobj obj -> vr st pidx idx -> qindex pobj pidx = Ok p ->
    exists v, vindex d st obj idx = Ok v /\ vr st p v.
  Proof.
    intros st pobj pidx obj idx p Ho Hi H. unfold qindex in H.
    destruct pobj; try discriminate; destruct pidx; try discriminate.
    - (* str *) cbn [vrel] in Ho, Hi. subst obj idx. unfold qnth_index in H. cbn [vindex].
      destruct (py_index (length (runes x)) z false) as [j| |]; try discriminate. cbn [rbind] in *.
      destruct ((0 <=? j) && (j <? Z.of_nat (length (runes x)))); [|discriminate]. cbn [rbind] in H. injection H as <-.
      eexists. split; reflexivity.
    - (* list *) cbn [vrel] in Hi. subst idx. destruct (vrel_list_inv d st l obj Ho) as (sl & -> & Hc & _).
      unfold qnth_index in H. cbn [vindex]. rewrite (vrels_length _ _ _ _ Hc).
      destruct (py_index (length l) z false) as [j| |]; try discriminate. cbn [rbind] in *.
      destruct ((0 <=? j) && (j <? Z.of_nat (length l))); [|discriminate]. injection H as <-.
      eexists. split; [reflexivity|]. now apply nth_vrels.
    - (* dict *) cbn [vrel] in Hi. subst idx. apply vrel_dict in Ho. destruct Ho as (i & es & -> & H2 & _ & H4).
      cbn [vindex]. unfold dict_of. cbn [hp snd] in H2. rewrite (nth_error_nth _ _ _ H2).
      pose proof (env_get_rel d _ x _ _ H4) as Hg. destruct (qenv_get x kvs) as [q|]; [|discriminate]. injection H as <-.
      destruct Hg as (v & -> & Hv). now exists v.
  Qed.
  (* ---- slices ---- *)
  Definition ovrel (h : heap) (po : option qval) (o : option value) : Prop :=
    match po, o with
    | None, None => True
    | Some p, Some v => vrel d h p v
    | _, _ => False
    end.

  Lemma py_index_slice_le : forall len i a, py_index len i true = Ok a -> a <= Z.of_nat len.
  Proof.
    intros len i a H. unfold py_index in H. destruct (i <? 0) eqn:E1; [injection H as <-; lia|].
    destruct (i >? Z.of_nat len) eqn:E2; injection H as <-; lia.
  Qed.

  Lemma qbound_le : forall len po def a, qbound len po def = Ok a -> def <= Z.of_nat len -> a <= Z.of_nat len.
  Proof.
    intros len po def a H Hd. destruct po as [[i| | | | | |]|]; cbn [qbound] in H; try discriminate.
    - now apply (py_index_slice_le len i).
    - injection H as <-. exact Hd.
  Qed.

  Lemma bound_asp : forall h len po o def a, qbound len po def = Ok a -> ovrel h po o ->
    match o with
    | None => Ok def
    | Some (VInt i) => py_index len i true
    | Some _ => Err EType
    end = Ok a.
  Proof.
    intros h len po o def a H Ho. destruct po as [p|], o as [v|]; cbn [ovrel] in Ho; try contradiction; [|exact H].
    destruct p; cbn [qbound] in H; try discriminate. cbn [vrel] in Ho. subst v. exact H.
  Qed.

  Lemma bound_py : forall h len po o def a, qbound len po def = Ok a -> ovrel h po o -> 0 <= a -> 0 <= def <= Z.of_nat len ->
    match o with
    | None => Ok def
    | Some (VInt i) => Ok (Z.max 0 (Z.min (Z.of_nat len) (if i <? 0 then Z.of_nat len + i else i)))
    | Some _ => Err EType
    end = Ok a.
  Proof.
    intros h len po o def a H Ho Ha Hd. destruct po as [p|], o as [v|]; cbn [ovrel] in Ho; try contradiction; [|exact H].
    destruct p; cbn [qbound] in H; try discriminate. cbn [vrel] in Ho. subst v. f_equal.
    unfold py_index in H. destruct (z <? 0) eqn:E1; [injection H as <-; lia|].
    destruct (z >? Z.of_nat len) eqn:E2; injection H as <-; lia.
  Qed.

  Lemma qcut_length : forall {A} (l : list A) a b, 0 <= a -> a <= b -> b <= Z.of_nat (length l) ->
    length (qcut l a b) = Z.to_nat (b - a).
  Proof. intros A l a b H1 H2 H3. unfold qcut. rewrite firstn_length, skipn_length. lia. Qed.

  Lemma vslice_sim : forall st pobj obj plo lo phi hi p, vr st pobj obj -> ovrel (hp st) plo lo -> ovrel (hp st) phi hi ->
    qslice pobj plo phi = Ok p -> sim st (vslice d st obj lo hi) p.
  Proof.
    intros st pobj obj plo lo phi hi p Ho Hlo Hhi H. unfold qslice in H. destruct pobj; try discriminate.
    - (* strings *)
      cbn [vrel] in Ho. subst obj. destruct (existsb is_cont x) eqn:Ec; [discriminate|].
      destruct (qbound (length x) plo 0) as [a| |] eqn:Ea; try discriminate. cbn [rbind] in H.
      destruct (qbound (length x) phi (Z.of_nat (length x))) as [b| |] eqn:Eb; try discriminate. cbn [rbind] in H.
      destruct ((0 <=? a) && (a <=? b)) eqn:Eab; [|discriminate]. injection H as <-.
      apply andb_prop in Eab. destruct Eab as [Ea0 Eab]. apply Z.leb_le in Ea0, Eab.
      pose proof (qbound_le _ _ _ _ Eb (Z.le_refl _)) as Hb.
      unfold vslice. destruct d.
      + rewrite (rune_count_plain x Ec). cbv zeta beta.
        rewrite (bound_asp (hp st) _ _ _ _ _ Ea Hlo), (bound_asp (hp st) _ _ _ _ _ Eb Hhi). cbn [rbind].
        replace ((0 <=? a) && (a <=? b)) with true by (symmetry; apply andb_true_intro; split; now apply Z.leb_le).
        eexists; exists st; split; [reflexivity|]; split; [apply xle_refl|reflexivity].
      + cbv zeta beta. rewrite (runes_plain x Ec), map_length.
        rewrite (bound_py (hp st) _ _ _ _ _ Ea Hlo Ea0 ltac:(lia)), (bound_py (hp st) _ _ _ _ _ Eb Hhi ltac:(lia) ltac:(lia)). cbn [rbind].
        rewrite skipn_map, firstn_map, str_concat_singles. eexists; exists st; split; [reflexivity|]; split; [apply xle_refl|reflexivity].
    - (* lists *)
      pose proof Ho as Ho'. apply vrel_list in Ho'. destruct Ho' as (sl & cells & -> & Hn & Hlen & Hitems). cbn [hp fst] in Hn.
      destruct (qbound (length l) plo 0) as [a| |] eqn:Ea; try discriminate. cbn [rbind] in H.
      destruct (qbound (length l) phi (Z.of_nat (length l))) as [b| |] eqn:Eb; try discriminate. cbn [rbind] in H.
      destruct ((0 <=? a) && (a <=? b)) eqn:Eab; [|discriminate]. injection H as <-.
      apply andb_prop in Eab. destruct Eab as [Ea0 Eab]. apply Z.leb_le in Ea0, Eab.
      pose proof (qbound_le _ _ _ _ Eb (Z.le_refl _)) as Hb.
      assert (Hcut : forall items, vrels d (hp st) l items -> vrels d (hp st) (qcut l a b) (qcut items a b)).
      { intros items Hi. unfold qcut, vrels. apply Forall2_firstn, Forall2_skipn. exact Hi. }
      unfold vslice. revert Hitems. destruct d; intros Hitems.
      + cbv zeta beta. rewrite Hlen.
        rewrite (bound_asp (hp st) _ _ _ _ _ Ea Hlo), (bound_asp (hp st) _ _ _ _ _ Eb Hhi). cbn [rbind].
        replace ((0 <=? a) && (a <=? b)) with true by (symmetry; apply andb_true_intro; split; now apply Z.leb_le).
        eexists; exists st; split; [reflexivity|]; split; [apply xle_refl|]. apply vrel_list. eexists. exists cells. split; [reflexivity|]. cbn [s_arr s_len s_off hp fst].
        split; [exact Hn|]. split; [symmetry; now apply qcut_length|].
        unfold lview in *. cbn [s_len s_off]. rewrite Hlen in Hitems.
        rewrite <- (slice_view cells (s_off sl) (length l) (Z.to_nat a) (Z.to_nat (b - a))) by lia.
        exact (Hcut _ Hitems).
      + cbv zeta beta. unfold list_items, arr_of. rewrite (nth_error_nth _ _ _ Hn). unfold lview in Hitems.
        rewrite (vrels_length _ _ _ _ Hitems).
        rewrite (bound_py (hp st) _ _ _ _ _ Ea Hlo Ea0 ltac:(lia)), (bound_py (hp st) _ _ _ _ _ Eb Hhi ltac:(lia) ltac:(lia)). cbn [rbind].
        destruct (alloc_vrel Py st (qcut l a b) (qcut cells a b) 0%nat) as (sl' & st' & E & Hx & Hv).
        * now apply Hcut.
        * intros _. lia.
        * unfold qcut in E. rewrite E. exists (VList sl'), st'. now split.
  Qed.
End Prim.
