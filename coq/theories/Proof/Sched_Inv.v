(* C04 / C05 - invariants of the scheduler LTS (Model/Sched.v), each proved for every reachable state by induction
   over the run (= for every interleaving, any number of workers). *)
From PlzV Require Import Base.Harness Model.Sched Proof.Sched_Base.
From Coq Require Import Lia Arith.

(* events of one target in the logged result stream *)
Fixpoint tstarts (t : nat) (tr : list obs) : nat :=
  match tr with
  | [] => 0
  | OStart u :: r => (if Nat.eqb t u then 1 else 0) + tstarts t r
  | _ :: r => tstarts t r
  end.
Fixpoint tends (t : nat) (tr : list obs) : nat :=
  match tr with
  | [] => 0
  | OEnd u _ :: r => (if Nat.eqb t u then 1 else 0) + tends t r
  | _ :: r => tends t r
  end.

Definition q (s : state) (t : nat) : nat := cnt t (sendq s) + cnt t (actq s) + cnt t (taken s).

Definition async_live (a : astate) : bool :=
  match a with AQueue _ | AResolve _ _ | AWait _ => true | _ => false end.

(* The life of one target: where its build task is, how often it has been started / reported, by state.
   (This is where "a live queueTargetAsync slot is never overwritten" and "the CAS hands out one task" live.) *)
Definition shape (s : state) (t : nat) : Prop :=
  let b := cnt t (building s) in let f := cnt t (finishing s) in let c := cnt t (completing s) in
  let st := tstarts t (trace s) in let en := tends t (trace s) in
  match ts s t with
  | Inactive | Semiactive | Active => q s t = 0 /\ b = 0 /\ f = 0 /\ c = 0 /\ st = 0 /\ en = 0 /\ fin s t = false
  | Pending => q s t <= 1 /\ b = 0 /\ f = 0 /\ c = 0 /\ st = 0 /\ en = 0 /\ fin s t = false
  | Building => q s t = 0 /\ b = 1 /\ f = 0 /\ c = 0 /\ st = 1 /\ en = 0 /\ fin s t = false
  | Built | Cached | Unchanged | Reused | Failed =>
      q s t = 0 /\ b = 0 /\ st = 1 /\ en = 1 /\ ((f = 1 /\ c = 0 /\ fin s t = false) \/ (f = 0 /\ c <= 1 /\ fin s t = true))
  | DependencyFailed => q s t = 0 /\ b = 0 /\ f = 0 /\ c = 0 /\ st = 0 /\ en = 1 /\ fin s t = true
  | Stopped | BuiltRemotely | ReusedRemotely => False
  end.

Definition J (s : state) (t : nat) : Prop :=
  (asy s t = ANone <-> (rank (ts s t) < 2)%N) /\        (* a slot is in use exactly from the successful CAS on *)
  (async_live (asy s t) = true -> ts s t = Active) /\
  shape s t.

Lemma J_init : forall g t, J (init g) t.
Proof. intros g t. unfold J, shape, q. cbn. repeat split; auto; try lia. Qed.

(* frame: J only looks at these components *)
Lemma J_frame : forall s s' t,
  ts s' = ts s -> fin s' = fin s -> asy s' = asy s -> sendq s' = sendq s -> actq s' = actq s -> taken s' = taken s ->
  building s' = building s -> finishing s' = finishing s -> completing s' = completing s ->
  (forall u, tstarts u (trace s') = tstarts u (trace s)) -> (forall u, tends u (trace s') = tends u (trace s)) ->
  J s t -> J s' t.
Proof.
  intros s s' t HErr H2 H3 H4 H5 H6 H7 H8 H9 H10 H11. unfold J, shape, q.
  rewrite HErr, H2, H3, H4, H5, H6, H7, H8, H9, H10, H11. tauto.
Qed.

Lemma task_done_fields : forall s,
  let s' := task_done s in
  ts s' = ts s /\ fin s' = fin s /\ ex s' = ex s /\ pk s' = pk s /\ asy s' = asy s /\ initq s' = initq s /\ ptasks s' = ptasks s /\
  parsers s' = parsers s /\ semi s' = semi s /\ sendq s' = sendq s /\ actq s' = actq s /\ taken s' = taken s /\
  building s' = building s /\ finishing s' = finishing s /\ completing s' = completing s /\ numActive s' = numActive s /\
  initdone s' = initdone s /\ exited s' = exited s /\ failed s' = failed s /\ stopreq s' = stopreq s /\
  cycreported s' = cycreported s /\ trace s' = trace s /\ nfwd s' = nfwd s /\
  numPending s' = (numPending s - 1)%Z /\ closed s' = (closed s || (numPending s - 1 <=? 0)%Z).
Proof.
  intros s. unfold task_done. cbn. destruct (numPending s - 1 <=? 0)%Z; cbn; repeat split; try reflexivity.
  - rewrite orb_true_r. reflexivity.
  - rewrite orb_false_r. reflexivity.
Qed.

Lemma log_fail_fields : forall g s p,
  let s' := log_fail g s p in
  ts s' = ts s /\ fin s' = fin s /\ ex s' = ex s /\ pk s' = pk s /\ asy s' = asy s /\ initq s' = initq s /\ ptasks s' = ptasks s /\
  parsers s' = parsers s /\ semi s' = semi s /\ sendq s' = sendq s /\ actq s' = actq s /\ taken s' = taken s /\
  building s' = building s /\ finishing s' = finishing s /\ completing s' = completing s /\ numActive s' = numActive s /\
  numPending s' = numPending s /\ initdone s' = initdone s /\ closed s' = closed s /\ exited s' = exited s /\
  cycreported s' = cycreported s /\ trace s' = trace s /\ nfwd s' = nfwd s /\ failed s' = true /\
  stopreq s' = (stopreq s || (negb (g_keep_going g) || p)).
Proof.
  intros g s p. unfold log_fail. cbn. destruct (negb (g_keep_going g) || p); cbn; repeat split; try reflexivity.
  - rewrite orb_true_r. reflexivity.
  - rewrite orb_false_r. reflexivity.
Qed.

Ltac fields_of_task_done s := let H := fresh "TD" in pose proof (task_done_fields s) as H; cbv zeta in H; decompose [and] H; clear H.
Ltac fields_of_log_fail g s p := let H := fresh "LF" in pose proof (log_fail_fields g s p) as H; cbv zeta in H; decompose [and] H; clear H.

Lemma J_task_done : forall s t, J s t -> J (task_done s) t.
Proof. intros s t. fields_of_task_done s. apply J_frame; auto; intros; congruence. Qed.
Lemma J_log_fail : forall g s p t, J s t -> J (log_fail g s p) t.
Proof. intros g s p t. fields_of_log_fail g s p. apply J_frame; auto; intros; congruence. Qed.

Lemma J_qr : forall g s d t, J s t -> J (queue_resolved g s d) t.
Proof.
  intros g s d t HJ. rewrite queue_resolved_eq. destruct (qr_ok s d) eqn:Q; [|exact HJ].
  unfold qr_ok in Q. apply N.ltb_lt in Q. unfold qr_state, J, shape, q in *. cbn.
  destruct (Nat.eq_dec t d) as [->|Hne].
  - rewrite !upd_same. destruct HJ as (HA & HB & HS). cbn.
    destruct (ts s d) eqn:E; cbn in Q; try lia; (split; [split; [discriminate | cbn; lia] | split; [reflexivity | exact HS]]).
  - rewrite !upd_other by exact Hne. exact HJ.
Qed.

Lemma J_add_parse : forall s l t, J s t -> J (add_pending_parse s l) t.
Proof. intros s l t. apply J_frame; reflexivity. Qed.

Lemma J_err : forall g s l t, J s t -> J (async_error g s l) t.
Proof.
  intros g s l t HJ. unfold async_error.
  assert (HJ1 : J (set_trace s (OErr l :: trace s)) t) by (revert HJ; apply J_frame; reflexivity).
  apply (J_log_fail g _ false) in HJ1. revert HJ1. apply J_frame; reflexivity.
Qed.

(* asy changes that keep the target Active-phase *)
Lemma J_set_asy_live : forall s t a x, async_live (asy s t) = true -> a <> ANone ->
  J s x -> J (set_asy s (upd (asy s) t a)) x.
Proof.
  intros s t a x Hl Ha HJ. unfold J, shape, q in *. cbn. destruct (Nat.eq_dec x t) as [->|Hne].
  - rewrite upd_same. destruct HJ as (HA & HB & HS). specialize (HB Hl). rewrite HB in *. cbn in *.
    split; [split; [intros; contradiction | lia] | split; [reflexivity | exact HS]].
  - rewrite upd_other by exact Hne. exact HJ.
Qed.

Ltac dasy s t Ea :=
  repeat match goal with H : context [asy s t] |- _ => revert H end;
  destruct (asy s t) as [|todo|todo err|todo| |] eqn:Ea; cbn beta iota; intros; try discriminate.
Ltac dlist l :=
  repeat match goal with H : context [match l with _ => _ end] |- _ => revert H end;
  destruct l as [|?d ?r]; cbn beta iota; intros; try discriminate.

Ltac eq_cases x t := let Hne := fresh "Hne" in cbn [tstarts tends cnt];
  destruct (Nat.eq_dec x t) as [->|Hne];
  [rewrite ?upd_same in *; rewrite ?Nat.eqb_refl
  | rewrite ?upd_other in * by exact Hne; rewrite ?(proj2 (Nat.eqb_neq x t) Hne); cbn [Nat.add]].

Ltac finish := repeat match goal with H : _ /\ _ |- _ => destruct H end;
  repeat split; intros; try discriminate; try congruence; try lia; try tauto.

Ltac dand := repeat match goal with H : _ /\ _ |- _ => destruct H end.
Ltac crush := dand; repeat match goal with H : _ \/ _ |- _ => destruct H; dand end;
  try (exfalso; lia); repeat split; intros; try lia; try tauto; try congruence;
  try (left; repeat split; (lia || congruence)); try (right; repeat split; (lia || congruence)).

Ltac btrue := repeat match goal with
  | H : context [negb wait_needs_close || _] |- _ => rewrite wait_ok_eq in H
  | H : (_ && _) = true |- _ => apply andb_prop in H; destruct H
  | H : negb _ = true |- _ => apply negb_true_iff in H
  end.

Lemma cnt_cons : forall x t l, cnt x (t :: l) = (if Nat.eqb x t then 1 else 0) + cnt x l.
Proof. reflexivity. Qed.

Ltac cnt_other := repeat match goal with
  | H : ?x <> ?t |- context [cnt ?x (remove1 ?t _)] => rewrite (cnt_remove1_other x t) by exact H
  | H : ?x <> ?t |- context [cnt ?x (?t :: _)] => rewrite (cnt_cons x t); destruct (Nat.eqb_spec x t); [contradiction|]; cbn [Nat.add]
  end.

Theorem J_step : forall g s l, (forall t, J s t) -> enabled g s l = true -> forall x, J (apply g s l) x.
Proof.
  intros g s l HJ He x. pose proof (HJ x) as HJx.
  destruct l; unfold enabled in He; cbv beta iota in He; cbn [apply]; btrue.
  - (* LInitRequest *) destruct (initq s); [exact HJx|]. apply J_add_parse. revert HJx. apply J_frame; reflexivity.
  - (* LInitDone *) apply J_task_done. revert HJx. apply J_frame; reflexivity.
  - (* LParseActivate *) apply J_task_done. cbn. destruct (ex s l).
    + apply J_qr. revert HJx. apply J_frame; reflexivity.
    + apply J_log_fail. revert HJx. apply J_frame; reflexivity.
  - (* LParseClaim *) revert HJx. apply J_frame; reflexivity.
  - (* LAddTarget *) destruct (Nat.eqb t l); [apply J_qr|]; revert HJx; apply J_frame; reflexivity.
  - (* LParseOk *) apply J_task_done. cbn. destruct (ex s l).
    + apply J_qr. revert HJx. apply J_frame; reflexivity.
    + apply J_log_fail. revert HJx. apply J_frame; reflexivity.
  - (* LParseFail *) apply J_task_done, J_log_fail. revert HJx. apply J_frame; reflexivity.
  - (* LMarkSemi *)
    destruct (cas cas_noneed (ts s t)) as [new|] eqn:C; [|exact HJx].
    assert (ts s t = Inactive /\ new = Semiactive) as [Ht ->].
    { destruct (ts s t); cbn in C; inversion C; split; reflexivity. }
    unfold J, shape, q in *. cbn. eq_cases x t; [|exact HJx].
    rewrite Ht in HJx. cbn in *. destruct HJx as (HA & HB & HS).
    split; [split; [apply HA | intros _; apply HA; lia] | split; [intros Hl; specialize (HB Hl); discriminate | exact HS]].
  - (* LSemiDone *) apply J_task_done. revert HJx. apply J_frame; reflexivity.
  - (* LAsyncQueueDep *)
    dasy s t Ea. dlist todo.
    assert (Hl : async_live (asy s t) = true) by (rewrite Ea; reflexivity).
    destruct (ex s d).
    + assert (Hl' : async_live (asy (queue_resolved g s d) t) = true).
      { rewrite queue_resolved_eq. destruct (qr_ok s d); [|exact Hl]. unfold qr_state. cbn.
        destruct (Nat.eq_dec t d) as [->|Hne]; [rewrite upd_same; reflexivity | rewrite upd_other by exact Hne; exact Hl]. }
      apply J_set_asy_live; [exact Hl' | discriminate | apply J_qr; exact HJx].
    + destruct (pst_eqb (pk s (g_pkg g d)) PParsed).
      * pose proof (J_err g s d x HJx) as HErr. pose proof (J_err g s d t (HJ t)) as HErrT.
        unfold J, shape, q in *. cbn. unfold async_error in *. fields_of_log_fail g (set_trace s (OErr d :: trace s)) false.
        cbn in *. eq_cases x t; [|exact HErr].
        destruct HErr as (HA & HB & HS).
        assert (Hts : ts s t = Active) by (destruct (HJ t) as (_ & HB' & _); apply HB'; exact Hl).
        repeat match goal with H : ts _ = ts s |- _ => rewrite H in * end. rewrite Hts in *. cbn.
        split; [split; [discriminate | lia] | split; [discriminate | exact HS]].
      * assert (Hl' : async_live (asy (add_pending_parse s d) t) = true) by exact Hl.
        apply J_set_asy_live; [exact Hl' | discriminate | apply J_add_parse; exact HJx].
  - (* LAsyncBeginResolve *)
    dasy s t Ea. dlist todo.
    apply J_set_asy_live; [rewrite Ea; reflexivity | discriminate | exact HJx].
  - (* LAsyncResolveDep *)
    dasy s t Ea.
    assert (Hl : async_live (asy s t) = true) by (rewrite Ea; reflexivity).
    destruct (ex s d).
    + assert (Hl' : async_live (asy (queue_resolved g s d) t) = true).
      { rewrite queue_resolved_eq. destruct (qr_ok s d); [|exact Hl]. unfold qr_state. cbn.
        destruct (Nat.eq_dec t d) as [->|Hne]; [rewrite upd_same; reflexivity | rewrite upd_other by exact Hne; exact Hl]. }
      apply J_set_asy_live; [exact Hl' | discriminate | apply J_qr; exact HJx].
    + apply J_set_asy_live; [exact Hl | discriminate | exact HJx].
  - (* LAsyncBeginWait *)
    dasy s t Ea. dlist todo.
    assert (Hl : async_live (asy s t) = true) by (rewrite Ea; reflexivity).
    destruct err.
    + pose proof (J_err g s t x HJx) as HErr.
      unfold J, shape, q in *. cbn. unfold async_error in *. fields_of_log_fail g (set_trace s (OErr t :: trace s)) false.
      cbn in *. eq_cases x t; [|exact HErr].
      destruct HErr as (HA & HB & HS).
      assert (Hts : ts s t = Active) by (destruct (HJ t) as (_ & HB' & _); apply HB'; exact Hl).
      repeat match goal with H : ts _ = ts s |- _ => rewrite H in * end. rewrite Hts in *. cbn.
      split; [split; [discriminate | lia] | split; [discriminate | exact HS]].
    + apply J_set_asy_live; [exact Hl | discriminate | exact HJx].
  - (* LWaitDep *)
    dasy s t Ea. dlist todo.
    apply J_set_asy_live; [rewrite Ea; reflexivity | discriminate | exact HJx].
  - (* LDepFailed *)
    dasy s t Ea. dlist todo.
    assert (Hts : ts s t = Active) by (destruct (HJ t) as (_ & HB' & _); apply HB'; rewrite Ea; reflexivity).
    unfold J, shape, q in *. cbn. eq_cases x t; [|exact HJx].
    rewrite Hts in HJx. cbn in HJx. destruct HJx as (HA & HB & HS). rewrite ?Nat.eqb_refl. cbn.
    finish.
  - (* LActivatePending *)
    dasy s t Ea. dlist todo.
    assert (Hts : ts s t = Active) by (destruct (HJ t) as (_ & HB' & _); apply HB'; rewrite Ea; reflexivity).
    rewrite Hts. cbn. unfold J, shape, q in *. cbn. eq_cases x t.
    + rewrite Hts in HJx. cbn in HJx. destruct HJx as (HA & HB & HS). rewrite ?Nat.eqb_refl. cbn.
      finish.
    + cnt_other. exact HJx.
  - (* LAsyncDone *)
    dasy s t Ea.
    apply J_task_done. unfold J, shape, q in *. cbn. eq_cases x t; [|exact HJx].
    destruct HJx as (HA & HB & HS). rewrite Ea in *. cbn in *.
    split; [split; [discriminate | intros Hr; apply HA in Hr; discriminate] | split; [discriminate | exact HS]].
  - (* LSendTask *)
    assert (Hq : 1 <= cnt t (sendq s)) by (apply mem_cnt; assumption).
    pose proof (cnt_remove1_same t (sendq s) ltac:(assumption)) as Hr.
    cbn. destruct (closed s); unfold J, shape, q in *; cbn; eq_cases x t; cnt_other; try exact HJx.
    + destruct HJx as (HA & HB & HS). split; [exact HA | split; [exact HB|]].
      destruct (ts s t); cbn in *; crush.
    + destruct HJx as (HA & HB & HS). split; [exact HA | split; [exact HB|]]. rewrite ?Nat.eqb_refl.
      destruct (ts s t); cbn in *; crush.
  - (* LWorkerTake *)
    assert (Hq : 1 <= cnt t (actq s)) by (apply mem_cnt; assumption).
    pose proof (cnt_remove1_same t (actq s) ltac:(assumption)) as Hr.
    unfold J, shape, q in *; cbn; eq_cases x t; cnt_other; try exact HJx.
    destruct HJx as (HA & HB & HS). split; [exact HA | split; [exact HB|]]. rewrite ?Nat.eqb_refl.
    destruct (ts s t); cbn in *; crush.
  - (* LBuildStart *)
    assert (Hq : 1 <= cnt t (taken s)) by (apply mem_cnt; assumption).
    pose proof (cnt_remove1_same t (taken s) ltac:(assumption)) as Hr.
    unfold J, shape, q in *; cbn; eq_cases x t; cnt_other; try exact HJx.
    destruct HJx as (HA & HB & HS). rewrite ?Nat.eqb_refl.
    destruct (ts s t) eqn:Ets; cbn in *; dand; try (exfalso; lia); try tauto.
    split; [split; [intros Hn; apply HA in Hn; lia | lia] | split; [intros Hl; specialize (HB Hl); discriminate | crush]].
  - (* LBuildOk *)
    assert (Hq : 1 <= cnt t (building s)) by (apply mem_cnt; assumption).
    pose proof (cnt_remove1_same t (building s) ltac:(assumption)) as Hr.
    unfold J, shape, q in *; cbn; eq_cases x t; cnt_other; try exact HJx.
    destruct HJx as (HA & HB & HS). rewrite ?Nat.eqb_refl.
    destruct (ts s t) eqn:Ets; cbn in *; dand; try (exfalso; lia); try tauto.
    assert (Ho : o = Built \/ o = Unchanged \/ o = Reused).
    { unfold built_kind, st_eqb in *. destruct o; cbn in *; try discriminate; auto. }
    split; [split; [intros Hn; apply HA in Hn; lia | destruct Ho as [->|[->| ->]]; cbn; lia] | split; [intros Hl; specialize (HB Hl); discriminate |]].
    destruct Ho as [->|[->| ->]]; cbn; (repeat split; try lia; left; repeat split; (lia || congruence)).
  - (* LBuildFail *)
    assert (Hq : 1 <= cnt t (building s)) by (apply mem_cnt; assumption).
    pose proof (cnt_remove1_same t (building s) ltac:(assumption)) as Hr.
    fields_of_log_fail g (set_trace (set_finishing (set_building s (remove1 t (building s))) (t :: finishing s)) (OEnd t RFailed :: trace s)) false.
    unfold J, shape, q in *; cbn in *.
    repeat match goal with H : _ (log_fail _ _ _) = _ |- _ => rewrite H; clear H end. cbn.
    eq_cases x t; cnt_other; try exact HJx.
    destruct HJx as (HA & HB & HS). rewrite ?Nat.eqb_refl.
    destruct (ts s t) eqn:Ets; cbn in *; dand; try (exfalso; lia); try tauto.
    split; [split; [intros Hn; apply HA in Hn; lia | lia] | split; [intros Hl; specialize (HB Hl); discriminate | crush]].
  - (* LFinishBuild *)
    assert (Hq : 1 <= cnt t (finishing s)) by (apply mem_cnt; assumption).
    pose proof (cnt_remove1_same t (finishing s) ltac:(assumption)) as Hr.
    unfold J, shape, q in *; cbn; eq_cases x t; cnt_other; try exact HJx.
    destruct HJx as (HA & HB & HS). split; [exact HA | split; [exact HB|]]. rewrite ?Nat.eqb_refl.
    destruct (ts s t); cbn in *; crush.
  - (* LTaskDone *)
    assert (Hq : 1 <= cnt t (completing s)) by (apply mem_cnt; assumption).
    pose proof (cnt_remove1_same t (completing s) ltac:(assumption)) as Hr.
    apply J_task_done.
    unfold J, shape, q in *; cbn; eq_cases x t; cnt_other; try exact HJx.
    destruct HJx as (HA & HB & HS). split; [exact HA | split; [exact HB|]].
    destruct (ts s t); cbn in *; crush.
  - (* LForward *) revert HJx. apply J_frame; reflexivity.
  - (* LStop *) revert HJx. apply J_frame; reflexivity.
  - (* LTimerCycleCheck *)
    pose proof (J_err g s (hd 0 c) x HJx) as HErr. revert HErr. apply J_frame; reflexivity.
  - (* LExitRun *) revert HJx. apply J_frame; reflexivity.
Qed.

Theorem J_reachable : forall g s, reachable g s -> forall t, J s t.
Proof.
  intros g s Hr. pattern s. apply (reachable_ind' g); [intros t; apply J_init | | exact Hr].
  intros s0 l _ HJ He. apply J_step; assumption.
Qed.
