(* C17, follow-up 2 - CONFIG isolation between the packages of one interpreter (Model/C17_Config.v).

   The proofs start from the GENERATED definitions Gen.C17Config.c17_merge_nil_branch (the nil branch of pyConfig.Merge)
   and c17_pkg_dict_steps (the dict branch of pkg()): merge_nil_branch_ok / pkg_dict_steps_ok compute them, and every
   lemma about cfg_merge / PPkgDict rewrites with these two, so a change of either statement in /repo breaks them.

   canon g: the interpreter state is exactly what the TEXT of the loaded build_defs files determines - no exported dict
   has been written to (g_dicts g = []) and every cached overlay is load_ov of its file.  It is an invariant of every
   history of packages without a write through a dict-valued entry (PNested), and from a canon state a package computes
   a function of its own text only (pure_run). *)
From PlzV Require Import Base.Harness Base.StrFacts Model.C16_Syntax Model.C16_Eval Model.C16 Model.C17_Config.
From PlzV Require Import Gen.C17Config.
From Coq Require Import Lia.

Lemma merge_nil_branch_ok : c17_merge_nil_branch = [C17MMake].
Proof. reflexivity. Qed.

Lemma pkg_dict_steps_ok : c17_pkg_dict_steps = [C17PCopy; C17PLoop C17PNew C17PNew; C17PSetV C17PNew].
Proof. reflexivity. Qed.

Definition local (p : pov) : Prop := match p with PAdopted _ => False | _ => True end.
Definition safe_op (op : pop) : bool := match op with PNested _ _ _ => false | _ => true end.
Definition safe (ops : list pop) : Prop := forallb safe_op ops = true.

Definition canon (defs : defs_table) (base : list (str * str)) (g : gstate) : Prop :=
  g_dicts g = [] /\
  forall d o, aget d (g_ovs g) = Some o -> exists ops, aget d defs = Some ops /\ o = load_ov base d 0 ops None.

Definition extends (g g' : gstate) : Prop := forall d o, aget d (g_ovs g) = Some o -> aget d (g_ovs g') = Some o.

Lemma canon_g0 defs base : canon defs base g0.
Proof. split; [reflexivity|]. intros d o H. discriminate H. Qed.

Lemma aget_app {A} k (m : list (str * A)) d o :
  aget k (m ++ [(d, o)]) = match aget k m with Some v => Some v | None => if str_eqb k d then Some o else None end.
Proof.
  induction m as [|[k' v'] m IH]; cbn.
  - reflexivity.
  - destruct (str_eqb k k'); [reflexivity | exact IH].
Qed.

(* ---------------------------------------------------------------- a package-local config never touches the interpreter *)
Definition lassign (p : pov) (k : str) (v : cval) : pov := snd (cfg_assign g0 p k v).

Lemma cfg_assign_local g p k v : local p -> cfg_assign g p k v = (g, lassign p k v) /\ local (lassign p k v).
Proof. destruct p; cbn; intros H; try contradiction; split; auto. Qed.

Lemma cfg_get_local base g p k : local p -> cfg_get base g p k = cfg_get base g0 p k.
Proof. destruct p; cbn; intros H; try contradiction; reflexivity. Qed.

Lemma old_content_canon defs g c : g_dicts g = [] -> old_content defs g c = old_content defs g0 c.
Proof. intros H. destruct c; cbn; try reflexivity. unfold dict_content. rewrite H. reflexivity. Qed.

Definition lmerge (p : pov) (m : omap) : pov :=
  fold_left (fun acc kv => lassign acc (fst kv) (snd kv)) m (match p with PNil => POwn [] | _ => p end).

Lemma fold_assign_local g m : forall p, local p ->
  fold_left (fun acc kv => cfg_assign (fst acc) (snd acc) (fst kv) (snd kv)) m (g, p)
  = (g, fold_left (fun acc kv => lassign acc (fst kv) (snd kv)) m p)
  /\ local (fold_left (fun acc kv => lassign acc (fst kv) (snd kv)) m p).
Proof.
  induction m as [|[k v] m IH]; intros p Hp; cbn.
  - split; auto.
  - destruct (cfg_assign_local g p k v Hp) as [E Hl]. rewrite E. apply IH. exact Hl.
Qed.

(* Merge, as translated: the receiver gets a map of its own, so the interpreter state is not touched *)
Lemma cfg_merge_local g p d m : local p -> cfg_merge g p d m = (g, Some (lmerge p m)) /\ local (lmerge p m).
Proof.
  intros Hp. unfold cfg_merge, lmerge. rewrite merge_nil_branch_ok.
  destruct p as [|m0|d0]; cbn in Hp; try contradiction; cbn [merge_nil].
  - destruct (fold_assign_local g m (POwn []) I) as [E Hl]. destruct m; cbn in *.
    + split; auto.
    + rewrite E. split; auto.
  - destruct (fold_assign_local g m (POwn m0) I) as [E Hl]. rewrite E. split; auto.
Qed.

(* ---------------------------------------------------------------- one statement *)
Definition pure_step (defs : defs_table) (base : list (str * str)) (op : pop) (p : pov) : option pov :=
  snd (step defs base op g0 p).

Definition res_local (r : option pov) : Prop := match r with Some p => local p | None => True end.

Lemma canon_load defs base g d ops :
  canon defs base g -> aget d defs = Some ops -> aget d (g_ovs g) = None ->
  canon defs base (GSt (g_ovs g ++ [(d, load_ov base d 0 ops None)]) (g_dicts g)) /\
  extends g (GSt (g_ovs g ++ [(d, load_ov base d 0 ops None)]) (g_dicts g)).
Proof.
  intros [Hd Hc] Hdefs Hnone. split; [split|]; cbn.
  - exact Hd.
  - intros d' o H. rewrite aget_app in H. destruct (aget d' (g_ovs g)) eqn:E.
    + inversion H; subst. apply Hc. exact E.
    + destruct (str_eqb d' d) eqn:Ed; [|discriminate]. apply str_eqb_eq in Ed. subst d'. inversion H; subst.
      exists ops. split; auto.
  - intros d' o H. cbn. rewrite aget_app. rewrite H. reflexivity.
Qed.

Lemma extends_refl g : extends g g.
Proof. intros d o H; exact H. Qed.

Lemma step_det defs base op g p :
  canon defs base g -> local p -> safe_op op = true ->
  exists g', step defs base op g p = (g', pure_step defs base op p)
             /\ canon defs base g' /\ extends g g' /\ res_local (pure_step defs base op p).
Proof.
  intros Hc Hp Hs. unfold pure_step. destruct op as [d|k l|k l|k v|k nk v|k nk v]; cbn [step safe_op] in *; try discriminate.
  - (* PSub *)
    destruct (aget d defs) as [ops|] eqn:Ed.
    2:{ exists g. cbn. repeat split; auto using extends_refl; apply Hc. }
    cbn [g0 g_ovs aget app].
    assert (Hm : forall gx, match load_ov base d 0 ops None with
                            | None => (gx, Some p) | Some m => cfg_merge gx p d m end
                            = (gx, match load_ov base d 0 ops None with None => Some p | Some m => Some (lmerge p m) end)
                            /\ res_local (match load_ov base d 0 ops None with None => Some p | Some m => Some (lmerge p m) end)).
    { intros gx. destruct (load_ov base d 0 ops None) as [m|].
      - destruct (cfg_merge_local gx p d m Hp) as [E Hl]. rewrite E. split; auto.
      - split; auto. }
    destruct (aget d (g_ovs g)) as [o|] eqn:Eg.
    + destruct Hc as [Hd Hcc]. destruct (Hcc d o Eg) as [ops' [E1 E2]]. rewrite Ed in E1. inversion E1; subst ops'. subst o.
      exists g. destruct (Hm g) as [E Hl]. rewrite E. destruct (Hm (GSt [(d, load_ov base d 0 ops None)] (g_dicts g0))) as [E' _].
      rewrite E'. cbn. repeat split; auto using extends_refl.
    + destruct (canon_load defs base g d ops Hc Ed Eg) as [Hc' Hx].
      exists (GSt (g_ovs g ++ [(d, load_ov base d 0 ops None)]) (g_dicts g)).
      destruct (Hm (GSt (g_ovs g ++ [(d, load_ov base d 0 ops None)]) (g_dicts g))) as [E Hl]. rewrite E.
      destruct (Hm (GSt [(d, load_ov base d 0 ops None)] (g_dicts g0))) as [E' _]. rewrite E'. cbn. repeat split; auto; apply Hc'.
  - (* PAssign *)
    destruct (cfg_assign_local g p k (pval l) Hp) as [E Hl]. destruct (cfg_assign_local g0 p k (pval l) Hp) as [E0 _].
    rewrite E, E0. exists g. cbn. repeat split; auto using extends_refl; apply Hc.
  - (* PSetDefault *)
    rewrite (cfg_get_local base g p k Hp). destruct (cfg_get base g0 p k).
    + exists g. cbn. repeat split; auto using extends_refl; apply Hc.
    + destruct (cfg_assign_local g p k (pval l) Hp) as [E Hl]. destruct (cfg_assign_local g0 p k (pval l) Hp) as [E0 _].
      rewrite E, E0. exists g. cbn. repeat split; auto using extends_refl; apply Hc.
  - (* PPkgScalar *)
    rewrite (cfg_get_local base g p k Hp). destruct (cfg_get base g0 p k).
    + destruct (cfg_assign_local g p k (CStr v) Hp) as [E Hl]. destruct (cfg_assign_local g0 p k (CStr v) Hp) as [E0 _].
      rewrite E, E0. exists g. cbn. repeat split; auto using extends_refl; apply Hc.
    + exists g. cbn. repeat split; auto using extends_refl; apply Hc.
  - (* PPkgDict: the translated statements write to the copy only *)
    rewrite (cfg_get_local base g p k Hp). rewrite pkg_dict_steps_ok.
    assert (Hd : g_dicts g = []) by apply Hc.
    destruct (cfg_get base g0 p k) as [old|].
    2:{ exists g. cbn. repeat split; auto using extends_refl; apply Hc. }
    destruct old as [x|r|x].
    + exists g. cbn. repeat split; auto using extends_refl; apply Hc.
    + cbn [pkg_steps]. rewrite (old_content_canon defs g (CRef r) Hd).
      destruct (aget nk (old_content defs g0 (CRef r))).
      * destruct (cfg_assign_local g p k (COwn (aset nk v (old_content defs g0 (CRef r)))) Hp) as [E Hl].
        destruct (cfg_assign_local g0 p k (COwn (aset nk v (old_content defs g0 (CRef r)))) Hp) as [E0 _].
        rewrite E, E0. exists g. cbn. repeat split; auto using extends_refl; apply Hc.
      * exists g. cbn. repeat split; auto using extends_refl; apply Hc.
    + cbn [pkg_steps]. rewrite (old_content_canon defs g (COwn x) Hd).
      destruct (aget nk (old_content defs g0 (COwn x))).
      * destruct (cfg_assign_local g p k (COwn (aset nk v (old_content defs g0 (COwn x)))) Hp) as [E Hl].
        destruct (cfg_assign_local g0 p k (COwn (aset nk v (old_content defs g0 (COwn x)))) Hp) as [E0 _].
        rewrite E, E0. exists g. cbn. repeat split; auto using extends_refl; apply Hc.
      * exists g. cbn. repeat split; auto using extends_refl; apply Hc.
Qed.

(* ---------------------------------------------------------------- one package *)
Fixpoint pure_run (defs : defs_table) (base : list (str * str)) (ops : list pop) (p : pov) : option pov :=
  match ops with
  | [] => Some p
  | op :: r => match pure_step defs base op p with Some p1 => pure_run defs base r p1 | None => None end
  end.

Lemma extends_trans a b c : extends a b -> extends b c -> extends a c.
Proof. intros H1 H2 d o H. apply H2, H1, H. Qed.

Lemma run_ops_det defs base ops : forall g p,
  canon defs base g -> local p -> safe ops ->
  exists g', run_ops defs base ops g p = (g', pure_run defs base ops p)
             /\ canon defs base g' /\ extends g g' /\ res_local (pure_run defs base ops p).
Proof.
  induction ops as [|op r IH]; intros g p Hc Hp Hs; cbn.
  - exists g. repeat split; auto using extends_refl; apply Hc.
  - unfold safe in Hs. cbn in Hs. apply andb_true_iff in Hs. destruct Hs as [Hs1 Hs2].
    destruct (step_det defs base op g p Hc Hp Hs1) as [g1 [E [Hc1 [Hx1 Hl1]]]]. rewrite E.
    destruct (pure_step defs base op p) as [p1|].
    + destruct (IH g1 p1 Hc1 Hl1 Hs2) as [g2 [E2 [Hc2 [Hx2 Hl2]]]]. exists g2. rewrite E2.
      repeat split; auto; try apply Hc2. eapply extends_trans; eauto.
    + exists g1. repeat split; auto; apply Hc1.
Qed.

(* ---------------------------------------------------------------- what a package reads does not depend on the interpreter *)
Lemma render_canon defs base keys nkeys g p :
  canon defs base g -> local p -> render defs base keys nkeys g p = render defs base keys nkeys g0 p.
Proof.
  intros [Hd _] Hp. unfold render. apply map_ext. intros k. rewrite (cfg_get_local base g p k Hp).
  unfold render_val. destruct (cfg_get base g0 p k) as [[x|r|x]|]; try reflexivity;
    rewrite (old_content_canon defs g _ Hd); reflexivity.
Qed.

(* what one package computes, as a function of its own text (and the text of the build_defs files) only *)
Definition pure_pkg (defs : defs_table) (base : list (str * str)) (keys nkeys : list str) (ops : list pop) : cout :=
  match pure_run defs base ops PNil with
  | Some p => COOk (render defs base keys nkeys g0 p) (render defs base keys nkeys g0 p)
  | None => COErr
  end.

Definition out_of (defs : defs_table) (base : list (str * str)) (keys nkeys : list str) (gend : gstate) (r : option (pov * list rv)) : cout :=
  match r with None => COErr | Some (p, after) => COOk after (render defs base keys nkeys gend p) end.

Lemma run_pkgs_det defs base keys nkeys pkgs : forall g,
  canon defs base g -> Forall safe pkgs ->
  let '(g', res) := run_pkgs defs base keys nkeys pkgs g in
  canon defs base g' /\ extends g g' /\
  forall gend, canon defs base gend -> map (out_of defs base keys nkeys gend) res = map (pure_pkg defs base keys nkeys) pkgs.
Proof.
  induction pkgs as [|ops r IH]; intros g Hc Hs; cbn.
  - repeat split; auto using extends_refl; apply Hc.
  - inversion Hs as [|? ? Hs1 Hs2]; subst.
    destruct (run_ops_det defs base ops g PNil Hc I Hs1) as [g1 [E [Hc1 [Hx1 Hl1]]]]. rewrite E.
    specialize (IH g1 Hc1 Hs2). destruct (run_pkgs defs base keys nkeys r g1) as [g2 rest].
    destruct IH as [Hc2 [Hx2 Hmap]]. repeat split; try apply Hc2.
    + eapply extends_trans; eauto.
    + intros gend Hce. cbn. rewrite (Hmap gend Hce). f_equal. unfold pure_pkg.
      destruct (pure_run defs base ops PNil) as [p|]; cbn; [|reflexivity].
      cbn in Hl1. rewrite (render_canon defs base keys nkeys g1 p Hc1 Hl1), (render_canon defs base keys nkeys gend p Hce Hl1). reflexivity.
Qed.

(* ---------------------------------------------------------------- the theorems *)
(* every state reached from the empty interpreter by ANY sequence of packages (without a write through a dict-valued
   entry) is canon: no exported overlay and no exported dict has been changed by any of them *)
Theorem canon_invariant defs base keys nkeys pkgs :
  Forall safe pkgs -> canon defs base (fst (run_pkgs defs base keys nkeys pkgs g0)).
Proof.
  intros Hs. pose proof (run_pkgs_det defs base keys nkeys pkgs g0 (canon_g0 defs base) Hs) as H.
  destruct (run_pkgs defs base keys nkeys pkgs g0) as [g' res]. apply H.
Qed.

(* what every package of a scenario ends with - and what it still has after all the others ran - is a function of its
   own text only *)
Theorem scenario_pure defs base keys nkeys pkgs :
  Forall safe pkgs -> scenario defs base keys nkeys pkgs = map (pure_pkg defs base keys nkeys) pkgs.
Proof.
  intros Hs. unfold scenario. pose proof (run_pkgs_det defs base keys nkeys pkgs g0 (canon_g0 defs base) Hs) as H.
  destruct (run_pkgs defs base keys nkeys pkgs g0) as [gend res]. destruct H as [Hc [_ Hmap]].
  exact (Hmap gend Hc).
Qed.

(* b after any history = b alone *)
Theorem cfg_isolation defs base keys nkeys hist b :
  Forall safe hist -> safe b ->
  nth_error (scenario defs base keys nkeys (hist ++ [b])) (length hist) = nth_error (scenario defs base keys nkeys [b]) 0.
Proof.
  intros Hh Hb. rewrite !scenario_pure.
  - rewrite map_app, nth_error_app2; rewrite map_length; [|lia]. rewrite Nat.sub_diag. reflexivity.
  - constructor; auto.
  - apply Forall_app. split; auto.
Qed.

(* nothing a package has changes when other packages run afterwards *)
Theorem cfg_stable defs base keys nkeys pkgs :
  Forall safe pkgs -> Forall (fun o => match o with COErr => True | COOk a f => a = f end) (scenario defs base keys nkeys pkgs).
Proof.
  intros Hs. rewrite scenario_pure by exact Hs. apply Forall_forall. intros o Hin. apply in_map_iff in Hin.
  destruct Hin as [ops [E _]]. subst o. unfold pure_pkg. destruct (pure_run defs base ops PNil); auto.
Qed.

(* ---------------------------------------------------------------- the statement at full strength, and why it is false *)
Definition cfg_statement : Prop :=
  forall defs base keys nkeys hist b,
    nth_error (scenario defs base keys nkeys (hist ++ [b])) (length hist) = nth_error (scenario defs base keys nkeys [b]) 0.

Definition wd : str := s "//defs:d".
Definition wdefs : defs_table := [(wd, [DSetDefault (s "MYLANG") (LDict [(s "OPT", s "-O2"); (s "WARN", s "-Wall")])])].
Definition wa : list pop := [PSub wd; PNested (s "MYLANG") (s "OPT") (s "-O0")].
Definition wb : list pop := [PSub wd].

Theorem cfg_refuted : ~ cfg_statement.
Proof.
  intros H. specialize (H wdefs [] [s "MYLANG"] [s "OPT"; s "WARN"] [wa] wb). vm_compute in H. discriminate H.
Qed.

Theorem cfg_partial :
  forall defs base keys nkeys hist b, Forall safe hist -> safe b ->
    nth_error (scenario defs base keys nkeys (hist ++ [b])) (length hist) = nth_error (scenario defs base keys nkeys [b]) 0.
Proof. exact cfg_isolation. Qed.

(* non-vacuity: a history in which a package subincludes the file, overrides one nested key with package(), assigns and
   setdefaults; b still reads the file's values *)
Definition ea : list pop := [PSub wd; PPkgDict (s "MYLANG") (s "OPT") (s "-O0"); PAssign (s "K") (LStr (s "x")); PSetDefault (s "J") (LStr (s "y"))].
Example cfg_partial_nonvacuous :
  Forall safe [ea] /\ safe wb /\
  scenario wdefs [] [s "MYLANG"; s "K"] [s "OPT"; s "WARN"] [ea; wb]
  = [COOk [RVDict [Some (s "-O0"); Some (s "-Wall")]; RVStr (s "x")] [RVDict [Some (s "-O0"); Some (s "-Wall")]; RVStr (s "x")];
     COOk [RVDict [Some (s "-O2"); Some (s "-Wall")]; RVNone] [RVDict [Some (s "-O2"); Some (s "-Wall")]; RVNone]].
Proof. split; [repeat constructor | split; reflexivity]. Qed.
