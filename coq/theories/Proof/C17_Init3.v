(* C17 - from the EMPTY interpreter, part 3: loader packages (`subinclude(label)` and nothing else), any sequence of
   them from any state satisfying G - in particular from the empty interpreter - and THE THEOREM: the hypotheses of
   packages_do_not_interfere (at rest, closed, every file cached) are discharged. *)
From Coq Require Import String Lia.
From PlzV Require Import Base.Harness Base.StrFacts Gen.AspTables Model.C16_Syntax Model.C16_Ops Model.C16_Prim Model.C16_Eval.
From PlzV Require Import Proof.C17_Inv Proof.C17_Main Proof.C17_NoConst Proof.C17_Scopes Proof.C17_Iso Proof.C17_Sim7 Proof.C17_Init1 Proof.C17_Init2.
Local Open Scope list_scope.
Local Open Scope nat_scope.

#[local] Arguments opt_stmts : simpl never.
#[local] Arguments drop_pass : simpl never.

Section Loaders.
Variable defs : list (str * prog).

Definition loader (l : str) : prog := [sub_stmt l].
Definition cached (l : str) (st : state) : Prop := assoc_get l (subcache st) <> None.

Definition new_pkg (st : state) : state := set_locals [] (set_cur (length (fscopes st)) (set_fscopes (fscopes st ++ [[]]) st)).

Lemma lookup_new_pkg : forall st, lookup (s "subinclude") (new_pkg st) = Some (VBuiltin (s "subinclude")).
Proof.
  intros st. unfold lookup, new_pkg. cbn [locals cur fscopes set_locals set_cur set_fscopes envs_get].
  rewrite nth_middle. reflexivity.
Qed.

(* the class of the file a loader would load in this state (None when it is cached or unknown: nothing is loaded) *)
Definition step_class (l : str) (st : state) : option init_defect :=
  match assoc_get l (subcache st), find_def defs l with
  | None, Some p => file_class (length (consts st)) p
  | _, _ => None
  end.

Lemma assoc_get_hd : forall {A} l (x : A) r, assoc_get l ((l, x) :: r) = Some x.
Proof. intros. cbn [assoc_get]. rewrite str_eqb_refl. reflexivity. Qed.

Lemma assoc_get_tl : forall {A} l l' (x : A) r, assoc_get l r <> None -> assoc_get l ((l', x) :: r) <> None.
Proof. intros A l l' x r H. cbn [assoc_get]. destruct (str_eqb l l'); [discriminate|exact H]. Qed.

Lemma step_class_new_pkg : forall l st, step_class l (new_pkg st) = step_class l st.
Proof. reflexivity. Qed.

Lemma cached_globals_flat : forall st l globals, G None st -> assoc_get l (subcache st) = Some globals ->
  Forall (fun kv : str * value => fflatb (length (arrays st)) (length (funcs st)) (snd kv) = true) globals.
Proof.
  intros st l globals HG Eg. pose proof (g_sub _ _ HG) as Hs.
  induction (subcache st) as [|[k e] r IH]; [discriminate Eg|]. cbn [assoc_get] in Eg. inversion Hs; subst.
  destruct (str_eqb l k); [injection Eg as <-; assumption|auto].
Qed.

(* the subinclude statement in any state in which the name is the builtin *)
Definition sub_post (l : str) (st1 : state) : sres -> state -> Prop :=
  fun _ st' => G None st' /\ cached l st' /\ forall l', cached l' st1 -> cached l' st'.

Lemma sub_uncached : forall f l st1 pc, class_of pc = None -> G None st1 ->
  post (sub_post l st1) (let '(p', cexprs) := pc in load_with defs f l p' cexprs st1).
Proof.
  intros f l st1 [p' cexprs] Hc G1. destruct (class_of_ok _ _ Hc) as [Hp Hx].
  eapply post_weaken; [apply (load_G defs f l p' cexprs _ Hp Hx G1)|]. intros r0 st' (G2 & fr & Hs). unfold sub_post.
  split; [exact G2|]. unfold cached. rewrite Hs. split; [rewrite assoc_get_hd; discriminate|]. intros l' Hl'. apply assoc_get_tl. exact Hl'.
Qed.

Lemma sub_cached : forall l st1 globals, assoc_get l (subcache st1) = Some globals -> G None st1 ->
  post (sub_post l st1) (Ok (RNone, fold_left (fun acc kv => set_var (fst kv) (snd kv) acc) globals st1)).
Proof.
  intros l st1 globals Eg G1. cbn [post]. unfold sub_post. split; [|split].
  - apply G_set_vars; [exact G1|]. eapply cached_globals_flat; eauto.
  - unfold cached. rewrite set_vars_subcache. rewrite Eg. discriminate.
  - intros l' Hl'. unfold cached in *. rewrite set_vars_subcache. exact Hl'.
Qed.

(* stated as an equation and used by rewriting: converting file_class with its unfolding inside a larger goal makes
   Coq normalise opt_stmts 32 on an open term *)
Lemma file_class_eq : forall base p, file_class base p = class_of (opt_stmts 32 base (drop_pass 32 p) []).
Proof. intros. unfold file_class. reflexivity. Qed.

Lemma sub_step1 : forall f l st1, lookup (s "subinclude") st1 = Some (VBuiltin (s "subinclude")) -> step_class l st1 = None -> G None st1 ->
  post (sub_post l st1) (exec_stmt Asp defs f (sub_stmt l) st1).
Proof.
  intros f l st1 Hl Hc G1. destruct f as [|f]; [exact I|]. rewrite (sub_unfold defs f l _ Hl).
  unfold step_class in Hc.
  destruct (assoc_get l (subcache st1)) as [globals|] eqn:Eg; [apply sub_cached; assumption|].
  destruct (find_def defs l) as [p|]; [|exact I]. rewrite file_class_eq in Hc.
  generalize dependent (opt_stmts 32 (length (consts st1)) (drop_pass 32 p) []). intros pc Hc.
  apply sub_uncached; [exact Hc|exact G1].
Qed.

Lemma sub_step : forall f l st, step_class l st = None -> G None st ->
  post (sub_post l st) (exec_stmt Asp defs f (sub_stmt l) (new_pkg st)).
Proof.
  intros f l st Hc HG.
  pose proof (G_new_scope st false HG) as G1. cbv iota in G1. fold (new_pkg st) in G1.
  rewrite <- step_class_new_pkg in Hc.
  exact (sub_step1 f l (new_pkg st) (lookup_new_pkg st) Hc G1).
  (* sub_post l (new_pkg st) is sub_post l st: the cache of new_pkg st is the cache of st *)
Qed.

Definition loadedb (o : option nat * outcome) : bool := match snd o with OGlobals _ _ => true | _ => false end.

(* one loader package *)
Lemma loader_step : forall fuel l st outs st', step_class l st = None -> G None st ->
  run_builds Asp defs fuel [loader l] st = (outs, st') ->
  G None st' /\ (forallb loadedb outs = true -> cached l st') /\ (forall l', cached l' st -> cached l' st').
Proof.
  intros fuel l st outs st' Hc HG H. cbn [run_builds loader exec_top] in H. fold (new_pkg st) in H.
  pose proof (sub_step fuel l st Hc HG) as Hs.
  pose proof (G_new_scope st false HG) as G1. cbv iota in G1. fold (new_pkg st) in G1.
  assert (Gf : G None (set_locals [] (new_pkg st))) by (apply G_set_locals_nil; exact G1).
  assert (Hsame : forall l', cached l' st -> cached l' (set_locals [] (new_pkg st))) by (intros l' Hl'; exact Hl').
  destruct (exec_stmt Asp defs fuel (sub_stmt l) (new_pkg st)) as [[r st2]|k|].
  - cbn [post] in Hs. destruct Hs as (G2 & C2 & M2).
    destruct r; cbn [exec_top] in H; injection H as <- <-; (split; [exact G2|]; split; [intros _; exact C2|exact M2]).
  - destruct k; injection H as <- <-; (split; [exact Gf|]; split; [intros Hx; discriminate Hx|exact Hsame]).
  - injection H as <- <-. split; [exact Gf|]. split; [intros Hx; discriminate Hx|exact Hsame].
Qed.

(* the executable classifier: the loaders are run on the model only to know how many optimised.Constant objects the
   interpreter holds when each file is loaded (the numbering base of its own constants); each file is then classified
   syntactically by file_class *)
Fixpoint class_run (fuel : nat) (ls : list str) (st : state) : option init_defect :=
  match ls with
  | [] => None
  | l :: r => match step_class l st with
              | Some c => Some c
              | None => class_run fuel r (snd (run_builds Asp defs fuel [loader l] st))
              end
  end.

Theorem loaders_G : forall fuel ls st outs st', class_run fuel ls st = None -> G None st ->
  run_builds Asp defs fuel (map loader ls) st = (outs, st') ->
  G None st' /\ (forallb loadedb outs = true -> forall l, List.In l ls -> cached l st') /\ (forall l', cached l' st -> cached l' st').
Proof.
  intros fuel. induction ls as [|l r IH]; intros st outs st' Hc HG H.
  - cbn [map run_builds] in H. injection H as <- <-. split; [exact HG|]. split; [intros _ l []|auto].
  - cbn [class_run] in Hc. destruct (step_class l st) eqn:Es; [discriminate|].
    change (map loader (l :: r)) with ([loader l] ++ map loader r) in H. rewrite run_builds_app in H.
    destruct (run_builds Asp defs fuel [loader l] st) as [o1 st1] eqn:E1. cbn [snd] in Hc.
    destruct (run_builds Asp defs fuel (map loader r) st1) as [o2 st2] eqn:E2. injection H as <- <-.
    destruct (loader_step fuel l st o1 st1 Es HG E1) as (G1 & C1 & M1).
    destruct (IH st1 o2 st2 Hc G1 E2) as (G2 & C2 & M2).
    split; [exact G2|]. split; [|auto].
    intros Hall l0 Hin. rewrite forallb_app in Hall. apply andb_prop in Hall. destruct Hall as [Ha1 Ha2].
    destruct Hin as [<-|Hin]; [apply M2, C1, Ha1|apply C2; assumption].
Qed.

Lemma cachedall_of_labels : forall st, (forall l, List.In l (map (@fst _ _) defs) -> cached l st) -> cachedall defs st.
Proof.
  intros st H label Hl. unfold find_def. revert H. induction defs as [|[k p] r IH]; intros H; [reflexivity|].
  destruct (str_eqb label k) eqn:E.
  - apply str_eqb_eq in E. subst k. exfalso. apply (H label); [left; reflexivity|exact Hl].
  - apply IH. intros l Hin. apply H. right. exact Hin.
Qed.

End Loaders.

(* ================================================================ from the empty interpreter *)
(* one loader package per subincludable file, in the order of the table *)
Definition loaders (defs : list (str * prog)) : list prog := map loader (map (@fst _ _) defs).

(* None: every file of the table is in the fragment (classified with the numbering base it is loaded with) *)
Definition defs_defect_class (fuel : nat) (defs : list (str * prog)) : option init_defect :=
  class_run defs fuel (map (@fst _ _) defs) empty_state.

(* a purely syntactic sufficient condition (no run of the model): every file of the table is in the fragment whatever the
   numbering base of its constants - for a concrete file this is computed with the base left symbolic *)
Definition table_in_fragment (defs : list (str * prog)) : Prop :=
  forall l p base, find_def defs l = Some p -> file_class base p = None.

Lemma class_run_all_bases : forall defs, table_in_fragment defs -> forall fuel ls st, class_run defs fuel ls st = None.
Proof.
  intros defs H fuel. induction ls as [|l r IH]; intros st; cbn [class_run]; [reflexivity|].
  assert (Hs : step_class defs l st = None).
  { unfold step_class. destruct (assoc_get l (subcache st)); [reflexivity|]. destruct (find_def defs l) as [p|] eqn:E; [|reflexivity].
    apply (H l p _ E). }
  rewrite Hs. apply IH.
Qed.

Theorem fragment_table_class : forall defs, table_in_fragment defs -> forall fuel, defs_defect_class fuel defs = None.
Proof. intros defs H fuel. unfold defs_defect_class. apply class_run_all_bases. exact H. Qed.

(* (2) THE FIRST-TIME SUBINCLUDES ESTABLISH THE HYPOTHESES: from the empty interpreter, after the loader packages of a
   table of build_defs files of the fragment, the interpreter is at rest (RestInv, with no dead object at all), its
   state is closed, and - when every load succeeded - every file is cached. *)
Theorem first_subincludes_establish_rest : forall defs fuel outs st0,
  defs_defect_class fuel defs = None ->
  run_builds Asp defs fuel (loaders defs) empty_state = (outs, st0) ->
  forallb loadedb outs = true ->
  RestInv defs D0 st0 /\ closed_stateb st0 = true.
Proof.
  intros defs fuel outs st0 Hc Hrun Hall.
  destruct (loaders_G defs fuel _ _ _ _ Hc G_empty Hrun) as (G0 & C0 & _).
  split; [|apply G_closed; exact G0].
  apply rest_with_defs; [apply G_rest; exact G0|]. apply cachedall_of_labels. apply C0. exact Hall.
Qed.

(* ... in every case (also when a load failed: out of fuel) the state is at rest for the files that ARE cached, and closed *)
Theorem first_subincludes_closed : forall defs fuel outs st0,
  defs_defect_class fuel defs = None ->
  run_builds Asp defs fuel (loaders defs) empty_state = (outs, st0) ->
  RestInv [] D0 st0 /\ closed_stateb st0 = true.
Proof.
  intros defs fuel outs st0 Hc Hrun.
  destruct (loaders_G defs fuel _ _ _ _ Hc G_empty Hrun) as (G0 & _ & _).
  split; [apply G_rest; exact G0|apply G_closed; exact G0].
Qed.

(* C17 FROM THE EMPTY INTERPRETER: the files of the table are loaded by the loader packages (first-time Subinclude:
   parse, optimise, constant folding, interpretation, scope.Freeze, cache); then, for ANY BUILD files h and bs: the
   files bs have after h exactly the outcomes they have without h, and what h computed - and what the loads
   produced - is not changed by bs.  No hypothesis on the state is left. *)
Theorem packages_do_not_interfere_from_empty : forall defs fuel h bs outs st',
  defs_defect_class fuel defs = None ->
  Forall (fun p => no_const p = true) (h ++ bs) ->
  run_builds Asp defs fuel (loaders defs ++ h ++ bs) empty_state = (outs, st') ->
  exists o0 st0 o1 st1 o2,
    run_builds Asp defs fuel (loaders defs) empty_state = (o0, st0)
    /\ run_builds Asp defs fuel h st0 = (o1, st1) /\ run_builds Asp defs fuel bs st1 = (o2, st') /\ outs = o0 ++ o1 ++ o2
    /\ closed_stateb st0 = true
    /\ (forallb loadedb o0 = true ->
          map (@snd _ _) o2 = map (@snd _ _) (fst (run_builds Asp defs fuel bs st0))
          /\ unchanged st0 st1 /\ unchanged st1 st').
Proof.
  intros defs fuel h bs outs st' Hc Hb Hrun. rewrite run_builds_app in Hrun.
  destruct (run_builds Asp defs fuel (loaders defs) empty_state) as [o0 st0] eqn:E0.
  destruct (run_builds Asp defs fuel (h ++ bs) st0) as [o12 st2] eqn:E12. injection Hrun as <- <-.
  destruct (first_subincludes_closed defs fuel o0 st0 Hc E0) as [_ Hcl].
  pose proof E12 as E12'. rewrite run_builds_app in E12'.
  destruct (run_builds Asp defs fuel h st0) as [o1 st1] eqn:E1.
  destruct (run_builds Asp defs fuel bs st1) as [o2 st2'] eqn:E2. injection E12' as <- <-.
  exists o0, st0, o1, st1, o2. split; [reflexivity|]. split; [exact E1|]. split; [exact E2|]. split; [reflexivity|]. split; [exact Hcl|].
  intros Hall. destruct (first_subincludes_establish_rest defs fuel o0 st0 Hc E0 Hall) as [R _].
  destruct (packages_do_not_interfere defs fuel D0 st0 h bs _ _ R Hcl Hb E12) as (o1' & st1' & o2' & H1 & H2 & H3 & H4 & U1 & U2).
  rewrite E1 in H1. injection H1 as <- <-. rewrite E2 in H2. injection H2 as <-. auto.
Qed.
