(* C24 - `plz query changes --since REV` in exact mode (src/please.go "query.changes", src/scm/git.go).
   The model (Model/C24.v): a git repository with a linear history of snapshots (configuration hash, build graph),
   branches and a symbolic or detached HEAD; the statements of query.changes as a program in a closed step language
   (since_flow), interpreted over that repository; CurrentRevIdentifier as "first command, else fallback command".
   Proved here, for ALL repositories reachable by git operations (any number of commits and branches, HEAD on a
   branch or detached) and every revision argument that resolves:
     - wf_repo is an invariant of operation histories (induction over the history);
     - since_flow_exact: the run compares exactly (configuration of REV, graph of REV) with (configuration of the
       original HEAD commit, graph of the original HEAD commit), and leaves the repository exactly as it found it
       (same HEAD: same branch, or detached at the same commit);
     - since_complete: hence every target whose full state (configuration hash included) differs between the two
       revisions is reported, with level -1 also everything that depends on one.
   The two examples at the end show that both parts of the program matter: without the readConfig() after the first
   checkout, or with `git rev-parse --abbrev-ref HEAD` as the first command, the theorem is false. *)
From Coq Require Import Lia.
From PlzV Require Import Base.Harness Base.StrFacts Model.C24 Proof.C24 Proof.C24_Level Proof.C24_Gen.

(* ------------------------------------------------------------------------------------------ *)
(* branches *)

Lemma lookup_set_cases b c bs b' c' :
  lookup_branch b' (set_branch b c bs) = Some c' -> c' = c \/ lookup_branch b' bs = Some c'.
Proof.
  induction bs as [|[b1 c1] bs IH]; cbn [set_branch lookup_branch].
  - destruct (str_eqb b' b); [intros H; injection H as H; left; symmetry; exact H | discriminate].
  - destruct (str_eqb b b1) eqn:E; cbn [lookup_branch].
    + destruct (str_eqb b' b1); [intros H; injection H as H; left; symmetry; exact H | intros H; right; exact H].
    + destruct (str_eqb b' b1); [intros H; right; exact H | exact IH].
Qed.

Lemma lookup_set_same b c bs : lookup_branch b (set_branch b c bs) = Some c.
Proof.
  induction bs as [|[b1 c1] bs IH]; cbn [set_branch lookup_branch].
  - rewrite str_eqb_refl. reflexivity.
  - destruct (str_eqb b b1) eqn:E; cbn [lookup_branch]; rewrite E; [reflexivity | exact IH].
Qed.

(* ------------------------------------------------------------------------------------------ *)
(* well-formed repositories: HEAD and every branch point at an existing commit *)

Definition wf_repo (r : repo) : Prop :=
  (exists c, head_commit r = Some c /\ (c < length (commits r))%nat)
  /\ (forall b c, lookup_branch b (branches r) = Some c -> (c < length (commits r))%nat).

Lemma valid_commit_some r c c' : valid_commit r c = Some c' -> c' = c /\ (c < length (commits r))%nat.
Proof.
  unfold valid_commit. destruct (Nat.ltb c (length (commits r))) eqn:E; [|discriminate].
  intros H. injection H as H. split; [symmetry; exact H | apply Nat.ltb_lt; exact E].
Qed.

Lemma valid_commit_lt r c : (c < length (commits r))%nat -> valid_commit r c = Some c.
Proof. intros H. unfold valid_commit. apply Nat.ltb_lt in H. rewrite H. reflexivity. Qed.

Lemma resolve_valid r x c : resolve r x = Some c -> (c < length (commits r))%nat.
Proof.
  unfold resolve. destruct (match x with RHead => _ | RHeadMinus _ => _ | RBranch _ => _ | RCommit _ => _ end) as [c0|]; [|discriminate].
  intros H. apply valid_commit_some in H. destruct H as [-> H]. exact H.
Qed.

(* what a successful checkout does *)
Lemma checkout_spec r x r' :
  checkout r x = Some r' ->
  exists c, resolve r x = Some c /\ commits r' = commits r /\ branches r' = branches r /\ head_commit r' = Some c.
Proof.
  unfold checkout. destruct (resolve r x) as [c|] eqn:Hr; [|discriminate].
  intros H. injection H as H. subst r'. exists c. split; [reflexivity|]. split; [reflexivity|]. split; [reflexivity|].
  unfold head_commit. cbn [hd branches].
  unfold resolve in Hr. destruct x as [|k|b|c0]; try reflexivity.
  - unfold head_commit in Hr. destruct (match hd r with OnBranch b => _ | Detached c1 => _ end) as [c1|]; [|discriminate].
    apply valid_commit_some in Hr. destruct Hr as [-> _]. reflexivity.
  - destruct (lookup_branch b (branches r)) as [c1|]; [|discriminate].
    apply valid_commit_some in Hr. destruct Hr as [-> _]. reflexivity.
Qed.

Lemma checkout_wf r x r' : wf_repo r -> checkout r x = Some r' -> wf_repo r'.
Proof.
  intros [_ Hb] H. destruct (checkout_spec r x r' H) as [c [Hr [Hc [Hbr Hh]]]].
  split.
  - exists c. split; [exact Hh|]. rewrite Hc. exact (resolve_valid r x c Hr).
  - intros b c'. rewrite Hbr, Hc. apply Hb.
Qed.

Lemma apply_op_wf r o : wf_repo r -> wf_repo (apply_op r o).
Proof.
  intros Hwf. destruct o as [sn|b|b x|x]; cbn [apply_op].
  - destruct (head_commit r) as [c|] eqn:Hh; [|exact Hwf].
    destruct (Nat.eqb (S c) (length (commits r))) eqn:E; [|exact Hwf].
    destruct Hwf as [_ Hb]. unfold head_commit in Hh.
    destruct (hd r) as [b|c0] eqn:Hhd.
    + split.
      * exists (length (commits r)). unfold head_commit. cbn [hd branches commits].
        split; [apply lookup_set_same|]. rewrite app_length. cbn [length]. lia.
      * cbn [branches commits]. intros b' c' H. rewrite app_length. cbn [length].
        apply lookup_set_cases in H. destruct H as [-> | H]; [lia|]. apply Hb in H. lia.
    + split.
      * exists (length (commits r)). unfold head_commit. cbn [hd commits]. split; [reflexivity|].
        rewrite app_length. cbn [length]. lia.
      * cbn [branches commits]. intros b' c' H. rewrite app_length. apply Hb in H. lia.
  - destruct (lookup_branch b (branches r)) as [c0|] eqn:Hl; [exact Hwf|].
    destruct (resolve r RHead) as [c|] eqn:Hr; [|exact Hwf].
    pose proof (resolve_valid r RHead c Hr) as Hc. destruct Hwf as [_ Hb]. split.
    + exists c. unfold head_commit. cbn [hd branches commits]. split; [apply lookup_set_same | exact Hc].
    + cbn [branches commits]. intros b' c' H. apply lookup_set_cases in H. destruct H as [-> | H]; [exact Hc | exact (Hb b' c' H)].
  - destruct (lookup_branch b (branches r)) as [c0|] eqn:Hl; [exact Hwf|].
    destruct (resolve r x) as [c|] eqn:Hr; [|exact Hwf].
    pose proof (resolve_valid r x c Hr) as Hc. destruct Hwf as [[ch [Hh Hlt]] Hb]. split.
    + unfold head_commit in *. cbn [hd branches commits]. destruct (hd r) as [bh|c1].
      * assert (Hne : str_eqb bh b = false).
        { destruct (str_eqb bh b) eqn:E; [|reflexivity]. apply str_eqb_eq in E. subst bh. rewrite Hl in Hh. discriminate. }
        exists ch. split; [|exact Hlt]. clear - Hh Hne. revert Hh.
        induction (branches r) as [|[b1 c1] bs IH]; cbn [set_branch lookup_branch]; [discriminate|].
        destruct (str_eqb b b1) eqn:E1; cbn [lookup_branch].
        -- destruct (str_eqb bh b1) eqn:E2; [|intros H; exact H].
           apply str_eqb_eq in E1, E2. subst. rewrite str_eqb_refl in Hne. discriminate.
        -- destruct (str_eqb bh b1); [intros H; exact H | exact IH].
      * exists ch. split; [exact Hh | exact Hlt].
    + cbn [branches commits]. intros b' c' H. apply lookup_set_cases in H. destruct H as [-> | H]; [exact Hc | exact (Hb b' c' H)].
  - destruct (checkout r x) as [r'|] eqn:Hc; [exact (checkout_wf r x r' Hwf Hc) | exact Hwf].
Qed.

(* the invariant over histories *)
Theorem repo_of_wf b0 s0 ops : wf_repo (repo_of b0 s0 ops).
Proof.
  unfold repo_of.
  assert (H0 : wf_repo (mkRepo [s0] [(b0, 0%nat)] (OnBranch b0))).
  { split.
    - exists 0%nat. unfold head_commit. cbn. rewrite str_eqb_refl. split; [reflexivity | lia].
    - cbn. intros b c. destruct (str_eqb b b0); [intros H; injection H as <-; lia | discriminate]. }
  revert H0. generalize (mkRepo [s0] [(b0, 0%nat)] (OnBranch b0)).
  induction ops as [|o ops IH]; intros r Hwf; cbn [fold_left]; [exact Hwf|].
  apply IH. apply apply_op_wf. exact Hwf.
Qed.

Lemma wf_work_tree r :
  wf_repo r -> exists j sa, head_commit r = Some j /\ nth_error (commits r) j = Some sa /\ work_tree r = Some sa.
Proof.
  intros [[j [Hh Hlt]] _]. destruct (nth_error (commits r) j) as [sa|] eqn:Hn.
  - exists j, sa. split; [exact Hh|]. split; [exact Hn|]. unfold work_tree. rewrite Hh. exact Hn.
  - apply nth_error_None in Hn. lia.
Qed.

(* ------------------------------------------------------------------------------------------ *)
(* CurrentRevIdentifier(false) names the place to come back to *)

Lemma original_roundtrip r :
  wf_repo r ->
  exists o, cur_rev_identifier cri_first cri_fallback false r = Some o
            /\ forall r1, commits r1 = commits r -> branches r1 = branches r -> checkout r1 o = Some r.
Proof.
  intros [[j [Hh Hlt]] _]. unfold cur_rev_identifier, cri_first, cri_fallback, git_out.
  destruct r as [cs bs h]. unfold head_commit in Hh. cbn [hd branches commits] in *. destruct h as [b|c].
  - exists (RBranch b). split; [reflexivity|]. intros r1 Hc Hb. unfold checkout, resolve.
    rewrite Hb, Hh. rewrite valid_commit_lt; [|rewrite Hc; exact Hlt]. rewrite Hc. reflexivity.
  - injection Hh as ->. unfold resolve, head_commit. cbn [hd].
    rewrite valid_commit_lt; [|exact Hlt]. exists (RCommit j). split; [reflexivity|].
    intros r1 Hc Hb. unfold checkout, resolve. rewrite valid_commit_lt; [|rewrite Hc; exact Hlt].
    rewrite Hc, Hb. reflexivity.
Qed.

(* ------------------------------------------------------------------------------------------ *)
(* the run *)

Theorem since_flow_exact r since i files level incsub :
  wf_repo r -> resolve r since = Some i ->
  exists j sb sa,
    head_commit r = Some j /\ nth_error (commits r) i = Some sb /\ nth_error (commits r) j = Some sa
    /\ since_query cri_first cri_fallback since_flow r since files level incsub
       = option_map (fun rep => (rep, r))
           (diff_changes (negb (N.eqb (sn_cfg sb) (sn_cfg sa))) (sn_graph sb) (sn_graph sa) files level incsub).
Proof.
  intros Hwf Hres.
  destruct (wf_work_tree r Hwf) as [j [sa [Hj [Hnj Hw]]]].
  destruct (original_roundtrip r Hwf) as [o [Ho Hback]].
  pose proof (resolve_valid r since i Hres) as Hi.
  destruct (nth_error (commits r) i) as [sb|] eqn:Hni; [|apply nth_error_None in Hni; lia].
  destruct (checkout r since) as [r1|] eqn:Hco; [|unfold checkout in Hco; rewrite Hres in Hco; discriminate].
  destruct (checkout_spec r since r1 Hco) as [i' [Hres' [Hc1 [Hb1 Hh1]]]].
  rewrite Hres in Hres'. injection Hres' as <-.
  assert (Hw1 : work_tree r1 = Some sb). { unfold work_tree. rewrite Hh1, Hc1. exact Hni. }
  exists j, sb, sa. split; [exact Hj|]. split; [reflexivity|]. split; [exact Hnj|].
  unfold since_query. rewrite Hw. unfold since_flow.
  repeat (cbn [run_steps exec_step]; rewrite ?Ho, ?Hco, ?Hw1, ?(Hback r1 Hc1 Hb1), ?Hw).
  cbn [run_steps exec_step sn_cfg sn_graph].
  destruct (diff_changes (negb (N.eqb (sn_cfg sb) (sn_cfg sa))) (sn_graph sb) (sn_graph sa) files level incsub) as [rep|];
    reflexivity.
Qed.

(* ------------------------------------------------------------------------------------------ *)
(* the property over pairs of full states *)

(* the target's full state differs between the two revisions: new, other rule hash / tool paths, or other configuration *)
Definition state_changed (sb sa : snapshot) (a : target) : Prop :=
  find (sn_graph sb) (t_id a) = None
  \/ (exists b, find (sn_graph sb) (t_id a) = Some b /\ (t_defkey b <> t_defkey a \/ t_srckey b <> t_srckey a))
  \/ sn_cfg sb <> sn_cfg sa.

Definition cfg_differs (sb sa : snapshot) : bool := negb (N.eqb (sn_cfg sb) (sn_cfg sa)).

Lemma state_changed_def sb sa a : state_changed sb sa a <-> def_changed (cfg_differs sb sa) (sn_graph sb) a.
Proof.
  unfold state_changed, def_changed, cfg_differs.
  split; (intros [H | [H | H]]; [left; exact H | right; left; exact H | right; right]).
  - apply negb_true_iff. apply N.eqb_neq. exact H.
  - apply negb_true_iff in H. apply N.eqb_neq. exact H.
Qed.

Theorem since_complete b0 s0 ops since i files level incsub :
  let r := repo_of b0 s0 ops in
  resolve r since = Some i ->
  exists j sb sa rep,
    head_commit r = Some j /\ nth_error (commits r) i = Some sb /\ nth_error (commits r) j = Some sa
    /\ since_query cri_first cri_fallback since_flow r since files level incsub = Some (rep, r)
    /\ (forall a, In a (g_targets (sn_graph sa)) -> state_changed sb sa a ->
                  shown (sn_graph sa) incsub (t_id a) = true -> In (t_id a) rep)
    /\ complete (sn_graph sa) incsub level (code_dep (sn_graph sa) incsub)
                (base_diff (cfg_differs sb sa) (sn_graph sb) (sn_graph sa) files) rep
    /\ exact_within (sn_graph sa) incsub level (code_dep (sn_graph sa) incsub)
                    (ch_diff (cfg_differs sb sa) (sn_graph sb) (sn_graph sa) files) rep.
Proof.
  intros r Hres.
  destruct (since_flow_exact r since i files level incsub (repo_of_wf b0 s0 ops) Hres) as [j [sb [sa [Hj [Hi [Hnj Hq]]]]]].
  destruct (diff_claim_code (cfg_differs sb sa) (sn_graph sb) (sn_graph sa) files level incsub) as [rep [Hrep Hcomp]].
  destruct (diff_exact (cfg_differs sb sa) (sn_graph sb) (sn_graph sa) files level incsub) as [rep' [Hrep' Hex]].
  rewrite Hrep in Hrep'. injection Hrep' as <-.
  exists j, sb, sa, rep. split; [exact Hj|]. split; [exact Hi|]. split; [exact Hnj|].
  split; [rewrite Hq; fold (cfg_differs sb sa); rewrite Hrep; reflexivity|].
  split; [|split; [exact Hcomp | exact Hex]].
  intros a Ha Hch Hs. destruct Hcomp as [Hbase _]. apply Hbase; [|exact Hs].
  left. exists a. split; [exact Ha|]. split; [apply state_changed_def; exact Hch | reflexivity].
Qed.

(* outside the known defect class the recorded edges are the dependency edges *)
Theorem since_complete_class b0 s0 ops since i files level incsub :
  let r := repo_of b0 s0 ops in
  resolve r since = Some i ->
  exists j sb sa rep,
    head_commit r = Some j /\ nth_error (commits r) i = Some sb /\ nth_error (commits r) j = Some sa
    /\ since_query cri_first cri_fallback since_flow r since files level incsub = Some (rep, r)
    /\ (defect_class false (sn_graph sa) incsub = None ->
        complete_within (sn_graph sa) incsub level (depends false (sn_graph sa))
                        (base_diff (cfg_differs sb sa) (sn_graph sb) (sn_graph sa) files) rep).
Proof.
  intros r Hres.
  destruct (since_flow_exact r since i files level incsub (repo_of_wf b0 s0 ops) Hres) as [j [sb [sa [Hj [Hi [Hnj Hq]]]]]].
  destruct (diff_exact (cfg_differs sb sa) (sn_graph sb) (sn_graph sa) files level incsub) as [rep [Hrep Hex]].
  exists j, sb, sa, rep. split; [exact Hj|]. split; [exact Hi|]. split; [exact Hnj|].
  split; [rewrite Hq; fold (cfg_differs sb sa); rewrite Hrep; reflexivity|].
  intros Hc. destruct (diff_level_class (cfg_differs sb sa) (sn_graph sb) (sn_graph sa) files level incsub Hc) as [rep' [Hrep' [_ Hcw]]].
  rewrite Hrep in Hrep'. injection Hrep' as <-. exact Hcw.
Qed.

(* ------------------------------------------------------------------------------------------ *)
(* examples: a two-commit repository whose second commit only edits the configuration / only edits the graph *)

Definition x_t (key : N) : target := mkT 0%N (s "p") false None [s "f"] [] [] [] [] [] true key 1%N.
Definition x_new : target := mkT 1%N (s "p") false None [] [0%N] [] [] [] [] true 5%N 1%N.
Definition x_g (key : N) : graph := mkG [x_t key] [s "p"] [].
Definition x_g2 : graph := mkG [x_t 2%N; x_new] [s "p"] [].

(* commit 1 only changes the configuration hash *)
Definition x_cfg_ops : list gitop := [OpCommit (mkSnap 8%N (x_g 1%N))].
(* commit 1 edits a definition and adds a target; then HEAD is detached at it *)
Definition x_build_ops : list gitop := [OpCommit (mkSnap 7%N x_g2); OpCheckout (RCommit 1)].

Definition x_repo (ops : list gitop) : repo := repo_of (s "main") (mkSnap 7%N (x_g 1%N)) ops.

Example since_examples :
  (* the program of the source: a configuration-only commit reports everything, on a detached HEAD a BUILD edit is
     seen and HEAD stays where it was *)
  since_query cri_first cri_fallback since_flow (x_repo x_cfg_ops) (RHeadMinus 1) [] (-1) false
    = Some ([0%N], x_repo x_cfg_ops)
  /\ since_query cri_first cri_fallback since_flow (x_repo x_build_ops) (RHeadMinus 1) [] (-1) false
    = Some ([0%N; 1%N], x_repo x_build_ops)
  /\ hd (x_repo x_build_ops) = Detached 1
  (* without the readConfig() after the first checkout both states carry the configuration of HEAD: nothing is reported *)
  /\ since_query cri_first cri_fallback
       [SOriginal false; SChangedFiles; SCheckoutSince; SParseBefore; SCheckoutOriginal; SReadConfig; SParseAfter; SDiff]
       (x_repo x_cfg_ops) (RHeadMinus 1) [] (-1) false
    = Some ([], x_repo x_cfg_ops)
  (* with `git rev-parse --abbrev-ref HEAD` a detached HEAD is identified as "HEAD": the checkout back is a no-op, the
     `after` graph is the old one, nothing is reported and the work tree is left on the old revision *)
  /\ since_query GRevParseAbbrevRef cri_fallback since_flow (x_repo x_build_ops) (RHeadMinus 1) [] (-1) false
    = Some ([], mkRepo (commits (x_repo x_build_ops)) (branches (x_repo x_build_ops)) (Detached 0))
  (* ... while on a branch that command is as good as the original one *)
  /\ since_query GRevParseAbbrevRef cri_fallback since_flow (x_repo x_cfg_ops) (RHeadMinus 1) [] (-1) false
    = Some ([0%N], x_repo x_cfg_ops).
Proof. vm_compute. repeat split. Qed.

(* ------------------------------------------------------------------------------------------ *)
(* at full strength (every dependency edge, `depends false`) the end-to-end claim fails exactly where the before/after
   form fails: every pair of states is the pair of revisions of a two-commit repository *)

Definition since_full_claim : Prop :=
  forall b0 s0 ops since i files level incsub,
    let r := repo_of b0 s0 ops in
    resolve r since = Some i ->
    exists j sb sa rep,
      head_commit r = Some j /\ nth_error (commits r) i = Some sb /\ nth_error (commits r) j = Some sa
      /\ since_query cri_first cri_fallback since_flow r since files level incsub = Some (rep, r)
      /\ complete_within (sn_graph sa) incsub level (depends false (sn_graph sa))
                         (base_diff (cfg_differs sb sa) (sn_graph sb) (sn_graph sa) files) rep.

Lemma since_full_claim_refuted : ~ since_full_claim.
Proof.
  intros H. apply level_diff_claim_refuted. intros cfg before after files level incsub.
  set (s0 := mkSnap 0%N before). set (s1 := mkSnap (if cfg then 1%N else 0%N) after).
  assert (Hres : resolve (repo_of [] s0 [OpCommit s1]) (RHeadMinus 1) = Some 0%nat) by reflexivity.
  destruct (H [] s0 [OpCommit s1] (RHeadMinus 1) 0%nat files level incsub Hres) as [j [sb [sa [rep [Hj [Hi [Hnj [Hq Hcw]]]]]]]].
  cbv in Hj. injection Hj as <-. cbv in Hi. injection Hi as <-. cbv in Hnj. injection Hnj as <-.
  destruct (since_flow_exact (repo_of [] s0 [OpCommit s1]) (RHeadMinus 1) 0%nat files level incsub
              (repo_of_wf [] s0 [OpCommit s1]) Hres) as [j' [sb' [sa' [Hj' [Hi' [Hnj' Hq']]]]]].
  cbv in Hj'. injection Hj' as <-. cbv in Hi'. injection Hi' as <-. cbv in Hnj'. injection Hnj' as <-.
  rewrite Hq in Hq'.
  unfold cfg_differs in Hcw. subst s0 s1. cbn [sn_cfg sn_graph] in Hq', Hcw.
  assert (Hcfg : negb (N.eqb 0 (if cfg then 1 else 0)) = cfg) by (destruct cfg; reflexivity).
  rewrite Hcfg in Hq', Hcw.
  destruct (diff_changes cfg before after files level incsub) as [rep'|]; [|discriminate].
  cbn [option_map] in Hq'. injection Hq' as <-. exists rep. split; [reflexivity | exact Hcw].
Qed.

(* ------------------------------------------------------------------------------------------ *)
(* the same for the program and the commands that gotrans reads from the source *)

Lemma since_partial_gen :
  forall prog first fallback, gen_since_program = Some (prog, first, fallback) ->
  forall b0 s0 ops since i files level incsub,
    let r := repo_of b0 s0 ops in
    resolve r since = Some i ->
    exists j sb sa rep,
      head_commit r = Some j /\ nth_error (commits r) i = Some sb /\ nth_error (commits r) j = Some sa
      /\ since_query first fallback prog r since files level incsub = Some (rep, r)
      /\ (forall a, In a (g_targets (sn_graph sa)) -> state_changed sb sa a ->
                    shown (sn_graph sa) incsub (t_id a) = true -> In (t_id a) rep)
      /\ complete (sn_graph sa) incsub level (code_dep (sn_graph sa) incsub)
                  (base_diff (cfg_differs sb sa) (sn_graph sb) (sn_graph sa) files) rep
      /\ exact_within (sn_graph sa) incsub level (code_dep (sn_graph sa) incsub)
                      (ch_diff (cfg_differs sb sa) (sn_graph sb) (sn_graph sa) files) rep
      /\ (defect_class false (sn_graph sa) incsub = None ->
          complete_within (sn_graph sa) incsub level (depends false (sn_graph sa))
                          (base_diff (cfg_differs sb sa) (sn_graph sb) (sn_graph sa) files) rep).
Proof.
  intros prog first fallback Hgen b0 s0 ops since i files level incsub r Hres.
  rewrite (proj1 c24_since_source) in Hgen. injection Hgen as <- <- <-.
  destruct (since_complete b0 s0 ops since i files level incsub Hres) as [j [sb [sa [rep [Hj [Hi [Hnj [Hq [H1 [H2 H3]]]]]]]]]].
  destruct (since_complete_class b0 s0 ops since i files level incsub Hres) as [j' [sb' [sa' [rep' [Hj' [Hi' [Hnj' [Hq' H4]]]]]]]].
  fold r in Hj, Hi, Hnj, Hq, Hj', Hi', Hnj', Hq'.
  rewrite Hj in Hj'. injection Hj' as <-. rewrite Hi in Hi'. injection Hi' as <-. rewrite Hnj in Hnj'. injection Hnj' as <-.
  rewrite Hq in Hq'. injection Hq' as <-.
  exists j, sb, sa, rep. repeat (split; [assumption|]). exact H4.
Qed.
