(* C16 - the enlarged pure fragment: the simulation relation between tree values (Model/C16_Pure2.v) and heap values, and the
   primitive operations (operators, index, natives, methods) on related arguments. *)
From Coq Require Import Lia.
From PlzV Require Import Base.Harness Base.StrFacts Gen.AspTables Model.C16_Syntax Model.C16_Ops Model.C16_Prim Model.C16_Eval Model.C16 Model.C16_Pure Model.C16_Sort Model.C16_Pure2.
From PlzV Require Import Proof.C16_Ops Proof.C16_Int Proof.C16_Pure Proof.C16_Pure2U.
Local Open Scope Z_scope.

(* ================================================================ heaps *)
Definition heap := (list (list value) * list (list (str * value)))%type.
Definition hp (st : state) : heap := (arrays st, dicts st).
Definition hext (h h' : heap) : Prop := exists ma md, h' = (fst h ++ ma, snd h ++ md).

Lemma hext_refl : forall h, hext h h.
Proof. intros [A D]. exists [], []. cbn. now rewrite !app_nil_r. Qed.
Lemma hext_trans : forall a b c, hext a b -> hext b c -> hext a c.
Proof. intros [A D] b c (m1 & n1 & ->) (m2 & n2 & ->). exists (m1 ++ m2), (n1 ++ n2). cbn. now rewrite !app_assoc. Qed.

Section QvalInd.
  Variable P : qval -> Prop.
  Hypothesis HInt : forall z, P (QInt z).
  Hypothesis HStr : forall x, P (QStr x).
  Hypothesis HBool : forall b, P (QBool b).
  Hypothesis HNone : P QNone.
  Hypothesis HFunc : forall i, P (QFunc i).
  Hypothesis HList : forall l, Forall P l -> P (QList l).
  Hypothesis HDict : forall kvs, Forall (fun kv => P (snd kv)) kvs -> P (QDict kvs).
  Fixpoint qval_ind' (p : qval) : P p :=
    match p with
    | QInt z => HInt z | QStr x => HStr x | QBool b => HBool b | QNone => HNone | QFunc i => HFunc i
    | QList l => HList l ((fix go (l : list qval) : Forall P l :=
                             match l with [] => Forall_nil _ | x :: r => Forall_cons _ (qval_ind' x) (go r) end) l)
    | QDict kvs => HDict kvs ((fix go (l : list (str * qval)) : Forall (fun kv => P (snd kv)) l :=
                                 match l with
                                 | [] => Forall_nil _
                                 | (k, q) :: r => Forall_cons (k, q) (qval_ind' q) (go r)
                                 end) kvs)
    end.
End QvalInd.

(* the elements a slice denotes, given the cells of its backing array *)
Definition lview (d : dialect) (sl : slice) (cells : list value) : list value :=
  match d with Asp => firstn (s_len sl) (skipn (s_off sl) cells) | Py => cells end.

(* a heap value represents a tree value: scalars as themselves; a list as a slice whose elements represent the elements
   (asp: any window of an array, with any spare capacity; CPython: the whole object); a dict as a map with the same keys in
   the same (strictly ascending) order *)
Fixpoint vrel (d : dialect) (h : heap) (p : qval) (v : value) {struct p} : Prop :=
  match p with
  | QInt z => v = VInt z
  | QStr x => v = VStr x
  | QBool b => v = VBool b
  | QNone => v = VNone
  | QFunc i => v = VFunc i
  | QList ps =>
      exists sl cells, v = VList sl /\ nth_error (fst h) (s_arr sl) = Some cells /\ s_len sl = length ps /\
        (fix all2 (ps : list qval) (cs : list value) {struct ps} : Prop :=
           match ps, cs with
           | [], [] => True
           | q :: qs, c :: cs' => vrel d h q c /\ all2 qs cs'
           | _, _ => False
           end) ps (lview d sl cells)
  | QDict kvs =>
      exists i es, v = VDict i /\ nth_error (snd h) i = Some es /\ ssorted (map (@fst _ _) kvs) = true /\
        (fix all2 (kvs : list (str * qval)) (es : list (str * value)) {struct kvs} : Prop :=
           match kvs, es with
           | [], [] => True
           | (k, q) :: r, (k', c) :: r' => k' = k /\ vrel d h q c /\ all2 r r'
           | _, _ => False
           end) kvs es
  end.

Definition vrels (d : dialect) (h : heap) (ps : list qval) (vs : list value) : Prop := Forall2 (vrel d h) ps vs.
Definition env_rel (d : dialect) (h : heap) (e : env) (pe : qenv) : Prop :=
  Forall2 (fun kv pkv => fst kv = fst pkv /\ vrel d h (snd pkv) (snd kv)) e pe.

Lemma all2_vrels : forall d h ps cs,
  (fix all2 (ps : list qval) (cs : list value) {struct ps} : Prop :=
     match ps, cs with
     | [], [] => True
     | q :: qs, c :: cs' => vrel d h q c /\ all2 qs cs'
     | _, _ => False
     end) ps cs <-> vrels d h ps cs.
Proof.
  intros d h ps. unfold vrels. induction ps as [|q qs IH]; intros cs; destruct cs as [|c cs]; split; intros H;
    try (now inversion H); try (now constructor).
  - destruct H as [H1 H2]. constructor; [exact H1|now apply IH].
  - inversion H; subst. split; [assumption|now apply IH].
Qed.

Lemma all2_env_rel : forall d h kvs es,
  (fix all2 (kvs : list (str * qval)) (es : list (str * value)) {struct kvs} : Prop :=
     match kvs, es with
     | [], [] => True
     | (k, q) :: r, (k', c) :: r' => k' = k /\ vrel d h q c /\ all2 r r'
     | _, _ => False
     end) kvs es <-> env_rel d h es kvs.
Proof.
  intros d h kvs. unfold env_rel. induction kvs as [|[k q] r IH]; intros es; destruct es as [|[k' c] r']; split; intros H;
    try (now inversion H); try (now constructor).
  - destruct H as (H1 & H2 & H3). constructor; [split; [exact H1|exact H2]|now apply IH].
  - inversion H as [|? ? ? ? [H1 H2] H3]; subst. cbn in H1, H2. repeat split; try assumption. now apply IH.
Qed.

Lemma vrel_list : forall d h ps v,
  vrel d h (QList ps) v <->
  exists sl cells, v = VList sl /\ nth_error (fst h) (s_arr sl) = Some cells /\ s_len sl = length ps /\ vrels d h ps (lview d sl cells).
Proof.
  intros d h ps v. cbn [vrel]. split; intros (sl & cells & H1 & H2 & H3 & H4); exists sl, cells; repeat split; try assumption;
    now apply all2_vrels.
Qed.

Lemma vrel_dict : forall d h kvs v,
  vrel d h (QDict kvs) v <->
  exists i es, v = VDict i /\ nth_error (snd h) i = Some es /\ ssorted (map (@fst _ _) kvs) = true /\ env_rel d h es kvs.
Proof.
  intros d h kvs v. cbn [vrel]. split; intros (i & es & H1 & H2 & H3 & H4); exists i, es; repeat split; try assumption;
    now apply all2_env_rel.
Qed.

Lemma nth_error_app_some : forall {A} (l m : list A) i x, nth_error l i = Some x -> nth_error (l ++ m) i = Some x.
Proof. intros A l m i x H. rewrite nth_error_app1; [exact H|]. apply nth_error_Some. now rewrite H. Qed.

Lemma vrel_mono : forall d h h' p v, hext h h' -> vrel d h p v -> vrel d h' p v.
Proof.
  intros d h h' p v (ma & md & ->). revert v.
  induction p as [z|x|b| |i|l IH|kvs IH] using qval_ind'; intros v H; try exact H.
  - apply vrel_list in H. apply vrel_list. destruct H as (sl & cells & H1 & H2 & H3 & H4).
    exists sl, cells. repeat split; [exact H1|now apply nth_error_app_some|exact H3|].
    unfold vrels in *. clear H1 H2 H3. induction H4 as [|q c qs cs Hq Hqs IHq]; [constructor|].
    inversion IH as [|? ? Hp Hps]; subst. constructor; [now apply Hp|now apply IHq].
  - apply vrel_dict in H. apply vrel_dict. destruct H as (i & es & H1 & H2 & H3 & H4).
    exists i, es. repeat split; [exact H1|now apply nth_error_app_some|exact H3|].
    unfold env_rel in *. clear H1 H2 H3. induction H4 as [|kv pkv es kvs [Hk Hq] Hqs IHq]; [constructor|].
    inversion IH as [|? ? Hp Hps]; subst. constructor; [split; [exact Hk|now apply Hp]|now apply IHq].
Qed.

Lemma vrels_mono : forall d h h' ps vs, hext h h' -> vrels d h ps vs -> vrels d h' ps vs.
Proof. intros d h h' ps vs He H. unfold vrels in *. induction H; constructor; [now apply (vrel_mono d h h')|assumption]. Qed.
Lemma env_rel_mono : forall d h h' e pe, hext h h' -> env_rel d h e pe -> env_rel d h' e pe.
Proof.
  intros d h h' e pe He H. induction H as [|kv pkv e pe [H1 H2] _ IH]; constructor; [split; [exact H1|now apply (vrel_mono d h h')]|exact IH].
Qed.
Lemma vrels_length : forall d h ps vs, vrels d h ps vs -> length vs = length ps.
Proof. intros d h ps vs H. induction H; cbn; congruence. Qed.

Lemma env_get_rel : forall d h n e pe, env_rel d h e pe ->
  match qenv_get n pe with
  | Some p => exists v, env_get n e = Some v /\ vrel d h p v
  | None => env_get n e = None
  end.
Proof.
  intros d h n e pe H. induction H as [|[k v] [pk p] e pe [H1 H2] _ IH]; [reflexivity|].
  cbn [fst snd] in *. subst pk. cbn [qenv_get env_get]. destruct (str_eqb n k); [exists v; split; [reflexivity|exact H2]|exact IH].
Qed.

Lemma env_set_rel : forall d h n v p e pe, env_rel d h e pe -> vrel d h p v -> env_rel d h (env_set n v e) (qenv_set n p pe).
Proof.
  intros d h n v p e pe H Hv. induction H as [|[k w] [pk q] e pe [H1 H2] Hr IH].
  - constructor; [split; [reflexivity|exact Hv]|constructor].
  - cbn [fst snd] in *. subst pk. cbn [qenv_set env_set]. destruct (str_eqb n k).
    + constructor; [split; [reflexivity|exact Hv]|exact Hr].
    + constructor; [split; [reflexivity|exact H2]|exact IH].
Qed.

Lemma envs_get_rel : forall d h n l pl0, Forall2 (env_rel d h) l pl0 ->
  match qenvs_get n pl0 with
  | Some p => exists v, envs_get n l = Some v /\ vrel d h p v
  | None => envs_get n l = None
  end.
Proof.
  intros d h n l pl0 H. induction H as [|e pe l pl0 He _ IH]; [reflexivity|].
  cbn [qenvs_get envs_get]. pose proof (env_get_rel d h n e pe He) as Hg.
  destruct (qenv_get n pe) as [p|].
  - destruct Hg as (v & Hv1 & Hv2). rewrite Hv1. exists v. split; [reflexivity|exact Hv2].
  - rewrite Hg. exact IH.
Qed.

(* ================================================================ states *)
Definition def_rel (a : fdefault) (pa : qdefault) : Prop :=
  match a, pa with
  | DNo, QDNo => True
  | DConst v, QDConst p => forall d h, vrel d h p v
  | _, _ => False
  end.

Definition func_rel (fd : func) (pfd : qfunc) : Prop :=
  f_name fd = qf_name pfd /\ f_body fd = qf_body pfd /\ f_scope fd = 0%nat /\
  Forall2 (fun a pa => fst a = fst pa /\ def_rel (snd a) (snd pa)) (f_args fd) (qf_args pfd).

Record srel (d : dialect) (st : state) (ps : qstate) : Prop := {
  sr_cur : cur st = 0%nat;
  sr_glob : exists genv, fscopes st = [genv] /\ env_rel d (hp st) genv (qg ps);
  sr_loc : Forall2 (env_rel d (hp st)) (locals st) (ql ps);
  sr_fn : Forall2 func_rel (funcs st) (qfs ps)
}.

(* st' is st with more arrays / dicts allocated and nothing else changed *)
Record xle (st st' : state) : Prop := {
  x_heap : hext (hp st) (hp st');
  x_funcs : funcs st' = funcs st;
  x_fscopes : fscopes st' = fscopes st;
  x_cur : cur st' = cur st;
  x_locals : locals st' = locals st;
  x_consts : consts st' = consts st;
  x_sub : subcache st' = subcache st
}.

Lemma xle_refl : forall st, xle st st.
Proof. intros st. constructor; try reflexivity. apply hext_refl. Qed.
Lemma xle_trans : forall a b c, xle a b -> xle b c -> xle a c.
Proof. intros a b c [] []. constructor; try congruence. now apply (hext_trans _ (hp b)). Qed.

(* what a statement may do: allocate; write variables (the globals only when it runs at the top level of the file) *)
Record grows (st st' : state) : Prop := {
  g_heap : hext (hp st) (hp st');
  g_cur : cur st' = cur st;
  g_consts : consts st' = consts st;
  g_sub : subcache st' = subcache st;
  g_len : length (locals st') = length (locals st);
  g_frame : locals st <> [] -> funcs st' = funcs st /\ fscopes st' = fscopes st
}.

Lemma grows_refl : forall st, grows st st.
Proof. intros st. constructor; try reflexivity; [apply hext_refl|now intros _]. Qed.
Lemma grows_trans : forall a b c, grows a b -> grows b c -> grows a c.
Proof.
  intros a b c [] []. constructor; try congruence.
  - now apply (hext_trans _ (hp b)).
  - intros Hn. destruct (g_frame0 Hn) as [E1 E2].
    assert (Hb : locals b <> []) by (destruct (locals b); [destruct (locals a); [congruence|discriminate]|discriminate]).
    destruct (g_frame1 Hb) as [E3 E4]. split; congruence.
Qed.
Lemma grows_xle : forall st st', xle st st' -> grows st st'.
Proof. intros st st' []. constructor; try congruence. now intros _. Qed.

(* the top local scope may be rewritten as well (inside a comprehension) *)
Record lle (st st' : state) : Prop := {
  l_heap : hext (hp st) (hp st');
  l_funcs : funcs st' = funcs st;
  l_fscopes : fscopes st' = fscopes st;
  l_cur : cur st' = cur st;
  l_tl : tl (locals st') = tl (locals st);
  l_len : length (locals st') = length (locals st);
  l_consts : consts st' = consts st;
  l_sub : subcache st' = subcache st
}.
Lemma lle_refl : forall st, lle st st.
Proof. intros st. constructor; try reflexivity. apply hext_refl. Qed.
Lemma lle_trans : forall a b c, lle a b -> lle b c -> lle a c.
Proof. intros a b c [] []. constructor; try congruence. now apply (hext_trans _ (hp b)). Qed.
Lemma lle_xle : forall st st', xle st st' -> lle st st'.
Proof. intros st st' []. constructor; try congruence. Qed.

Lemma hp_set_var : forall n v st, hp (set_var n v st) = hp st.
Proof. intros n v st. unfold set_var. destruct (locals st); reflexivity. Qed.

Lemma lle_set_var : forall n v st, locals st <> [] -> lle st (set_var n v st).
Proof.
  intros n v st H. unfold set_var. destruct (locals st) as [|e r] eqn:E; [congruence|].
  constructor; cbn; try reflexivity; try (now rewrite E). apply hext_refl.
Qed.

Lemma grows_set_var : forall st st' n v, grows st st' -> grows st (set_var n v st').
Proof.
  intros st st' n v []. constructor; try (rewrite ?hp_set_var; assumption).
  - unfold set_var. destruct (locals st'); exact g_cur0.
  - unfold set_var. destruct (locals st'); exact g_consts0.
  - unfold set_var. destruct (locals st'); exact g_sub0.
  - rewrite <- g_len0. unfold set_var. destruct (locals st') eqn:E; cbn; rewrite ?E; reflexivity.
  - intros Hn. destruct (g_frame0 Hn) as [E1 E2]. unfold set_var. destruct (locals st') eqn:E; cbn.
    + exfalso. destruct (locals st); [congruence|]. cbn in g_len0. discriminate.
    + now split.
Qed.

Section Rel.
  Variable d : dialect.
  Notation vr st := (vrel d (hp st)).

  Lemma srel_hext_same : forall st st' ps, srel d st ps -> hext (hp st) (hp st') ->
    cur st' = cur st -> fscopes st' = fscopes st -> locals st' = locals st -> funcs st' = funcs st -> srel d st' ps.
  Proof.
    intros st st' ps [H1 (g & H2 & H3) H4 H5] He E1 E2 E3 E4. constructor.
    - congruence.
    - exists g. split; [congruence|]. now apply (env_rel_mono d (hp st)).
    - rewrite E3. clear - H4 He. induction H4; constructor; [now apply (env_rel_mono d (hp st))|assumption].
    - now rewrite E4.
  Qed.

  Lemma srel_xle : forall st st' ps, srel d st ps -> xle st st' -> srel d st' ps.
  Proof. intros st st' ps Hs []. now apply (srel_hext_same st). Qed.

  Lemma vr_xle : forall st st' p v, xle st st' -> vr st p v -> vr st' p v.
  Proof. intros st st' p v [] H. now apply (vrel_mono d (hp st)). Qed.
  Lemma vrs_xle : forall st st' p v, xle st st' -> vrels d (hp st) p v -> vrels d (hp st') p v.
  Proof. intros st st' p v [] H. now apply (vrels_mono d (hp st)). Qed.
  Lemma vr_grows : forall st st' p v, grows st st' -> vr st p v -> vr st' p v.
  Proof. intros st st' p v [] H. now apply (vrel_mono d (hp st)). Qed.
  Lemma vrs_grows : forall st st' p v, grows st st' -> vrels d (hp st) p v -> vrels d (hp st') p v.
  Proof. intros st st' p v [] H. now apply (vrels_mono d (hp st)). Qed.

  Lemma lookup_rel : forall st ps n, srel d st ps ->
    match qlookup n ps with
    | Some p => exists v, lookup n st = Some v /\ vr st p v
    | None => envs_get n (locals st) = None /\ env_get n (nth (cur st) (fscopes st) []) = None
    end.
  Proof.
    intros st ps n [H1 (g & H2 & H3) H4 H5]. unfold qlookup, lookup.
    pose proof (envs_get_rel d _ n _ _ H4) as Hl. rewrite H1, H2. cbn [nth].
    destruct (qenvs_get n (ql ps)) as [p|].
    - destruct Hl as (v & Hv1 & Hv2). rewrite Hv1. exists v. now split.
    - rewrite Hl. pose proof (env_get_rel d _ n _ _ H3) as Hg. destruct (qenv_get n (qg ps)) as [p|].
      + destruct Hg as (v & Hv1 & Hv2). rewrite Hv1. exists v. now split.
      + now split.
  Qed.

  Lemma lookup_builtin : forall st ps n, srel d st ps -> qlookup n ps = None -> existsb (str_eqb n) builtin_names = true ->
    lookup n st = Some (VBuiltin n).
  Proof.
    intros st ps n Hs Hq Hb. pose proof (lookup_rel st ps n Hs) as Hl. rewrite Hq in Hl. destruct Hl as [H1 H2].
    unfold lookup. now rewrite H1, H2, Hb.
  Qed.

  Lemma set_var_rel : forall st ps n v p, srel d st ps -> vr st p v -> srel d (set_var n v st) (qset_var n p ps).
  Proof.
    intros st ps n v p [H1 (g & H2 & H3) H4 H5] Hv. unfold set_var, qset_var.
    destruct (locals st) as [|e l] eqn:El; destruct (ql ps) as [|pe pl0] eqn:Ep; inversion H4; subst.
    - constructor; cbn.
      + exact H1.
      + rewrite H1, H2. cbn. eexists. split; [reflexivity|]. now apply env_set_rel.
      + rewrite El. constructor.
      + exact H5.
    - constructor; cbn.
      + exact H1.
      + exists g. now split.
      + constructor; [now apply env_set_rel|assumption].
      + exact H5.
  Qed.

  (* ---- lists on the heap ---- *)
  Lemma vrel_list_inv : forall st ps v, vr st (QList ps) v ->
    exists sl, v = VList sl /\ vrels d (hp st) ps (list_items d st sl) /\ list_len d st sl = length ps.
  Proof.
    intros st ps v H. apply vrel_list in H. destruct H as (sl & cells & -> & H2 & H3 & H4). exists sl. cbn [hp fst] in H2.
    assert (Ha : arr_of st (s_arr sl) = cells) by (unfold arr_of; now apply nth_error_nth).
    assert (Hi : list_items d st sl = lview d sl cells) by (unfold list_items, lview; rewrite Ha; reflexivity).
    split; [reflexivity|]. split; [now rewrite Hi|].
    unfold list_len. destruct d; [exact H3|]. rewrite Ha. apply (vrels_length _ _ _ _ H4).
  Qed.

  Lemma hp_set_arrays : forall st m, hp (set_arrays (arrays st ++ m) st) = (arrays st ++ m, dicts st).
  Proof. reflexivity. Qed.

  Lemma xle_set_arrays : forall st m, xle st (set_arrays (arrays st ++ m) st).
  Proof. intros st m. constructor; try reflexivity. exists m, []. cbn. now rewrite app_nil_r. Qed.
  Lemma xle_set_dicts : forall st m, xle st (set_dicts (dicts st ++ m) st).
  Proof. intros st m. constructor; try reflexivity. exists [], m. cbn. now rewrite app_nil_r. Qed.

  Lemma alloc_vrel : forall st ps items cap, vrels d (hp st) ps items -> (d = Py -> (cap <= length items)%nat) ->
    exists sl st', alloc_list items cap st = (sl, st') /\ xle st st' /\ vr st' (QList ps) (VList sl).
  Proof.
    intros st ps items cap H Hc. unfold alloc_list. eexists. eexists. split; [reflexivity|]. split; [apply xle_set_arrays|].
    apply vrel_list. exists (Slice (length (arrays st)) 0 (length items) (Nat.max cap (length items))).
    exists (items ++ repeat VNone (cap - length items)). rewrite hp_set_arrays. cbn [fst s_arr s_len].
    split; [reflexivity|]. split; [|split].
    - rewrite nth_error_app2 by lia. now rewrite Nat.sub_diag.
    - apply (vrels_length _ _ _ _ H).
    - apply (vrels_mono d (hp st)); [exists [items ++ repeat VNone (cap - length items)], []; cbn; now rewrite app_nil_r|].
      unfold lview. cbn [s_len s_off skipn]. destruct d.
      + rewrite firstn_app, Nat.sub_diag, firstn_all. cbn [firstn]. now rewrite app_nil_r.
      + replace (cap - length items)%nat with 0%nat by (specialize (Hc eq_refl); lia). cbn [repeat]. now rewrite app_nil_r.
  Qed.

  Lemma new_list_vrel : forall st ps items, vrels d (hp st) ps items ->
    exists v st', new_list items st = (v, st') /\ xle st st' /\ vr st' (QList ps) v.
  Proof.
    intros st ps items H. unfold new_list. destruct (alloc_vrel st ps items (length items) H (fun _ => le_n _)) as (sl & st' & E & Hx & Hv).
    rewrite E. now exists (VList sl), st'.
  Qed.

  Lemma truthy_rel : forall st p v, vr st p v -> truthy d st v = qtruthy p.
  Proof.
    intros st p v H. destruct p; cbn [vrel] in H; try (subst v; reflexivity).
    - destruct (vrel_list_inv st l v H) as (sl & -> & _ & Hl). cbn [truthy qtruthy]. rewrite Hl. now destruct l.
    - apply vrel_dict in H. destruct H as (i & es & -> & H2 & _ & H4). cbn [truthy qtruthy]. unfold dict_of.
      cbn [hp snd] in H2. rewrite (nth_error_nth _ _ _ H2). inversion H4; reflexivity.
  Qed.

  Lemma nth_vrels : forall h ps vs i, vrels d h ps vs -> vrel d h (nth i ps QNone) (nth i vs VNone).
  Proof.
    intros h ps vs i H. revert i. induction H as [|p v ps vs Hp _ IH]; intros [|i]; cbn [nth]; try reflexivity; [exact Hp|apply IH].
  Qed.

  (* ---- a list of freshly allocated lists (enumerate, zip, dict.items()) ---- *)
  Lemma mapM_map : forall {A B C} (h : A -> B) (g : B -> state -> res (C * state)) l st,
    mapM (fun x st0 => g (h x) st0) l st = mapM g (map h l) st.
  Proof.
    intros A B C h g l. induction l as [|x l IH]; intros st; cbn [mapM map]; [reflexivity|].
    destruct (g (h x) st) as [[y st1]| |]; cbn [rbind]; try reflexivity. now rewrite IH.
  Qed.

  Lemma rows_vrel : forall prows rows st, Forall2 (vrels d (hp st)) prows rows ->
    exists vs st1, mapM (fun row st0 => Ok (new_list row st0)) rows st = Ok (vs, st1) /\ xle st st1 /\ vrels d (hp st1) (map QList prows) vs.
  Proof.
    intros prows rows st H. revert prows st H. induction rows as [|row rows IH]; intros prows st H; inversion H as [|prow ? prows' ? Hrow Hrest]; subst; cbn [mapM map].
    - exists [], st. split; [reflexivity|]. split; [apply xle_refl|constructor].
    - destruct (new_list_vrel st prow row Hrow) as (v & st' & E & Hx & Hv). rewrite E. cbn [rbind].
      assert (Hrest' : Forall2 (vrels d (hp st')) prows' rows).
      { clear - Hrest Hx. induction Hrest; constructor; [now apply (vrs_xle st st')|assumption]. }
      destruct (IH prows' st' Hrest') as (vs & st1 & E1 & Hx1 & Hvs). rewrite E1. cbn [rbind].
      exists (v :: vs), st1. split; [reflexivity|]. split; [now apply (xle_trans st st')|].
      constructor; [now apply (vr_xle st' st1)|exact Hvs].
  Qed.

  Lemma rows_list_vrel : forall prows rows st, Forall2 (vrels d (hp st)) prows rows ->
    exists v st2, rbind (mapM (fun row st0 => Ok (new_list row st0)) rows st) (fun '(pairs, st1) => Ok (new_list pairs st1)) = Ok (v, st2)
      /\ xle st st2 /\ vr st2 (QList (map QList prows)) v.
  Proof.
    intros prows rows st H. destruct (rows_vrel prows rows st H) as (vs & st1 & E & Hx & Hvs). rewrite E. cbn [rbind].
    destruct (new_list_vrel st1 _ vs Hvs) as (v & st2 & E2 & Hx2 & Hv). rewrite E2.
    exists v, st2. split; [reflexivity|]. split; [now apply (xle_trans st st1)|exact Hv].
  Qed.
End Rel.

(* ================================================================ list facts for slices *)
Lemma skipn_skipn' : forall {A} a b (l : list A), skipn a (skipn b l) = skipn (b + a) l.
Proof.
  intros A a b. induction b as [|b IH]; intros l; [reflexivity|]. destruct l as [|x l]; [now rewrite !skipn_nil|]. cbn [plus skipn]. apply IH.
Qed.

Lemma slice_view : forall {A} (c : list A) off len a k, (a + k <= len)%nat ->
  firstn k (skipn a (firstn len (skipn off c))) = firstn k (skipn (off + a) c).
Proof.
  intros A c off len a k H. rewrite skipn_firstn_comm, firstn_firstn, skipn_skipn'. f_equal. lia.
Qed.

Lemma Forall2_firstn : forall {A B} (R : A -> B -> Prop) n l l', Forall2 R l l' -> Forall2 R (firstn n l) (firstn n l').
Proof. intros A B R n l l' H. revert n. induction H; intros [|n]; cbn [firstn]; constructor; auto. Qed.
Lemma Forall2_skipn : forall {A B} (R : A -> B -> Prop) n l l', Forall2 R l l' -> Forall2 R (skipn n l) (skipn n l').
Proof. intros A B R n l l' H. revert n. induction H; intros [|n]; cbn [skipn]; try constructor; auto. Qed.
Lemma Forall2_map_same : forall {A B C} (R : B -> C -> Prop) (f : A -> B) (g : A -> C) l, (forall x, R (f x) (g x)) -> Forall2 R (map f l) (map g l).
Proof. intros A B C R f g l H. induction l; cbn [map]; constructor; auto. Qed.

(* a string without continuation bytes: its runes are its bytes *)
Lemma runes_go_single : forall x c, existsb is_cont x = false -> runes_go x [c] = map (fun b => [b]) (c :: x).
Proof.
  induction x as [|b x IH]; intros c H; cbn [runes_go map rev app]; [reflexivity|].
  cbn [existsb] in H. apply Bool.orb_false_iff in H. destruct H as [Hb Hx]. rewrite Hb. cbn [rev app]. f_equal. now apply IH.
Qed.
Lemma runes_plain : forall x, existsb is_cont x = false -> runes x = map (fun b => [b]) x.
Proof.
  intros [|b x] H; [reflexivity|]. unfold runes. cbn [runes_go]. cbn [existsb] in H. apply Bool.orb_false_iff in H. destruct H as [Hb Hx].
  rewrite Hb. now apply runes_go_single.
Qed.
Lemma rune_count_plain : forall x, existsb is_cont x = false -> rune_count x = length x.
Proof.
  intros x H. unfold rune_count. induction x as [|b x IH]; [reflexivity|]. cbn [existsb] in H. apply Bool.orb_false_iff in H. destruct H as [Hb Hx].
  cbn [filter]. rewrite Hb. cbn [negb length]. now rewrite IH.
Qed.
Lemma str_concat_singles : forall x, str_concat (map (fun b => [b]) x) = x.
Proof. induction x as [|b x IH]; [reflexivity|]. cbn [map str_concat app]. now rewrite IH. Qed.
