(* C05 - builds terminate and report failure faithfully: what is proved about every run of the scheduler LTS. *)
From PlzV Require Import Base.Harness Model.Sched Proof.Sched_Base Proof.Sched_Inv Proof.Sched_Deps Proof.C04 Proof.Sched_Measure.
From Coq Require Import Lia Arith.

(* ---- every run is finite, with a bound that depends on the graph only ---- *)
Theorem run_bounded : forall g ls s, run g (init g) ls = Some s -> length ls <= mu_bound g.
Proof. intros g ls s H. pose proof (run_length_bound g ls s H). lia. Qed.

(* ---- the exit status: progress.failed is never reset, and a failed or dependency-failed target sets it ---- *)
Ltac grind_apply :=
  repeat (first [ reflexivity | progress autorewrite with proj | progress cbn
                | match goal with |- context [match ?x with _ => _ end] => destruct x eqn:? end
                | match goal with |- context [if ?x then _ else _] => destruct x eqn:? end ]).

Lemma failed_mono : forall g s l, failed s = true -> failed (apply g s l) = true.
Proof.
  intros g s l H. destruct l; cbn [apply]; grind_apply; auto.
Qed.

Definition F (s : state) : Prop := forall t, (12 <= rank (ts s t))%N -> failed s = true.

Lemma ts_apply_cases : forall g s l x, F s -> enabled g s l = true ->
  ts (apply g s l) x = ts s x \/ (rank (ts (apply g s l) x) < 12)%N \/ failed (apply g s l) = true.
Proof.
  intros g s l x HF He.
  destruct l; unfold enabled in He; cbv beta iota in He; cbn [apply]; btrue.
  - left; grind_apply.
  - left; grind_apply.
  - (* LParseActivate *) autorewrite with proj. cbn. destruct (ex s l); autorewrite with proj; cbn; auto.
    rewrite ts_qr. destruct (qr_ok _ _ && _); cbn; auto. right; left; lia.
  - left; grind_apply.
  - (* LAddTarget *) destruct (Nat.eqb t l); autorewrite with proj; cbn; auto.
    rewrite ts_qr. destruct (qr_ok _ _ && _); cbn; auto. right; left; lia.
  - (* LParseOk *) autorewrite with proj. cbn. destruct (ex s l); autorewrite with proj; cbn; auto.
    rewrite ts_qr. destruct (qr_ok _ _ && _); cbn; auto. right; left; lia.
  - left; grind_apply.
  - (* LMarkSemi *) destruct (cas cas_noneed (ts s t)) as [new|] eqn:C; cbn; auto.
    assert (new = Semiactive) as -> by (destruct (ts s t); cbn in C; inversion C; reflexivity).
    unfold upd. destruct (Nat.eqb x t); auto. right; left; cbn; lia.
  - left; grind_apply.
  - (* LAsyncQueueDep *) dasy s t Ea. dlist todo.
    destruct (ex s d); [|destruct (pst_eqb (pk s (g_pkg g d)) PParsed)]; cbn; autorewrite with proj; cbn; auto.
    rewrite ts_qr. destruct (qr_ok _ _ && _); cbn; auto. right; left; lia.
  - left; grind_apply.
  - (* LAsyncResolveDep *) dasy s t Ea. destruct (ex s d); cbn; autorewrite with proj; cbn; auto.
    rewrite ts_qr. destruct (qr_ok _ _ && _); cbn; auto. right; left; lia.
  - (* LAsyncBeginWait *) dasy s t Ea. dlist todo. destruct err; cbn; autorewrite with proj; cbn; auto.
  - (* LWaitDep *) dasy s t Ea. dlist todo. cbn. auto.
  - (* LDepFailed *) dasy s t Ea. dlist todo. btrue. cbn. unfold upd. destruct (Nat.eqb x t); auto.
    right; right. apply HF with d.
    match goal with H : st_geb _ _ = true |- _ => unfold st_geb in H; apply N.leb_le in H; cbn in H; exact H end.
  - (* LActivatePending *) dasy s t Ea. dlist todo.
    destruct (cas [cas_pending] (ts s t)) as [new|] eqn:C; cbn; auto.
    assert (new = Pending) as -> by (destruct (ts s t); cbn in C; inversion C; reflexivity).
    unfold upd. destruct (Nat.eqb x t); auto. right; left; cbn; lia.
  - left; grind_apply.
  - left; grind_apply.
  - left; grind_apply.
  - (* LBuildStart *) cbn. unfold upd. destruct (Nat.eqb x t); auto. right; left; cbn; lia.
  - (* LBuildOk *) cbn. unfold upd. destruct (Nat.eqb x t); auto. right; left.
    unfold built_kind, st_eqb in *. destruct o; cbn in *; try discriminate; lia.
  - (* LBuildFail *) right; right. cbn. autorewrite with proj. reflexivity.
  - left; grind_apply.
  - left; grind_apply.
  - left; grind_apply.
  - left; grind_apply.
  - left; grind_apply.
  - left; grind_apply.
Qed.

Theorem F_reachable : forall g s, reachable g s -> F s.
Proof.
  intros g s Hr. pattern s. apply (reachable_ind' g); [intros t H; cbn in H; lia | | exact Hr].
  intros s0 l _ HF He t Ht. destruct (ts_apply_cases g s0 l t HF He) as [E|[E|E]]; [|lia|exact E].
  rewrite E in Ht. apply failed_mono. apply (HF t Ht).
Qed.

(* an OErr (missing dependency / cycle) or a failed final result in the log means a non-zero exit status *)
Definition bad_event (o : obs) : bool := match o with OErr _ | OEnd _ RFailed | OEnd _ RDepFailed => true | _ => false end.

Theorem bad_event_failed : forall g s, reachable g s -> (exists o, In o (trace s) /\ bad_event o = true) -> failed s = true.
Proof.
  intros g s Hr. pattern s. apply (reachable_ind' g); [intros [o [[] _]] | | exact Hr].
  intros s0 l Hr0 IH He [o [Hin Hb]].
  pose proof (trace_apply g s0 l He) as Ht.
  assert (Hold : In o (trace s0) -> failed (apply g s0 l) = true) by (intros; apply failed_mono, IH; eauto).
  assert (Hnew : forall t r, trace (apply g s0 l) = OEnd t r :: trace s0 -> ts (apply g s0 l) t = st_of r -> failed (apply g s0 l) = true).
  { intros t r E1 E2. rewrite E1 in Hin. destruct Hin as [<-|Hin]; [|auto].
    destruct r; [discriminate| |]; apply (F_reachable g _ (reachable_step g s0 _ Hr0 He) t); rewrite E2; cbn; lia. }
  destruct l; try (destruct Ht as [Ht|[e [Ht Hf]]]; [rewrite Ht in Hin; auto | exact Hf]).
  - destruct Ht as [E1 E2]. apply (Hnew t RDepFailed); auto.
  - rewrite Ht in Hin. destruct Hin as [<-|Hin]; [discriminate|auto].
  - destruct Ht as (E1 & E2 & E3). eapply Hnew; [exact E1 | exact E2].
  - destruct Ht as [E1 E2]. apply (Hnew t RFailed); auto.
Qed.

(* ---- nothing runs after the invocation has ended; every command that started has ended and is logged ---- *)
Definition quiet (s : state) : Prop :=
  actq s = [] /\ taken s = [] /\ building s = [] /\ finishing s = [] /\ completing s = [] /\ closed s = true.

Lemma enabled_not_exited : forall g s l, enabled g s l = true -> exited s = false.
Proof. intros g s l H. unfold enabled in H. apply andb_prop in H. destruct H as [H _]. apply negb_true_iff in H. exact H. Qed.

Theorem exited_quiet : forall g s, reachable g s -> exited s = true -> quiet s.
Proof.
  intros g s Hr. pattern s. apply (reachable_ind' g); [cbn; discriminate | | exact Hr].
  intros s0 l _ IH He Hx. pose proof (enabled_not_exited g s0 l He) as Hn.
  destruct l; try (exfalso; revert Hx; cbn [apply]; grind_apply; congruence).
  unfold enabled in He. btrue. cbn. unfold quiet. cbn.
  repeat match goal with H : is_nil _ = true |- _ => apply is_nil_true in H end. repeat split; assumption.
Qed.

Theorem started_ended_at_exit : forall g s, reachable g s -> exited s = true ->
  forall t, tstarts t (trace s) = 1 -> tends t (trace s) = 1 /\ completed (ts s t) = true.
Proof.
  intros g s Hr Hx t Hst. destruct (exited_quiet g s Hr Hx) as (_ & _ & Hb & _).
  destruct (J_reachable g s Hr t) as (_ & _ & HS). unfold shape in HS. rewrite Hb in HS. cbn in HS.
  destruct (ts s t); cbn in *; dand; try lia; try contradiction; split; (lia || reflexivity).
Qed.

(* ---- never runs a target whose dependency failed: direct and transitive ---- *)
Inductive tdep (g : graph) : nat -> nat -> Prop :=
| tdep_one : forall t d, In d (g_deps g t) -> tdep g t d
| tdep_step : forall t d e, In d (g_deps g t) -> tdep g d e -> tdep g t e.

Lemma end_built_started : forall g s, reachable g s -> forall d o, In (OEnd d (RBuilt o)) (trace s) -> In (OStart d) (trace s).
Proof.
  intros g s Hr d o Hin. destruct (Inv04_reachable g s Hr) as [HJ _ HT2 _ _].
  destruct (HT2 _ _ Hin) as [Ets Hk]. cbn in Ets, Hk.
  destruct (HJ d) as (_ & _ & HS). unfold shape in HS. rewrite Ets in HS.
  apply tstarts_pos_In. unfold built_kind, st_eqb in Hk. destruct o; cbn in *; try discriminate; dand; lia.
Qed.

Theorem no_run_after_failed_dep : forall g s, reachable g s -> forall t, In (OStart t) (trace s) ->
  forall d, tdep g t d ->
    (exists o, built_kind o = true /\ In (OEnd d (RBuilt o)) (trace s)) /\
    ~ In (OEnd d RFailed) (trace s) /\ ~ In (OEnd d RDepFailed) (trace s).
Proof.
  intros g s Hr t Hin d Hd. revert Hin. induction Hd as [t d Hd | t d e Hd Hde IH]; intros Hin.
  - apply in_split in Hin. destruct Hin as [l1 [l2 E]].
    destruct (after_deps g s Hr l1 l2 t E d Hd) as [[o [Ho Hi]] Hn]. split; [|exact Hn].
    exists o. split; [exact Ho|]. rewrite E. apply in_or_app. right. right. exact Hi.
  - apply IH. apply in_split in Hin. destruct Hin as [l1 [l2 E]].
    destruct (after_deps g s Hr l1 l2 t E d Hd) as [[o [Ho Hi]] _].
    apply (end_built_started g s Hr d o). rewrite E. apply in_or_app. right. right. exact Hi.
Qed.
