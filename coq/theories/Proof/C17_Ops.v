(* C17 - the invariant of Proof/C17_Inv.v through the value-level operations of the evaluator (asp dialect):
   indexing, slicing, index assignment, iteration, unpacking, the strict binary operators, the operator
   chain (flat_ops), the native builtins and methods, constant allocation. *)
From Coq Require Import String Lia.
From PlzV Require Import Base.Harness Gen.AspTables Model.C16_Syntax Model.C16_Ops Model.C16_Prim Model.C16_Eval.
From PlzV Require Import Proof.C17_Inv.
Local Open Scope list_scope.
Local Open Scope nat_scope.

(* head-position case analysis on a hypothesis  <computation> = Ok _ *)
Ltac inv_res H :=
  repeat (unfold rbind in H; cbv beta match in H;
          match type of H with
          | (match ?x with _ => _ end) = _ => let E := fresh "E" in destruct x eqn:E; try discriminate H
          end).

(* head-position case analysis on a goal  post Q <computation> *)
Ltac post_step :=
  unfold rbind; cbv beta match;
  match goal with
  | |- post _ (Err _) => exact I
  | |- post _ OutOfFuel => exact I
  | |- post _ (match ?x with _ => _ end) => let E := fresh "E" in destruct x eqn:E
  end.

Lemma Ok_inj : forall {A} (a b : A), Ok a = Ok b -> a = b.
Proof. intros A a b H. now injection H. Qed.

Section Ops.
Variables (ca cd : nat -> mode) (pf ls : nat -> bool) (cs : list value) (defs : list (str * prog)).
Notation vok := (C17_Inv.vok ca cd pf).
Notation vokb := (C17_Inv.vokb ca cd pf).
Notation env_ok := (C17_Inv.env_ok ca cd pf).
Notation Inv := (C17_Inv.Inv ca cd pf ls cs defs).
Notation frame := (C17_Inv.frame ca cd ls).
Notation good := (C17_Inv.good ca cd pf ls cs defs).
Notation sok_e := (C17_Inv.sok_e ca cd pf cs).
Notation sok_v := (C17_Inv.sok_v ca cd pf cs).
Notation sok_i := (C17_Inv.sok_i ca cd pf cs).

Lemma good_pure : forall st v, Inv st -> vok v -> post (good st vok) (Ok (v, st)).
Proof. intros. apply good_ret; auto. Qed.

(* ---------------------------------------------------------------- monadic maps *)
Lemma mapM_good : forall {A B} (R : B -> Prop) (g : A -> state -> res (B * state)) l st,
  Inv st -> (forall x, List.In x l -> forall st0, Inv st0 -> post (good st0 R) (g x st0)) ->
  post (good st (Forall R)) (mapM g l st).
Proof.
  intros A B R g. induction l as [|x r IH]; intros st HI Hg; cbn [mapM].
  - apply good_ret; auto.
  - eapply good_bind; [apply Hg; [left; reflexivity|exact HI]|].
    intros y st1 I1 F1 Hy. cbn beta iota.
    eapply good_bind; [apply IH; [exact I1|intros; apply Hg; [right; assumption|assumption]]|].
    intros ys st2 I2 F2 Hys. cbn beta iota. apply good_ret; auto.
Qed.

Lemma mapR_Forall : forall {A B} (R : B -> Prop) (g : A -> res B) l ys,
  (forall x y, List.In x l -> g x = Ok y -> R y) -> mapR g l = Ok ys -> Forall R ys.
Proof.
  intros A B R g. induction l as [|x r IH]; intros ys Hg H; cbn [mapR] in H.
  - injection H as <-. constructor.
  - inv_res H. injection H as <-. constructor; [eapply Hg; [left; reflexivity|eassumption]|].
    eapply IH; [|reflexivity]. intros; eapply Hg; [right|]; eassumption.
Qed.

Lemma Forall_concat_repeat : forall (Q : value -> Prop) l n, Forall Q l -> Forall Q (repeat_items n l).
Proof.
  intros Q l n H. unfold repeat_items. induction n; cbn; [constructor|]. apply Forall_app. split; auto.
Qed.

Lemma range_up_ok : forall n a c, Forall vok (range_up n a c).
Proof. induction n; intros; cbn; constructor; auto. reflexivity. Qed.

Lemma range_items_ok : forall a b c l, range_items Asp a b c = Ok l -> Forall vok l.
Proof.
  intros a b c l H. unfold range_items in H. inv_res H; try (injection H as <-); try constructor; apply range_up_ok.
Qed.

(* ---------------------------------------------------------------- index, slice, index assignment *)
Lemma vindex_ok : forall st obj idx v, Inv st -> vok obj -> vindex Asp st obj idx = Ok v -> vok v.
Proof.
  intros st obj idx v HI Ho H. unfold vindex in H.
  destruct obj; try discriminate H.
  - destruct idx; try discriminate H. inv_res H. injection H as <-. reflexivity.
  - destruct idx; try discriminate H. inv_res H. injection H as <-.
    apply Forall_nth; [|reflexivity]. apply (items_ok ca cd pf ls cs defs); auto. apply vok_list_frozen; auto.
  - destruct idx; try discriminate H. inv_res H. injection H as <-.
    apply Forall_nth; [|reflexivity]. apply (items_ok ca cd pf ls cs defs); auto.
  - destruct idx; try discriminate H. inv_res H. injection H as <-.
    eapply env_get_ok; [|eassumption]. apply (dict_ok ca cd pf ls cs defs); auto. apply vok_dict_frozen; auto.
  - destruct idx; try discriminate H. inv_res H. injection H as <-.
    eapply env_get_ok; [|eassumption]. apply (dict_ok ca cd pf ls cs defs); auto.
Qed.

Lemma vslice_good : forall st obj lo hi, Inv st -> vok obj -> post (good st vok) (vslice Asp st obj lo hi).
Proof.
  intros st obj lo hi HI Ho. unfold vslice.
  destruct obj; try exact I.
  - repeat post_step; apply good_pure; auto; reflexivity.
  - repeat post_step; apply good_pure; auto.
Qed.

Lemma vindex_assign_good : forall st obj idx v st', Inv st -> vok obj -> vok v ->
  vindex_assign Asp st obj idx v = Ok st' -> Inv st' /\ frame st st'.
Proof.
  intros st obj idx v st' HI Ho Hv H. unfold vindex_assign in H.
  destruct obj; try discriminate H.
  - destruct idx; try discriminate H. inv_res H. injection H as <-.
    apply arr_write_good; auto. unfold C17_Inv.vok, C17_Inv.vokb in Ho. destruct (ca (s_arr sl)); auto; discriminate.
  - destruct idx; try discriminate H. injection H as <-.
    apply dict_store_good; auto. unfold C17_Inv.vok, C17_Inv.vokb in Ho. destruct (cd id); auto; discriminate.
Qed.

Lemma iter_items_ok : forall st v l, Inv st -> vok v -> iter_items Asp st v = Ok l -> Forall vok l.
Proof.
  intros st v l HI Hv H. unfold iter_items in H. destruct v; try discriminate H.
  - injection H as <-. apply (items_ok ca cd pf ls cs defs); auto. apply vok_list_frozen; auto.
  - injection H as <-. apply (items_ok ca cd pf ls cs defs); auto.
  - injection H as <-. constructor.
  - eapply range_items_ok; eauto.
Qed.

Lemma set_vars_combine_good : forall names items st, Inv st -> Forall vok items ->
  let st' := fold_left (fun acc nv => set_var (fst nv) (snd nv) acc) (combine names items) st in Inv st' /\ frame st st'.
Proof.
  intros names items st HI Hit. apply (set_vars_good ca cd pf ls cs defs); auto.
  unfold C17_Inv.env_ok. revert items Hit. induction names as [|n r IH]; intros [|x xs] Hit; cbn; try constructor.
  - inversion Hit; auto.
  - inversion Hit; auto.
Qed.

Lemma unpack_names_good : forall names v st st', Inv st -> vok v ->
  unpack_names Asp names v st = Ok st' -> Inv st' /\ frame st st'.
Proof.
  intros names v st st' HI Hv H. unfold unpack_names in H.
  destruct names as [|n [|n2 r]].
  - destruct v; try discriminate H. inv_res H. injection H as <-. cbn. split; [auto|apply frame_refl].
  - injection H as <-. apply set_var_good; auto.
  - destruct v; try discriminate H. inv_res H. apply Ok_inj in H. rewrite <- H.
    apply set_vars_combine_good; auto. apply (items_ok ca cd pf ls cs defs); auto. apply vok_list_frozen; auto.
Qed.

(* ---------------------------------------------------------------- operators *)
Lemma apply_un_ok : forall u st v r, apply_un Asp u st v = Ok r -> vok r.
Proof. intros u st v r H. unfold apply_un in H. destruct u; inv_res H; injection H as <-; reflexivity. Qed.

Lemma bool_of_good : forall st (r : res bool) neg, Inv st ->
  post (good st vok) (rbind r (fun x => Ok (VBool (xorb neg x), st))).
Proof. intros st r neg HI. destruct r; cbn; auto. unfold C17_Inv.good. split; [auto|]. split; [apply frame_refl|reflexivity]. Qed.

Lemma merged_ok : forall (l acc : env), env_ok l -> env_ok acc ->
  env_ok (fold_left (fun acc kv => env_set (fst kv) (snd kv) acc) l acc).
Proof.
  induction l as [|[k v] r IH]; intros acc Hl Ha; cbn; auto.
  inversion Hl; subst. apply IH; auto. apply env_set_ok; auto.
Qed.

Ltac leaf HI :=
  first
    [ exact I
    | apply good_pure; [exact HI|reflexivity]
    | apply bool_of_good; exact HI ].

Lemma apply_bin_good : forall fuel o a b st, Inv st -> vok a -> vok b ->
  post (good st vok) (apply_bin Asp fuel o a b st).
Proof.
  intros fuel o a b st HI Ha Hb.
  assert (Hrep : forall n sl, vok (VFrozenList sl) ->
            post (good st vok) (let '(r, st1) := alloc_list (repeat_items n (list_items Asp st sl)) (length (repeat_items n (list_items Asp st sl))) st in Ok (VList r, st1))).
  { intros n sl Hs. apply (new_list_good ca cd pf ls cs defs); auto. apply Forall_concat_repeat. apply (items_ok ca cd pf ls cs defs); auto. }
  assert (Hla : forall sl s2, vok (VFrozenList sl) -> vok (VFrozenList s2) ->
            post (good st vok) (let '(r, st1) := list_add Asp sl (list_items Asp st s2) st in Ok (VList r, st1))).
  { intros sl s2 H1 H2. pose proof (list_add_good ca cd pf ls cs defs sl (list_items Asp st s2) st HI H1) as H.
    destruct (list_add Asp sl (list_items Asp st s2) st) as [r st1]. cbn. unfold C17_Inv.good. apply H; auto.
    apply (items_ok ca cd pf ls cs defs); auto. }
  assert (Hun : forall i j, vok (VFrozenDict i) -> vok (VFrozenDict j) ->
            post (good st vok) (let '(n, st1) := alloc_dict (fold_left (fun acc kv => env_set (fst kv) (snd kv) acc) (dict_of st j) (dict_of st i)) st in Ok (VDict n, st1))).
  { intros i j H1 H2. pose proof (alloc_dict_good ca cd pf ls cs defs (fold_left (fun acc kv => env_set (fst kv) (snd kv) acc) (dict_of st j) (dict_of st i)) st HI) as H.
    destruct (alloc_dict _ st) as [n st1]. cbn. unfold C17_Inv.good. apply H.
    apply merged_ok; apply (dict_ok ca cd pf ls cs defs); auto. }
  unfold apply_bin. cbv zeta.
  destruct o; cbv beta iota; try (leaf HI).
  (* Is / IsNot and the remaining operators: by cases on the operands *)
  all: destruct a; try (leaf HI); cbn [is_py].
  all: try (destruct b; try (leaf HI); cbn [is_py]).
  all: repeat first
         [ leaf HI
         | apply Hrep; solve [assumption | apply vok_list_frozen; assumption]
         | apply Hla; [solve [assumption | apply vok_list_frozen; assumption] | solve [assumption | apply vok_list_frozen; assumption]]
         | apply Hun; solve [assumption | apply vok_dict_frozen; assumption]
         | post_step ].
Qed.

(* ---------------------------------------------------------------- the operator chain *)
Section Chain.
  Variable fuel : nat.
  Variable evalx : vexpr -> state -> res (value * state).
  Variable un : unop -> value -> state -> res value.
  Variable tr : value -> state -> bool.
  Hypothesis un_ok : forall u v st r, un u v st = Ok r -> vok r.

  (* what the chain needs of the evaluation of one operand *)
  Definition operand_good (x : vexpr) : Prop :=
    forall st, Inv st -> post (good st vok) (evalx x st).

  Lemma lift_un_good : forall u obj st, Inv st -> post (good st vok) (lift_un un u obj st).
  Proof.
    intros u obj st HI. unfold lift_un. destruct (un u obj st) eqn:E; cbn; auto.
    unfold C17_Inv.good. split; [auto|]. split; [apply frame_refl|eapply un_ok; eauto].
  Qed.

  Lemma recheck_post : forall {A} (Q : A -> state -> Prop) obj st st1 (k : res (A * state)),
    post Q k -> post Q (recheck tr obj st st1 k).
  Proof. intros A Q obj st st1 k H. unfold recheck. destruct (Bool.eqb _ _); [exact H|exact I]. Qed.

  Lemma interp_op_x_good : forall i obj st, Inv st -> vok obj ->
    (forall o x, i = OBin o x -> operand_good x) ->
    post (good st vok) (interp_op_x evalx (apply_bin Asp fuel) un tr obj (of_opitem i) st).
  Proof.
    intros i obj st HI Ho Hx. destruct i as [o x|u]; cbn [of_opitem interp_op_x]; [|apply lift_un_good; auto].
    specialize (Hx o x eq_refl).
    assert (Hstrict : post (good st vok) (rbind (evalx x st) (fun '(r, st1) => apply_bin Asp fuel o obj r st1))).
    { eapply good_bind; [apply Hx; auto|]. intros r st1 I1 F1 Hr. cbv beta match. apply apply_bin_good; auto. }
    destruct o; try exact Hstrict.
    - destruct (Bool.eqb (tr obj st) (binop_eqb And And)); [|apply good_pure; auto].
      eapply post_bind; [apply Hx; auto|]. intros r st1 Hg. cbv beta match. apply recheck_post. exact Hg.
    - destruct (Bool.eqb (tr obj st) (binop_eqb Or And)); [|apply good_pure; auto].
      eapply post_bind; [apply Hx; auto|]. intros r st1 Hg. cbv beta match. apply recheck_post. exact Hg.
  Qed.

  Lemma interp_op_v_good : forall obj o n st0 st, Inv st -> vok obj -> vok n ->
    post (good st vok) (interp_op_v (apply_bin Asp fuel) tr obj o n st0 st).
  Proof.
    intros obj o n st0 st HI Ho Hn. unfold interp_op_v.
    destruct o; try (apply apply_bin_good; auto).
    - apply recheck_post. destruct (Bool.eqb _ _); apply good_pure; auto.
    - apply recheck_post. destruct (Bool.eqb _ _); apply good_pure; auto.
  Qed.

  Lemma flat_ops_good : forall (ops : list opitem),
    (forall o x, List.In (OBin o x) ops -> operand_good x) ->
    forall obj st, Inv st -> vok obj ->
    post (good st vok) (flat_ops evalx (apply_bin Asp fuel) un tr obj (items_of ops) st).
  Proof.
    induction ops as [|i0 rest IH]; intros Hx obj st HI Ho.
    - cbn. apply good_pure; auto.
    - assert (Hx0 : forall o x, i0 = OBin o x -> operand_good x).
      { intros o x ->. apply (Hx o). left. reflexivity. }
      assert (Hxr : forall o x, List.In (OBin o x) rest -> operand_good x).
      { intros o x Hin. apply (Hx o). right. exact Hin. }
      destruct rest as [|i1 rest'].
      + cbn [items_of map flat_ops]. apply interp_op_x_good; auto.
      + change (items_of (i0 :: i1 :: rest')) with (of_opitem i0 :: of_opitem i1 :: items_of rest').
        cbn [flat_ops]. change (of_opitem i1 :: items_of rest') with (items_of (i1 :: rest')).
        destruct (aprec (ikey (of_opitem i0)) >=? aprec (ikey (of_opitem i1)))%Z eqn:Eprec.
        * eapply good_bind; [apply interp_op_x_good; auto|].
          intros r st1 I1 F1 Hr. cbv beta match. apply IH; auto.
        * destruct (alazy (ikey (of_opitem i0)) && negb (Bool.eqb (tr obj st) (key_is_and (ikey (of_opitem i0))))); [apply good_pure; auto|].
          destruct i0 as [o x|u]; cbn [of_opitem].
          -- eapply good_bind; [apply (Hx0 o x eq_refl); exact HI|].
             intros r0 st1 I1 F1 Hr0. cbv beta match.
             eapply good_bind; [apply IH; auto|].
             intros n st2 I2 F2 Hn. cbv beta match. apply interp_op_v_good; auto.
          -- eapply good_bind; [apply IH; auto|].
             intros r st1 I1 F1 Hr. cbv beta match. apply lift_un_good; auto.
  Qed.
End Chain.

Lemma chain_good : forall fuel evalx ops obj st,
  (forall o x, List.In (OBin o x) ops -> operand_good evalx x) ->
  Inv st -> vok obj ->
  post (good st vok) (chain Asp evalx fuel obj ops st).
Proof.
  intros. unfold chain. apply flat_ops_good; auto. intros u v st0 r Hr. eapply apply_un_ok; eauto.
Qed.

(* ---------------------------------------------------------------- natives *)
Lemma validate_ok : forall t def v v', vok v -> (forall dv, def = Some dv -> vok dv) -> validate t def v = Ok v' -> vok v'.
Proof.
  intros t def v v' Hv Hd H. unfold validate in H. inv_res H; apply Ok_inj in H; subst; auto.
Qed.

Definition sig_ok (sg : list (str * N * option value)) : Prop :=
  Forall (fun x => forall dv, snd x = Some dv -> vok dv) sg.

Lemma native_sig_ok : forall n sg va, native_sig n = Some (sg, va) -> sig_ok sg.
Proof.
  intros n sg va H. unfold native_sig in H. inv_res H; injection H as <- <-;
    repeat constructor; cbn; intros dv E'; try discriminate E'; injection E' as <-; reflexivity.
Qed.

Lemma method_sig_ok : forall n sg, method_sig n = Some sg -> sig_ok sg.
Proof.
  intros n sg H. unfold method_sig in H. inv_res H; injection H as <-;
    repeat constructor; cbn; intros dv E'; try discriminate E'; injection E' as <-; reflexivity.
Qed.

Lemma strict_list_ok : forall st v l, Inv st -> vok v -> strict_list Asp st v = Ok l -> Forall vok l.
Proof.
  intros st v l HI Hv H. unfold strict_list in H. destruct v; try discriminate H; apply Ok_inj in H; subst.
  - apply (items_ok ca cd pf ls cs defs); auto. apply vok_list_frozen; auto.
  - constructor.
Qed.

Lemma ins_left_ok : forall (Q : value -> Prop) less x rs r, Q x -> Forall Q rs -> ins_left less x rs = Ok r -> Forall Q r.
Proof.
  intros Q less x. induction rs as [|y rs IH]; intros r Hx Hrs H; cbn [ins_left] in H.
  - apply Ok_inj in H. subst. constructor; auto.
  - inversion Hrs; subst. inv_res H; apply Ok_inj in H; subst; constructor; auto.
Qed.

Lemma insertion_sort_ok : forall (Q : value -> Prop) less l r, Forall Q l -> insertion_sort less l = Ok r -> Forall Q r.
Proof.
  intros Q less l r Hl H. unfold insertion_sort in H.
  match type of H with
  | rbind (?go l []) _ = _ =>
      assert (Hgo : forall l0 acc out, Forall Q l0 -> Forall Q acc -> go l0 acc = Ok out -> Forall Q out)
  end.
  { induction l0 as [|x rest IH]; intros acc out Hl0 Hacc Hout.
    - apply Ok_inj in Hout. subst. auto.
    - inversion Hl0 as [|? ? Hx Hrest]; subst. inv_res Hout.
      match goal with E : ins_left less x acc = Ok ?a |- _ => apply (IH a out Hrest (ins_left_ok Q less x acc a Hx Hacc E) Hout) end. }
  inv_res H. apply Ok_inj in H. subst. apply Forall_rev. eapply Hgo; [exact Hl| |exact E]. constructor.
Qed.

Lemma minmax_ok : forall (Q : value -> Prop) (cmp : value -> value -> res bool) r cur best,
  Forall Q r -> Q cur ->
  (fix go (r : list value) (cur : value) : res value :=
     match r with
     | [] => Ok cur
     | y :: r' => rbind (cmp y cur) (fun b => go r' (if b then y else cur))
     end) r cur = Ok best -> Q best.
Proof.
  induction r as [|y r IH]; intros cur best Hr Hc H.
  - apply Ok_inj in H. subst. auto.
  - inversion Hr as [|? ? Hy Hr']; subst. inv_res H. eapply IH; [exact Hr'| |exact H].
    match goal with |- Q (if ?b then _ else _) => destruct b end; auto.
Qed.

Lemma sort_kvs_ok : forall l, env_ok l -> env_ok (sort_kvs l).
Proof.
  assert (Hins : forall kv l, vok (snd kv) -> env_ok l -> env_ok (insert_kv kv l)).
  { intros kv. induction l as [|x r IH]; intros Hk Hl; cbn.
    - constructor; auto.
    - inversion Hl as [|? ? Hx Hr]; subst. destruct (str_leb (fst kv) (fst x)).
      + constructor; [exact Hk|exact Hl].
      + constructor; [exact Hx|apply IH; [exact Hk|exact Hr]]. }
  induction l as [|x r IH]; intros Hl; cbn; [constructor|]. inversion Hl; subst. apply Hins; auto.
Qed.

Lemma Forall_map_VStr : forall (l : list str), Forall vok (map VStr l).
Proof. induction l; cbn; constructor; auto. reflexivity. Qed.

Lemma nth_args_ok : forall args i, Forall vok args -> vok (nth i args VNone).
Proof. intros. apply Forall_nth; auto. reflexivity. Qed.

Lemma native_good : forall fuel n args st, Inv st -> Forall vok args -> post (good st vok) (native Asp fuel n args st).
Proof.
  intros fuel n args st HI Ha. unfold native. cbv zeta.
  pose proof (nth_args_ok args 0 Ha) as A0. pose proof (nth_args_ok args 1 Ha) as A1. pose proof (nth_args_ok args 2 Ha) as A2.
  destruct (str_eqb n (s "len")). { repeat first [leaf HI | post_step]. }
  destruct (str_eqb n (s "str")). { repeat first [leaf HI | post_step]. }
  destruct (str_eqb n (s "bool")). { leaf HI. }
  destruct (str_eqb n (s "enumerate")).
  { apply post_bind_pure. intros l Hl. pose proof (strict_list_ok _ _ _ HI A0 Hl) as Hlv.
    eapply good_bind.
    - apply (mapM_good vok); [exact HI|]. intros iv Hin st0 I0. apply (new_list_good ca cd pf ls cs defs); auto.
      constructor; [reflexivity|]. constructor; [|constructor]. destruct iv as [i v]. apply in_combine_r in Hin.
      rewrite Forall_forall in Hlv. apply Hlv. exact Hin.
    - intros pairs st1 I1 F1 Hp. cbv beta match. apply (new_list_good ca cd pf ls cs defs); auto. }
  destruct (str_eqb n (s "zip")).
  { apply post_bind_pure. intros lsts Hl.
    assert (Hlv : Forall (Forall vok) lsts).
    { eapply mapR_Forall; [|exact Hl]. intros x y Hin Hy. apply (strict_list_ok st x y HI); [|exact Hy]. rewrite Forall_forall in Ha. apply Ha; auto. }
    destruct lsts as [|l0 lr]; [exact I|].
    assert (Hrow : forall i, Forall vok (map (fun l => nth i l VNone) (l0 :: lr))).
    { intros i. apply Forall_forall. intros x Hin. apply in_map_iff in Hin. destruct Hin as (l & <- & Hin).
      apply Forall_nth; [|reflexivity]. rewrite Forall_forall in Hlv. apply Hlv. exact Hin. }
    destruct (forallb _ _); [|exact I].
    eapply good_bind.
    - apply (mapM_good vok); [exact HI|]. intros i Hin st0 I0. apply (new_list_good ca cd pf ls cs defs); auto.
    - intros rows st1 I1 F1 Hp. cbv beta match. apply (new_list_good ca cd pf ls cs defs); auto. }
  destruct (str_eqb n (s "any")). { repeat first [leaf HI | post_step]. }
  destruct (str_eqb n (s "all")). { repeat first [leaf HI | post_step]. }
  destruct (str_eqb n (s "reversed")).
  { apply post_bind_pure. intros l Hl. pose proof (strict_list_ok _ _ _ HI A0 Hl) as Hlv.
    apply (new_list_good ca cd pf ls cs defs); auto. apply Forall_rev. auto. }
  destruct (str_eqb n (s "sorted")).
  { apply post_bind_pure. intros l Hl. pose proof (strict_list_ok _ _ _ HI A0 Hl) as Hlv.
    destruct (nth 1 args VNone); try exact I. destruct (nth 2 args VNone); try exact I.
    destruct (_ && _); [exact I|]. apply post_bind_pure. intros r Hr.
    apply (new_list_good ca cd pf ls cs defs); auto. eapply insertion_sort_ok; eauto. }
  destruct (str_eqb n (s "min") || str_eqb n (s "max")).
  { apply post_bind_pure. intros l Hl. pose proof (strict_list_ok _ _ _ HI A0 Hl) as Hlv.
    destruct (nth 1 args VNone); try exact I. destruct l as [|x r]; [exact I|]. inversion Hlv; subst.
    apply post_bind_pure. intros best Hb. apply good_pure; auto. eapply (minmax_ok vok); [| |exact Hb]; auto. }
  destruct (str_eqb n (s "range")). { repeat first [leaf HI | post_step]. }
  exact I.
Qed.


Lemma native_method_good : forall fuel n args st, Inv st -> Forall vok args ->
  post (good st vok) (native_method Asp fuel n args st).
Proof.
  intros fuel n args st HI Ha. unfold native_method. cbv zeta.
  pose proof (nth_args_ok args 0 Ha) as A0. pose proof (nth_args_ok args 1 Ha) as A1. pose proof (nth_args_ok args 2 Ha) as A2.
  assert (Hd : forall i, vok (VFrozenDict i) ->
    post (good st vok)
      (if str_eqb n (s "get") then
         match nth 1 args VNone with
         | VStr k => Ok (match env_get k (dict_enum Asp (dict_of st i)) with Some v => v | None => nth 2 args VNone end, st)
         | _ => Err EType
         end
       else if str_eqb n (s "keys") then Ok (new_list (map (fun kv => VStr (fst kv)) (dict_enum Asp (dict_of st i))) st)
       else if str_eqb n (s "values") then Ok (new_list (map (@snd _ _) (dict_enum Asp (dict_of st i))) st)
       else if str_eqb n (s "items") then
         rbind (mapM (fun kv st0 => Ok (new_list [VStr (fst kv); snd kv] st0)) (dict_enum Asp (dict_of st i)) st)
               (fun '(pairs, st1) => Ok (new_list pairs st1))
       else Err EUnsupported)).
  { intros i Hi. assert (Hk : env_ok (dict_enum Asp (dict_of st i))).
    { cbn [dict_enum]. apply sort_kvs_ok. apply (dict_ok ca cd pf ls cs defs); auto. }
    destruct (str_eqb n (s "get")).
    { destruct (nth 1 args VNone); try exact I. apply good_pure; auto.
      match goal with |- C17_Inv.vok _ _ _ (match ?g with _ => _ end) => destruct g eqn:Eg end; [eapply env_get_ok; eauto|auto]. }
    destruct (str_eqb n (s "keys")).
    { apply (new_list_good ca cd pf ls cs defs); auto. apply Forall_forall. intros x Hin. apply in_map_iff in Hin.
      destruct Hin as (kv & <- & _). reflexivity. }
    destruct (str_eqb n (s "values")).
    { apply (new_list_good ca cd pf ls cs defs); auto. apply Forall_forall. intros x Hin. apply in_map_iff in Hin.
      destruct Hin as (kv & <- & Hin). unfold C17_Inv.env_ok in Hk. rewrite Forall_forall in Hk. apply Hk. exact Hin. }
    destruct (str_eqb n (s "items")); [|exact I].
    eapply good_bind.
    - apply (mapM_good vok); [exact HI|]. intros kv Hin st0 I0. apply (new_list_good ca cd pf ls cs defs); auto.
      constructor; [reflexivity|]. constructor; [|constructor].
      unfold C17_Inv.env_ok in Hk. rewrite Forall_forall in Hk. apply Hk. exact Hin.
    - intros pairs st1 I1 F1 Hp. cbv beta match. apply (new_list_good ca cd pf ls cs defs); auto. }
  destruct (nth 0 args VNone) as [ ? | self | ? | | ? | ? | | ? | ? | ? ? ? | ? | ? ]; try exact I.
  - destruct (str_eqb n (s "join")). { repeat first [leaf HI | post_step]. }
    destruct (str_eqb n (s "split")).
    { destruct (nth 1 args VNone) as [| sep | | | | | | | | | |]; try exact I. destruct sep; [exact I|].
      apply (new_list_good ca cd pf ls cs defs); auto. apply Forall_map_VStr. }
    repeat first [leaf HI | post_step].
  - apply Hd. apply vok_dict_frozen. exact A0.
  - apply Hd. exact A0.
Qed.

(* scope.Constant expressions: the values of the constants they mention, and fresh lists *)
Lemma const_alloc_good : forall fuel e st, sok_e e = true -> Inv st -> post (good st vok) (const_alloc fuel e st).
Proof.
  induction fuel as [|f IH]; intros e st Hs HI; [exact I|].
  destruct e as [v ops iff]. cbn [const_alloc].
  destruct v; try exact I; destruct ops; try exact I; destruct iff; try exact I; try (apply good_pure; [exact HI|reflexivity]).
  - (* XList *)
    rewrite sok_e_Ex, sok_v_list in Hs. repeat (apply andb_prop in Hs; destruct Hs as [Hs ?]).
    eapply good_bind.
    + apply (mapM_good vok); [exact HI|]. intros x Hin st0 I0. apply IH; auto.
      rewrite forallb_forall in Hs. apply Hs. exact Hin.
    + intros vs st1 I1 F1 Hv. cbv beta match. apply (new_list_good ca cd pf ls cs defs); auto.
  - (* XConst *)
    rewrite sok_e_Ex, sok_v_const in Hs. repeat (apply andb_prop in Hs; destruct Hs as [Hs ?]).
    apply good_pure; auto. rewrite (i_cs _ _ _ _ _ _ _ HI). exact Hs.
Qed.

(* ---------------------------------------------------------------- small facts used by the evaluator proof *)
Lemma mapM_length : forall {A B} (g : A -> state -> res (B * state)) l st ys st',
  mapM g l st = Ok (ys, st') -> length ys = length l.
Proof.
  intros A B g. induction l as [|x r IH]; intros st ys st' H; cbn [mapM] in H.
  - apply Ok_inj in H. injection H as <- _. reflexivity.
  - inv_res H. apply Ok_inj in H. injection H as <- _. cbn. f_equal. eapply IH. eassumption.
Qed.

Lemma assoc_get_ok : forall (l : list (str * env)) k g, Forall (fun le => env_ok (snd le)) l -> assoc_get k l = Some g -> env_ok g.
Proof.
  induction l as [|[k0 g0] r IH]; intros k g Hl H; cbn in H; [discriminate|].
  inversion Hl; subst. destruct (str_eqb k k0); [injection H as <-; auto|eauto].
Qed.

Lemma add_func_good : forall st fd, Inv st -> fokb ca cd pf ls cs fd = true ->
  let st' := set_funcs (funcs st ++ [fd]) st in
  Inv st' /\ frame st st' /\ vok (VFunc (length (funcs st))).
Proof.
  intros st fd HI Hf. cbv zeta. split; [|split].
  - destruct HI. constructor; cbn [arrays dicts funcs fscopes cur locals consts subcache set_funcs]; auto.
    + intros i Hi. rewrite app_length. cbn. specialize (i_pf i Hi). lia.
    + intros i Hi Hlt. rewrite app_length in Hlt. cbn in Hlt.
      destruct (nth_app_cases (funcs st) fd i dflt_func) as [[Hl ->]|[[Hl ->]|[Hl _]]]; auto. lia.
  - constructor; cbn [arrays dicts funcs fscopes cur locals consts subcache set_funcs]; auto. exists [fd]. reflexivity.
  - unfold C17_Inv.vok, C17_Inv.vokb. destruct (pf (length (funcs st))) eqn:E; auto.
    pose proof (i_pf _ _ _ _ _ _ _ HI _ E). lia.
Qed.

Definition sres_ok (r : sres) : Prop := match r with RRet v => vok v | _ => True end.

(* the specifications of the six mutually recursive functions of the evaluator, for one amount of fuel *)
Definition E_spec (f : nat) : Prop :=
  forall e st, sok_e e = true -> Inv st -> post (good st vok) (eval_expr Asp defs f e st).
Definition V_spec (f : nat) : Prop :=
  forall x st, sok_v x = true -> Inv st -> post (good st vok) (eval_vexpr Asp defs f x st).
Definition C_spec (f : nat) : Prop :=
  forall fn name args st, vok fn -> sok_args ca cd pf cs args = true -> Inv st -> post (good st vok) (call_value Asp defs f fn name args st).
Definition R_spec (f : nat) : Prop :=
  forall id bound st, vok (VFunc id) -> env_ok bound -> Inv st -> post (good st vok) (run_func Asp defs f id bound st).
Definition B_spec (f : nat) : Prop :=
  forall ss st, sok_p ca cd pf cs ss = true -> Inv st -> post (good st sres_ok) (exec_block Asp defs f ss st).
Definition S_spec (f : nat) : Prop :=
  forall s0 st, sok_s ca cd pf cs s0 = true -> Inv st -> post (good st sres_ok) (exec_stmt Asp defs f s0 st).

Lemma V_plain : forall f x st, V_spec f -> sok_v x = true -> Inv st -> post (good st vok) (eval_vexpr Asp defs f x st).
Proof. intros f x st HV Hs HI. apply HV; auto. Qed.

Lemma E_plain : forall f e st, E_spec f -> sok_e e = true -> Inv st -> post (good st vok) (eval_expr Asp defs f e st).
Proof. intros f e st HE Hs HI. apply HE; auto. Qed.

Lemma V_operand : forall f ops, V_spec f -> forallb sok_i ops = true ->
  forall o x, List.In (OBin o x) ops -> operand_good (eval_vexpr Asp defs f) x.
Proof.
  intros f ops HV Hops o x Hin st HI. rewrite forallb_forall in Hops. specialize (Hops _ Hin). rewrite sok_i_bin in Hops.
  apply HV; auto.
Qed.

End Ops.
