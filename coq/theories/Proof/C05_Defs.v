(* C05 - deadlock freedom and the exit status: the invariants (definitions only; each bundle is proved inductive in its
   own file: C05_Pkg.v, C05_Count.v, C05_Resolve.v, C05_Needed.v; the theorems are in C05_Live.v and C05_Exit.v). *)
From PlzV Require Import Base.Harness Model.Sched Proof.Sched_Base Proof.Sched_Inv Proof.Sched_Deps Proof.C04 Proof.Sched_Measure Proof.C05.
From Coq Require Import Lia Arith.

(* the labels an invocation needs: the requested ones and, transitively, their dependencies *)
Definition needed (g : graph) (l : nat) : Prop := In l (g_req g) \/ exists r, In r (g_req g) /\ tdep g r l.

(* ---- bundle P: ranges, packages, existence ---- *)
Definition in_lists (s : state) (t : nat) : Prop :=
  In t (initq s) \/ In t (ptasks s) \/ In t (parsers s) \/ In t (semi s) \/ In t (sendq s) \/ In t (actq s) \/
  In t (taken s) \/ In t (building s) \/ In t (finishing s) \/ In t (completing s).

Record InvP (g : graph) (s : state) : Prop := {
  p_range : forall t, in_lists s t -> t < g_n g;
  p_arange : forall t, asy s t <> ANone -> t < g_n g;
  p_todoq : forall t todo, asy s t = AQueue todo -> incl todo (g_deps g t);
  p_todor : forall t todo e, asy s t = AResolve todo e -> incl todo (g_deps g t);
  (* a parsed package is a good one and all the targets its BUILD file declares exist *)
  p_parsed : forall p, pk s p = PParsed ->
     g_pkg_ok g p = true /\ forall t, t < g_n g -> g_decl g t = true -> g_pkg g t = p -> ex s t = true;
  (* a failed parse has logged a ParseFailed result: the output monitor will call Stop *)
  p_failed : forall p, pk s p = PFailed -> stopreq s = true /\ failed s = true;
  (* a package being parsed has its parser *)
  p_parsing : forall p, pk s p = PParsing -> exists l, In l (parsers s) /\ g_pkg g l = p;
  p_parser : forall l, In l (parsers s) -> pk s (g_pkg g l) <> PNone;
  p_ex_pk : forall t, ex s t = true -> pk s (g_pkg g t) <> PNone;
  p_ex_decl : forall t, ex s t = true -> g_decl g t = true;
  p_asy_ex : forall t, asy s t <> ANone -> ex s t = true;
  p_stop_failed : stopreq s = true -> failed s = true;
  p_initdone : initdone s = true -> initq s = []
}.

(* ---- bundle C: numPending counts the live goroutines; what follows from the channel being closed or not ---- *)
Definition a_cnt (a : astate) : nat := match a with ANone | ADone => 0 | _ => 1 end.
Definition count (g : graph) (s : state) : nat :=
  b2n (negb (initdone s)) + length (ptasks s) + length (parsers s) + length (semi s) +
  sumn (g_n g) (fun t => a_cnt (asy s t)) +
  length (sendq s) + length (actq s) + length (taken s) + length (building s) + length (finishing s) + length (completing s).
Definition idle (g : graph) (s : state) : Prop :=
  initdone s = true /\ ptasks s = [] /\ parsers s = [] /\ (forall t, t < g_n g -> a_cnt (asy s t) = 0) /\
  sendq s = [] /\ actq s = [] /\ taken s = [] /\ building s = [] /\ finishing s = [] /\ completing s = [].

Record InvC (g : graph) (s : state) : Prop := {
  (* until Stop: numPending = number of live tasks (and it is positive) *)
  c_count : closed s = false -> numPending s = Z.of_nat (count g s) /\ (1 <= numPending s)%Z;
  (* a queueTargetAsync that has returned (or is returning) handed out the build task, unless an error stopped the build *)
  c_done : forall t, asy s t = AFinishing \/ asy s t = ADone -> (3 <= rank (ts s t))%N \/ closed s = true;
  (* a Pending target's task is on its way to a worker, unless it was dropped at a channel closed after a failure *)
  c_pending : forall t, ts s t = Pending -> q s t = 1 \/ (closed s = true /\ failed s = true);
  c_cyc : cycreported s = true -> closed s = true;
  (* Stop without any failure happens only when numPending reached 0: nothing is left to do *)
  c_idle : closed s = true -> failed s = false -> idle g s
}.

(* ---- bundle R: queueTargetAsync's phases ---- *)
(* the dependency exists, or its package is (being) parsed, or a parse task for it is queued *)
Definition X (g : graph) (s : state) (d : nat) : Prop :=
  ex s d = true \/ pk s (g_pkg g d) <> PNone \/ In d (ptasks s).

Record InvR (g : graph) (s : state) : Prop := {
  r_queue : forall t todo, asy s t = AQueue todo -> forall d, In d (g_deps g t) -> In d todo \/ X g s d;
  r_resolve : forall t todo err, asy s t = AResolve todo err ->
     (forall d, In d (g_deps g t) -> X g s d) /\
     (err = true \/ forall d, In d (g_deps g t) -> In d todo \/ (2 <= rank (ts s d))%N) /\
     (err = true -> exists d, In d (g_deps g t) /\ g_decl g d = false);
  r_wait : forall t todo, asy s t = AWait todo -> forall d, In d (g_deps g t) -> (2 <= rank (ts s d))%N
}.

(* ---- bundle N: only needed labels are touched; a failure has a cause among them ---- *)
Definition culprit (g : graph) (s : state) : Prop :=
  exists l, needed g l /\
    (g_decl g l = false \/ g_pkg_ok g (g_pkg g l) = false \/ (12 <= rank (ts s l))%N \/ tdep g l l).

Record InvN (g : graph) (s : state) : Prop := {
  n_lists : forall l, In l (initq s) \/ In l (ptasks s) \/ In l (parsers s) -> needed g l;
  n_asy : forall t, asy s t <> ANone -> needed g t;
  n_failed : failed s = true -> culprit g s;
  n_acyclic : forall t, past_pending (ts s t) = true -> ~ tdep g t t;
  n_req : forall l, In l (g_req g) ->
     In l (initq s) \/ In l (ptasks s) \/ In l (parsers s) \/ asy s l <> ANone \/ failed s = true
}.
