(* C05 - bundle P (C05_Defs.v): ranges, packages, existence - proved for every reachable state.
   Also: how single components of the state change in one step ("views"), reused by the other bundles. *)
From PlzV Require Import Base.Harness Model.Sched Proof.Sched_Base Proof.Sched_Inv Proof.Sched_Deps Proof.C04 Proof.Sched_Measure Proof.C05 Proof.C05_Defs.
From Coq Require Import Lia Arith.

(* the cycle check stops unconditionally; asyncError does too in the source as it is (Gen/StateOrder.v) *)
Lemma err_stop_true : forall g s l, err_stop true g s l = async_error g s l.
Proof. reflexivity. Qed.
#[export] Hint Rewrite err_stop_true : proj.

(* ---- views: one component after one step, as a function of the label ---- *)
Lemma view_pk : forall g s l, pk (apply g s l) =
  match l with
  | LParseClaim l0 => upd (pk s) (g_pkg g l0) PParsing
  | LParseOk l0 => upd (pk s) (g_pkg g l0) PParsed
  | LParseFail l0 => upd (pk s) (g_pkg g l0) PFailed
  | _ => pk s
  end.
Proof. intros g s l. destruct l; cbn [apply]; grind_apply. Qed.

Lemma view_ex : forall g s l, ex (apply g s l) = match l with LAddTarget _ t => upd (ex s) t true | _ => ex s end.
Proof. intros g s l. destruct l; cbn [apply]; grind_apply. Qed.

Lemma view_parsers : forall g s l, parsers (apply g s l) =
  match l with
  | LParseClaim l0 => l0 :: parsers s
  | LParseOk l0 | LParseFail l0 => remove1 l0 (parsers s)
  | _ => parsers s
  end.
Proof. intros g s l. destruct l; cbn [apply]; grind_apply. Qed.

Lemma stopreq_mono : forall g s l, stopreq s = true -> stopreq (apply g s l) = true.
Proof.
  intros g s l H. destruct l; cbn [apply]; unfold async_error, err_stop, log_fail; grind_apply; auto.
Qed.

Lemma closed_mono : forall g s l, closed s = true -> closed (apply g s l) = true.
Proof.
  intros g s l H. destruct l; cbn [apply]; unfold async_error, err_stop, log_fail, task_done; grind_apply; auto; congruence.
Qed.

Lemma ex_mono : forall g s l x, ex s x = true -> ex (apply g s l) x = true.
Proof.
  intros g s l x H. rewrite view_ex. destruct l; auto. unfold upd. destruct (Nat.eqb x t); auto.
Qed.

Lemma pk_not_none_stable : forall g s l p, pk s p <> PNone -> pk (apply g s l) p <> PNone.
Proof.
  intros g s l p H. rewrite view_pk. destruct l; auto; unfold upd; destruct (Nat.eqb p _); auto; discriminate.
Qed.

(* the slot / state functions after queueResolvedTarget(d) *)
Definition qra (g : graph) (s : state) (d : nat) : nat -> astate :=
  fun x => if qr_ok s d && Nat.eqb x d then AQueue (g_deps g d) else asy s x.
Definition qrt (s : state) (d : nat) : nat -> tstate :=
  fun x => if qr_ok s d && Nat.eqb x d then Active else ts s x.

Ltac view_tac :=
  repeat (first [ reflexivity | congruence | progress autorewrite with proj | progress cbn
                | rewrite asy_qr | rewrite ts_qr
                | match goal with |- context [match ?x with _ => _ end] => destruct x eqn:? end
                | match goal with |- context [if ?x then _ else _] => destruct x eqn:? end ]).

Lemma view_asy : forall g s l x, asy (apply g s l) x =
  match l with
  | LParseActivate l0 | LParseOk l0 => if ex s l0 then qra g s l0 x else asy s x
  | LAddTarget l0 t => if Nat.eqb t l0 then qra g s t x else asy s x
  | LAsyncQueueDep t =>
      match asy s t with
      | AQueue (d :: r) =>
          if ex s d then upd (qra g s d) t (AQueue r) x
          else if pst_eqb (pk s (g_pkg g d)) PParsed then upd (asy s) t AFinishing x
          else upd (asy s) t (AQueue r) x
      | _ => asy s x
      end
  | LAsyncBeginResolve t => upd (asy s) t (AResolve (g_deps g t) false) x
  | LAsyncResolveDep t d =>
      match asy s t with
      | AResolve todo err =>
          if ex s d then upd (qra g s d) t (AResolve (remove1 d todo) err) x
          else upd (asy s) t (AResolve (remove1 d todo) true) x
      | _ => asy s x
      end
  | LAsyncBeginWait t =>
      match asy s t with
      | AResolve _ true => upd (asy s) t AFinishing x
      | AResolve _ false => upd (asy s) t (AWait (g_deps g t)) x
      | _ => asy s x
      end
  | LWaitDep t _ => match asy s t with AWait (_ :: r) => upd (asy s) t (AWait r) x | _ => asy s x end
  | LDepFailed t _ | LActivatePending t => upd (asy s) t AFinishing x
  | LAsyncDone t => upd (asy s) t ADone x
  | _ => asy s x
  end.
Proof. intros g s l x. destruct l; cbn [apply]; unfold qra, upd, qr_ok; solve [view_tac]. Qed.

Lemma view_ts : forall g s l x, ts (apply g s l) x =
  match l with
  | LParseActivate l0 | LParseOk l0 => if ex s l0 then qrt s l0 x else ts s x
  | LAddTarget l0 t => if Nat.eqb t l0 then qrt s t x else ts s x
  | LMarkSemi t => match cas cas_noneed (ts s t) with Some new => upd (ts s) t new x | None => ts s x end
  | LAsyncQueueDep t => match asy s t with AQueue (d :: _) => if ex s d then qrt s d x else ts s x | _ => ts s x end
  | LAsyncResolveDep t d => match asy s t with AResolve _ _ => if ex s d then qrt s d x else ts s x | _ => ts s x end
  | LDepFailed t _ => upd (ts s) t dep_failed_set x
  | LActivatePending t => match cas [cas_pending] (ts s t) with Some new => upd (ts s) t new x | None => ts s x end
  | LBuildStart t => upd (ts s) t build_start_set x
  | LBuildOk t o => upd (ts s) t o x
  | LBuildFail t => upd (ts s) t build_fail_set x
  | _ => ts s x
  end.
Proof. intros g s l x. destruct l; cbn [apply]; unfold qrt, upd, qr_ok; solve [view_tac]. Qed.

Lemma view_initq : forall g s l, initq (apply g s l) = match l with LInitRequest => tl (initq s) | _ => initq s end.
Proof. intros g s l. destruct l; cbn [apply]; solve [view_tac]. Qed.

Lemma view_ptasks : forall g s l, ptasks (apply g s l) =
  match l with
  | LInitRequest => match initq s with [] => ptasks s | l0 :: _ => l0 :: ptasks s end
  | LParseActivate l0 | LParseClaim l0 => remove1 l0 (ptasks s)
  | LAsyncQueueDep t =>
      match asy s t with
      | AQueue (d :: _) => if ex s d || pst_eqb (pk s (g_pkg g d)) PParsed then ptasks s else d :: ptasks s
      | _ => ptasks s
      end
  | _ => ptasks s
  end.
Proof. intros g s l. destruct l; cbn [apply]; solve [view_tac]. Qed.

Lemma view_semi : forall g s l, semi (apply g s l) =
  match l with
  | LMarkSemi t => match cas cas_noneed (ts s t) with Some _ => t :: semi s | None => semi s end
  | LSemiDone t => remove1 t (semi s)
  | _ => semi s
  end.
Proof. intros g s l. destruct l; cbn [apply]; solve [view_tac]. Qed.

Lemma view_sendq : forall g s l, sendq (apply g s l) =
  match l with
  | LActivatePending t => match cas [cas_pending] (ts s t) with Some _ => t :: sendq s | None => sendq s end
  | LSendTask t => remove1 t (sendq s)
  | _ => sendq s
  end.
Proof. intros g s l. destruct l; cbn [apply]; solve [view_tac]. Qed.

Lemma view_actq : forall g s l, actq (apply g s l) =
  match l with
  | LSendTask t => if closed s then actq s else t :: actq s
  | LWorkerTake t => remove1 t (actq s)
  | _ => actq s
  end.
Proof. intros g s l. destruct l; cbn [apply]; solve [view_tac]. Qed.

Lemma view_taken : forall g s l, taken (apply g s l) =
  match l with LWorkerTake t => t :: taken s | LBuildStart t => remove1 t (taken s) | _ => taken s end.
Proof. intros g s l. destruct l; cbn [apply]; solve [view_tac]. Qed.

Lemma view_building : forall g s l, building (apply g s l) =
  match l with LBuildStart t => t :: building s | LBuildOk t _ | LBuildFail t => remove1 t (building s) | _ => building s end.
Proof. intros g s l. destruct l; cbn [apply]; solve [view_tac]. Qed.

Lemma view_finishing : forall g s l, finishing (apply g s l) =
  match l with LBuildOk t _ | LBuildFail t => t :: finishing s | LFinishBuild t => remove1 t (finishing s) | _ => finishing s end.
Proof. intros g s l. destruct l; cbn [apply]; solve [view_tac]. Qed.

Lemma view_completing : forall g s l, completing (apply g s l) =
  match l with LFinishBuild t => t :: completing s | LTaskDone t => remove1 t (completing s) | _ => completing s end.
Proof. intros g s l. destruct l; cbn [apply]; solve [view_tac]. Qed.

Lemma view_fin : forall g s l x, fin (apply g s l) x =
  match l with LDepFailed t _ | LFinishBuild t => upd (fin s) t true x | _ => fin s x end.
Proof. intros g s l x. destruct l; cbn [apply]; solve [view_tac]. Qed.

Lemma view_initdone : forall g s l, initdone (apply g s l) = match l with LInitDone => true | _ => initdone s end.
Proof. intros g s l. destruct l; cbn [apply]; solve [view_tac]. Qed.

Lemma view_cycreported : forall g s l, cycreported (apply g s l) = match l with LTimerCycleCheck _ => true | _ => cycreported s end.
Proof. intros g s l. destruct l; cbn [apply]; solve [view_tac]. Qed.

Lemma view_exited : forall g s l, exited (apply g s l) = match l with LExitRun => true | _ => exited s end.
Proof. intros g s l. destruct l; cbn [apply]; solve [view_tac]. Qed.
