(* C16 - the enlarged pure fragment (Model/C16_Pure2.v): both dialects of the evaluator compute what the second reference
   evaluator computes - user functions, comprehensions, range, builtins, dicts, string methods, and (third deepening) enumerate /
   zip / items, % formatting, slices, unpacking assignment, dict |, sorted(reverse=).  The simulation is proved
   for all six mutually recursive components of the evaluator at once, by strong induction on the fuel. *)
From Coq Require Import Lia Wf_nat.
From PlzV Require Import Base.Harness Base.StrFacts Gen.AspTables Model.C16_Syntax Model.C16_Ops Model.C16_Prim Model.C16_Eval Model.C16 Model.C16_Pure Model.C16_Sort Model.C16_Pure2.
From PlzV Require Import Proof.C16_Ops Proof.C16_Int Proof.C16_Pure Proof.C16_Pure2U Proof.C16_Pure2R Proof.C16_Pure2P Proof.C16_Pure2N.
Local Open Scope Z_scope.

Lemma native_sig_range :
  native_sig (s "range") = Some ([(s "start", T_int, None); (s "stop", T_int, Some VNone); (s "step", T_int, Some (VInt 1))], false).
Proof. reflexivity. Qed.

Lemma native_range3 : forall d f a b c st,
  native d f (s "range") [VInt a; VInt b; VInt c] st =
  match d with Asp => Ok (VRange a b c, st) | Py => rbind (range_items d a b c) (fun items => Ok (new_list items st)) end.
Proof. intros. destruct d; reflexivity. Qed.
Lemma native_range2 : forall d f a c st,
  native d f (s "range") [VInt a; VNone; VInt c] st =
  match d with Asp => Ok (VRange 0 a c, st) | Py => rbind (range_items d 0 a c) (fun items => Ok (new_list items st)) end.
Proof. intros. destruct d; reflexivity. Qed.

Section Sim2.
  Variable d : dialect.
  Variable chk : binop -> Z -> Z -> ires.
  Variable cneg : Z -> option Z.
  Hypothesis chk_ok : forall o a b, match chk o a b with IOk _ | IBool _ => int_op d o a b = chk o a b | _ => True end.
  Hypothesis cneg_ok : forall z z', cneg z = Some z' -> (match d with Asp => wrap64 (- z) | Py => - z end) = z'.
  Notation vr st := (vrel d (hp st)).
  Notation sim st r p := (sim1 d st r p).
  Notation QE := (qeval_expr chk cneg).
  Notation QV := (qeval_vexpr chk cneg).
  Notation QR := (qrun_func chk cneg).
  Notation QB := (qexec_block chk cneg).
  Notation QSt := (qexec_stmt chk cneg).
  Notation EE := (eval_expr d []).
  Notation EV := (eval_vexpr d []).
  Notation XB := (exec_block d []).
  Notation XS := (exec_stmt d []).

  Definition rrel (h : heap) (r : qsres) (r' : sres) : Prop :=
    match r, r' with
    | QRNone, RNone => True
    | QRRet p, RRet v => vrel d h p v
    | QRBreak, RBreak => True
    | QRContinue, RContinue => True
    | _, _ => False
    end.

  Definition Esim (f : nat) : Prop := forall e st ps p, srel d st ps -> QE f e ps = Ok p -> sim st (EE f e st) p.
  Definition Vsim (f : nat) : Prop := forall x st ps p, srel d st ps -> QV f x ps = Ok p -> sim st (EV f x st) p.
  Definition Csim (f : nat) : Prop := forall id name args st ps p, srel d st ps ->
    qcall_user QE QR f id args ps = Ok p -> sim st (call_value d [] f (VFunc id) name args st) p.
  Definition CBsim (f : nat) : Prop := forall n name args st ps p, srel d st ps ->
    qcall_builtin QE f n args ps = Ok p -> sim st (call_value d [] f (VBuiltin n) name args st) p.
  Definition Rsim (f : nat) : Prop := forall id bound pbound st ps p, srel d st ps -> env_rel d (hp st) bound pbound ->
    QR f id pbound ps = Ok p -> sim st (run_func d [] f id bound st) p.
  Definition Bsim (f : nat) : Prop := forall ss st ps r ps', srel d st ps -> QB f ss ps = Ok (r, ps') ->
    exists r' st', XB f ss st = Ok (r', st') /\ rrel (hp st') r r' /\ srel d st' ps' /\ grows st st'.
  Definition Ssim (f : nat) : Prop := forall s0 st ps r ps', srel d st ps -> QSt f s0 ps = Ok (r, ps') ->
    exists r' st', XS f s0 st = Ok (r', st') /\ rrel (hp st') r r' /\ srel d st' ps' /\ grows st st'.

  Record All (f : nat) : Prop := {
    a_E : Esim f; a_V : Vsim f; a_C : Csim f; a_CB : CBsim f; a_R : Rsim f; a_B : Bsim f; a_S : Ssim f }.

  Ltac four := split; [|split; [|split]].

  (* ================================================================ expressions *)
  Definition qmain (f : nat) (v : vexpr) (ops : list opitem) (ps : qstate) : res qval :=
    do obj <- QV f v ps;
    match ops with
    | [] => Ok obj
    | _ => if ops_safe (items_of ops)
           then qteval chk cneg (fun x => QV f x ps) f (asp_tree (TVal obj) (items_of ops))
           else Err EUnsupported
    end.

  Lemma qeval_expr_S : forall f v ops iff ps,
    QE (S f) (Ex v ops iff) ps =
    match iff with
    | Some (c, e2) => do cv <- QE f c ps; if qtruthy cv then qmain f v ops ps else QE f e2 ps
    | None => qmain f v ops ps
    end.
  Proof. reflexivity. Qed.

  Lemma main_sim : forall f v ops st ps p, Vsim f -> srel d st ps -> qmain f v ops ps = Ok p -> sim st (main_of d [] f v ops st) p.
  Proof.
    intros f v ops st ps p HV Hs H. unfold qmain in H. unfold main_of.
    destruct (QV f v ps) as [pobj| |] eqn:Ev; try discriminate. cbn [rbind] in H.
    destruct (HV v st ps pobj Hs Ev) as (obj & st1 & Hev & Hx1 & Hobj). rewrite Hev. cbn [rbind].
    destruct ops as [|i ops'].
    - injection H as <-. exists obj, st1. now split.
    - destruct (ops_safe (items_of (i :: ops'))) eqn:Es; [|discriminate].
      rewrite (chain_as_tree d chk cneg chk_ok cneg_ok _ _ _ _ _ Es).
      assert (Hs1 : srel d st1 ps) by now apply (srel_xle d st).
      assert (Hr : tree_rel2 d (hp st1) (asp_tree (TVal obj) (items_of (i :: ops'))) (asp_tree (TVal pobj) (items_of (i :: ops')))).
      { apply asp_tree_rel2. exact Hobj. }
      apply (sim_xle d st st1); [exact Hx1|].
      exact (teval_sim d chk cneg chk_ok cneg_ok f ps (fun x st0 p0 Hs0 => HV x st0 ps p0 Hs0) _ _ st1 p Hs1 Hr H).
  Qed.

  Lemma Esim_S : forall f, Esim f -> Vsim f -> Esim (S f).
  Proof.
    intros f HE HV [v ops iff] st ps p Hs H. rewrite qeval_expr_S in H. destruct iff as [[c e2]|].
    - rewrite eval_expr_S_some.
      destruct (QE f c ps) as [pc| |] eqn:Ec; try discriminate. cbn [rbind] in H.
      destruct (HE c st ps pc Hs Ec) as (vc & st1 & Hev & Hx1 & Hvc). rewrite Hev. cbn [rbind].
      rewrite (truthy_rel d _ pc vc Hvc).
      assert (Hs1 : srel d st1 ps) by now apply (srel_xle d st).
      apply (sim_xle d st st1); [exact Hx1|].
      destruct (qtruthy pc); [now apply (main_sim f v ops st1 ps p)|now apply (HE e2 st1 ps p)].
    - rewrite eval_expr_S_none. now apply (main_sim f v ops st ps p).
  Qed.

  Lemma mapM_sim : forall f, Esim f -> forall es st ps pvs, srel d st ps ->
    qmapR (fun e => QE f e ps) es = Ok pvs ->
    exists vs st1, mapM (EE f) es st = Ok (vs, st1) /\ xle st st1 /\ vrels d (hp st1) pvs vs.
  Proof.
    intros f HE es. induction es as [|e es IH]; intros st ps pvs Hs H; cbn [qmapR mapM] in *.
    - injection H as <-. exists [], st. split; [reflexivity|]. split; [apply xle_refl|constructor].
    - destruct (QE f e ps) as [p| |] eqn:Ee; try discriminate. cbn [rbind] in H.
      destruct (qmapR (fun e0 => QE f e0 ps) es) as [ps'| |] eqn:Er; try discriminate. cbn [rbind] in H. injection H as <-.
      destruct (HE e st ps p Hs Ee) as (v & st1 & Hev & Hx1 & Hv). rewrite Hev. cbn [rbind].
      assert (Hs1 : srel d st1 ps) by now apply (srel_xle d st).
      destruct (IH st1 ps ps' Hs1 Er) as (vs & st2 & Hev2 & Hx2 & Hvs). rewrite Hev2. cbn [rbind].
      exists (v :: vs), st2. split; [reflexivity|]. split; [now apply (xle_trans st st1)|].
      constructor; [now apply (vr_xle d st1)|exact Hvs].
  Qed.

  (* ---- calling a user function ---- *)
  Definition formals_rel (formals : list (str * fdefault)) (pformals : list (str * qdefault)) : Prop :=
    Forall2 (fun a pa => fst a = fst pa /\ def_rel (snd a) (snd pa)) formals pformals.

  Lemma formals_nth_fst : forall formals pformals i, formals_rel formals pformals ->
    fst (nth i formals ([], DNo)) = fst (nth i pformals ([], QDNo)).
  Proof.
    intros formals pformals i H. revert i. induction H as [|a pa l pl0 [H1 _] _ IH]; intros [|i]; cbn [nth]; try reflexivity; [exact H1|apply IH].
  Qed.
  Lemma formals_exists : forall formals pformals k, formals_rel formals pformals ->
    existsb (fun a => str_eqb (fst a) k) formals = existsb (fun a => str_eqb (fst a) k) pformals.
  Proof.
    intros formals pformals k H. induction H as [|a pa l pl0 [H1 _] _ IH]; [reflexivity|]. cbn [existsb]. now rewrite H1, IH.
  Qed.

  Lemma bind_sim : forall f formals pformals ps, Esim f -> formals_rel formals pformals ->
    forall args i kw acc pacc st pbound, srel d st ps -> env_rel d (hp st) acc pacc ->
    qbind_args (fun e => QE f e ps) pformals args i kw pacc = Ok pbound ->
    exists bound st1, bind_loop d [] f formals args i acc st = Ok (bound, st1) /\ xle st st1 /\ env_rel d (hp st1) bound pbound.
  Proof.
    intros f formals pformals ps HE Hf args. induction args as [|[[k|] e] args IH]; intros i kw acc pacc st pbound Hs Ha H;
      cbn [qbind_args bind_loop] in *.
    - injection H as <-. exists acc, st. split; [reflexivity|]. split; [apply xle_refl|exact Ha].
    - rewrite (formals_exists formals pformals k Hf).
      destruct (existsb (fun a => str_eqb (fst a) k) pformals); [|discriminate].
      destruct (qenv_get k pacc); [discriminate|].
      destruct (QE f e ps) as [p| |] eqn:Ee; try discriminate. cbn [rbind] in H.
      destruct (HE e st ps p Hs Ee) as (v & st1 & Hev & Hx1 & Hv). rewrite Hev. cbn [rbind].
      assert (Ha1 : env_rel d (hp st1) (env_set k v acc) (qenv_set k p pacc)).
      { apply env_set_rel; [|exact Hv]. apply (env_rel_mono d (hp st)); [apply Hx1|exact Ha]. }
      destruct (IH (S i) true _ _ st1 pbound (srel_xle d st st1 ps Hs Hx1) Ha1 H) as (bound & st2 & E2 & Hx2 & Hb).
      exists bound, st2. split; [exact E2|]. split; [now apply (xle_trans st st1)|exact Hb].
    - destruct kw; [discriminate|].
      rewrite (Forall2_length Hf). destruct (Nat.leb (length pformals) i); [discriminate|].
      rewrite (formals_nth_fst formals pformals i Hf).
      destruct (qenv_get (fst (nth i pformals ([], QDNo))) pacc); [discriminate|].
      destruct (QE f e ps) as [p| |] eqn:Ee; try discriminate. cbn [rbind] in H.
      destruct (HE e st ps p Hs Ee) as (v & st1 & Hev & Hx1 & Hv). rewrite Hev. cbn [rbind].
      assert (Ha1 : env_rel d (hp st1) (env_set (fst (nth i pformals ([], QDNo))) v acc) (qenv_set (fst (nth i pformals ([], QDNo))) p pacc)).
      { apply env_set_rel; [|exact Hv]. apply (env_rel_mono d (hp st)); [apply Hx1|exact Ha]. }
      destruct (IH (S i) false _ _ st1 pbound (srel_xle d st st1 ps Hs Hx1) Ha1 H) as (bound & st2 & E2 & Hx2 & Hb).
      exists bound, st2. split; [exact E2|]. split; [now apply (xle_trans st st1)|exact Hb].
  Qed.

  Lemma nth_func_rel : forall fs pfs0 id, Forall2 func_rel fs pfs0 -> func_rel (nth id fs dfunc) (nth id pfs0 qfn_default).
  Proof.
    intros fs pfs0 id H. revert id. induction H as [|fd pfd fs pfs0 Hf _ IH]; intros [|id]; cbn [nth]; try assumption; try apply IH;
      (split; [reflexivity|split; [reflexivity|split; [reflexivity|constructor]]]).
  Qed.

  Lemma Csim_S : forall f, Esim f -> Rsim f -> Csim (S f).
  Proof.
    intros f HE HR id name args st ps p Hs H. cbn [qcall_user] in H. rewrite call_value_S_func.
    destruct (qbind_args (fun e => QE f e ps) (qf_args (nth id (qfs ps) (QFn [] [] []))) args 0%nat false []) as [pbound| |] eqn:Eb;
      try discriminate. cbn [rbind] in H.
    pose proof (nth_func_rel _ _ id (sr_fn d st ps Hs)) as (_ & _ & _ & Hf).
    destruct (bind_sim f _ _ ps HE Hf args 0%nat false [] [] st pbound Hs (Forall2_nil _) Eb) as (bound & st1 & E1 & Hx1 & Hb).
    rewrite E1. cbn [rbind]. apply (sim_xle d st st1); [exact Hx1|].
    exact (HR id bound pbound st1 ps p (srel_xle d st st1 ps Hs Hx1) Hb H).
  Qed.

  Lemma fill_sim : forall h formals pformals, formals_rel formals pformals ->
    forall acc pacc pfull, env_rel d h acc pacc -> qfill_formals pformals pacc = Ok pfull ->
    exists full, (forall f st, fill_loop d [] f formals acc st = Ok (full, st)) /\ env_rel d h full pfull.
  Proof.
    intros h formals pformals Hf. induction Hf as [|[a df] [pa pdf] l pl0 [H1 H2] _ IH]; intros acc pacc pfull Ha H;
      cbn [qfill_formals fill_loop] in *.
    - injection H as <-. now exists acc.
    - cbn [fst snd] in H1, H2. subst pa. pose proof (env_get_rel d h a acc pacc Ha) as Hg.
      destruct (qenv_get a pacc) as [q|].
      + destruct Hg as (v & -> & _). exact (IH acc pacc pfull Ha H).
      + rewrite Hg. destruct df, pdf; cbn [def_rel] in H2; try contradiction; try discriminate.
        apply (IH (env_set a v acc) (qenv_set a p pacc) pfull); [|exact H]. apply env_set_rel; [exact Ha|apply H2].
  Qed.

  Lemma qrun_func_S : forall f id bound ps,
    QR (S f) id bound ps =
    do full <- qfill_formals (qf_args (nth id (qfs ps) qfn_default)) bound;
    do '(r, _) <- QB f (qf_body (nth id (qfs ps) qfn_default)) (QS (qg ps) [full] (qfs ps));
    match r with QRRet v => Ok v | _ => Ok QNone end.
  Proof. reflexivity. Qed.

  Lemma Rsim_S : forall f, Bsim f -> Rsim (S f).
  Proof.
    intros f HB id bound pbound st ps p Hs Hb H. rewrite qrun_func_S in H. rewrite run_func_S.
    pose proof (nth_func_rel _ _ id (sr_fn d st ps Hs)) as (_ & Hbody & Hscope & Hf).
    destruct (qfill_formals (qf_args (nth id (qfs ps) qfn_default)) pbound) as [pfull| |] eqn:Ef; try discriminate. cbn [rbind] in H.
    destruct (fill_sim (hp st) _ _ Hf bound pbound pfull Hb Ef) as (full & Efill & Hfull). rewrite Efill. cbn [rbind].
    rewrite Hscope, Hbody.
    destruct (QB f (qf_body (nth id (qfs ps) qfn_default)) (QS (qg ps) [pfull] (qfs ps))) as [[r ps4]| |] eqn:Eb; try discriminate.
    cbn [rbind] in H.
    set (st3 := set_locals [full] (set_cur 0%nat st)).
    assert (Hs3 : srel d st3 (QS (qg ps) [pfull] (qfs ps))).
    { destruct Hs as [H1 (g & H2 & H3) H4 H5]. constructor; cbn.
      - reflexivity.
      - exists g. now split.
      - constructor; [exact Hfull|constructor].
      - exact H5. }
    destruct (HB _ st3 _ r ps4 Hs3 Eb) as (r' & st4 & Ev & Hr & Hs4 & Hg). rewrite Ev. cbn [rbind].
    assert (Hx : xle st (set_locals (locals st) (set_cur (cur st) st4))).
    { destruct Hg as [G1 G2 G3 G4 G5 G6]. destruct (G6 ltac:(discriminate)) as [G7 G8]. constructor; cbn; try assumption; try reflexivity. }
    destruct r; destruct r'; cbn [rrel] in Hr; try contradiction; injection H as <-;
      (eexists; eexists; split; [reflexivity|split; [exact Hx|try exact Hr; try reflexivity]]).
  Qed.

  (* ---- calling a native builtin ---- *)
  Lemma CBsim_S : forall f, Esim f -> CBsim (S f).
  Proof.
    intros f HE n name args st ps p Hs H. cbn [qcall_builtin] in H.
    destruct (qnative_args (fun e => QE f e ps) n args) as [pvals| |] eqn:Ea; try discriminate. cbn [rbind] in H.
    destruct (call_value_S_builtin d [] f n name args st) as [hof E]. rewrite E.
    unfold qnative_args in Ea. destruct (native_sig n) as [[sg va]|] eqn:Esg; [|discriminate].
    destruct (nargs_sim d f ps (fun e => QE f e ps) (fun e st0 p0 Hs0 => HE e st0 ps p0 Hs0) n sg va Esg args st pvals Hs Ea) as (vals & st1 & E1 & Hx1 & Hv).
    rewrite (E1 (native d f n)). apply (sim_xle d st st1); [exact Hx1|]. now apply (native_sim d f n pvals vals st1 p).
  Qed.

  (* ---- iteration ---- *)
  Lemma qrange_up_rel : forall h n a c, vrels d h (qrange_up n a c) (range_up n a c).
  Proof. intros h n. induction n as [|n IH]; intros a c; cbn; constructor; [reflexivity|apply IH]. Qed.

  Lemma range_items_rel : forall h a b c pitems, qrange_items a b c = Ok pitems ->
    exists items, range_items d a b c = Ok items /\ vrels d h pitems items /\ (c >? 0) = true.
  Proof.
    intros h a b c pitems H. unfold qrange_items in H. unfold range_items. destruct (c >? 0) eqn:Ec; [|discriminate].
    destruct (a <? b).
    - destruct ((b - a + c - 1) / c >? range_bound); [discriminate|]. injection H as <-. eexists. split; [reflexivity|]. split; [apply qrange_up_rel|reflexivity].
    - injection H as <-. exists []. split; [reflexivity|]. split; [constructor|reflexivity].
  Qed.

  Lemma iter_sim : forall f, (forall m, (m <= f)%nat -> Esim m) -> forall it st ps pitems hint, srel d st ps ->
    qiter QE f it ps = Ok (pitems, hint) ->
    exists itv st1 items, EE f it st = Ok (itv, st1) /\ xle st st1 /\ iter_items d st1 itv = Ok items /\ vrels d (hp st1) pitems items
      /\ comp_hint itv items = match d with Asp => hint | Py => Z.of_nat (length items) end.
  Proof.
    intros f HEm it st ps pitems hint Hs H. unfold qiter in H.
    assert (Hlist : (do p <- QE f it ps; match p with QList l => Ok (l, Z.of_nat (length l)) | _ => Err EUnsupported end) = Ok (pitems, hint) ->
              exists itv st1 items, EE f it st = Ok (itv, st1) /\ xle st st1 /\ iter_items d st1 itv = Ok items /\ vrels d (hp st1) pitems items
                /\ comp_hint itv items = match d with Asp => hint | Py => Z.of_nat (length items) end).
    { intros H0. destruct (QE f it ps) as [p| |] eqn:Ei; try discriminate. cbn [rbind] in H0.
      destruct p; try discriminate. injection H0 as <- <-.
      destruct (HEm f (le_n _) it st ps _ Hs Ei) as (itv & st1 & Ev & Hx & Hv).
      destruct (vrel_list_inv d st1 l itv Hv) as (sl & -> & Hc & _).
      exists (VList sl), st1, (list_items d st1 sl). split; [exact Ev|]. split; [exact Hx|]. split; [reflexivity|]. split; [exact Hc|].
      cbn [comp_hint]. rewrite (vrels_length _ _ _ _ Hc). now destruct d. }
    destruct (is_range_call it) as [args|] eqn:Er; [|exact (Hlist H)].
    destruct (qlookup (s "range") ps) eqn:El; [exact (Hlist H)|]. clear Hlist.
    destruct f as [|[|[|f3]]]; try discriminate.
    destruct (qnative_args (fun e => QE f3 e ps) (s "range") args) as [pvals| |] eqn:Ea; try discriminate. cbn [rbind] in H.
    assert (Hit : it = Ex (XCall (s "range") args) [] None).
    { unfold is_range_call in Er. destruct it as [v ops iff]. destruct v; try discriminate. destruct ops; try discriminate.
      destruct iff; try discriminate. destruct (str_eqb n (s "range")) eqn:En; [|discriminate]. injection Er as <-.
      apply str_eqb_eq in En. now subst n. }
    subst it. rewrite eval_expr_S_none. unfold main_of. rewrite eval_vexpr_S_call.
    rewrite (lookup_builtin d st ps (s "range") Hs El eq_refl).
    destruct (call_value_S_builtin d [] f3 (s "range") (s "range") args st) as [hof E]. rewrite E, native_sig_range. clear E hof.
    unfold qnative_args in Ea. rewrite native_sig_range in Ea.
    assert (HE3 : Esim f3) by (apply HEm; lia).
    destruct (nargs_sim d f3 ps (fun e => QE f3 e ps) (fun e st0 p0 Hs0 => HE3 e st0 ps p0 Hs0) (s "range") _ _ native_sig_range args st pvals Hs Ea)
      as (vals & st1 & E1 & Hx1 & Hv).
    rewrite (E1 (native d f3 (s "range"))).
    assert (Hfin : forall a b c (K : res (value * state)), qrange_items a b c = Ok pitems -> hint = range_len a b c ->
              K = match d with Asp => Ok (VRange a b c, st1) | Py => rbind (range_items d a b c) (fun items => Ok (new_list items st1)) end ->
              exists itv st2 items, rbind K (fun '(obj, st0) => Ok (obj, st0)) = Ok (itv, st2) /\ xle st st2 /\ iter_items d st2 itv = Ok items
                /\ vrels d (hp st2) pitems items /\ comp_hint itv items = match d with Asp => hint | Py => Z.of_nat (length items) end).
    { intros a b c K Hr -> ->. destruct (range_items_rel (hp st1) a b c pitems Hr) as (items & Ei & Hv' & Hc).
      revert Ei. destruct d; intros Ei.
      - exists (VRange a b c), st1, items. cbn [rbind]. split; [reflexivity|]. split; [exact Hx1|]. split; [exact Ei|]. split; [exact Hv'|reflexivity].
      - rewrite Ei. cbn [rbind]. destruct (new_list_vrel Py st1 pitems items Hv') as (v & st2 & En & Hx2 & Hvl). rewrite En. cbn [rbind].
        destruct (vrel_list_inv Py st2 pitems v Hvl) as (sl & -> & Hc2 & _).
        exists (VList sl), st2, (list_items Py st2 sl). split; [reflexivity|]. split; [now apply (xle_trans st st1)|]. split; [reflexivity|].
        split; [exact Hc2|reflexivity]. }
    destruct pvals as [|[a| | | | | |] [|[b| | | | | |] [|[c| | | | | |] [|? ?]]]]; try discriminate.
    - (* range(a, b, c) *)
      destruct (qrange_items a b c) as [pit| |] eqn:Eq; try discriminate. cbn [rbind] in H. injection H as <- <-.
      inversion Hv as [|? v1 ? r1 V1 R1]; subst. inversion R1 as [|? v2 ? r2 V2 R2]; subst. inversion R2 as [|? v3 ? r3 V3 R3]; subst. inversion R3; subst.
      cbn [vrel] in V1, V2, V3. subst v1 v2 v3. apply (Hfin a b c _ Eq eq_refl). apply native_range3.
    - (* range(a) *)
      destruct (qrange_items 0 a c) as [pit| |] eqn:Eq; try discriminate. cbn [rbind] in H. injection H as <- <-.
      inversion Hv as [|? v1 ? r1 V1 R1]; subst. inversion R1 as [|? v2 ? r2 V2 R2]; subst. inversion R2 as [|? v3 ? r3 V3 R3]; subst. inversion R3; subst.
      cbn [vrel] in V1, V2, V3. subst v1 v2 v3. apply (Hfin 0 a c _ Eq eq_refl). apply native_range2.
  Qed.

  (* scope.unpackNames *)
  Lemma fold_set_rel : forall names pitems items st ps, srel d st ps -> vrels d (hp st) pitems items ->
    let st1 := fold_left (fun acc nv => set_var (fst nv) (snd nv) acc) (combine names items) st in
    srel d st1 (fold_left (fun acc nv => qset_var (fst nv) (snd nv) acc) (combine names pitems) ps) /\ grows st st1 /\ (locals st <> [] -> lle st st1).
  Proof.
    intros names. induction names as [|n names IH]; intros pitems items st ps Hs Hv; cbn [combine fold_left].
    - split; [exact Hs|]. split; [apply grows_refl|intros _; apply lle_refl].
    - destruct Hv as [|p v pitems items Hp Hv]; cbn [combine fold_left].
      + split; [exact Hs|]. split; [apply grows_refl|intros _; apply lle_refl].
      + cbn [fst snd].
        assert (Hs1 : srel d (set_var n v st) (qset_var n p ps)) by now apply set_var_rel.
        assert (Hv1 : vrels d (hp (set_var n v st)) pitems items) by now rewrite hp_set_var.
        destruct (IH pitems items _ _ Hs1 Hv1) as (A & B & C). split; [exact A|]. split.
        * apply (grows_trans st (set_var n v st)); [apply grows_set_var, grows_refl|exact B].
        * intros Hn. apply (lle_trans st (set_var n v st)); [now apply lle_set_var|]. apply C.
          pose proof (l_len _ _ (lle_set_var n v st Hn)) as L. destruct (locals (set_var n v st)); [destruct (locals st); [congruence|discriminate]|discriminate].
  Qed.

  Lemma unpack_sim : forall names pli li st ps ps1, srel d st ps -> vr st pli li -> qunpack names pli ps = Ok ps1 ->
    exists st1, unpack_names d names li st = Ok st1 /\ srel d st1 ps1 /\ grows st st1 /\ (locals st <> [] -> lle st st1).
  Proof.
    intros names pli li st ps ps1 Hs Hv H.
    assert (Hmany : forall (K : res state),
              match pli with
              | QList items => if Nat.eqb (length items) (length names)
                               then Ok (fold_left (fun acc nv => qset_var (fst nv) (snd nv) acc) (combine names items) ps) else Err EType
              | _ => Err EType
              end = Ok ps1 ->
              K = match li with
                  | VList sl | VFrozenList sl =>
                      match li, d with
                      | VFrozenList _, Asp => Err EType
                      | _, _ => let items := list_items d st sl in
                                if Nat.eqb (length items) (length names)
                                then Ok (fold_left (fun acc nv => set_var (fst nv) (snd nv) acc) (combine names items) st) else Err EType
                      end
                  | _ => Err EType
                  end ->
              exists st1, K = Ok st1 /\ srel d st1 ps1 /\ grows st st1 /\ (locals st <> [] -> lle st st1)).
    { intros K H0 ->. destruct pli; try discriminate. destruct (vrel_list_inv d st l li Hv) as (sl & -> & Hc & _).
      cbv beta iota zeta. rewrite (vrels_length _ _ _ _ Hc). destruct (Nat.eqb (length l) (length names)); [|discriminate]. injection H0 as <-.
      destruct (fold_set_rel names l _ st ps Hs Hc) as (A & B & C).
      exists (fold_left (fun acc nv => set_var (fst nv) (snd nv) acc) (combine names (list_items d st sl)) st).
      split; [reflexivity|]. now split. }
    destruct names as [|n [|n2 names]].
    - apply Hmany; [exact H|reflexivity].
    - cbn [qunpack] in H. injection H as <-. exists (set_var n li st). split; [reflexivity|]. split; [now apply set_var_rel|].
      split; [apply grows_set_var, grows_refl|intros Hn; now apply lle_set_var].
    - apply Hmany; [exact H|reflexivity].
  Qed.

  Lemma comp_sim : forall f names e cond, Esim f -> forall pitems items pacc acc st0 ps0 pout, srel d st0 ps0 -> locals st0 <> [] ->
    vrels d (hp st0) pitems items -> vrels d (hp st0) pacc acc ->
    qcomp_loop (QE f) names e cond pitems pacc ps0 = Ok pout ->
    exists out st3, comp_loop2 d [] f names e cond items acc st0 = Ok (out, st3) /\ lle st0 st3 /\ vrels d (hp st3) pout out
      /\ (length pout <= length pitems + length pacc)%nat.
  Proof.
    intros f names e cond HE pitems. induction pitems as [|pli pitems IH]; intros items pacc acc st0 ps0 pout Hs Hn Hi Ha H;
      inversion Hi as [|? li ? items' Hli Hi']; subst; cbn [qcomp_loop comp_loop2] in *.
    - injection H as <-. exists (rev acc), st0. split; [reflexivity|]. split; [apply lle_refl|]. split.
      + unfold vrels. apply Forall2_rev. exact Ha.
      + rewrite rev_length. lia.
    - destruct (qunpack names pli ps0) as [ps1| |] eqn:Eu; try discriminate. cbn [rbind] in H.
      destruct (unpack_sim names pli li st0 ps0 ps1 Hs Hli Eu) as (st1 & E1 & Hs1 & Hg1 & Hl1). rewrite E1. cbn [rbind].
      specialize (Hl1 Hn).
      assert (Hn1 : locals st1 <> []).
      { pose proof (l_len _ _ Hl1) as L. destruct (locals st1); [destruct (locals st0); [congruence|discriminate]|discriminate]. }
      assert (Hcond : exists keep st2, match cond with
                                        | None => Ok (true, st1)
                                        | Some c => rbind (EE f c st1) (fun '(cv, sx) => Ok (truthy d sx cv, sx))
                                        end = Ok (keep, st2) /\ xle st1 st2 /\
                                       match cond with None => Ok true | Some c => do cv <- QE f c ps1; Ok (qtruthy cv) end = Ok keep).
      { destruct cond as [c|].
        - destruct (QE f c ps1) as [pc| |] eqn:Ec; try discriminate. cbn [rbind] in H.
          destruct (HE c st1 ps1 pc Hs1 Ec) as (vc & st2 & Ev & Hx & Hvc). rewrite Ev. cbn [rbind].
          exists (truthy d st2 vc), st2. split; [reflexivity|]. split; [exact Hx|]. now rewrite (truthy_rel d st2 pc vc Hvc).
        - exists true, st1. split; [reflexivity|]. split; [apply xle_refl|reflexivity]. }
      destruct Hcond as (keep & st2 & E2 & Hx2 & Eq2). rewrite E2. cbn [rbind]. rewrite Eq2 in H. cbn [rbind] in H.
      assert (Hs2 : srel d st2 ps1) by now apply (srel_xle d st1).
      assert (Hl2 : lle st0 st2) by (apply (lle_trans st0 st1); [exact Hl1|now apply lle_xle]).
      assert (Hn2 : locals st2 <> []) by (rewrite (x_locals _ _ Hx2); exact Hn1).
      destruct keep.
      + destruct (QE f e ps1) as [pv| |] eqn:Ee; try discriminate. cbn [rbind] in H.
        destruct (HE e st2 ps1 pv Hs2 Ee) as (v & st3 & Ev & Hx3 & Hv). rewrite Ev. cbn [rbind].
        assert (Hl3 : lle st0 st3) by (apply (lle_trans st0 st2); [exact Hl2|now apply lle_xle]).
        destruct (IH items' (pv :: pacc) (v :: acc) st3 ps1 pout (srel_xle d st2 st3 ps1 Hs2 Hx3)) as (out & st4 & E4 & Hl4 & Ho & Hlen); try assumption.
        * rewrite (x_locals _ _ Hx3); exact Hn2.
        * apply (vrels_mono d (hp st0)); [apply Hl3|exact Hi'].
        * constructor; [exact Hv|]. apply (vrels_mono d (hp st0)); [apply Hl3|exact Ha].
        * exists out, st4. split; [exact E4|]. split; [now apply (lle_trans st0 st3)|]. split; [exact Ho|]. cbn [length] in *. lia.
      + destruct (IH items' pacc acc st2 ps1 pout Hs2) as (out & st4 & E4 & Hl4 & Ho & Hlen); try assumption.
        * apply (vrels_mono d (hp st0)); [apply Hl2|exact Hi'].
        * apply (vrels_mono d (hp st0)); [apply Hl2|exact Ha].
        * exists out, st4. split; [exact E4|]. split; [now apply (lle_trans st0 st2)|]. split; [exact Ho|]. cbn [length] in *. lia.
  Qed.

  (* ---- value expressions ---- *)
  Lemma qeval_vexpr_S : forall f x ps,
    QV (S f) x ps =
    match x with
    | XInt z => Ok (QInt z)
    | XStr x0 => Ok (QStr x0)
    | XTrue => Ok (QBool true)
    | XFalse => Ok (QBool false)
    | XNone => Ok QNone
    | XIdent n => match qlookup n ps with Some v => Ok v | None => Err EType end
    | XParen e => QE f e ps
    | XList es => do vs <- qmapR (fun e => QE f e ps) es; Ok (QList vs)
    | XDict kvs =>
        do pairs <- qmapR (fun kv => do k <- QE f (fst kv) ps;
                                     do v <- QE f (snd kv) ps;
                                     match k with QStr ks => Ok (ks, v) | _ => Err EType end) kvs;
        let m := fold_left (fun acc kv => qenv_set (fst kv) (snd kv) acc) pairs [] in
        if ssorted (map (@fst _ _) m) then Ok (QDict m) else Err EUnsupported
    | XComp e names it cond =>
        do '(items, hint) <- qiter QE f it ps;
        if hint <? 0 then Err EUnsupported else
        do out <- qcomp_loop (QE f) names e cond items [] (QS (qg ps) ([] :: ql ps) (qfs ps));
        if Nat.ltb (Z.to_nat hint) (length out) then Err EUnsupported else Ok (QList out)
    | XIndex b i => do obj <- QV f b ps; do idx <- QE f i ps; qindex obj idx
    | XCall n args =>
        match qlookup n ps with
        | Some (QFunc id) => qcall_user QE QR f id args ps
        | Some _ => Err EType
        | None => if existsb (str_eqb n) builtin_names then qcall_builtin QE f n args ps else Err EType
        end
    | XMeth b m args => do obj <- QV f b ps; qcall_method (fun e => QE f e ps) obj m args
    | XSlice b lo hi =>
        do obj <- QV f b ps;
        do lov <- match lo with None => Ok None | Some e => do v <- QE f e ps; Ok (Some v) end;
        do hiv <- match hi with None => Ok None | Some e => do v <- QE f e ps; Ok (Some v) end;
        qslice obj lov hiv
    | _ => Err EUnsupported
    end.
  Proof. intros f x ps. destruct x; reflexivity. Qed.

  Lemma opt_sim : forall f, Esim f -> forall o st ps po, srel d st ps ->
    match o with None => Ok None | Some e => do v <- QE f e ps; Ok (Some v) end = Ok po ->
    exists ov st1, opt_eval d [] f o st = Ok (ov, st1) /\ xle st st1 /\ ovrel d (hp st1) po ov.
  Proof.
    intros f HE o st ps po Hs H. destruct o as [e|]; cbn [opt_eval].
    - destruct (QE f e ps) as [p| |] eqn:Ee; try discriminate. cbn [rbind] in H. injection H as <-.
      destruct (HE e st ps p Hs Ee) as (v & st1 & Ev & Hx & Hv). rewrite Ev. cbn [rbind]. exists (Some v), st1. now split.
    - injection H as <-. exists None, st. split; [reflexivity|]. split; [apply xle_refl|exact I].
  Qed.

  Lemma ovrel_xle : forall st st' po o, xle st st' -> ovrel d (hp st) po o -> ovrel d (hp st') po o.
  Proof. intros st st' [p|] [v|] Hx H; cbn [ovrel] in *; try assumption. now apply (vr_xle d st st'). Qed.

  Lemma dict_pairs_sim : forall f, Esim f -> forall kvs st ps ppairs, srel d st ps ->
    qmapR (fun kv => do k <- QE f (fst kv) ps; do v <- QE f (snd kv) ps;
                     match k with QStr ks => Ok (ks, v) | _ => Err EType end) kvs = Ok ppairs ->
    exists pairs st1, dict_pairs d [] f kvs st = Ok (pairs, st1) /\ xle st st1 /\ env_rel d (hp st1) pairs ppairs.
  Proof.
    intros f HE kvs. induction kvs as [|[ke ve] kvs IH]; intros st ps ppairs Hs H; unfold dict_pairs in *; cbn [qmapR mapM fst snd] in *.
    - injection H as <-. exists [], st. split; [reflexivity|]. split; [apply xle_refl|constructor].
    - destruct (QE f ke ps) as [pk| |] eqn:Ek; try discriminate. cbn [rbind] in H.
      destruct (QE f ve ps) as [pv| |] eqn:Ev; try discriminate. cbn [rbind] in H.
      destruct pk; try discriminate. cbn [rbind] in H.
      destruct (qmapR _ kvs) as [prest| |] eqn:Er; try discriminate. cbn [rbind] in H. injection H as <-.
      destruct (HE ke st ps _ Hs Ek) as (k & st1 & E1 & Hx1 & Hk). rewrite E1. cbn [rbind]. cbn [vrel] in Hk. subst k.
      assert (Hs1 : srel d st1 ps) by now apply (srel_xle d st).
      destruct (HE ve st1 ps _ Hs1 Ev) as (v & st2 & E2 & Hx2 & Hv). rewrite E2. cbn [rbind].
      assert (Hs2 : srel d st2 ps) by now apply (srel_xle d st1).
      destruct (IH st2 ps prest Hs2 Er) as (rest & st3 & E3 & Hx3 & Hr). rewrite E3. cbn [rbind].
      exists ((x, v) :: rest), st3. split; [reflexivity|]. split; [apply (xle_trans st st1); [exact Hx1|now apply (xle_trans st1 st2)]|].
      constructor; [split; [reflexivity|now apply (vr_xle d st2)]|exact Hr].
  Qed.

  Lemma fold_env_set_rel : forall h pairs ppairs acc pacc, env_rel d h pairs ppairs -> env_rel d h acc pacc ->
    env_rel d h (fold_left (fun acc kv => env_set (fst kv) (snd kv) acc) pairs acc)
                (fold_left (fun acc kv => qenv_set (fst kv) (snd kv) acc) ppairs pacc).
  Proof.
    intros h pairs ppairs acc pacc H. revert acc pacc. induction H as [|kv pkv pairs ppairs [H1 H2] _ IH]; intros acc pacc Ha; cbn [fold_left].
    - exact Ha.
    - apply IH. rewrite H1. now apply env_set_rel.
  Qed.

  Lemma Vsim_S : forall f, (forall m, (m <= f)%nat -> Esim m) -> Vsim f -> Csim f -> CBsim f -> Vsim (S f).
  Proof.
    intros f HEm HV HC HCB x st ps p Hs H. pose proof (HEm f (le_n _)) as HE. rewrite qeval_vexpr_S in H. destruct x; try discriminate.
    - injection H as <-. eapply ok_here; [apply eval_vexpr_S_int|reflexivity].
    - injection H as <-. eapply ok_here; [apply eval_vexpr_S_str|reflexivity].
    - injection H as <-. eapply ok_here; [apply eval_vexpr_S_true|reflexivity].
    - injection H as <-. eapply ok_here; [apply eval_vexpr_S_false|reflexivity].
    - injection H as <-. eapply ok_here; [apply eval_vexpr_S_none|reflexivity].
    - (* list *)
      destruct (qmapR (fun e => QE f e ps) es) as [pvs| |] eqn:Em; try discriminate. cbn [rbind] in H. injection H as <-.
      destruct (mapM_sim f HE es st ps pvs Hs Em) as (vs & st1 & Hev & Hx1 & Hvs).
      rewrite eval_vexpr_S_list, Hev. cbn [rbind].
      destruct (new_list_vrel d st1 pvs vs Hvs) as (v & st2 & En & Hx2 & Hv). rewrite En.
      exists v, st2. split; [reflexivity|]. split; [now apply (xle_trans st st1)|exact Hv].
    - (* comprehension *)
      destruct (qiter QE f it ps) as [[pitems hint]| |] eqn:Ei; try discriminate. cbn [rbind] in H.
      destruct (hint <? 0) eqn:Eh; [discriminate|].
      destruct (qcomp_loop (QE f) names e cond pitems [] (QS (qg ps) ([] :: ql ps) (qfs ps))) as [pout| |] eqn:El; try discriminate.
      cbn [rbind] in H. destruct (Nat.ltb (Z.to_nat hint) (length pout)) eqn:Elt; [discriminate|]. injection H as <-.
      destruct (iter_sim f HEm it st ps pitems hint Hs Ei) as (itv & st1 & items & Ev & Hx1 & Eit & Hit & Hh).
      rewrite eval_vexpr_S_comp2, Ev. cbn [rbind]. rewrite Eit. cbn [rbind]. cbv zeta.
      assert (Hneg : (comp_hint itv items <? 0) = false).
      { rewrite Hh. destruct d; [exact Eh|]. apply Z.ltb_ge. lia. }
      rewrite Hneg.
      set (st2 := set_locals ([] :: locals st1) st1).
      assert (Hs2 : srel d st2 (QS (qg ps) ([] :: ql ps) (qfs ps))).
      { destruct (srel_xle d st st1 ps Hs Hx1) as [H1 (g & H2 & H3) H4 H5]. constructor; cbn.
        - exact H1.
        - exists g. now split.
        - constructor; [constructor|exact H4].
        - exact H5. }
      destruct (comp_sim f names e cond HE pitems items [] [] st2 _ pout Hs2 ltac:(discriminate) Hit (Forall2_nil _) El)
        as (out & st3 & E3 & Hl3 & Ho & Hlen).
      rewrite E3. cbn [rbind].
      assert (Hx4 : xle st1 (set_locals (tl (locals st3)) st3)).
      { destruct Hl3 as [L1 L2 L3 L4 L5 L6 L7 L8]. constructor; cbn; try assumption. }
      pose proof (vrels_length _ _ _ _ Ho) as Lo. pose proof (vrels_length _ _ _ _ Hit) as Li.
      assert (Hlt : Nat.ltb (Z.to_nat (comp_hint itv items)) (length out) = false).
      { rewrite Hh, Lo. destruct d; [exact Elt|]. apply Nat.ltb_ge. rewrite Nat2Z.id. cbn [length] in Hlen. lia. }
      rewrite Hlt.
      assert (Ho4 : vrels d (hp (set_locals (tl (locals st3)) st3)) pout out) by exact Ho.
      destruct (alloc_vrel d _ pout out (match d with Asp => Z.to_nat (comp_hint itv items) | Py => 0%nat end) Ho4) as (sl & st5 & E5 & Hx5 & Hv5).
      { intros ->. lia. }
      rewrite E5. exists (VList sl), st5. split; [reflexivity|]. split; [|exact Hv5].
      apply (xle_trans st st1); [exact Hx1|]. now apply (xle_trans st1 (set_locals (tl (locals st3)) st3)).
    - (* dict *)
      destruct (qmapR _ kvs) as [ppairs| |] eqn:Em; try discriminate. cbn [rbind] in H. cbv zeta in H.
      destruct (ssorted _) eqn:Ess; [|discriminate]. injection H as <-.
      destruct (dict_pairs_sim f HE kvs st ps ppairs Hs Em) as (pairs & st1 & E1 & Hx1 & Hp).
      rewrite eval_vexpr_S_dict, E1. cbn [rbind]. unfold alloc_dict.
      eexists. eexists. split; [reflexivity|]. split; [apply (xle_trans st st1); [exact Hx1|apply xle_set_dicts]|].
      apply vrel_dict. eexists. eexists. split; [reflexivity|]. cbn [hp snd set_dicts dicts]. split; [|split; [exact Ess|]].
      + rewrite nth_error_app2 by lia. rewrite Nat.sub_diag. reflexivity.
      + apply (env_rel_mono d (hp st1)); [apply (x_heap _ _ (xle_set_dicts st1 _))|]. apply fold_env_set_rel; [exact Hp|constructor].
    - (* paren *) rewrite eval_vexpr_S_paren. now apply (HE e st ps p).
    - (* ident *)
      pose proof (lookup_rel d st ps n Hs) as Hl. destruct (qlookup n ps) as [q|]; [|discriminate]. injection H as <-.
      destruct Hl as (v & Hl1 & Hl2). eapply ok_here; [|exact Hl2]. rewrite eval_vexpr_S_ident, Hl1. reflexivity.
    - (* call *)
      rewrite eval_vexpr_S_call. pose proof (lookup_rel d st ps n Hs) as Hl. destruct (qlookup n ps) as [q|] eqn:El.
      + destruct q; try discriminate. destruct Hl as (v & Hl1 & Hl2). cbn [vrel] in Hl2. subst v. rewrite Hl1. now apply (HC id n args st ps p).
      + destruct (existsb (str_eqb n) builtin_names) eqn:Eb; [|discriminate].
        rewrite (lookup_builtin d st ps n Hs El Eb). now apply (HCB n n args st ps p).
    - (* method *)
      destruct (QV f x ps) as [pobj| |] eqn:Eo; try discriminate. cbn [rbind] in H.
      destruct (HV x st ps pobj Hs Eo) as (obj & st1 & E1 & Hx1 & Hobj). rewrite eval_vexpr_S_meth, E1. cbn [rbind].
      apply (sim_xle d st st1); [exact Hx1|].
      exact (meth_sim d f ps (fun e => QE f e ps) (fun e st0 p0 Hs0 => HE e st0 ps p0 Hs0) pobj obj m args st1 p (srel_xle d st st1 ps Hs Hx1) Hobj H).
    - (* index *)
      destruct (QV f x ps) as [pobj| |] eqn:Eo; try discriminate. cbn [rbind] in H.
      destruct (QE f i ps) as [pidx| |] eqn:Eidx; try discriminate. cbn [rbind] in H.
      destruct (HV x st ps pobj Hs Eo) as (obj & st1 & E1 & Hx1 & Hobj). rewrite eval_vexpr_S_index, E1. cbn [rbind].
      destruct (HE i st1 ps pidx (srel_xle d st st1 ps Hs Hx1) Eidx) as (idx & st2 & E2 & Hx2 & Hidx). rewrite E2. cbn [rbind].
      destruct (vindex_sim d st2 pobj pidx obj idx p (vr_xle d st1 st2 _ _ Hx2 Hobj) Hidx H) as (v & Evi & Hv). rewrite Evi. cbn [rbind].
      exists v, st2. split; [reflexivity|]. split; [now apply (xle_trans st st1)|exact Hv].
    - (* slice *)
      destruct (QV f x ps) as [pobj| |] eqn:Eo; try discriminate. cbn [rbind] in H.
      destruct (match lo with None => Ok None | Some e => do v <- QE f e ps; Ok (Some v) end) as [plo| |] eqn:Elo; try discriminate. cbn [rbind] in H.
      destruct (match hi with None => Ok None | Some e => do v <- QE f e ps; Ok (Some v) end) as [phi| |] eqn:Ehi; try discriminate. cbn [rbind] in H.
      destruct (HV x st ps pobj Hs Eo) as (obj & st1 & E1 & Hx1 & Hobj). rewrite eval_vexpr_S_slice, E1. cbn [rbind].
      assert (Hs1 : srel d st1 ps) by now apply (srel_xle d st).
      destruct (opt_sim f HE lo st1 ps plo Hs1 Elo) as (lov & st2 & E2 & Hx2 & Hlo). rewrite E2. cbn [rbind].
      assert (Hs2 : srel d st2 ps) by now apply (srel_xle d st1).
      destruct (opt_sim f HE hi st2 ps phi Hs2 Ehi) as (hiv & st3 & E3 & Hx3 & Hhi). rewrite E3. cbn [rbind].
      apply (sim_xle d st st3); [apply (xle_trans st st1); [exact Hx1|now apply (xle_trans st1 st2)]|].
      apply (vslice_sim d chk cneg chk_ok cneg_ok st3 pobj obj plo lov phi hiv p); [|now apply (ovrel_xle st2 st3)|exact Hhi|exact H].
      apply (vr_xle d st2 st3); [exact Hx3|]. now apply (vr_xle d st1 st2).
  Qed.

  (* ================================================================ statements *)
  Definition qelif_loop (f : nat) (els : list stmt) (ps : qstate) : list (expr * list stmt) -> res (qsres * qstate) :=
    fix go (l : list (expr * list stmt)) : res (qsres * qstate) :=
    match l with
    | [] => QB f els ps
    | (c1, b1) :: r => do v1 <- QE f c1 ps; if qtruthy v1 then QB f b1 ps else go r
    end.
  Definition qfor_loop (f : nat) (names : list str) (body : list stmt) : list qval -> qstate -> res (qsres * qstate) :=
    fix go (l : list qval) (ps0 : qstate) : res (qsres * qstate) :=
    match l with
    | [] => Ok (QRNone, ps0)
    | li :: r =>
        do ps1 <- qunpack names li ps0;
        do '(r0, ps'') <- QB f body ps1;
        match r0 with
        | QRBreak => Ok (QRNone, ps'')
        | QRRet v => Ok (QRRet v, ps'')
        | _ => go r ps''
        end
    end.

  Lemma qexec_stmt_S : forall f s0 ps,
    QSt (S f) s0 ps =
    match s0 with
    | SPass => Ok (QRNone, ps)
    | SBreak => Ok (QRBreak, ps)
    | SContinue => Ok (QRContinue, ps)
    | SAssign n e => do v <- QE f e ps; Ok (QRNone, qset_var n v ps)
    | SAug n e =>
        match qlookup n ps with
        | None => Err EType
        | Some old =>
            do v <- QE f e ps;
            match old with
            | QList _ => Err EUnsupported
            | _ => do r <- qapply_bin chk f Add old v; Ok (QRNone, qset_var n r ps)
            end
        end
    | SUnpack names e =>
        do v <- QE f e ps;
        match names with
        | [] | [_] => Err EUnsupported
        | _ => do ps1 <- qunpack names v ps; Ok (QRNone, ps1)
        end
    | SAssert e => do v <- QE f e ps; if qtruthy v then Ok (QRNone, ps) else Err EType
    | SReturn None => Ok (QRRet QNone, ps)
    | SReturn (Some e) => do v <- QE f e ps; Ok (QRRet v, ps)
    | SIf c body elifs els => do cv <- QE f c ps; if qtruthy cv then QB f body ps else qelif_loop f els ps elifs
    | SFor names it body => do '(items, _) <- qiter QE f it ps; qfor_loop f names body items ps
    | SDef n args body =>
        match ql ps, qformals_of args with
        | [], Some formals => Ok (QRNone, qset_var n (QFunc (length (qfs ps))) (QS (qg ps) [] (qfs ps ++ [QFn n formals body])))
        | _, _ => Err EUnsupported
        end
    | SCall n args =>
        match qlookup n ps with
        | Some (QFunc id) => do _ <- qcall_user QE QR f id args ps; Ok (QRNone, ps)
        | Some _ => Err EType
        | None => Err EUnsupported
        end
    | _ => Err EUnsupported
    end.
  Proof. intros f s0 ps. destruct s0; reflexivity. Qed.

  Lemma qexec_block_S : forall f ss ps,
    QB (S f) ss ps =
    match ss with
    | [] => Ok (QRNone, ps)
    | s0 :: r => do '(res0, ps1) <- QSt f s0 ps; match res0 with QRNone => QB f r ps1 | _ => Ok (res0, ps1) end
    end.
  Proof. reflexivity. Qed.

  Lemma expr_in_stmt : forall f, Esim f -> forall e st ps p, srel d st ps -> QE f e ps = Ok p ->
    exists v st1, EE f e st = Ok (v, st1) /\ vr st1 p v /\ srel d st1 ps /\ grows st st1.
  Proof.
    intros f HE e st ps p Hs H. destruct (HE e st ps p Hs H) as (v & st1 & Hev & Hx & Hv).
    exists v, st1. split; [exact Hev|split; [exact Hv|split; [now apply (srel_xle d st)|now apply grows_xle]]].
  Qed.

  Lemma Bsim_S : forall f, Ssim f -> Bsim f -> Bsim (S f).
  Proof.
    intros f HS HB ss st ps r ps' Hs H. rewrite qexec_block_S in H. destruct ss as [|s0 rest].
    - injection H as <- <-. exists RNone, st. rewrite exec_block_S_nil. four; [reflexivity|exact I|exact Hs|apply grows_refl].
    - destruct (QSt f s0 ps) as [[r0 ps1]| |] eqn:E0; try discriminate. cbn [rbind] in H.
      destruct (HS s0 st ps r0 ps1 Hs E0) as (r0' & st1 & Hev & Hr & Hs1 & Hg1).
      rewrite exec_block_S_cons, Hev. cbn [rbind].
      destruct r0; destruct r0'; cbn [rrel] in Hr; try contradiction.
      + destruct (HB rest st1 ps1 r ps' Hs1 H) as (r' & st' & Hev2 & Hr2 & Hs2 & Hg2).
        exists r', st'. four; try assumption. now apply (grows_trans st st1 st').
      + injection H as <- <-. eexists. exists st1. four; [reflexivity|exact Hr|exact Hs1|exact Hg1].
      + injection H as <- <-. eexists. exists st1. four; [reflexivity|exact I|exact Hs1|exact Hg1].
      + injection H as <- <-. eexists. exists st1. four; [reflexivity|exact I|exact Hs1|exact Hg1].
  Qed.

  Lemma elif_sim : forall f, Esim f -> Bsim f -> forall els elifs st ps r ps', srel d st ps ->
    qelif_loop f els ps elifs = Ok (r, ps') ->
    exists r' st', elif_loop d [] f els elifs st = Ok (r', st') /\ rrel (hp st') r r' /\ srel d st' ps' /\ grows st st'.
  Proof.
    intros f HE HB els elifs. induction elifs as [|[c1 b1] rest IH]; intros st ps r ps' Hs H; cbn [qelif_loop elif_loop] in *.
    - now apply (HB els st ps r ps').
    - destruct (QE f c1 ps) as [p1| |] eqn:E1; try discriminate. cbn [rbind] in H.
      destruct (expr_in_stmt f HE c1 st ps p1 Hs E1) as (v1 & st1 & Hev & Hv & Hs1 & Hg1). rewrite Hev. cbn [rbind].
      rewrite (truthy_rel d st1 p1 v1 Hv). destruct (qtruthy p1).
      + destruct (HB b1 st1 ps r ps' Hs1 H) as (r' & st' & Hev2 & Hr2 & Hs2 & Hg2).
        exists r', st'. four; try assumption. now apply (grows_trans st st1 st').
      + destruct (IH st1 ps r ps' Hs1 H) as (r' & st' & Hev2 & Hr2 & Hs2 & Hg2).
        exists r', st'. four; try assumption. now apply (grows_trans st st1 st').
  Qed.

  Lemma for_sim : forall f, Bsim f -> forall names body pitems items st ps r ps', srel d st ps ->
    vrels d (hp st) pitems items ->
    qfor_loop f names body pitems ps = Ok (r, ps') ->
    exists r' st', for_loop2 d [] f names body items st = Ok (r', st') /\ rrel (hp st') r r' /\ srel d st' ps' /\ grows st st'.
  Proof.
    intros f HB names body pitems. induction pitems as [|pi prest IH]; intros items st ps r ps' Hs Hi H; inversion Hi as [|? y ? l' Hy Hl']; subst;
      cbn [qfor_loop for_loop2] in *.
    - injection H as <- <-. exists RNone, st. four; [reflexivity|exact I|exact Hs|apply grows_refl].
    - destruct (qunpack names pi ps) as [ps0| |] eqn:Eu; try discriminate. cbn [rbind] in H.
      destruct (unpack_sim names pi y st ps ps0 Hs Hy Eu) as (st0 & E0 & Hs0 & Hg0 & _). rewrite E0. cbn [rbind].
      destruct (QB f body ps0) as [[r0 ps1]| |] eqn:Eb; try discriminate. cbn [rbind] in H.
      destruct (HB body _ _ r0 ps1 Hs0 Eb) as (r0' & st1 & Hev & Hr & Hs1 & Hg1). rewrite Hev. cbn [rbind].
      assert (Hg : grows st st1) by now apply (grows_trans st st0).
      destruct r0; destruct r0'; cbn [rrel] in Hr; try contradiction.
      + destruct (IH l' st1 ps1 r ps' Hs1 (vrs_grows d _ _ _ _ Hg Hl') H) as (r' & st' & Hev2 & Hr2 & Hs2 & Hg2).
        exists r', st'. four; try assumption. now apply (grows_trans st st1 st').
      + injection H as <- <-. eexists. exists st1. four; [reflexivity|exact Hr|exact Hs1|exact Hg].
      + injection H as <- <-. exists RNone, st1. four; [reflexivity|exact I|exact Hs1|exact Hg].
      + destruct (IH l' st1 ps1 r ps' Hs1 (vrs_grows d _ _ _ _ Hg Hl') H) as (r' & st' & Hev2 & Hr2 & Hs2 & Hg2).
        exists r', st'. four; try assumption. now apply (grows_trans st st1 st').
  Qed.

  Lemma def_formals_sim : forall f args pformals, qformals_of args = Some pformals ->
    exists formals, (forall st, def_formals d [] f args st = Ok (formals, st)) /\ formals_rel formals pformals.
  Proof.
    intros f args. induction args as [|[a o] args IH]; intros pformals H; cbn [qformals_of] in H.
    - injection H as <-. exists []. split; [reflexivity|constructor].
    - destruct (qdefault_of o) as [df|] eqn:Ed; [|discriminate]. destruct (qformals_of args) as [fr|]; [|discriminate]. injection H as <-.
      destruct (IH fr eq_refl) as (formals & Ef & Hf).
      assert (Hone : exists fd, (forall st0, (match o with
                        | None => Ok ((a, DNo), st0)
                        | Some e => if is_const 32%nat e then rbind (const_alloc 32%nat e st0) (fun '(v, st') => Ok ((a, DConst v), st'))
                                    else match d with
                                         | Asp => Ok ((a, DExpr e), st0)
                                         | Py => rbind (EE f e st0) (fun '(v, st') => Ok ((a, DConst v), st'))
                                         end
                        end) = Ok ((a, fd), st0)) /\ def_rel fd df).
      { unfold qdefault_of in Ed. destruct o as [[v ops iff]|]; [|injection Ed as <-; exists DNo; now split].
        destruct v; try discriminate; destruct ops; try discriminate; destruct iff; try discriminate; injection Ed as <-;
          (eexists; split; [intros st0; reflexivity|intros d0 h; reflexivity]). }
      destruct Hone as (fd & E1 & Hd). exists ((a, fd) :: formals). split.
      + intros st. unfold def_formals in *. cbn [mapM fst snd]. rewrite E1. cbn [rbind]. rewrite Ef. reflexivity.
      + constructor; [now split|exact Hf].
  Qed.

  Lemma Ssim_S : forall f, (forall m, (m <= f)%nat -> Esim m) -> Bsim f -> Csim f -> Ssim (S f).
  Proof.
    intros f HEm HB HC s0 st ps r ps' Hs H. pose proof (HEm f (le_n _)) as HE. rewrite qexec_stmt_S in H. destruct s0; try discriminate.
    - (* SAssign *)
      destruct (QE f e ps) as [p| |] eqn:Ee; try discriminate. cbn [rbind] in H. injection H as <- <-.
      destruct (expr_in_stmt f HE e st ps p Hs Ee) as (v & st1 & Hev & Hv & Hs1 & Hg1).
      rewrite exec_stmt_S_assign, Hev. cbn [rbind]. exists RNone, (set_var n v st1).
      four; [reflexivity|exact I|now apply set_var_rel|now apply grows_set_var].
    - (* SAug *)
      pose proof (lookup_rel d st ps n Hs) as Hl. destruct (qlookup n ps) as [pold|]; [|discriminate].
      destruct Hl as (old & Hl1 & Hl2).
      destruct (QE f e ps) as [p| |] eqn:Ee; try discriminate. cbn [rbind] in H.
      destruct (expr_in_stmt f HE e st ps p Hs Ee) as (v & st1 & Hev & Hv & Hs1 & Hg1).
      rewrite exec_stmt_S_aug, Hl1, Hev. cbn [rbind].
      assert (Hold1 : vr st1 pold old) by now apply (vr_grows d st st1).
      assert (Hstep : exists r' st', (do '(r0, st2) <- apply_bin d f Add old v st1; Ok (RNone, set_var n r0 st2)) = Ok (r', st')
                 /\ rrel (hp st') r r' /\ srel d st' ps' /\ grows st st').
      { assert (Hab : exists pr, qapply_bin chk f Add pold p = Ok pr /\ r = QRNone /\ ps' = qset_var n pr ps).
        { destruct pold; try discriminate H;
            (destruct (qapply_bin chk f Add _ p) as [pr| |] eqn:Ea; try discriminate; cbn [rbind] in H;
             injection H as <- <-; exists pr; now repeat split). }
        destruct Hab as (pr & Ea & -> & ->).
        destruct (apply_bin_sim d chk cneg chk_ok cneg_ok f Add pold p pr st1 old v Hold1 Hv Ea) as (vr0 & st2 & Hab & Hx2 & Hvr).
        rewrite Hab. cbn [rbind]. exists RNone, (set_var n vr0 st2). four; [reflexivity|exact I| |].
        - apply set_var_rel; [now apply (srel_xle d st1)|exact Hvr].
        - apply grows_set_var. apply (grows_trans st st1); [exact Hg1|now apply grows_xle]. }
      destruct pold; cbn [vrel] in Hl2; try (subst old; destruct d; exact Hstep).
      + discriminate H.
      + apply vrel_dict in Hl2. destruct Hl2 as (i & es & -> & _). destruct d; exact Hstep.
    - (* SUnpack *)
      destruct (QE f e ps) as [p| |] eqn:Ee; try discriminate. cbn [rbind] in H.
      destruct (expr_in_stmt f HE e st ps p Hs Ee) as (v & st1 & Hev & Hv & Hs1 & Hg1).
      rewrite exec_stmt_S_unpack, Hev. cbn [rbind].
      destruct names as [|n1 [|n2 names]]; try discriminate.
      destruct (qunpack (n1 :: n2 :: names) p ps) as [ps1| |] eqn:Eu; try discriminate. cbn [rbind] in H. injection H as <- <-.
      destruct (unpack_sim (n1 :: n2 :: names) p v st1 ps ps1 Hs1 Hv Eu) as (st2 & E2 & Hs2 & Hg2 & _). rewrite E2. cbn [rbind].
      exists RNone, st2. four; [reflexivity|exact I|exact Hs2|now apply (grows_trans st st1)].
    - (* SIf *)
      destruct (QE f c ps) as [pc| |] eqn:Ec; try discriminate. cbn [rbind] in H.
      destruct (expr_in_stmt f HE c st ps pc Hs Ec) as (vc & st1 & Hev & Hv & Hs1 & Hg1).
      rewrite exec_stmt_S_if, Hev. cbn [rbind]. rewrite (truthy_rel d st1 pc vc Hv). destruct (qtruthy pc).
      + destruct (HB body st1 ps r ps' Hs1 H) as (r' & st' & Hev2 & Hr2 & Hs2 & Hg2).
        exists r', st'. four; try assumption. now apply (grows_trans st st1 st').
      + destruct (elif_sim f HE HB els elifs st1 ps r ps' Hs1 H) as (r' & st' & Hev2 & Hr2 & Hs2 & Hg2).
        exists r', st'. four; try assumption. now apply (grows_trans st st1 st').
    - (* SFor *)
      destruct (qiter QE f it ps) as [[pitems hint]| |] eqn:Ei; try discriminate. cbn [rbind] in H.
      destruct (iter_sim f HEm it st ps pitems hint Hs Ei) as (itv & st1 & items & Ev & Hx1 & Eit & Hit & _).
      rewrite exec_stmt_S_for2, Ev. cbn [rbind]. rewrite Eit. cbn [rbind].
      destruct (for_sim f HB names body pitems items st1 ps r ps' (srel_xle d st st1 ps Hs Hx1) Hit H) as (r' & st' & Hev2 & Hr2 & Hs2 & Hg2).
      exists r', st'. four; try assumption. apply (grows_trans st st1 st'); [now apply grows_xle|exact Hg2].
    - (* SDef *)
      destruct (ql ps) as [|? ?] eqn:Eql; [|discriminate]. destruct (qformals_of args) as [pformals|] eqn:Ef; [|discriminate].
      injection H as <- <-. destruct (def_formals_sim f args pformals Ef) as (formals & Edf & Hf).
      rewrite exec_stmt_S_def, Edf. cbn [rbind].
      destruct Hs as [H1 (g & H2 & H3) H4 H5]. rewrite Eql in H4. inversion H4 as [El|]; subst.
      set (st2 := set_funcs (funcs st ++ [Func n formals body (cur st)]) st).
      assert (Hs2 : srel d st2 (QS (qg ps) [] (qfs ps ++ [QFn n pformals body]))).
      { constructor; cbn.
        - exact H1.
        - exists g. now split.
        - rewrite <- El. constructor.
        - apply Forall2_app; [exact H5|]. constructor; [|constructor]. split; [reflexivity|]. split; [reflexivity|]. split; [exact H1|exact Hf]. }
      exists RNone, (set_var n (VFunc (length (funcs st))) st2). four; [reflexivity|exact I| |].
      + rewrite <- (Forall2_length H5). apply set_var_rel; [exact Hs2|reflexivity].
      + apply grows_set_var. constructor; cbn; try reflexivity; [apply hext_refl|]. intros Hn. now rewrite <- El in Hn.
    - (* SReturn *)
      destruct e as [e|].
      + destruct (QE f e ps) as [p| |] eqn:Ee; try discriminate. cbn [rbind] in H. injection H as <- <-.
        destruct (expr_in_stmt f HE e st ps p Hs Ee) as (v & st1 & Hev & Hv & Hs1 & Hg1).
        rewrite exec_stmt_S_ret, Hev. cbn [rbind]. exists (RRet v), st1. four; [reflexivity|exact Hv|exact Hs1|exact Hg1].
      + injection H as <- <-. exists (RRet VNone), st. rewrite exec_stmt_S_ret0. four; [reflexivity|reflexivity|exact Hs|apply grows_refl].
    - (* SCall *)
      pose proof (lookup_rel d st ps n Hs) as Hl. destruct (qlookup n ps) as [q|]; [|discriminate]. destruct q; try discriminate.
      destruct Hl as (v & Hl1 & Hl2). cbn [vrel] in Hl2. subst v.
      destruct (qcall_user QE QR f id args ps) as [pv| |] eqn:Ec; try discriminate. cbn [rbind] in H. injection H as <- <-.
      destruct (HC id n args st ps pv Hs Ec) as (v & st1 & Ev & Hx1 & _).
      rewrite (exec_stmt_S_call_func d [] f n args st id Hl1), Ev. cbn [rbind].
      exists RNone, st1. four; [reflexivity|exact I|now apply (srel_xle d st)|now apply grows_xle].
    - (* SAssert *)
      destruct (QE f e ps) as [p| |] eqn:Ee; try discriminate. cbn [rbind] in H.
      destruct (expr_in_stmt f HE e st ps p Hs Ee) as (v & st1 & Hev & Hv & Hs1 & Hg1).
      rewrite exec_stmt_S_assert, Hev. cbn [rbind]. rewrite (truthy_rel d st1 p v Hv).
      destruct (qtruthy p); [|discriminate]. injection H as <- <-. exists RNone, st1. four; [reflexivity|exact I|exact Hs1|exact Hg1].
    - injection H as <- <-. exists RNone, st. rewrite exec_stmt_S_pass. four; [reflexivity|exact I|exact Hs|apply grows_refl].
    - injection H as <- <-. exists RBreak, st. rewrite exec_stmt_S_break. four; [reflexivity|exact I|exact Hs|apply grows_refl].
    - injection H as <- <-. exists RContinue, st. rewrite exec_stmt_S_continue. four; [reflexivity|exact I|exact Hs|apply grows_refl].
  Qed.

  (* ================================================================ all components, every fuel *)
  Lemma all_sim : forall n, All n.
  Proof.
    induction n as [n IH] using lt_wf_ind. destruct n as [|f].
    - constructor; repeat intro; discriminate.
    - assert (HEm : forall m, (m <= f)%nat -> Esim m) by (intros m Hm; apply (a_E m), IH; lia).
      destruct (IH f (Nat.lt_succ_diag_r f)) as [HE HV HC HCB HR HB HS].
      constructor.
      + now apply Esim_S.
      + now apply Vsim_S.
      + now apply Csim_S.
      + now apply CBsim_S.
      + now apply Rsim_S.
      + now apply Bsim_S.
      + now apply Ssim_S.
  Qed.

  (* ================================================================ whole programs *)
  Lemma top_sim : forall fuel ss st ps ps', srel d st ps -> qexec_top chk cneg fuel ss ps = Ok ps' ->
    exists st', exec_top d [] fuel ss st = (None, false, st') /\ srel d st' ps'.
  Proof.
    intros fuel ss. induction ss as [|s0 rest IH]; intros st ps ps' Hs H; cbn [qexec_top exec_top] in *.
    - injection H as <-. now exists st.
    - destruct (QSt fuel s0 ps) as [[r0 ps1]| |] eqn:E0; try discriminate.
      destruct (a_S fuel (all_sim fuel) s0 st ps r0 ps1 Hs E0) as (r0' & st1 & Hev & Hr & Hs1 & _). rewrite Hev.
      destruct r0; destruct r0'; cbn [rrel] in Hr; try contradiction.
      + now apply (IH st1 ps1 ps').
      + injection H as <-. now exists st1.
      + injection H as <-. now exists st1.
      + injection H as <-. now exists st1.
  Qed.

  Lemma fname_rel : forall fs pfs0 i, Forall2 func_rel fs pfs0 ->
    f_name (nth i fs (Func [] [] [] 0%nat)) = qf_name (nth i pfs0 qfn_default).
  Proof. intros fs pfs0 i H. exact (proj1 (nth_func_rel fs pfs0 i H)). Qed.

  Lemma render_rel : forall n st ps p v, Forall2 func_rel (funcs st) (qfs ps) -> vr st p v ->
    ostrip (render d n st v) = qrender n (qfs ps) p.
  Proof.
    induction n as [|n IH]; intros st ps p v Hf Hv; [reflexivity|].
    destruct p; cbn [vrel] in Hv; try (subst v; reflexivity).
    - destruct (vrel_list_inv d st l v Hv) as (sl & -> & Hc & _). cbn [render qrender ostrip]. f_equal.
      rewrite map_map. clear Hv. unfold vrels in Hc. induction Hc as [|q c qs cs Hq _ IHc]; [reflexivity|]. cbn [map]. f_equal; [now apply IH|exact IHc].
    - apply vrel_dict in Hv. destruct Hv as (i & es & -> & H2 & H3 & H4). cbn [render qrender ostrip]. f_equal.
      unfold dict_of. cbn [hp snd] in H2. rewrite (nth_error_nth _ _ _ H2).
      rewrite (sorted_sort_id d (hp st) es kvs H4 H3). rewrite map_map. cbn [fst snd].
      clear H2 H3. unfold env_rel in H4. induction H4 as [|kv pkv es kvs [Hk Hq] _ IHc]; [reflexivity|]. cbn [map]. f_equal; [|exact IHc].
      rewrite Hk. f_equal. now apply IH.
    - subst v. cbn [render qrender ostrip]. f_equal. now apply fname_rel.
  Qed.

  Lemma render_env_rel : forall st ps e, Forall2 func_rel (funcs st) (qfs ps) -> env_rel d (hp st) e (qg ps) ->
    ostrip_env (render_env d st e) = pure2_obs ps.
  Proof.
    intros st ps e Hf He. unfold render_env, pure2_obs, ostrip_env. rewrite map_map. cbn [fst snd].
    rewrite sort_gsort.
    rewrite <- (gsort_map (fun v => ostrip (render d 64 st v))). f_equal.
    unfold env_rel in He. induction He as [|kv pkv e pe [H1 H2] _ IH]; [reflexivity|]. cbn [map]. f_equal; [|exact IH].
    rewrite H1. f_equal. now apply render_rel.
  Qed.

  Theorem run_is_reference2 : forall fuel p ps, qexec_top chk cneg fuel p (QS [] [] []) = Ok ps ->
    map ostrip_outcome (run d [] fuel [p]) = [OGlobals (pure2_obs ps) (pure2_obs ps)].
  Proof.
    intros fuel p ps H.
    set (st1 := set_locals [] (set_cur 0%nat (set_fscopes (fscopes empty_state ++ [[]]) empty_state))).
    assert (Hs : srel d st1 (QS [] [] [])).
    { constructor; cbn; [reflexivity|exists []; split; [reflexivity|constructor]|constructor|constructor]. }
    destruct (top_sim fuel p st1 _ ps Hs H) as (st2 & Hev & [H1 (g & H2 & H3) H4 H5]).
    unfold run. cbn [run_builds]. change (length (fscopes empty_state)) with 0%nat. fold st1. rewrite Hev.
    cbn [map ostrip_outcome]. rewrite H2. cbn [nth]. now rewrite (render_env_rel st2 ps g H5 H3).
  Qed.
End Sim2.

(* THE theorem of the enlarged fragment: a program on which the checked reference run succeeds is evaluated by the asp
   dialect and by the CPython dialect to exactly the globals of the reference run (up to the spare capacity the asp hook
   prints for its lists) - for every program and every fuel. *)
Theorem pure2_run_agrees : forall fuel p ps, pure2_run fuel p = Ok ps ->
  map ostrip_outcome (run Asp [] fuel [p]) = [OGlobals (pure2_obs ps) (pure2_obs ps)] /\
  map ostrip_outcome (run Py [] fuel [p]) = [OGlobals (pure2_obs ps) (pure2_obs ps)].
Proof.
  intros fuel p ps H. unfold pure2_run in H. split.
  - exact (run_is_reference2 Asp checked_op checked_neg (checked_op_ok Asp) (checked_neg_ok Asp) fuel p ps H).
  - exact (run_is_reference2 Py checked_op checked_neg (checked_op_ok Py) (checked_neg_ok Py) fuel p ps H).
Qed.

Corollary pure2_subset_program_agrees : forall fuel p ps, in_pure2_subset p = true -> pure2_run fuel p = Ok ps ->
  map ostrip_outcome (run Asp [] fuel [p]) = map ostrip_outcome (run Py [] fuel [p])
  /\ map ostrip_outcome (run Asp [] fuel [p]) = [OGlobals (pure2_obs ps) (pure2_obs ps)].
Proof.
  intros fuel p ps _ H. destruct (pure2_run_agrees fuel p ps H) as [Ha Hp]. split; [now rewrite Ha, Hp|exact Ha].
Qed.
