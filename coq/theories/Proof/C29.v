(* C29 - proofs about the model of the CAS-backed filesystem view (Model/C29.v). *)
From Coq Require Import String Lia Arith.
From PlzV Require Import Base.Harness Base.StrFacts Model.C29.
From PlzV Require Gen.CasFs.

(* ---- the tie to the source (regenerated on every run by gotrans CasFs) ---- *)
Lemma gen_tie :
  Gen.CasFs.find_order = ["Directories"; "Files"; "Symlinks"]%string
  /\ Gen.CasFs.readdir_order = ["Directories"; "Files"; "Symlinks"]%string
  /\ max_symlinks = Gen.CasFs.max_symlinks.
Proof. repeat split; reflexivity. Qed.

(* ============================================================================================
   A. ReadDir paging *)

Lemma skipn_nil_iff {A} (l : list A) n : skipn n l = [] <-> length l <= n.
Proof.
  revert n; induction l as [|x l IH]; intros [|n]; cbn [skipn length]; split; intro H;
    try reflexivity; try lia; try discriminate.
  - apply IH in H. lia.
  - apply IH. lia.
Qed.

Lemma skipn_add {A} (l : list A) a b : skipn a (skipn b l) = skipn (b + a) l.
Proof.
  revert l; induction b as [|b IH]; intros l; cbn [skipn Nat.add]; [reflexivity|].
  destruct l; [destruct a; reflexivity|]. apply IH.
Qed.

Lemma readdir_nonpos all off n : (n <= 0)%Z -> readdir all off n = ((skipn off all, false), length all).
Proof. intros Hn. unfold readdir. destruct (Z.leb_spec n 0); [reflexivity|lia]. Qed.

Lemma readdir_pos_eof all off n : (0 < n)%Z -> length all <= off -> readdir all off n = (([], true), off).
Proof.
  intros Hn Hoff. unfold readdir. destruct (Z.leb_spec n 0); [lia|].
  rewrite (proj2 (skipn_nil_iff all off) Hoff). reflexivity.
Qed.

Lemma readdir_pos_page all off n : (0 < n)%Z -> off < length all ->
  readdir all off n = ((firstn (Z.to_nat n) (skipn off all), false),
                       off + Nat.min (Z.to_nat n) (length all - off)).
Proof.
  intros Hn Hoff. unfold readdir. destruct (Z.leb_spec n 0); [lia|].
  destruct (skipn off all) as [|x rest] eqn:Hs.
  - apply skipn_nil_iff in Hs. lia.
  - rewrite <- Hs. rewrite firstn_length, skipn_length. reflexivity.
Qed.

(* One call: the page is exactly the entries between the old and the new offset. *)
Lemma readdir_spec all off n :
  off <= length all ->
  forall pg eof off', readdir all off n = ((pg, eof), off') ->
  off <= off' <= length all
  /\ pg = firstn (off' - off) (skipn off all)
  /\ ((n <= 0)%Z -> off' = length all /\ eof = false)
  /\ ((0 < n)%Z -> (eof = true <-> off = length all) /\ (eof = true -> pg = [])
                  /\ length pg <= Z.to_nat n /\ (off < length all -> pg <> [])).
Proof.
  intros Hoff pg eof off' Hr.
  destruct (Z.leb_spec n 0) as [Hn|Hn].
  - rewrite readdir_nonpos in Hr by exact Hn. inversion Hr; subst.
    split; [lia|]. split.
    + rewrite firstn_all2; [reflexivity|]. rewrite skipn_length. lia.
    + split; [intros _; split; reflexivity | intros; lia].
  - destruct (Nat.eq_dec off (length all)) as [E|E].
    + rewrite readdir_pos_eof in Hr by lia. inversion Hr; subst off' pg eof.
      split; [lia|]. split; [rewrite Nat.sub_diag; reflexivity|].
      split; [intros; lia|]. intros _. split; [tauto|]. split; [reflexivity|].
      split; [cbn; lia | intros; lia].
    + assert (Hlt : off < length all) by lia.
      rewrite readdir_pos_page in Hr by assumption. inversion Hr; subst off' pg eof.
      split; [lia|]. split.
      * replace (off + Nat.min (Z.to_nat n) (length all - off) - off) with (Nat.min (Z.to_nat n) (length all - off)) by lia.
        rewrite <- (skipn_length off all). remember (skipn off all) as l. remember (Z.to_nat n) as k. clear.
        revert l; induction k as [|k IH]; intros [|x l]; cbn [firstn length Nat.min]; try reflexivity.
        f_equal. apply IH.
      * split; [intros; lia|]. intros _. split; [split; [discriminate|intros; lia]|].
        split; [discriminate|]. split.
        -- rewrite firstn_length. lia.
        -- intros _ Hnil. apply (f_equal (@length _)) in Hnil. rewrite firstn_length, skipn_length in Hnil.
           cbn in Hnil. lia.
Qed.

Lemma readdir_eof_stays all n : (0 < n)%Z -> readdir all (length all) n = (([], true), length all).
Proof.
  intros Hn. unfold readdir. destruct (Z.leb_spec n 0); [lia|].
  rewrite (proj2 (skipn_nil_iff all (length all))); [reflexivity|lia].
Qed.

(* final offset of a call sequence *)
Fixpoint readdir_off (all : list info) (off : nat) (ns : list Z) : nat :=
  match ns with
  | [] => off
  | n :: r => readdir_off all (snd (readdir all off n)) r
  end.

(* Any sequence of calls, any mixture of n: what has been returned so far is exactly the
   entries below the current offset - nothing is repeated, skipped or reordered. *)
Lemma readdir_seq_prefix all ns : forall off, off <= length all ->
  off <= readdir_off all off ns <= length all
  /\ concat (map fst (readdir_seq all off ns)) = firstn (readdir_off all off ns - off) (skipn off all).
Proof.
  induction ns as [|n ns IH]; intros off Hoff; cbn [readdir_seq readdir_off].
  - split; [lia|]. rewrite Nat.sub_diag. reflexivity.
  - destruct (readdir all off n) as [[pg eof] off'] eqn:Hr. cbn [snd].
    destruct (readdir_spec all off n Hoff _ _ _ Hr) as ((Hlo & Hhi) & Hpg & _).
    destruct (IH off' Hhi) as ((Hlo' & Hhi') & Hcat).
    split; [lia|]. cbn [map fst concat]. rewrite Hcat, Hpg.
    set (o2 := readdir_off all off' ns) in *.
    replace (o2 - off) with ((off' - off) + (o2 - off')) by lia.
    replace (skipn off' all) with (skipn (off' - off) (skipn off all)).
    2:{ rewrite skipn_add. f_equal. lia. }
    remember (skipn off all) as l. clear.
    revert l; induction (off' - off) as [|k IHk]; intros l; cbn [firstn skipn Nat.add]; [reflexivity|].
    destruct l; cbn [firstn skipn app]; [rewrite firstn_nil; reflexivity|]. f_equal. apply IHk.
Qed.

(* Paging with a fixed n > 0 until io.EOF *)
Fixpoint drain (all : list info) (off : nat) (n : Z) (fuel : nat) : list info * bool :=
  match fuel with
  | O => ([], false)
  | S f => let '((pg, eof), off') := readdir all off n in
           if eof then ([], true)
           else let '(r, e) := drain all off' n f in (pg ++ r, e)
  end.

Lemma drain_all all n : (0 < n)%Z -> forall fuel off, off <= length all -> length all - off < fuel ->
  drain all off n fuel = (skipn off all, true).
Proof.
  intros Hn. induction fuel as [|f IH]; intros off Hoff Hf; [lia|].
  cbn [drain]. destruct (readdir all off n) as [[pg eof] off'] eqn:Hr.
  destruct (readdir_spec all off n Hoff _ _ _ Hr) as ((Hlo & Hhi) & Hpg & _ & Hpos). destruct (Hpos Hn) as (Heof & Hnil & Hlen & Hne).
  destruct eof.
  - assert (off = length all) by (apply Heof; reflexivity). subst off.
    rewrite (proj2 (skipn_nil_iff all (length all))); [reflexivity|lia].
  - assert (off < length all).
    { destruct (Nat.eq_dec off (length all)) as [E|E]; [|lia]. apply Heof in E. discriminate. }
    assert (off < off').
    { destruct (Nat.eq_dec off off') as [E|E]; [|lia]. subst off'. rewrite Nat.sub_diag in Hpg.
      cbn in Hpg. exfalso. apply (Hne H). exact Hpg. }
    rewrite IH by lia. rewrite Hpg. f_equal.
    replace (skipn off' all) with (skipn (off' - off) (skipn off all)).
    2:{ rewrite skipn_add. f_equal. lia. }
    apply firstn_skipn.
Qed.

(* ============================================================================================
   B. path/filepath on well-formed relative paths *)

Definition noslash (x : str) : Prop := ~ In slash x.
Definition valid_name (x : str) : Prop := x <> [] /\ noslash x /\ x <> dot /\ x <> dotdot.

Lemma split_nonnil p : split p <> [].
Proof.
  induction p as [|c r IH]; cbn [split]; [discriminate|].
  destruct (N.eqb c slash); [discriminate|]. destruct (split r); discriminate.
Qed.

Lemma split_app a b : split (a ++ slash :: b) = split a ++ split b.
Proof.
  induction a as [|c a IH]; cbn [app split].
  - rewrite N.eqb_refl. reflexivity.
  - destruct (N.eqb c slash); [rewrite IH; reflexivity|].
    rewrite IH. pose proof (split_nonnil a) as Hn. destruct (split a); [congruence|]. reflexivity.
Qed.

Lemma split_noslash x : noslash x -> split x = [x].
Proof.
  unfold noslash. induction x as [|c x IH]; intros H; cbn [split]; [reflexivity|].
  destruct (N.eqb_spec c slash) as [E|E]; [exfalso; apply H; left; auto|].
  rewrite IH; [reflexivity|]. intros Hin. apply H. right. exact Hin.
Qed.

Lemma joinp_cons x segs : segs <> [] -> joinp (x :: segs) = x ++ slash :: joinp segs.
Proof. destruct segs; [congruence|reflexivity]. Qed.

Lemma joinp_snoc ds x : ds <> [] -> joinp (ds ++ [x]) = joinp ds ++ slash :: x.
Proof.
  induction ds as [|d ds IH]; [congruence|]. intros _.
  destruct ds as [|d' ds]; [reflexivity|].
  change ((d :: d' :: ds) ++ [x]) with (d :: ((d' :: ds) ++ [x])).
  rewrite joinp_cons by (intro HH; discriminate HH). rewrite IH by discriminate.
  rewrite (joinp_cons d (d' :: ds)) by discriminate. rewrite <- app_assoc. reflexivity.
Qed.

Lemma split_joinp segs : Forall noslash segs -> segs <> [] -> split (joinp segs) = segs.
Proof.
  induction segs as [|x segs IH]; [congruence|]. intros Hall _.
  inversion Hall as [|? ? Hx Hr]; subst.
  destruct segs as [|y segs]; [apply split_noslash; exact Hx|].
  rewrite joinp_cons by discriminate. rewrite split_app, split_noslash by exact Hx.
  rewrite IH by (auto; discriminate). reflexivity.
Qed.

Lemma valid_not_skipped x : valid_name x -> str_eqb x [] || str_eqb x dot = false /\ str_eqb x dotdot = false.
Proof.
  intros (H1 & _ & H2 & H3). split.
  - apply Bool.orb_false_iff. split; apply str_eqb_neq; assumption.
  - apply str_eqb_neq; assumption.
Qed.

Lemma norm_valid rooted segs : Forall valid_name segs -> forall dd st,
  norm rooted dd st segs = (dd, rev segs ++ st).
Proof.
  induction segs as [|x segs IH]; intros Hall dd st; [reflexivity|].
  inversion Hall as [|? ? Hx Hr]; subst. cbn [norm].
  destruct (valid_not_skipped x Hx) as (E1 & E2). rewrite E1, E2.
  rewrite IH by exact Hr. cbn [rev]. rewrite <- app_assoc. reflexivity.
Qed.

Lemma norm_segs_valid rooted segs : Forall valid_name segs -> norm_segs rooted segs = segs.
Proof.
  intros H. unfold norm_segs. rewrite norm_valid by exact H. cbn [repeat app].
  rewrite app_nil_r. apply rev_involutive.
Qed.

Lemma norm_skip_dot rooted dd st segs : norm rooted dd st (dot :: segs) = norm rooted dd st segs.
Proof. reflexivity. Qed.

Lemma norm_app_nil rooted segs : forall dd st, norm rooted dd st (segs ++ [[]]) = norm rooted dd st segs.
Proof.
  induction segs as [|x segs IH]; intros dd st; [reflexivity|].
  cbn [app norm]. destruct (str_eqb x [] || str_eqb x dot); [apply IH|].
  destruct (str_eqb x dotdot); [destruct st; apply IH|apply IH].
Qed.

Definition unsplit (segs : list str) : str := match segs with [] => dot | _ => joinp segs end.

Lemma valid_names_noslash segs : Forall valid_name segs -> Forall noslash segs.
Proof. intros H. eapply Forall_impl; [|exact H]. intros x (_ & Hx & _). exact Hx. Qed.

Lemma joinp_head_not_slash segs : Forall valid_name segs -> segs <> [] ->
  exists c r, joinp segs = c :: r /\ N.eqb c slash = false.
Proof.
  intros Hall Hne. destruct segs as [|x segs]; [congruence|].
  inversion Hall as [|? ? (Hx0 & Hx1 & _) _]; subst.
  destruct x as [|c x]; [congruence|].
  exists c. destruct segs.
  - exists x. split; [reflexivity|]. apply N.eqb_neq. intros E. apply Hx1. left. auto.
  - eexists. split; [reflexivity|]. apply N.eqb_neq. intros E. apply Hx1. left. auto.
Qed.

(* a clean relative path is left alone by Clean ... *)
Lemma clean_joinp segs : Forall valid_name segs -> segs <> [] -> clean (joinp segs) = joinp segs.
Proof.
  intros Hall Hne. destruct (joinp_head_not_slash segs Hall Hne) as (c & r & E & Hc).
  unfold clean. rewrite E, Hc, <- E.
  rewrite split_joinp by (auto using valid_names_noslash).
  rewrite norm_segs_valid by exact Hall. destruct segs; [congruence|reflexivity].
Qed.

(* ... and by Join with the working directory "." *)
Lemma go_join_dot segs : Forall valid_name segs -> segs <> [] -> go_join dot (joinp segs) = joinp segs.
Proof.
  intros Hall Hne. unfold go_join, dot. cbn [app]. unfold clean.
  change (N.eqb 46 slash) with false. cbv iota.
  change (46%N :: slash :: joinp segs) with ([46%N] ++ slash :: joinp segs).
  rewrite split_app. rewrite split_joinp by (auto using valid_names_noslash).
  change (split [46%N]) with [dot]. cbn [app]. unfold norm_segs. rewrite norm_skip_dot.
  fold (norm_segs false segs). rewrite norm_segs_valid by exact Hall.
  destruct segs; [congruence|reflexivity].
Qed.

Lemma go_join_dot_dot : go_join dot dot = dot.
Proof. reflexivity. Qed.

Lemma upto_last_slash_noslash x : noslash x -> upto_last_slash x = [].
Proof.
  unfold noslash. induction x as [|c x IH]; intros H; cbn [upto_last_slash]; [reflexivity|].
  rewrite IH by (intros Hin; apply H; right; exact Hin).
  destruct (N.eqb_spec c slash) as [E|E]; [exfalso; apply H; left; auto|reflexivity].
Qed.

Lemma upto_last_slash_app a x : noslash x -> upto_last_slash (a ++ slash :: x) = a ++ [slash].
Proof.
  intros Hx. induction a as [|c a IH]; cbn [app upto_last_slash].
  - rewrite N.eqb_refl, upto_last_slash_noslash by exact Hx. reflexivity.
  - rewrite IH. destruct (N.eqb c slash); [reflexivity|]. destruct a; reflexivity.
Qed.

(* Dir of a node path = the path of the directory holding the node *)
Lemma go_dir_snoc ds x : Forall valid_name ds -> valid_name x -> go_dir (joinp (ds ++ [x])) = unsplit ds.
Proof.
  intros Hds (_ & Hx & _). unfold go_dir. destruct ds as [|d ds].
  - cbn [app joinp]. rewrite upto_last_slash_noslash by exact Hx. reflexivity.
  - rewrite joinp_snoc by discriminate. rewrite upto_last_slash_app by exact Hx.
    destruct (joinp_head_not_slash (d :: ds) Hds ltac:(discriminate)) as (c & r & E & Hc).
    unfold clean. rewrite E. cbn [app]. rewrite Hc. rewrite app_comm_cons, <- E.
    change (joinp (d :: ds) ++ [slash]) with (joinp (d :: ds) ++ slash :: []).
    rewrite split_app, split_joinp by (auto using valid_names_noslash; discriminate).
    change (split []) with [@nil N]. unfold norm_segs. rewrite norm_app_nil.
    fold (norm_segs false (d :: ds)). rewrite norm_segs_valid by exact Hds. reflexivity.
Qed.

(* Join(Dir(path of a link), target): the directory's elements followed by the target's elements,
   normalised lexically - "resolved relative to its directory" *)
Definition rel_target (ds : list str) (target : str) : list str := norm_segs false (ds ++ split target).

Lemma go_join_target ds target : Forall valid_name ds ->
  go_join (unsplit ds) target = unsplit (rel_target ds target).
Proof.
  intros Hds. unfold rel_target. destruct ds as [|d ds].
  - cbn [unsplit app]. unfold go_join, dot. cbn [app]. unfold clean.
    change (N.eqb 46 slash) with false. cbv iota.
    change (46%N :: slash :: target) with ([46%N] ++ slash :: target).
    rewrite split_app. change (split [46%N]) with [dot]. cbn [app]. unfold norm_segs at 1 2.
    rewrite norm_skip_dot. reflexivity.
  - cbn [unsplit].
    destruct (joinp_head_not_slash (d :: ds) Hds ltac:(discriminate)) as (c & r & E & Hc).
    unfold go_join. rewrite E. cbv iota beta. unfold clean. cbn [app]. rewrite Hc.
    change (c :: r ++ slash :: target) with ((c :: r) ++ slash :: target). rewrite <- E. rewrite split_app, split_joinp by (auto using valid_names_noslash; discriminate).
    reflexivity.
Qed.

(* ============================================================================================
   C. findNode finds exactly the nodes of the tree *)

Definition names (m : mdir) : list str :=
  map d_name (m_dirs m) ++ map f_name (m_files m) ++ map l_name (m_links m).

(* a REAPI Directory: entry names valid and unique across the three lists *)
Definition wf_dir (m : mdir) : Prop := NoDup (names m) /\ Forall valid_name (names m).

(* a REAPI Tree: the root is stored under its digest; every stored directory is well-formed and
   every child digest it mentions is stored *)
Definition wf_tree (t : tree) : Prop :=
  lookup (t_rootdg t) (t_dirs t) = Some (t_root t)
  /\ forall dg m, lookup dg (t_dirs t) = Some m ->
       wf_dir m /\ forall d, In d (m_dirs m) -> exists m', lookup (d_dg d) (t_dirs t) = Some m'.

(* The node of the tree at a path (a list of names) below directory m. *)
Inductive node_at (t : tree) : mdir -> list str -> found -> Prop :=
| NA_file m f : In f (m_files m) -> node_at t m [f_name f] (FFile f)
| NA_link m l : In l (m_links m) -> node_at t m [l_name l] (FLink l)
| NA_dir m d : In d (m_dirs m) -> node_at t m [d_name d] (FDir d)
| NA_step m d m' segs e : In d (m_dirs m) -> lookup (d_dg d) (t_dirs t) = Some m' ->
    node_at t m' segs e -> node_at t m (d_name d :: segs) e.

Lemma find_unique {A} (nm : A -> str) l x :
  In x l -> NoDup (map nm l) -> find (fun y => str_eqb (nm y) (nm x)) l = Some x.
Proof.
  induction l as [|y l IH]; intros Hin Hnd; [contradiction|].
  cbn [find]. inversion Hnd as [|? ? Hny Hnd']; subst. destruct Hin as [->|Hin].
  - rewrite str_eqb_refl. reflexivity.
  - destruct (str_eqb (nm y) (nm x)) eqn:E.
    + apply str_eqb_eq in E. exfalso. apply Hny. rewrite E. apply in_map. exact Hin.
    + apply IH; assumption.
Qed.

Lemma find_absent {A} (nm : A -> str) l name :
  ~ In name (map nm l) -> find (fun y => str_eqb (nm y) name) l = None.
Proof.
  induction l as [|y l IH]; intros H; [reflexivity|]. cbn [find].
  destruct (str_eqb (nm y) name) eqn:E.
  - apply str_eqb_eq in E. exfalso. apply H. left. exact E.
  - apply IH. intros Hin. apply H. right. exact Hin.
Qed.

Lemma find_name {A} (nm : A -> str) l name x :
  find (fun y => str_eqb (nm y) name) l = Some x -> In x l /\ nm x = name.
Proof. intros H. apply find_some in H. destruct H as (Hin & E). apply str_eqb_eq in E. auto. Qed.

Lemma NoDup_app_l {A} (a b : list A) : NoDup (a ++ b) -> NoDup a.
Proof. induction a as [|x a IH]; intros H; [constructor|]. inversion H; subst. constructor; [rewrite in_app_iff in *; tauto|auto]. Qed.
Lemma NoDup_app_r {A} (a b : list A) : NoDup (a ++ b) -> NoDup b.
Proof. induction a as [|x a IH]; intros H; [exact H|]. inversion H; subst. auto. Qed.
Lemma NoDup_app_disj {A} (a b : list A) x : NoDup (a ++ b) -> In x a -> ~ In x b.
Proof.
  induction a as [|y a IH]; intros H Hin; [contradiction|]. inversion H as [|? ? Hn Hnd]; subst.
  destruct Hin as [->|Hin]; [rewrite in_app_iff in Hn; tauto|auto].
Qed.

Section Find.
  Variable t : tree.
  Hypothesis Hwf : wf_tree t.

  Lemma wf_stored dg m : lookup dg (t_dirs t) = Some m -> wf_dir m.
  Proof. intros H. apply (proj2 Hwf) in H. tauto. Qed.

  Lemma wf_child dg m d : lookup dg (t_dirs t) = Some m -> In d (m_dirs m) ->
    exists m', lookup (d_dg d) (t_dirs t) = Some m'.
  Proof. intros H. apply (proj2 Hwf) in H. destruct H as (_ & H). apply H. Qed.

  (* what decide does on the entries of a well-formed directory *)
  Lemma decide_dir wdg m d re htd : wf_dir m -> In d (m_dirs m) ->
    decide t wdg (Some m) (d_name d) re htd =
      if re then ARet (Ok (FDir d)) else ADescend (d_dg d) (lookup (d_dg d) (t_dirs t)).
  Proof.
    intros (Hnd & Hval) Hin. unfold decide.
    assert (Hv : valid_name (d_name d)).
    { rewrite Forall_forall in Hval. apply Hval. unfold names. rewrite in_app_iff. left. apply in_map. exact Hin. }
    destruct Hv as (_ & _ & Hd & Hdd). apply str_eqb_neq in Hd, Hdd. rewrite Hd, Hdd.
    unfold find_dir. rewrite find_unique; [reflexivity|exact Hin|]. apply NoDup_app_l in Hnd. exact Hnd.
  Qed.

  Lemma decide_file wdg m f : wf_dir m -> In f (m_files m) ->
    decide t wdg (Some m) (f_name f) true false = ARet (Ok (FFile f)).
  Proof.
    intros (Hnd & Hval) Hin. unfold decide.
    assert (Hinn : In (f_name f) (map f_name (m_files m))) by (apply in_map; exact Hin).
    assert (Hv : valid_name (f_name f)).
    { rewrite Forall_forall in Hval. apply Hval. unfold names. rewrite !in_app_iff. auto. }
    destruct Hv as (_ & _ & Hd & Hdd). apply str_eqb_neq in Hd, Hdd. rewrite Hd, Hdd.
    unfold find_dir, find_file. rewrite find_absent.
    - rewrite find_unique; [reflexivity|exact Hin|]. apply NoDup_app_r, NoDup_app_l in Hnd. exact Hnd.
    - intros Hc. eapply NoDup_app_disj; [exact Hnd|exact Hc|]. rewrite in_app_iff. auto.
  Qed.

  Lemma decide_link wdg m l : wf_dir m -> In l (m_links m) ->
    decide t wdg (Some m) (l_name l) true false = ARet (Ok (FLink l)).
  Proof.
    intros (Hnd & Hval) Hin. unfold decide.
    assert (Hinn : In (l_name l) (map l_name (m_links m))) by (apply in_map; exact Hin).
    assert (Hv : valid_name (l_name l)).
    { rewrite Forall_forall in Hval. apply Hval. unfold names. rewrite !in_app_iff. auto. }
    destruct Hv as (_ & _ & Hd & Hdd). apply str_eqb_neq in Hd, Hdd. rewrite Hd, Hdd.
    unfold find_dir, find_file, find_link. rewrite find_absent.
    - rewrite find_absent.
      + rewrite find_unique; [reflexivity|exact Hin|]. apply NoDup_app_r, NoDup_app_r in Hnd. exact Hnd.
      + intros Hc. apply NoDup_app_r in Hnd. eapply NoDup_app_disj; [exact Hnd|exact Hc|exact Hinn].
    - intros Hc. eapply NoDup_app_disj; [exact Hnd|exact Hc|]. rewrite in_app_iff. auto.
  Qed.

  (* the bytes of one element are collected up to the next '/' *)
  Lemma walk_name wdg wd x : noslash x -> forall acc p,
    walk t wdg wd acc (x ++ p) = walk t wdg wd (rev x ++ acc) p.
  Proof.
    unfold noslash. induction x as [|c x IH]; intros H acc p; [reflexivity|].
    cbn [app walk rev]. destruct (N.eqb_spec c slash) as [E|E]; [exfalso; apply H; left; auto|].
    rewrite IH by (intros Hin; apply H; right; exact Hin). rewrite <- app_assoc. reflexivity.
  Qed.

  Lemma walk_last wdg wd x : noslash x ->
    walk t wdg wd [] x = match decide t wdg wd x true false with ARet r => r | _ => Err EOther end.
  Proof.
    intros H. rewrite <- (app_nil_r x) at 1. rewrite walk_name by exact H.
    cbn [walk]. rewrite app_nil_r, rev_involutive. reflexivity.
  Qed.

  Lemma walk_elem wdg wd x p : noslash x ->
    walk t wdg wd [] (x ++ slash :: p) =
      match decide t wdg wd x (match p with [] => true | _ => false end) true with
      | ARet r => r
      | ADescend dg m => walk t dg m [] p
      | AStay => walk t wdg wd [] p
      end.
  Proof.
    intros H. rewrite walk_name by exact H. cbn [walk]. rewrite N.eqb_refl, app_nil_r, rev_involutive.
    reflexivity.
  Qed.

  Lemma node_at_valid m segs e : forall dg, lookup dg (t_dirs t) = Some m -> node_at t m segs e ->
    Forall valid_name segs /\ segs <> [].
  Proof.
    intros dg Hm Hn. revert dg Hm. induction Hn; intros dg Hm;
      pose proof (wf_stored _ _ Hm) as (_ & Hval); rewrite Forall_forall in Hval.
    - split; [|discriminate]. constructor; [|constructor]. apply Hval. unfold names. rewrite !in_app_iff. auto using in_map.
    - split; [|discriminate]. constructor; [|constructor]. apply Hval. unfold names. rewrite !in_app_iff. auto using in_map.
    - split; [|discriminate]. constructor; [|constructor]. apply Hval. unfold names. rewrite !in_app_iff. auto using in_map.
    - split; [|discriminate]. constructor.
      + apply Hval. unfold names. rewrite !in_app_iff. auto using in_map.
      + eapply IHHn. eassumption.
  Qed.

  Lemma joinp_valid_nonnil segs : Forall valid_name segs -> segs <> [] -> joinp segs <> [].
  Proof.
    intros H Hne E. destruct (joinp_head_not_slash segs H Hne) as (c & r & E' & _). congruence.
  Qed.

  (* completeness: every node of the tree is found under its path *)
  Lemma find_complete m segs e : forall dg, lookup dg (t_dirs t) = Some m -> node_at t m segs e ->
    walk t dg (Some m) [] (joinp segs) = Ok e.
  Proof.
    intros dg Hm Hn. revert dg Hm. induction Hn; intros dg Hm; pose proof (wf_stored _ _ Hm) as Hwd.
    - cbn [joinp]. rewrite walk_last, decide_file; auto.
      destruct Hwd as (_ & Hval). rewrite Forall_forall in Hval.
      apply Hval. unfold names. rewrite !in_app_iff. auto using in_map.
    - cbn [joinp]. rewrite walk_last, decide_link; auto.
      destruct Hwd as (_ & Hval). rewrite Forall_forall in Hval.
      apply Hval. unfold names. rewrite !in_app_iff. auto using in_map.
    - cbn [joinp]. rewrite walk_last, decide_dir; auto.
      destruct Hwd as (_ & Hval). rewrite Forall_forall in Hval.
      apply Hval. unfold names. rewrite !in_app_iff. auto using in_map.
    - destruct (node_at_valid _ _ _ _ H0 Hn) as (Hv & Hne).
      rewrite joinp_cons by exact Hne. rewrite walk_elem.
      + rewrite decide_dir by assumption.
        pose proof (joinp_valid_nonnil segs Hv Hne) as Hj. destruct (joinp segs) eqn:Ej; [congruence|].
        rewrite H0. eapply IHHn. exact H0.
      + destruct Hwd as (_ & Hval). rewrite Forall_forall in Hval.
        apply Hval. unfold names. rewrite !in_app_iff. auto using in_map.
  Qed.

  (* soundness: whatever is found under a valid path is the tree's node there; otherwise
     ErrNotExist; never a panic *)
  Lemma find_sound segs : Forall valid_name segs -> segs <> [] ->
    forall dg m, lookup dg (t_dirs t) = Some m ->
    (exists e, walk t dg (Some m) [] (joinp segs) = Ok e /\ node_at t m segs e)
    \/ (walk t dg (Some m) [] (joinp segs) = Err ENotExist /\ forall e, ~ node_at t m segs e).
  Proof.
    induction segs as [|x segs IH]; [congruence|]. intros Hall _ dg m Hm.
    inversion Hall as [|? ? Hx Hr]; subst.
    pose proof Hx as (Hx0 & Hx1 & Hx2 & Hx3). apply str_eqb_neq in Hx2, Hx3.
    pose proof (wf_stored _ _ Hm) as Hwd. pose proof Hwd as (Hnd & Hval).
    destruct segs as [|y segs].
    - cbn [joinp]. rewrite walk_last by exact Hx1. unfold decide. rewrite Hx2, Hx3.
      destruct (find_dir x (m_dirs m)) as [d|] eqn:Ed.
      { apply find_name in Ed. destruct Ed as (Hin & <-). left. eexists. split; [reflexivity|]. constructor. exact Hin. }
      destruct (find_file x (m_files m)) as [f|] eqn:Ef.
      { apply find_name in Ef. destruct Ef as (Hin & <-). left. eexists. split; [reflexivity|]. constructor. exact Hin. }
      destruct (find_link x (m_links m)) as [l|] eqn:El.
      { apply find_name in El. destruct El as (Hin & <-). left. eexists. split; [reflexivity|]. constructor. exact Hin. }
      right. split; [reflexivity|]. intros e Hn. inversion Hn; subst.
      + unfold find_file in Ef. rewrite find_unique in Ef; [discriminate|assumption|].
        apply NoDup_app_r, NoDup_app_l in Hnd. exact Hnd.
      + unfold find_link in El. rewrite find_unique in El; [discriminate|assumption|].
        apply NoDup_app_r, NoDup_app_r in Hnd. exact Hnd.
      + unfold find_dir in Ed. rewrite find_unique in Ed; [discriminate|assumption|].
        apply NoDup_app_l in Hnd. exact Hnd.
      + match goal with H : node_at _ _ [] _ |- _ => inversion H end.
    - rewrite joinp_cons by discriminate. rewrite walk_elem by exact Hx1.
      pose proof (joinp_valid_nonnil (y :: segs) Hr ltac:(discriminate)) as Hj.
      destruct (joinp (y :: segs)) as [|c0 r0] eqn:Ej; [congruence|]. rewrite <- Ej.
      unfold decide. rewrite Hx2, Hx3.
      destruct (find_dir x (m_dirs m)) as [d|] eqn:Ed.
      + apply find_name in Ed. destruct Ed as (Hin & <-).
        destruct (wf_child _ _ _ Hm Hin) as (m' & Hm'). rewrite Hm'.
        destruct (IH Hr ltac:(discriminate) _ _ Hm') as [(e & Hw & Hn)|(Hw & Hno)].
        * left. exists e. split; [exact Hw|]. econstructor; eassumption.
        * right. split; [exact Hw|]. intros e Hn. inversion Hn; subst.
          assert (d0 = d).
          { apply NoDup_app_l in Hnd.
            pose proof (find_unique d_name (m_dirs m) d Hin Hnd) as F1.
            pose proof (find_unique d_name (m_dirs m) d0 ltac:(assumption) Hnd) as F2.
            match goal with H : d_name d0 = d_name d |- _ => rewrite H in F2 end. congruence. }
          subst d0. match goal with H : lookup (d_dg d) _ = Some ?mm |- _ => rewrite Hm' in H; inversion H; subst end.
          eapply Hno. eassumption.
      + right. split; [reflexivity|]. intros e Hn. inversion Hn; subst.
        unfold find_dir in Ed. rewrite find_unique in Ed; [discriminate|assumption|].
        apply NoDup_app_l in Hnd. exact Hnd.
  Qed.
End Find.
