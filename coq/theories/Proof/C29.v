(* C29 - proofs about the model of the CAS-backed filesystem view (Model/C29.v). *)
From Coq Require Import String.
From PlzV Require Import Base.Harness Base.StrFacts Model.C29.
From PlzV Require Gen.CasFs.
From Coq Require Import Lia List Arith.
Import ListNotations.

(* ---- the tie to the source (regenerated on every run by gotrans CasFs) ---- *)
Lemma gen_tie :
  Gen.CasFs.find_order = ["Directories"; "Files"; "Symlinks"]%string
  /\ Gen.CasFs.readdir_order = ["Directories"; "Files"; "Symlinks"]%string
  /\ max_symlinks = Gen.CasFs.max_symlinks.
Proof. repeat split; reflexivity. Qed.

(* ============================================================================================
   A. ReadDir paging *)

Lemma skipn_nil_iff {A} (l : list A) n : skipn n l = [] <-> length l <= n.
Proof.
  revert n; induction l as [|x l IH]; intros [|n]; cbn [skipn length]; split; intro H;
    try reflexivity; try lia; try discriminate.
  - apply IH in H. lia.
  - apply IH. lia.
Qed.

(* One call: the page is exactly the entries between the old and the new offset. *)
Lemma readdir_spec all off n :
  off <= length all ->
  let '((pg, eof), off') := readdir all off n in
  off <= off' <= length all
  /\ pg = firstn (off' - off) (skipn off all)
  /\ ((n <= 0)%Z -> off' = length all /\ eof = false)
  /\ ((0 < n)%Z -> (eof = true <-> off = length all) /\ (eof = true -> pg = [])
                  /\ length pg <= Z.to_nat n /\ (off < length all -> pg <> [])).
Proof.
  intros Hoff. unfold readdir.
  destruct (Z.leb_spec n 0) as [Hn|Hn].
  - repeat split; try lia.
    + rewrite firstn_all2; [reflexivity|]. rewrite skipn_length. lia.
  - destruct (skipn off all) as [|x rest] eqn:Hs.
    + apply skipn_nil_iff in Hs. assert (off = length all) by lia. subst off.
      repeat split; try lia; try reflexivity.
      * rewrite Nat.sub_diag. reflexivity.
      * intros _. cbn. lia.
    + assert (Hlt : off < length all).
      { destruct (Nat.lt_ge_cases off (length all)) as [H|H]; [exact H|].
        apply skipn_nil_iff in H. congruence. }
      assert (Hlen : length (x :: rest) = length all - off) by (rewrite <- Hs; apply skipn_length).
      assert (Hpg : length (firstn (Z.to_nat n) (x :: rest)) = Nat.min (Z.to_nat n) (length all - off))
        by (rewrite firstn_length; lia).
      repeat split; try lia.
      * f_equal. lia.
      * discriminate.
      * intros; lia.
      * discriminate.
      * intros _ Hnil. rewrite Hnil in Hpg. cbn in Hpg. lia.
Qed.

Lemma readdir_eof_stays all n : (0 < n)%Z -> readdir all (length all) n = (([], true), length all).
Proof.
  intros Hn. unfold readdir. destruct (Z.leb_spec n 0); [lia|].
  rewrite (proj2 (skipn_nil_iff all (length all))); [reflexivity|lia].
Qed.

(* final offset of a call sequence *)
Fixpoint readdir_off (all : list info) (off : nat) (ns : list Z) : nat :=
  match ns with
  | [] => off
  | n :: r => readdir_off all (snd (readdir all off n)) r
  end.

(* Any sequence of calls, any mixture of n: what has been returned so far is exactly the
   entries below the current offset - nothing is repeated, skipped or reordered. *)
Lemma readdir_seq_prefix all ns : forall off, off <= length all ->
  off <= readdir_off all off ns <= length all
  /\ concat (map fst (readdir_seq all off ns)) = firstn (readdir_off all off ns - off) (skipn off all).
Proof.
  induction ns as [|n ns IH]; intros off Hoff; cbn [readdir_seq readdir_off].
  - split; [lia|]. rewrite Nat.sub_diag. reflexivity.
  - pose proof (readdir_spec all off n Hoff) as Hs.
    destruct (readdir all off n) as [[pg eof] off'] eqn:Hr. cbn [snd].
    destruct Hs as ((Hlo & Hhi) & Hpg & _).
    destruct (IH off' Hhi) as ((Hlo' & Hhi') & Hcat).
    split; [lia|]. cbn [map fst concat]. rewrite Hcat, Hpg.
    set (o2 := readdir_off all off' ns) in *.
    replace (o2 - off) with ((off' - off) + (o2 - off')) by lia.
    replace (skipn off' all) with (skipn (off' - off) (skipn off all)).
    2:{ rewrite skipn_skipn. f_equal. lia. }
    remember (skipn off all) as l. clear.
    revert l; induction (off' - off) as [|k IHk]; intros l; cbn [firstn skipn Nat.add]; [reflexivity|].
    destruct l; cbn [firstn skipn app]; [rewrite firstn_nil; reflexivity|]. f_equal. apply IHk.
Qed.

(* Paging with a fixed n > 0 until io.EOF *)
Fixpoint drain (all : list info) (off : nat) (n : Z) (fuel : nat) : list info * bool :=
  match fuel with
  | O => ([], false)
  | S f => let '((pg, eof), off') := readdir all off n in
           if eof then ([], true)
           else let '(r, e) := drain all off' n f in (pg ++ r, e)
  end.

Lemma drain_all all n : (0 < n)%Z -> forall fuel off, off <= length all -> length all - off < fuel ->
  drain all off n fuel = (skipn off all, true).
Proof.
  intros Hn. induction fuel as [|f IH]; intros off Hoff Hf; [lia|].
  cbn [drain]. pose proof (readdir_spec all off n Hoff) as Hs.
  destruct (readdir all off n) as [[pg eof] off'] eqn:Hr.
  destruct Hs as ((Hlo & Hhi) & Hpg & _ & Hpos). destruct (Hpos Hn) as (Heof & Hnil & Hlen & Hne).
  destruct eof.
  - assert (off = length all) by (apply Heof; reflexivity). subst off.
    rewrite (proj2 (skipn_nil_iff all (length all))); [reflexivity|lia].
  - assert (off < length all).
    { destruct (Nat.eq_dec off (length all)) as [E|E]; [|lia]. apply Heof in E. discriminate. }
    assert (off < off').
    { destruct (Nat.eq_dec off off') as [E|E]; [|lia]. subst off'. rewrite Nat.sub_diag in Hpg.
      cbn in Hpg. exfalso. apply (Hne H). exact Hpg. }
    rewrite IH by lia. rewrite Hpg. f_equal.
    replace (skipn off' all) with (skipn (off' - off) (skipn off all)).
    2:{ rewrite skipn_skipn. f_equal. lia. }
    apply firstn_skipn.
Qed.
