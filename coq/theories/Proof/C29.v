(* C29 - proofs about the model of the CAS-backed filesystem view (Model/C29.v). *)
From Coq Require Import String Lia Arith.
From PlzV Require Import Base.Harness Base.StrFacts Model.C29.
From PlzV Require Gen.CasFs.

(* ---- the tie to the source (regenerated on every run by gotrans CasFs) ---- *)
Lemma gen_tie :
  Gen.CasFs.find_order = ["Directories"; "Files"; "Symlinks"]%string
  /\ Gen.CasFs.readdir_order = ["Directories"; "Files"; "Symlinks"]%string
  /\ max_symlinks = Gen.CasFs.max_symlinks.
Proof. repeat split; reflexivity. Qed.

(* ============================================================================================
   A. ReadDir paging *)

Lemma skipn_nil_iff {A} (l : list A) n : skipn n l = [] <-> length l <= n.
Proof.
  revert n; induction l as [|x l IH]; intros [|n]; cbn [skipn length]; split; intro H;
    try reflexivity; try lia; try discriminate.
  - apply IH in H. lia.
  - apply IH. lia.
Qed.

Lemma skipn_add {A} (l : list A) a b : skipn a (skipn b l) = skipn (b + a) l.
Proof.
  revert l; induction b as [|b IH]; intros l; cbn [skipn Nat.add]; [reflexivity|].
  destruct l; [destruct a; reflexivity|]. apply IH.
Qed.

Lemma readdir_nonpos all off n : (n <= 0)%Z -> readdir all off n = ((skipn off all, false), length all).
Proof. intros Hn. unfold readdir. destruct (Z.leb_spec n 0); [reflexivity|lia]. Qed.

Lemma readdir_pos_eof all off n : (0 < n)%Z -> length all <= off -> readdir all off n = (([], true), off).
Proof.
  intros Hn Hoff. unfold readdir. destruct (Z.leb_spec n 0); [lia|].
  rewrite (proj2 (skipn_nil_iff all off) Hoff). reflexivity.
Qed.

Lemma readdir_pos_page all off n : (0 < n)%Z -> off < length all ->
  readdir all off n = ((firstn (Z.to_nat n) (skipn off all), false),
                       off + Nat.min (Z.to_nat n) (length all - off)).
Proof.
  intros Hn Hoff. unfold readdir. destruct (Z.leb_spec n 0); [lia|].
  destruct (skipn off all) as [|x rest] eqn:Hs.
  - apply skipn_nil_iff in Hs. lia.
  - rewrite <- Hs. rewrite firstn_length, skipn_length. reflexivity.
Qed.

(* One call: the page is exactly the entries between the old and the new offset. *)
Lemma readdir_spec all off n :
  off <= length all ->
  forall pg eof off', readdir all off n = ((pg, eof), off') ->
  off <= off' <= length all
  /\ pg = firstn (off' - off) (skipn off all)
  /\ ((n <= 0)%Z -> off' = length all /\ eof = false)
  /\ ((0 < n)%Z -> (eof = true <-> off = length all) /\ (eof = true -> pg = [])
                  /\ length pg <= Z.to_nat n /\ (off < length all -> pg <> [])).
Proof.
  intros Hoff pg eof off' Hr.
  destruct (Z.leb_spec n 0) as [Hn|Hn].
  - rewrite readdir_nonpos in Hr by exact Hn. inversion Hr; subst.
    split; [lia|]. split.
    + rewrite firstn_all2; [reflexivity|]. rewrite skipn_length. lia.
    + split; [intros _; split; reflexivity | intros; lia].
  - destruct (Nat.eq_dec off (length all)) as [E|E].
    + rewrite readdir_pos_eof in Hr by lia. inversion Hr; subst off' pg eof.
      split; [lia|]. split; [rewrite Nat.sub_diag; reflexivity|].
      split; [intros; lia|]. intros _. split; [tauto|]. split; [reflexivity|].
      split; [cbn; lia | intros; lia].
    + assert (Hlt : off < length all) by lia.
      rewrite readdir_pos_page in Hr by assumption. inversion Hr; subst off' pg eof.
      split; [lia|]. split.
      * replace (off + Nat.min (Z.to_nat n) (length all - off) - off) with (Nat.min (Z.to_nat n) (length all - off)) by lia.
        rewrite <- (skipn_length off all). remember (skipn off all) as l. remember (Z.to_nat n) as k. clear.
        revert l; induction k as [|k IH]; intros [|x l]; cbn [firstn length Nat.min]; try reflexivity.
        f_equal. apply IH.
      * split; [intros; lia|]. intros _. split; [split; [discriminate|intros; lia]|].
        split; [discriminate|]. split.
        -- rewrite firstn_length. lia.
        -- intros _ Hnil. apply (f_equal (@length _)) in Hnil. rewrite firstn_length, skipn_length in Hnil.
           cbn in Hnil. lia.
Qed.

Lemma readdir_eof_stays all n : (0 < n)%Z -> readdir all (length all) n = (([], true), length all).
Proof.
  intros Hn. unfold readdir. destruct (Z.leb_spec n 0); [lia|].
  rewrite (proj2 (skipn_nil_iff all (length all))); [reflexivity|lia].
Qed.

(* final offset of a call sequence *)
Fixpoint readdir_off (all : list info) (off : nat) (ns : list Z) : nat :=
  match ns with
  | [] => off
  | n :: r => readdir_off all (snd (readdir all off n)) r
  end.

(* Any sequence of calls, any mixture of n: what has been returned so far is exactly the
   entries below the current offset - nothing is repeated, skipped or reordered. *)
Lemma readdir_seq_prefix all ns : forall off, off <= length all ->
  off <= readdir_off all off ns <= length all
  /\ concat (map fst (readdir_seq all off ns)) = firstn (readdir_off all off ns - off) (skipn off all).
Proof.
  induction ns as [|n ns IH]; intros off Hoff; cbn [readdir_seq readdir_off].
  - split; [lia|]. rewrite Nat.sub_diag. reflexivity.
  - destruct (readdir all off n) as [[pg eof] off'] eqn:Hr. cbn [snd].
    destruct (readdir_spec all off n Hoff _ _ _ Hr) as ((Hlo & Hhi) & Hpg & _).
    destruct (IH off' Hhi) as ((Hlo' & Hhi') & Hcat).
    split; [lia|]. cbn [map fst concat]. rewrite Hcat, Hpg.
    set (o2 := readdir_off all off' ns) in *.
    replace (o2 - off) with ((off' - off) + (o2 - off')) by lia.
    replace (skipn off' all) with (skipn (off' - off) (skipn off all)).
    2:{ rewrite skipn_add. f_equal. lia. }
    remember (skipn off all) as l. clear.
    revert l; induction (off' - off) as [|k IHk]; intros l; cbn [firstn skipn Nat.add]; [reflexivity|].
    destruct l; cbn [firstn skipn app]; [rewrite firstn_nil; reflexivity|]. f_equal. apply IHk.
Qed.

(* Paging with a fixed n > 0 until io.EOF *)
Fixpoint drain (all : list info) (off : nat) (n : Z) (fuel : nat) : list info * bool :=
  match fuel with
  | O => ([], false)
  | S f => let '((pg, eof), off') := readdir all off n in
           if eof then ([], true)
           else let '(r, e) := drain all off' n f in (pg ++ r, e)
  end.

Lemma drain_all all n : (0 < n)%Z -> forall fuel off, off <= length all -> length all - off < fuel ->
  drain all off n fuel = (skipn off all, true).
Proof.
  intros Hn. induction fuel as [|f IH]; intros off Hoff Hf; [lia|].
  cbn [drain]. destruct (readdir all off n) as [[pg eof] off'] eqn:Hr.
  destruct (readdir_spec all off n Hoff _ _ _ Hr) as ((Hlo & Hhi) & Hpg & _ & Hpos). destruct (Hpos Hn) as (Heof & Hnil & Hlen & Hne).
  destruct eof.
  - assert (off = length all) by (apply Heof; reflexivity). subst off.
    rewrite (proj2 (skipn_nil_iff all (length all))); [reflexivity|lia].
  - assert (off < length all).
    { destruct (Nat.eq_dec off (length all)) as [E|E]; [|lia]. apply Heof in E. discriminate. }
    assert (off < off').
    { destruct (Nat.eq_dec off off') as [E|E]; [|lia]. subst off'. rewrite Nat.sub_diag in Hpg.
      cbn in Hpg. exfalso. apply (Hne H). exact Hpg. }
    rewrite IH by lia. rewrite Hpg. f_equal.
    replace (skipn off' all) with (skipn (off' - off) (skipn off all)).
    2:{ rewrite skipn_add. f_equal. lia. }
    apply firstn_skipn.
Qed.

(* ============================================================================================
   B. path/filepath on well-formed relative paths *)

Definition noslash (x : str) : Prop := ~ In slash x.
Definition valid_name (x : str) : Prop := x <> [] /\ noslash x /\ x <> dot /\ x <> dotdot.

Lemma split_nonnil p : split p <> [].
Proof.
  induction p as [|c r IH]; cbn [split]; [discriminate|].
  destruct (N.eqb c slash); [discriminate|]. destruct (split r); discriminate.
Qed.

Lemma split_app a b : split (a ++ slash :: b) = split a ++ split b.
Proof.
  induction a as [|c a IH]; cbn [app split].
  - rewrite N.eqb_refl. reflexivity.
  - destruct (N.eqb c slash); [rewrite IH; reflexivity|].
    rewrite IH. pose proof (split_nonnil a) as Hn. destruct (split a); [congruence|]. reflexivity.
Qed.

Lemma split_noslash x : noslash x -> split x = [x].
Proof.
  unfold noslash. induction x as [|c x IH]; intros H; cbn [split]; [reflexivity|].
  destruct (N.eqb_spec c slash) as [E|E]; [exfalso; apply H; left; auto|].
  rewrite IH; [reflexivity|]. intros Hin. apply H. right. exact Hin.
Qed.

Lemma joinp_cons x segs : segs <> [] -> joinp (x :: segs) = x ++ slash :: joinp segs.
Proof. destruct segs; [congruence|reflexivity]. Qed.

Lemma joinp_snoc ds x : ds <> [] -> joinp (ds ++ [x]) = joinp ds ++ slash :: x.
Proof.
  induction ds as [|d ds IH]; [congruence|]. intros _.
  destruct ds as [|d' ds]; [reflexivity|].
  change ((d :: d' :: ds) ++ [x]) with (d :: ((d' :: ds) ++ [x])).
  rewrite joinp_cons by (intro HH; discriminate HH). rewrite IH by discriminate.
  rewrite (joinp_cons d (d' :: ds)) by discriminate. rewrite <- app_assoc. reflexivity.
Qed.

Lemma split_joinp segs : Forall noslash segs -> segs <> [] -> split (joinp segs) = segs.
Proof.
  induction segs as [|x segs IH]; [congruence|]. intros Hall _.
  inversion Hall as [|? ? Hx Hr]; subst.
  destruct segs as [|y segs]; [apply split_noslash; exact Hx|].
  rewrite joinp_cons by discriminate. rewrite split_app, split_noslash by exact Hx.
  rewrite IH by (auto; discriminate). reflexivity.
Qed.

Lemma valid_not_skipped x : valid_name x -> str_eqb x [] || str_eqb x dot = false /\ str_eqb x dotdot = false.
Proof.
  intros (H1 & _ & H2 & H3). split.
  - apply Bool.orb_false_iff. split; apply str_eqb_neq; assumption.
  - apply str_eqb_neq; assumption.
Qed.

Lemma norm_valid rooted segs : Forall valid_name segs -> forall dd st,
  norm rooted dd st segs = (dd, rev segs ++ st).
Proof.
  induction segs as [|x segs IH]; intros Hall dd st; [reflexivity|].
  inversion Hall as [|? ? Hx Hr]; subst. cbn [norm].
  destruct (valid_not_skipped x Hx) as (E1 & E2). rewrite E1, E2.
  rewrite IH by exact Hr. cbn [rev]. rewrite <- app_assoc. reflexivity.
Qed.

Lemma norm_segs_valid rooted segs : Forall valid_name segs -> norm_segs rooted segs = segs.
Proof.
  intros H. unfold norm_segs. rewrite norm_valid by exact H. cbn [repeat app].
  rewrite app_nil_r. apply rev_involutive.
Qed.

Lemma norm_skip_dot rooted dd st segs : norm rooted dd st (dot :: segs) = norm rooted dd st segs.
Proof. reflexivity. Qed.

Lemma norm_app_nil rooted segs : forall dd st, norm rooted dd st (segs ++ [[]]) = norm rooted dd st segs.
Proof.
  induction segs as [|x segs IH]; intros dd st; [reflexivity|].
  cbn [app norm]. destruct (str_eqb x [] || str_eqb x dot); [apply IH|].
  destruct (str_eqb x dotdot); [destruct st; apply IH|apply IH].
Qed.

Definition unsplit (segs : list str) : str := match segs with [] => dot | _ => joinp segs end.

Lemma valid_names_noslash segs : Forall valid_name segs -> Forall noslash segs.
Proof. intros H. eapply Forall_impl; [|exact H]. intros x (_ & Hx & _). exact Hx. Qed.

Lemma joinp_head_not_slash segs : Forall valid_name segs -> segs <> [] ->
  exists c r, joinp segs = c :: r /\ N.eqb c slash = false.
Proof.
  intros Hall Hne. destruct segs as [|x segs]; [congruence|].
  inversion Hall as [|? ? (Hx0 & Hx1 & _) _]; subst.
  destruct x as [|c x]; [congruence|].
  exists c. destruct segs.
  - exists x. split; [reflexivity|]. apply N.eqb_neq. intros E. apply Hx1. left. auto.
  - eexists. split; [reflexivity|]. apply N.eqb_neq. intros E. apply Hx1. left. auto.
Qed.

(* a clean relative path is left alone by Clean ... *)
Lemma clean_joinp segs : Forall valid_name segs -> segs <> [] -> clean (joinp segs) = joinp segs.
Proof.
  intros Hall Hne. destruct (joinp_head_not_slash segs Hall Hne) as (c & r & E & Hc).
  unfold clean. rewrite E, Hc, <- E.
  rewrite split_joinp by (auto using valid_names_noslash).
  rewrite norm_segs_valid by exact Hall. destruct segs; [congruence|reflexivity].
Qed.

(* ... and by Join with the working directory "." *)
Lemma go_join_dot segs : Forall valid_name segs -> segs <> [] -> go_join dot (joinp segs) = joinp segs.
Proof.
  intros Hall Hne. unfold go_join, dot. cbn [app]. unfold clean.
  change (N.eqb 46 slash) with false. cbv iota.
  change (46%N :: slash :: joinp segs) with ([46%N] ++ slash :: joinp segs).
  rewrite split_app. rewrite split_joinp by (auto using valid_names_noslash).
  change (split [46%N]) with [dot]. cbn [app]. unfold norm_segs. rewrite norm_skip_dot.
  fold (norm_segs false segs). rewrite norm_segs_valid by exact Hall.
  destruct segs; [congruence|reflexivity].
Qed.

Lemma go_join_dot_dot : go_join dot dot = dot.
Proof. reflexivity. Qed.

Lemma upto_last_slash_noslash x : noslash x -> upto_last_slash x = [].
Proof.
  unfold noslash. induction x as [|c x IH]; intros H; cbn [upto_last_slash]; [reflexivity|].
  rewrite IH by (intros Hin; apply H; right; exact Hin).
  destruct (N.eqb_spec c slash) as [E|E]; [exfalso; apply H; left; auto|reflexivity].
Qed.

Lemma upto_last_slash_app a x : noslash x -> upto_last_slash (a ++ slash :: x) = a ++ [slash].
Proof.
  intros Hx. induction a as [|c a IH]; cbn [app upto_last_slash].
  - rewrite N.eqb_refl, upto_last_slash_noslash by exact Hx. reflexivity.
  - rewrite IH. destruct (N.eqb c slash); [reflexivity|]. destruct a; reflexivity.
Qed.

(* Dir of a node path = the path of the directory holding the node *)
Lemma go_dir_snoc ds x : Forall valid_name ds -> valid_name x -> go_dir (joinp (ds ++ [x])) = unsplit ds.
Proof.
  intros Hds (_ & Hx & _). unfold go_dir. destruct ds as [|d ds].
  - cbn [app joinp]. rewrite upto_last_slash_noslash by exact Hx. reflexivity.
  - rewrite joinp_snoc by discriminate. rewrite upto_last_slash_app by exact Hx.
    destruct (joinp_head_not_slash (d :: ds) Hds ltac:(discriminate)) as (c & r & E & Hc).
    unfold clean. rewrite E. cbn [app]. rewrite Hc. rewrite app_comm_cons, <- E.
    change (joinp (d :: ds) ++ [slash]) with (joinp (d :: ds) ++ slash :: []).
    rewrite split_app, split_joinp by (auto using valid_names_noslash; discriminate).
    change (split []) with [@nil N]. unfold norm_segs. rewrite norm_app_nil.
    fold (norm_segs false (d :: ds)). rewrite norm_segs_valid by exact Hds. reflexivity.
Qed.

(* Join(Dir(path of a link), target): the directory's elements followed by the target's elements,
   normalised lexically - "resolved relative to its directory" *)
Definition rel_target (ds : list str) (target : str) : list str := norm_segs false (ds ++ split target).

Lemma go_join_target ds target : Forall valid_name ds ->
  go_join (unsplit ds) target = unsplit (rel_target ds target).
Proof.
  intros Hds. unfold rel_target. destruct ds as [|d ds].
  - cbn [unsplit app]. unfold go_join, dot. cbn [app]. unfold clean.
    change (N.eqb 46 slash) with false. cbv iota.
    change (46%N :: slash :: target) with ([46%N] ++ slash :: target).
    rewrite split_app. change (split [46%N]) with [dot]. cbn [app]. unfold norm_segs at 1 2.
    rewrite norm_skip_dot. reflexivity.
  - cbn [unsplit].
    destruct (joinp_head_not_slash (d :: ds) Hds ltac:(discriminate)) as (c & r & E & Hc).
    unfold go_join. rewrite E. cbv iota beta. unfold clean. cbn [app]. rewrite Hc.
    change (c :: r ++ slash :: target) with ((c :: r) ++ slash :: target). rewrite <- E. rewrite split_app, split_joinp by (auto using valid_names_noslash; discriminate).
    reflexivity.
Qed.

(* ============================================================================================
   C. findNode finds exactly the nodes of the tree *)

Definition names (m : mdir) : list str :=
  map d_name (m_dirs m) ++ map f_name (m_files m) ++ map l_name (m_links m).

(* a REAPI Directory: entry names valid and unique across the three lists *)
Definition wf_dir (m : mdir) : Prop := NoDup (names m) /\ Forall valid_name (names m).

(* a REAPI Tree: the root is stored under its digest; every stored directory is well-formed and
   every child digest it mentions is stored *)
Definition wf_tree (t : tree) : Prop :=
  lookup (t_rootdg t) (t_dirs t) = Some (t_root t)
  /\ forall dg m, lookup dg (t_dirs t) = Some m ->
       wf_dir m /\ forall d, In d (m_dirs m) -> exists m', lookup (d_dg d) (t_dirs t) = Some m'.

(* The node of the tree at a path (a list of names) below directory m. *)
Inductive node_at (t : tree) : mdir -> list str -> found -> Prop :=
| NA_file m f : In f (m_files m) -> node_at t m [f_name f] (FFile f)
| NA_link m l : In l (m_links m) -> node_at t m [l_name l] (FLink l)
| NA_dir m d : In d (m_dirs m) -> node_at t m [d_name d] (FDir d)
| NA_step m d m' segs e : In d (m_dirs m) -> lookup (d_dg d) (t_dirs t) = Some m' ->
    node_at t m' segs e -> node_at t m (d_name d :: segs) e.

Lemma find_unique {A} (nm : A -> str) l x :
  In x l -> NoDup (map nm l) -> find (fun y => str_eqb (nm y) (nm x)) l = Some x.
Proof.
  induction l as [|y l IH]; intros Hin Hnd; [contradiction|].
  cbn [find]. inversion Hnd as [|? ? Hny Hnd']; subst. destruct Hin as [->|Hin].
  - rewrite str_eqb_refl. reflexivity.
  - destruct (str_eqb (nm y) (nm x)) eqn:E.
    + apply str_eqb_eq in E. exfalso. apply Hny. rewrite E. apply in_map. exact Hin.
    + apply IH; assumption.
Qed.

Lemma find_absent {A} (nm : A -> str) l name :
  ~ In name (map nm l) -> find (fun y => str_eqb (nm y) name) l = None.
Proof.
  induction l as [|y l IH]; intros H; [reflexivity|]. cbn [find].
  destruct (str_eqb (nm y) name) eqn:E.
  - apply str_eqb_eq in E. exfalso. apply H. left. exact E.
  - apply IH. intros Hin. apply H. right. exact Hin.
Qed.

Lemma find_name {A} (nm : A -> str) l name x :
  find (fun y => str_eqb (nm y) name) l = Some x -> In x l /\ nm x = name.
Proof. intros H. apply find_some in H. destruct H as (Hin & E). apply str_eqb_eq in E. auto. Qed.

Lemma NoDup_app_l {A} (a b : list A) : NoDup (a ++ b) -> NoDup a.
Proof. induction a as [|x a IH]; intros H; [constructor|]. inversion H; subst. constructor; [rewrite in_app_iff in *; tauto|auto]. Qed.
Lemma NoDup_app_r {A} (a b : list A) : NoDup (a ++ b) -> NoDup b.
Proof. induction a as [|x a IH]; intros H; [exact H|]. inversion H; subst. auto. Qed.
Lemma NoDup_app_disj {A} (a b : list A) x : NoDup (a ++ b) -> In x a -> ~ In x b.
Proof.
  induction a as [|y a IH]; intros H Hin; [contradiction|]. inversion H as [|? ? Hn Hnd]; subst.
  destruct Hin as [->|Hin]; [rewrite in_app_iff in Hn; tauto|auto].
Qed.

Section Find.
  Variable t : tree.
  Hypothesis Hwf : wf_tree t.

  Lemma wf_stored dg m : lookup dg (t_dirs t) = Some m -> wf_dir m.
  Proof. intros H. apply (proj2 Hwf) in H. tauto. Qed.

  Lemma wf_child dg m d : lookup dg (t_dirs t) = Some m -> In d (m_dirs m) ->
    exists m', lookup (d_dg d) (t_dirs t) = Some m'.
  Proof. intros H. apply (proj2 Hwf) in H. destruct H as (_ & H). apply H. Qed.

  (* what decide does on the entries of a well-formed directory *)
  Lemma decide_dir wdg m d re htd : wf_dir m -> In d (m_dirs m) ->
    decide t wdg (Some m) (d_name d) re htd =
      if re then ARet (Ok (FDir d)) else ADescend (d_dg d) (lookup (d_dg d) (t_dirs t)).
  Proof.
    intros (Hnd & Hval) Hin. unfold decide.
    assert (Hv : valid_name (d_name d)).
    { rewrite Forall_forall in Hval. apply Hval. unfold names. rewrite in_app_iff. left. apply in_map. exact Hin. }
    destruct Hv as (_ & _ & Hd & Hdd). apply str_eqb_neq in Hd, Hdd. rewrite Hd, Hdd.
    unfold find_dir. rewrite find_unique; [reflexivity|exact Hin|]. apply NoDup_app_l in Hnd. exact Hnd.
  Qed.

  Lemma decide_file wdg m f : wf_dir m -> In f (m_files m) ->
    decide t wdg (Some m) (f_name f) true false = ARet (Ok (FFile f)).
  Proof.
    intros (Hnd & Hval) Hin. unfold decide.
    assert (Hinn : In (f_name f) (map f_name (m_files m))) by (apply in_map; exact Hin).
    assert (Hv : valid_name (f_name f)).
    { rewrite Forall_forall in Hval. apply Hval. unfold names. rewrite !in_app_iff. auto. }
    destruct Hv as (_ & _ & Hd & Hdd). apply str_eqb_neq in Hd, Hdd. rewrite Hd, Hdd.
    unfold find_dir, find_file. rewrite find_absent.
    - rewrite find_unique; [reflexivity|exact Hin|]. apply NoDup_app_r, NoDup_app_l in Hnd. exact Hnd.
    - intros Hc. eapply NoDup_app_disj; [exact Hnd|exact Hc|]. rewrite in_app_iff. auto.
  Qed.

  Lemma decide_link wdg m l : wf_dir m -> In l (m_links m) ->
    decide t wdg (Some m) (l_name l) true false = ARet (Ok (FLink l)).
  Proof.
    intros (Hnd & Hval) Hin. unfold decide.
    assert (Hinn : In (l_name l) (map l_name (m_links m))) by (apply in_map; exact Hin).
    assert (Hv : valid_name (l_name l)).
    { rewrite Forall_forall in Hval. apply Hval. unfold names. rewrite !in_app_iff. auto. }
    destruct Hv as (_ & _ & Hd & Hdd). apply str_eqb_neq in Hd, Hdd. rewrite Hd, Hdd.
    unfold find_dir, find_file, find_link. rewrite find_absent.
    - rewrite find_absent.
      + rewrite find_unique; [reflexivity|exact Hin|]. apply NoDup_app_r, NoDup_app_r in Hnd. exact Hnd.
      + intros Hc. apply NoDup_app_r in Hnd. eapply NoDup_app_disj; [exact Hnd|exact Hc|exact Hinn].
    - intros Hc. eapply NoDup_app_disj; [exact Hnd|exact Hc|]. rewrite in_app_iff. auto.
  Qed.

  (* the bytes of one element are collected up to the next '/' *)
  Lemma walk_name wdg wd x : noslash x -> forall acc p,
    walk t wdg wd acc (x ++ p) = walk t wdg wd (rev x ++ acc) p.
  Proof.
    unfold noslash. induction x as [|c x IH]; intros H acc p; [reflexivity|].
    cbn [app walk rev]. destruct (N.eqb_spec c slash) as [E|E]; [exfalso; apply H; left; auto|].
    rewrite IH by (intros Hin; apply H; right; exact Hin). rewrite <- app_assoc. reflexivity.
  Qed.

  Lemma walk_last wdg wd x : noslash x ->
    walk t wdg wd [] x = match decide t wdg wd x true false with ARet r => r | _ => Err EOther end.
  Proof.
    intros H. rewrite <- (app_nil_r x) at 1. rewrite walk_name by exact H.
    cbn [walk]. rewrite app_nil_r, rev_involutive. reflexivity.
  Qed.

  Lemma walk_elem wdg wd x p : noslash x ->
    walk t wdg wd [] (x ++ slash :: p) =
      match decide t wdg wd x (match p with [] => true | _ => false end) true with
      | ARet r => r
      | ADescend dg m => walk t dg m [] p
      | AStay => walk t wdg wd [] p
      end.
  Proof.
    intros H. rewrite walk_name by exact H. cbn [walk]. rewrite N.eqb_refl, app_nil_r, rev_involutive.
    reflexivity.
  Qed.

  Lemma node_at_valid m segs e : forall dg, lookup dg (t_dirs t) = Some m -> node_at t m segs e ->
    Forall valid_name segs /\ segs <> [].
  Proof.
    intros dg Hm Hn. revert dg Hm. induction Hn; intros dg Hm;
      pose proof (wf_stored _ _ Hm) as (_ & Hval); rewrite Forall_forall in Hval.
    - split; [|discriminate]. constructor; [|constructor]. apply Hval. unfold names. rewrite !in_app_iff. auto using in_map.
    - split; [|discriminate]. constructor; [|constructor]. apply Hval. unfold names. rewrite !in_app_iff. auto using in_map.
    - split; [|discriminate]. constructor; [|constructor]. apply Hval. unfold names. rewrite !in_app_iff. auto using in_map.
    - split; [|discriminate]. constructor.
      + apply Hval. unfold names. rewrite !in_app_iff. auto using in_map.
      + eapply IHHn. eassumption.
  Qed.

  Lemma joinp_valid_nonnil segs : Forall valid_name segs -> segs <> [] -> joinp segs <> [].
  Proof.
    intros H Hne E. destruct (joinp_head_not_slash segs H Hne) as (c & r & E' & _). congruence.
  Qed.

  (* completeness: every node of the tree is found under its path *)
  Lemma find_complete m segs e : forall dg, lookup dg (t_dirs t) = Some m -> node_at t m segs e ->
    walk t dg (Some m) [] (joinp segs) = Ok e.
  Proof.
    intros dg Hm Hn. revert dg Hm. induction Hn; intros dg Hm; pose proof (wf_stored _ _ Hm) as Hwd.
    - cbn [joinp]. rewrite walk_last, decide_file; auto.
      destruct Hwd as (_ & Hval). rewrite Forall_forall in Hval.
      apply Hval. unfold names. rewrite !in_app_iff. auto using in_map.
    - cbn [joinp]. rewrite walk_last, decide_link; auto.
      destruct Hwd as (_ & Hval). rewrite Forall_forall in Hval.
      apply Hval. unfold names. rewrite !in_app_iff. auto using in_map.
    - cbn [joinp]. rewrite walk_last, decide_dir; auto.
      destruct Hwd as (_ & Hval). rewrite Forall_forall in Hval.
      apply Hval. unfold names. rewrite !in_app_iff. auto using in_map.
    - destruct (node_at_valid _ _ _ _ H0 Hn) as (Hv & Hne).
      rewrite joinp_cons by exact Hne. rewrite walk_elem.
      + rewrite decide_dir by assumption.
        pose proof (joinp_valid_nonnil segs Hv Hne) as Hj. destruct (joinp segs) eqn:Ej; [congruence|].
        rewrite H0. eapply IHHn. exact H0.
      + destruct Hwd as (_ & Hval). rewrite Forall_forall in Hval.
        apply Hval. unfold names. rewrite !in_app_iff. auto using in_map.
  Qed.

  (* soundness: whatever is found under a valid path is the tree's node there; otherwise
     ErrNotExist; never a panic *)
  Lemma find_sound segs : Forall valid_name segs -> segs <> [] ->
    forall dg m, lookup dg (t_dirs t) = Some m ->
    (exists e, walk t dg (Some m) [] (joinp segs) = Ok e /\ node_at t m segs e)
    \/ (walk t dg (Some m) [] (joinp segs) = Err ENotExist /\ forall e, ~ node_at t m segs e).
  Proof.
    induction segs as [|x segs IH]; [congruence|]. intros Hall _ dg m Hm.
    inversion Hall as [|? ? Hx Hr]; subst.
    pose proof Hx as (Hx0 & Hx1 & Hx2 & Hx3). apply str_eqb_neq in Hx2, Hx3.
    pose proof (wf_stored _ _ Hm) as Hwd. pose proof Hwd as (Hnd & Hval).
    destruct segs as [|y segs].
    - cbn [joinp]. rewrite walk_last by exact Hx1. unfold decide. rewrite Hx2, Hx3.
      destruct (find_dir x (m_dirs m)) as [d|] eqn:Ed.
      { apply find_name in Ed. destruct Ed as (Hin & <-). left. eexists. split; [reflexivity|]. constructor. exact Hin. }
      destruct (find_file x (m_files m)) as [f|] eqn:Ef.
      { apply find_name in Ef. destruct Ef as (Hin & <-). left. eexists. split; [reflexivity|]. constructor. exact Hin. }
      destruct (find_link x (m_links m)) as [l|] eqn:El.
      { apply find_name in El. destruct El as (Hin & <-). left. eexists. split; [reflexivity|]. constructor. exact Hin. }
      right. split; [reflexivity|]. intros e Hn. inversion Hn; subst.
      + unfold find_file in Ef. rewrite find_unique in Ef; [discriminate|assumption|].
        apply NoDup_app_r, NoDup_app_l in Hnd. exact Hnd.
      + unfold find_link in El. rewrite find_unique in El; [discriminate|assumption|].
        apply NoDup_app_r, NoDup_app_r in Hnd. exact Hnd.
      + unfold find_dir in Ed. rewrite find_unique in Ed; [discriminate|assumption|].
        apply NoDup_app_l in Hnd. exact Hnd.
      + match goal with H : node_at _ _ [] _ |- _ => inversion H end.
    - rewrite joinp_cons by discriminate. rewrite walk_elem by exact Hx1.
      pose proof (joinp_valid_nonnil (y :: segs) Hr ltac:(discriminate)) as Hj.
      destruct (joinp (y :: segs)) as [|c0 r0] eqn:Ej; [congruence|].
      unfold decide. rewrite Hx2, Hx3.
      destruct (find_dir x (m_dirs m)) as [d|] eqn:Ed.
      + apply find_name in Ed. destruct Ed as (Hin & <-).
        destruct (wf_child _ _ _ Hm Hin) as (m' & Hm'). rewrite Hm'.
        destruct (IH Hr ltac:(discriminate) _ _ Hm') as [(e & Hw & Hn)|(Hw & Hno)].
        * left. exists e. split; [exact Hw|]. econstructor; eassumption.
        * right. split; [exact Hw|]. intros e Hn. inversion Hn; subst.
          assert (d0 = d).
          { apply NoDup_app_l in Hnd.
            pose proof (find_unique d_name (m_dirs m) d Hin Hnd) as F1.
            pose proof (find_unique d_name (m_dirs m) d0 ltac:(assumption) Hnd) as F2.
            match goal with H : d_name d0 = d_name d |- _ => rewrite H in F2 end. congruence. }
          subst d0. match goal with H : lookup (d_dg d) _ = Some ?mm |- _ => rewrite Hm' in H; inversion H; subst end.
          eapply Hno. eassumption.
      + right. split; [reflexivity|]. intros e Hn. inversion Hn; subst.
        unfold find_dir in Ed. rewrite find_unique in Ed; [discriminate|assumption|].
        apply NoDup_app_l in Hnd. exact Hnd.
  Qed.
End Find.

(* ============================================================================================
   D. Stat, Open and ReadDir return the tree's nodes *)

Definition info_matches (t : tree) (e : found) (i : info) : Prop :=
  match e with
  | FFile f => i = file_info f
  | FLink l => i = link_info l
  | FDir d => exists m', lookup (d_dg d) (t_dirs t) = Some m' /\ i = dir_info (d_name d) m'
  end.

(* what Open returns for a node that is not a symlink *)
Definition open_node (t : tree) (e : found) : res opened :=
  match e with
  | FFile f => match lookup (f_blob f) (t_blobs t) with
               | Some c => Ok (OpFile (file_info f) c)
               | None => Err EBlob
               end
  | FDir d => match lookup (d_dg d) (t_dirs t) with
              | Some m => Ok (OpDir (dir_info (d_name d) m) m)
              | None => Panic
              end
  | FLink _ => Err EOther
  end.

Definition root_node (t : tree) : found := FDir (mk_dnode dot (t_rootdg t)).

(* the node at a path from the root; the empty path is the root itself (reported as ".") *)
Definition node_at0 (t : tree) (segs : list str) (e : found) : Prop :=
  match segs with [] => e = root_node t | _ => node_at t (t_root t) segs e end.

(* following symlinks: each target is taken relative to the directory holding the link *)
Inductive resolves (t : tree) : nat -> list str -> found -> Prop :=
| RV_here segs e : node_at0 t segs e -> (forall l, e <> FLink l) -> resolves t 0 segs e
| RV_link ds x l n e : node_at t (t_root t) (ds ++ [x]) (FLink l) -> is_abs (l_target l) = false ->
    resolves t n (rel_target ds (l_target l)) e -> resolves t (S n) (ds ++ [x]) e.

Lemma with_props_name i p : i_name (with_props i p) = i_name i.
Proof. reflexivity. Qed.

Section View.
  Variable t : tree.
  Hypothesis Hwf : wf_tree t.

  Let Hroot : lookup (t_rootdg t) (t_dirs t) = Some (t_root t) := proj1 Hwf.

  Lemma node_at_dir_stored m segs d : forall dg, lookup dg (t_dirs t) = Some m ->
    node_at t m segs (FDir d) -> exists m', lookup (d_dg d) (t_dirs t) = Some m'.
  Proof.
    intros dg Hm Hn. remember (FDir d) as e eqn:Ee. revert dg Hm. induction Hn; intros dg Hm; try discriminate.
    - inversion Ee; subst. eapply wf_child; eassumption.
    - eapply IHHn; eauto.
  Qed.

  Lemma find_node_complete segs e : node_at t (t_root t) segs e -> find_node t (joinp segs) = Ok e.
  Proof. intros H. unfold find_node. eapply find_complete; eauto. Qed.

  Lemma find_node_dot : find_node t dot = Ok (root_node t).
  Proof. reflexivity. Qed.

  Lemma find_node0_complete segs e : node_at0 t segs e -> find_node t (unsplit segs) = Ok e.
  Proof.
    destruct segs as [|x segs]; cbn [node_at0 unsplit].
    - intros ->. apply find_node_dot.
    - apply find_node_complete.
  Qed.

  Lemma find_node_exact segs : Forall valid_name segs -> segs <> [] ->
    (exists e, find_node t (joinp segs) = Ok e /\ node_at t (t_root t) segs e)
    \/ (find_node t (joinp segs) = Err ENotExist /\ forall e, ~ node_at t (t_root t) segs e).
  Proof. intros H1 H2. unfold find_node. eapply find_sound; eauto. Qed.

  Lemma info_of_node segs e : node_at t (t_root t) segs e ->
    exists i, stat_at t (joinp segs) = Ok i /\ info_matches t e i.
  Proof.
    intros Hn. unfold stat_at. rewrite (find_node_complete _ _ Hn). destruct e as [f|d|l].
    - eexists. split; reflexivity.
    - destruct (node_at_dir_stored _ _ _ _ Hroot Hn) as (m' & Hm'). rewrite Hm'.
      eexists. split; [reflexivity|]. exists m'. auto.
    - eexists. split; reflexivity.
  Qed.

  (* ---- Stat *)
  Lemma stat_faithful w segs e : fs_wd w = dot -> node_at t (t_root t) segs e ->
    exists i, fs_stat t w (joinp segs) = Ok i /\ info_matches t e i.
  Proof.
    intros Hw Hn. destruct (node_at_valid t Hwf _ _ _ _ Hroot Hn) as (Hv & Hne).
    unfold fs_stat. rewrite Hw, go_join_dot by assumption. apply info_of_node. exact Hn.
  Qed.

  Lemma stat_absent w segs : fs_wd w = dot -> Forall valid_name segs -> segs <> [] ->
    (forall e, ~ node_at t (t_root t) segs e) -> fs_stat t w (joinp segs) = Err ENotExist.
  Proof.
    intros Hw Hv Hne Hno. unfold fs_stat, stat_at. rewrite Hw, go_join_dot by assumption.
    destruct (find_node_exact segs Hv Hne) as [(e & _ & Hn)|(E & _)]; [exfalso; eapply Hno; eauto|].
    rewrite E. reflexivity.
  Qed.

  (* ---- Open *)
  Lemma open_at_nonlink fuel p e : find_node t p = Ok e -> (forall l, e <> FLink l) ->
    open_at t fuel p = open_node t e.
  Proof.
    intros Hf Hl. destruct fuel; cbn [open_at]; rewrite Hf; destruct e; try reflexivity; exfalso; eapply Hl; reflexivity.
  Qed.

  Lemma open_at_link fuel p l : find_node t p = Ok (FLink l) ->
    open_at t fuel p =
      if is_abs (l_target l) then Err EAbs
      else match fuel with
           | O => Err ELoop
           | S f => open_at t f (go_join (go_dir p) (l_target l))
           end.
  Proof. intros Hf. destruct fuel; cbn [open_at]; rewrite Hf; reflexivity. Qed.

  (* a symlink is resolved relative to the directory that holds it *)
  Lemma open_link_step fuel ds x l : node_at t (t_root t) (ds ++ [x]) (FLink l) ->
    open_at t fuel (joinp (ds ++ [x])) =
      if is_abs (l_target l) then Err EAbs
      else match fuel with
           | O => Err ELoop
           | S f => open_at t f (unsplit (rel_target ds (l_target l)))
           end.
  Proof.
    intros Hn. rewrite (open_at_link _ _ l) by (apply find_node_complete; exact Hn).
    destruct (node_at_valid t Hwf _ _ _ _ Hroot Hn) as (Hv & _).
    apply Forall_app in Hv. destruct Hv as (Hds & Hx). inversion Hx; subst.
    rewrite go_dir_snoc, go_join_target by assumption. reflexivity.
  Qed.

  Lemma open_resolves n segs e : resolves t n segs e -> forall fuel, n <= fuel ->
    open_at t fuel (unsplit segs) = open_node t e.
  Proof.
    induction 1 as [segs e Hn Hl | ds x l n e Hn Habs Hr IH]; intros fuel Hfuel.
    - apply open_at_nonlink; [apply find_node0_complete; exact Hn | exact Hl].
    - destruct fuel as [|f]; [lia|].
      replace (unsplit (ds ++ [x])) with (joinp (ds ++ [x])) by (destruct ds; reflexivity).
      rewrite (open_link_step _ _ _ l) by exact Hn. rewrite Habs. apply IH. lia.
  Qed.

  (* the final node of a resolution is opened with the tree's data: a file with its blob, a
     directory with the stored Directory message *)
  Lemma open_node_ok segs e : node_at0 t segs e -> (forall l, e <> FLink l) ->
    match e with
    | FFile f => open_node t e = match lookup (f_blob f) (t_blobs t) with
                                 | Some c => Ok (OpFile (file_info f) c) | None => Err EBlob end
    | FDir d => exists m', lookup (d_dg d) (t_dirs t) = Some m'
                           /\ open_node t e = Ok (OpDir (dir_info (d_name d) m') m')
    | FLink _ => False
    end.
  Proof.
    intros Hn Hl. destruct e as [f|d|l]; [reflexivity| |eapply Hl; reflexivity].
    assert (exists m', lookup (d_dg d) (t_dirs t) = Some m') as (m' & Hm').
    { destruct segs; cbn [node_at0] in Hn.
      - inversion Hn; subst. cbn [d_dg]. eauto.
      - eapply node_at_dir_stored; eauto. }
    exists m'. split; [exact Hm'|]. cbn [open_node]. rewrite Hm'. reflexivity.
  Qed.

  (* dangling and escaping links: ErrNotExist *)
  Lemma open_dangling f ds x l : node_at t (t_root t) (ds ++ [x]) (FLink l) -> is_abs (l_target l) = false ->
    Forall valid_name (rel_target ds (l_target l)) -> rel_target ds (l_target l) <> [] ->
    (forall e, ~ node_at t (t_root t) (rel_target ds (l_target l)) e) ->
    open_at t (S f) (joinp (ds ++ [x])) = Err ENotExist.
  Proof.
    intros Hn Habs Hv Hne Hno. rewrite (open_link_step _ _ _ l) by exact Hn. rewrite Habs.
    destruct (find_node_exact _ Hv Hne) as [(e & _ & Hn')|(E & _)]; [exfalso; eapply Hno; eauto|].
    destruct (rel_target ds (l_target l)) eqn:Er; [congruence|]. cbn [unsplit].
    destruct f; cbn [open_at]; rewrite E; reflexivity.
  Qed.

  Lemma find_node_dotdot rest : find_node t (joinp (dotdot :: rest)) = Err ENotExist.
  Proof.
    unfold find_node. destruct rest as [|y rest].
    - reflexivity.
    - rewrite joinp_cons by discriminate. rewrite walk_elem; [reflexivity|].
      intros [H|[H|[]]]; discriminate H.
  Qed.

  Lemma open_escape f ds x l rest : node_at t (t_root t) (ds ++ [x]) (FLink l) -> is_abs (l_target l) = false ->
    rel_target ds (l_target l) = dotdot :: rest ->
    open_at t (S f) (joinp (ds ++ [x])) = Err ENotExist.
  Proof.
    intros Hn Habs Er. rewrite (open_link_step _ _ _ l) by exact Hn. rewrite Habs, Er. cbn [unsplit].
    destruct f; cbn [open_at]; rewrite find_node_dotdot; reflexivity.
  Qed.

  (* ---- ReadDir(-1): exactly the entries of the directory *)
  Lemma dir_entries_ok ds : (forall d, In d ds -> exists m', lookup (d_dg d) (t_dirs t) = Some m') ->
    exists L, dir_entries t ds = Ok L /\ map i_name L = map d_name ds
      /\ forall i, In i L -> exists d m', In d ds /\ lookup (d_dg d) (t_dirs t) = Some m' /\ i = dir_info (d_name d) m'.
  Proof.
    induction ds as [|d ds IH]; intros H.
    - exists []. split; [reflexivity|]. split; [reflexivity|]. intros i [].
    - destruct (H d (or_introl eq_refl)) as (m' & Hm').
      destruct IH as (L & HL & Hnames & Hin); [intros; apply H; right; assumption|].
      exists (dir_info (d_name d) m' :: L). cbn [dir_entries]. rewrite Hm', HL. split; [reflexivity|]. split.
      + cbn [map]. rewrite Hnames. reflexivity.
      + intros i [Hi|Hi].
        * subst i. exists d, m'. split; [left; reflexivity|]. split; [assumption|reflexivity].
        * destruct (Hin i Hi) as (d' & m'' & H1 & H2 & H3). exists d', m''.
          split; [right; assumption|]. split; assumption.
  Qed.

  Lemma listing_exact dg m : lookup dg (t_dirs t) = Some m ->
    exists L, listing t m = Ok L
      /\ map i_name L = names m
      /\ forall i, In i L -> exists e, node_at t m [i_name i] e /\ info_matches t e i.
  Proof.
    intros Hm. destruct (dir_entries_ok (m_dirs m)) as (L & HL & Hnames & Hin).
    { intros d Hd. eapply wf_child; eauto. }
    exists (L ++ map file_info (m_files m) ++ map link_info (m_links m)).
    unfold listing. rewrite HL. split; [reflexivity|]. split.
    - unfold names. rewrite !map_app, Hnames, !map_map. reflexivity.
    - intros i Hi. rewrite !in_app_iff in Hi. destruct Hi as [Hi|[Hi|Hi]].
      + destruct (Hin i Hi) as (d & m' & Hd & Hm' & ->). exists (FDir d). split.
        * unfold dir_info. rewrite with_props_name. cbn [i_name]. constructor. exact Hd.
        * exists m'. auto.
      + apply in_map_iff in Hi. destruct Hi as (f & <- & Hf). exists (FFile f). split; [|reflexivity].
        unfold file_info. rewrite with_props_name. cbn [i_name]. constructor. exact Hf.
      + apply in_map_iff in Hi. destruct Hi as (l & <- & Hl). exists (FLink l). split; [|reflexivity].
        unfold link_info. rewrite with_props_name. cbn [i_name]. constructor. exact Hl.
  Qed.

  Lemma node_at_snoc m segs d m' x e : node_at t m segs (FDir d) -> lookup (d_dg d) (t_dirs t) = Some m' ->
    node_at t m' [x] e -> node_at t m (segs ++ [x]) e.
  Proof.
    intros Hn. remember (FDir d) as e0 eqn:Ee. induction Hn; intros Hm' Hc; try discriminate.
    - inversion Ee; subst. cbn [app]. econstructor; eassumption.
    - cbn [app]. econstructor; eauto.
  Qed.

  (* ==========================================================================================
     E. nothing crashes; symlink loops and absolute links are errors *)

  Lemma decide_safe dg m name re htd : lookup dg (t_dirs t) = Some m ->
    match decide t dg (Some m) name re htd with
    | ARet (Ok (FDir d)) => exists m', lookup (d_dg d) (t_dirs t) = Some m'
    | ARet (Ok _) => True
    | ARet (Err e) => e = ENotExist
    | ARet Panic => False
    | ADescend dg' mo => re = false /\ exists m', mo = Some m' /\ lookup dg' (t_dirs t) = Some m'
    | AStay => re = false
    end.
  Proof.
    intros Hm. unfold decide. destruct (str_eqb name dot).
    { destruct re; [|reflexivity]. cbn [d_dg]. eauto. }
    destruct (str_eqb name dotdot); [reflexivity|].
    destruct (find_dir name (m_dirs m)) as [d|] eqn:Ed.
    { apply find_name in Ed. destruct Ed as (Hin & _). destruct (wf_child t Hwf _ _ _ Hm Hin) as (m' & Hm').
      destruct re; [eauto|]. split; [reflexivity|]. eauto. }
    destruct htd; [reflexivity|].
    destruct (find_file name (m_files m)); [exact I|].
    destruct (find_link name (m_links m)); [exact I|reflexivity].
  Qed.

  Definition safe_found (r : res found) : Prop :=
    match r with
    | Ok (FDir d) => exists m', lookup (d_dg d) (t_dirs t) = Some m'
    | Ok _ => True
    | Err e => e = ENotExist
    | Panic => False
    end.

  (* for EVERY byte string p *)
  Lemma walk_safe p : forall dg m acc, lookup dg (t_dirs t) = Some m -> safe_found (walk t dg (Some m) acc p).
  Proof.
    induction p as [|c p IH]; intros dg m acc Hm; cbn [walk].
    - pose proof (decide_safe dg m (rev acc) true false Hm) as H.
      destruct (decide t dg (Some m) (rev acc) true false) as [r|dg' mo|].
      + destruct r as [[f|d|l]|e|]; exact H.
      + destruct H as (H & _). discriminate H.
      + discriminate H.
    - destruct (N.eqb c slash); [|apply IH; exact Hm].
      pose proof (decide_safe dg m (rev acc) (match p with [] => true | _ => false end) true Hm) as H.
      destruct (decide t dg (Some m) (rev acc) (match p with [] => true | _ => false end) true) as [r|dg' mo|].
      + destruct r as [[f|d|l]|e|]; exact H.
      + destruct H as (_ & m' & -> & Hm'). apply IH. exact Hm'.
      + apply IH. exact Hm.
  Qed.

  Lemma find_node_safe p : safe_found (find_node t p).
  Proof. apply walk_safe. exact Hroot. Qed.

  Definition clean_result {A} (r : res A) : Prop := match r with Panic => False | _ => True end.

  Lemma open_no_panic fuel : forall p, clean_result (open_at t fuel p).
  Proof.
    induction fuel as [|f IH]; intros p; cbn [open_at]; pose proof (find_node_safe p) as H;
      destruct (find_node t p) as [[fl|d|l]|e|]; cbn [safe_found] in H; try exact I; try contradiction.
    - destruct (lookup (f_blob fl) (t_blobs t)); exact I.
    - destruct H as (m' & ->). exact I.
    - destruct (is_abs (l_target l)); exact I.
    - destruct (lookup (f_blob fl) (t_blobs t)); exact I.
    - destruct H as (m' & ->). exact I.
    - destruct (is_abs (l_target l)); [exact I|apply IH].
  Qed.

  Lemma stat_no_panic p : clean_result (stat_at t p).
  Proof.
    unfold stat_at. pose proof (find_node_safe p) as H.
    destruct (find_node t p) as [[fl|d|l]|e|]; cbn [safe_found] in H; try exact I; try contradiction.
    destruct H as (m' & ->). exact I.
  Qed.

  Lemma listing_no_panic o i m fuel p : open_at t fuel p = Ok (OpDir i m) -> o = listing t m -> clean_result o.
  Proof.
    intros Ho ->. assert (exists dg, lookup dg (t_dirs t) = Some m) as (dg & Hm).
    { revert p Ho. induction fuel as [|f IH]; intros p; cbn [open_at]; pose proof (find_node_safe p) as H;
        destruct (find_node t p) as [[fl|d|l]|e|]; cbn [safe_found] in H; try discriminate.
      - destruct (lookup (f_blob fl) (t_blobs t)); discriminate.
      - destruct H as (m' & Hm'). rewrite Hm'. intros E. inversion E; subst. eauto.
      - destruct (is_abs (l_target l)); discriminate.
      - destruct (lookup (f_blob fl) (t_blobs t)); discriminate.
      - destruct H as (m' & Hm'). rewrite Hm'. intros E. inversion E; subst. eauto.
      - destruct (is_abs (l_target l)); [discriminate|apply IH]. }
    destruct (listing_exact dg m Hm) as (L & -> & _). exact I.
  Qed.
End View.

(* ---- symlink chains (for ANY tree, well-formed or not) ---- *)
Definition hop (t : tree) (p : str) : option str :=
  match find_node t p with
  | Ok (FLink l) => if is_abs (l_target l) then None else Some (go_join (go_dir p) (l_target l))
  | _ => None
  end.

Fixpoint hops (t : tree) (n : nat) (p : str) : option str :=
  match n with
  | O => Some p
  | S k => match hop t p with Some q => hops t k q | None => None end
  end.

Lemma hops_add t a : forall b p, hops t (a + b) p = match hops t a p with Some q => hops t b q | None => None end.
Proof.
  induction a as [|a IH]; intros b p; cbn [Nat.add hops]; [reflexivity|].
  destruct (hop t p); [apply IH|reflexivity].
Qed.

(* a chain of more than `fuel` symlinks: "too many levels of symbolic links" *)
Lemma open_long_chain t fuel : forall p, hops t (S fuel) p <> None -> open_at t fuel p = Err ELoop.
Proof.
  induction fuel as [|f IH]; intros p H; cbn [hops] in H; unfold hop in H; cbn [open_at];
    destruct (find_node t p) as [[fl|d|l]|e|]; try congruence;
    destruct (is_abs (l_target l)); try congruence.
  apply IH. exact H.
Qed.

(* a symlink loop (p leads, after j links, to a q that leads back to itself) is an error *)
Lemma open_loop t p j k q fuel : hops t j p = Some q -> hops t (S k) q = Some q -> open_at t fuel p = Err ELoop.
Proof.
  intros Hp Hq. apply open_long_chain.
  assert (Hcyc : forall n, hops t (n * S k) q = Some q).
  { induction n as [|n IHn]; [reflexivity|]. cbn [Nat.mul]. rewrite hops_add, Hq. exact IHn. }
  assert (Hall : forall n, hops t n q <> None).
  { intros n E. pose proof (Hcyc n) as C. replace (n * S k) with (n + n * k) in C by lia.
    rewrite hops_add, E in C. discriminate. }
  destruct (Nat.le_gt_cases j (S fuel)) as [Hle|Hgt].
  - replace (S fuel) with (j + (S fuel - j)) by lia. rewrite hops_add, Hp. apply Hall.
  - (* the loop is entered after more than fuel links: p's chain is already too long *)
    replace j with (S fuel + (j - S fuel)) in Hp by lia. rewrite hops_add in Hp.
    intros E. rewrite E in Hp. discriminate.
Qed.

Lemma open_abs t fuel p l : find_node t p = Ok (FLink l) -> is_abs (l_target l) = true -> open_at t fuel p = Err EAbs.
Proof. intros Hf Ha. destruct fuel; cbn [open_at]; rewrite Hf, Ha; reflexivity. Qed.

(* whatever Open returns successfully is a file or directory node reached by following links *)
Lemma open_ok_only t fuel : forall p o, open_at t fuel p = Ok o ->
  exists n q e, n <= fuel /\ hops t n p = Some q /\ find_node t q = Ok e /\ (forall l, e <> FLink l)
                /\ open_node t e = Ok o.
Proof.
  induction fuel as [|f IH]; intros p o; cbn [open_at]; destruct (find_node t p) as [[fl|d|l]|e|] eqn:Ef; try discriminate.
  - intros H. exists 0, p, (FFile fl). repeat split; auto; discriminate.
  - intros H. exists 0, p, (FDir d). repeat split; auto; discriminate.
  - destruct (is_abs (l_target l)); discriminate.
  - intros H. exists 0, p, (FFile fl). repeat split; auto; try lia; discriminate.
  - intros H. exists 0, p, (FDir d). repeat split; auto; try lia; discriminate.
  - destruct (is_abs (l_target l)) eqn:Ea; [discriminate|]. intros H.
    destruct (IH _ _ H) as (n & q & e & Hn & Hh & Hq & Hl & Ho).
    exists (S n), q, e. repeat split; auto; try lia.
    cbn [hops]. unfold hop. rewrite Ef, Ea. exact Hh.
Qed.

(* ============================================================================================
   F. the two io/fs contracts the code does not keep, and what holds instead *)

(* io/fs.ValidPath (without its UTF-8 requirement) *)
Definition valid_elem (x : str) : bool := negb (str_eqb x [] || str_eqb x dot || str_eqb x dotdot).
Definition valid_path (p : str) : bool := str_eqb p dot || forallb valid_elem (split p).

Definition opened_info (o : opened) : info := match o with OpFile i _ => i | OpDir i _ => i end.

(* Stat agrees with Open+Stat whenever the name is not a symlink *)
Lemma stat_open_nonlink t fuel p e o : find_node t p = Ok e -> (forall l, e <> FLink l) ->
  open_at t fuel p = Ok o -> stat_at t p = Ok (opened_info o).
Proof.
  intros Hf Hl Ho. rewrite (open_at_nonlink t fuel p e Hf Hl) in Ho. unfold stat_at. rewrite Hf.
  destruct e as [f|d|l]; cbn [open_node] in Ho.
  - destruct (lookup (f_blob f) (t_blobs t)); inversion Ho; reflexivity.
  - destruct (lookup (d_dg d) (t_dirs t)); inversion Ho; reflexivity.
  - discriminate.
Qed.

(* ---- an executable well-formedness check (for the concrete witnesses) ---- *)
Definition valid_nameb (x : str) : bool :=
  negb (str_eqb x []) && negb (existsb (N.eqb slash) x) && negb (str_eqb x dot) && negb (str_eqb x dotdot).

Fixpoint nodupb (l : list str) : bool :=
  match l with [] => true | x :: r => negb (existsb (str_eqb x) r) && nodupb r end.

Definition wf_dirb (t : tree) (m : mdir) : bool :=
  nodupb (names m) && forallb valid_nameb (names m)
  && forallb (fun d => match lookup (d_dg d) (t_dirs t) with Some _ => true | None => false end) (m_dirs m).

Definition wf_treeb (t : tree) : bool := forallb (fun kv => wf_dirb t (snd kv)) (t_dirs t).

Lemma lookup_In {A} k (l : list (N * A)) v : lookup k l = Some v -> In (k, v) l.
Proof.
  induction l as [|[k' v'] l IH]; cbn [lookup]; [discriminate|].
  destruct (N.eqb_spec k k') as [->|_]; [intros E; inversion E; left; reflexivity|right; auto].
Qed.

Lemma nodupb_sound l : nodupb l = true -> NoDup l.
Proof.
  induction l as [|x l IH]; cbn [nodupb]; intros H; [constructor|].
  apply andb_prop in H. destruct H as (H1 & H2). constructor; [|auto].
  intros Hin. apply Bool.negb_true_iff in H1.
  assert (existsb (str_eqb x) l = true) by (apply existsb_exists; exists x; split; [exact Hin|apply str_eqb_refl]).
  congruence.
Qed.

Lemma valid_nameb_sound x : valid_nameb x = true -> valid_name x.
Proof.
  unfold valid_nameb. intros H. repeat (apply andb_prop in H; destruct H as (H & ?)).
  rewrite Bool.negb_true_iff in *. repeat split.
  - apply str_eqb_neq. assumption.
  - intros Hin. assert (existsb (N.eqb slash) x = true) by (apply existsb_exists; exists slash; split; [exact Hin|apply N.eqb_refl]).
    congruence.
  - apply str_eqb_neq. assumption.
  - apply str_eqb_neq. assumption.
Qed.

Lemma wf_treeb_sound t : lookup (t_rootdg t) (t_dirs t) = Some (t_root t) -> wf_treeb t = true -> wf_tree t.
Proof.
  intros Hr Hb. split; [exact Hr|]. intros dg m Hm. apply lookup_In in Hm.
  unfold wf_treeb in Hb. rewrite forallb_forall in Hb. specialize (Hb _ Hm). cbn [snd] in Hb.
  unfold wf_dirb in Hb. apply andb_prop in Hb. destruct Hb as (Hb & H3). apply andb_prop in Hb. destruct Hb as (H1 & H2).
  split.
  - split; [apply nodupb_sound; exact H1|]. apply Forall_forall. intros x Hx.
    rewrite forallb_forall in H2. apply valid_nameb_sound. auto.
  - intros d Hd. rewrite forallb_forall in H3. specialize (H3 _ Hd).
    destruct (lookup (d_dg d) (t_dirs t)) as [m'|]; [eauto|discriminate].
Qed.

(* ---- a concrete tree:  foo, l -> foo, a -> b, b -> a, abs -> /etc/passwd, up1 -> d/up,
        d/ (f, up -> ../foo, out -> ../../x, dang -> nope) ---- *)
Definition ex_d : mdir :=
  mk_mdir [] [mk_fnode (s "f") 0 4 (Some 420%N, None)]
          [mk_lnode (s "up") (s "../foo") (None, None); mk_lnode (s "out") (s "../../x") (None, None);
           mk_lnode (s "dang") (s "nope") (None, None)] (Some 493%N, Some 1000%Z).
Definition ex_root : mdir :=
  mk_mdir [mk_dnode (s "d") 1] [mk_fnode (s "foo") 1 3 (None, None)]
          [mk_lnode (s "l") (s "foo") (None, None); mk_lnode (s "a") (s "b") (None, None);
           mk_lnode (s "b") (s "a") (None, None); mk_lnode (s "abs") (s "/etc/passwd") (None, None);
           mk_lnode (s "up1") (s "d/up") (None, None)] (None, None).
Definition ex_tree : tree :=
  mk_tree ex_root 0 [(0%N, ex_root); (1%N, ex_d)] [(0%N, s "in f"); (1%N, s "bar")].

Lemma ex_tree_wf : wf_tree ex_tree.
Proof. apply wf_treeb_sound; vm_compute; reflexivity. Qed.

(* 4. "Open should reject names that are not fs.ValidPath" - it does not *)
Definition rejects_invalid_names (t : tree) : Prop :=
  forall w name, valid_path name = false ->
    (exists e, fs_open t w name = Err e) /\ (exists e, fs_stat t w name = Err e).

Lemma invalid_name_accepted : ~ rejects_invalid_names ex_tree.
Proof.
  intros H. destruct (H (WNew dot) (s "/foo") eq_refl) as ((e & He) & _).
  vm_compute in He. discriminate He.
Qed.

(* 5. "Stat is the same as Open+Stat, even for symlinks" - not for symlinks *)
Definition stat_agrees_with_open (t : tree) : Prop :=
  forall w name o, fs_open t w name = Ok o -> fs_stat t w name = Ok (opened_info o).

Lemma stat_of_symlink_differs : ~ stat_agrees_with_open ex_tree.
Proof.
  intros H. specialize (H (WNew dot) (s "l") _ eq_refl). vm_compute in H. discriminate H.
Qed.

(* ============================================================================================
   G. views are values: a history of New / ChangeDir / Open / Stat / ReadDir on any number of
      views never changes what an existing view answers *)

(* the translation of ChangeDir this development is proved for: a new object, every field the
   receiver's but workingDir, which is the parameter as given *)
Lemma gen_chdir_tie :
  Gen.CasFs.chdir_fresh = true /\ Gen.CasFs.chdir_wd = 0
  /\ Gen.CasFs.view_fields = ["c"; "root"; "directories"; "workingDir"]%string.
Proof. repeat split; reflexivity. Qed.

Lemma chdir_wd_param old d : chdir_wd old d = d.
Proof. reflexivity. Qed.

Lemma fs_wd_chdir d : fs_wd (WChdir d) = d.
Proof. reflexivity. Qed.

(* ChangeDir: the store grows by one object, the receiver included is left as it was; the result
   is the handle of the NEW object, whose value is the receiver's Tree at the given directory *)
Lemma step_chdir st h v d : nth_error st h = Some v ->
  step st (VChdir h d) = (st ++ [(fst v, d)], BView (length st)).
Proof.
  intros Hv. cbn [step]. rewrite Hv. change Gen.CasFs.chdir_fresh with true. cbv iota.
  rewrite chdir_wd_param. reflexivity.
Qed.

Lemma step_extends st op : exists ext, fst (step st op) = st ++ ext.
Proof.
  destruct op as [h d|h q].
  - destruct (nth_error st h) as [v|] eqn:Hv.
    + rewrite (step_chdir st h v d Hv). eexists. reflexivity.
    + cbn [step]. rewrite Hv. exists []. cbn [fst]. rewrite app_nil_r. reflexivity.
  - exists []. cbn [step fst]. rewrite app_nil_r. reflexivity.
Qed.

Lemma run_cons st op ops :
  run st (op :: ops) = (fst (run (fst (step st op)) ops), snd (step st op) :: snd (run (fst (step st op)) ops)).
Proof.
  cbn [run]. destruct (step st op) as [st1 ob]. cbn [fst snd]. destruct (run st1 ops) as [st2 obs]. reflexivity.
Qed.

(* invariant over histories: the store only ever grows at its end *)
Lemma run_extends ops : forall st, exists ext, fst (run st ops) = st ++ ext.
Proof.
  induction ops as [|op ops IH]; intros st.
  - exists []. cbn [run fst]. rewrite app_nil_r. reflexivity.
  - rewrite run_cons. cbn [fst]. destruct (step_extends st op) as (e1 & E1). rewrite E1.
    destruct (IH (st ++ e1)) as (e2 & E2). rewrite E2. exists (e1 ++ e2). rewrite app_assoc. reflexivity.
Qed.

Lemma nth_error_app_some {A} (l e : list A) h v : nth_error l h = Some v -> nth_error (l ++ e) h = Some v.
Proof.
  intros H. rewrite nth_error_app1; [exact H|]. apply nth_error_Some. congruence.
Qed.

(* FRAME: whatever is done to whichever view, an existing object keeps its value ... *)
Lemma run_frame st ops h v : nth_error st h = Some v -> nth_error (fst (run st ops)) h = Some v.
Proof.
  intros H. destruct (run_extends ops st) as (ext & ->). apply nth_error_app_some. exact H.
Qed.

(* ... and therefore its answers *)
Lemma ask_frame st pre h v q : nth_error st h = Some v -> ask (fst (run st pre)) h q = answer v q.
Proof. intros H. unfold ask. rewrite (run_frame st pre h v H). reflexivity. Qed.

Lemma ask_frame' st pre h q : h < length st -> ask (fst (run st pre)) h q = ask st h q.
Proof.
  intros H. destruct (nth_error st h) as [v|] eqn:Hv.
  - rewrite (ask_frame st pre h v q Hv). unfold ask. rewrite Hv. reflexivity.
  - apply nth_error_None in Hv. lia.
Qed.

(* the view made by New answers, after ANY history, exactly what fs_open / fs_stat / ReadDir
   of (t, w) say - the functions clauses 1-5 of the statement are about *)
Lemma root_view_stable t w pre q : ask (fst (run [new_view t w] pre)) 0 q = answer (new_view t w) q.
Proof. apply ask_frame. reflexivity. Qed.

Lemma answer_open t w name : answer (new_view t w) (QOpen name) = BOpen (observe t (fs_open t w name)).
Proof. reflexivity. Qed.
Lemma answer_stat t w name : answer (new_view t w) (QStat name) = BStat (fs_stat t w name).
Proof. reflexivity. Qed.

(* the sub-view ChangeDir returns is the view WChdir d, and stays it *)
Lemma sub_view_stable t w pre d post q :
  let st1 := fst (run [new_view t w] pre) in
  step st1 (VChdir 0 d) = (st1 ++ [new_view t (WChdir d)], BView (length st1))
  /\ ask (fst (run (st1 ++ [new_view t (WChdir d)]) post)) (length st1) q = answer (new_view t (WChdir d)) q
  /\ ask (fst (run (st1 ++ [new_view t (WChdir d)]) post)) 0 q = answer (new_view t w) q.
Proof.
  intros st1. assert (H0 : nth_error st1 0 = Some (new_view t w)) by (apply run_frame; reflexivity).
  split; [exact (step_chdir st1 0 _ d H0)|]. split.
  - apply ask_frame. rewrite nth_error_app2 by lia. rewrite Nat.sub_diag. reflexivity.
  - apply ask_frame. apply nth_error_app_some. exact H0.
Qed.

(* every answer given at any time during a history is the answer the same view gives at the end of it *)
Definition stable_obs (st' : store) (op : vop) (ob : vobs) : Prop :=
  ob = BNoView \/
  match op with
  | VAsk h q => ob = ask st' h q
  | VChdir h d => exists h' v, ob = BView h' /\ h' <> h /\ nth_error st' h = Some v
                               /\ nth_error st' h' = Some (fst v, d)
  end.

Lemma answers_stable ops : forall st, Forall2 (stable_obs (fst (run st ops))) ops (snd (run st ops)).
Proof.
  induction ops as [|op ops IH]; intros st; [constructor|].
  rewrite run_cons. cbn [fst snd]. constructor; [|apply IH].
  destruct op as [h d|h q].
  - destruct (nth_error st h) as [v|] eqn:Hv.
    + right. rewrite (step_chdir st h v d Hv). cbn [fst snd].
      exists (length st), v. split; [reflexivity|].
      split; [intros <-; assert (length st < length st) by (apply nth_error_Some; congruence); lia|].
      split; apply run_frame; [apply nth_error_app_some; exact Hv|].
      rewrite nth_error_app2 by lia. rewrite Nat.sub_diag. reflexivity.
    + left. cbn [step]. rewrite Hv. reflexivity.
  - cbn [step fst snd]. unfold ask at 1. destruct (nth_error st h) as [v|] eqn:Hv; [|left; reflexivity].
    right. symmetry. apply ask_frame. exact Hv.
Qed.

Definition views_are_values (t : tree) : Prop :=
  (* the view made by New(c, t, w): after any history it answers as Open/Stat/ReadDir of (t, w) *)
  (forall w pre q, ask (fst (run [new_view t w] pre)) 0 q = answer (new_view t w) q)
  (* any store, any view, any history: an existing view keeps its value and its answers *)
  /\ (forall st pre h v, nth_error st h = Some v ->
        nth_error (fst (run st pre)) h = Some v /\ forall q, ask (fst (run st pre)) h q = answer v q)
  (* ChangeDir returns a NEW view over the receiver's Tree at the given directory; the receiver
     and every other view are untouched *)
  /\ (forall st h v d, nth_error st h = Some v ->
        step st (VChdir h d) = (st ++ [(fst v, d)], BView (length st)))
  (* every observation made during a history is what the same view answers at its end *)
  /\ (forall st ops, Forall2 (stable_obs (fst (run st ops))) ops (snd (run st ops))).

Lemma views_are_values_holds t : views_are_values t.
Proof.
  split; [|split; [|split]].
  - intros w pre q. apply root_view_stable.
  - intros st pre h v Hv. split; [apply run_frame; exact Hv|]. intros q. apply ask_frame. exact Hv.
  - intros st h v d Hv. apply step_chdir. exact Hv.
  - intros st ops. apply answers_stable.
Qed.

(* the statement's clause for the ill case is not vacuous: an in-place ChangeDir WOULD break it *)
Lemma set_nth_breaks_frame t :
  nth_error (set_nth [new_view t (WNew dot)] 0 (t, s "out")) 0 <> Some (new_view t (WNew dot)).
Proof. cbn. intros E. inversion E. Qed.

(* ============================================================================================
   The parts of the statement, and their proofs *)

Definition faithful_view (t : tree) : Prop :=
  (* Stat of a node path: that node (a symlink as a symlink) *)
  (forall w segs e, fs_wd w = dot -> node_at t (t_root t) segs e ->
     exists i, fs_stat t w (joinp segs) = Ok i /\ info_matches t e i)
  (* no node: ErrNotExist from both *)
  /\ (forall w segs, fs_wd w = dot -> Forall valid_name segs -> segs <> [] ->
        (forall e, ~ node_at t (t_root t) segs e) ->
        fs_stat t w (joinp segs) = Err ENotExist /\ fs_open t w (joinp segs) = Err ENotExist)
  (* Open of a path that resolves through n <= maxSymlinks links (each relative to its
     directory) to a file or directory: that file with its blob / that directory *)
  /\ (forall w n segs e, fs_wd w = dot -> resolves t n segs e -> n <= max_symlinks ->
        fs_open t w (unsplit segs) = open_node t e
        /\ match e with
           | FFile f => open_node t e = match lookup (f_blob f) (t_blobs t) with
                                        | Some c => Ok (OpFile (file_info f) c) | None => Err EBlob end
           | FDir d => exists m', lookup (d_dg d) (t_dirs t) = Some m'
                                  /\ open_node t e = Ok (OpDir (dir_info (d_name d) m') m')
           | FLink _ => False
           end)
  (* ReadDir(-1) of a stored directory: one entry per child, no other, each with the child's info *)
  /\ (forall dg m, lookup dg (t_dirs t) = Some m ->
        exists L, listing t m = Ok L /\ map i_name L = names m
          /\ forall i, In i L -> exists e, node_at t m [i_name i] e /\ info_matches t e i)
  (* whatever Open returns is a file or directory node reached by following links *)
  /\ (forall w name o, fs_open t w name = Ok o ->
        exists n q e, n <= max_symlinks /\ hops t n (go_join (fs_wd w) name) = Some q
          /\ find_node t q = Ok e /\ (forall l, e <> FLink l) /\ open_node t e = Ok o).

Definition fails_cleanly (t : tree) : Prop :=
  (* no call crashes, for any working directory and any byte string as name *)
  (forall w name, clean_result (fs_open t w name) /\ clean_result (fs_stat t w name))
  /\ (forall w name i m, fs_open t w name = Ok (OpDir i m) -> clean_result (listing t m))
  (* a symlink loop, entered after any number of links, is an error *)
  /\ (forall w name j k q, hops t j (go_join (fs_wd w) name) = Some q -> hops t (S k) q = Some q ->
        fs_open t w name = Err ELoop)
  (* more than maxSymlinks links in a row: error *)
  /\ (forall w name, hops t (S max_symlinks) (go_join (fs_wd w) name) <> None -> fs_open t w name = Err ELoop)
  (* an absolute symlink is an error *)
  /\ (forall w name l, find_node t (go_join (fs_wd w) name) = Ok (FLink l) -> is_abs (l_target l) = true ->
        fs_open t w name = Err EAbs).

Definition readdir_contract : Prop :=
  (* paging with any n > 0 from the start: the pages concatenate to the listing, then io.EOF *)
  (forall all n, (0 < n)%Z -> drain all 0 n (S (length all)) = (all, true))
  /\ (forall all n, (0 < n)%Z -> readdir all (length all) n = (([], true), length all))
  (* any mixture of calls: what was returned so far is exactly the entries below the offset *)
  /\ (forall all ns, readdir_off all 0 ns <= length all
        /\ concat (map fst (readdir_seq all 0 ns)) = firstn (readdir_off all 0 ns) all)
  (* one call *)
  /\ (forall all off n pg eof off', off <= length all -> readdir all off n = ((pg, eof), off') ->
        off <= off' <= length all
        /\ pg = firstn (off' - off) (skipn off all)
        /\ ((n <= 0)%Z -> off' = length all /\ eof = false)
        /\ ((0 < n)%Z -> (eof = true <-> off = length all) /\ (eof = true -> pg = [])
                        /\ length pg <= Z.to_nat n /\ (off < length all -> pg <> []))).

Definition stat_agrees_with_open_nonlink (t : tree) : Prop :=
  forall w name e o, find_node t (go_join (fs_wd w) name) = Ok e -> (forall l, e <> FLink l) ->
    fs_open t w name = Ok o -> fs_stat t w name = Ok (opened_info o).

Lemma faithful_view_holds t : wf_tree t -> faithful_view t.
Proof.
  intros Hwf. split; [|split; [|split; [|split]]].
  - intros w segs e Hw Hn. eapply stat_faithful; eauto.
  - intros w segs Hw Hv Hne Hno. split; [eapply stat_absent; eauto|].
    unfold fs_open. rewrite Hw, go_join_dot by assumption.
    destruct (find_node_exact t Hwf segs Hv Hne) as [(e & _ & Hn)|(E & _)]; [exfalso; eapply Hno; eauto|].
    unfold max_symlinks. destruct Gen.CasFs.max_symlinks; cbn [open_at]; rewrite E; reflexivity.
  - intros w n segs e Hw Hr Hn. split.
    + unfold fs_open. rewrite Hw.
      replace (go_join dot (unsplit segs)) with (unsplit segs).
      * eapply open_resolves; eauto.
      * destruct segs as [|x segs]; [reflexivity|]. symmetry.
        assert (Hv : Forall valid_name (x :: segs)).
        { inversion Hr; subst.
          - cbn [node_at0] in H. eapply node_at_valid; eauto. apply (proj1 Hwf).
          - eapply node_at_valid; eauto. apply (proj1 Hwf). }
        apply go_join_dot; [exact Hv|discriminate].
    + assert (exists segs', node_at0 t segs' e /\ forall l, e <> FLink l) as (segs' & Hn' & Hl).
      { clear Hn. induction Hr; eauto. }
      eapply open_node_ok; eauto.
  - intros dg m Hm. eapply listing_exact; eauto.
  - intros w name o Ho. apply open_ok_only. exact Ho.
Qed.

Lemma fails_cleanly_holds t : wf_tree t -> fails_cleanly t.
Proof.
  intros Hwf. split; [|split; [|split; [|split]]].
  - intros w name. split; [apply open_no_panic | apply stat_no_panic]; exact Hwf.
  - intros w name i m Ho. eapply listing_no_panic; eauto.
  - intros w name j k q Hp Hq. eapply open_loop; eauto.
  - intros w name H. apply open_long_chain. exact H.
  - intros w name l Hf Ha. eapply open_abs; eauto.
Qed.

Lemma readdir_contract_holds : readdir_contract.
Proof.
  split; [|split; [|split]].
  - intros all n Hn. rewrite drain_all; [reflexivity|exact Hn|lia|lia].
  - intros all n Hn. apply readdir_eof_stays. exact Hn.
  - intros all ns. destruct (readdir_seq_prefix all ns 0 ltac:(lia)) as ((_ & H1) & H2).
    split; [exact H1|]. rewrite H2, Nat.sub_0_r. reflexivity.
  - intros all off n pg eof off' Hoff Hr. eapply readdir_spec; eauto.
Qed.

Lemma stat_agrees_nonlink_holds t : stat_agrees_with_open_nonlink t.
Proof. intros w name e o Hf Hl Ho. eapply stat_open_nonlink; eauto. Qed.

(* the full statement is false: the two io/fs contracts above *)
Lemma statement_refuted :
  ~ (forall t, wf_tree t ->
       faithful_view t /\ fails_cleanly t /\ readdir_contract /\ rejects_invalid_names t /\ stat_agrees_with_open t
       /\ views_are_values t).
Proof. intros H. destruct (H ex_tree ex_tree_wf) as (_ & _ & _ & H4 & _). exact (invalid_name_accepted H4). Qed.

Lemma statement_partial :
  forall t, wf_tree t ->
    faithful_view t /\ fails_cleanly t /\ readdir_contract /\ stat_agrees_with_open_nonlink t /\ views_are_values t.
Proof.
  intros t Hwf. split; [apply faithful_view_holds; exact Hwf|]. split; [apply fails_cleanly_holds; exact Hwf|].
  split; [apply readdir_contract_holds|]. split; [apply stat_agrees_nonlink_holds|apply views_are_values_holds].
Qed.

(* ---- non-vacuity on the concrete tree ---- *)
Lemma ex_resolves_up1 : resolves ex_tree 2 [s "up1"] (FFile (mk_fnode (s "foo") 1 3 (None, None))).
Proof.
  pose (l1 := mk_lnode (s "up1") (s "d/up") (None, None)).
  pose (l2 := mk_lnode (s "up") (s "../foo") (None, None)).
  pose (f := mk_fnode (s "foo") 1 3 (None, None)).
  assert (H1 : node_at ex_tree (t_root ex_tree) ([] ++ [s "up1"]) (FLink l1)).
  { exact (NA_link ex_tree ex_root l1 ltac:(cbn; auto 10)). }
  assert (H2 : node_at ex_tree (t_root ex_tree) ([s "d"] ++ [s "up"]) (FLink l2)).
  { refine (NA_step ex_tree ex_root (mk_dnode (s "d") 1) ex_d [s "up"] _ ltac:(cbn; auto) eq_refl _).
    exact (NA_link ex_tree ex_d l2 ltac:(cbn; auto)). }
  assert (H3 : node_at0 ex_tree [s "foo"] (FFile f)).
  { exact (NA_file ex_tree ex_root f ltac:(cbn; auto)). }
  exact (RV_link ex_tree [] (s "up1") l1 1 _ H1 eq_refl
           (RV_link ex_tree [s "d"] (s "up") l2 0 _ H2 eq_refl
              (RV_here ex_tree [s "foo"] (FFile f) H3 ltac:(discriminate)))).
Qed.

Lemma ex_loop : hops ex_tree 0 (s "a") = Some (s "a") /\ hops ex_tree 2 (s "a") = Some (s "a")
  /\ fs_open ex_tree (WNew dot) (s "a") = Err ELoop
  /\ fs_open ex_tree (WNew dot) (s "abs") = Err EAbs
  /\ fs_open ex_tree (WNew dot) (s "d/out") = Err ENotExist
  /\ fs_open ex_tree (WNew dot) (s "up1") = Ok (OpFile (mk_info (s "foo") 3 0 None) (s "bar")).
Proof. vm_compute. repeat split. Qed.
