(* C17 - sequential isolation: in an interpreter "at rest" in which nothing reachable is a mutable reference
   (RestInv: every value of every live scope, of the subinclude cache, of every live array / dict, every default and
   every constant mentioned by a live function is a scalar, a function or a FROZEN reference to an existing live
   object), every package leaves EVERYTHING that existed before it unchanged - the heap, the earlier file scopes, the
   function table, the cache - and the interpreter is at rest again afterwards, with the package's own objects,
   scope and functions dead.  So what a package computed cannot be changed by any package interpreted later. *)
From Coq Require Import String Lia.
From PlzV Require Import Base.Harness Base.StrFacts Gen.AspTables Model.C16_Syntax Model.C16_Ops Model.C16_Prim Model.C16_Eval.
From PlzV Require Import Proof.C17_Inv Proof.C17_Ops Proof.C17_Frame3 Proof.C17_Main Proof.C17_NoConst Proof.C17_Mono Proof.C17_Scopes.
Local Open Scope list_scope.
Local Open Scope nat_scope.

Definition inb (a : nat) (l : list nat) : bool := existsb (Nat.eqb a) l.

(* at rest: only existing, live objects count; there is no Free object *)
Definition rest_a (n : nat) (dead : list nat) : nat -> mode := fun a => if inb a dead then Dead else if a <? n then Prot else Dead.
Definition rest_f (n : nat) (dead : list nat) : nat -> bool := fun i => inb i dead || (n <=? i).
Definition rest_s (n : nat) (dead : list nat) : nat -> bool := fun j => negb (inb j dead) && (j <? n).
(* while a package runs: what it allocates is Free / live *)
Definition run_f (dead : list nat) : nat -> bool := fun i => inb i dead.
Definition run_s (dead : list nat) : nat -> bool := fun j => negb (inb j dead).

Record deadset := Dead4 { d_a : list nat; d_d : list nat; d_f : list nat; d_s : list nat }.

Section Rest.
Variable defs : list (str * prog).

Definition in_range (n : nat) (l : list nat) : Prop := forall x, List.In x l -> x < n.

Record RestInv (D : deadset) (st : state) : Prop := mkRest {
  r_ra : in_range (length (arrays st)) (d_a D);
  r_rd : in_range (length (dicts st)) (d_d D);
  r_rf : in_range (length (funcs st)) (d_f D);
  r_rs : in_range (length (fscopes st)) (d_s D);
  r_arr : forall a, rest_a (length (arrays st)) (d_a D) a <> Dead ->
          Forall (vok (rest_a (length (arrays st)) (d_a D)) (rest_a (length (dicts st)) (d_d D)) (rest_f (length (funcs st)) (d_f D))) (arr_of st a);
  r_dict : forall i, rest_a (length (dicts st)) (d_d D) i <> Dead ->
          env_ok (rest_a (length (arrays st)) (d_a D)) (rest_a (length (dicts st)) (d_d D)) (rest_f (length (funcs st)) (d_f D)) (dict_of st i);
  r_fs : forall j, rest_s (length (fscopes st)) (d_s D) j = true ->
          env_ok (rest_a (length (arrays st)) (d_a D)) (rest_a (length (dicts st)) (d_d D)) (rest_f (length (funcs st)) (d_f D)) (nth j (fscopes st) []);
  r_loc : locals st = [];
  r_sub : Forall (fun le => env_ok (rest_a (length (arrays st)) (d_a D)) (rest_a (length (dicts st)) (d_d D)) (rest_f (length (funcs st)) (d_f D)) (snd le)) (subcache st);
  r_fn : forall i, rest_f (length (funcs st)) (d_f D) i = false ->
          fokb (rest_a (length (arrays st)) (d_a D)) (rest_a (length (dicts st)) (d_d D)) (rest_f (length (funcs st)) (d_f D))
               (rest_s (length (fscopes st)) (d_s D)) (consts st) (nth i (funcs st) dflt_func) = true;
  r_defs : cachedall defs st
}.

(* everything that exists in st is the same in st' *)
Record unchanged (st st' : state) : Prop := mkUnch {
  u_arr : forall a, a < length (arrays st) -> arr_of st' a = arr_of st a;
  u_dict : forall i, i < length (dicts st) -> dict_of st' i = dict_of st i;
  u_fs : forall j, j < length (fscopes st) -> nth j (fscopes st') [] = nth j (fscopes st) [];
  u_fn : exists X, funcs st' = funcs st ++ X;
  u_sub : subcache st' = subcache st;
  u_cs : consts st' = consts st;
  u_la : length (arrays st) <= length (arrays st');
  u_ld : length (dicts st) <= length (dicts st');
  u_ls : length (fscopes st) <= length (fscopes st')
}.

Lemma unchanged_refl : forall st, unchanged st st.
Proof. intros. constructor; auto. exists []. now rewrite app_nil_r. Qed.

Lemma unchanged_trans : forall a b c, unchanged a b -> unchanged b c -> unchanged a c.
Proof.
  intros a b c [A1 A2 A3 [X A4] A5 A6 A7 A8 A9] [B1 B2 B3 [Y B4] B5 B6 B7 B8 B9]. constructor; try congruence; try lia.
  - intros x Hx. rewrite B1, A1; auto; lia.
  - intros x Hx. rewrite B2, A2; auto; lia.
  - intros x Hx. rewrite B3, A3; auto; lia.
  - exists (X ++ Y). rewrite B4, A4. now rewrite app_assoc.
Qed.

(* ---- pointwise facts about the classifications ---- *)
Lemma inb_app : forall a l1 l2, inb a (l1 ++ l2) = inb a l1 || inb a l2.
Proof. intros. unfold inb. apply existsb_app. Qed.

Lemma inb_seq : forall a n k, inb a (seq n k) = (n <=? a) && (a <? n + k).
Proof.
  intros a n k. unfold inb. destruct (existsb (Nat.eqb a) (seq n k)) eqn:E.
  - apply existsb_exists in E. destruct E as (x & Hin & Hx). apply Nat.eqb_eq in Hx. subst x. apply in_seq in Hin.
    symmetry. apply andb_true_intro. split; [apply Nat.leb_le|apply Nat.ltb_lt]; lia.
  - symmetry. apply Bool.not_true_is_false. intros H. apply andb_prop in H. destruct H as [H1 H2].
    apply Nat.leb_le in H1. apply Nat.ltb_lt in H2.
    assert (Hex : existsb (Nat.eqb a) (seq n k) = true). { apply existsb_exists. exists a. split; [apply in_seq; lia|apply Nat.eqb_refl]. }
    rewrite Hex in E. discriminate.
Qed.

Lemma inb_range : forall n l a, in_range n l -> inb a l = true -> a < n.
Proof. intros n l a Hr H. unfold inb in H. apply existsb_exists in H. destruct H as (x & Hin & Hx). apply Nat.eqb_eq in Hx. subst x. auto. Qed.

Lemma rest_a_ext : forall n n' dead a, n <= n' -> in_range n dead -> rest_a n' (dead ++ seq n (n' - n)) a = rest_a n dead a.
Proof.
  intros n n' dead a Hle Hr. unfold rest_a. rewrite inb_app, inb_seq. replace (n + (n' - n)) with n' by lia.
  destruct (inb a dead) eqn:E; [reflexivity|]. cbn [orb].
  destruct (Nat.lt_ge_cases a n) as [Hlt|Hge].
  - replace (n <=? a) with false by (symmetry; apply Nat.leb_gt; lia). cbn [andb].
    replace (a <? n') with true by (symmetry; apply Nat.ltb_lt; lia). replace (a <? n) with true by (symmetry; apply Nat.ltb_lt; lia). reflexivity.
  - replace (a <? n) with false by (symmetry; apply Nat.ltb_ge; lia).
    replace (n <=? a) with true by (symmetry; apply Nat.leb_le; lia). cbn [andb]. destruct (a <? n'); reflexivity.
Qed.

Lemma rest_f_ext : forall n n' dead i, n <= n' -> rest_f n' (dead ++ seq n (n' - n)) i = rest_f n dead i.
Proof.
  intros n n' dead i Hle. unfold rest_f. rewrite inb_app, inb_seq. replace (n + (n' - n)) with n' by lia.
  destruct (inb i dead); [reflexivity|]. cbn [orb].
  destruct (Nat.lt_ge_cases i n) as [Hlt|Hge].
  - replace (n <=? i) with false by (symmetry; apply Nat.leb_gt; lia). cbn [andb orb]. apply Nat.leb_gt. lia.
  - replace (n <=? i) with true by (symmetry; apply Nat.leb_le; lia). cbn [andb].
    destruct (i <? n') eqn:E; [reflexivity|]. cbn [orb]. apply Nat.ltb_ge in E. apply Nat.leb_le. lia.
Qed.

Lemma rest_s_ext : forall n n' dead j, n <= n' -> rest_s n' (dead ++ seq n (n' - n)) j = rest_s n dead j.
Proof.
  intros n n' dead j Hle. unfold rest_s. rewrite inb_app, inb_seq. replace (n + (n' - n)) with n' by lia.
  destruct (inb j dead); [reflexivity|]. cbn [orb negb andb].
  destruct (Nat.lt_ge_cases j n) as [Hlt|Hge].
  - replace (n <=? j) with false by (symmetry; apply Nat.leb_gt; lia). cbn [andb negb].
    replace (j <? n') with true by (symmetry; apply Nat.ltb_lt; lia). replace (j <? n) with true by (symmetry; apply Nat.ltb_lt; lia). reflexivity.
  - replace (j <? n) with false by (symmetry; apply Nat.ltb_ge; lia).
    replace (n <=? j) with true by (symmetry; apply Nat.leb_le; lia). cbn [andb]. destruct (j <? n'); reflexivity.
Qed.

Lemma vokb_ext : forall ca cd pf ca' cd' pf' v,
  (forall a, ca' a = ca a) -> (forall i, cd' i = cd i) -> (forall i, pf' i = pf i) -> vokb ca' cd' pf' v = vokb ca cd pf v.
Proof. intros ca cd pf ca' cd' pf' v Ha Hd Hf. destruct v; cbn [vokb]; rewrite ?Ha, ?Hd, ?Hf; reflexivity. Qed.

Lemma vok_rest_run : forall na da nd dd nf df v,
  vokb (rest_a na da) (rest_a nd dd) (rest_f nf df) v = true -> vokb (cls_prefix na da) (cls_prefix nd dd) (run_f df) v = true.
Proof.
  intros na da nd dd nf df v H. destruct v; cbn [vokb] in *; auto; unfold rest_a, rest_f, cls_prefix, run_f, inb in *.
  - destruct (existsb _ da); [discriminate|]. destruct (_ <? na); discriminate.
  - destruct (existsb _ da); [discriminate|]. destruct (_ <? na); [reflexivity|discriminate].
  - destruct (existsb _ dd); [discriminate|]. destruct (_ <? nd); discriminate.
  - destruct (existsb _ dd); [discriminate|]. destruct (_ <? nd); [reflexivity|discriminate].
  - destruct (existsb _ df); [discriminate|reflexivity].
Qed.

Lemma env_ok_impl : forall ca cd pf ca' cd' pf' (e : env),
  (forall v, vokb ca cd pf v = true -> vokb ca' cd' pf' v = true) -> env_ok ca cd pf e -> env_ok ca' cd' pf' e.
Proof. intros ca cd pf ca' cd' pf' e H He. eapply Forall_impl; [|exact He]. intros kv Hkv. apply H. exact Hkv. Qed.

Lemma fokb_impl : forall ca cd pf ls ca' cd' pf' ls' cs fd,
  (forall v, vokb ca cd pf v = true -> vokb ca' cd' pf' v = true) ->
  (forall j, ls j = true -> ls' j = true) ->
  fokb ca cd pf ls cs fd = true -> fokb ca' cd' pf' ls' cs fd = true.
Proof.
  intros ca cd pf ls ca' cd' pf' ls' cs fd Hv Hl H. unfold fokb in *.
  apply andb_prop in H. destruct H as [H Hs]. apply andb_prop in H. destruct H as [Ha Hb].
  rewrite (Hl _ Hs), (sok_p_mono ca cd pf cs ca' cd' pf' cs (fun k => Hv _) _ Hb). rewrite !Bool.andb_true_r.
  apply forallb_forall. intros a Hin. rewrite forallb_forall in Ha. specialize (Ha a Hin). unfold dok in *.
  destruct (snd a); auto. apply (mono_e ca cd pf cs ca' cd' pf' cs (fun k => Hv _)). exact Ha.
Qed.

(* ---- from rest to the invariant of the frame theorem, for the package that starts now ---- *)
Definition new_scope (st : state) : state :=
  set_locals [] (set_cur (length (fscopes st)) (set_fscopes (fscopes st ++ [[]]) st)).

Lemma cls_prefix_in_range : forall n dead a, in_range n dead -> cls_prefix n dead a <> Free -> a < n.
Proof.
  intros n dead a Hr Hc. unfold cls_prefix in Hc. destruct (existsb (Nat.eqb a) dead) eqn:E.
  - eapply inb_range; eauto.
  - destruct (a <? n) eqn:E2; [apply Nat.ltb_lt; exact E2|contradiction].
Qed.

Lemma cls_prefix_rest : forall n dead a, cls_prefix n dead a <> Dead -> a < n -> rest_a n dead a <> Dead.
Proof.
  intros n dead a Hc Hlt. unfold cls_prefix, rest_a, inb in *. destruct (existsb _ dead); [contradiction|].
  replace (a <? n) with true by (symmetry; apply Nat.ltb_lt; exact Hlt). discriminate.
Qed.

Lemma rest_a_lt : forall n dead a, rest_a n dead a <> Dead -> a < n /\ inb a dead = false.
Proof.
  intros n dead a H. unfold rest_a in H. destruct (inb a dead); [contradiction|]. destruct (a <? n) eqn:E; [|contradiction].
  split; [apply Nat.ltb_lt; exact E|reflexivity].
Qed.

Lemma rest_to_run : forall D st, RestInv D st ->
  Inv (cls_prefix (length (arrays st)) (d_a D)) (cls_prefix (length (dicts st)) (d_d D)) (run_f (d_f D)) (run_s (d_s D)) (consts st) defs (new_scope st).
Proof.
  intros D st R. destruct R.
  set (mono := vok_rest_run (length (arrays st)) (d_a D) (length (dicts st)) (d_d D) (length (funcs st)) (d_f D)).
  unfold new_scope. constructor; cbn [arrays dicts funcs fscopes cur locals consts subcache set_cur set_locals set_fscopes].
  - intros a Ha. eapply cls_prefix_in_range; eauto.
  - intros i Hi. eapply cls_prefix_in_range; eauto.
  - intros i Hi. eapply inb_range; eauto.
  - intros a Ha. change (arr_of (set_locals [] (set_cur (length (fscopes st)) (set_fscopes (fscopes st ++ [[]]) st))) a) with (arr_of st a).
    destruct (Nat.lt_ge_cases a (length (arrays st))) as [Hlt|Hge].
    + eapply Forall_impl; [|apply r_arr0; apply cls_prefix_rest; auto]. intros v Hv. apply mono. exact Hv.
    + unfold arr_of. rewrite nth_overflow by exact Hge. constructor.
  - intros i Hi. change (dict_of (set_locals [] (set_cur (length (fscopes st)) (set_fscopes (fscopes st ++ [[]]) st))) i) with (dict_of st i).
    destruct (Nat.lt_ge_cases i (length (dicts st))) as [Hlt|Hge].
    + eapply env_ok_impl; [exact mono|]. apply r_dict0. apply cls_prefix_rest; auto.
    + unfold dict_of. rewrite nth_overflow by exact Hge. constructor.
  - intros j Hj. apply (nth_app_P (env_ok _ _ _)); try constructor.
    destruct (Nat.lt_ge_cases j (length (fscopes st))) as [Hlt|Hge].
    + eapply env_ok_impl; [exact mono|]. apply r_fs0. unfold rest_s, run_s in *. rewrite Hj. apply Nat.ltb_lt. exact Hlt.
    + rewrite nth_overflow by exact Hge. constructor.
  - unfold run_s. destruct (inb (length (fscopes st)) (d_s D)) eqn:E; [|reflexivity].
    pose proof (inb_range _ _ _ r_rs0 E). lia.
  - constructor.
  - eapply Forall_impl; [|exact r_sub0]. intros le Hle. eapply env_ok_impl; [exact mono|exact Hle].
  - intros i Hi Hlt. eapply fokb_impl; [exact mono| |apply r_fn0].
    + intros j Hj. unfold rest_s, run_s in *. apply andb_prop in Hj. tauto.
    + unfold rest_f, run_f in *. rewrite Hi. apply Nat.leb_gt. exact Hlt.
  - reflexivity.
  - exact r_defs0.
Qed.

Lemma rest_set_locals : forall D st, RestInv D st -> RestInv D (set_locals [] st).
Proof. intros D st R. destruct R. constructor; cbn [arrays dicts funcs fscopes cur locals consts subcache set_locals]; auto. Qed.

Lemma unchanged_set_locals : forall st st2 l, unchanged st st2 -> unchanged st (set_locals l st2).
Proof. intros st st2 l U. destruct U. constructor; cbn [arrays dicts funcs fscopes cur locals consts subcache set_locals]; auto. Qed.

Definition grow (D : deadset) (st st2 : state) : deadset :=
  Dead4 (d_a D ++ seq (length (arrays st)) (length (arrays st2) - length (arrays st)))
        (d_d D ++ seq (length (dicts st)) (length (dicts st2) - length (dicts st)))
        (d_f D ++ seq (length (funcs st)) (length (funcs st2) - length (funcs st)))
        (d_s D ++ seq (length (fscopes st)) (length (fscopes st2) - length (fscopes st))).

Lemma in_range_grow : forall n n' l, n <= n' -> in_range n l -> in_range n' (l ++ seq n (n' - n)).
Proof.
  intros n n' l Hle Hr x Hx. apply in_app_or in Hx. destruct Hx as [Hx|Hx]; [specialize (Hr x Hx); lia|].
  apply in_seq in Hx. lia.
Qed.

(* ---- one package ---- *)
Lemma package_step : forall D st fuel p e oof st2, RestInv D st -> no_const p = true ->
  exec_top Asp defs fuel p (new_scope st) = (e, oof, st2) ->
  unchanged st st2 /\ RestInv (grow D st st2) st2.
Proof.
  intros D st fuel p e oof st2 R Hp H.
  pose proof (rest_to_run D st R) as I1.
  assert (Hsok : sok_p (cls_prefix (length (arrays st)) (d_a D)) (cls_prefix (length (dicts st)) (d_d D)) (run_f (d_f D)) (consts st) p = true)
    by (apply no_const_covered; exact Hp).
  destruct (frame_top _ _ _ _ _ _ fuel p (new_scope st) e oof st2 I1 Hsok H) as [I2 F2].
  assert (C1 : cachedall defs (new_scope st)) by (exact (r_defs _ _ R)).
  pose proof (top_sc defs fuel p (new_scope st) e oof st2 C1 H) as S2.
  assert (Hfn : exists X, funcs st2 = funcs st ++ X) by (exact (f_fn _ _ _ _ _ F2)).
  assert (Hcs : consts st2 = consts st) by (exact (i_cs _ _ _ _ _ _ _ I2)).
  assert (Hla : length (arrays st) <= length (arrays st2)) by (exact (f_alen _ _ _ _ _ F2)).
  assert (Hld : length (dicts st) <= length (dicts st2)) by (exact (f_dlen _ _ _ _ _ F2)).
  assert (Hls : length (fscopes st) <= length (fscopes st2)).
  { pose proof (f_fslen _ _ _ _ _ F2) as Hx. unfold new_scope in Hx. cbn [fscopes set_locals set_cur set_fscopes] in Hx. rewrite app_length in Hx. cbn in Hx. lia. }
  assert (Hlf : length (funcs st) <= length (funcs st2)). { destruct Hfn as [X ->]. rewrite app_length. lia. }
  assert (U : unchanged st st2).
  { constructor; auto.
    - intros a Ha. rewrite (f_arr _ _ _ _ _ F2); [reflexivity|]. apply cls_prefix_not_free. exact Ha.
    - intros i Hi. rewrite (f_dict _ _ _ _ _ F2); [reflexivity|]. apply cls_prefix_not_free. exact Hi.
    - intros j Hj. rewrite (sc_fs _ _ S2).
      + unfold new_scope. cbn [fscopes set_locals set_cur set_fscopes]. apply app_nth1. exact Hj.
      + right. unfold new_scope. cbn [cur set_locals set_cur]. lia.
    - exact (f_sub _ _ _ _ _ F2). }
  split; [exact U|].
  destruct R.
  assert (Ev : forall v, vokb (rest_a (length (arrays st2)) (d_a (grow D st st2))) (rest_a (length (dicts st2)) (d_d (grow D st st2)))
                              (rest_f (length (funcs st2)) (d_f (grow D st st2))) v
                       = vokb (rest_a (length (arrays st)) (d_a D)) (rest_a (length (dicts st)) (d_d D)) (rest_f (length (funcs st)) (d_f D)) v).
  { intros v. apply vokb_ext; intros; cbn [grow d_a d_d d_f]; [apply rest_a_ext|apply rest_a_ext|apply rest_f_ext]; auto. }
  assert (Eenv : forall e0, env_ok (rest_a (length (arrays st)) (d_a D)) (rest_a (length (dicts st)) (d_d D)) (rest_f (length (funcs st)) (d_f D)) e0 ->
                 env_ok (rest_a (length (arrays st2)) (d_a (grow D st st2))) (rest_a (length (dicts st2)) (d_d (grow D st st2)))
                        (rest_f (length (funcs st2)) (d_f (grow D st st2))) e0).
  { intros e0 He. eapply env_ok_impl; [|exact He]. intros v Hv. rewrite Ev. exact Hv. }
  constructor.
  - apply in_range_grow; auto.
  - apply in_range_grow; auto.
  - apply in_range_grow; auto.
  - apply in_range_grow; auto.
  - intros a Ha. cbn [grow d_a] in Ha. rewrite rest_a_ext in Ha by auto. destruct (rest_a_lt _ _ _ Ha) as [Hlt _].
    rewrite (u_arr _ _ U a Hlt). eapply Forall_impl; [|apply r_arr0; exact Ha]. intros v Hv. unfold vok. rewrite Ev. exact Hv.
  - intros i Hi. cbn [grow d_d] in Hi. rewrite rest_a_ext in Hi by auto. destruct (rest_a_lt _ _ _ Hi) as [Hlt _].
    rewrite (u_dict _ _ U i Hlt). apply Eenv. apply r_dict0. exact Hi.
  - intros j Hj. cbn [grow d_s] in Hj. rewrite rest_s_ext in Hj by auto. assert (Hlt : j < length (fscopes st)).
    { unfold rest_s in Hj. apply andb_prop in Hj. destruct Hj as [_ Hj]. apply Nat.ltb_lt. exact Hj. }
    rewrite (u_fs _ _ U j Hlt). apply Eenv. apply r_fs0. exact Hj.
  - pose proof (sc_nloc _ _ S2) as Hn. unfold new_scope in Hn. cbn [locals set_locals] in Hn. destruct (locals st2); [reflexivity|discriminate Hn].
  - rewrite (u_sub _ _ U). eapply Forall_impl; [|exact r_sub0]. intros le Hle. apply Eenv. exact Hle.
  - intros i Hi. cbn [grow d_f] in Hi. rewrite rest_f_ext in Hi by auto. assert (Hlt : i < length (funcs st)).
    { unfold rest_f in Hi. apply Bool.orb_false_elim in Hi. destruct Hi as [_ Hi]. apply Nat.leb_gt. exact Hi. }
    replace (nth i (funcs st2) dflt_func) with (nth i (funcs st) dflt_func) by (destruct Hfn as [X HX]; rewrite HX, app_nth1 by exact Hlt; reflexivity). rewrite Hcs.
    eapply fokb_impl; [| |apply r_fn0; exact Hi].
    + intros v Hv. rewrite Ev. exact Hv.
    + intros j Hj. cbn [grow d_s]. rewrite rest_s_ext by auto. exact Hj.
  - intros label Hl. apply r_defs0. rewrite <- (u_sub _ _ U). exact Hl.
Qed.

(* ---- any sequence of packages ---- *)
Theorem isolation : forall fuel builds D st outs st', RestInv D st ->
  Forall (fun p => no_const p = true) builds ->
  run_builds Asp defs fuel builds st = (outs, st') ->
  unchanged st st' /\ exists D', RestInv D' st'.
Proof.
  intros fuel. induction builds as [|p r IH]; intros D st outs st' R Hb H; cbn [run_builds] in H.
  - injection H as _ <-. split; [apply unchanged_refl|exists D; exact R].
  - inversion Hb as [|? ? Hp Hr]; subst. fold (new_scope st) in H.
    destruct (exec_top Asp defs fuel p (new_scope st)) as [[e oof] st2] eqn:E.
    destruct (package_step D st fuel p e oof st2 R Hp E) as [U2 R2].
    assert (Hgen : forall stx, (stx = st2 \/ stx = set_locals [] st2) -> forall o r0, run_builds Asp defs fuel r stx = (o, r0) ->
              unchanged st r0 /\ exists D', RestInv D' r0).
    { intros stx [-> | ->] o r0 Hrun.
      - destruct (IH _ _ _ _ R2 Hr Hrun) as [U3 R3]. split; [eapply unchanged_trans; eauto|exact R3].
      - destruct (IH _ _ _ _ (rest_set_locals _ _ R2) Hr Hrun) as [U3 R3]. split; [|exact R3].
        eapply unchanged_trans; [apply unchanged_set_locals; exact U2|exact U3]. }
    destruct e as [k|]; [|destruct oof].
    + destruct k; destruct (run_builds Asp defs fuel r (set_locals [] st2)) as [rest st3] eqn:Er; injection H as _ <-;
        (eapply Hgen; [right; reflexivity|exact Er]).
    + destruct (run_builds Asp defs fuel r (set_locals [] st2)) as [rest st3] eqn:Er; injection H as _ <-.
      eapply Hgen; [right; reflexivity|exact Er].
    + destruct (run_builds Asp defs fuel r st2) as [rest st3] eqn:Er; injection H as _ <-.
      eapply Hgen; [left; reflexivity|exact Er].
Qed.

Lemma run_builds_app : forall fuel b1 b2 st,
  run_builds Asp defs fuel (b1 ++ b2) st =
  let '(o1, st1) := run_builds Asp defs fuel b1 st in
  let '(o2, st2) := run_builds Asp defs fuel b2 st1 in (o1 ++ o2, st2).
Proof.
  intros fuel. induction b1 as [|p r IH]; intros b2 st; cbn [app run_builds].
  - destruct (run_builds Asp defs fuel b2 st). reflexivity.
  - destruct (exec_top Asp defs fuel p _) as [[e oof] st2].
    destruct e as [k|]; [destruct k|destruct oof]; rewrite IH;
      match goal with |- context [run_builds Asp defs fuel r ?s] => destruct (run_builds Asp defs fuel r s) as [o1 s1] end;
      destruct (run_builds Asp defs fuel b2 s1); reflexivity.
Qed.

(* WHAT A PACKAGE COMPUTED CANNOT BE CHANGED BY A LATER PACKAGE: after the packages b1, everything that exists - the
   file scopes of b1 (their globals), every array and dict (so everything those globals refer to), the functions,
   the cache - is the same after any further packages b2. *)
Theorem later_packages_change_nothing : forall fuel b1 b2 D st0 outs st',
  RestInv D st0 -> Forall (fun p => no_const p = true) (b1 ++ b2) ->
  run_builds Asp defs fuel (b1 ++ b2) st0 = (outs, st') ->
  exists o1 st1 o2, run_builds Asp defs fuel b1 st0 = (o1, st1) /\ run_builds Asp defs fuel b2 st1 = (o2, st') /\ outs = o1 ++ o2
    /\ unchanged st0 st1 /\ unchanged st1 st'.
Proof.
  intros fuel b1 b2 D st0 outs st' R Hb H. rewrite run_builds_app in H.
  destruct (run_builds Asp defs fuel b1 st0) as [o1 st1] eqn:E1.
  destruct (run_builds Asp defs fuel b2 st1) as [o2 st2] eqn:E2. injection H as <- <-.
  apply Forall_app in Hb. destruct Hb as [Hb1 Hb2].
  destruct (isolation fuel b1 D st0 o1 st1 R Hb1 E1) as [U1 [D1 R1]].
  destruct (isolation fuel b2 D1 st1 o2 st2 R1 Hb2 E2) as [U2 _].
  exists o1, st1, o2. auto.
Qed.

(* ... in particular every value that is closed in st1 renders the same afterwards *)
Theorem unchanged_render : forall st st' rfuel v, unchanged st st' ->
  closedb rfuel st (length (arrays st)) (length (dicts st)) (length (funcs st)) v = true ->
  render Asp rfuel st' v = render Asp rfuel st v.
Proof.
  intros st st' rfuel v U Hc. destruct (u_fn _ _ U) as [X HX].
  eapply render_same; [apply (u_arr _ _ U)|apply (u_dict _ _ U)| |exact Hc].
  intros i Hi. rewrite HX. apply app_nth1. exact Hi.
Qed.

End Rest.

(* ================================================================ an executable test of RestInv *)
Definition envbR (ca cd : nat -> mode) (pf : nat -> bool) (e : env) : bool := forallb (fun kv => vokb ca cd pf (snd kv)) e.

Definition rest_invb (defs : list (str * prog)) (D : deadset) (st : state) : bool :=
  let ca := rest_a (length (arrays st)) (d_a D) in
  let cd := rest_a (length (dicts st)) (d_d D) in
  let pf := rest_f (length (funcs st)) (d_f D) in
  let ls := rest_s (length (fscopes st)) (d_s D) in
  forallb (fun lp => match assoc_get (fst lp) (subcache st) with Some _ => true | None => false end) defs &&
  forallb (fun a => a <? length (arrays st)) (d_a D) && forallb (fun a => a <? length (dicts st)) (d_d D) &&
  forallb (fun a => a <? length (funcs st)) (d_f D) && forallb (fun a => a <? length (fscopes st)) (d_s D) &&
  forallb (fun a => match ca a with Dead => true | _ => forallb (vokb ca cd pf) (arr_of st a) end) (seq 0 (length (arrays st))) &&
  forallb (fun i => match cd i with Dead => true | _ => envbR ca cd pf (dict_of st i) end) (seq 0 (length (dicts st))) &&
  forallb (fun j => if ls j then envbR ca cd pf (nth j (fscopes st) []) else true) (seq 0 (length (fscopes st))) &&
  match locals st with [] => true | _ => false end &&
  forallb (fun le => envbR ca cd pf (snd le)) (subcache st) &&
  forallb (fun i => if pf i then true else fokb ca cd pf ls (consts st) (nth i (funcs st) dflt_func)) (seq 0 (length (funcs st))).

Lemma envbR_ok : forall ca cd pf e, envbR ca cd pf e = true -> env_ok ca cd pf e.
Proof. intros ca cd pf e H. unfold envbR in H. rewrite forallb_forall in H. apply Forall_forall. intros kv Hin. apply H. exact Hin. Qed.

Lemma forallb_in_range : forall n l, forallb (fun a => a <? n) l = true -> in_range n l.
Proof. intros n l H x Hx. rewrite forallb_forall in H. apply Nat.ltb_lt. apply H. exact Hx. Qed.

Theorem rest_invb_sound : forall defs D st, rest_invb defs D st = true -> RestInv defs D st.
Proof.
  intros defs D st H. unfold rest_invb in H. cbv zeta in H.
  repeat match type of H with (_ && _)%bool = true => let H1 := fresh "H" in apply andb_prop in H; destruct H as [H H1] end.
  constructor.
  - apply forallb_in_range. exact H9.
  - apply forallb_in_range. exact H8.
  - apply forallb_in_range. exact H7.
  - apply forallb_in_range. exact H6.
  - intros a Ha. destruct (rest_a_lt _ _ _ Ha) as [Hlt _].
    rewrite forallb_forall in H5. specialize (H5 a). rewrite in_seq in H5. specialize (H5 (conj (Nat.le_0_l _) Hlt)).
    destruct (rest_a (length (arrays st)) (d_a D) a) eqn:E; try contradiction;
      (apply Forall_forall; intros v Hv; rewrite forallb_forall in H5; apply H5; exact Hv).
  - intros i Hi. destruct (rest_a_lt _ _ _ Hi) as [Hlt _].
    rewrite forallb_forall in H4. specialize (H4 i). rewrite in_seq in H4. specialize (H4 (conj (Nat.le_0_l _) Hlt)).
    destruct (rest_a (length (dicts st)) (d_d D) i) eqn:E; try contradiction; apply envbR_ok; exact H4.
  - intros j Hj. assert (Hlt : j < length (fscopes st)).
    { unfold rest_s in Hj. apply andb_prop in Hj. destruct Hj as [_ Hj]. apply Nat.ltb_lt. exact Hj. }
    rewrite forallb_forall in H3. specialize (H3 j). rewrite in_seq in H3. specialize (H3 (conj (Nat.le_0_l _) Hlt)).
    rewrite Hj in H3. apply envbR_ok. exact H3.
  - destruct (locals st); [reflexivity|discriminate H2].
  - apply Forall_forall. intros le Hle. apply envbR_ok. rewrite forallb_forall in H1. apply (H1 le Hle).
  - intros i Hi. assert (Hlt : i < length (funcs st)).
    { unfold rest_f in Hi. apply Bool.orb_false_elim in Hi. destruct Hi as [_ Hi]. apply Nat.leb_gt. exact Hi. }
    rewrite forallb_forall in H0. specialize (H0 i). rewrite in_seq in H0. specialize (H0 (conj (Nat.le_0_l _) Hlt)).
    rewrite Hi in H0. exact H0.
  - unfold cachedall. apply find_def_cached. exact H.
Qed.
