(* C16 - integer operators: Go's int (64-bit wrap-around, truncated / and %, float-based //) against
   CPython's unbounded int, with the exact side conditions under which they coincide. *)
From Coq Require Import Lia.
From PlzV Require Import Base.Harness Model.C16_Syntax Model.C16_Ops Model.C16_Prim.
Local Open Scope Z_scope.

Lemma wrap64_id : forall z, in_int64 z = true -> wrap64 z = z.
Proof.
  intros z H. unfold in_int64 in H. apply andb_true_iff in H. destruct H as [H1 H2].
  apply Z.leb_le in H1. apply Z.ltb_lt in H2. unfold wrap64, min_int, two63, two64 in *.
  rewrite Z.mod_small by lia. lia.
Qed.

Definition same_sign (a b : Z) : bool := ((0 <=? a) && (0 <? b)) || ((a <=? 0) && (b <? 0)).

(* when does asp's integer operator give CPython's result? *)
Definition int_safe (o : binop) (a b : Z) : bool :=
  match o with
  | Add => in_int64 (a + b)
  | Sub => in_int64 (a - b)
  | Mul => in_int64 (a * b)
  | Div => b =? 0                               (* otherwise CPython yields a float, asp an int *)
  | Mod => (b =? 0) || same_sign a b            (* Go's % takes the sign of the dividend, CPython's that of the divisor *)
  | FloorDiv => negb (b =? 0) && (Z.abs a <? two53) && (Z.abs b <? two53)
  | _ => true
  end.

Lemma rem_mod_same_sign : forall a b, same_sign a b = true -> Z.rem a b = a mod b.
Proof.
  intros a b H. unfold same_sign in H. apply orb_true_iff in H. destruct H as [H|H];
    apply andb_true_iff in H; destruct H as [H1 H2].
  - apply Z.leb_le in H1. apply Z.ltb_lt in H2. now apply Z.rem_mod_nonneg.
  - apply Z.leb_le in H1. apply Z.ltb_lt in H2.
    replace a with (- (- a)) by lia. replace b with (- (- b)) by lia.
    rewrite Z.rem_opp_opp by lia. rewrite Z.mod_opp_opp by lia.
    rewrite Z.rem_mod_nonneg by lia. reflexivity.
Qed.

Theorem int_ops_agree : forall o a b, int_safe o a b = true -> asp_int_op o a b = py_int_op o a b.
Proof.
  intros o a b H. destruct o; cbn [int_safe asp_int_op py_int_op] in *; try reflexivity.
  - now rewrite wrap64_id.
  - now rewrite wrap64_id.
  - now rewrite wrap64_id.
  - now rewrite H.
  - apply andb_true_iff in H. destruct H as [H H3]. apply andb_true_iff in H. destruct H as [H1 H2].
    apply negb_true_iff in H1. now rewrite H1, H2, H3.
  - destruct (b =? 0) eqn:Hb; [reflexivity|]. cbn [orb] in H. now rewrite rem_mod_same_sign.
Qed.

(* and the conditions are sharp: outside them the two differ (witnesses used by C16_refuted) *)
Example int_mod_differs : asp_int_op Mod (-7) 3 = IOk (-1) /\ py_int_op Mod (-7) 3 = IOk 2.
Proof. split; reflexivity. Qed.
Example int_div_differs : asp_int_op Div 7 2 = IOk 3 /\ py_int_op Div 7 2 = IFloat.
Proof. split; reflexivity. Qed.
Example int_floordiv_zero_differs : asp_int_op FloorDiv 1 0 = IOk min_int /\ py_int_op FloorDiv 1 0 = IErr.
Proof. split; reflexivity. Qed.
Example int_overflow_differs :
  asp_int_op Mul 900000000000000000 11 = IOk (-8546744073709551616) /\ py_int_op Mul 900000000000000000 11 = IOk 9900000000000000000.
Proof. split; reflexivity. Qed.
