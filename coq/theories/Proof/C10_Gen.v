(* C10 - ties between the model and the skeleton gotrans regenerates from /repo on every run (Gen/C10Env.v).
   A change of the anchored functions that adds, removes or reorders an assignment to the environment map, a read of
   the caller's environment, a write to exec.Cmd.Env or the hashed name=value loops changes Gen/C10Env.v and breaks one
   of the lemmas below. *)
From Coq Require Import String.
From PlzV Require Import Base.Harness Model.C10 Proof.C10 Proof.C10_R2.
From PlzV Require Gen.C10Env.

(* 1. Every read of the caller's environment on the path from a target to its command's environment and hashes.
      TargetEnvironment: the two os.Getenv(e) range over *target.PassUnsafeEnv and *target.PassEnv (env_keys below);
      BuildEnvironment: fs.ExpandHomePath reads HOME (Model: secrets_value, code_reads);
      setBuildPath: PATH, only under `if i == "PATH"` over the two pass lists (Model: build_path);
      getBuildEnv: os.LookupEnv(k) for k in the pass lists (Model: add_env_step);
      ruleHash: os.Getenv(env) for env in *target.PassEnv (Model: pass_env_stream).
      Nothing else: toolsEnv/toolPath/resolveOut, Hash, GetBuildEnv, ExecWithTimeout and ExecCommand read nothing. *)
Lemma caller_reads_ok :
  Gen.C10Env.caller_reads =
  [("TargetEnvironment", "os.Getenv(e)"); ("TargetEnvironment", "os.Getenv(e)");
   ("BuildEnvironment", "fs.ExpandHomePath(strings.Join(target.Secrets, "":""))");
   ("BuildEnvironment", "fs.ExpandHomePath(strings.Join(secrets, "":""))");
   ("setBuildPath", "os.Getenv(""PATH"")"); ("setBuildPath", "os.Getenv(""PATH"")");
   ("getBuildEnv", "os.LookupEnv(k)"); ("ruleHash", "os.Getenv(env)")]%string.
Proof. reflexivity. Qed.

(* 2. The command gets exactly the environment it is given: cmd.Env is only ever appended to, from the env argument
      and (sandboxed commands only) three fixed SANDBOX_UID / SHARE_* entries; it is never os.Environ(). *)
Lemma cmd_env_ok :
  Gen.C10Env.cmd_env =
  [("ExecWithTimeout", "cmd.Env = append(cmd.Env, env...)");
   ("ExecCommand", "cmd.Env = append(cmd.Env, ""SANDBOX_UID=""+strconv.Itoa(os.Getuid()))");
   ("ExecCommand", "cmd.Env = append(cmd.Env, ""SHARE_NETWORK=""+boolToString(!sandbox.Network), ""SHARE_MOUNT=""+boolToString(!sandbox.Mount))")]%string.
Proof. reflexivity. Qed.

(* 3. What is hashed of the environment (Model: config_env_stream, pass_env_stream). *)
Lemma hash_env_ok :
  Gen.C10Env.hash_env =
  [("Hash", "env := config.getBuildEnv(false, false)");
   ("Hash", "for _, k := range slices.Sorted(maps.Keys(env)) { if !strings.HasPrefix(k, ""SECRET"") { h.Write([]byte(k)) h.Write([]byte{'='}) h.Write([]byte(env[k])) } }");
   ("ruleHash", "if target.PassEnv != nil { for _, env := range *target.PassEnv { h.Write([]byte(env)) h.Write([]byte{'='}) h.Write([]byte(os.Getenv(env))) } }")]%string.
Proof. reflexivity. Qed.

(* 4. The model assigns the same keys in the same order as the source: on a sample that takes every branch, the
      first-assignment order of the model's map is the regenerated key skeleton, instantiated. *)
Definition sample_cfg : config :=
  {| c_lang := s "L"; c_arch := s "amd64"; c_os := s "linux"; c_pkg_config_path := s "/pc";
     c_buildenv := [(s "be", s "1")]; c_pass_unsafe := [s "PU_C"]; c_pass_env := [s "PE_C"];
     c_location := s "/loc"; c_path := [s "/bin"]; c_remote_url := []; c_build_config := s "opt";
     c_nonce := s "n"; c_licences_reject := [] |}.
Definition sample_target : target :=
  {| t_pkg := s "p"; t_pkg_dir := s "p"; t_name := s "t"; t_local := false;
     t_pass_unsafe := Some [s "PU_T"]; t_pass_env := Some [s "PE_T"];
     t_srcs := [s "p/a"]; t_outs := [s "o"]; t_src_list_files := false;
     t_named_srcs := [(s "n", [s "p/a"])]; t_named_outs := [(s "n", [s "o"])]; t_tools := [s "/bin/x"];
     t_secrets := [s "~/a"]; t_named_secrets := [(s "n", [s "/b"])]; t_env := [(s "UE", s "$PE_T")] |}.
Definition sample_caller : env :=
  [(s "PU_C", s "1"); (s "PE_C", s "2"); (s "PU_T", s "3"); (s "PE_T", s "4"); (s "HOME", s "/h")].

Definition inst (k : string) : list str :=
  if String.eqb k "<add:state.Config.GetBuildEnv()>" then [s "BE"; s "PU_C"; s "PE_C"; s "PATH"]
  else if String.eqb k "<call:GeneralBuildEnvironment>" then []
  else if String.eqb k "<call:TargetEnvironment>" then []
  else if String.eqb k "<call:withUserProvidedEnv>" then []
  else if String.eqb k "<range:*target.PassUnsafeEnv>" then [s "PU_T"]
  else if String.eqb k "<range:*target.PassEnv>" then [s "PE_T"]
  else if String.eqb k "SRCS_<N>" then [s "SRCS_N"]
  else if String.eqb k "OUTS_<N>" then [s "OUTS_N"]
  else if String.eqb k "SECRETS_<N>" then [s "SECRETS_N"]
  else if String.eqb k "<add:toolsEnv(state, target.AllTools(), target.namedTools, """", abs)>" then [s "TOOLS"; s "TOOL"]
  else if String.eqb k "<range:keys>" then [s "UE"]            (* the SORTED keys of target.Env *)
  else if String.eqb k "SANDBOX_DIRS" then []                  (* sandboxed targets: not modelled *)
  else if String.eqb k "GENDIR" then []                        (* Bazel compatibility: not modelled *)
  else if String.eqb k "BINDIR" then []
  else [s k].

Lemma env_keys_tie :
  map fst (build_env sample_cfg sample_target (s "/tmp/b") sample_caller) = flat_map inst (map snd Gen.C10Env.env_keys).
Proof. vm_compute. reflexivity. Qed.

(* and on that sample every listed variable, and nothing else of the caller, is visible *)
Lemma sample_visible :
  let e := build_env sample_cfg sample_target (s "/tmp/b") sample_caller in
  lookup (s "PU_C") e = Some (s "1") /\ lookup (s "PE_C") e = Some (s "2") /\ lookup (s "PU_T") e = Some (s "3")
  /\ lookup (s "PE_T") e = Some (s "4") /\ lookup (s "UE") e = Some (s "4") /\ lookup (s "SECRETS") e = Some (s "/h/a")
  /\ lookup (s "HOME") e = Some (s "/tmp/b").
Proof. vm_compute. repeat split. Qed.

(* 5. The command-environment PROGRAM of ExecCommand / ExecWithTimeout, translated statement by statement by gotrans
      (guard, base, appended items), interpreted here, equals the model's cmd_env for every sandbox mode, sandbox
      configuration, caller and list - so a statement that seeds cmd.Env from anything else (os.Environ(), say),
      drops or reorders an append, or guards it differently makes THIS lemma false (not just a text comparison);
      a guard, base or item the interpreter does not know yields None (fail closed). *)
Definition guard_holds (g : string) (mode : sandbox_mode) : option bool :=
  if String.eqb g "" then Some true
  else if String.eqb g "sandbox != NoSandbox" then Some (match mode with SbNone => false | _ => true end)
  else if String.eqb g "sandbox != NoSandbox && e.usePleaseSandbox" then Some (match mode with SbBuiltin => true | _ => false end)
  else if String.eqb g "sandbox != NoSandbox && !(e.usePleaseSandbox)" then Some (match mode with SbTool => true | _ => false end)
  else None.

Definition item_entries (it : string) (uid : str) (net mount : bool) (e : env) : option env :=
  if String.eqb it """SANDBOX_UID="" + strconv.Itoa(os.Getuid())" then Some [(s "SANDBOX_UID", uid)]
  else if String.eqb it """SHARE_NETWORK="" + boolToString(!sandbox.Network)" then Some [(s "SHARE_NETWORK", bool01 (negb net))]
  else if String.eqb it """SHARE_MOUNT="" + boolToString(!sandbox.Mount)" then Some [(s "SHARE_MOUNT", bool01 (negb mount))]
  else if String.eqb it "env..." then Some e
  else None.

Fixpoint items_entries (its : list string) (uid : str) (net mount : bool) (e : env) : option env :=
  match its with
  | [] => Some []
  | [it] => item_entries it uid net mount e
  | it :: r => match item_entries it uid net mount e, items_entries r uid net mount e with
               | Some a, Some b => Some (a ++ b)
               | _, _ => None
               end
  end.

(* what the new value of cmd.Env starts from *)
Definition base_env (b : string) (caller acc : env) : option env :=
  if String.eqb b "cmd.Env" then Some acc
  else if String.eqb b "<fresh>" then Some []              (* cmd = exec.Command(...): Env is nil *)
  else if String.eqb b "os.Environ()" then Some caller     (* understood, so that the lemma below is FALSE rather than stuck *)
  else None.

Fixpoint interp_env_prog (prog : list (string * string * string * list string)) (mode : sandbox_mode) (uid : str)
         (net mount : bool) (caller e acc : env) : option env :=
  match prog with
  | [] => Some acc
  | (_, g, b, its) :: r =>
      match guard_holds g mode with
      | None => None
      | Some false => interp_env_prog r mode uid net mount caller e acc
      | Some true =>
          match base_env b caller acc, items_entries its uid net mount e with
          | Some b0, Some l => interp_env_prog r mode uid net mount caller e (b0 ++ l)
          | _, _ => None
          end
      end
  end.

Lemma exec_env_prog_ok : forall mode uid net mount caller e,
  interp_env_prog Gen.C10Env.exec_env_prog mode uid net mount caller e [] = Some (cmd_env mode uid net mount e).
Proof. intros mode uid net mount caller e. destruct mode; reflexivity. Qed.

(* ==== round-2 follow-up: statements TRANSLATED from the source (Gen/C10Env.v), interpreted here ==== *)

(* 6. How the two pass loops of TargetEnvironment and the pass_env loop of ruleHash read the caller's variable.
      gotrans classifies each loop body: "getenv" (x = os.Getenv(k)), "lookupenv" (if x, ok := os.LookupEnv(k); ok {...}),
      anything else is "other:..." and has no interpretation (None: every lemma below fails). *)
Definition parse_mode (m : string) : option read_mode :=
  if String.eqb m "getenv" then Some RGetenv else if String.eqb m "lookupenv" then Some RLookup else None.

Definition gen_modes : option (read_mode * read_mode * read_mode) :=
  match Gen.C10Env.pass_read_modes with
  | [(f1, l1, m1); (f2, l2, m2); (f3, l3, m3)] =>
      if (String.eqb f1 "TargetEnvironment" && String.eqb l1 "*target.PassUnsafeEnv" &&
          String.eqb f2 "TargetEnvironment" && String.eqb l2 "*target.PassEnv" &&
          String.eqb f3 "ruleHash" && String.eqb l3 "*target.PassEnv")%bool
      then match parse_mode m1, parse_mode m2, parse_mode m3 with
           | Some a, Some b, Some c => Some (a, b, c)
           | _, _, _ => None
           end
      else None
  | _ => None
  end.

(* the source reads all three with os.Getenv: the model's target_env / pass_env_stream are that instance *)
Lemma gen_modes_ok : gen_modes = Some (RGetenv, RGetenv, RGetenv).
Proof. reflexivity. Qed.

(* With the read modes THE SOURCE HAS: the environment side is not finer than the hash side, the model is the
   corresponding instance, and callers the hash cannot tell apart get the same TargetEnvironment.  A source in which
   TargetEnvironment uses os.LookupEnv while ruleHash keeps os.Getenv gives gen_modes = Some (RLookup, RLookup, RGetenv):
   this theorem is then FALSE (Proof.C10_R2.lookup_vs_getenv_refuted) and its proof no longer checks. *)
Theorem gen_env_function_of_hashed : forall mu me mh,
  gen_modes = Some (mu, me, mh) ->
  mode_le me mh = true
  /\ (forall cfg t c, target_env cfg t c = target_env_m mu me cfg t c)
  /\ (forall cfg t c1 c2,
        agree c1 c2 (c_pass_unsafe cfg ++ c_pass_env cfg) ->
        (forall n, In n (opt_list (t_pass_unsafe t)) -> read_view mu c1 n = read_view mu c2 n) ->
        hashed_view mh t c1 = hashed_view mh t c2 ->
        target_env_m mu me cfg t c1 = target_env_m mu me cfg t c2).
Proof.
  intros mu me mh H. rewrite gen_modes_ok in H. injection H as <- <- <-.
  split; [reflexivity|]. split.
  - intros; symmetry; apply target_env_m_unchanged.
  - intros cfg t c1 c2. now apply target_env_m_hashed.
Qed.

(* 7. needsBuilding: the sequence of reasons to rebuild, and what Build() does when the action fails. *)
Definition parse_check (c : string) : option nb_check :=
  if String.eqb c "metadata" then Some NbMetadata else if String.eqb c "config" then Some NbConfig
  else if String.eqb c "rule" then Some NbRule else if String.eqb c "source" then Some NbSource
  else if String.eqb c "secret" then Some NbSecret else if String.eqb c "outputs" then Some NbOutputs
  else if String.eqb c "force" then Some NbForce else None.

Fixpoint parse_checks (l : list string) : option (list nb_check) :=
  match l with
  | [] => Some []
  | c :: r => match parse_check c, parse_checks r with Some a, Some b => Some (a :: b) | _, _ => None end
  end.

Definition gen_checks : option (list nb_check) := parse_checks Gen.C10Env.needs_building_checks.
Definition gen_removes : bool := existsb (String.eqb "RemoveOutputs") Gen.C10Env.build_failure_calls.

Lemma gen_checks_ok : gen_checks = Some nb_checks_unchanged.
Proof. reflexivity. Qed.

Lemma build_failure_calls_ok :
  Gen.C10Env.build_failure_calls = ["state.LogBuildError"; "RemoveOutputs"; "target.SetState"; "target.FinishBuild"; "return"]%string.
Proof. reflexivity. Qed.

(* With the checks THE SOURCE HAS (whatever Build() does on failure, whichever hash store): after any history a
   successful invocation leaves the outputs of the current hashed bytes, and it re-ran the action exactly when the
   outputs on disk were not those.  A source without the existence check gives a list that does not cover:
   the statement is then false for side files (Proof.C10_R2.no_outputs_check_refuted) and this proof fails. *)
Theorem gen_history_fresh : forall checks,
  gen_checks = Some checks ->
  forall xattrs h key ok st' ran,
    let st := fst (run_history checks gen_removes xattrs o_init h) in
    build_once checks gen_removes xattrs key ok st = (st', (ran, true)) ->
    o_out st' = Some key /\ ran = negb (okey_eqb (o_out st) (Some key)).
Proof.
  intros checks H. rewrite gen_checks_ok in H. injection H as <-.
  intros xattrs h key ok st' ran. apply history_fresh. reflexivity.
Qed.

(* 8. The built-in remote_file action: which mapping expands the URL and the header values, and where env comes from. *)
Definition pair_eqb (a b : string * string) : bool := (String.eqb (fst a) (fst b) && String.eqb (snd a) (snd b))%bool.
Definition rf_expands (url_map hdr_map : string) : list (string * string) :=
  [("env", "core.BuildEnvironment"); ("url", url_map); ("header:v", hdr_map); ("header:set", "v")]%string.

Definition gen_hdr_mode : option hdr_mode :=
  if list_eqb pair_eqb Gen.C10Env.remote_file_expands (rf_expands "env.ReplaceEnvironment" "env.ReplaceEnvironment") then Some HTargetEnv
  else if list_eqb pair_eqb Gen.C10Env.remote_file_expands (rf_expands "env.ReplaceEnvironment" "os.Getenv") then Some HShellEnv
  else None.

Lemma gen_hdr_mode_ok : gen_hdr_mode = Some HTargetEnv.
Proof. reflexivity. Qed.

(* the only direct reads of the caller's environment in fetchOneRemoteFile / setHeaders: ~ in the PATHS of
   secret_header / password_file files (fs.ExpandHomePath reads HOME) - the files' contents are outside this model *)
Lemma remote_file_reads_ok :
  Gen.C10Env.remote_file_reads = [("setHeaders", "fs.ExpandHomePath(v)"); ("setHeaders", "fs.ExpandHomePath(value)")]%string.
Proof. reflexivity. Qed.

(* With the mapping THE SOURCE USES, a header value is determined by configuration, target and the listed variables.
   os.ExpandEnv gives gen_hdr_mode = Some HShellEnv, for which the statement is false (header_shell_refuted). *)
Theorem gen_header_determined : forall m,
  gen_hdr_mode = Some m ->
  forall cfg t tmp c1 c2 e1 e2 raw,
    NoDup (map fst (t_env t)) -> Permutation.Permutation e1 (t_env t) -> Permutation.Permutation e2 (t_env t) -> agree c1 c2 (reads cfg t) ->
    header_value m cfg (with_env t e1) tmp c1 raw = header_value m cfg (with_env t e2) tmp c2 raw.
Proof.
  intros m H. rewrite gen_hdr_mode_ok in H. injection H as <-. intros. now apply header_determined.
Qed.
