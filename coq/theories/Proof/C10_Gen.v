(* C10 - ties between the model and the skeleton gotrans regenerates from /repo on every run (Gen/C10Env.v).
   A change of the anchored functions that adds, removes or reorders an assignment to the environment map, a read of
   the caller's environment, a write to exec.Cmd.Env or the hashed name=value loops changes Gen/C10Env.v and breaks one
   of the lemmas below. *)
From Coq Require Import String.
From PlzV Require Import Base.Harness Model.C10 Proof.C10.
From PlzV Require Gen.C10Env.

(* 1. Every read of the caller's environment on the path from a target to its command's environment and hashes.
      TargetEnvironment: the two os.Getenv(e) range over *target.PassUnsafeEnv and *target.PassEnv (env_keys below);
      BuildEnvironment: fs.ExpandHomePath reads HOME (Model: secrets_value, code_reads);
      setBuildPath: PATH, only under `if i == "PATH"` over the two pass lists (Model: build_path);
      getBuildEnv: os.LookupEnv(k) for k in the pass lists (Model: add_env_step);
      ruleHash: os.Getenv(env) for env in *target.PassEnv (Model: pass_env_stream).
      Nothing else: toolsEnv/toolPath/resolveOut, Hash, GetBuildEnv, ExecWithTimeout and ExecCommand read nothing. *)
Lemma caller_reads_ok :
  Gen.C10Env.caller_reads =
  [("TargetEnvironment", "os.Getenv(e)"); ("TargetEnvironment", "os.Getenv(e)");
   ("BuildEnvironment", "fs.ExpandHomePath(strings.Join(target.Secrets, "":""))");
   ("BuildEnvironment", "fs.ExpandHomePath(strings.Join(secrets, "":""))");
   ("setBuildPath", "os.Getenv(""PATH"")"); ("setBuildPath", "os.Getenv(""PATH"")");
   ("getBuildEnv", "os.LookupEnv(k)"); ("ruleHash", "os.Getenv(env)")]%string.
Proof. reflexivity. Qed.

(* 2. The command gets exactly the environment it is given: cmd.Env is only ever appended to, from the env argument
      and (sandboxed commands only) three fixed SANDBOX_UID / SHARE_* entries; it is never os.Environ(). *)
Lemma cmd_env_ok :
  Gen.C10Env.cmd_env =
  [("ExecWithTimeout", "cmd.Env = append(cmd.Env, env...)");
   ("ExecCommand", "cmd.Env = append(cmd.Env, ""SANDBOX_UID=""+strconv.Itoa(os.Getuid()))");
   ("ExecCommand", "cmd.Env = append(cmd.Env, ""SHARE_NETWORK=""+boolToString(!sandbox.Network), ""SHARE_MOUNT=""+boolToString(!sandbox.Mount))")]%string.
Proof. reflexivity. Qed.

(* 3. What is hashed of the environment (Model: config_env_stream, pass_env_stream). *)
Lemma hash_env_ok :
  Gen.C10Env.hash_env =
  [("Hash", "env := config.getBuildEnv(false, false)");
   ("Hash", "for _, k := range slices.Sorted(maps.Keys(env)) { if !strings.HasPrefix(k, ""SECRET"") { h.Write([]byte(k)) h.Write([]byte{'='}) h.Write([]byte(env[k])) } }");
   ("ruleHash", "if target.PassEnv != nil { for _, env := range *target.PassEnv { h.Write([]byte(env)) h.Write([]byte{'='}) h.Write([]byte(os.Getenv(env))) } }")]%string.
Proof. reflexivity. Qed.

(* 4. The model assigns the same keys in the same order as the source: on a sample that takes every branch, the
      first-assignment order of the model's map is the regenerated key skeleton, instantiated. *)
Definition sample_cfg : config :=
  {| c_lang := s "L"; c_arch := s "amd64"; c_os := s "linux"; c_pkg_config_path := s "/pc";
     c_buildenv := [(s "be", s "1")]; c_pass_unsafe := [s "PU_C"]; c_pass_env := [s "PE_C"];
     c_location := s "/loc"; c_path := [s "/bin"]; c_remote_url := []; c_build_config := s "opt";
     c_nonce := s "n"; c_licences_reject := [] |}.
Definition sample_target : target :=
  {| t_pkg := s "p"; t_pkg_dir := s "p"; t_name := s "t"; t_local := false;
     t_pass_unsafe := Some [s "PU_T"]; t_pass_env := Some [s "PE_T"];
     t_srcs := [s "p/a"]; t_outs := [s "o"]; t_src_list_files := false;
     t_named_srcs := [(s "n", [s "p/a"])]; t_named_outs := [(s "n", [s "o"])]; t_tools := [s "/bin/x"];
     t_secrets := [s "~/a"]; t_named_secrets := [(s "n", [s "/b"])]; t_env := [(s "UE", s "$PE_T")] |}.
Definition sample_caller : env :=
  [(s "PU_C", s "1"); (s "PE_C", s "2"); (s "PU_T", s "3"); (s "PE_T", s "4"); (s "HOME", s "/h")].

Definition inst (k : string) : list str :=
  if String.eqb k "<add:state.Config.GetBuildEnv()>" then [s "BE"; s "PU_C"; s "PE_C"; s "PATH"]
  else if String.eqb k "<call:GeneralBuildEnvironment>" then []
  else if String.eqb k "<call:TargetEnvironment>" then []
  else if String.eqb k "<call:withUserProvidedEnv>" then []
  else if String.eqb k "<range:*target.PassUnsafeEnv>" then [s "PU_T"]
  else if String.eqb k "<range:*target.PassEnv>" then [s "PE_T"]
  else if String.eqb k "SRCS_<N>" then [s "SRCS_N"]
  else if String.eqb k "OUTS_<N>" then [s "OUTS_N"]
  else if String.eqb k "SECRETS_<N>" then [s "SECRETS_N"]
  else if String.eqb k "<add:toolsEnv(state, target.AllTools(), target.namedTools, """", abs)>" then [s "TOOLS"; s "TOOL"]
  else if String.eqb k "<range:keys>" then [s "UE"]            (* the SORTED keys of target.Env *)
  else if String.eqb k "SANDBOX_DIRS" then []                  (* sandboxed targets: not modelled *)
  else if String.eqb k "GENDIR" then []                        (* Bazel compatibility: not modelled *)
  else if String.eqb k "BINDIR" then []
  else [s k].

Lemma env_keys_tie :
  map fst (build_env sample_cfg sample_target (s "/tmp/b") sample_caller) = flat_map inst (map snd Gen.C10Env.env_keys).
Proof. vm_compute. reflexivity. Qed.

(* and on that sample every listed variable, and nothing else of the caller, is visible *)
Lemma sample_visible :
  let e := build_env sample_cfg sample_target (s "/tmp/b") sample_caller in
  lookup (s "PU_C") e = Some (s "1") /\ lookup (s "PE_C") e = Some (s "2") /\ lookup (s "PU_T") e = Some (s "3")
  /\ lookup (s "PE_T") e = Some (s "4") /\ lookup (s "UE") e = Some (s "4") /\ lookup (s "SECRETS") e = Some (s "/h/a")
  /\ lookup (s "HOME") e = Some (s "/tmp/b").
Proof. vm_compute. repeat split. Qed.
