(* C10 - ties between the model and the skeleton gotrans regenerates from /repo on every run (Gen/C10Env.v).
   A change of the anchored functions that adds, removes or reorders an assignment to the environment map, a read of
   the caller's environment, a write to exec.Cmd.Env or the hashed name=value loops changes Gen/C10Env.v and breaks one
   of the lemmas below. *)
From Coq Require Import String.
From PlzV Require Import Base.Harness Model.C10 Proof.C10.
From PlzV Require Gen.C10Env.

(* 1. Every read of the caller's environment on the path from a target to its command's environment and hashes.
      TargetEnvironment: the two os.Getenv(e) range over *target.PassUnsafeEnv and *target.PassEnv (env_keys below);
      BuildEnvironment: fs.ExpandHomePath reads HOME (Model: secrets_value, code_reads);
      setBuildPath: PATH, only under `if i == "PATH"` over the two pass lists (Model: build_path);
      getBuildEnv: os.LookupEnv(k) for k in the pass lists (Model: add_env_step);
      ruleHash: os.Getenv(env) for env in *target.PassEnv (Model: pass_env_stream).
      Nothing else: toolsEnv/toolPath/resolveOut, Hash, GetBuildEnv, ExecWithTimeout and ExecCommand read nothing. *)
Lemma caller_reads_ok :
  Gen.C10Env.caller_reads =
  [("TargetEnvironment", "os.Getenv(e)"); ("TargetEnvironment", "os.Getenv(e)");
   ("BuildEnvironment", "fs.ExpandHomePath(strings.Join(target.Secrets, "":""))");
   ("BuildEnvironment", "fs.ExpandHomePath(strings.Join(secrets, "":""))");
   ("setBuildPath", "os.Getenv(""PATH"")"); ("setBuildPath", "os.Getenv(""PATH"")");
   ("getBuildEnv", "os.LookupEnv(k)"); ("ruleHash", "os.Getenv(env)")]%string.
Proof. reflexivity. Qed.

(* 2. The command gets exactly the environment it is given: cmd.Env is only ever appended to, from the env argument
      and (sandboxed commands only) three fixed SANDBOX_UID / SHARE_* entries; it is never os.Environ(). *)
Lemma cmd_env_ok :
  Gen.C10Env.cmd_env =
  [("ExecWithTimeout", "cmd.Env = append(cmd.Env, env...)");
   ("ExecCommand", "cmd.Env = append(cmd.Env, ""SANDBOX_UID=""+strconv.Itoa(os.Getuid()))");
   ("ExecCommand", "cmd.Env = append(cmd.Env, ""SHARE_NETWORK=""+boolToString(!sandbox.Network), ""SHARE_MOUNT=""+boolToString(!sandbox.Mount))")]%string.
Proof. reflexivity. Qed.

(* 3. What is hashed of the environment (Model: config_env_stream, pass_env_stream). *)
Lemma hash_env_ok :
  Gen.C10Env.hash_env =
  [("Hash", "env := config.getBuildEnv(false, false)");
   ("Hash", "for _, k := range slices.Sorted(maps.Keys(env)) { if !strings.HasPrefix(k, ""SECRET"") { h.Write([]byte(k)) h.Write([]byte{'='}) h.Write([]byte(env[k])) } }");
   ("ruleHash", "if target.PassEnv != nil { for _, env := range *target.PassEnv { h.Write([]byte(env)) h.Write([]byte{'='}) h.Write([]byte(os.Getenv(env))) } }")]%string.
Proof. reflexivity. Qed.

(* 4. The model assigns the same keys in the same order as the source: on a sample that takes every branch, the
      first-assignment order of the model's map is the regenerated key skeleton, instantiated. *)
Definition sample_cfg : config :=
  {| c_lang := s "L"; c_arch := s "amd64"; c_os := s "linux"; c_pkg_config_path := s "/pc";
     c_buildenv := [(s "be", s "1")]; c_pass_unsafe := [s "PU_C"]; c_pass_env := [s "PE_C"];
     c_location := s "/loc"; c_path := [s "/bin"]; c_remote_url := []; c_build_config := s "opt";
     c_nonce := s "n"; c_licences_reject := [] |}.
Definition sample_target : target :=
  {| t_pkg := s "p"; t_pkg_dir := s "p"; t_name := s "t"; t_local := false;
     t_pass_unsafe := Some [s "PU_T"]; t_pass_env := Some [s "PE_T"];
     t_srcs := [s "p/a"]; t_outs := [s "o"]; t_src_list_files := false;
     t_named_srcs := [(s "n", [s "p/a"])]; t_named_outs := [(s "n", [s "o"])]; t_tools := [s "/bin/x"];
     t_secrets := [s "~/a"]; t_named_secrets := [(s "n", [s "/b"])]; t_env := [(s "UE", s "$PE_T")] |}.
Definition sample_caller : env :=
  [(s "PU_C", s "1"); (s "PE_C", s "2"); (s "PU_T", s "3"); (s "PE_T", s "4"); (s "HOME", s "/h")].

Definition inst (k : string) : list str :=
  if String.eqb k "<add:state.Config.GetBuildEnv()>" then [s "BE"; s "PU_C"; s "PE_C"; s "PATH"]
  else if String.eqb k "<call:GeneralBuildEnvironment>" then []
  else if String.eqb k "<call:TargetEnvironment>" then []
  else if String.eqb k "<call:withUserProvidedEnv>" then []
  else if String.eqb k "<range:*target.PassUnsafeEnv>" then [s "PU_T"]
  else if String.eqb k "<range:*target.PassEnv>" then [s "PE_T"]
  else if String.eqb k "SRCS_<N>" then [s "SRCS_N"]
  else if String.eqb k "OUTS_<N>" then [s "OUTS_N"]
  else if String.eqb k "SECRETS_<N>" then [s "SECRETS_N"]
  else if String.eqb k "<add:toolsEnv(state, target.AllTools(), target.namedTools, """", abs)>" then [s "TOOLS"; s "TOOL"]
  else if String.eqb k "<range:keys>" then [s "UE"]            (* the SORTED keys of target.Env *)
  else if String.eqb k "SANDBOX_DIRS" then []                  (* sandboxed targets: not modelled *)
  else if String.eqb k "GENDIR" then []                        (* Bazel compatibility: not modelled *)
  else if String.eqb k "BINDIR" then []
  else [s k].

Lemma env_keys_tie :
  map fst (build_env sample_cfg sample_target (s "/tmp/b") sample_caller) = flat_map inst (map snd Gen.C10Env.env_keys).
Proof. vm_compute. reflexivity. Qed.

(* and on that sample every listed variable, and nothing else of the caller, is visible *)
Lemma sample_visible :
  let e := build_env sample_cfg sample_target (s "/tmp/b") sample_caller in
  lookup (s "PU_C") e = Some (s "1") /\ lookup (s "PE_C") e = Some (s "2") /\ lookup (s "PU_T") e = Some (s "3")
  /\ lookup (s "PE_T") e = Some (s "4") /\ lookup (s "UE") e = Some (s "4") /\ lookup (s "SECRETS") e = Some (s "/h/a")
  /\ lookup (s "HOME") e = Some (s "/tmp/b").
Proof. vm_compute. repeat split. Qed.

(* 5. The command-environment PROGRAM of ExecCommand / ExecWithTimeout, translated statement by statement by gotrans
      (guard, base, appended items), interpreted here, equals the model's cmd_env for every sandbox mode, sandbox
      configuration, caller and list - so a statement that seeds cmd.Env from anything else (os.Environ(), say),
      drops or reorders an append, or guards it differently makes THIS lemma false (not just a text comparison);
      a guard, base or item the interpreter does not know yields None (fail closed). *)
Definition guard_holds (g : string) (mode : sandbox_mode) : option bool :=
  if String.eqb g "" then Some true
  else if String.eqb g "sandbox != NoSandbox" then Some (match mode with SbNone => false | _ => true end)
  else if String.eqb g "sandbox != NoSandbox && e.usePleaseSandbox" then Some (match mode with SbBuiltin => true | _ => false end)
  else if String.eqb g "sandbox != NoSandbox && !(e.usePleaseSandbox)" then Some (match mode with SbTool => true | _ => false end)
  else None.

Definition item_entries (it : string) (uid : str) (net mount : bool) (e : env) : option env :=
  if String.eqb it """SANDBOX_UID="" + strconv.Itoa(os.Getuid())" then Some [(s "SANDBOX_UID", uid)]
  else if String.eqb it """SHARE_NETWORK="" + boolToString(!sandbox.Network)" then Some [(s "SHARE_NETWORK", bool01 (negb net))]
  else if String.eqb it """SHARE_MOUNT="" + boolToString(!sandbox.Mount)" then Some [(s "SHARE_MOUNT", bool01 (negb mount))]
  else if String.eqb it "env..." then Some e
  else None.

Fixpoint items_entries (its : list string) (uid : str) (net mount : bool) (e : env) : option env :=
  match its with
  | [] => Some []
  | [it] => item_entries it uid net mount e
  | it :: r => match item_entries it uid net mount e, items_entries r uid net mount e with
               | Some a, Some b => Some (a ++ b)
               | _, _ => None
               end
  end.

(* what the new value of cmd.Env starts from *)
Definition base_env (b : string) (caller acc : env) : option env :=
  if String.eqb b "cmd.Env" then Some acc
  else if String.eqb b "<fresh>" then Some []              (* cmd = exec.Command(...): Env is nil *)
  else if String.eqb b "os.Environ()" then Some caller     (* understood, so that the lemma below is FALSE rather than stuck *)
  else None.

Fixpoint interp_env_prog (prog : list (string * string * string * list string)) (mode : sandbox_mode) (uid : str)
         (net mount : bool) (caller e acc : env) : option env :=
  match prog with
  | [] => Some acc
  | (_, g, b, its) :: r =>
      match guard_holds g mode with
      | None => None
      | Some false => interp_env_prog r mode uid net mount caller e acc
      | Some true =>
          match base_env b caller acc, items_entries its uid net mount e with
          | Some b0, Some l => interp_env_prog r mode uid net mount caller e (b0 ++ l)
          | _, _ => None
          end
      end
  end.

Lemma exec_env_prog_ok : forall mode uid net mount caller e,
  interp_env_prog Gen.C10Env.exec_env_prog mode uid net mount caller e [] = Some (cmd_env mode uid net mount e).
Proof. intros mode uid net mount caller e. destruct mode; reflexivity. Qed.
