(* C17 follow-up - the two facts about the anchored Go code that the frame theorem (Proof/C17_Main.v) uses implicitly,
   stated explicitly and tied to what gotrans reads off the source (Gen/C17Freeze.v):

   (U) pyDict.Operator(Union): `d | e` ALWAYS returns a dict that did not exist before - for every pair of operands,
       the empty ones included - so the result is Free in every classification the invariant admits, and no object
       that existed before is written.  (A fast path `if len(e) == 0 { return d }` would hand out, for a frozen
       receiver, the inner unfrozen map that every package shares.)
   (F) scope.Freeze: the loop freezes the value of EVERY name of the file scope, however the name is spelt - there is
       no filter on the name.  subinclude() imports private names too (SetAll with publicOnly = false), so a skipped
       name would reach every package as a mutable reference to an object all of them share; such a state is not a
       `frozen_state`, i.e. the hypothesis of the frame theorem fails.

   Both are proved for the TRANSLATED code (c17_dict_union_steps, c17_scope_freeze_skips) by general theorems over all
   step programs / all filters (induction), instantiated with what gotrans generated; and the translated code is shown
   to be the model's (Model/C16_Eval.v apply_bin Union, freeze_env). *)
From Coq Require Import Lia.
From PlzV Require Import Base.Harness Base.StrFacts Gen.C17Freeze Model.C16_Syntax Model.C16_Ops Model.C16_Prim Model.C16_Eval Model.C16.
From PlzV Require Import Proof.C17_Inv Proof.C17_Main.
Local Open Scope nat_scope.

(* ================================================================ (U) dict union, statement by statement *)
Definition side_dict (sd : c17_side) (i j : nat) : nat := match sd with C17Left => i | C17Right => j end.

Definition merge_into (m src : list (str * value)) : list (str * value) :=
  fold_left (fun acc kv => env_set (fst kv) (snd kv) acc) src m.

(* i = the receiver d, j = the operand d2, ret = the map under construction (None before the make).  The result of
   `make` gets its identity when it is returned: nothing else touches the heap in between. *)
Fixpoint run_union (steps : list c17_ustep) (i j : nat) (ret : option (list (str * value))) (st : state) : option (value * state) :=
  match steps with
  | [] => None                                 (* fell off the end of the clause *)
  | C17Check :: r => run_union r i j ret st    (* the operand is a pyDict here *)
  | C17ReturnIfEmpty t rt :: r =>
      match dict_of st (side_dict t i j) with
      | [] => Some (VDict (side_dict rt i j), st)
      | _ => run_union r i j ret st
      end
  | C17Make :: r => run_union r i j (Some []) st
  | C17Copy sd :: r =>
      match ret with
      | None => None
      | Some m => run_union r i j (Some (merge_into m (dict_of st (side_dict sd i j)))) st
      end
  | C17ReturnRet :: _ =>
      match ret with
      | None => None
      | Some m => let '(n, st1) := alloc_dict m st in Some (VDict n, st1)
      end
  end.

(* the executable classifier: the clause never returns one of its operands *)
Fixpoint steps_fresh (steps : list c17_ustep) : bool :=
  match steps with
  | [] => true
  | C17ReturnIfEmpty _ _ :: _ => false
  | _ :: r => steps_fresh r
  end.

(* GENERAL: every clause without an operand return, on every pair of operands and every heap, from every point of
   its execution: whatever it returns is a dict that did not exist, and nothing that existed is written. *)
Theorem fresh_steps_return_new_dict : forall steps i j ret st v st',
  steps_fresh steps = true ->
  run_union steps i j ret st = Some (v, st') ->
  v = VDict (length (dicts st))
  /\ arrays st' = arrays st
  /\ (exists m, dicts st' = dicts st ++ [m])
  /\ (forall k, k < length (dicts st) -> dict_of st' k = dict_of st k).
Proof.
  induction steps as [|s0 r IH]; intros i j ret st v st' Hf H; cbn [run_union] in H; [discriminate|].
  destruct s0; cbn [steps_fresh] in Hf; try discriminate.
  - exact (IH _ _ _ _ _ _ Hf H).
  - exact (IH _ _ _ _ _ _ Hf H).
  - destruct ret as [m|]; [|discriminate]. exact (IH _ _ _ _ _ _ Hf H).
  - destruct ret as [m|]; [|discriminate]. unfold alloc_dict in H. injection H as <- <-.
    repeat split.
    + exists m. reflexivity.
    + intros k Hk. unfold dict_of. cbn [dicts set_dicts]. apply app_nth1. exact Hk.
Qed.

(* SHARPNESS: a clause that starts with the fast path of seeded mutation m1 returns the receiver itself when the
   operand is empty (and the operand when the receiver is): the classifier is not over-cautious. *)
Lemma early_return_returns_operand : forall t rt r i j ret st,
  dict_of st (side_dict t i j) = [] ->
  run_union (C17Check :: C17ReturnIfEmpty t rt :: r) i j ret st = Some (VDict (side_dict rt i j), st).
Proof. intros t rt r i j ret st H. cbn [run_union]. rewrite H. reflexivity. Qed.

(* ---- what gotrans read off objects.go ---- *)
Definition union_translated (i j : nat) (st : state) : option (value * state) := run_union c17_dict_union_steps i j None st.

(* breaks when the clause gets a fast path *)
Lemma union_steps_pinned : steps_fresh c17_dict_union_steps = true.
Proof. reflexivity. Qed.

(* total: the translated clause returns on every input *)
Lemma union_translated_total : forall i j st,
  union_translated i j st
  = Some (VDict (length (dicts st)), set_dicts (dicts st ++ [merge_into (merge_into [] (dict_of st i)) (dict_of st j)]) st).
Proof. intros i j st. reflexivity. Qed.

(* (U), for the translated code: for ALL operands - empty or not, equal or not - the result is new *)
Theorem union_always_new : forall i j st, exists st',
  union_translated i j st = Some (VDict (length (dicts st)), st')
  /\ arrays st' = arrays st
  /\ (exists m, dicts st' = dicts st ++ [m])
  /\ (forall k, k < length (dicts st) -> dict_of st' k = dict_of st k).
Proof.
  intros i j st. eexists. split; [apply union_translated_total|].
  destruct (fresh_steps_return_new_dict _ i j None st _ _ union_steps_pinned (union_translated_total i j st)) as (_ & Ha & Hm & Hk).
  exact (conj Ha (conj Hm Hk)).
Qed.

(* ---- the translated clause is the union of the evaluator ---- *)
Lemma env_set_fresh : forall k v (acc : list (str * value)),
  ~ List.In k (map (@fst _ _) acc) -> env_set k v acc = acc ++ [(k, v)].
Proof.
  intros k v acc. induction acc as [|[k0 w] r IH]; intros H; cbn [env_set app]; [reflexivity|].
  cbn [map fst List.In] in H.
  destruct (str_eqb k k0) eqn:E.
  - apply str_eqb_eq in E. subst. exfalso. apply H. now left.
  - rewrite IH; [reflexivity|]. intros Hin. apply H. now right.
Qed.

Lemma merge_into_disjoint : forall (src acc : list (str * value)),
  NoDup (map (@fst _ _) src) -> (forall k, List.In k (map (@fst _ _) src) -> ~ List.In k (map (@fst _ _) acc)) ->
  merge_into acc src = acc ++ src.
Proof.
  unfold merge_into. induction src as [|[k v] r IH]; intros acc ND Hd; cbn [fold_left]; [now rewrite app_nil_r|].
  cbn [map fst] in ND. inversion ND as [|? ? Hk ND']; subst. cbn [fst snd].
  rewrite env_set_fresh by (apply Hd; now left).
  rewrite IH; [now rewrite <- app_assoc|exact ND'|].
  intros k0 Hin. rewrite map_app, in_app_iff. cbn [map fst List.In]. intros [Ha|[<-|[]]].
  - exact (Hd k0 (or_intror Hin) Ha).
  - exact (Hk Hin).
Qed.

(* the receiver may be the frozen wrapper: the embedded method runs on the inner map *)
Definition dict_ref (a : value) (i : nat) : Prop := a = VDict i \/ a = VFrozenDict i.

Lemma union_translated_is_apply_bin : forall fuel a i j st,
  dict_ref a i -> NoDup (map (@fst _ _) (dict_of st i)) ->
  apply_bin Asp fuel Union a (VDict j) st = match union_translated i j st with Some r => Ok r | None => Err EUnsupported end.
Proof.
  intros fuel a i j st Ha ND. rewrite union_translated_total.
  rewrite (merge_into_disjoint (dict_of st i) [] ND) by (intros k _ []).
  destruct Ha as [-> | ->]; reflexivity.
Qed.

(* (U), for the evaluator the frame theorem is about, WITHOUT any well-formedness hypothesis: for every receiver
   (plain or frozen) and every operand, `a | b` evaluates to a dict that is Free in every classification the
   invariant admits (i_cd: everything not Free already exists), hence `vok`; and no array and no existing dict
   changes.  In particular a package may write to the result of IMPORTED | {} without touching the import. *)
Theorem model_union_result_free : forall (ca cd : nat -> mode) (pf : nat -> bool) fuel a i j st v st',
  dict_ref a i ->
  (forall k, cd k <> Free -> k < length (dicts st)) ->
  apply_bin Asp fuel Union a (VDict j) st = Ok (v, st') ->
  v = VDict (length (dicts st))
  /\ vok ca cd pf v
  /\ arrays st' = arrays st
  /\ (forall k, k < length (dicts st) -> dict_of st' k = dict_of st k).
Proof.
  intros ca cd pf fuel a i j st v st' Ha Hcd H.
  assert (E : apply_bin Asp fuel Union a (VDict j) st
              = Ok (VDict (length (dicts st)),
                    set_dicts (dicts st ++ [fold_left (fun acc kv => env_set (fst kv) (snd kv) acc) (dict_of st j) (dict_of st i)]) st))
    by (destruct Ha as [-> | ->]; reflexivity).
  rewrite E in H. injection H as <- <-. repeat split.
  - unfold vok, vokb. destruct (cd (length (dicts st))) eqn:Ec; [reflexivity| |];
      (assert (Hlt : length (dicts st) < length (dicts st)) by (apply Hcd; rewrite Ec; discriminate); lia).
  - intros k Hk. unfold dict_of. cbn [dicts set_dicts]. apply app_nth1. exact Hk.
Qed.

(* the model never evaluates a union to one of its operands: the receiver and the operand are below the new id *)
Corollary model_union_not_an_operand : forall fuel a i j st v st',
  dict_ref a i -> i < length (dicts st) -> j < length (dicts st) ->
  apply_bin Asp fuel Union a (VDict j) st = Ok (v, st') -> v <> VDict i /\ v <> VDict j.
Proof.
  intros fuel a i j st v st' Ha Hi Hj H.
  destruct (model_union_result_free (fun _ => Free) (fun k => if k <? length (dicts st) then Prot else Free) (fun _ => false)
              fuel a i j st v st' Ha) as (-> & _); [|exact H|].
  - intros k Hk. destruct (k <? length (dicts st)) eqn:E; [apply Nat.ltb_lt in E; exact E|congruence].
  - split; intros E; injection E as E; lia.
Qed.

(* ================================================================ (F) scope.Freeze, with its name filter *)
Fixpoint has_prefix (p name : str) : bool :=
  match p, name with
  | [], _ => true
  | a :: p', b :: n' => N.eqb a b && has_prefix p' n'
  | _ :: _, [] => false
  end.

Definition skipped (skips : list str) (name : str) : bool := existsb (fun p => has_prefix p name) skips.

(* for k, v := range s.locals { if <k has a skipped prefix> { continue }; if f, ok := v.(freezable); ok { s.locals[k] = f.Freeze() } } *)
Definition freeze_env_f (skips : list str) (fuel : nat) (e : env) (st : state) : res (env * state) :=
  mapM (fun kv st0 => if skipped skips (fst kv) then Ok (kv, st0)
                      else do '(x, st') <- freeze fuel (snd kv) st0; Ok ((fst kv, x), st')) e st.

(* a value through which its holder can write *)
Definition is_mutable_ref (v : value) : bool := match v with VList _ | VDict _ => true | _ => false end.

Lemma freeze_not_mutable : forall fuel v st v' st', freeze fuel v st = Ok (v', st') -> is_mutable_ref v' = false.
Proof.
  intros [|f] v st v' st' H; cbn [freeze] in H; [discriminate|].
  destruct v; try (injection H as <- <-; reflexivity).
  - destruct (mapM _ _ _) as [[kvs st1]| |]; cbn [rbind] in H; try discriminate.
    unfold alloc_dict in H. injection H as <- <-. reflexivity.
  - destruct (mapM _ _ _) as [[kvs st1]| |]; cbn [rbind] in H; try discriminate.
    unfold alloc_dict in H. injection H as <- <-. reflexivity.
Qed.

(* GENERAL, for every filter, every scope and every heap (induction on the scope): the loop keeps the names, and
   every name it does not skip ends up holding a value that is not a mutable reference. *)
Theorem freeze_env_f_covers : forall skips fuel e st e' st',
  freeze_env_f skips fuel e st = Ok (e', st') ->
  map (@fst _ _) e' = map (@fst _ _) e
  /\ Forall (fun kv => skipped skips (fst kv) = false -> is_mutable_ref (snd kv) = false) e'.
Proof.
  intros skips fuel. unfold freeze_env_f.
  induction e as [|[n v] r IH]; intros st e' st' H; cbn [mapM] in H.
  - injection H as <- <-. split; [reflexivity|constructor].
  - cbn [fst snd] in H. destruct (skipped skips n) eqn:Es.
    + cbn [rbind] in H. destruct (mapM _ r st) as [[ys st2]| |] eqn:Er; cbn [rbind] in H; try discriminate.
      injection H as <- <-. destruct (IH _ _ _ Er) as (Hn & Hf). split.
      * cbn [map fst]. now rewrite Hn.
      * constructor; [cbn [fst snd]; congruence|exact Hf].
    + destruct (freeze fuel v st) as [[x st1]| |] eqn:Ef; cbn [rbind] in H; try discriminate.
      destruct (mapM _ r st1) as [[ys st2]| |] eqn:Er; cbn [rbind] in H; try discriminate.
      injection H as <- <-. destruct (IH _ _ _ Er) as (Hn & Hf). split.
      * cbn [map fst]. now rewrite Hn.
      * constructor; [cbn [fst snd]; intros _; exact (freeze_not_mutable _ _ _ _ _ Ef)|exact Hf].
Qed.

(* SHARPNESS: a skipped name keeps its value as it is - a list stays an ordinary mutable list *)
Lemma skipped_name_stays_mutable : forall skips fuel n v r st e' st',
  skipped skips n = true ->
  freeze_env_f skips fuel ((n, v) :: r) st = Ok (e', st') -> hd_error e' = Some (n, v).
Proof.
  intros skips fuel n v r st e' st' Hs H. unfold freeze_env_f in H. cbn [mapM fst] in H. rewrite Hs in H. cbn [rbind] in H.
  destruct (mapM _ r st) as [[ys st2]| |]; cbn [rbind] in H; try discriminate. injection H as <- <-. reflexivity.
Qed.

(* ---- what gotrans read off interpreter.go ---- *)
(* breaks when the loop gets a filter on the name *)
Lemma scope_freeze_pinned : c17_scope_freeze_skips = [].
Proof. reflexivity. Qed.

(* the translated loop is the model's scope.Freeze *)
Lemma freeze_env_translated_is_model : forall fuel e st, freeze_env_f c17_scope_freeze_skips fuel e st = freeze_env fuel e st.
Proof. intros fuel e st. reflexivity. Qed.

(* (F): scope.Freeze covers EVERY name, regardless of its spelling: after it no name of the file scope - public,
   _private or __dunder - holds a mutable reference. *)
Theorem scope_freeze_covers_every_name : forall fuel e st e' st',
  freeze_env fuel e st = Ok (e', st') ->
  map (@fst _ _) e' = map (@fst _ _) e /\ Forall (fun kv => is_mutable_ref (snd kv) = false) e'.
Proof.
  intros fuel e st e' st' H. rewrite <- freeze_env_translated_is_model in H.
  destruct (freeze_env_f_covers _ _ _ _ _ _ H) as (Hn & Hf). split; [exact Hn|].
  rewrite scope_freeze_pinned in Hf. eapply Forall_impl; [|exact Hf]. intros kv Hkv. apply Hkv. reflexivity.
Qed.

(* why it matters for the frame theorem: a cached export that is still a mutable reference to an object that
   exists when the packages start is incompatible with `frozen_state` - the hypothesis of C17_partial (2), (2'), (3) *)
Theorem mutable_export_not_frozen_state : forall defs dead_a dead_d st label e n v,
  List.In (label, e) (subcache st) -> List.In (n, v) e ->
  match v with
  | VList sl => s_arr sl < length (arrays st)
  | VDict i => i < length (dicts st)
  | _ => False
  end ->
  ~ frozen_state defs dead_a dead_d st.
Proof.
  intros defs dead_a dead_d st label e n v Hl He Hv HI. unfold frozen_state in HI.
  pose proof (i_sub _ _ _ _ _ _ _ HI) as Hs. rewrite Forall_forall in Hs. specialize (Hs _ Hl). cbn [snd] in Hs.
  unfold env_ok in Hs. rewrite Forall_forall in Hs. specialize (Hs _ He). cbn [snd] in Hs. unfold vok, vokb in Hs.
  destruct v; try contradiction.
  - destruct (cls_prefix (length (arrays st)) dead_a (s_arr sl)) eqn:E; try discriminate.
    exact (cls_prefix_not_free _ dead_a _ Hv E).
  - destruct (cls_prefix (length (dicts st)) dead_d id) eqn:E; try discriminate.
    exact (cls_prefix_not_free _ dead_d _ Hv E).
Qed.

(* ================================================================ non-vacuity, by computation *)
Definition ex_st : state := set_dicts [[(s "opt", VStr (s "-O2"))]; []] empty_state.

Example union_examples :
  (* IMPORTED | {} with the unchanged clause: a new dict (id 2); with the fast path of m1: the receiver itself (id 0) *)
  union_translated 0 1 ex_st = Some (VDict 2, set_dicts [[(s "opt", VStr (s "-O2"))]; []; [(s "opt", VStr (s "-O2"))]] empty_state)
  /\ run_union [C17Check; C17ReturnIfEmpty C17Right C17Left; C17ReturnIfEmpty C17Left C17Right; C17Make; C17Copy C17Left; C17Copy C17Right; C17ReturnRet]
       0 1 None ex_st = Some (VDict 0, ex_st)
  /\ steps_fresh [C17Check; C17ReturnIfEmpty C17Right C17Left; C17ReturnIfEmpty C17Left C17Right; C17Make; C17Copy C17Left; C17Copy C17Right; C17ReturnRet] = false
  /\ apply_bin Asp 8 Union (VFrozenDict 0) (VDict 1) ex_st = Ok (VDict 2, set_dicts [[(s "opt", VStr (s "-O2"))]; []; [(s "opt", VStr (s "-O2"))]] empty_state).
Proof. repeat split. Qed.

Definition ex_env : env := [(s "PUB", VList (Slice 0 0 1 1)); (s "_PRIV", VList (Slice 1 0 1 1)); (s "N", VInt 1)].
Definition ex_st2 : state := set_arrays [[VInt 1]; [VInt 2]] empty_state.

Example freeze_examples :
  (* the unchanged loop freezes both lists; with the filter of m3 ("_" = byte 95) the private one stays a mutable list *)
  freeze_env 4 ex_env ex_st2
    = Ok ([(s "PUB", VFrozenList (Slice 0 0 1 1)); (s "_PRIV", VFrozenList (Slice 1 0 1 1)); (s "N", VInt 1)], ex_st2)
  /\ freeze_env_f [[95%N]] 4 ex_env ex_st2
    = Ok ([(s "PUB", VFrozenList (Slice 0 0 1 1)); (s "_PRIV", VList (Slice 1 0 1 1)); (s "N", VInt 1)], ex_st2)
  /\ skipped [[95%N]] (s "_PRIV") = true /\ skipped [[95%N]] (s "PUB") = false.
Proof. repeat split. Qed.
