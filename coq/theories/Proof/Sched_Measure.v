(* C05 - a measure on scheduler states that every step strictly decreases: every run is finite, its length bounded by a
   linear function of the size of the graph. *)
From PlzV Require Import Base.Harness Model.Sched Proof.Sched_Base Proof.Sched_Inv.
From Coq Require Import Lia Arith.

Fixpoint sumn (n : nat) (f : nat -> nat) : nat := match n with O => 0 | S k => sumn k f + f k end.

Lemma sumn_le : forall n f f', (forall x, x < n -> f' x <= f x) -> sumn n f' <= sumn n f.
Proof.
  induction n as [|n IH]; intros f f' H; cbn; [lia|]. specialize (IH f f' ltac:(intros; apply H; lia)). specialize (H n ltac:(lia)). lia.
Qed.
Lemma sumn_dec : forall n f f' k c, (forall x, x < n -> f' x <= f x) -> k < n -> f' k + c <= f k -> sumn n f' + c <= sumn n f.
Proof.
  induction n as [|n IH]; intros f f' k c H Hk Hc; [lia|]. cbn. destruct (Nat.eq_dec k n) as [->|Hne].
  - pose proof (sumn_le n f f' ltac:(intros; apply H; lia)). lia.
  - specialize (IH f f' k c ltac:(intros; apply H; lia) ltac:(lia) Hc). specialize (H n ltac:(lia)). lia.
Qed.
Lemma sumn_bound : forall n f b, (forall x, x < n -> f x <= b x) -> sumn n f <= sumn n b.
Proof. intros. apply sumn_le. assumption. Qed.

Definition b2n (b : bool) : nat := if b then 1 else 0.

(* what is left of the life of queueTargetAsync(t), including the build task it may hand out and the parse tasks it may add *)
Definition a_pot (g : graph) (t : nat) (a : astate) : nat :=
  let d := length (g_deps g t) in
  match a with
  | ANone => 5 * d + 14
  | AQueue todo => 3 * length todo + 2 * d + 12
  | AResolve todo _ => length todo + d + 11
  | AWait todo => length todo + 9
  | AFinishing => 1
  | ADone => 0
  end.

Definition tp (g : graph) (s : state) (t : nat) : nat :=
  a_pot g t (asy s t) + b2n (negb (ex s t)) + (if st_eqb (ts s t) Inactive then 2 else 0).

Definition lw (s : state) : nat :=
  3 * length (initq s) + 2 * length (ptasks s) + length (parsers s) + length (semi s) + 6 * length (sendq s) +
  5 * length (actq s) + 4 * length (taken s) + 3 * length (building s) + 2 * length (finishing s) + length (completing s) +
  b2n (negb (initdone s)) + b2n (negb (closed s)) + b2n (negb (cycreported s)) + b2n (negb (exited s)).

Definition mu (g : graph) (s : state) : nat :=
  2 * (sumn (g_n g) (tp g s) + lw s) + (length (trace s) - nfwd s).

(* the bound: a function of the graph only *)
Definition mu_bound (g : graph) : nat :=
  2 * (sumn (g_n g) (fun t => 5 * length (g_deps g t) + 17) + 3 * length (g_req g) + 4).

Lemma mu_init : forall g, mu g (init g) <= mu_bound g.
Proof.
  intros g. unfold mu, mu_bound.
  assert (H1 : sumn (g_n g) (tp g (init g)) <= sumn (g_n g) (fun t => 5 * length (g_deps g t) + 17)).
  { apply sumn_le. intros x _. unfold tp. cbn. lia. }
  assert (H2 : lw (init g) = 3 * length (g_req g) + 4) by (unfold lw; cbn; lia).
  assert (H3 : length (trace (init g)) - nfwd (init g) = 0) by reflexivity.
  rewrite H2, H3. lia.
Qed.

Lemma tp_frame : forall g s s' x, asy s' x = asy s x -> ex s' x = ex s x -> ts s' x = ts s x -> tp g s' x = tp g s x.
Proof. intros g s s' x H1 H2 H3. unfold tp. rewrite H1, H2, H3. reflexivity. Qed.

(* activation never raises a potential (a slot is only initialised when it was empty: J) *)
Lemma tp_qr : forall g s d x, J s d -> tp g (queue_resolved g s d) x <= tp g s x.
Proof.
  intros g s d x (HA & _ & _). unfold tp. rewrite ts_qr, asy_qr, ex_qr.
  destruct (qr_ok s d) eqn:Q; cbn; [|lia]. destruct (Nat.eqb_spec x d); [subst|lia].
  unfold qr_ok in Q. apply N.ltb_lt in Q. apply HA in Q. rewrite Q. cbn. destruct (st_eqb (ts s d) Inactive); lia.
Qed.
Lemma tp_qr_strict : forall g s d, J s d -> qr_ok s d = true -> tp g (queue_resolved g s d) d + 2 <= tp g s d.
Proof.
  intros g s d (HA & _ & _) Q. unfold tp. rewrite ts_qr, asy_qr, ex_qr. rewrite Q, Nat.eqb_refl. cbn.
  unfold qr_ok in Q. apply N.ltb_lt in Q. apply HA in Q. rewrite Q. cbn. destruct (st_eqb (ts s d) Inactive); lia.
Qed.

Lemma lw_qr : forall g s d, lw (queue_resolved g s d) = lw s.
Proof. intros. unfold lw. autorewrite with proj. reflexivity. Qed.

Lemma closed_mono_b2n : forall a b, b2n (negb (a || b)) <= b2n (negb a).
Proof. intros [|] [|]; cbn; lia. Qed.

Lemma lw_task_done : forall s, lw (task_done s) <= lw s.
Proof. intros s. unfold lw. autorewrite with proj. pose proof (closed_mono_b2n (closed s) (numPending s - 1 <=? 0)%Z). lia. Qed.
Lemma lw_log_fail : forall g s p, lw (log_fail g s p) = lw s.
Proof. intros. unfold lw. autorewrite with proj. reflexivity. Qed.
Lemma tp_task_done : forall g s x, tp g (task_done s) x = tp g s x.
Proof. intros. apply tp_frame; autorewrite with proj; reflexivity. Qed.
Lemma tp_log_fail : forall g s p x, tp g (log_fail g s p) x = tp g s x.
Proof. intros. apply tp_frame; autorewrite with proj; reflexivity. Qed.
Lemma tp_async_error : forall g s l x, tp g (async_error g s l) x = tp g s x.
Proof. intros. apply tp_frame; autorewrite with proj; reflexivity. Qed.
Lemma lw_async_error : forall g s l, lw (async_error g s l) <= lw s.
Proof. intros. unfold lw. autorewrite with proj. cbn. destruct (closed s); cbn; lia. Qed.

Lemma trace_len_task_done : forall s, length (trace (task_done s)) - nfwd (task_done s) = length (trace s) - nfwd s.
Proof. intros. autorewrite with proj. reflexivity. Qed.

(* the shape of a proof for one label: potentials pointwise not larger, one of them (or the list weights) smaller *)
Lemma mu_lt : forall g s s' c,
  sumn (g_n g) (tp g s') + lw s' + c <= sumn (g_n g) (tp g s) + lw s -> 1 <= c ->
  length (trace s') - nfwd s' <= S (length (trace s) - nfwd s) ->
  mu g s' < mu g s.
Proof. intros g s s' c H1 H2 H3. unfold mu. lia. Qed.

Ltac tr_len := cbn [trace nfwd set_asy set_cycreported]; autorewrite with proj; cbn [length]; lia.
Ltac len_rm := repeat match goal with
  | H : mem ?t ?l = true |- context [length (remove1 ?t ?l)] =>
      let E := fresh "E" in pose proof (length_remove1 t l H) as E; revert E; generalize (length (remove1 t l)); intros ? E
  end.

Definition spot (st : tstate) : nat := if st_eqb st Inactive then 2 else 0.
Lemma tp_eq : forall g s x, tp g s x = a_pot g x (asy s x) + b2n (negb (ex s x)) + spot (ts s x).
Proof. reflexivity. Qed.

Lemma spot_qr : forall g s d x, spot (ts (queue_resolved g s d) x) <= spot (ts s x).
Proof. intros. rewrite ts_qr. destruct (qr_ok s d && Nat.eqb x d); cbn; unfold spot; destruct (st_eqb (ts s x) Inactive); cbn; lia. Qed.

(* pointwise comparison after the slot of t has been set to a (other components of the per-target potential as in s1) *)
Lemma tp_after_asy : forall g s s1 s' t a c,
  (forall x, tp g s1 x <= tp g s x) ->
  asy s' = upd (asy s1) t a -> ex s' = ex s1 -> (forall x, spot (ts s' x) <= spot (ts s1 x)) ->
  ex s1 t = ex s t -> spot (ts s1 t) <= spot (ts s t) ->
  a_pot g t a + c <= a_pot g t (asy s t) -> t < g_n g ->
  sumn (g_n g) (tp g s') + c <= sumn (g_n g) (tp g s).
Proof.
  intros g s s1 s' t a c H1 Ha He Hs He1 Hs1 Hc Ht. apply (sumn_dec _ _ _ t); [|exact Ht|].
  - intros x _. rewrite (tp_eq g s'). rewrite Ha, He. unfold upd. destruct (Nat.eqb_spec x t).
    + subst. rewrite tp_eq. specialize (Hs t). rewrite He1. lia.
    + specialize (H1 x). rewrite tp_eq in H1. specialize (Hs x). rewrite (tp_eq g s x) in *. lia.
  - rewrite (tp_eq g s'). rewrite Ha, He, upd_same. rewrite (tp_eq g s t). specialize (Hs t). rewrite He1. lia.
Qed.

Lemma J_frame_simple : forall s s' t,
  ts s' = ts s -> fin s' = fin s -> asy s' = asy s -> sendq s' = sendq s -> actq s' = actq s -> taken s' = taken s ->
  building s' = building s -> finishing s' = finishing s -> completing s' = completing s -> trace s' = trace s ->
  J s t -> J s' t.
Proof. intros. eapply J_frame; eauto; intros; congruence. Qed.

Theorem mu_step : forall g s l, (forall t, J s t) -> enabled g s l = true -> mu g (apply g s l) < mu g s.
Proof.
  intros g s l HJ He.
  destruct l; unfold enabled in He; cbv beta iota in He; cbn [apply]; btrue;
    repeat match goal with H : lt_n _ _ = true |- _ => apply Nat.ltb_lt in H end.
  - (* LInitRequest *)
    destruct (initq s) as [|l0 r] eqn:Ei; [discriminate|].
    apply (mu_lt g s _ 1); [|lia|cbn -[Nat.sub]; lia].
    assert (sumn (g_n g) (tp g (add_pending_parse (set_initq s r) l0)) <= sumn (g_n g) (tp g s)) by (apply sumn_le; intros; apply Nat.eq_le_incl, tp_frame; reflexivity).
    unfold lw in *. cbn. rewrite Ei. cbn [length]. lia.
  - (* LInitDone *)
    apply (mu_lt g s _ 1); [|lia|autorewrite with proj; cbn -[Nat.sub]; lia].
    assert (sumn (g_n g) (tp g (task_done (set_initdone s true))) <= sumn (g_n g) (tp g s)) by (apply sumn_le; intros; rewrite tp_task_done; apply Nat.eq_le_incl, tp_frame; reflexivity).
    pose proof (lw_task_done (set_initdone s true)). unfold lw in *. cbn in *.
    match goal with H : initdone s = false |- _ => rewrite H in * end. cbn in *. lia.
  - (* LParseActivate *)
    apply (mu_lt g s _ 2); [|lia|autorewrite with proj; cbn; destruct (ex s l); autorewrite with proj; cbn; lia].
    set (s1 := set_ptasks s (remove1 l (ptasks s))).
    assert (HJ1 : J s1 l) by (apply (J_frame_simple s); auto).
    assert (Hs : sumn (g_n g) (tp g (task_done (if ex s1 l then queue_resolved g s1 l else log_fail g s1 true))) <= sumn (g_n g) (tp g s)).
    { apply sumn_le; intros; rewrite tp_task_done. destruct (ex s1 l); [etransitivity; [apply tp_qr; exact HJ1|]|rewrite tp_log_fail]; apply Nat.eq_le_incl, tp_frame; reflexivity. }
    pose proof (lw_task_done (if ex s1 l then queue_resolved g s1 l else log_fail g s1 true)) as Hl.
    assert (Hl2 : lw (if ex s1 l then queue_resolved g s1 l else log_fail g s1 true) = lw s1) by (destruct (ex s1 l); [apply lw_qr | apply lw_log_fail]).
    assert (Hl3 : lw s1 + 2 = lw s) by (unfold lw, s1; cbn; len_rm; lia).
    lia.
  - (* LParseClaim *)
    apply (mu_lt g s _ 1); [|lia|cbn -[Nat.sub]; lia].
    assert (sumn (g_n g) (tp g (set_pk (set_parsers (set_ptasks s (remove1 l (ptasks s))) (l :: parsers s)) (upd (pk s) (g_pkg g l) PParsing))) <= sumn (g_n g) (tp g s)) by (apply sumn_le; intros; apply Nat.eq_le_incl, tp_frame; reflexivity).
    unfold lw in *. cbn. len_rm. lia.
  - (* LAddTarget *)
    apply (mu_lt g s _ 1); [|lia|destruct (Nat.eqb t l); autorewrite with proj; cbn; lia].
    set (s1 := set_ex s (upd (ex s) t true)).
    assert (HJ1 : J s1 t) by (apply (J_frame_simple s); auto).
    assert (Hs1 : sumn (g_n g) (tp g s1) + 1 <= sumn (g_n g) (tp g s)).
    { apply (sumn_dec _ _ _ t); [| assumption |].
      - intros x _. rewrite !tp_eq. unfold s1. cbn. unfold upd. destruct (Nat.eqb_spec x t); [subst|]; cbn; lia.
      - rewrite !tp_eq. unfold s1. cbn. rewrite upd_same. match goal with H : ex s t = false |- _ => rewrite H end. cbn. lia. }
    destruct (Nat.eqb t l).
    + assert (sumn (g_n g) (tp g (queue_resolved g s1 t)) <= sumn (g_n g) (tp g s1)) by (apply sumn_le; intros; apply tp_qr; exact HJ1).
      rewrite lw_qr. assert (lw s1 = lw s) by reflexivity. lia.
    + assert (lw s1 = lw s) by reflexivity. lia.
  - (* LParseOk *)
    change (pk (set_parsers s (remove1 l (parsers s)))) with (pk s).
    apply (mu_lt g s _ 1); [|lia|autorewrite with proj; cbn; destruct (ex s l); autorewrite with proj; cbn; lia].
    set (s1 := set_pk (set_parsers s (remove1 l (parsers s))) (upd (pk s) (g_pkg g l) PParsed)).
    assert (HJ1 : J s1 l) by (apply (J_frame_simple s); auto).
    assert (Hs : sumn (g_n g) (tp g (task_done (if ex s1 l then queue_resolved g s1 l else log_fail g s1 true))) <= sumn (g_n g) (tp g s)).
    { apply sumn_le; intros; rewrite tp_task_done. destruct (ex s1 l); [etransitivity; [apply tp_qr; exact HJ1|]|rewrite tp_log_fail]; apply Nat.eq_le_incl, tp_frame; reflexivity. }
    pose proof (lw_task_done (if ex s1 l then queue_resolved g s1 l else log_fail g s1 true)) as Hl.
    assert (Hl2 : lw (if ex s1 l then queue_resolved g s1 l else log_fail g s1 true) = lw s1) by (destruct (ex s1 l); [apply lw_qr | apply lw_log_fail]).
    assert (Hl3 : lw s1 + 1 = lw s) by (unfold lw, s1; cbn; len_rm; lia).
    lia.
  - (* LParseFail *)
    change (pk (set_parsers s (remove1 l (parsers s)))) with (pk s).
    apply (mu_lt g s _ 1); [|lia|autorewrite with proj; cbn -[Nat.sub]; lia].
    set (s1 := set_pk (set_parsers s (remove1 l (parsers s))) (upd (pk s) (g_pkg g l) PFailed)).
    assert (Hs : sumn (g_n g) (tp g (task_done (log_fail g s1 true))) <= sumn (g_n g) (tp g s)).
    { apply sumn_le; intros; rewrite tp_task_done, tp_log_fail. apply Nat.eq_le_incl, tp_frame; reflexivity. }
    pose proof (lw_task_done (log_fail g s1 true)) as Hl. rewrite lw_log_fail in Hl.
    assert (Hl3 : lw s1 + 1 = lw s) by (unfold lw, s1; cbn; len_rm; lia). lia.
  - (* LMarkSemi *)
    destruct (cas cas_noneed (ts s t)) as [new|] eqn:C; [|discriminate].
    assert (ts s t = Inactive /\ new = Semiactive) as [Ht ->] by (destruct (ts s t); cbn in C; inversion C; split; reflexivity).
    apply (mu_lt g s _ 1); [|lia|cbn -[Nat.sub]; lia].
    assert (Hs1 : sumn (g_n g) (tp g (set_semi (set_numPending (set_numActive (set_ts s (upd (ts s) t Semiactive)) (numActive s + 1)%Z) (numPending s + 1)%Z) (t :: semi s))) + 2 <= sumn (g_n g) (tp g s)).
    { apply (sumn_dec _ _ _ t); [| assumption |].
      - intros x _. rewrite !tp_eq. cbn. unfold upd. destruct (Nat.eqb_spec x t); [subst|]; cbn; unfold spot; cbn; lia.
      - rewrite !tp_eq. cbn. rewrite upd_same, Ht. cbn. lia. }
    unfold lw in *. cbn. lia.
  - (* LSemiDone *)
    rewrite semi_release_eq.
    apply (mu_lt g s _ 1); [|lia|autorewrite with proj; cbn -[Nat.sub]; lia].
    assert (Hs : sumn (g_n g) (tp g (task_done (set_semi s (remove1 t (semi s))))) <= sumn (g_n g) (tp g s)).
    { apply sumn_le; intros; rewrite tp_task_done. apply Nat.eq_le_incl, tp_frame; reflexivity. }
    pose proof (lw_task_done (set_semi s (remove1 t (semi s)))) as Hl.
    assert (Hl3 : lw (set_semi s (remove1 t (semi s))) + 1 = lw s) by (unfold lw; cbn; len_rm; lia). lia.
  - (* LAsyncQueueDep *)
    dasy s t Ea. dlist todo.
    destruct (ex s d) eqn:Ex; [|destruct (pst_eqb (pk s (g_pkg g d)) PParsed)].
    + apply (mu_lt g s _ 3); [|lia|cbn; autorewrite with proj; lia].
      assert (Hs : sumn (g_n g) (tp g (set_asy (queue_resolved g s d) (upd (asy (queue_resolved g s d)) t (AQueue r)))) + 3 <= sumn (g_n g) (tp g s)).
      { apply (tp_after_asy g s (queue_resolved g s d) _ t (AQueue r)); auto.
        - intros; apply tp_qr; apply HJ.
        - autorewrite with proj. reflexivity.
        - apply spot_qr.
        - rewrite Ea. cbn. lia. }
      assert (lw (set_asy (queue_resolved g s d) (upd (asy (queue_resolved g s d)) t (AQueue r))) = lw s) by (unfold lw; cbn; autorewrite with proj; reflexivity). lia.
    + apply (mu_lt g s _ 3); [|lia|tr_len].
      assert (Hs : sumn (g_n g) (tp g (set_asy (async_error g s d) (upd (asy (async_error g s d)) t AFinishing))) + 3 <= sumn (g_n g) (tp g s)).
      { apply (tp_after_asy g s (async_error g s d) _ t AFinishing); auto.
        - intros; rewrite tp_async_error; lia.
        - autorewrite with proj. reflexivity.
        - autorewrite with proj. lia.
        - rewrite Ea. cbn. lia. }
      pose proof (lw_async_error g s d).
      assert (lw (set_asy (async_error g s d) (upd (asy (async_error g s d)) t AFinishing)) = lw (async_error g s d)) by reflexivity. lia.
    + apply (mu_lt g s _ 1); [|lia|cbn -[Nat.sub]; lia].
      assert (Hs : sumn (g_n g) (tp g (set_asy (add_pending_parse s d) (upd (asy (add_pending_parse s d)) t (AQueue r)))) + 3 <= sumn (g_n g) (tp g s)).
      { apply (tp_after_asy g s (add_pending_parse s d) _ t (AQueue r)); auto;
          try (intros; apply Nat.eq_le_incl, tp_frame; reflexivity); rewrite Ea; cbn; lia. }
      assert (lw (set_asy (add_pending_parse s d) (upd (asy (add_pending_parse s d)) t (AQueue r))) = lw s + 2) by (unfold lw; cbn; lia). lia.
  - (* LAsyncBeginResolve *)
    dasy s t Ea. dlist todo.
    apply (mu_lt g s _ 1); [|lia|cbn -[Nat.sub]; lia].
    assert (Hs : sumn (g_n g) (tp g (set_asy s (upd (asy s) t (AResolve (g_deps g t) false)))) + 1 <= sumn (g_n g) (tp g s)).
    { apply (tp_after_asy g s s _ t (AResolve (g_deps g t) false)); auto. rewrite Ea. cbn. lia. }
    assert (lw (set_asy s (upd (asy s) t (AResolve (g_deps g t) false))) = lw s) by reflexivity. lia.
  - (* LAsyncResolveDep *)
    dasy s t Ea. btrue.
    assert (Hlen : S (length (remove1 d todo)) = length todo) by (apply length_remove1; assumption).
    destruct (ex s d) eqn:Ex.
    + apply (mu_lt g s _ 1); [|lia|cbn; autorewrite with proj; lia].
      assert (Hs : sumn (g_n g) (tp g (set_asy (queue_resolved g s d) (upd (asy (queue_resolved g s d)) t (AResolve (remove1 d todo) err)))) + 1 <= sumn (g_n g) (tp g s)).
      { apply (tp_after_asy g s (queue_resolved g s d) _ t (AResolve (remove1 d todo) err)); auto.
        - intros; apply tp_qr; apply HJ.
        - autorewrite with proj. reflexivity.
        - apply spot_qr.
        - rewrite Ea. cbn. lia. }
      assert (lw (set_asy (queue_resolved g s d) (upd (asy (queue_resolved g s d)) t (AResolve (remove1 d todo) err))) = lw s) by (unfold lw; cbn; autorewrite with proj; reflexivity). lia.
    + apply (mu_lt g s _ 1); [|lia|cbn -[Nat.sub]; lia].
      assert (Hs : sumn (g_n g) (tp g (set_asy s (upd (asy s) t (AResolve (remove1 d todo) true)))) + 1 <= sumn (g_n g) (tp g s)).
      { apply (tp_after_asy g s s _ t (AResolve (remove1 d todo) true)); auto. rewrite Ea. cbn. lia. }
      assert (lw (set_asy s (upd (asy s) t (AResolve (remove1 d todo) true))) = lw s) by reflexivity. lia.
  - (* LAsyncBeginWait *)
    dasy s t Ea. dlist todo. destruct err.
    + apply (mu_lt g s _ 1); [|lia|tr_len].
      assert (Hs : sumn (g_n g) (tp g (set_asy (async_error g s t) (upd (asy (async_error g s t)) t AFinishing))) + 1 <= sumn (g_n g) (tp g s)).
      { apply (tp_after_asy g s (async_error g s t) _ t AFinishing); auto.
        - intros; rewrite tp_async_error; lia.
        - autorewrite with proj. reflexivity.
        - autorewrite with proj. lia.
        - rewrite Ea. cbn. lia. }
      pose proof (lw_async_error g s t).
      assert (lw (set_asy (async_error g s t) (upd (asy (async_error g s t)) t AFinishing)) = lw (async_error g s t)) by reflexivity. lia.
    + apply (mu_lt g s _ 1); [|lia|cbn -[Nat.sub]; lia].
      assert (Hs : sumn (g_n g) (tp g (set_asy s (upd (asy s) t (AWait (g_deps g t))))) + 1 <= sumn (g_n g) (tp g s)).
      { apply (tp_after_asy g s s _ t (AWait (g_deps g t))); auto. rewrite Ea. cbn. lia. }
      assert (lw (set_asy s (upd (asy s) t (AWait (g_deps g t)))) = lw s) by reflexivity. lia.
  - (* LWaitDep *)
    dasy s t Ea. dlist todo.
    apply (mu_lt g s _ 1); [|lia|cbn -[Nat.sub]; lia].
    assert (Hs : sumn (g_n g) (tp g (set_asy s (upd (asy s) t (AWait r)))) + 1 <= sumn (g_n g) (tp g s)).
    { apply (tp_after_asy g s s _ t (AWait r)); auto. rewrite Ea. cbn. lia. }
    assert (lw (set_asy s (upd (asy s) t (AWait r))) = lw s) by reflexivity. lia.
  - (* LDepFailed *)
    dasy s t Ea. dlist todo.
    apply (mu_lt g s _ 1); [|lia|cbn -[Nat.sub]; lia].
    set (s1 := set_fin (set_trace (set_ts s (upd (ts s) t dep_failed_set)) (OEnd t RDepFailed :: trace s)) (upd (fin s) t true)).
    match goal with |- sumn _ (tp g ?X) + _ + _ <= _ => set (s2 := X) end.
    assert (Hs : sumn (g_n g) (tp g s2) + 1 <= sumn (g_n g) (tp g s)).
    { apply (tp_after_asy g s s1 s2 t AFinishing); auto.
      - intros x. rewrite !tp_eq. unfold s1. cbn. unfold upd. destruct (Nat.eqb x t); cbn; unfold spot; cbn; lia.
      - unfold s1. cbn. rewrite upd_same. unfold spot. cbn. lia.
      - rewrite Ea. cbn. lia. }
    assert (lw s2 = lw s) by reflexivity.
    lia.
  - (* LActivatePending *)
    dasy s t Ea. dlist todo.
    assert (Hts : ts s t = Active) by (destruct (HJ t) as (_ & HB' & _); apply HB'; rewrite Ea; reflexivity).
    rewrite Hts. change (cas [cas_pending] Active) with (Some Pending). cbv beta iota zeta.
    apply (mu_lt g s _ 2); [|lia|cbn -[Nat.sub]; lia].
    set (s1 := set_sendq (set_numPending (set_ts s (upd (ts s) t Pending)) (numPending s + 1)%Z) (t :: sendq s)).
    match goal with |- sumn _ (tp g ?X) + _ + _ <= _ => set (s2 := X) end.
    assert (Hs : sumn (g_n g) (tp g s2) + 8 <= sumn (g_n g) (tp g s)).
    { apply (tp_after_asy g s s1 s2 t AFinishing); auto.
      - intros x. rewrite !tp_eq. unfold s1. cbn. unfold upd. destruct (Nat.eqb x t); cbn; unfold spot; cbn; lia.
      - unfold s1. cbn. rewrite upd_same. unfold spot. cbn. lia.
      - rewrite Ea. cbn. lia. }
    assert (lw s2 = lw s + 6) by (unfold lw, s2; cbn; lia).
    lia.
  - (* LAsyncDone *)
    dasy s t Ea.
    apply (mu_lt g s _ 1); [|lia|autorewrite with proj; cbn -[Nat.sub]; lia].
    assert (Hs : sumn (g_n g) (tp g (set_asy s (upd (asy s) t ADone))) + 1 <= sumn (g_n g) (tp g s)).
    { apply (tp_after_asy g s s _ t ADone); auto. rewrite Ea. cbn. lia. }
    assert (Hs' : sumn (g_n g) (tp g (task_done (set_asy s (upd (asy s) t ADone)))) = sumn (g_n g) (tp g (set_asy s (upd (asy s) t ADone)))).
    { apply Nat.le_antisymm; apply sumn_le; intros; rewrite tp_task_done; lia. }
    pose proof (lw_task_done (set_asy s (upd (asy s) t ADone))).
    assert (lw (set_asy s (upd (asy s) t ADone)) = lw s) by reflexivity. lia.
  - (* LSendTask *)
    change (closed (set_sendq s (remove1 t (sendq s)))) with (closed s). cbv zeta.
    destruct (closed s) eqn:Ec; (apply (mu_lt g s _ 1); [|lia|cbn -[Nat.sub]; lia]).
    + assert (sumn (g_n g) (tp g (set_sendq s (remove1 t (sendq s)))) <= sumn (g_n g) (tp g s)) by (apply sumn_le; intros; apply Nat.eq_le_incl, tp_frame; reflexivity).
      unfold lw in *. cbn. len_rm. lia.
    + assert (sumn (g_n g) (tp g (set_actq (set_sendq s (remove1 t (sendq s))) (t :: actq s))) <= sumn (g_n g) (tp g s)) by (apply sumn_le; intros; apply Nat.eq_le_incl, tp_frame; reflexivity).
      unfold lw in *. cbn. len_rm. lia.
  - (* LWorkerTake *)
    apply (mu_lt g s _ 1); [|lia|cbn -[Nat.sub]; lia].
    assert (sumn (g_n g) (tp g (set_taken (set_actq s (remove1 t (actq s))) (t :: taken s))) <= sumn (g_n g) (tp g s)) by (apply sumn_le; intros; apply Nat.eq_le_incl, tp_frame; reflexivity).
    unfold lw in *. cbn. len_rm. lia.
  - (* LBuildStart *)
    apply (mu_lt g s _ 1); [|lia|cbn -[Nat.sub]; lia].
    assert (sumn (g_n g) (tp g (set_trace (set_ts (set_building (set_taken s (remove1 t (taken s))) (t :: building s)) (upd (ts s) t build_start_set)) (OStart t :: trace s))) <= sumn (g_n g) (tp g s)).
    { apply sumn_le; intros x _. rewrite !tp_eq. cbn. unfold upd. destruct (Nat.eqb x t); cbn; unfold spot; cbn; lia. }
    unfold lw in *. cbn. len_rm. lia.
  - (* LBuildOk *)
    apply (mu_lt g s _ 1); [|lia|cbn -[Nat.sub]; lia].
    assert (sumn (g_n g) (tp g (set_trace (set_ts (set_finishing (set_building s (remove1 t (building s))) (t :: finishing s)) (upd (ts s) t o)) (OEnd t (RBuilt o) :: trace s))) <= sumn (g_n g) (tp g s)).
    { apply sumn_le; intros x _. rewrite !tp_eq. cbn. unfold upd. destruct (Nat.eqb x t); cbn; [|lia].
      assert (spot o = 0) by (unfold built_kind, st_eqb, spot in *; destruct o; cbn in *; try discriminate; reflexivity). lia. }
    unfold lw in *. cbn. len_rm. lia.
  - (* LBuildFail *)
    apply (mu_lt g s _ 1); [|lia|cbn -[Nat.sub]; autorewrite with proj; cbn -[Nat.sub]; lia].
    match goal with |- sumn _ (tp g ?X) + _ + _ <= _ => set (s2 := X) end.
    assert (sumn (g_n g) (tp g s2) <= sumn (g_n g) (tp g s)).
    { apply sumn_le; intros x _. rewrite !tp_eq. unfold s2. cbn. autorewrite with proj. cbn. unfold upd. destruct (Nat.eqb x t); cbn; unfold spot; cbn; lia. }
    assert (lw s2 + 1 = lw s).
    { unfold lw, s2. cbn. autorewrite with proj. cbn. len_rm. lia. }
    lia.
  - (* LFinishBuild *)
    apply (mu_lt g s _ 1); [|lia|cbn -[Nat.sub]; lia].
    assert (sumn (g_n g) (tp g (set_fin (set_completing (set_finishing s (remove1 t (finishing s))) (t :: completing s)) (upd (fin s) t true))) <= sumn (g_n g) (tp g s)) by (apply sumn_le; intros; apply Nat.eq_le_incl, tp_frame; reflexivity).
    unfold lw in *. cbn. len_rm. lia.
  - (* LTaskDone *)
    apply (mu_lt g s _ 1); [|lia|autorewrite with proj; cbn -[Nat.sub]; lia].
    assert (Hs : sumn (g_n g) (tp g (task_done (set_completing s (remove1 t (completing s))))) <= sumn (g_n g) (tp g s)).
    { apply sumn_le; intros; rewrite tp_task_done. apply Nat.eq_le_incl, tp_frame; reflexivity. }
    pose proof (lw_task_done (set_completing s (remove1 t (completing s)))) as Hl.
    assert (Hl3 : lw (set_completing s (remove1 t (completing s))) + 1 = lw s) by (unfold lw; cbn; len_rm; lia). lia.
  - (* LForward *)
    match goal with H : Nat.ltb _ _ = true |- _ => apply Nat.ltb_lt in H end.
    unfold mu. cbn.
    assert (sumn (g_n g) (tp g (set_nfwd s (S (nfwd s)))) = sumn (g_n g) (tp g s)) by (apply Nat.le_antisymm; apply sumn_le; intros; apply Nat.eq_le_incl, tp_frame; reflexivity).
    assert (lw (set_nfwd s (S (nfwd s))) = lw s) by reflexivity. lia.
  - (* LStop *)
    apply (mu_lt g s _ 1); [|lia|cbn -[Nat.sub]; lia].
    assert (sumn (g_n g) (tp g (set_closed s true)) <= sumn (g_n g) (tp g s)) by (apply sumn_le; intros; apply Nat.eq_le_incl, tp_frame; reflexivity).
    unfold lw in *. cbn. match goal with H : closed s = false |- _ => rewrite H end. cbn. lia.
  - (* LTimerCycleCheck *)
    apply (mu_lt g s _ 1); [|lia|tr_len].
    assert (sumn (g_n g) (tp g (set_cycreported (async_error g s (hd 0 c)) true)) <= sumn (g_n g) (tp g s)).
    { apply sumn_le; intros. etransitivity; [|apply Nat.eq_le_incl, (tp_async_error g s (hd 0 c))]. apply Nat.eq_le_incl, tp_frame; reflexivity. }
    pose proof (lw_async_error g s (hd 0 c)) as Hl. unfold lw in *. cbn in *. autorewrite with proj in *.
    match goal with H : cycreported s = false |- _ => rewrite H in * end. cbn in *. lia.
  - (* LExitRun *)
    apply (mu_lt g s _ 1); [|lia|cbn -[Nat.sub]; lia].
    assert (sumn (g_n g) (tp g (set_exited s true)) <= sumn (g_n g) (tp g s)) by (apply sumn_le; intros; apply Nat.eq_le_incl, tp_frame; reflexivity).
    unfold lw in *. cbn. match goal with H : exited s = false |- _ => rewrite H end. cbn. lia.
Qed.

(* every run is finite: its length is bounded by a function of the graph *)
Theorem run_length_bound : forall g ls s, run g (init g) ls = Some s -> length ls + mu g s <= mu_bound g.
Proof.
  intros g ls. induction ls as [|l r IH] using rev_ind; intros s Hrun.
  - cbn in Hrun. inversion Hrun. subst. cbn [length]. pose proof (mu_init g). lia.
  - rewrite run_app in Hrun. destruct (run g (init g) r) as [s'|] eqn:Hr; [|discriminate].
    cbn in Hrun. destruct (enabled g s' l) eqn:He; [|discriminate]. inversion Hrun. subst.
    specialize (IH s' eq_refl). rewrite app_length. cbn [length].
    assert (HJ : forall t, J s' t) by (apply (J_reachable g); exists r; exact Hr).
    pose proof (mu_step g s' l HJ He). lia.
Qed.
