(* C23 - the specification side: dependency edges, reachability, chains, 0/1-weighted paths.
   Nothing here mentions the algorithms of Model/C23.v except the edge list `succs` (the resolved
   dependencies of one target: declared dependencies, each replaced by what it provides for the target). *)
From PlzV Require Import Base.Harness Model.C23.

(* u depends directly on v (not going through a declared dependency listed in `ex`) *)
Definition edge (g : graph) (ex : list label) (u v : label) : Prop :=
  exists iu, find g u = Some iu /\ In v (succs g ex iu).

Inductive reach (E : label -> label -> Prop) : label -> label -> Prop :=
| reach_refl : forall u, reach E u u
| reach_step : forall u v w, E u v -> reach E v w -> reach E u w.

(* consecutive elements are related *)
Fixpoint chain (E : label -> label -> Prop) (p : list label) : Prop :=
  match p with
  | x :: r => match r with
              | y :: _ => E x y /\ chain E r
              | [] => True
              end
  | [] => True
  end.

(* u is b itself or one of b's hidden sub-targets (somepath.go: "If there's some path to the parent of
   the named target, count that") *)
Definition hit (g : graph) (b u : label) : Prop :=
  u = b \/ exists iu, find g u = Some iu /\ t_parent iu = b /\ t_parent iu <> u.

Definition connects (g : graph) (ex : list label) (a b : label) : Prop :=
  exists u, reach (edge g ex) a u /\ hit g b u.

(* ---- weighted paths for deps: an edge into a hidden sub-target of the same rule costs nothing ---- *)
Definition ecost (g : graph) (hid : bool) (u v : label) : Z :=
  if hid then 1%Z
  else match find g u, find g v with
       | Some iu, Some iv => if has_parent v iv && N.eqb (t_parent iv) (t_parent iu) then 0%Z else 1%Z
       | _, _ => 1%Z
       end.

(* non-empty dependency paths with their cost *)
Inductive wpath (g : graph) (hid : bool) : label -> label -> Z -> Prop :=
| wp_one : forall u v, edge g [] u v -> wpath g hid u v (ecost g hid u v)
| wp_cons : forall u v w c, edge g [] u v -> wpath g hid v w c -> wpath g hid u w (ecost g hid u v + c)%Z.

(* what `deps` prints at all: everything with --hidden, otherwise targets that are nobody's sub-target *)
Definition visible (g : graph) (hid : bool) (v : label) : Prop :=
  exists iv, find g v = Some iv /\ (hid = true \/ has_parent v iv = false).

Definition in_graph (g : graph) (l : label) : Prop := find g l <> None.

(* ---- reverse paths for revdeps ---- *)
(* t depends on u; free when both belong to the same rule (isSameTarget) *)
Definition rcost (g : graph) (hid : bool) (u t : label) : Z :=
  if hid || negb (same_target g u t) then 1%Z else 0%Z.

Inductive rpath (g : graph) (hid : bool) : label -> label -> Z -> Prop :=
| rp_nil : forall s, rpath g hid s s 0%Z
| rp_snoc : forall s u t c, rpath g hid s u c -> edge g [] t u -> rpath g hid s t (c + rcost g hid u t)%Z.

(* the search starts from each root and, unless hidden targets are shown, from the root's own sub-targets *)
Definition rstart (g : graph) (hid : bool) (roots : list label) (s : label) : Prop :=
  exists r, In r roots /\ (s = r \/ (hid = false /\ is_hidden g r = false /\ In s (children g r))).

(* a hidden target is reported as its rule *)
Definition report (g : graph) (hid : bool) (t x : label) : Prop :=
  if hid || negb (is_hidden g t) then x = t else parent_target g t = Some x.

(* x is reported for some target whose dependency chain to a start costs between 1 and lim *)
Definition rwithin (g : graph) (hid : bool) (roots : list label) (lim : Z) (x : label) : Prop :=
  exists s t c, rstart g hid roots s /\ rpath g hid s t c /\ (1 <= c)%Z /\ (lim = (-1)%Z \/ (c <= lim)%Z) /\ report g hid t x.

Definition dwithin (g : graph) (hid : bool) (roots : list label) (lim : Z) (t : label) : Prop :=
  visible g hid t /\ exists r c, In r roots /\ wpath g hid r t c /\ (lim = (-1)%Z \/ (c <= lim)%Z).
