(* C08 - proofs about build.RuleHash, the memoising wrapper of ruleHash (Model/C08_Cache.v), for the wrapper regenerated
   from the source (Gen/RuleHashProg.v `rule_hash_wrapper`): a post-build call, a runtime call and every call on a target
   the build cannot modify return the hash of the CURRENT attributes, along every history the build can produce. *)
From Coq Require Import Lia.
From PlzV Require Import Base.Harness Base.StrFacts Model.C08 Model.C08_Set Model.C08_Spec Model.C08_Cache
  Gen.RuleHashProg Proof.C08.

(* ------------------------------------------------------------------------------------------ the wrapper, analysed by computation *)

Definition bools : list bool := [true; false].

(* What the theorems need of the wrapper: it bypasses the memo AT LEAST when `runtime || (postBuild &&
   BuildCouldModifyTarget())`, a bypassing call hashes with the caller's runtime flag, and the hash that is memoised is
   the non-runtime one. *)
Definition wrapper_okb (w : wrapper) : bool :=
  forallb (fun rt => forallb (fun pb => forallb (fun cm =>
    implb (rt || (pb && cm)) (beval (wvar_val rt pb cm) (w_bypass w))
    && (if beval (wvar_val rt pb cm) (w_bypass w)
        then Bool.eqb (rt_of (w_bypass_rt w) rt) rt
        else negb (rt_of (w_fill_rt w) rt))) bools) bools) bools.

(* ... and it bypasses ONLY then (not needed for the property; characterises the memoised calls) *)
Definition wrapper_exactb (w : wrapper) : bool :=
  forallb (fun rt => forallb (fun pb => forallb (fun cm =>
    Bool.eqb (beval (wvar_val rt pb cm) (w_bypass w)) (rt || (pb && cm))) bools) bools) bools.

Lemma in_bools b : In b bools.
Proof. destruct b; cbn; tauto. Qed.

Lemma wrapper_ok_inst w : wrapper_okb w = true -> forall rt pb cm,
  (rt || (pb && cm) = true -> beval (wvar_val rt pb cm) (w_bypass w) = true)
  /\ (beval (wvar_val rt pb cm) (w_bypass w) = true -> rt_of (w_bypass_rt w) rt = rt)
  /\ (beval (wvar_val rt pb cm) (w_bypass w) = false -> rt_of (w_fill_rt w) rt = false).
Proof.
  intros Hok rt pb cm. unfold wrapper_okb in Hok. rewrite forallb_forall in Hok.
  specialize (Hok rt (in_bools rt)). rewrite forallb_forall in Hok.
  specialize (Hok pb (in_bools pb)). rewrite forallb_forall in Hok.
  specialize (Hok cm (in_bools cm)). apply andb_true_iff in Hok. destruct Hok as [Hb Hr].
  split; [|split]; intros Hc.
  - rewrite Hc in Hb. exact Hb.
  - rewrite Hc in Hr. now apply Bool.eqb_prop in Hr.
  - rewrite Hc in Hr. now apply negb_true_iff in Hr.
Qed.

Lemma wrapper_exact_inst w : wrapper_exactb w = true -> forall rt pb cm,
  beval (wvar_val rt pb cm) (w_bypass w) = rt || (pb && cm).
Proof.
  intros Hok rt pb cm. unfold wrapper_exactb in Hok. rewrite forallb_forall in Hok.
  specialize (Hok rt (in_bools rt)). rewrite forallb_forall in Hok.
  specialize (Hok pb (in_bools pb)). rewrite forallb_forall in Hok.
  specialize (Hok cm (in_bools cm)). now apply Bool.eqb_prop in Hok.
Qed.

(* computations on the regenerated wrapper: they break when RuleHash's condition stops covering post-build calls on
   modifiable targets or runtime calls, when the runtime argument of either ruleHash call changes, or when
   BuildCouldModifyTarget changes *)
Lemma gen_wrapper_ok : wrapper_okb rule_hash_wrapper = true.
Proof. vm_compute. reflexivity. Qed.

(* BuildCouldModifyTarget says exactly what the build step does *)
Lemma gen_could_modify t : could_modify rule_hash_wrapper t = build_can_modify t.
Proof. reflexivity. Qed.

(* ------------------------------------------------------------------------------------------ one call *)

Section Cache.
  Variable D : Type.
  Variable H : str -> D.
  Variable p : program.
  Variable w : wrapper.
  Hypothesis w_ok : wrapper_okb w = true.
  Hypothesis cm_ok : forall t, could_modify w t = build_can_modify t.

  Let cm := build_can_modify.
  Let bypass (rt pb : bool) (t : target) : bool := beval (wvar_val rt pb (cm t)) (w_bypass w).

  (* what one call returns and memoises *)
  Lemma call_spec rt pb t memo :
    call D H p w rt pb (t, memo) =
      if bypass rt pb t then (H (ser p rt t), memo)
      else match memo with
           | Some h => (h, memo)
           | None => (H (ser p false t), Some (H (ser p false t)))
           end.
  Proof.
    unfold call, bypass, cm. rewrite cm_ok. destruct (wrapper_ok_inst w w_ok rt pb (build_can_modify t)) as (_ & Hbr & Hfr).
    destruct (beval (wvar_val rt pb (build_can_modify t)) (w_bypass w)) eqn:Hc.
    - now rewrite (Hbr eq_refl).
    - destruct memo; [reflexivity|]. now rewrite (Hfr eq_refl).
  Qed.

  Lemma bypass_covers rt pb t : rt || (pb && cm t) = true -> bypass rt pb t = true.
  Proof. unfold bypass, cm. now destruct (wrapper_ok_inst w w_ok rt pb (build_can_modify t)) as (Hb & _ & _). Qed.

  (* a call is FRESH-DEMANDING when it is a runtime call, a post-build call, or the build cannot modify the target:
     everything except the pre-build mode call on a target that the build could modify *)
  Definition demands_fresh (rt pb : bool) (t : target) : bool := rt || pb || negb (cm t).

  (* the invariant of valid histories: nothing memoised yet, or the target is one the build could modify, or the memo is the
     non-runtime hash of the current attributes *)
  Definition inv (st : mstate D) : Prop :=
    snd st = None \/ cm (fst st) = true \/ snd st = Some (H (ser p false (fst st))).

  Lemma inv_call rt pb st : inv st -> inv (fst st, snd (call D H p w rt pb st)).
  Proof.
    destruct st as [t memo]. unfold inv. intros Hi. rewrite call_spec. cbn [fst snd] in *.
    destruct (bypass rt pb t); [exact Hi|]. destruct memo as [h|]; [exact Hi|].
    right. right. reflexivity.
  Qed.

  Lemma call_fresh rt pb st :
    inv st -> demands_fresh rt pb (fst st) = true -> fst (call D H p w rt pb st) = H (ser p rt (fst st)).
  Proof.
    destruct st as [t memo]. unfold inv. intros Hi Hd. rewrite call_spec. cbn [fst snd] in *. unfold demands_fresh in Hd.
    pose proof (bypass_covers rt pb t) as Hcov. destruct (bypass rt pb t); [reflexivity|].
    destruct rt; [cbn in Hcov; now specialize (Hcov eq_refl)|]. cbn [orb] in *. destruct (cm t) eqn:Hcm.
    - rewrite andb_true_r in Hcov. cbn [negb] in Hd. rewrite orb_false_r in Hd. now specialize (Hcov Hd).
    - destruct Hi as [Hm | [Hi | Hm]]; [subst memo; reflexivity | congruence | subst memo; reflexivity].
  Qed.

  (* every call of a valid history that demands a fresh hash gets the hash of the attributes as they are at that call *)
  Theorem valid_history_fresh evs : forall st,
    inv st -> valid D H p w st evs ->
    Forall (fun c => demands_fresh (c_rt c) (c_pb c) (c_target c) = true -> c_result c = H (ser p (c_rt c) (c_target c)))
           (calls D H p w st evs).
  Proof.
    induction evs as [|e evs IH]; intros st Hi Hv; [constructor|]. destruct e as [t'|rt pb].
    - cbn [calls valid] in *. destruct Hv as [Hch Hv]. apply IH; [|exact Hv].
      destruct st as [t memo]. unfold inv in *. cbn [fst snd] in *. destruct Hch as [Hm | [_ Hcm]]; [subst memo; now left | right; now left].
    - cbn [calls valid] in *. pose proof (call_fresh rt pb st Hi) as Hf. pose proof (inv_call rt pb st Hi) as Hi'.
      destruct (call D H p w rt pb st) as [h memo] eqn:Hc. cbn [fst snd] in *. constructor.
      + cbn [c_rt c_pb c_target c_result]. exact Hf.
      + apply IH; assumption.
  Qed.

  Lemma inv_initial t0 : inv (t0, None).
  Proof. now left. Qed.

  (* the other half, for the record (for a wrapper that bypasses ONLY when it has to, as the one in the source does today): a
     pre-build mode call on a target the build could modify returns the memo - the hash of the attributes at the first such
     call - whatever the attributes are now *)
  Lemma prebuild_call_memoised t h :
    wrapper_exactb w = true -> cm t = true -> call D H p w false false (t, Some h) = (h, Some h).
  Proof.
    intros Hex Hcm. rewrite call_spec. unfold bypass. rewrite (wrapper_exact_inst w Hex). cbn [orb andb]. reflexivity.
  Qed.
End Cache.

(* ------------------------------------------------------------------------------------------ the property, for the regenerated wrapper *)

Definition fresh_call (rt pb : bool) (t : target) : bool := rt || pb || negb (build_can_modify t).

Theorem postbuild_hash_current (D : Type) (H : str -> D) t0 evs :
  valid D H prog rule_hash_wrapper (t0, None) evs ->
  Forall (fun c => fresh_call (c_rt c) (c_pb c) (c_target c) = true -> c_result c = H (ser prog (c_rt c) (c_target c)))
         (calls D H prog rule_hash_wrapper (t0, None) evs).
Proof.
  intros Hv. exact (valid_history_fresh D H prog rule_hash_wrapper gen_wrapper_ok gen_could_modify evs (t0, None)
                      (inv_initial D H prog t0) Hv).
Qed.

(* ... and therefore the one-field characterisation of Proof/C08.v holds for the values RuleHash RETURNS after the build has
   changed the targets: two fresh-demanding calls (same runtime flag) in two valid histories, on targets whose current
   attributes differ in one hashed field, return equal hashes iff the strings written for that field concatenate to the same
   bytes. *)
Theorem postbuild_change_detected (D : Type) (H : str -> D) :
  injective H -> forall ta evsa tb evsb ca cb f,
  valid D H prog rule_hash_wrapper (ta, None) evsa -> valid D H prog rule_hash_wrapper (tb, None) evsb ->
  In ca (calls D H prog rule_hash_wrapper (ta, None) evsa) -> In cb (calls D H prog rule_hash_wrapper (tb, None) evsb) ->
  c_rt ca = c_rt cb ->
  fresh_call (c_rt ca) (c_pb ca) (c_target ca) = true -> fresh_call (c_rt cb) (c_pb cb) (c_target cb) = true ->
  In f hashed_fields -> agree_except f (c_target ca) (c_target cb) ->
  (c_result ca = c_result cb
     <-> concat (toks_of f (c_rt ca) (c_target ca)) = concat (toks_of f (c_rt ca) (c_target cb)))
  /\ (toks_of f (c_rt ca) (c_target ca) <> toks_of f (c_rt ca) (c_target cb) ->
      shift_suspect (toks_of f (c_rt ca) (c_target ca)) (toks_of f (c_rt ca) (c_target cb)) = false ->
      c_result ca <> c_result cb).
Proof.
  intros Hinj ta evsa tb evsb ca cb f Hva Hvb Hina Hinb Hrt Hfa Hfb Hf Hag.
  pose proof (postbuild_hash_current D H ta evsa Hva) as Ha. pose proof (postbuild_hash_current D H tb evsb Hvb) as Hb.
  rewrite Forall_forall in Ha, Hb. rewrite (Ha ca Hina Hfa), (Hb cb Hinb Hfb), <- Hrt.
  exact (one_field_characterisation D H Hinj (c_rt ca) f (c_target ca) (c_target cb) Hf Hag).
Qed.

(* ------------------------------------------------------------------------------------------ the condition is needed *)

(* RuleHash with the bypass condition reduced to `runtime` (seeded mutation m2): the same valid history - pre-build hash,
   the post-build function adds an output, post-build hash - returns the STALE pre-build hash. *)
Definition wrapper_runtime_only : wrapper :=
  Wrapper (BVar WRuntime) RtParam (RtConst false) (w_could_modify rule_hash_wrapper).

Definition pb_base : target := set_post_build true (set_outs [s "out.txt"] base).
Definition pb_built : target := set_outs [s "extra1.txt"; s "out.txt"] pb_base.
Definition pb_history : list event := [EvCall false false; EvSet pb_built; EvCall false true].

Lemma pb_history_valid (D : Type) (H : str -> D) w : valid D H prog w (pb_base, None) pb_history.
Proof. cbn [pb_history valid fst snd]. split; [|exact I]. right. split; reflexivity. Qed.

Lemma runtime_only_wrapper_stale :
  wrapper_okb wrapper_runtime_only = false
  /\ valid str (fun x => x) prog wrapper_runtime_only (pb_base, None) pb_history
  /\ map (@c_result str) (calls str (fun x => x) prog wrapper_runtime_only (pb_base, None) pb_history)
     = [ser prog false pb_base; ser prog false pb_base]
  /\ ser prog false pb_base <> ser prog false pb_built.
Proof.
  split; [vm_compute; reflexivity|]. split; [apply pb_history_valid|].
  split; [vm_compute; reflexivity | vm_compute; discriminate].
Qed.

Lemma generated_wrapper_current :
  valid str (fun x => x) prog rule_hash_wrapper (pb_base, None) pb_history
  /\ map (@c_result str) (calls str (fun x => x) prog rule_hash_wrapper (pb_base, None) pb_history)
     = [ser prog false pb_base; ser prog false pb_built]
  /\ fresh_call false true pb_built = true
  /\ ser prog false pb_base <> ser prog false pb_built.
Proof.
  split; [apply pb_history_valid|]. split; [vm_compute; reflexivity|]. split; [reflexivity | vm_compute; discriminate].
Qed.

(* ------------------------------------------------------------------------------------------ the property theorem *)

Lemma C08_postbuild_proof :
  forall (D : Type) (H : str -> D),
    (forall t0 evs, valid D H prog rule_hash_wrapper (t0, None) evs ->
       Forall (fun c => fresh_call (c_rt c) (c_pb c) (c_target c) = true -> c_result c = H (ser prog (c_rt c) (c_target c)))
              (calls D H prog rule_hash_wrapper (t0, None) evs))
    /\ (injective H -> forall ta evsa tb evsb ca cb f,
          valid D H prog rule_hash_wrapper (ta, None) evsa -> valid D H prog rule_hash_wrapper (tb, None) evsb ->
          In ca (calls D H prog rule_hash_wrapper (ta, None) evsa) -> In cb (calls D H prog rule_hash_wrapper (tb, None) evsb) ->
          c_rt ca = c_rt cb ->
          fresh_call (c_rt ca) (c_pb ca) (c_target ca) = true -> fresh_call (c_rt cb) (c_pb cb) (c_target cb) = true ->
          In f hashed_fields -> agree_except f (c_target ca) (c_target cb) ->
          (c_result ca = c_result cb
             <-> concat (toks_of f (c_rt ca) (c_target ca)) = concat (toks_of f (c_rt ca) (c_target cb)))
          /\ (toks_of f (c_rt ca) (c_target ca) <> toks_of f (c_rt ca) (c_target cb) ->
              shift_suspect (toks_of f (c_rt ca) (c_target ca)) (toks_of f (c_rt ca) (c_target cb)) = false ->
              c_result ca <> c_result cb)).
Proof.
  intros D H. split.
  - intros t0 evs Hv. exact (postbuild_hash_current D H t0 evs Hv).
  - intros Hinj ta evsa tb evsb ca cb f Hva Hvb Hina Hinb Hrt Hfa Hfb Hf Hag.
    exact (postbuild_change_detected D H Hinj ta evsa tb evsb ca cb f Hva Hvb Hina Hinb Hrt Hfa Hfb Hf Hag).
Qed.
