(* C21 - glob(): the tree-level theorem.
   Part T1: shouldExcludeMatch on path strings = `excluded_by` on components (the exclude lemma).
   Part T2: the filters of Globber.glob composed (include matcher, sub-package filter, hidden filter, excludes,
            TrimPrefix), on the list of paths the walk recorded.
   Part T3: glob = glob_spec as sets, for every well-formed tree outside the executable `defect_class`. *)
From Coq Require Import String.
From PlzV Require Import Base.Harness Base.StrFacts Model.C21 Proof.C21 Proof.C21_paths Proof.C21_walk.
From Coq Require Import Lia.

(* ------------------------------------------------------------------------------------------- patterns *)
(* every rendered segment is a plain name: no '/', no newline, not empty, not "." or ".." (so filepath.Join/Clean
   leave the pattern alone) *)
Definition seg_names_ok (p : pat) : bool := forallb (fun g => entry_name_ok (render_seg g)) p.

Definition inc_ok (pkg : list str) (p : pat) : bool := fragment pkg p && compiles pkg p.

(* an exclude pattern of one segment is matched against the base name, with an empty root *)
Definition exc_pkg (pkg : list str) (e : pat) : list str := match e with [_] => [] | _ => pkg end.
Definition exc_ok (pkg : list str) (e : pat) : bool :=
  seg_names_ok e && fragment (exc_pkg pkg e) e && compiles (exc_pkg pkg e) e.

Lemma tmatch_ok pkg p f :
  fragment pkg p = true -> compiles pkg p = true -> f <> [] -> forallb name_ok f = true ->
  pattern_to_matcher (root_str pkg) (render p) = Some (toks_of pkg p)
  /\ tmatch (toks_of pkg p) (path_str pkg f) = segs_match p f.
Proof.
  intros Hfr Hc Hne Hf. destruct (matcher_correct pkg p f Hfr Hc Hne Hf) as (ts & E & M).
  rewrite (compiles_eq pkg p Hc) in E. injection E as <-. split; [now apply compiles_eq|exact M].
Qed.

Lemma seg_names_map e : seg_names_ok e = true -> forallb entry_name_ok (map render_seg e) = true.
Proof. unfold seg_names_ok. induction e as [|g e IH]; [reflexivity|]. cbn. intros H. apply andb_prop in H as [Hg He]. now rewrite Hg, IH. Qed.

Lemma pat_wf_nonempty e : pat_wf e = true -> e <> [].
Proof. destruct e; [discriminate|discriminate]. Qed.

Lemma last_app_r {A} (l r : list A) d : r <> [] -> last (l ++ r) d = last r d.
Proof.
  intros Hr. induction l as [|x l IH]; [reflexivity|]. cbn [app].
  destruct (l ++ r) eqn:E; [apply app_eq_nil in E as [_ E]; congruence|]. exact IH.
Qed.

Lemma last_in {A} (l : list A) d : l <> [] -> In (last l d) l.
Proof.
  induction l as [|x l IH]; [congruence|]. intros _. destruct l as [|y l]; [now left|]. right. apply IH. discriminate.
Qed.

Lemma last_entry_ok f : f <> [] -> forallb entry_name_ok f = true -> entry_name_ok (last f []) = true.
Proof. intros Hne H. rewrite forallb_forall in H. apply H. now apply last_in. Qed.

(* ------------------------------------------------------------------------------------------- Part T1 *)
Lemma should_exclude_cons root m excl rest : excl <> [] ->
  should_exclude root m (excl :: rest) =
  if is_base_path_of m (join root excl) then Some true
  else let rel := has_slash m && negb (has_slash excl) in
       match pattern_to_matcher (if rel then [] else root) excl with
       | None => None
       | Some p => if tmatch p (if rel then base m else m) then Some true else should_exclude root m rest
       end.
Proof. destruct excl; [congruence|reflexivity]. Qed.

Lemma matcher_empty_root L : L <> [] -> forallb entry_name_ok L = true ->
  pattern_to_matcher [] (intercalate L) = pattern_to_matcher (root_str []) (intercalate L).
Proof.
  intros HL Hok. unfold pattern_to_matcher. rewrite (join_empty L HL Hok), (join_root [] L HL eq_refl Hok). reflexivity.
Qed.

Lemma exclude_one pkg f e :
  f <> [] -> forallb entry_name_ok pkg = true -> forallb entry_name_ok f = true ->
  exc_ok pkg e = true -> pat_wf e = true ->
  render e <> []
  /\ is_base_path_of (path_str pkg f) (join (root_str pkg) (render e)) = is_prefix_segs (map render_seg e) f
  /\ let m := path_str pkg f in
     let rel := has_slash m && negb (has_slash (render e)) in
     exists ts, pattern_to_matcher (if rel then [] else root_str pkg) (render e) = Some ts
                /\ tmatch ts (if rel then base m else m)
                   = match e with [Seg a] => seg_match a (last f []) | _ => segs_match e f end.
Proof.
  intros Hf Hpkg Hfok Hexc Hwf. unfold exc_ok in Hexc.
  apply andb_prop in Hexc as [Hexc Hcomp]. apply andb_prop in Hexc as [Hnames Hfrag].
  pose proof (seg_names_map e Hnames) as HL. pose proof (pat_wf_nonempty e Hwf) as Hene.
  set (L := map render_seg e) in *.
  assert (HLne : L <> []) by (subst L; destruct e; [congruence|discriminate]).
  assert (Hr : render e = intercalate L) by reflexivity.
  assert (Hall : forallb entry_name_ok (pkg ++ f) = true) by now rewrite forallb_app, Hpkg, Hfok.
  assert (Hpf : pkg ++ f <> []) by (destruct pkg; [exact Hf|discriminate]).
  split; [rewrite Hr; now apply intercalate_nonempty|]. split.
  { rewrite Hr, (join_root pkg L HLne Hpkg HL). unfold path_str.
    rewrite base_path_of_segs; [apply is_prefix_segs_app| | | |].
    - destruct pkg; [exact HLne|discriminate].
    - apply entries_name_ok. now rewrite forallb_app, Hpkg, HL.
    - exact Hpf.
    - now apply entries_name_ok. }
  assert (Hs1 : has_slash (path_str pkg f) = match pkg ++ f with _ :: _ :: _ => true | _ => false end).
  { unfold path_str. apply has_slash_intercalate. now apply entries_name_ok. }
  assert (Hs2 : has_slash (render e) = match L with _ :: _ :: _ => true | _ => false end).
  { rewrite Hr. apply has_slash_intercalate. now apply entries_name_ok. }
  cbv zeta. rewrite Hs1, Hs2. clear Hs1 Hs2.
  destruct e as [|g1 [|g2 e']]; [congruence| |].
  - (* one segment: matched against the base name *)
    cbn [exc_pkg] in Hfrag, Hcomp. subst L. cbn [map].
    destruct g1 as [|a]; [vm_compute in Hfrag; discriminate|].
    assert (Hlast : entry_name_ok (last f []) = true) by now apply last_entry_ok.
    pose proof (entry_name_ok_parts _ Hlast) as (Hln & Hlne & _).
    assert (Hm : forall x, name_ok x = true ->
              pattern_to_matcher (root_str []) (render [Seg a]) = Some (toks_of [] [Seg a])
              /\ tmatch (toks_of [] [Seg a]) x = seg_match a x).
    { intros x Hx. destruct (tmatch_ok [] [Seg a] [x] Hfrag Hcomp) as [E M]; [discriminate|cbn; now rewrite Hx|].
      split; [exact E|]. change (path_str [] [x]) with x in M. rewrite M. cbn [segs_match]. apply andb_true_r. }
    assert (Hcase : (exists x, pkg = [] /\ f = [x])
                    \/ match pkg ++ f with _ :: _ :: _ => true | _ => false end = true).
    { destruct pkg as [|p [|p2 pkg']]; destruct f as [|x [|y f']]; try congruence; try (right; reflexivity).
      left. now exists x. }
    destruct Hcase as [(x & -> & ->)|Hs].
    + (* the path has one component: root package, top-level entry *)
      cbn [app andb]. destruct (Hm x) as [E M]; [cbn in Hfok; rewrite andb_true_r in Hfok; now apply entry_name_ok_parts in Hfok|].
      exists (toks_of [] [Seg a]). split; [exact E|]. exact M.
    + rewrite Hs. cbn [andb negb]. destruct (Hm (last f []) Hln) as [E M].
      exists (toks_of [] [Seg a]). split.
      * rewrite Hr. cbn [map]. rewrite matcher_empty_root; [exact E|discriminate|exact HL].
      * unfold path_str. rewrite base_of_path; [|exact Hpf|now apply entries_name_ok|].
        -- rewrite (last_app_r pkg f [] Hf). exact M.
        -- rewrite (last_app_r pkg f [] Hf). exact Hlne.
  - (* several segments: matched against the whole path *)
    cbn [exc_pkg] in Hfrag, Hcomp. subst L. cbn [map]. rewrite andb_false_r.
    destruct (tmatch_ok pkg (g1 :: g2 :: e') f Hfrag Hcomp Hf (entries_name_ok _ Hfok)) as [E M].
    exists (toks_of pkg (g1 :: g2 :: e')). split; [exact E|]. rewrite M. destruct g1; reflexivity.
Qed.

Theorem should_exclude_spec pkg f excs :
  f <> [] -> forallb entry_name_ok pkg = true -> forallb entry_name_ok f = true ->
  forallb (exc_ok pkg) excs = true -> forallb pat_wf excs = true ->
  should_exclude (root_str pkg) (path_str pkg f) (map render excs)
  = Some (existsb (fun e => excluded_by e f) excs).
Proof.
  intros Hf Hpkg Hfok. induction excs as [|e excs IH]; intros Hexc Hwf; [reflexivity|].
  cbn [forallb] in Hexc, Hwf. apply andb_prop in Hexc as [He Hexc]. apply andb_prop in Hwf as [Hw Hwf].
  destruct (exclude_one pkg f e Hf Hpkg Hfok He Hw) as (Hne & Hbase & ts & Ets & Hm).
  cbn [map existsb]. rewrite (should_exclude_cons _ _ _ _ Hne), Hbase. unfold excluded_by at 1.
  destruct (is_prefix_segs (map render_seg e) f); [reflexivity|]. cbn [orb]. cbv zeta.
  rewrite Ets, Hm. destruct (match e with [Seg a] => seg_match a (last f []) | _ => segs_match e f end); [reflexivity|].
  cbn [orb]. now apply IH.
Qed.

(* ------------------------------------------------------------------------------------------- Part T2 *)
(* what Globber.glob keeps of the recorded path `f` for the include pattern `p` *)
Definition sel (p : pat) (S : list (list str)) (excs : list pat) (hidden : bool) (f : list str) : bool :=
  negb (is_nil f) && segs_match p f && negb (under_any S f) && vis hidden f
  && negb (existsb (fun e => excluded_by e f) excs).

(* the package directory itself is recorded by the walk; it is dropped unless the include pattern matches its
   path string and it is not hidden ("." is) *)
Definition root_kept (pkg : list str) (p : pat) (hidden : bool) : bool :=
  tmatch (toks_of pkg p) (pstr pkg []) && (hidden || negb (is_hidden (pstr pkg []))).

Lemma glob1_filter pkg p S excs hidden Fl :
  forallb entry_name_ok pkg = true -> inc_ok pkg p = true ->
  forallb (exc_ok pkg) excs = true -> forallb pat_wf excs = true ->
  all_ok Fl -> all_ok S -> (forall d, In d S -> d <> []) ->
  root_kept pkg p hidden = false ->
  filter_matches (root_str pkg) (map (path_str pkg) S) (map render excs) hidden
                 (filter (tmatch (toks_of pkg p)) (map (pstr pkg) Fl))
  = Some (map (path_str pkg) (filter (sel p S excs hidden) Fl)).
Proof.
  intros Hpkg Hinc Hexc Hwf HFl HS HSne Hroot. unfold inc_ok in Hinc. apply andb_prop in Hinc as [Hfr Hc].
  induction Fl as [|f Fl IH]; [reflexivity|].
  assert (IH' := IH (fun g Hg => HFl g (or_intror Hg))). clear IH.
  pose proof (HFl f (or_introl eq_refl)) as Hfok.
  cbn [map filter]. destruct f as [|x f'].
  - (* the package directory *)
    cbn [sel is_nil negb andb]. unfold root_kept in Hroot.
    destruct (tmatch (toks_of pkg p) (pstr pkg [])); [|exact IH']. cbn [andb] in Hroot. cbn [filter_matches].
    destruct (is_in_directories _ _); [exact IH'|].
    assert (negb hidden && is_hidden (pstr pkg []) = true) as ->; [|exact IH'].
    destruct hidden; [discriminate|]. cbn in Hroot |- *. now apply negb_false_iff in Hroot.
  - set (f := x :: f') in *. assert (Hf : f <> []) by discriminate.
    assert (Hall : forallb entry_name_ok (pkg ++ f) = true) by now rewrite forallb_app, Hpkg, Hfok.
    rewrite (pstr_nonroot pkg f Hf). destruct (tmatch_ok pkg p f Hfr Hc Hf (entries_name_ok _ Hfok)) as [_ M].
    rewrite M. unfold sel at 1. cbn [is_nil negb andb]. destruct (segs_match p f); [|exact IH'].
    cbn [filter_matches andb].
    rewrite (in_directories_segs pkg f S Hf (entries_name_ok _ Hall)).
    2:{ intros d Hd. split; [now apply HSne|]. apply entries_name_ok. rewrite forallb_app, Hpkg. now rewrite (HS d Hd). }
    fold (under_any S f). destruct (under_any S f); [exact IH'|]. cbn [negb andb].
    pose proof (last_entry_ok f Hf Hfok) as Hlast. pose proof (entry_name_ok_parts _ Hlast) as (_ & Hlne & _).
    rewrite (hidden_filter_is_base_name pkg f Hf (entries_name_ok _ Hall) Hlne).
    assert (Ev : negb hidden && name_hidden (last f []) = negb (vis hidden f)).
    { unfold vis. destruct hidden; [reflexivity|]. cbn. now rewrite negb_involutive. }
    rewrite Ev. destruct (vis hidden f); cbn [negb]; [|exact IH'].
    rewrite (should_exclude_spec pkg f excs Hf Hpkg Hfok Hexc Hwf).
    destruct (existsb (fun e => excluded_by e f) excs); cbn [negb andb]; [exact IH'|].
    rewrite IH'. reflexivity.
Qed.

Lemma glob_all_spec pkg incs excs hidden syms Fl S :
  forallb entry_name_ok pkg = true -> forallb (inc_ok pkg) incs = true -> forallb pat_wf incs = true ->
  forallb (exc_ok pkg) excs = true -> forallb pat_wf excs = true ->
  all_ok Fl -> all_ok S -> (forall d, In d S -> d <> []) ->
  existsb (fun p => root_kept pkg p hidden) incs = false ->
  glob_all (root_str pkg) (map render incs) (map render excs) hidden syms
           (Walked (map (pstr pkg) Fl) [] (map (path_str pkg) S))
  = Some (flat_map (fun p => map intercalate (filter (sel p S excs hidden) Fl)) incs).
Proof.
  intros Hpkg Hinc Hiwf Hexc Hwf HFl HS HSne Hroot.
  induction incs as [|p incs IH]; [reflexivity|].
  cbn [forallb] in Hinc, Hiwf. apply andb_prop in Hinc as [Hp Hinc]. apply andb_prop in Hiwf as [Hpw Hiwf].
  cbn [existsb] in Hroot. apply orb_false_elim in Hroot as [Hrp Hroot].
  cbn [map glob_all flat_map].
  assert (Hne : render p <> []).
  { assert (Hfr := Hp). unfold inc_ok in Hfr. apply andb_prop in Hfr as [Hfr _].
    destruct p as [|g p']; [discriminate|]. change (render (g :: p')) with (intercalate (render_seg g :: map render_seg p')).
    rewrite intercalate_cons. cbn [pat_wf forallb] in Hpw. apply andb_prop in Hpw as [Hg _].
    destruct g as [|[|a0 a]]; [discriminate|discriminate|]. cbn [render_seg flat_map].
    destruct a0; cbn; discriminate. }
  destruct (render p) eqn:Er; [congruence|]. rewrite <- Er. clear Er.
  unfold glob1. assert (Hc := Hp). unfold inc_ok in Hc. apply andb_prop in Hc as [_ Hc].
  rewrite (compiles_eq pkg p Hc). cbn [w_files w_syms w_subs].
  assert (map (pstr pkg) Fl ++ (if syms then [] else []) = map (pstr pkg) Fl) as -> by (destruct syms; apply app_nil_r).
  rewrite (glob1_filter pkg p S excs hidden Fl Hpkg Hp Hexc Hwf HFl HS HSne Hrp).
  rewrite (IH Hinc Hiwf Hroot). cbn [option_map]. f_equal. f_equal.
  rewrite map_map. apply map_ext_in. intros f Hin. apply filter_In in Hin as [Hin Hsel].
  unfold sel in Hsel. destruct f as [|x f']; [discriminate|].
  apply trim_root; [discriminate|]. rewrite forallb_app, Hpkg. exact (HFl _ Hin).
Qed.

(* ------------------------------------------------------------------------------------------- Part T3 *)
(* the classes of inputs on which the unchanged code is known to deviate from the documented selection
   (the C21_refuted theorems), as an executable classifier *)
Inductive defect :=
| DPatternOutsideFragment        (* `?`/negated class that can reach '/', leading `**` in the root package, `**/**`, '/' literal *)
| DPatternNotCompiled            (* the compiled matcher is not the token translation: unescaped regexp metacharacter, unclean pattern *)
| DExcludeSegmentNotAName        (* an exclude segment renders to "", ".", ".." or contains '/' or a newline *)
| DPackageNamedLikeBuildFile     (* the package directory's own name is a BUILD file name: the walk stops at once *)
| DHiddenDirectory               (* hidden=False and the tree has a hidden directory: only base names are tested *)
| DPlzOutName                    (* root package: an entry named plz-out other than a top-level directory *)
| DDirectoryMatched.             (* an include pattern matches a directory of the package (directories are returned) *)

(* "." (the root package's own directory) is hidden; any other package directory's path string is never matched *)
Definition dot_matched (pkg : list str) (incs : list pat) (hidden : bool) : bool :=
  is_nil pkg && hidden && existsb (fun p => segs_match p [s "."]) incs.

Lemma segs_match_nil m p : segs_ok m p = true -> p <> [] -> segs_match p [] = false.
Proof.
  destruct p as [|[|a] rest]; [congruence| |reflexivity]. intros H _.
  destruct rest as [|[|a2] r2]; [reflexivity|discriminate|reflexivity].
Qed.

Lemma root_not_matched pkg p : pkg <> [] -> fragment pkg p = true ->
  tmatch (toks_of pkg p) (intercalate pkg) = false.
Proof.
  intros Hne Hfr. unfold fragment in Hfr. apply andb_prop in Hfr as [Hfr Hshape]. apply andb_prop in Hfr as [Hp Hk].
  unfold toks_of. set (m := has_dstar p) in *.
  assert (Htr : forall b, atom_ok m b = true -> tr_ok (if m then rtok else gtok) b).
  { destruct m; [exact rtok_ok|exact gtok_ok]. }
  assert (Hq : segs_ok m (map lit_seg pkg ++ p) = true) by now apply segs_ok_pkg.
  assert (Hpne : p <> []) by (destruct pkg; destruct p; try discriminate; congruence).
  pose proof (segs_match_pkg pkg p []) as E. rewrite app_nil_r in E.
  destruct pkg as [|x pkg]; [congruence|]. cbn [map app] in *. unfold lit_seg at 1. unfold lit_seg at 1 in Hq. unfold lit_seg at 1 in E.
  rewrite (pattern_head _ m Htr _ _ Hq (x :: pkg)); [|discriminate|exact Hk].
  rewrite E. now apply (segs_match_nil m).
Qed.

Lemma root_kept_false pkg p hidden : forallb entry_name_ok pkg = true -> inc_ok pkg p = true ->
  is_nil pkg && hidden && segs_match p [s "."] = false -> root_kept pkg p hidden = false.
Proof.
  intros Hpkg Hinc H. unfold inc_ok in Hinc. apply andb_prop in Hinc as [Hfr Hc]. unfold root_kept.
  destruct pkg as [|x pkg].
  - destruct (tmatch_ok [] p [s "."] Hfr Hc) as [_ M]; [discriminate|reflexivity|].
    change (pstr [] []) with (path_str [] [s "."]). rewrite M. cbn [is_nil andb] in H.
    change (is_hidden (path_str [] [s "."])) with true. cbn [negb]. rewrite orb_false_r, andb_comm. exact H.
  - rewrite pstr_root. unfold root_str. rewrite (root_not_matched (x :: pkg) p); [reflexivity|discriminate|exact Hfr].
Qed.

Definition dir_matched (bfn : list str) (pkg : list str) (tree : node) (incs : list pat) (hidden : bool) : bool :=
  dot_matched pkg incs hidden
  || existsb (fun e => snd e && existsb (fun p => segs_match p (fst e)) incs) (ents bfn (is_nil pkg) [] tree).

Definition defect_class (bfn pkg : list str) (tree : node) (incs excs : list pat) (hidden : bool) : option defect :=
  if negb (forallb (fragment pkg) incs && forallb (fun e => fragment (exc_pkg pkg e) e) excs) then Some DPatternOutsideFragment
  else if negb (forallb (compiles pkg) incs && forallb (fun e => compiles (exc_pkg pkg e) e) excs) then Some DPatternNotCompiled
  else if negb (forallb seg_names_ok excs) then Some DExcludeSegmentNotAName
  else if is_build_file bfn (root_str pkg) then Some DPackageNamedLikeBuildFile
  else if negb (hidden || no_hidden_dir tree) then Some DHiddenDirectory
  else if negb (plz_ok (is_nil pkg) tree) then Some DPlzOutName
  else if dir_matched bfn pkg tree incs hidden then Some DDirectoryMatched
  else None.

Lemma forallb_and {A} (P Q : A -> bool) l : forallb P l = true -> forallb Q l = true -> forallb (fun x => P x && Q x) l = true.
Proof. intros HP HQ. rewrite forallb_forall in *. intros x Hx. now rewrite HP, HQ. Qed.

Lemma defect_none bfn pkg tree incs excs hidden : defect_class bfn pkg tree incs excs hidden = None ->
  forallb (inc_ok pkg) incs = true /\ forallb (exc_ok pkg) excs = true
  /\ is_build_file bfn (root_str pkg) = false
  /\ (hidden = true \/ no_hidden_dir tree = true)
  /\ plz_ok (is_nil pkg) tree = true
  /\ dir_matched bfn pkg tree incs hidden = false.
Proof.
  unfold defect_class.
  destruct (forallb (fragment pkg) incs && forallb (fun e => fragment (exc_pkg pkg e) e) excs) eqn:E1; [|discriminate].
  destruct (forallb (compiles pkg) incs && forallb (fun e => compiles (exc_pkg pkg e) e) excs) eqn:E2; [|discriminate].
  destruct (forallb seg_names_ok excs) eqn:E3; [|discriminate].
  destruct (is_build_file bfn (root_str pkg)) eqn:E4; [discriminate|].
  destruct (hidden || no_hidden_dir tree) eqn:E5; [|discriminate].
  destruct (plz_ok (is_nil pkg) tree) eqn:E6; [|discriminate].
  destruct (dir_matched bfn pkg tree incs hidden) eqn:E7; [discriminate|]. intros _. cbn [negb].
  apply andb_prop in E1 as [E1a E1b]. apply andb_prop in E2 as [E2a E2b].
  split; [unfold inc_ok; now apply forallb_and|]. split.
  { unfold exc_ok. apply forallb_and; [apply forallb_and|]; assumption. }
  split; [reflexivity|]. split; [now apply orb_prop in E5|]. split; reflexivity.
Qed.

Lemma pkg_name_root pkg : forallb entry_name_ok pkg = true ->
  match pkg_name pkg with [] => s "." | _ => pkg_name pkg end = root_str pkg
  /\ match pkg_name pkg with [] => true | _ => false end = is_nil pkg.
Proof.
  intros H. unfold pkg_name, root_str. destruct pkg as [|x pkg]; [split; reflexivity|].
  destruct (intercalate (x :: pkg)) eqn:E; [exfalso; now apply (intercalate_nonempty (x :: pkg))|]. split; reflexivity.
Qed.

Theorem tree_correct bfn pkg tree incs excs hidden syms :
  inputs_ok pkg tree incs excs = true -> tree_wf tree = true ->
  defect_class bfn pkg tree incs excs hidden = None ->
  holds_on bfn pkg tree incs excs hidden syms.
Proof.
  intros Hin Hwf Hdef. unfold inputs_ok in Hin.
  apply andb_prop in Hin as [Hin Hewf]. apply andb_prop in Hin as [Hin Hiwf]. apply andb_prop in Hin as [Hpkg _].
  destruct (defect_none _ _ _ _ _ _ Hdef) as (Hinc & Hexc & Hnb & Hhid & Hplz & Hdm).
  unfold dir_matched in Hdm. apply orb_false_elim in Hdm as [Hdot Hdirs].
  assert (Hroot : existsb (fun p => root_kept pkg p hidden) incs = false).
  { destruct (existsb (fun p => root_kept pkg p hidden) incs) eqn:E; [|reflexivity].
    apply existsb_exists in E as (p & Hp & Hk). rewrite forallb_forall in Hinc.
    rewrite (root_kept_false pkg p hidden Hpkg (Hinc p Hp)) in Hk; [discriminate|].
    unfold dot_matched in Hdot. destruct (is_nil pkg && hidden); [|reflexivity]. cbn [andb] in Hdot |- *.
    destruct (segs_match p [s "."]) eqn:Em; [|reflexivity].
    assert (existsb (fun p => segs_match p [s "."]) incs = true); [|congruence]. apply existsb_exists. now exists p. }
  pose proof Hwf as Hwf0. unfold tree_wf in Hwf. apply andb_prop in Hwf as [Hisdir Hwf].
  destruct tree as [| |kids]; try discriminate.
  destruct (pkg_name_root pkg Hpkg) as [Eroot Etop].
  destruct (walk_sets bfn (is_nil pkg) kids Hwf Hplz) as (Fn & Sn & Ewalk & HFne & HSne & Hents).
  destruct (walk_names bfn (is_nil pkg) kids Hwf) as [HFok HSok]. rewrite Ewalk in HFok, HSok. cbn [fst snd] in HFok, HSok.
  set (Fl := rev (Fn ++ [[]])). set (S := rev Sn).
  assert (HFl : all_ok Fl) by (intros f Hf; apply HFok; now apply in_rev).
  assert (HS : all_ok S) by (intros f Hf; apply HSok; now apply in_rev).
  assert (HSne' : forall d, In d S -> d <> []) by (intros d Hd; apply HSne; now apply in_rev).
  exists (flat_map (fun p => map intercalate (filter (sel p S excs hidden) Fl)) incs). split.
  - unfold glob. rewrite Eroot. rewrite (walk_dir_refines bfn pkg kids Hpkg Hwf0 Hnb). cbv zeta.
    rewrite Ewalk. cbn [fst snd]. rewrite <- !map_rev. fold Fl. fold S.
    assert (map (pstr pkg) S = map (path_str pkg) S) as ->.
    { apply map_ext_in. intros d Hd. apply pstr_nonroot. now apply HSne'. }
    now apply glob_all_spec.
  - intros x. unfold glob_spec. rewrite Etop.
    assert (Hspec : forall f, In f (spec_files_in bfn (is_nil pkg) hidden syms [] (Dir kids))
                              <-> In (f, false) (ents bfn (is_nil pkg) [] (Dir kids)) /\ vis hidden f = true).
    { apply (spec_files_ents bfn hidden syms (Dir kids) (is_nil pkg) true []); [exact Hwf| |reflexivity].
      destruct Hhid as [->|Hh]; [now left|now right]. }
    assert (Hunder : forall f, under_any S f = under_any Sn f).
    { intros f. destruct (under_any Sn f) eqn:E.
      - unfold under_any in *. apply existsb_exists in E as (d & Hd & Hp). apply existsb_exists. exists d. split; [|exact Hp].
        unfold S. now apply -> in_rev.
      - apply under_any_false. intros d Hd. apply (proj1 (under_any_false Sn f) E). now apply in_rev. }
    rewrite in_flat_map. split.
    + intros (p & Hp & Hx). apply in_map_iff in Hx as (f & <- & Hf). apply filter_In in Hf as [HfFl Hsel].
      exists f. split; [reflexivity|]. unfold sel in Hsel.
      apply andb_prop in Hsel as [Hsel Hnex]. apply andb_prop in Hsel as [Hsel Hvis].
      apply andb_prop in Hsel as [Hsel Hund]. apply andb_prop in Hsel as [Hnn Hm].
      apply filter_In. split.
      * apply Hspec. split; [|exact Hvis].
        assert (HinFn : In f Fn).
        { unfold Fl in HfFl. apply in_rev in HfFl. apply in_app_or in HfFl as [H|[<-|[]]]; [exact H|discriminate]. }
        apply negb_true_iff in Hund. rewrite Hunder in Hund.
        assert (Hm1 : In f (map fst (ents bfn (is_nil pkg) [] (Dir kids)))) by (apply Hents; now split).
        apply in_map_iff in Hm1 as ([f0 b] & Ef & He). cbn [fst] in Ef. subst f0.
        destruct b; [|exact He]. exfalso.
        assert (existsb (fun e => snd e && existsb (fun p => segs_match p (fst e)) incs) (ents bfn (is_nil pkg) [] (Dir kids)) = true); [|congruence].
        apply existsb_exists. exists (f, true). split; [exact He|]. cbn [fst snd andb].
        apply existsb_exists. now exists p.
      * apply andb_true_intro. split; [|exact Hnex]. apply existsb_exists. now exists p.
    + intros (f & -> & Hf). apply filter_In in Hf as [Hf Hc]. apply andb_prop in Hc as [Hincl Hnex].
      apply existsb_exists in Hincl as (p & Hp & Hm). apply Hspec in Hf as [He Hvis].
      assert (Hm1 : In f (map fst (ents bfn (is_nil pkg) [] (Dir kids)))) by (apply in_map_iff; now exists (f, false)).
      apply Hents in Hm1 as [HinFn Hund].
      exists p. split; [exact Hp|]. apply in_map. apply filter_In. split.
      * unfold Fl. apply -> in_rev. apply in_or_app. now left.
      * unfold sel. rewrite Hm, Hvis, Hnex, Hunder, Hund. rewrite (is_nil_false f (HFne f HinFn)). reflexivity.
Qed.

(* ------------------------------------------------------------------------------------------- the walk, summed up *)
(* walkDir on path strings: it records the package directory, then paths of entries of the tree; after the
   sub-package filter (isInDirectories against the recorded sub-packages) exactly the entries `ents` remain *)
Theorem walk_characterised bfn pkg kids :
  forallb entry_name_ok pkg = true -> tree_wf (Dir kids) = true ->
  is_build_file bfn (root_str pkg) = false -> plz_ok (is_nil pkg) (Dir kids) = true ->
  exists F S,
    walk_dir bfn (root_str pkg) (Dir kids)
    = Walked (root_str pkg :: map (path_str pkg) F) [] (map (path_str pkg) S)
    /\ (forall f, In f F -> f <> [] /\ forallb entry_name_ok f = true)
    /\ (forall d, In d S -> d <> [] /\ forallb entry_name_ok d = true)
    /\ (forall f, (In f F /\ under_any S f = false) <-> In f (map fst (ents bfn (is_nil pkg) [] (Dir kids)))).
Proof.
  intros Hpkg Hwf0 Hnb Hplz. pose proof Hwf0 as Hwf. unfold tree_wf in Hwf. cbn [is_dir andb] in Hwf.
  destruct (walk_sets bfn (is_nil pkg) kids Hwf Hplz) as (Fn & Sn & Ewalk & HFne & HSne & Hents).
  destruct (walk_names bfn (is_nil pkg) kids Hwf) as [HFok HSok]. rewrite Ewalk in HFok, HSok. cbn [fst snd] in HFok, HSok.
  exists (rev Fn), (rev Sn). split; [|split; [|split]].
  - rewrite (walk_dir_refines bfn pkg kids Hpkg Hwf0 Hnb). cbv zeta. rewrite Ewalk. cbn [fst snd].
    rewrite <- !map_rev, rev_app_distr. cbn [rev app map]. rewrite pstr_root. f_equal.
    + f_equal. apply map_ext_in. intros f Hf. apply pstr_nonroot. apply HFne. now apply in_rev.
    + apply map_ext_in. intros f Hf. apply pstr_nonroot. apply HSne. now apply in_rev.
  - intros f Hf. apply in_rev in Hf. split; [now apply HFne|]. apply HFok. apply in_or_app. now left.
  - intros d Hd. apply in_rev in Hd. split; [now apply HSne|now apply HSok].
  - intros f. rewrite <- Hents, <- in_rev. split; intros [H1 H2]; (split; [exact H1|]).
    + apply under_any_false. intros d Hd. apply (proj1 (under_any_false _ _) H2). now apply -> in_rev.
    + apply under_any_false. intros d Hd. apply (proj1 (under_any_false _ _) H2). now apply in_rev.
Qed.

(* ------------------------------------------------------------------------------------------- non-vacuity *)
Definition go_pat : list atom := [AStar; ALit 46; ALit 103; ALit 111].                               (* *.go *)
(* a package with a BUILD file, nested directories, a hidden file, the repository's plz-out and a sub-package *)
Definition t8_tree : node :=
  Dir [(s "BUILD", File); (s "d1", Dir [(s "a.txt", File); (s "d2", Dir [(s "c.txt", File)])]);
       (s "lib", Dir [(s ".hid.go", File); (s "a.go", File); (s "a_test.go", File)]);
       (s "plz-out", Dir [(s "g.txt", File)]); (s "sub", Dir [(s "BUILD", File); (s "s.txt", File)])].
Definition t8_incs : list pat := [[Seg (map ALit (s "d1")); DStar; Seg txt_pat]; [Seg (map ALit (s "lib")); Seg go_pat]].
Definition t8_excs : list pat := [[Seg (AStar :: map ALit (s "_test.go"))]; [Seg (map ALit (s "d1")); Seg (map ALit (s "d2"))]].
Definition t9_tree : node :=
  Dir [(s "a", File); (s "a.txt", File); (s "ab", Dir [(s "a", File); (s "ab", File); (s "x.txt", File)]); (s "b+", File)].

Lemma tree_domain_witness :
  inputs_ok [] t8_tree t8_incs t8_excs = true /\ tree_wf t8_tree = true
  /\ defect_class w_bfn [] t8_tree t8_incs t8_excs false = None
  /\ glob w_bfn [] t8_tree (map render t8_incs) (map render t8_excs) false false = Some [s "d1/a.txt"; s "lib/a.go"]
  /\ glob_spec w_bfn [] t8_tree t8_incs t8_excs false false = [[s "d1"; s "a.txt"]; [s "lib"; s "a.go"]]
  (* in a nested package plz-out is an ordinary directory *)
  /\ defect_class w_bfn [s "third_party"; s "go"] t8_tree [[DStar; Seg txt_pat]] t8_excs false = None
  /\ glob w_bfn (s "third_party/go") t8_tree [s "**/*.txt"] (map render t8_excs) false false
     = Some [s "d1/a.txt"; s "plz-out/g.txt"].
Proof. vm_compute. repeat split. Qed.

(* every refuting witness of Proof/C21.v lies in a defect class, and so does the package named like a BUILD file *)
Lemma witnesses_classified :
  defect_class w_bfn [s "p"] w1_tree [[DStar; Seg txt_pat]] [] false = Some DHiddenDirectory
  /\ defect_class w_bfn [s "p"] w2_tree [w2_pat] [] false = Some DPatternNotCompiled
  /\ defect_class w_bfn [s "p"] w3_tree [[Seg [AStar]]] [] false = Some DDirectoryMatched
  /\ defect_class w_bfn [] w3_tree [[DStar; Seg txt_pat]] [] false = Some DPatternOutsideFragment
  /\ defect_class w_bfn [s "p"] w5_tree [w5_pat] [] false = Some DPatternOutsideFragment
  /\ defect_class w_bfn [s "p"] w5_tree [w6_pat] [] false = Some DPatternOutsideFragment
  /\ defect_class w_bfn [] w7_tree [[Seg [AStar]; DStar]] [] false = Some DPlzOutName
  /\ defect_class w_bfn [s "a"; s "BUILD"] t8_tree [[DStar; Seg txt_pat]] [] false = Some DPackageNamedLikeBuildFile
  /\ glob w_bfn (s "a/BUILD") t8_tree [s "**/*.txt"] [] false false = Some [].
Proof. vm_compute. repeat split. Qed.

(* how much of a pattern family lies outside every defect class, on two trees, in the root package and a nested one *)
Definition sweep2 : list pat :=
  let one := map (fun g => [g]) sweep_segs in
  one ++ flat_map (fun g => map (cons g) one) sweep_segs.

Definition in_domain (pkg : list str) (tree : node) (p : pat) : bool :=
  match defect_class w_bfn pkg tree [p] [[Seg [ALit 97]]] false with None => true | Some _ => false end.

Lemma tree_domain_sweep :
  map (fun tree => map (fun pkg => length (filter (in_domain pkg tree) sweep2)) [[]; [s "pkg"]]) [t8_tree; t9_tree]
  = [[59; 64]; [58; 61]]%nat
  /\ length sweep2 = 72%nat.
Proof. vm_compute. split; reflexivity. Qed.
