(* C05 - absence of deadlock: in every reachable state of the scheduler LTS that has not ended, some step is enabled
   (the 5 s inactivity cycle check counts as a step).  The argument: until Stop, numPending counts the live tasks and is
   positive (bundle C), so some task is alive; every kind of task can move, except a queueTargetAsync blocked in
   WaitForBuild on a dependency that is not finished; that dependency's own queueTargetAsync is then alive and either can
   move or is blocked in turn; a chain of blocked waits in a finite graph closes a cycle (pigeonhole), which the cycle
   check finds. *)
From PlzV Require Import Base.Harness Model.Sched Proof.Sched_Base Proof.Sched_Inv Proof.Sched_Deps Proof.C04 Proof.Sched_Measure Proof.C05 Proof.C05_Defs Proof.C05_Pkg Proof.C05_InvP Proof.C05_Resolve Proof.C05_Needed Proof.C05_Count.
From Coq Require Import Lia Arith.

(* ---- all invariants together ---- *)
Record Inv05 (g : graph) (s : state) : Prop := {
  v_J : forall t, J s t;
  v_K : forall t, K g s t;
  v_P : InvP g s;
  v_C : InvC g s;
  v_R : InvR g s;
  v_N : InvN g s
}.

Theorem Inv05_reachable : forall g s, wf g -> reachable g s -> Inv05 g s.
Proof.
  intros g s Hwf Hr. pattern s. apply (reachable_ind' g); [| | exact Hr].
  - constructor; [intros; apply J_init | intros; apply K_init | apply InvP_init; exact Hwf | apply InvC_init | apply InvR_init | apply InvN_init].
  - intros s0 l _ [HJ HK HP HC HR HN] He.
    constructor; [apply J_step | apply K_step | apply InvP_step | apply InvC_step | apply InvR_step | apply InvN_step]; assumption.
Qed.

(* ---- pigeonhole ---- *)
Lemma bounded_search : forall (P : nat -> bool) m, (exists i, i <= m /\ P i = true) \/ (forall i, i <= m -> P i = false).
Proof.
  intros P m. induction m as [|m IH].
  - destruct (P 0) eqn:E; [left; exists 0; auto | right; intros i Hi; assert (i = 0) by lia; subst; exact E].
  - destruct IH as [[i [Hi Hp]]|IH]; [left; exists i; split; [lia | exact Hp]|].
    destruct (P (S m)) eqn:E; [left; exists (S m); auto|].
    right. intros i Hi. destruct (Nat.eq_dec i (S m)) as [->|Hne]; [exact E | apply IH; lia].
Qed.

Lemma pigeon : forall n (h : nat -> nat), (forall i, i <= n -> h i < n) -> exists i j, i < j /\ j <= n /\ h i = h j.
Proof.
  induction n as [|n IH]; intros h Hh.
  - specialize (Hh 0 (le_n 0)). lia.
  - destruct (bounded_search (fun i => Nat.eqb (h i) (h (S n))) n) as [[i [Hi He]]|Hnone].
    + apply Nat.eqb_eq in He. exists i, (S n). repeat split; [lia | lia | exact He].
    + set (v := h (S n)).
      set (h' := fun i => if Nat.ltb (h i) v then h i else h i - 1).
      assert (Hne : forall i, i <= n -> h i <> v).
      { intros i Hi E. specialize (Hnone i Hi). cbn in Hnone. apply Nat.eqb_neq in Hnone. apply Hnone. exact E. }
      destruct (IH h') as (i & j & Hij & Hj & E).
      { intros i Hi. unfold h'. pose proof (Hh i ltac:(lia)). pose proof (Hne i Hi). pose proof (Hh (S n) (le_n _)). fold v in H1.
        destruct (Nat.ltb_spec (h i) v); lia. }
      exists i, j. repeat split; [exact Hij | lia|].
      unfold h' in E. pose proof (Hne i ltac:(lia)). pose proof (Hne j ltac:(lia)).
      destruct (Nat.ltb_spec (h i) v); destruct (Nat.ltb_spec (h j) v); lia.
Qed.

Fixpoint itr (k : nat) (f : nat -> nat) (x : nat) : nat := match k with O => x | S k' => itr k' f (f x) end.
Fixpoint orbit (f : nat -> nat) (k : nat) (x : nat) : list nat := match k with O => [] | S k' => x :: orbit f k' (f x) end.

Lemma itr_add : forall a b f x, itr (a + b) f x = itr b f (itr a f x).
Proof. induction a as [|a IH]; intros b f x; cbn; [reflexivity | apply IH]. Qed.
Lemma itr_S_out : forall k f x, itr (S k) f x = f (itr k f x).
Proof. intros k f x. replace (S k) with (k + 1) by lia. rewrite itr_add. reflexivity. Qed.

Lemma orbit_path : forall g s f k x,
  (forall i, i <= k -> redge g s (itr i f x) (f (itr i f x)) = true) ->
  path_ok g s (itr (S k) f x) (orbit f (S k) x) = true.
Proof.
  intros g s f k. induction k as [|k IH]; intros x H.
  - cbn. apply (H 0). lia.
  - change (orbit f (S (S k)) x) with (x :: orbit f (S k) (f x)).
    change (itr (S (S k)) f x) with (itr (S k) f (f x)).
    change (orbit f (S k) (f x)) with (f x :: orbit f k (f (f x))).
    cbn [path_ok]. apply andb_true_intro. split; [apply (H 0); lia|].
    apply (IH (f x)). intros i Hi. apply (H (S i)). lia.
Qed.

(* ---- who can move ---- *)
Definition can (g : graph) (s : state) : Prop := exists l, enabled g s l = true.

Lemma forallb_false_ex : forall A (f : A -> bool) l, forallb f l = false -> exists x, In x l /\ f x = false.
Proof.
  intros A f l. induction l as [|a r IH]; cbn; [discriminate|]. intros H. apply andb_false_iff in H.
  destruct H as [H|H]; [exists a; auto | destruct (IH H) as [x [Hi Hf]]; exists x; auto].
Qed.

Ltac leaf := first
  [ assumption | apply Nat.ltb_lt; assumption | apply mem_In; assumption | apply Nat.eqb_refl
  | match goal with H : ?b = false |- negb ?b = true => rewrite H; reflexivity end
  | reflexivity ].
Ltac guards := repeat (apply andb_true_intro; split); try leaf.
Ltac can_by Hx lab := exists lab; unfold enabled; rewrite Hx; cbn [negb andb]; unfold lt_n.

Section Live.
Variable g : graph.
Variable s : state.
Hypothesis Hwf : wf g.
Hypothesis HI : Inv05 g s.
Hypothesis Hx : exited s = false.

Let HJ := v_J g s HI.
Let HK := v_K g s HI.
Let HP := v_P g s HI.
Let HC := v_C g s HI.
Let HR := v_R g s HI.

Lemma rng : forall t, in_lists s t -> t < g_n g.
Proof. exact (p_range g s HP). Qed.

Lemma parser_can : forall l, In l (parsers s) -> can g s.
Proof.
  intros l Hl. assert (Hn : l < g_n g) by (apply rng; unfold in_lists; tauto).
  destruct (g_pkg_ok g (g_pkg g l)) eqn:Ok; [|can_by Hx (LParseFail l); guards].
  destruct (all_decl_exist g s (g_pkg g l)) eqn:A; [can_by Hx (LParseOk l); guards|].
  unfold all_decl_exist in A. apply forallb_false_ex in A. destruct A as [t [Ht Hf]].
  apply in_seq in Ht. apply orb_false_iff in Hf. destruct Hf as [Hf1 Hf2]. apply negb_false_iff in Hf1.
  apply andb_prop in Hf1. destruct Hf1 as [Hd Hp].
  can_by Hx (LAddTarget l t). guards. apply Nat.ltb_lt. lia.
Qed.

Lemma stop_can : stopreq s = true -> closed s = false -> can g s.
Proof. intros H1 H2. can_by Hx LStop. rewrite H1, H2. reflexivity. Qed.

(* something waits for package p *)
Lemma pkg_can : forall p, closed s = false -> pk s p = PParsing \/ pk s p = PFailed -> can g s.
Proof.
  intros p Hc [H|H].
  - destruct (p_parsing g s HP p H) as [l [Hl _]]. apply (parser_can l Hl).
  - destruct (p_failed g s HP p H) as [Hs _]. apply stop_can; assumption.
Qed.

Lemma ptask_can : forall l, In l (ptasks s) -> closed s = false -> can g s.
Proof.
  intros l Hl Hc. assert (Hn : l < g_n g) by (apply rng; unfold in_lists; tauto).
  destruct (ex s l && negb (st_geb (ts s l) queued_threshold)) eqn:A.
  - can_by Hx (LParseActivate l). guards. rewrite A. reflexivity.
  - destruct (pk s (g_pkg g l)) eqn:Pk.
    + can_by Hx (LParseClaim l). guards. rewrite Pk. reflexivity.
    + apply (pkg_can (g_pkg g l)); auto.
    + can_by Hx (LParseActivate l). guards. rewrite Pk. cbn. apply orb_true_r.
    + apply (pkg_can (g_pkg g l)); auto.
Qed.

Lemma nonnil_In : forall (l : list nat), l <> [] -> exists x, In x l.
Proof. intros [|x r] H; [contradiction | exists x; left; reflexivity]. Qed.

Lemma worker_can : forall t,
  In t (sendq s) \/ In t (actq s) \/ In t (taken s) \/ In t (building s) \/ In t (finishing s) \/ In t (completing s) \/ In t (semi s) ->
  can g s.
Proof.
  assert (Hb : forall t, In t (building s) -> can g s).
  { intros t Ht. assert (t < g_n g) by (apply rng; unfold in_lists; tauto). can_by Hx (LBuildFail t). guards. }
  assert (Hf : forall t, In t (finishing s) -> can g s).
  { intros t Ht. assert (t < g_n g) by (apply rng; unfold in_lists; tauto). can_by Hx (LFinishBuild t). guards. }
  assert (Hc : forall t, In t (completing s) -> can g s).
  { intros t Ht. assert (t < g_n g) by (apply rng; unfold in_lists; tauto). can_by Hx (LTaskDone t). guards. }
  intros t H. assert (Hn : t < g_n g) by (apply rng; unfold in_lists; tauto).
  destruct H as [H|[H|[H|[H|[H|[H|H]]]]]]; eauto.
  - can_by Hx (LSendTask t). guards.
  - can_by Hx (LWorkerTake t). guards.
  - destruct (Nat.ltb (busy s) (g_threads g)) eqn:B; [can_by Hx (LBuildStart t); guards|].
    apply Nat.ltb_ge in B. destruct Hwf as (_ & _ & Hth). unfold busy in B.
    destruct (building s) as [|b r] eqn:Eb; [|apply (Hb b); left; reflexivity].
    destruct (finishing s) as [|b r] eqn:Ef; [|apply (Hf b); left; reflexivity].
    destruct (completing s) as [|b r] eqn:Ec; [|apply (Hc b); left; reflexivity].
    cbn in B. lia.
  - can_by Hx (LSemiDone t). guards.
Qed.

Lemma closed_can : closed s = true -> can g s.
Proof.
  intros Hc.
  destruct (actq s) as [|a r] eqn:E1; [|apply (worker_can a); rewrite E1; cbn; tauto].
  destruct (taken s) as [|a r] eqn:E2; [|apply (worker_can a); rewrite E2; cbn; tauto].
  destruct (building s) as [|a r] eqn:E3; [|apply (worker_can a); rewrite E3; cbn; tauto].
  destruct (finishing s) as [|a r] eqn:E4; [|apply (worker_can a); rewrite E4; cbn; tauto].
  destruct (completing s) as [|a r] eqn:E5; [|apply (worker_can a); rewrite E5; cbn; tauto].
  can_by Hx LExitRun. rewrite Hc, E1, E2, E3, E4, E5. reflexivity.
Qed.

(* blocked: in WaitForBuild on a dependency that has not finished *)
Definition blocked (t : nat) : Prop := exists d r, asy s t = AWait (d :: r) /\ fin s d = false.
Definition nxt (t : nat) : nat := match asy s t with AWait (d :: _) => d | _ => 0 end.

Lemma live_can_or_blocked : forall t, closed s = false -> t < g_n g -> a_cnt (asy s t) = 1 -> can g s \/ blocked t.
Proof.
  intros t Hc Hn Ha. destruct (asy s t) as [|todo|todo err|todo| |] eqn:Ea; cbn in Ha; try discriminate.
  - left. destruct todo as [|d r]; [can_by Hx (LAsyncBeginResolve t) | can_by Hx (LAsyncQueueDep t)]; rewrite Ea; guards.
  - destruct todo as [|d r]; [left; can_by Hx (LAsyncBeginWait t); rewrite Ea; guards|].
    destruct (r_resolve g s HR t _ _ Ea) as (HX & _ & _).
    assert (Hd : In d (g_deps g t)) by (apply (p_todor g s HP t _ _ Ea); left; reflexivity).
    left. destruct (ex s d) eqn:Ex.
    + can_by Hx (LAsyncResolveDep t d). rewrite Ea. guards; try (cbn; rewrite Nat.eqb_refl; reflexivity). rewrite Ex. reflexivity.
    + destruct (pk s (g_pkg g d)) eqn:Pk.
      * destruct (HX d Hd) as [H|[H|H]]; [congruence | congruence | apply (ptask_can d H Hc)].
      * apply (pkg_can (g_pkg g d)); auto.
      * can_by Hx (LAsyncResolveDep t d). rewrite Ea, Pk. guards; try (cbn; rewrite Nat.eqb_refl; reflexivity). cbn. apply orb_true_r.
      * apply (pkg_can (g_pkg g d)); auto.
  - destruct todo as [|d r]; [left; can_by Hx (LActivatePending t); rewrite Ea; guards|].
    destruct (fin s d) eqn:Ef; [left | right; exists d, r; auto].
    destruct (st_geb (ts s d) dep_failed_threshold) eqn:Eg.
    + can_by Hx (LDepFailed t d). rewrite Ea, Ef, Eg. guards.
    + can_by Hx (LWaitDep t d). rewrite Ea, Ef, Eg. guards.
  - left. can_by Hx (LAsyncDone t). rewrite Ea. guards.
Qed.

Lemma cnt_pos_In : forall t l, 1 <= cnt t l -> In t l.
Proof. intros t l H. apply mem_In. apply mem_cnt. exact H. Qed.

Lemma blocked_edge : forall t, blocked t -> In (nxt t) (g_deps g t) /\ nxt t < g_n g /\ redge g s t (nxt t) = true /\ fin s (nxt t) = false.
Proof.
  intros t (d & r & Ea & Ef). unfold nxt. rewrite Ea.
  destruct (HK t) as [_ K2]. destruct (K2 _ Ea) as [dn [E _]].
  assert (Hd : In d (g_deps g t)) by (rewrite E; apply in_or_app; right; left; reflexivity).
  destruct Hwf as (Hdeps & _ & _). repeat split; auto; [apply (Hdeps t d Hd)|].
  unfold redge. rewrite Ea. rewrite (proj2 (mem_In d (g_deps g t)) Hd). reflexivity.
Qed.

Lemma blocked_next : forall t, closed s = false -> blocked t -> can g s \/ blocked (nxt t).
Proof.
  intros t Hc Hb. destruct (blocked_edge t Hb) as (Hd & Hn & _ & Ef).
  destruct Hb as (d & r & Ea & _). unfold nxt in *. rewrite Ea in *.
  pose proof (r_wait g s HR t _ Ea d Hd) as Hrk.
  destruct (HJ d) as (JA & JB & JS).
  destruct (asy s d) as [|todo|todo err|todo| |] eqn:Ead.
  - exfalso. assert (rank (ts s d) < 2)%N by (apply JA; reflexivity). lia.
  - apply live_can_or_blocked; auto. rewrite Ead. reflexivity.
  - apply live_can_or_blocked; auto. rewrite Ead. reflexivity.
  - apply live_can_or_blocked; auto. rewrite Ead. reflexivity.
  - left. can_by Hx (LAsyncDone d). rewrite Ead. guards.
  - left. destruct (c_done g s HC d (or_intror Ead)) as [H3|H3]; [|congruence].
    unfold shape, q in JS.
    destruct (ts s d) eqn:Ets; cbn in H3; try lia; cbn in JS; dand; try contradiction; try congruence.
    + (* Pending *) destruct (c_pending g s HC d Ets) as [Hq|[Hq _]]; [|congruence]. unfold q in Hq.
      destruct (cnt d (sendq s)) eqn:C1; [destruct (cnt d (actq s)) eqn:C2|].
      * apply (worker_can d). right; right; left. apply cnt_pos_In. lia.
      * apply (worker_can d). right; left. apply cnt_pos_In. lia.
      * apply (worker_can d). left. apply cnt_pos_In. lia.
    + (* Building *) apply (worker_can d). do 3 right; left. apply cnt_pos_In. lia.
    + apply (worker_can d). do 4 right; left. apply cnt_pos_In. crush.
    + apply (worker_can d). do 4 right; left. apply cnt_pos_In. crush.
    + apply (worker_can d). do 4 right; left. apply cnt_pos_In. crush.
    + apply (worker_can d). do 4 right; left. apply cnt_pos_In. crush.
    + apply (worker_can d). do 4 right; left. apply cnt_pos_In. crush.
Qed.

Lemma chain : forall t, closed s = false -> blocked t -> forall k, can g s \/ forall i, i <= k -> blocked (itr i nxt t).
Proof.
  intros t Hc Hb k. induction k as [|k IH].
  - right. intros i Hi. assert (i = 0) by lia. subst. exact Hb.
  - destruct IH as [IH|IH]; [left; exact IH|].
    destruct (blocked_next (itr k nxt t) Hc (IH k (le_n k))) as [H|H]; [left; exact H|].
    right. intros i Hi. destruct (Nat.eq_dec i (S k)) as [->|Hne]; [rewrite itr_S_out; exact H | apply IH; lia].
Qed.

Lemma blocked_can : forall t, closed s = false -> blocked t -> t < g_n g -> can g s.
Proof.
  intros t Hc Hb Hn.
  destruct (chain t Hc Hb (g_n g)) as [H|Hall]; [exact H|].
  destruct (pigeon (g_n g) (fun i => itr i nxt t)) as (i & j & Hij & Hj & E).
  { intros i Hi. destruct i as [|i]; [exact Hn|]. rewrite itr_S_out. apply (blocked_edge (itr i nxt t)). apply Hall. lia. }
  cbv beta in E.
  destruct (building s) as [|b rb] eqn:Eb; [|apply (worker_can b); rewrite Eb; cbn; tauto].
  destruct (cycreported s) eqn:Ecr; [pose proof (c_cyc g s HC Ecr); congruence|].
  set (x0 := itr i nxt t) in *.
  assert (Hk : exists k, j - i = S k) by (exists (j - i - 1); lia). destruct Hk as [k Hk].
  assert (Hback : itr (S k) nxt x0 = x0).
  { unfold x0. rewrite <- itr_add. replace (i + S k) with j by lia. symmetry. exact E. }
  pose proof (orbit_path g s nxt k x0) as Hpath. rewrite Hback in Hpath.
  can_by Hx (LTimerCycleCheck (orbit nxt (S k) x0)). rewrite Eb, Ecr. cbn [is_nil negb andb].
  unfold is_cycle. change (orbit nxt (S k) x0) with (x0 :: orbit nxt k (nxt x0)).
  change (x0 :: orbit nxt k (nxt x0)) with (orbit nxt (S k) x0). apply Hpath.
  intros m Hm. apply blocked_edge. unfold x0. rewrite <- itr_add. apply Hall. lia.
Qed.

Lemma sumn_pos_ex : forall n f, 1 <= sumn n f -> exists t, t < n /\ 1 <= f t.
Proof.
  induction n as [|n IH]; intros f H; cbn in H; [lia|].
  destruct (f n) eqn:E; [destruct (IH f ltac:(lia)) as [t [Ht Hf]]; exists t; split; [lia | exact Hf] | exists n; split; [lia | lia]].
Qed.

Theorem progress : can g s.
Proof.
  destruct (closed s) eqn:Hc; [apply closed_can; exact Hc|].
  destruct (c_count g s HC Hc) as [Hcnt Hpos]. unfold count in Hcnt.
  destruct (initdone s) eqn:Eid.
  2:{ destruct (initq s) as [|a r] eqn:Eq; [can_by Hx LInitDone | can_by Hx LInitRequest]; rewrite Eq, ?Eid; reflexivity. }
  destruct (ptasks s) as [|a r] eqn:E1; [|apply (ptask_can a); [rewrite E1; left; reflexivity | exact Hc]].
  destruct (parsers s) as [|a r] eqn:E2; [|apply (parser_can a); rewrite E2; left; reflexivity].
  destruct (semi s) as [|a r] eqn:E3; [|apply (worker_can a); rewrite E3; cbn; tauto].
  destruct (sendq s) as [|a r] eqn:E4; [|apply (worker_can a); rewrite E4; cbn; tauto].
  destruct (actq s) as [|a r] eqn:E5; [|apply (worker_can a); rewrite E5; cbn; tauto].
  destruct (taken s) as [|a r] eqn:E6; [|apply (worker_can a); rewrite E6; cbn; tauto].
  destruct (building s) as [|a r] eqn:E7; [|apply (worker_can a); rewrite E7; cbn; tauto].
  destruct (finishing s) as [|a r] eqn:E8; [|apply (worker_can a); rewrite E8; cbn; tauto].
  destruct (completing s) as [|a r] eqn:E9; [|apply (worker_can a); rewrite E9; cbn; tauto].
  cbn in Hcnt.
  destruct (sumn_pos_ex (g_n g) (fun t => a_cnt (asy s t)) ltac:(lia)) as [t [Ht Ha]].
  assert (Ha1 : a_cnt (asy s t) = 1) by (destruct (asy s t); cbn in *; lia).
  destruct (live_can_or_blocked t Hc Ht Ha1) as [H|H]; [exact H | apply (blocked_can t Hc H Ht)].
Qed.
End Live.

(* in every reachable state that has not ended some step is enabled *)
Theorem deadlock_free : forall g, wf g -> forall s, reachable g s -> exited s = false -> exists l, enabled g s l = true.
Proof. intros g Hwf s Hr Hx. exact (progress g s Hwf (Inv05_reachable g s Hwf Hr) Hx). Qed.
