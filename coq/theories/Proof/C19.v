(* C19 - proofs about the lexer/parser model (Model/C19.v). *)
From Coq Require Import String Lia.
From PlzV Require Import Base.Harness Model.C19.
From PlzV Require Gen.C19Tables.
Local Open Scope nat_scope.

(* ---- the regenerated tables are the ones the model was transcribed from ------------------------ *)
Lemma token_types_ok :
  Gen.C19Tables.token_types = ["EOF"; "Ident"; "Int"; "String"; "LexOperator"; "EOL"; "Unindent"]%string
  /\ (TEOF, TIdent, TInt, TString, TLexOperator, TEOL, TUnindent) = (-1, -2, -3, -4, -5, -6, -7)%Z.
Proof. split; reflexivity. Qed.

(* the `switch next` of lex.nextToken, clause by clause, is the chain of tests of next_token *)
Lemma next_token_cases_ok :
  Gen.C19Tables.next_token_cases =
  [[0]; [13]; [10]; [48]; [49; 50; 51; 52; 53; 54; 55; 56; 57]; [34; 39]; [40; 91; 123]; [41; 93; 125];
   [61; 33; 43; 60; 62]; [44; 46; 37; 42; 124; 38; 58]; [47]; [35]; [45]; [9]; []]%N.
Proof. reflexivity. Qed.

Lemma consume_ident_cases_ok :
  Gen.C19Tables.consume_ident_cases = [[32%N]; Gen.C19Tables.ident_chars; []]
  /\ forall c, ident_char c = true <-> (is_lower c || is_upper c || is_digit c || (c =? 95)%N) = true.
Proof.
  split; [reflexivity|].
  intro c. unfold ident_char, is_lower, is_upper, is_digit.
  destruct (N.le_gt_cases c 122) as [Hc|Hc].
  - assert (Hn : exists k, k <= 122 /\ c = N.of_nat k) by (exists (N.to_nat c); split; lia).
    destruct Hn as (k & Hk & ->).
    do 123 (destruct k as [|k]; [vm_compute; split; congruence|]). lia.
  - assert (H1 : existsb (N.eqb c) Gen.C19Tables.ident_chars = false).
    { apply not_true_is_false. intro H. apply existsb_exists in H. destruct H as (x & Hin & Hx).
      apply N.eqb_eq in Hx. subst x.
      assert (Hall : forallb (fun x => (x <=? 122)%N) Gen.C19Tables.ident_chars = true) by reflexivity.
      rewrite forallb_forall in Hall. apply Hall in Hin. apply N.leb_le in Hin. lia. }
    rewrite H1. split; [discriminate|]. intro H.
    repeat (apply orb_true_iff in H; destruct H as [H|H]);
      try (apply andb_true_iff in H; destruct H as [_ H]; apply N.leb_le in H; lia).
    apply N.eqb_eq in H. lia.
Qed.

(* ---- lists ------------------------------------------------------------------------------------ *)
Lemma nth_error_skipn' {A} (l : list A) a i : nth_error (skipn a l) i = nth_error l (a + i).
Proof. revert l; induction a; intros [|x l]; cbn; auto. destruct i; reflexivity. Qed.

Lemma skipn_head {A} (l : list A) k c : nth_error l k = Some c -> exists r, skipn k l = c :: r.
Proof.
  revert l; induction k; intros [|x l] H; cbn in *; try discriminate.
  - injection H as ->. eauto.
  - auto.
Qed.

Lemma scan_some p l i c :
  nth_error l i = Some c -> p c = false -> exists k, scan p l = Some k /\ k <= i.
Proof.
  revert i; induction l as [|x l IH]; intros [|i] H Hp; cbn in *; try discriminate.
  - injection H as ->. rewrite Hp. exists 0; auto.
  - destruct (p x); [|exists 0; split; [reflexivity|lia]].
    destruct (IH _ H Hp) as (k & -> & Hk). exists (S k); split; [reflexivity|lia].
Qed.

Lemma scan_stop p l k : scan p l = Some k -> exists c, nth_error l k = Some c /\ p c = false.
Proof.
  revert k; induction l as [|x l IH]; intros k H; cbn in *; try discriminate.
  destruct (p x) eqn:Hp.
  - destruct (scan p l) as [k'|]; cbn in H; try discriminate. injection H as <-. cbn. auto.
  - injection H as <-. cbn. eauto.
Qed.

(* ---- the buffer: any bytes followed by the two NUL sentinels ------------------------------------ *)
Section Buffer.
  Variable isld : N -> bool.
  Variable b : str.
  Let B : str := b ++ [0%N; 0%N].
  Let n : nat := length b.

  Lemma B_len : length B = n + 2.
  Proof. unfold B, n. rewrite app_length. reflexivity. Qed.

  Lemma B_n : nth_error B n = Some 0%N.
  Proof. unfold B, n. rewrite nth_error_app2 by lia. rewrite Nat.sub_diag. reflexivity. Qed.

  Lemma B_Sn : nth_error B (S n) = Some 0%N.
  Proof. unfold B, n. rewrite nth_error_app2 by lia. replace (S (length b) - length b) with 1 by lia. reflexivity. Qed.

  Lemma B_some i : i <= S n -> exists c, byte_at B i = Some c.
  Proof.
    intro H. unfold byte_at. destruct (nth_error B i) eqn:E; eauto.
    apply nth_error_None in E. rewrite B_len in E. lia.
  Qed.

  Lemma B_nz i c : byte_at B i = Some c -> c <> 0%N -> i < n.
  Proof.
    unfold byte_at. intros H Hc. destruct (Nat.lt_ge_cases i n) as [|Hge]; auto. exfalso.
    assert (Hi : i < n + 2) by (rewrite <- B_len; apply nth_error_Some; congruence).
    assert (Hcase : i = n \/ i = S n) by lia.
    destruct Hcase as [-> | ->]; [rewrite B_n in H | rewrite B_Sn in H]; congruence.
  Qed.

  Lemma B_skipn p : p <= n -> skipn p B = skipn p b ++ [0%N; 0%N].
  Proof. intro H. unfold B. rewrite skipn_app. replace (p - length b) with 0 by (unfold n in H; lia). reflexivity. Qed.

  Lemma B_scan p pos :
    p 0%N = false -> pos <= S n ->
    exists k, scan p (skipn pos B) = Some k /\ pos + k <= S n /\ (pos <= n -> pos + k <= n).
  Proof.
    intros Hp Hpos. destruct (Nat.le_gt_cases pos n) as [Hle|Hgt].
    - destruct (scan_some p (skipn pos B) (n - pos) 0%N) as (k & Hk & Hki); auto.
      { rewrite nth_error_skipn'. replace (pos + (n - pos)) with n by lia. apply B_n. }
      exists k. repeat split; auto; lia.
    - assert (pos = S n) by lia. subst pos.
      destruct (scan_some p (skipn (S n) B) 0 0%N) as (k & Hk & Hki); auto.
      { rewrite nth_error_skipn'. rewrite Nat.add_0_r. apply B_Sn. }
      exists k. repeat split; auto; lia.
  Qed.

  (* ---- consumeString ------------------------------------------------------------------------- *)
  Lemma str_go_spec x : forall q multi raw esc acc m, q <> 0%N ->
    match str_go q multi raw esc (x ++ [0%N; 0%N]) acc m with
    | SInternal => False
    | SDone _ m' => m' <= m + length x
    | SErr => True
    end.
  Proof.
    induction x as [|c x IH]; intros q multi raw esc acc m Hq;
      assert (Hq0 : (0 =? q)%N = false) by (apply N.eqb_neq; congruence).
    - cbn [app str_go]. destruct esc.
      + cbn [str_go]. rewrite Hq0. cbn. auto.
      + rewrite Hq0. cbn. auto.
    - cbn [app str_go]. cbv zeta.
      repeat match goal with
      | |- context[if ?cond then _ else _] => destruct cond; cbn [negb length app] in *; auto; try lia
      | |- context[match ?l with [] => _ | _ :: _ => _ end] =>
          is_var l; destruct l; cbn [app] in *; rewrite ?Hq0
      | |- context[match ?l ++ _ with [] => _ | _ :: _ => _ end] =>
          is_var l; destruct l; cbn [app] in *; rewrite ?Hq0
      | |- context[str_go ?a ?b ?c ?d ?e ?f ?g] =>
          let H := fresh "H" in
          pose proof (IH a b c d f g Hq) as H; cbn [app] in H;
          destruct (str_go a b c d e f g); cbn [length] in *; auto; try lia
      end.
  Qed.

  (* ---- consumeIdent -------------------------------------------------------------------------- *)
  Lemma in_range_0 lo hi : lo <> 0%N -> in_range lo hi 0 = false.
  Proof. intro H. unfold in_range. destruct (N.leb_spec lo 0); [lia|reflexivity]. Qed.

  Lemma decode_width x rn w :
    decode_rune (x ++ [0%N; 0%N]) = (rn, w) -> x <> [] -> 1 <= w <= length x.
  Proof.
    intros H Hx.
    destruct x as [|b0 [|b1 [|b2 [|b3 x]]]]; [congruence| | | |];
      cbn [app decode_rune] in H; cbv zeta in H;
      destruct (b0 =? 224)%N, (b0 =? 237)%N, (b0 =? 240)%N, (b0 =? 244)%N;
      rewrite ?in_range_0 in H by (intro; discriminate);
      rewrite ?Bool.andb_false_r in H; cbn [andb] in H;
      repeat match type of H with context[if ?c then _ else _] => destruct c end;
      injection H as <- <-; cbn [length]; lia.
  Qed.

  Lemma ident_go_spec g : forall x acc m, length x < g ->
    match ident_go isld g (x ++ [0%N; 0%N]) acc m with
    | IInternal => False
    | IDone _ m' => m <= m' <= m + length x
    | IErr => True
    end.
  Proof.
    induction g as [|g IH]; intros x acc m Hg; [lia|].
    destruct x as [|c x].
    - cbn. lia.
    - cbn [app ident_go].
      destruct (128 <=? c)%N.
      + destruct (decode_rune (c :: x ++ [0%N; 0%N])) as (rn, w) eqn:E.
        apply (decode_width (c :: x)) in E; [|congruence].
        destruct (isld rn); auto.
        change (c :: x ++ [0%N; 0%N]) with ((c :: x) ++ [0%N; 0%N]).
        rewrite skipn_app. replace (w - length (c :: x)) with 0 by lia. cbn [skipn].
        specialize (IH (skipn w (c :: x)) (rev (firstn w ((c :: x) ++ [0%N; 0%N])) ++ acc) (m + w)).
        rewrite skipn_length in IH.
        destruct (ident_go isld g _ _ (m + w)); auto; cbn [length] in *; lia.
      + destruct (c =? 32)%N; [cbn [length]; lia|].
        destruct (ident_char c); [|cbn [length]; lia].
        specialize (IH x (c :: acc) (S m)). cbn [length] in Hg.
        destruct (ident_go isld g (x ++ [0%N; 0%N]) (c :: acc) (S m)); auto; cbn [length]; lia.
  Qed.

  Lemma ident_first c x g acc m' :
    ident_start c = true -> length x < g ->
    ident_go isld (S g) ((c :: x) ++ [0%N; 0%N]) [] 0 = IDone acc m' -> 1 <= m'.
  Proof.
    intros Hs Hg. cbn [app ident_go].
    destruct (128 <=? c)%N eqn:E128.
    - destruct (decode_rune (c :: x ++ [0%N; 0%N])) as (rn, w) eqn:E.
      apply (decode_width (c :: x)) in E; [|congruence].
      destruct (isld rn); [|discriminate].
      change (c :: x ++ [0%N; 0%N]) with ((c :: x) ++ [0%N; 0%N]).
      rewrite skipn_app. replace (w - length (c :: x)) with 0 by lia. cbn [skipn].
      pose proof (ident_go_spec g (skipn w (c :: x)) (rev (firstn w ((c :: x) ++ [0%N; 0%N])) ++ []) (0 + w)) as H.
      rewrite skipn_length in H. cbn [length] in *.
      intro H1. rewrite H1 in H. lia.
    - destruct (c =? 32)%N eqn:E32.
      { apply N.eqb_eq in E32. subst c. discriminate. }
      destruct (ident_char c) eqn:Eic.
      + pose proof (ident_go_spec g x [c] 1 Hg) as H. intro H1. rewrite H1 in H. lia.
      + exfalso. unfold ident_start in Hs. rewrite E128, Bool.orb_false_r in Hs.
        assert (ident_char c = true); [|congruence].
        apply consume_ident_cases_ok.
        destruct (is_lower c), (is_upper c), (c =? 95)%N; cbn in *; try discriminate; auto using Bool.orb_true_r.
  Qed.

  (* ---- indentation stack ----------------------------------------------------------------------- *)
  Lemma pop_indents_spec ind l : forall un,
    exists l' un', pop_indents ind (l ++ [0]) un = Some (l' ++ [0], un') /\ un' + length l' = un + length l.
  Proof.
    induction l as [|top l IH]; intro un; cbn [app pop_indents].
    - exists [], un. split; [reflexivity|lia].
    - destruct (ind <? top).
      + destruct (IH (S un)) as (l' & un' & -> & H). exists l', un'. split; [reflexivity|cbn [length]; lia].
      + exists (top :: l), un. split; [reflexivity|lia].
  Qed.

  (* ---- one activation of nextToken --------------------------------------------------------------- *)
  (* the measure that bounds the number of tokens: every token consumes a byte or a pending unindent *)
  Definition M (st : lstate) : nat := 2 * (n + 2 - pos st) + unind st + length (indents st).

  (* pos never passes the second sentinel; the indentation stack always has the bottom 0; unindents
     are only pending while the position is inside the data *)
  Definition Inv (st : lstate) : Prop :=
    pos st <= S n /\ (exists l, indents st = l ++ [0]) /\ (pos st <= n \/ unind st = 0).

  Definition Post (st : lstate) (r : lres) : Prop :=
    match r with
    | LTok t st' =>
        pos st' <= n + 2 /\ (exists l, indents st' = l ++ [0]) /\
        (ttype t <> TEOF -> pos st' <= n) /\
        (ttype t = TEOF -> tval t = [] /\ unind st' = 0) /\
        (pos st <= n -> pos st' <= S n) /\ M st' < M st
    | LErr _ => True
    | LInternal | LDeep => False
    end.

  Definition StepPost (st : lstate) (a : action) : Prop :=
    match a with
    | ARet r => Post st r
    | ARec st' => Inv st' /\ pos st < pos st' /\ pos st' <= n /\ M st' < M st
    end.

  Ltac neof := cbn [ttype tok1]; unfold TEOF, TIdent, TInt, TString, TLexOperator, TEOL, TUnindent; lia.

  Ltac fin :=
    repeat split; try lia; eauto;
    try (let HH := fresh in intro HH; exfalso; revert HH; neof);
    try (exfalso; match goal with H : _ = TEOF |- _ => revert H; neof end);
    try (exfalso; match goal with H : ?a <> ?a |- _ => apply H; reflexivity end).

  Lemma Post_adv st t st' :
    Inv st -> pos st < pos st' -> pos st' <= n -> ttype t <> TEOF ->
    unind st' = unind st -> indents st' = indents st -> Post st (LTok t st').
  Proof.
    intros (H1 & (l & H2) & H3) Hlt Hle Ht Hu Hi. unfold Post, M. rewrite Hu, Hi.
    repeat split; try lia; eauto; intro; contradiction.
  Qed.

  Lemma consume_integer_ok st init p0 p :
    Inv st -> pos st < p -> p <= n -> Post st (consume_integer B init p0 p st).
  Proof.
    intros HI Hlt Hle. unfold consume_integer.
    destruct (B_scan is_digit p eq_refl) as (k & -> & _ & Hk); [lia|].
    apply Post_adv; auto; cbn [pos set_pos unind indents]; try lia. neof.
  Qed.

  Lemma consume_string_ok st q p0 p raw fstr :
    Inv st -> pos st < p -> p <= n -> q <> 0%N -> Post st (consume_string B q p0 p raw fstr st).
  Proof.
    intros HI Hlt Hle Hq. unfold consume_string.
    destruct (B_some p) as (c1 & Hc1); [lia|]. rewrite Hc1.
    assert (Hmulti : exists multi,
      (if (c1 =? q)%N then match byte_at B (S p) with None => None | Some c2 => Some (c2 =? q)%N end else Some false) = Some multi
      /\ (multi = true -> S (S p) <= n)).
    { destruct (c1 =? q)%N eqn:E1; [|exists false; split; [reflexivity|discriminate]].
      apply N.eqb_eq in E1. subst c1. pose proof (B_nz _ _ Hc1 Hq).
      destruct (B_some (S p)) as (c2 & Hc2); [lia|]. rewrite Hc2. exists (c2 =? q)%N. split; auto.
      intro E2. apply N.eqb_eq in E2. subst c2. pose proof (B_nz _ _ Hc2 Hq). lia. }
    destruct Hmulti as (multi & -> & Hm).
    set (p' := if multi then S (S p) else p).
    assert (Hp' : p <= p' /\ p' <= n) by (destruct multi; subst p'; [specialize (Hm eq_refl)|]; lia).
    rewrite (B_skipn p') by lia.
    pose proof (str_go_spec (skipn p' b) q multi raw false [] 0 Hq) as H.
    destruct (str_go q multi raw false (skipn p' b ++ [0%N; 0%N]) [] 0); auto.
    rewrite skipn_length in H. fold n in H.
    apply Post_adv; auto; cbn [pos set_pos unind indents]; try lia. neof.
  Qed.

  Lemma consume_ident_ok st p0 c :
    Inv st -> pos st <= p0 -> byte_at B p0 = Some c -> ident_start c = true ->
    Post st (consume_ident isld B p0 st).
  Proof.
    intros HI Hle Hc Hs. unfold consume_ident.
    assert (Hc0 : c <> 0%N) by (intros ->; discriminate).
    pose proof (B_nz _ _ Hc Hc0) as Hlt.
    rewrite (B_skipn p0) by lia.
    destruct (skipn_head b p0 c) as (x & Hx).
    { unfold byte_at, B in Hc. rewrite nth_error_app1 in Hc; auto. }
    assert (Hlen : length (skipn p0 b) = n - p0) by (rewrite skipn_length; reflexivity).
    rewrite Hx in *. cbn [length] in Hlen.
    rewrite app_length. cbn [length].
    pose proof (ident_go_spec (S (S (length x) + 2)) (c :: x) [] 0) as H. cbn [length] in H.
    destruct (ident_go isld (S (S (length x) + 2)) ((c :: x) ++ [0%N; 0%N]) [] 0) eqn:E.
    - specialize (H ltac:(lia)). apply ident_first in E; auto; [|lia].
      apply Post_adv; auto; cbn [pos set_pos unind indents]; try lia. neof.
    - exact I.
    - apply H. lia.
  Qed.

  Lemma token_step_ok st : Inv st -> StepPost st (token_step isld B st).
  Proof.
    intros HI. pose proof HI as (Hpos & (l & Hl) & Hun). unfold token_step.
    destruct (B_scan is_space (pos st) eq_refl Hpos) as (k0 & Hk0 & Hp0 & Hp0').
    rewrite Hk0. cbv beta zeta.
    remember (pos st + k0) as p0 eqn:Ep0.
    destruct (0 <? unind st) eqn:Eun.
    { apply Nat.ltb_lt in Eun. assert (pos st <= n) by lia.
      cbn [StepPost Post]. unfold M. cbn [pos indents unind ttype tval].
      fin. }
    apply Nat.ltb_ge in Eun.
    destruct (B_some p0) as (next & Hnext); [lia|]. rewrite Hnext.
    assert (Hpre : forall c, c <> 0%N -> exists r,
      (if (next =? c)%N then match byte_at B (S p0) with None => None | Some b1 => Some (is_quote b1) end else Some false) = Some r
      /\ (r = true -> exists b1, byte_at B (S p0) = Some b1 /\ is_quote b1 = true /\ S p0 <= n)).
    { intros c Hc. destruct (next =? c)%N eqn:E; [|exists false; split; [reflexivity|discriminate]].
      apply N.eqb_eq in E. subst c. pose proof (B_nz _ _ Hnext Hc).
      destruct (B_some (S p0)) as (b1 & Hb1); [lia|]. rewrite Hb1. exists (is_quote b1). split; [reflexivity|].
      intro. exists b1. repeat split; auto; lia. }
    destruct (Hpre 114%N) as (raw & -> & Hraw); [discriminate|].
    destruct (Hpre 102%N) as (fstr & -> & Hfstr); [discriminate|]. clear Hpre.
    destruct (negb (raw || fstr) && ident_start next) eqn:Eid.
    { apply andb_true_iff in Eid as (_ & Hs). cbn [StepPost].
      apply (consume_ident_ok st p0 next); auto; lia. }
    assert (Hp1 : exists p1 c, (if raw || fstr then S p0 else p0) = p1 /\ byte_at B p1 = Some c /\
                               p0 <= p1 /\ p1 <= S n /\ (pos st <= n -> p1 <= n)).
    { destruct (raw || fstr) eqn:Erf.
      - assert (Hq : exists b1, byte_at B (S p0) = Some b1 /\ is_quote b1 = true /\ S p0 <= n).
        { apply orb_true_iff in Erf as [E|E]; [apply Hraw|apply Hfstr]; exact E. }
        destruct Hq as (b1 & Hb1 & _ & Hle). exists (S p0), b1. repeat split; auto; lia.
      - exists p0, next. repeat split; auto; lia. }
    destruct Hp1 as (p1 & c & -> & Hc & Hp01 & Hp1n & Hp1n'). rewrite Hc. clear Eid Hraw Hfstr.
    destruct (c =? 0)%N eqn:Ec0.
    { cbn [StepPost Post]. unfold M. cbn [pos set_pos indents unind ttype tval].
      fin. }
    apply N.eqb_neq in Ec0. pose proof (B_nz _ _ Hc Ec0) as Hp1lt.
    destruct (B_some (S p1)) as (b2 & Hb2); [lia|]. rewrite ?Hb2.
    assert (Hb2' : b2 <> 0%N -> S (S p1) <= n) by (intro Hz; pose proof (B_nz _ _ Hb2 Hz); lia).
    (* the states reached by consuming up to some position inside the data *)
    assert (Hrec : forall p', pos st < p' -> p' <= n -> StepPost st (ARec (set_pos st p'))).
    { intros p' Hlt Hle. cbn [StepPost]. unfold Inv, M. cbn [pos set_pos indents unind].
      repeat split; try lia; eauto. }
    assert (Hadv : forall t p' br, pos st < p' -> p' <= n -> ttype t <> TEOF ->
               StepPost st (ARet (LTok t (mkL p' (indent st) br (unind st) (indents st) (lastEOL st))))).
    { intros. cbn [StepPost]. apply Post_adv; auto. }
    destruct (c =? 13)%N. { apply Hrec; lia. }
    destruct (c =? 10)%N.
    { destruct (B_scan is_space (S p1) eq_refl) as (k & Hk & _ & Hk2); [lia|]. rewrite Hk.
      assert (Hp3 : S p1 + k <= n) by lia.
      destruct (B_some (S p1 + k)) as (b3 & Hb3); [lia|]. rewrite Hb3.
      destruct (b3 =? 10)%N. { apply Hrec; lia. }
      set (ind := if (braces st =? 0) then k else indent st).
      assert (Hcont : forall tp stk un l', stk = l' ++ [0] -> un + length l' <= unind st + length l + 1 ->
        StepPost st (if (braces st =? 0) && negb (lastEOL st)
                     then ARet (LTok (mkTok TEOL [] tp) (mkL (S p1 + k) ind (braces st) un stk (lastEOL st)))
                     else ARec (mkL (S p1 + k) ind (braces st) un stk (lastEOL st)))).
      { intros tp stk un l' -> Hun'. rewrite Hl in *.
        destruct ((braces st =? 0) && negb (lastEOL st)); cbn [StepPost Post]; unfold Inv, M;
          cbn [pos indents unind ttype tval]; rewrite ?Hl, ?app_length; cbn [length];
          fin. }
      destruct ((ind <? indent st) && (braces st =? 0)).
      - rewrite Hl. destruct (pop_indents_spec ind l (unind st)) as (l' & un' & -> & Hpop).
        destruct l' as [|top l'']; cbn [app].
        + destruct (ind =? 0); [apply (Hcont _ _ _ []); [reflexivity|cbn [length] in *; lia]|exact I].
        + destruct (ind =? top); [apply (Hcont _ _ _ (top :: l'')); [reflexivity|cbn [length] in *; lia]|exact I].
      - destruct (negb (indent st =? ind)).
        + apply (Hcont _ _ _ (ind :: l)); [rewrite Hl; reflexivity|cbn [length]; lia].
        + apply (Hcont _ _ _ l); [auto|lia]. }
    destruct (c =? 48)%N.
    { destruct (b2 =? 111)%N eqn:Eo; cbn [StepPost]; apply consume_integer_ok; auto; try lia.
      apply N.eqb_eq in Eo. apply Hb2'. lia. }
    destruct (in_range 49 57 c). { cbn [StepPost]. apply consume_integer_ok; auto; lia. }
    destruct (is_quote c). { cbn [StepPost]. apply consume_string_ok; auto; lia. }
    destruct ((c =? 40)%N || (c =? 91)%N || (c =? 123)%N). { apply Hadv; try lia. neof. }
    destruct ((c =? 41)%N || (c =? 93)%N || (c =? 125)%N). { apply Hadv; try lia. neof. }
    assert (Hsingle : StepPost st (ARet (LTok (tok1 c p0) (set_pos st (S p1))))).
    { apply (Hadv _ _ (braces st)); try lia. neof. }
    assert (Hop : forall b', b' <> 0%N -> b2 = b' ->
              StepPost st (ARet (LTok (mkTok TLexOperator [c; b2] p0) (set_pos st (S (S p1)))))).
    { intros b' Hz ->. apply (Hadv _ _ (braces st)); try lia. neof. }
    destruct ((c =? 61)%N || (c =? 33)%N || (c =? 43)%N || (c =? 60)%N || (c =? 62)%N).
    { destruct (b2 =? 61)%N eqn:E; auto. apply N.eqb_eq in E. apply (Hop 61%N); auto. discriminate. }
    destruct ((c =? 44)%N || (c =? 46)%N || (c =? 37)%N || (c =? 42)%N || (c =? 124)%N || (c =? 38)%N || (c =? 58)%N); auto.
    destruct (c =? 47)%N.
    { destruct (b2 =? 47)%N eqn:E; auto. apply N.eqb_eq in E. apply (Hop 47%N); auto. discriminate. }
    destruct (c =? 35)%N.
    { destruct (B_scan not_eol_nul (S p1) eq_refl) as (k & Hk & _ & Hk2); [lia|]. rewrite Hk. apply Hrec; lia. }
    destruct (c =? 45)%N.
    { destruct (is_digit b2); auto. cbn [StepPost]. apply consume_integer_ok; auto; lia. }
    exact I.
  Qed.

  Lemma Post_rec st st' r :
    Post st' r -> pos st <= pos st' -> pos st' <= n -> M st' <= M st -> Post st r.
  Proof.
    destruct r; cbn [Post]; auto. intros (H1 & H2 & H3 & H4 & H5 & H6) Hp Hn HM.
    repeat split; auto; try lia; apply H4; auto.
  Qed.

  (* nextToken terminates within recursion depth n + 3 - pos and never indexes out of range *)
  Lemma next_token_ok f : forall st, Inv st -> n + 3 <= pos st + f -> Post st (next_token isld B f st).
  Proof.
    induction f as [|f IH]; intros st HI Hf.
    - destruct HI as (H & _). lia.
    - cbn [next_token]. pose proof (token_step_ok st HI) as H.
      destruct (token_step isld B st) as [r|st']; cbn [StepPost] in H; auto.
      destruct H as (HI' & Hlt & Hle & HM).
      apply (Post_rec st st'); try lia. apply IH; auto. lia.
  Qed.

  (* ---- Next, newLexer and the token loop ------------------------------------------------------- *)
  Definition Good (r : lres) (m : nat) : Prop :=
    match r with
    | LTok t st =>
        pos st <= n + 2 /\ (exists l, indents st = l ++ [0]) /\ (ttype t <> TEOF -> pos st <= n) /\
        (ttype t = TEOF -> tval t = [] /\ unind st = 0) /\ M st < m
    | LErr _ => True
    | LInternal | LDeep => False
    end.

  Lemma Good_mono r m m' : Good r m -> m <= m' -> Good r m'.
  Proof. destruct r; cbn; auto. intros (H1 & H2 & H3 & H4 & H5) Hm. repeat split; auto; try lia; apply H4; auto. Qed.

  Lemma lnext_ok f st : n + 3 <= f -> Inv st -> Post st (lnext isld B f st).
  Proof.
    intros Hf HI. unfold lnext. pose proof (next_token_ok f st HI ltac:(lia)) as H.
    destruct (next_token isld B f st); auto.
  Qed.

  Lemma Post_Good st r : Post st r -> Good r (M st).
  Proof. destruct r; cbn; auto. intros (H1 & H2 & H3 & H4 & H5 & H6). repeat split; auto; apply H4; auto. Qed.

  Lemma Good_M t st m : Good (LTok t st) m -> M st < m.
  Proof. cbn. intros (_ & _ & _ & _ & H). exact H. Qed.

  Lemma Good_Inv t st m : Good (LTok t st) m -> ttype t <> TEOF \/ pos st <= n -> Inv st.
  Proof.
    cbn. intros (H1 & H2 & H3 & H4 & H5) Hc. unfold Inv.
    destruct Hc as [Hc|Hc]; [specialize (H3 Hc)|]; repeat split; auto; lia.
  Qed.

  Lemma skip_eols_ok f : n + 3 <= f -> forall g r, Good r g -> Good (skip_eols isld B f (S g) r) g.
  Proof.
    intros Hf. induction g as [|g IH]; intros r HG; cbn [skip_eols].
    - destruct r as [t st| | |]; auto. apply Good_M in HG. lia.
    - destruct r as [t st| | |]; auto.
      destruct (ttype t =? TEOL)%Z eqn:E; auto.
      apply Z.eqb_eq in E.
      assert (HI : Inv st). { apply (Good_Inv t st (S g)); auto. left. rewrite E. discriminate. }
      apply (Good_mono _ g); [|lia]. apply IH.
      apply (Good_mono _ (M st)); [apply Post_Good, lnext_ok; auto|]. apply Good_M in HG. lia.
  Qed.

  Lemma lex_loop_ok f : n + 3 <= f -> forall g r acc, Good r g ->
    match lex_loop isld B f (S g) r acc with LexOk _ | LexErr _ _ => True | _ => False end.
  Proof.
    intros Hf. induction g as [|g IH]; intros r acc HG; cbn [lex_loop].
    - destruct r as [t st| | |]; auto. apply Good_M in HG. lia.
    - destruct r as [t st| | |]; auto.
      destruct ((ttype t =? TEOF)%Z && (pred (length B) <=? pos st)) eqn:E; auto.
      assert (HI : Inv st).
      { apply (Good_Inv t st (S g)); auto. apply andb_false_iff in E. destruct E as [E|E].
        - left. apply Z.eqb_neq in E. auto.
        - right. apply Nat.leb_gt in E. rewrite B_len in E. lia. }
      apply IH. apply (Good_mono _ (M st)); [apply Post_Good, lnext_ok; auto|]. apply Good_M in HG. lia.
  Qed.

  Lemma Inv_init : Inv init_l.
  Proof. unfold Inv, init_l. cbn. repeat split; try lia. exists []. reflexivity. Qed.

  Lemma new_lexer_ok f : n + 3 <= f -> Good (new_lexer isld B f) (3 * n + 9).
  Proof.
    intro Hf. unfold new_lexer, lex_gas. rewrite B_len.
    replace (3 * (n + 2) + 4) with (S (3 * n + 9)) by lia.
    assert (HM : M init_l <= 3 * n + 9) by (unfold M, init_l; cbn [pos unind indents length]; lia).
    apply skip_eols_ok; auto.
    apply (Good_mono _ (M init_l)); auto. apply Post_Good, lnext_ok; auto using Inv_init.
  Qed.

  Lemma lex_all_B_ok f : n + 3 <= f ->
    match lex_loop isld B f (lex_gas B) (new_lexer isld B f) [] with LexOk _ | LexErr _ _ => True | _ => False end.
  Proof.
    intro Hf. unfold lex_gas at 1. rewrite B_len.
    replace (3 * (n + 2) + 4) with (S (3 * n + 9)) by lia.
    apply lex_loop_ok; auto. apply new_lexer_ok; auto.
  Qed.
End Buffer.

(* ---- the lexer is total: every byte string, every letter predicate ------------------------------- *)
Lemma fix_newline_len b : length (fix_newline b) <= length b + 1.
Proof.
  unfold fix_newline. destruct b as [|c b]; [cbn; lia|].
  destruct (last (c :: b) 0 =? 10)%N; [lia|]. rewrite app_length. cbn [length]. lia.
Qed.

Definition lex_ok (r : lex_out) : Prop :=
  match r with LexOk _ | LexErr _ _ => True | LexInternal | LexDeep => False end.

Lemma lex_total isld bs f : lex_fuel bs <= f -> lex_ok (lex_all isld f bs).
Proof.
  intro Hf. unfold lex_all, buffer, lex_ok.
  pose proof (lex_all_B_ok isld (fix_newline bs) f) as H.
  pose proof (fix_newline_len bs). unfold lex_fuel in Hf.
  specialize (H ltac:(lia)).
  destruct (lex_loop isld (fix_newline bs ++ [0%N; 0%N]) f _ _ []); auto.
Qed.

(* ParseData's own lexer start-up (newLexer) never fails internally either *)
Lemma new_lexer_total isld bs f : lex_fuel bs <= f ->
  match new_lexer isld (buffer bs) f with LTok _ _ | LErr _ => True | LInternal | LDeep => False end.
Proof.
  intro Hf. unfold buffer.
  pose proof (new_lexer_ok isld (fix_newline bs) f) as H.
  pose proof (fix_newline_len bs). unfold lex_fuel in Hf.
  specialize (H ltac:(lia)).
  destruct (new_lexer isld (fix_newline bs ++ [0%N; 0%N]) f); cbn in H; auto.
Qed.

(* ---- the recursion of nextToken is as deep as the run of skipped bytes is long --------------------- *)
Lemma token_step_cr isld m rest st :
  pos st < m -> unind st = 0 ->
  token_step isld (repeat 13%N m ++ rest) st = ARec (set_pos st (S (pos st))).
Proof.
  intros Hk Hu.
  assert (Hnth : nth_error (repeat 13%N m ++ rest) (pos st) = Some 13%N).
  { rewrite nth_error_app1 by (rewrite repeat_length; lia). apply nth_error_repeat. lia. }
  destruct (skipn_head _ _ _ Hnth) as (r & Hr).
  unfold token_step. rewrite Hr. cbn [scan]. change (is_space 13) with false. cbv beta zeta iota.
  rewrite Nat.add_0_r, Hu. change (0 <? 0) with false. cbv iota.
  unfold byte_at. rewrite Hnth.
  change (13 =? 114)%N with false. change (13 =? 102)%N with false. cbv iota.
  change (negb (false || false) && ident_start 13) with false. cbv iota.
  change (false || false) with false. cbv iota. rewrite Hnth. reflexivity.
Qed.

Lemma next_token_deep isld m rest f : forall st,
  pos st + f <= m -> unind st = 0 -> next_token isld (repeat 13%N m ++ rest) f st = LDeep.
Proof.
  induction f as [|f IH]; intros st Hf Hu; [reflexivity|].
  cbn [next_token]. rewrite token_step_cr by (auto; lia).
  apply IH; cbn [pos set_pos unind]; auto; lia.
Qed.

Lemma parse_deep isld d : parse isld d (repeat 13%N (S d)) = PDeep.
Proof.
  unfold parse, buffer.
  assert (Hb : exists rest, fix_newline (repeat 13%N (S d)) ++ [0%N; 0%N] = repeat 13%N (S d) ++ rest).
  { unfold fix_newline. cbn [repeat]. destruct (last (13%N :: repeat 13%N d) 0 =? 10)%N; eauto.
    rewrite <- app_assoc. eauto. }
  destruct Hb as (rest & ->).
  unfold new_lexer, lnext. rewrite next_token_deep by (cbn; lia).
  unfold lex_gas. replace (3 * length (repeat 13%N (S d) ++ rest) + 4) with (S (3 * length (repeat 13%N (S d) ++ rest) + 3)) by lia.
  reflexivity.
Qed.

(* ---- the property ---------------------------------------------------------------------------------- *)
Definition outcome_ok (r : pres) : Prop :=
  match r with POk _ _ | PSyn _ => True | PInternal | PDeep => False end.

(* no stack depth is enough for every input *)
Lemma no_depth_suffices :
  ~ exists depth : nat, forall (isld : N -> bool) (bs : str), outcome_ok (parse isld depth bs).
Proof.
  intros (d & H). specialize (H (fun _ => false) (repeat 13%N (S d))).
  rewrite parse_deep in H. exact H.
Qed.

Lemma deep_for_every_depth : forall isld depth, exists bs, length bs = S depth /\ parse isld depth bs = PDeep.
Proof. intros isld d. exists (repeat 13%N (S d)). split; [apply repeat_length|apply parse_deep]. Qed.
