(* C19 - proofs about the lexer/parser model (Model/C19.v). *)
From Coq Require Import String Lia.
From PlzV Require Import Base.Harness Model.C19.
From PlzV Require Gen.C19Tables.
Local Open Scope nat_scope.

(* ---- the regenerated tables are the ones the model was transcribed from ------------------------ *)
Lemma token_types_ok :
  Gen.C19Tables.token_types = ["EOF"; "Ident"; "Int"; "String"; "LexOperator"; "EOL"; "Unindent"]%string
  /\ (TEOF, TIdent, TInt, TString, TLexOperator, TEOL, TUnindent) = (-1, -2, -3, -4, -5, -6, -7)%Z.
Proof. split; reflexivity. Qed.

(* the `switch next` of lex.nextToken, clause by clause, is the chain of tests of next_token *)
Lemma next_token_cases_ok :
  Gen.C19Tables.next_token_cases =
  [[0]; [13]; [10]; [48]; [49; 50; 51; 52; 53; 54; 55; 56; 57]; [34; 39]; [40; 91; 123]; [41; 93; 125];
   [61; 33; 43; 60; 62]; [44; 46; 37; 42; 124; 38; 58]; [47]; [35]; [45]; [9]; []]%N.
Proof. reflexivity. Qed.

Lemma consume_ident_cases_ok :
  Gen.C19Tables.consume_ident_cases = [[32%N]; Gen.C19Tables.ident_chars; []]
  /\ forall c, ident_char c = true <-> (is_lower c || is_upper c || is_digit c || (c =? 95)%N) = true.
Proof.
  split; [reflexivity|].
  intro c. unfold ident_char, is_lower, is_upper, is_digit.
  destruct (N.le_gt_cases c 122) as [Hc|Hc].
  - assert (Hn : exists k, k <= 122 /\ c = N.of_nat k) by (exists (N.to_nat c); split; lia).
    destruct Hn as (k & Hk & ->).
    do 123 (destruct k as [|k]; [vm_compute; split; congruence|]). lia.
  - assert (H1 : existsb (N.eqb c) Gen.C19Tables.ident_chars = false).
    { apply not_true_is_false. intro H. apply existsb_exists in H. destruct H as (x & Hin & Hx).
      apply N.eqb_eq in Hx. subst x.
      assert (Hall : forallb (fun x => (x <=? 122)%N) Gen.C19Tables.ident_chars = true) by reflexivity.
      rewrite forallb_forall in Hall. apply Hall in Hin. apply N.leb_le in Hin. lia. }
    rewrite H1. split; [discriminate|]. intro H.
    repeat (apply orb_true_iff in H; destruct H as [H|H]);
      try (apply andb_true_iff in H; destruct H as [_ H]; apply N.leb_le in H; lia).
    apply N.eqb_eq in H. lia.
Qed.

(* ---- lists ------------------------------------------------------------------------------------ *)
Lemma nth_error_skipn' {A} (l : list A) a i : nth_error (skipn a l) i = nth_error l (a + i).
Proof. revert l; induction a; intros [|x l]; cbn; auto. destruct i; reflexivity. Qed.

Lemma skipn_head {A} (l : list A) k c : nth_error l k = Some c -> exists r, skipn k l = c :: r.
Proof.
  revert l; induction k; intros [|x l] H; cbn in *; try discriminate.
  - injection H as ->. eauto.
  - auto.
Qed.

Lemma scan_some p l i c :
  nth_error l i = Some c -> p c = false -> exists k, scan p l = Some k /\ k <= i.
Proof.
  revert i; induction l as [|x l IH]; intros [|i] H Hp; cbn in *; try discriminate.
  - injection H as ->. rewrite Hp. exists 0; auto.
  - destruct (p x); [|exists 0; split; [reflexivity|lia]].
    destruct (IH _ H Hp) as (k & -> & Hk). exists (S k); split; [reflexivity|lia].
Qed.

Lemma scan_stop p l k : scan p l = Some k -> exists c, nth_error l k = Some c /\ p c = false.
Proof.
  revert k; induction l as [|x l IH]; intros k H; cbn in *; try discriminate.
  destruct (p x) eqn:Hp.
  - destruct (scan p l) as [k'|]; cbn in H; try discriminate. injection H as <-. cbn. auto.
  - injection H as <-. cbn. eauto.
Qed.

(* ---- the buffer: any bytes followed by the two NUL sentinels ------------------------------------ *)
Section Buffer.
  Variable isld : N -> bool.
  Variable b : str.
  Let B : str := b ++ [0%N; 0%N].
  Let n : nat := length b.

  Lemma B_len : length B = n + 2.
  Proof. unfold B, n. rewrite app_length. reflexivity. Qed.

  Lemma B_n : nth_error B n = Some 0%N.
  Proof. unfold B, n. rewrite nth_error_app2 by lia. rewrite Nat.sub_diag. reflexivity. Qed.

  Lemma B_Sn : nth_error B (S n) = Some 0%N.
  Proof. unfold B, n. rewrite nth_error_app2 by lia. replace (S (length b) - length b) with 1 by lia. reflexivity. Qed.

  Lemma B_some i : i <= S n -> exists c, byte_at B i = Some c.
  Proof.
    intro H. unfold byte_at. destruct (nth_error B i) eqn:E; eauto.
    apply nth_error_None in E. rewrite B_len in E. lia.
  Qed.

  Lemma B_nz i c : byte_at B i = Some c -> c <> 0%N -> i < n.
  Proof.
    unfold byte_at. intros H Hc. destruct (Nat.lt_ge_cases i n) as [|Hge]; auto. exfalso.
    assert (Hi : i < n + 2) by (rewrite <- B_len; apply nth_error_Some; congruence).
    assert (Hcase : i = n \/ i = S n) by lia.
    destruct Hcase as [-> | ->]; [rewrite B_n in H | rewrite B_Sn in H]; congruence.
  Qed.

  Lemma B_skipn p : p <= n -> skipn p B = skipn p b ++ [0%N; 0%N].
  Proof. intro H. unfold B. rewrite skipn_app. replace (p - length b) with 0 by (unfold n in H; lia). reflexivity. Qed.

  Lemma B_scan p pos :
    p 0%N = false -> pos <= S n ->
    exists k, scan p (skipn pos B) = Some k /\ pos + k <= S n /\ (pos <= n -> pos + k <= n).
  Proof.
    intros Hp Hpos. destruct (Nat.le_gt_cases pos n) as [Hle|Hgt].
    - destruct (scan_some p (skipn pos B) (n - pos) 0%N) as (k & Hk & Hki); auto.
      { rewrite nth_error_skipn'. replace (pos + (n - pos)) with n by lia. apply B_n. }
      exists k. repeat split; auto; lia.
    - assert (pos = S n) by lia. subst pos.
      destruct (scan_some p (skipn (S n) B) 0 0%N) as (k & Hk & Hki); auto.
      { rewrite nth_error_skipn'. rewrite Nat.add_0_r. apply B_Sn. }
      exists k. repeat split; auto; lia.
  Qed.

  (* ---- consumeString ------------------------------------------------------------------------- *)
  Lemma str_go_spec x : forall q multi raw esc acc m, q <> 0%N ->
    match str_go q multi raw esc (x ++ [0%N; 0%N]) acc m with
    | SInternal => False
    | SDone _ m' => m' <= m + length x
    | SErr => True
    end.
  Proof.
    induction x as [|c x IH]; intros q multi raw esc acc m Hq;
      assert (Hq0 : (0 =? q)%N = false) by (apply N.eqb_neq; congruence).
    - cbn [app str_go]. destruct esc.
      + cbn [str_go]. rewrite Hq0. cbn. auto.
      + rewrite Hq0. cbn. auto.
    - cbn [app str_go]. cbv zeta.
      repeat match goal with
      | |- context[if ?cond then _ else _] => destruct cond; cbn [negb length app] in *; auto; try lia
      | |- context[match ?l with [] => _ | _ :: _ => _ end] =>
          is_var l; destruct l; cbn [app] in *; rewrite ?Hq0
      | |- context[match ?l ++ _ with [] => _ | _ :: _ => _ end] =>
          is_var l; destruct l; cbn [app] in *; rewrite ?Hq0
      | |- context[str_go ?a ?b ?c ?d ?e ?f ?g] =>
          let H := fresh "H" in
          pose proof (IH a b c d f g Hq) as H; cbn [app] in H;
          destruct (str_go a b c d e f g); cbn [length] in *; auto; try lia
      end.
  Qed.
End Buffer.
