(* C28 - proofs about the dirBuilder model: canonical form of every Directory message, and
   independence of the built tree from the order of the entries in the builder's slices. *)
From PlzV Require Import Base.Harness Base.StrFacts Model.C28.
From Coq Require Import Lia Permutation Sorted.

(* ================================================================================================ *)
(* A. the order on names                                                                             *)

Definition sle (a b : str) : Prop := str_ltb b a = false.      (* a <= b *)
Definition slt (a b : str) : Prop := str_ltb a b = true.

Lemma slt_cmp a b : slt a b <-> str_cmp a b = Lt.
Proof. unfold slt, str_ltb. destruct (str_cmp a b); split; congruence. Qed.

Lemma sle_cmp a b : sle a b <-> str_cmp a b <> Gt.
Proof.
  unfold sle, str_ltb. rewrite (str_cmp_antisym a b).
  destruct (str_cmp a b); cbn; split; congruence.
Qed.

Lemma slt_irrefl a : ~ slt a a.
Proof. rewrite slt_cmp, str_cmp_refl. congruence. Qed.

Lemma slt_trans a b c : slt a b -> slt b c -> slt a c.
Proof. rewrite !slt_cmp. apply str_cmp_lt_trans. Qed.

Lemma slt_asym a b : slt a b -> slt b a -> False.
Proof. intros H1 H2. exact (slt_irrefl a (slt_trans _ _ _ H1 H2)). Qed.

Lemma sle_slt_or_eq a b : sle a b -> slt a b \/ a = b.
Proof.
  rewrite sle_cmp, slt_cmp. destruct (str_cmp a b) eqn:E; try tauto; try congruence.
  right. apply str_cmp_eq. exact E.
Qed.

Lemma slt_sle a b : slt a b -> sle a b.
Proof. rewrite slt_cmp, sle_cmp. congruence. Qed.

Lemma sle_refl a : sle a a.
Proof. rewrite sle_cmp, str_cmp_refl. congruence. Qed.

Lemma sle_trans a b c : sle a b -> sle b c -> sle a c.
Proof.
  intros H1 H2. destruct (sle_slt_or_eq _ _ H1) as [L1| ->]; [|exact H2].
  destruct (sle_slt_or_eq _ _ H2) as [L2| <-]; [|exact H1].
  apply slt_sle. exact (slt_trans _ _ _ L1 L2).
Qed.

Lemma sle_slt_trans a b c : sle a b -> slt b c -> slt a c.
Proof. intros H1 H2. destruct (sle_slt_or_eq _ _ H1) as [L1| ->]; [exact (slt_trans _ _ _ L1 H2)|exact H2]. Qed.

Lemma not_slt_sle a b : str_ltb a b = false -> sle b a.
Proof. intros H; exact H. Qed.

Lemma sle_total a b : sle a b \/ slt b a.
Proof. unfold sle, slt. destruct (str_ltb b a); auto. Qed.

(* ================================================================================================ *)
(* B. sorters and the duplicate-removal loop                                                          *)

Section Keyed.
  Context {A : Type} (key : A -> str).

  Definition le_sorted (l : list A) := StronglySorted (fun a b => sle (key a) (key b)) l.
  Definition lt_sorted (l : list A) := StronglySorted (fun a b => slt (key a) (key b)) l.
  (* "duplicates carry equal payloads": entries with one name are one entry *)
  Definition by_name (l : list A) := forall a b, In a l -> In b l -> key a = key b -> a = b.

  Definition dd (last : str) (l : list A) : list A := fst (dedup key last l).

  Lemma dd_cons last x r :
    dd last (x :: r) = if str_eqb (key x) last then dd last r else x :: dd (key x) r.
  Proof.
    unfold dd. cbn [dedup]. destruct (str_eqb (key x) last); [reflexivity|].
    destruct (dedup key (key x) r); reflexivity.
  Qed.

  Lemma dedup_snd_cons last x r :
    snd (dedup key last (x :: r)) = if str_eqb (key x) last then snd (dedup key last r) else snd (dedup key (key x) r).
  Proof.
    cbn [dedup]. destruct (str_eqb (key x) last); [reflexivity|].
    destruct (dedup key (key x) r); reflexivity.
  Qed.

  Lemma dd_subset l : forall last y, In y (dd last l) -> In y l.
  Proof.
    induction l as [|x r IH]; intros last y; [cbn; tauto|].
    rewrite dd_cons. destruct (str_eqb (key x) last).
    - intros Hin. right. exact (IH _ _ Hin).
    - intros [->|Hin]; [left; reflexivity|right; exact (IH _ _ Hin)].
  Qed.

  (* nothing is lost but repetitions of an entry already kept (or entries named like `last`) *)
  Lemma dd_complete l : by_name l -> forall last y, In y l -> key y <> last -> In y (dd last l).
  Proof.
    induction l as [|x r IH]; intros Hbn last y Hin Hne; [destruct Hin|].
    assert (Hbn' : by_name r) by (intros a b Ha Hb; apply Hbn; right; assumption).
    rewrite dd_cons. destruct (str_eqb_spec (key x) last) as [E|E].
    - destruct Hin as [->|Hin]; [congruence|]. apply IH; assumption.
    - destruct Hin as [->|Hin]; [left; reflexivity|].
      destruct (str_eqb_spec (key y) (key x)) as [E2|E2].
      + left. symmetry. apply Hbn; [right; exact Hin|left; reflexivity|exact E2].
      + right. apply IH; assumption.
  Qed.

  Lemma dd_above l : le_sorted l -> forall last, (forall y, In y l -> sle last (key y)) ->
    forall y, In y (dd last l) -> slt last (key y).
  Proof.
    induction 1 as [|x r Hs IH Hx]; intros last Hall y; [cbn; tauto|].
    rewrite dd_cons. destruct (str_eqb_spec (key x) last) as [E|E].
    - apply IH. intros z Hz. apply Hall. right; exact Hz.
    - assert (Hlt : slt last (key x)).
      { destruct (sle_slt_or_eq _ _ (Hall x (or_introl eq_refl))) as [L|L]; [exact L|congruence]. }
      intros [->|Hin]; [exact Hlt|].
      apply (slt_trans _ _ _ Hlt). apply (IH (key x)); [|exact Hin].
      intros z Hz. rewrite Forall_forall in Hx. exact (Hx z Hz).
  Qed.

  (* the loop leaves a strictly increasing list, whatever `last` was on entry *)
  Lemma dd_lt_sorted l : le_sorted l -> forall last, lt_sorted (dd last l).
  Proof.
    induction 1 as [|x r Hs IH Hx]; intros last; [constructor|].
    rewrite dd_cons. destruct (str_eqb (key x) last); [apply IH|].
    constructor; [apply IH|]. apply Forall_forall. intros y Hy.
    apply (dd_above r Hs (key x)); [|exact Hy].
    intros z Hz. rewrite Forall_forall in Hx. exact (Hx z Hz).
  Qed.

  Lemma lt_sorted_ext a : forall b, lt_sorted a -> lt_sorted b -> (forall y, In y a <-> In y b) -> a = b.
  Proof.
    induction a as [|x a IH]; intros [|y b] Ha Hb Hiff.
    - reflexivity.
    - exfalso. apply (proj2 (Hiff y)). left; reflexivity.
    - exfalso. apply (proj1 (Hiff x)). left; reflexivity.
    - inversion Ha as [|? ? Ha' Hxa]; inversion Hb as [|? ? Hb' Hyb]; subst.
      rewrite Forall_forall in Hxa, Hyb.
      assert (Exy : x = y).
      { destruct (proj1 (Hiff x) (or_introl eq_refl)) as [E|Hin]; [congruence|].
        destruct (proj2 (Hiff y) (or_introl eq_refl)) as [E|Hin2]; [congruence|].
        exfalso. exact (slt_asym _ _ (Hyb _ Hin) (Hxa _ Hin2)). }
      subst y. f_equal. apply IH; try assumption.
      intros z; split; intros Hz.
      + destruct (proj1 (Hiff z) (or_intror Hz)) as [E|Hin]; [|exact Hin].
        subst z. exfalso. exact (slt_irrefl _ (Hxa _ Hz)).
      + destruct (proj2 (Hiff z) (or_intror Hz)) as [E|Hin]; [|exact Hin].
        subst z. exfalso. exact (slt_irrefl _ (Hyb _ Hz)).
  Qed.

  (* the same entries, whatever their order and multiplicity *)
  Definition same (l1 l2 : list A) : Prop := forall x, In x l1 <-> In x l2.

  Lemma perm_same l l' : Permutation l l' -> same l l'.
  Proof. intros Hp x; split; apply Permutation_in; [exact Hp|apply Permutation_sym; exact Hp]. Qed.
  Lemma same_sym l l' : same l l' -> same l' l.
  Proof. intros Hs x. symmetry. apply Hs. Qed.
  Lemma same_trans l1 l2 l3 : same l1 l2 -> same l2 l3 -> same l1 l3.
  Proof. intros H1 H2 x. rewrite (H1 x). apply H2. Qed.

  Lemma by_name_same l l' : same l l' -> by_name l -> by_name l'.
  Proof. intros Hp Hbn a b Ha Hb. apply Hbn; apply Hp; assumption. Qed.

  (* two sorted arrangements of one collection leave the same list *)
  Lemma dd_canon s1 s2 last :
    same s1 s2 -> by_name s1 -> le_sorted s1 -> le_sorted s2 ->
    (forall y, In y s1 -> key y <> last) -> dd last s1 = dd last s2.
  Proof.
    intros Hp Hbn H1 H2 Hne.
    apply lt_sorted_ext; try (apply dd_lt_sorted; assumption).
    intros y; split; intros Hy.
    - apply dd_complete; [exact (by_name_same _ _ Hp Hbn)| |].
      + apply Hp. exact (dd_subset _ _ _ Hy).
      + apply Hne. exact (dd_subset _ _ _ Hy).
    - assert (Hin : In y s1).
      { apply Hp. exact (dd_subset _ _ _ Hy). }
      apply dd_complete; [exact Hbn|exact Hin|apply Hne; exact Hin].
  Qed.

  (* the value of `last` on exit: the name of the last entry kept, or the value on entry *)
  Lemma dedup_snd l : forall last, snd (dedup key last l) = List.last (map key (dd last l)) last.
  Proof.
    induction l as [|x r IH]; intros last; [reflexivity|].
    rewrite dedup_snd_cons, dd_cons. destruct (str_eqb (key x) last); [apply IH|].
    rewrite IH. cbn [map]. destruct (map key (dd (key x) r)) as [|k ks] eqn:E; [reflexivity|].
    cbn [List.last]. clear. revert k. induction ks as [|k' ks IH]; intros k; [reflexivity|].
    cbn [List.last]. apply IH.
  Qed.

  Lemma last_in (l : list str) d : List.last l d = d \/ In (List.last l d) l.
  Proof.
    induction l as [|x r IH]; [left; reflexivity|].
    destruct r as [|y r']; [right; left; reflexivity|].
    change (List.last (x :: y :: r') d) with (List.last (y :: r') d).
    destruct IH as [E|Hin]; [left; exact E|right; right; exact Hin].
  Qed.

  Lemma dedup_snd_cases l last :
    snd (dedup key last l) = last \/ exists x, In x l /\ key x = snd (dedup key last l).
  Proof.
    rewrite dedup_snd. destruct (last_in (map key (dd last l)) last) as [E|Hin]; [left; exact E|right].
    apply in_map_iff in Hin. destruct Hin as (x & Hx & Hin). exists x. split; [|exact Hx].
    exact (dd_subset _ _ _ Hin).
  Qed.
End Keyed.

(* sort.Slice returns SOME sorted permutation of its argument (it is not stable) *)
Definition sorter_ok (srt : sorter) : Prop :=
  forall A (key : A -> str) l, Permutation l (srt A key l) /\ le_sorted key (srt A key l).

Lemma insert_perm {A} (key : A -> str) x l : Permutation (x :: l) (insert key x l).
Proof.
  induction l as [|y r IH]; cbn [insert]; [reflexivity|].
  destruct (str_ltb (key y) (key x)); [|reflexivity].
  rewrite perm_swap. constructor. exact IH.
Qed.

Lemma insert_sorted {A} (key : A -> str) x l : le_sorted key l -> le_sorted key (insert key x l).
Proof.
  induction 1 as [|y r Hs IH Hy]; cbn [insert].
  - constructor; constructor.
  - destruct (str_ltb (key y) (key x)) eqn:E.
    + constructor; [exact IH|]. apply Forall_forall. intros z Hz.
      eapply Permutation_in in Hz; [|apply Permutation_sym, insert_perm].
      destruct Hz as [->|Hz]; [apply slt_sle; exact E|]. rewrite Forall_forall in Hy. exact (Hy z Hz).
    + constructor; [constructor; assumption|].
      constructor; [exact E|]. apply Forall_forall. intros z Hz. rewrite Forall_forall in Hy.
      exact (sle_trans _ _ _ E (Hy z Hz)).
Qed.

(* non-vacuity of sorter_ok: the insertion sort of the executable model is one *)
Lemma isort_ok : sorter_ok isort.
Proof.
  intros A key l. unfold isort. induction l as [|x r [IHp IHs]]; cbn [isort_go].
  - split; constructor.
  - split; [|apply insert_sorted; exact IHs].
    rewrite <- insert_perm. constructor. exact IHp.
Qed.

(* ================================================================================================ *)
(* C. every message walk produces is canonical                                                        *)

Definition canonical (m : dirmsg) : Prop :=
  lt_sorted fname (files m) /\ lt_sorted dname (dirs m) /\ lt_sorted sname (syms m).

Section WalkFacts.
  Variable H : dirmsg -> str.
  Variable srt : sorter.
  Hypothesis srt_ok : sorter_ok srt.

  Lemma finish_eq d :
    finish srt d =
      let fs := srt _ fname (files d) in
      let ds := srt _ dname (dirs d) in
      let ss := srt _ sname (syms d) in
      let l1 := snd (dedup fname [] fs) in
      let l2 := snd (dedup dname l1 ds) in
      DM (dd fname [] fs) (dd dname l1 ds) (dd sname l2 ss).
  Proof.
    unfold finish, dd. cbn zeta.
    destruct (dedup fname [] (srt fnode fname (files d))) as [a la]. cbn [fst snd].
    destruct (dedup dname la (srt dnode dname (dirs d))) as [b lb]. cbn [fst snd].
    destruct (dedup sname lb (srt snode sname (syms d))) as [c lc]. reflexivity.
  Qed.

  Lemma finish_canonical d : canonical (finish srt d).
  Proof.
    rewrite finish_eq. cbn zeta. repeat split; cbn [files dirs syms]; apply dd_lt_sorted; apply srt_ok.
  Qed.

  Lemma fill_canonical rec p l :
    (forall q em m, rec q = Some (em, m) -> Forall canonical em) ->
    forall em ds, fill H rec p l = Some (em, ds) -> Forall canonical em.
  Proof.
    intros Hrec. induction l as [|n r IH]; intros em ds; cbn [fill].
    - intros E; inversion E; constructor.
    - destruct (ddig n).
      + destruct (fill H rec p r) as [[em' r']|]; [|discriminate]. intros E; inversion E; subst. eapply IH; reflexivity.
      + destruct (rec (p ++ [dname n])) as [[em1 m]|] eqn:E1; [|discriminate].
        destruct (fill H rec p r) as [[em2 r']|]; [|discriminate]. intros E; inversion E; subst.
        apply Forall_app. split; [eapply Hrec; exact E1|eapply IH; reflexivity].
  Qed.

  Theorem walk_canonical fuel : forall st p em m,
    walk H srt fuel st p = Some (em, m) -> Forall canonical em /\ canonical m.
  Proof.
    induction fuel as [|f IH]; intros st p em m; cbn [walk]; [discriminate|].
    destruct (st p) as [d|]; [|discriminate].
    destruct (fill H (walk H srt f st) p (dirs d)) as [[em' ds]|] eqn:E; [|discriminate].
    intros E2; inversion E2; subst. split; [|apply finish_canonical].
    apply Forall_app. split.
    - eapply fill_canonical; [|exact E]. intros q em0 m0 Hq. exact (proj1 (IH _ _ _ _ Hq)).
    - constructor; [apply finish_canonical|constructor].
  Qed.

  (* ============================================================================================== *)
  (* D. walk does not depend on the order of the entries in the builder's slices                      *)

  Definition names {A} (key : A -> str) (l : list A) : list str := map key l.

  (* a directory whose slices a file system could hold *)
  Record good (d : dirmsg) : Prop := {
    g_files : by_name fname (files d);
    g_dirs : by_name dname (dirs d);
    g_syms : by_name sname (syms d);
    g_fne : forall x, In x (files d) -> fname x <> [];
    g_dne : forall x, In x (dirs d) -> dname x <> [];
    g_sne : forall x, In x (syms d) -> sname x <> [];
    g_fd : forall x y, In x (files d) -> In y (dirs d) -> fname x <> dname y;
    g_fs : forall x y, In x (files d) -> In y (syms d) -> fname x <> sname y;
    g_ds : forall x y, In x (dirs d) -> In y (syms d) -> dname x <> sname y }.

  Definition dir_equiv (d1 d2 : dirmsg) : Prop :=
    same (files d1) (files d2) /\ same (dirs d1) (dirs d2) /\ same (syms d1) (syms d2).

  Lemma finish_perm d1 d2 : dir_equiv d1 d2 -> good d1 -> finish srt d1 = finish srt d2.
  Proof.
    intros (Pf & Pd & Ps) G. rewrite !finish_eq. cbn zeta.
    destruct (srt_ok _ fname (files d1)) as [F1p F1s]. destruct (srt_ok _ fname (files d2)) as [F2p F2s].
    destruct (srt_ok _ dname (dirs d1)) as [D1p D1s]. destruct (srt_ok _ dname (dirs d2)) as [D2p D2s].
    destruct (srt_ok _ sname (syms d1)) as [S1p S1s]. destruct (srt_ok _ sname (syms d2)) as [S2p S2s].
    set (fs1 := srt fnode fname (files d1)) in *. set (fs2 := srt fnode fname (files d2)) in *.
    set (ds1 := srt dnode dname (dirs d1)) in *. set (ds2 := srt dnode dname (dirs d2)) in *.
    set (ss1 := srt snode sname (syms d1)) in *. set (ss2 := srt snode sname (syms d2)) in *.
    assert (Pfs : same fs1 fs2) by (exact (same_trans _ _ _ (same_sym _ _ (perm_same _ _ F1p)) (same_trans _ _ _ Pf (perm_same _ _ F2p)))).
    assert (Pds : same ds1 ds2) by (exact (same_trans _ _ _ (same_sym _ _ (perm_same _ _ D1p)) (same_trans _ _ _ Pd (perm_same _ _ D2p)))).
    assert (Pss : same ss1 ss2) by (exact (same_trans _ _ _ (same_sym _ _ (perm_same _ _ S1p)) (same_trans _ _ _ Ps (perm_same _ _ S2p)))).
    assert (inf : forall x, In x fs1 -> In x (files d1)) by (intros x Hx; eapply Permutation_in; [apply Permutation_sym; exact F1p|exact Hx]).
    assert (ind : forall x, In x ds1 -> In x (dirs d1)) by (intros x Hx; eapply Permutation_in; [apply Permutation_sym; exact D1p|exact Hx]).
    assert (ins : forall x, In x ss1 -> In x (syms d1)) by (intros x Hx; eapply Permutation_in; [apply Permutation_sym; exact S1p|exact Hx]).
    assert (Ef : dd fname [] fs1 = dd fname [] fs2).
    { apply dd_canon; try assumption; [exact (by_name_same _ _ _ (perm_same _ _ F1p) (g_files _ G))|].
      intros y Hy. apply (g_fne _ G). exact (inf _ Hy). }
    assert (El1 : snd (dedup fname [] fs1) = snd (dedup fname [] fs2)) by (rewrite !dedup_snd, Ef; reflexivity).
    assert (Ed : dd dname (snd (dedup fname [] fs1)) ds1 = dd dname (snd (dedup fname [] fs1)) ds2).
    { apply dd_canon; try assumption; [exact (by_name_same _ _ _ (perm_same _ _ D1p) (g_dirs _ G))|].
      intros y Hy E. destruct (dedup_snd_cases fname fs1 []) as [E0|(x & Hx & Ex)].
      - apply (g_dne _ G y (ind _ Hy)). congruence.
      - apply (g_fd _ G x y (inf _ Hx) (ind _ Hy)). congruence. }
    assert (El2 : snd (dedup dname (snd (dedup fname [] fs1)) ds1) = snd (dedup dname (snd (dedup fname [] fs1)) ds2))
      by (rewrite (dedup_snd dname ds1), (dedup_snd dname ds2), Ed; reflexivity).
    assert (Es : dd sname (snd (dedup dname (snd (dedup fname [] fs1)) ds1)) ss1
               = dd sname (snd (dedup dname (snd (dedup fname [] fs1)) ds1)) ss2).
    { apply dd_canon; try assumption; [exact (by_name_same _ _ _ (perm_same _ _ S1p) (g_syms _ G))|].
      intros y Hy E. destruct (dedup_snd_cases dname ds1 (snd (dedup fname [] fs1))) as [E0|(x & Hx & Ex)].
      - destruct (dedup_snd_cases fname fs1 []) as [E1|(x & Hx & Ex)].
        + apply (g_sne _ G y (ins _ Hy)). congruence.
        + apply (g_fs _ G x y (inf _ Hx) (ins _ Hy)). congruence.
      - apply (g_ds _ G x y (ind _ Hx) (ins _ Hy)). congruence. }
    rewrite <- El1. rewrite <- El2. f_equal; assumption.
  Qed.

  (* what the first loop of walk does to one DirectoryNode *)
  Definition gfun (rec : path -> option (list dirmsg * dirmsg)) (p : path) (n : dnode) : dnode :=
    match ddig n with
    | Some _ => n
    | None => match rec (p ++ [dname n]) with Some (_, m) => DN (dname n) (Some (H m)) | None => n end
    end.

  Lemma gfun_name rec p n : dname (gfun rec p n) = dname n.
  Proof. unfold gfun. destruct (ddig n); [reflexivity|]. destruct (rec _) as [[? ?]|]; reflexivity. Qed.

  Lemma fill_some rec p l : forall em ds, fill H rec p l = Some (em, ds) -> ds = map (gfun rec p) l.
  Proof.
    induction l as [|n r IH]; intros em ds; cbn [fill map].
    - intros E; inversion E; reflexivity.
    - unfold gfun at 1. destruct (ddig n).
      + destruct (fill H rec p r) as [[em' r']|]; [|discriminate]. intros E; inversion E; subst.
        f_equal. eapply IH; reflexivity.
      + destruct (rec (p ++ [dname n])) as [[em1 m]|]; [|discriminate].
        destruct (fill H rec p r) as [[em2 r']|]; [|discriminate]. intros E; inversion E; subst.
        f_equal. eapply IH; reflexivity.
  Qed.

  Lemma fill_none rec p l :
    fill H rec p l = None <-> exists n, In n l /\ ddig n = None /\ rec (p ++ [dname n]) = None.
  Proof.
    induction l as [|n r IH]; cbn [fill].
    - split; [discriminate|intros (n & [] & _)].
    - destruct (ddig n) eqn:En.
      + destruct (fill H rec p r) as [[em' r']|].
        * split; [discriminate|]. intros (n' & [->|Hin] & Hd & Hr); [congruence|].
          assert (X := proj2 IH (ex_intro _ n' (conj Hin (conj Hd Hr)))). discriminate.
        * split; [|reflexivity]. intros _. destruct (proj1 IH eq_refl) as (n' & Hin & Hd & Hr).
          exists n'. split; [right; exact Hin|auto].
      + destruct (rec (p ++ [dname n])) as [[em1 m]|] eqn:Er.
        * destruct (fill H rec p r) as [[em2 r']|].
          -- split; [discriminate|]. intros (n' & [->|Hin] & Hd & Hr); [congruence|].
             assert (X := proj2 IH (ex_intro _ n' (conj Hin (conj Hd Hr)))). discriminate.
          -- split; [|reflexivity]. intros _. destruct (proj1 IH eq_refl) as (n' & Hin & Hd & Hr).
             exists n'. split; [right; exact Hin|auto].
        * split; [|reflexivity]. intros _. exists n. split; [left; reflexivity|auto].
  Qed.

  Lemma good_fill d g : (forall n, dname (g n) = dname n) -> good d -> good (DM (files d) (map g (dirs d)) (syms d)).
  Proof.
    intros Hg G. constructor; cbn [files dirs syms]; try (apply G).
    - intros a b Ha Hb E. apply in_map_iff in Ha, Hb. destruct Ha as (n1 & <- & H1), Hb as (n2 & <- & H2).
      rewrite !Hg in E. rewrite (g_dirs _ G n1 n2 H1 H2 E). reflexivity.
    - intros x Hx. apply in_map_iff in Hx. destruct Hx as (n & <- & Hn). rewrite Hg. exact (g_dne _ G n Hn).
    - intros x y Hx Hy. apply in_map_iff in Hy. destruct Hy as (n & <- & Hn). rewrite Hg. exact (g_fd _ G x n Hx Hn).
    - intros x y Hx Hy. apply in_map_iff in Hx. destruct Hx as (n & <- & Hn). rewrite Hg. exact (g_ds _ G n y Hn Hy).
  Qed.

  Definition st_equiv (s1 s2 : state) : Prop :=
    forall q, match s1 q, s2 q with
              | Some d1, Some d2 => dir_equiv d1 d2
              | None, None => True
              | _, _ => False
              end.

  Definition st_good (st : state) : Prop := forall q d, st q = Some d -> good d.

  (* The message walk computes for a directory (hence its digest) is the same for any two builder
     states that hold the same entries in different slice orders. *)
  Theorem walk_equiv fuel : forall st1 st2, st_equiv st1 st2 -> st_good st1 ->
    forall p, option_map snd (walk H srt fuel st1 p) = option_map snd (walk H srt fuel st2 p).
  Proof.
    induction fuel as [|f IH]; intros st1 st2 Heq Hgood p; cbn [walk]; [reflexivity|].
    specialize (IH st1 st2 Heq Hgood).
    pose proof (Heq p) as Hp. destruct (st1 p) as [d1|] eqn:E1, (st2 p) as [d2|] eqn:E2; try contradiction; [|reflexivity].
    destruct Hp as (Pf & Pd & Ps).
    assert (Hg : forall n, gfun (walk H srt f st1) p n = gfun (walk H srt f st2) p n).
    { intros n. unfold gfun. destruct (ddig n); [reflexivity|]. specialize (IH (p ++ [dname n])).
      destruct (walk H srt f st1 (p ++ [dname n])) as [[e1 m1]|], (walk H srt f st2 (p ++ [dname n])) as [[e2 m2]|];
        cbn in IH; try discriminate; [|reflexivity]. inversion IH; reflexivity. }
    assert (Hnone : fill H (walk H srt f st1) p (dirs d1) = None <-> fill H (walk H srt f st2) p (dirs d2) = None).
    { rewrite !fill_none. split; intros (n & Hin & Hd & Hr); exists n; (split; [|split; [exact Hd|]]).
      - apply Pd; exact Hin.
      - specialize (IH (p ++ [dname n])). rewrite Hr in IH. destruct (walk H srt f st2 (p ++ [dname n])); [discriminate|reflexivity].
      - apply Pd; exact Hin.
      - specialize (IH (p ++ [dname n])). rewrite Hr in IH. destruct (walk H srt f st1 (p ++ [dname n])); [discriminate|reflexivity]. }
    destruct (fill H (walk H srt f st1) p (dirs d1)) as [[em1 ds1]|] eqn:F1.
    - destruct (fill H (walk H srt f st2) p (dirs d2)) as [[em2 ds2]|] eqn:F2.
      + cbn [option_map snd]. f_equal.
        apply fill_some in F1, F2. subst ds1 ds2.
        apply finish_perm.
        * split; [exact Pf|split; [|exact Ps]]. cbn [files dirs syms].
          rewrite (map_ext _ _ Hg). intros x. rewrite !in_map_iff.
          split; intros (n & En & Hn); exists n; (split; [exact En|apply Pd; exact Hn]).
        * apply good_fill; [apply gfun_name|]. exact (Hgood _ _ E1).
      + exfalso. assert (X : @None (list dirmsg * list dnode) = None) by reflexivity.
        apply (proj2 Hnone) in X. discriminate.
    - rewrite (proj1 Hnone eq_refl). reflexivity.
  Qed.
End WalkFacts.
