(* C24 - proofs about the model of `plz query changes` (Model/C24.v). *)
From PlzV Require Import Base.Harness Base.StrFacts Model.C24.
From Coq Require Import Lia ZifyBool.

(* ------------------------------------------------------------------------------------------ *)
(* membership helpers *)

Lemma mem_In l ls : mem l ls = true <-> In l ls.
Proof.
  unfold mem. rewrite existsb_exists. split.
  - intros [x [Hin Heq]]. apply N.eqb_eq in Heq. subst. exact Hin.
  - intros Hin. exists l. split; [exact Hin | apply N.eqb_refl].
Qed.

Lemma mem_false l ls : mem l ls = false <-> ~ In l ls.
Proof.
  split.
  - intros Hm Hin. apply mem_In in Hin. rewrite Hin in Hm. discriminate.
  - intros Hn. destruct (mem l ls) eqn:Hm; [|reflexivity]. exfalso. apply Hn, mem_In, Hm.
Qed.

Lemma add_In x l ls : In x (add l ls) <-> x = l \/ In x ls.
Proof.
  unfold add. destruct (mem l ls) eqn:Hm.
  - apply mem_In in Hm. split; [intros H; right; exact H | intros [H | H]; [subst; exact Hm | exact H]].
  - rewrite in_app_iff. cbn. split.
    + intros [H | [H | []]]; [right; exact H | left; symmetry; exact H].
    + intros [H | H]; [right; left; symmetry; exact H | left; exact H].
Qed.

Lemma find_some g l t : find g l = Some t -> In t (g_targets g) /\ t_id t = l.
Proof.
  unfold find. intros H. apply find_some in H. destruct H as [Hin Heq].
  apply N.eqb_eq in Heq. split; assumption.
Qed.

(* ------------------------------------------------------------------------------------------ *)
(* strings: TrimPrefix / HasPrefix *)

Lemma strip_prefix_app p x : strip_prefix p (p ++ x) = Some x.
Proof.
  induction p as [|c p IH]; cbn [strip_prefix app]; [reflexivity|].
  rewrite N.eqb_refl. exact IH.
Qed.

Lemma has_prefix_app p x : has_prefix p (p ++ x) = true.
Proof. unfold has_prefix. rewrite strip_prefix_app. reflexivity. Qed.

Lemma trim_prefix_app p x : trim_prefix p (p ++ x) = x.
Proof. unfold trim_prefix. rewrite strip_prefix_app. reflexivity. Qed.

Lemma trim_slash_rel f : hd_error f <> Some slash -> trim_prefix [slash] f = f.
Proof.
  intros Hrel. unfold trim_prefix. destruct f as [|c f]; cbn [strip_prefix]; [reflexivity|].
  destruct (N.eqb slash c) eqn:Hc; [|reflexivity].
  apply N.eqb_eq in Hc. subst c. exfalso. apply Hrel. reflexivity.
Qed.

(* the repository path of the entry [p] of a target of package [pkg] (path.Join(label.Package, label.File)) *)
Definition join_pkg (pkg p : str) : str :=
  match pkg with [] => p | _ => pkg ++ slash :: p end.

(* [f] is that file itself, or lies below it when it is a directory *)
Definition file_matches (pkg p f : str) : Prop :=
  f = join_pkg pkg p \/ exists rest, f = join_pkg pkg p ++ slash :: rest.

Lemma has_source_hit t p x :
  In p (t_inputs t) -> (x = p \/ exists rest, x = p ++ slash :: rest) -> has_source t x = true.
Proof.
  intros Hin Hx. unfold has_source. apply existsb_exists. exists p. split; [exact Hin|].
  destruct Hx as [Hx | [rest Hx]]; subst x.
  - rewrite str_eqb_refl. reflexivity.
  - replace (p ++ slash :: rest) with ((p ++ [slash]) ++ rest) by (rewrite <- app_assoc; reflexivity).
    rewrite has_prefix_app. apply orb_true_r.
Qed.

Lemma has_abs_source_complete t p f :
  In p (t_inputs t) -> file_matches (t_pkg t) p f -> hd_error f <> Some slash ->
  has_abs_source t f = true.
Proof.
  intros Hin Hm Hrel. unfold has_abs_source. unfold file_matches, join_pkg in Hm.
  destruct (t_pkg t) as [|c pk] eqn:Hpkg.
  - cbn [app]. rewrite (trim_slash_rel f Hrel). apply (has_source_hit t p f Hin). exact Hm.
  - apply (has_source_hit t p _ Hin). destruct Hm as [Hm | [rest Hm]]; subst f.
    + left. replace ((c :: pk) ++ slash :: p) with (((c :: pk) ++ [slash]) ++ p) by (rewrite <- app_assoc; reflexivity).
      apply trim_prefix_app.
    + right. exists rest.
      replace (((c :: pk) ++ slash :: p) ++ slash :: rest) with (((c :: pk) ++ [slash]) ++ (p ++ slash :: rest))
        by (rewrite <- !app_assoc; reflexivity).
      apply trim_prefix_app.
Qed.

(* ------------------------------------------------------------------------------------------ *)
(* changed_by_files *)

Section FoldAdd.
  Variable P : target -> bool.
  Let F := fun (ch : list label) (t : target) => if P t then add (t_id t) ch else ch.

  Lemma fold_add_mono ts ch l : In l ch -> In l (fold_left F ts ch).
  Proof.
    revert ch. induction ts as [|t ts IH]; intros ch Hin; cbn [fold_left]; [exact Hin|].
    apply IH. unfold F. destruct (P t); [apply add_In; right; exact Hin | exact Hin].
  Qed.

  Lemma fold_add_hit ts ch t : In t ts -> P t = true -> In (t_id t) (fold_left F ts ch).
  Proof.
    revert ch. induction ts as [|u ts IH]; intros ch Hin Hp; [destruct Hin|].
    cbn [fold_left]. destruct Hin as [Heq | Hin].
    - subst u. apply fold_add_mono. unfold F. rewrite Hp. apply add_In. left. reflexivity.
    - apply IH; assumption.
  Qed.

  Lemma fold_add_sound ts ch l :
    In l (fold_left F ts ch) -> In l ch \/ exists t, In t ts /\ P t = true /\ t_id t = l.
  Proof.
    revert ch. induction ts as [|u ts IH]; intros ch Hin; cbn [fold_left] in Hin; [left; exact Hin|].
    apply IH in Hin. destruct Hin as [Hin | [t [Ht [Hp Hid]]]].
    - unfold F in Hin. destruct (P u) eqn:Hpu.
      + apply add_In in Hin. destruct Hin as [Heq | Hin]; [|left; exact Hin].
        right. exists u. split; [left; reflexivity|]. split; [exact Hpu | symmetry; exact Heq].
      + left. exact Hin.
    - right. exists t. split; [right; exact Ht|]. split; assumption.
  Qed.
End FoldAdd.

Lemma file_step_mono g ch f l : In l ch -> In l (file_step g ch f).
Proof.
  intros Hin. unfold file_step. destruct (owner g f); [|exact Hin].
  apply (fold_add_mono (fun t => has_abs_source t f)). exact Hin.
Qed.

Lemma file_step_hit g ch f p t :
  owner g f = Some p -> In t (pkg_targets g p) -> has_abs_source t f = true -> In (t_id t) (file_step g ch f).
Proof.
  intros Ho Hin Hs. unfold file_step. rewrite Ho.
  apply (fold_add_hit (fun t => has_abs_source t f)); assumption.
Qed.

Lemma changed_by_files_mono g files ch l : In l ch -> In l (changed_by_files g files ch).
Proof.
  unfold changed_by_files. revert ch. induction files as [|f files IH]; intros ch Hin; cbn [fold_left]; [exact Hin|].
  apply IH. apply file_step_mono. exact Hin.
Qed.

Lemma changed_by_files_hit g files ch f p t :
  In f files -> owner g f = Some p -> In t (pkg_targets g p) -> has_abs_source t f = true ->
  In (t_id t) (changed_by_files g files ch).
Proof.
  unfold changed_by_files. revert ch. induction files as [|f' files IH]; intros ch Hin Ho Ht Hs; [destruct Hin|].
  cbn [fold_left]. destruct Hin as [Heq | Hin].
  - subst f'. apply (changed_by_files_mono g files). apply (file_step_hit g ch f p t); assumption.
  - apply IH; assumption.
Qed.

(* nothing is reported from the file list without a reason: the target's package is the owner the loop
   found and HasAbsoluteSource held *)
Lemma changed_by_files_sound g files ch l :
  In l (changed_by_files g files ch) ->
  In l ch \/ exists f p t, In f files /\ owner g f = Some p /\ In t (pkg_targets g p) /\
                           has_abs_source t f = true /\ t_id t = l.
Proof.
  unfold changed_by_files. revert ch. induction files as [|f files IH]; intros ch Hin; cbn [fold_left] in Hin; [left; exact Hin|].
  apply IH in Hin. destruct Hin as [Hin | [f' [p [t [Hf [Ho [Ht [Hs Hid]]]]]]]].
  - unfold file_step in Hin. destruct (owner g f) as [p|] eqn:Ho; [|left; exact Hin].
    apply (fold_add_sound (fun t => has_abs_source t f)) in Hin.
    destruct Hin as [Hin | [t [Ht [Hs Hid]]]]; [left; exact Hin|].
    right. exists f, p, t. repeat split; try assumption. left. reflexivity.
  - right. exists f', p, t. repeat split; try assumption. right. exact Hf.
Qed.

Lemma pkg_targets_In g p t :
  In t (pkg_targets g p) <-> In t (g_targets g) /\ t_sub t = false /\ t_pkg t = p.
Proof.
  unfold pkg_targets. rewrite filter_In. split.
  - intros [Hin Hb]. apply andb_true_iff in Hb. destruct Hb as [Hs Hp].
    apply negb_true_iff in Hs. apply str_eqb_eq in Hp. repeat split; assumption.
  - intros [Hin [Hs Hp]]. split; [exact Hin|]. rewrite Hs. subst p. rewrite str_eqb_refl. reflexivity.
Qed.

(* ------------------------------------------------------------------------------------------ *)
(* the reverse dependency map *)

(* the dependency edges that buildRevdeps records: a declared dependency resolved through
   require/provide, and (with includeSubrepos) subrepo target -> the target defining the subrepo *)
Definition code_dep (g : graph) (incsub : bool) (u : target) (l : label) : Prop :=
  (exists d t2, In d (t_deps u) /\ find g d = Some t2 /\ In l (provide_for t2 u))
  \/ (incsub = true /\ t_sub u = true /\ t_subtarget u = Some l).

Lemma edges_of_In g incsub u l : In l (edges_of g incsub u) <-> code_dep g incsub u l.
Proof.
  unfold edges_of, code_dep. rewrite in_app_iff, in_flat_map. split.
  - intros [[d [Hd Hl]] | Hs].
    + left. destruct (find g d) as [t2|] eqn:Hf; [|destruct Hl]. exists d, t2. repeat split; assumption.
    + right. destruct incsub; cbn [andb] in Hs; [|destruct Hs].
      destruct (t_sub u); [|destruct Hs]. destruct (t_subtarget u) as [l'|]; [|destruct Hs].
      destruct Hs as [Hs | []]. subst l'. repeat split; reflexivity.
  - intros [[d [t2 [Hd [Hf Hl]]]] | [Hi [Hs Ht]]].
    + left. exists d. split; [exact Hd|]. rewrite Hf. exact Hl.
    + right. rewrite Hi, Hs, Ht. left. reflexivity.
Qed.

Lemma revdeps_of_In g incsub l x :
  In x (revdeps_of g incsub l) <-> exists u, In u (g_targets g) /\ x = t_id u /\ code_dep g incsub u l.
Proof.
  unfold revdeps_of. rewrite in_flat_map. split.
  - intros [u [Hu Hx]]. apply in_map_iff in Hx. destruct Hx as [l' [Hx Hl']].
    apply filter_In in Hl'. destruct Hl' as [Hl' Heq]. apply N.eqb_eq in Heq. subst l'.
    exists u. split; [exact Hu|]. split; [symmetry; exact Hx|]. apply edges_of_In. exact Hl'.
  - intros [u [Hu [Hx Hc]]]. exists u. split; [exact Hu|]. apply in_map_iff. exists l.
    split; [symmetry; exact Hx|]. apply filter_In. split; [apply edges_of_In; exact Hc | apply N.eqb_refl].
Qed.

(* ------------------------------------------------------------------------------------------ *)
(* findRevdeps: extension order on states, invariant, closure *)

Definition qlabels (st : bfs_state) : list label := map fst (q st).

Definition ext (a b : bfs_state) : Prop :=
  (forall x, In x (done a) -> In x (done b))
  /\ (forall x, In x (ret a) -> In x (ret b))
  /\ (forall x, In x (qlabels a) -> In x (qlabels b))
  /\ (forall x, In x (done b) -> In x (done a) \/ In x (qlabels b)).

Lemma ext_refl a : ext a a.
Proof. repeat split; intros x H; try exact H. left. exact H. Qed.

Lemma ext_trans a b c : ext a b -> ext b c -> ext a c.
Proof.
  intros [A1 [A2 [A3 A4]]] [B1 [B2 [B3 B4]]]. repeat split; intros x H.
  - apply B1, A1, H.
  - apply B2, A2, H.
  - apply B3, A3, H.
  - destruct (B4 x H) as [H1 | H1]; [|right; exact H1].
    destruct (A4 x H1) as [H2 | H2]; [left; exact H2 | right; apply B3; exact H2].
Qed.

Lemma push_ext l d st : ext st (push l d st).
Proof.
  unfold push. destruct (mem l (done st)) eqn:Hm; [apply ext_refl|].
  unfold ext, qlabels. cbn [q done ret]. rewrite map_app. cbn [map fst].
  repeat split; intros x H.
  - right. exact H.
  - exact H.
  - apply in_app_iff. left. exact H.
  - destruct H as [H | H]; [right; apply in_app_iff; right; left; exact H | left; exact H].
Qed.

Lemma push_done l d st : In l (done (push l d st)).
Proof.
  unfold push. destruct (mem l (done st)) eqn:Hm; [apply mem_In; exact Hm | left; reflexivity].
Qed.

Lemma visit_ext maxd d st t : ext st (visit maxd d st t).
Proof.
  unfold visit. destruct ((d <? maxd)%Z || (maxd =? -1)%Z); [|apply ext_refl].
  apply ext_trans with (mkS (q st) (done st) (add t (ret st))); [|apply push_ext].
  unfold ext, qlabels. cbn [q done ret]. repeat split; intros x H; try exact H.
  - apply add_In. right. exact H.
  - left. exact H.
Qed.

Lemma fold_visit_ext maxd d ts st : ext st (fold_left (visit maxd d) ts st).
Proof.
  revert st. induction ts as [|t ts IH]; intros st; cbn [fold_left]; [apply ext_refl|].
  eapply ext_trans; [apply visit_ext | apply IH].
Qed.

Lemma visit_unlimited_covers d st t :
  In t (ret (visit (-1) d st t)) /\ In t (done (visit (-1) d st t)).
Proof.
  unfold visit. replace ((d <? -1)%Z || (-1 =? -1)%Z) with true by (rewrite orb_true_r; reflexivity).
  split.
  - apply (push_ext t (d + 1)%Z). cbn [ret]. apply add_In. left. reflexivity.
  - apply push_done.
Qed.

Lemma fold_visit_unlimited_covers d ts st t :
  In t ts ->
  In t (ret (fold_left (visit (-1) d) ts st)) /\ In t (done (fold_left (visit (-1) d) ts st)).
Proof.
  revert st. induction ts as [|u ts IH]; intros st Hin; [destruct Hin|].
  cbn [fold_left]. destruct Hin as [Heq | Hin]; [|apply IH; exact Hin].
  subst u. destruct (visit_unlimited_covers d st t) as [Hr Hd].
  destruct (fold_visit_ext (-1) d ts (visit (-1) d st t)) as [E1 [E2 _]].
  split; [apply E2; exact Hr | apply E1; exact Hd].
Qed.

Section Closure.
  Variable g : graph.
  Variable incsub : bool.
  Let R := revdeps_of g incsub.

  (* every label that was ever pushed is still queued or has been expanded completely *)
  Definition inv (st : bfs_state) : Prop :=
    forall l, In l (done st) ->
      In l (qlabels st) \/ (forall t, In t (R l) -> In t (ret st) /\ In t (done st)).

  Lemma inv_step l d rest dn rt :
    inv (mkS ((l, d) :: rest) dn rt) ->
    inv (fold_left (visit (-1) d) (R l) (mkS rest dn rt)).
  Proof.
    intros Hinv. set (st0 := mkS rest dn rt). set (st' := fold_left (visit (-1) d) (R l) st0).
    destruct (fold_visit_ext (-1) d (R l) st0) as [E1 [E2 [E3 E4]]]. fold st' in E1, E2, E3, E4.
    intros x Hx. destruct (E4 x Hx) as [Hold | Hq]; [|left; exact Hq].
    cbn [done st0] in Hold. destruct (Hinv x Hold) as [Hin | Hproc].
    - unfold qlabels in Hin. cbn [q map fst] in Hin. destruct Hin as [Heq | Hin].
      + subst x. right. intros t Ht. apply fold_visit_unlimited_covers. exact Ht.
      + left. apply E3. exact Hin.
    - right. intros t Ht. destruct (Hproc t Ht) as [Hr Hd]. split; [apply E2; exact Hr | apply E1; exact Hd].
  Qed.

  Lemma bfs_unlimited_closed fuel st r :
    inv st -> bfs fuel g incsub (-1) st = Some r ->
    exists dn, (forall x, In x (done st) -> In x dn)
               /\ (forall l, In l dn -> forall t, In t (R l) -> In t r /\ In t dn).
  Proof.
    revert st. induction fuel as [|k IH]; intros st Hinv Hb; [discriminate|].
    cbn [bfs] in Hb. destruct st as [qq dn rt]. cbn [q done ret] in Hb. destruct qq as [|[l d] rest].
    - inversion Hb; subst r. exists dn. split; [intros x H; exact H|].
      intros l Hl. destruct (Hinv l Hl) as [[] | Hproc]. exact Hproc.
    - destruct (IH _ (inv_step l d rest dn rt Hinv) Hb) as [dn' [Hsub Hcl]].
      exists dn'. split; [|exact Hcl].
      intros x Hx. apply Hsub. apply (fold_visit_ext (-1) d (R l) (mkS rest dn rt)). exact Hx.
  Qed.

  Lemma init_state_inv_gen labels st :
    (forall x, In x (done st) -> In x (qlabels st)) ->
    let st' := fold_left (fun st l => push l 0%Z st) labels st in
    (forall x, In x (done st') -> In x (qlabels st')) /\ (forall x, In x labels -> In x (done st'))
    /\ (forall x, In x (done st) -> In x (done st')).
  Proof.
    revert st. induction labels as [|l labels IH]; intros st Hst; cbn [fold_left].
    - split; [exact Hst|]. split; [intros x []|intros x H; exact H].
    - destruct (push_ext l 0%Z st) as [E1 [_ [E3 E4]]].
      assert (Hst' : forall x, In x (done (push l 0%Z st)) -> In x (qlabels (push l 0%Z st))).
      { intros x Hx. destruct (E4 x Hx) as [H | H]; [apply E3, Hst, H | exact H]. }
      destruct (IH _ Hst') as [I1 [I2 I3]]. split; [exact I1|]. split.
      + intros x [Heq | Hin]; [subst x; apply I3; apply push_done | apply I2; exact Hin].
      + intros x Hx. apply I3, E1, Hx.
  Qed.

  Lemma init_state_inv labels :
    inv (init_state labels) /\ (forall x, In x labels -> In x (done (init_state labels))).
  Proof.
    destruct (init_state_inv_gen labels (mkS [] [] [])) as [I1 [I2 _]]; [intros x []|].
    split; [|exact I2]. intros l Hl. left. apply I1. exact Hl.
  Qed.

  (* reachability over the recorded reverse edges *)
  Inductive reach (base : list label) : label -> Prop :=
  | reach_base l : In l base -> reach base l
  | reach_step l t : reach base l -> In t (R l) -> reach base t.

  Lemma find_revdeps_closed labels r :
    find_revdeps g incsub (-1) labels = Some r ->
    forall l t, reach labels l -> In t (R l) -> In t r.
  Proof.
    unfold find_revdeps. intros Hb.
    destruct (init_state_inv labels) as [Hinv Hinit].
    destruct (bfs_unlimited_closed _ _ _ Hinv Hb) as [dn [Hsub Hcl]].
    assert (Hreach : forall l, reach labels l -> In l dn).
    { intros l Hl. induction Hl as [l Hl | l t _ IH Ht]; [apply Hsub, Hinit, Hl | apply (Hcl l IH t Ht)]. }
    intros l t Hl Ht. apply (Hcl l (Hreach l Hl) t Ht).
  Qed.

  (* ---- the fuel is always enough ---- *)
  Definition undone (V : list label) (dn : list label) : list label := filter (fun x => negb (mem x dn)) V.
  Definition measure (V : list label) (st : bfs_state) : nat := length (q st) + length (undone V (done st)).

  Lemma mem_cons x l dn : mem x (l :: dn) = N.eqb x l || mem x dn.
  Proof. reflexivity. Qed.

  Lemma undone_cons_le V l dn : length (undone V (l :: dn)) <= length (undone V dn).
  Proof.
    induction V as [|v V IH]; unfold undone in *; cbn [filter]; [apply le_n|].
    rewrite mem_cons. destruct (N.eqb v l), (mem v dn); cbn [orb negb length]; lia.
  Qed.

  Lemma undone_push V l dn :
    In l V -> mem l dn = false -> S (length (undone V (l :: dn))) <= length (undone V dn).
  Proof.
    intros Hin Hm. induction V as [|v V IH]; [destruct Hin|].
    pose proof (undone_cons_le V l dn) as Hle.
    unfold undone in *. cbn [filter]. rewrite mem_cons. destruct (N.eqb v l) eqn:Hvl.
    - apply N.eqb_eq in Hvl. subst v. rewrite Hm. cbn [orb negb length]. lia.
    - destruct Hin as [Heq | Hin]; [subst v; rewrite N.eqb_refl in Hvl; discriminate|].
      specialize (IH Hin). cbn [orb]. destruct (mem v dn); cbn [negb length]; lia.
  Qed.

  Lemma push_measure V l d st : In l V -> measure V (push l d st) <= measure V st.
  Proof.
    intros Hin. unfold push, measure. destruct (mem l (done st)) eqn:Hm; [apply le_n|].
    cbn [q done]. rewrite app_length. cbn [length]. pose proof (undone_push V l (done st) Hin Hm). lia.
  Qed.

  Lemma visit_measure V maxd d st t : In t V -> measure V (visit maxd d st t) <= measure V st.
  Proof.
    intros Hin. unfold visit. destruct ((d <? maxd)%Z || (maxd =? -1)%Z); [|apply le_n].
    apply (push_measure V t (d + 1)%Z (mkS (q st) (done st) (add t (ret st))) Hin).
  Qed.

  Lemma fold_visit_measure V maxd d ts st :
    (forall t, In t ts -> In t V) -> measure V (fold_left (visit maxd d) ts st) <= measure V st.
  Proof.
    revert st. induction ts as [|t ts IH]; intros st Hts; cbn [fold_left]; [apply le_n|].
    eapply Nat.le_trans; [apply IH; intros x Hx; apply Hts; right; exact Hx|].
    apply visit_measure. apply Hts. left. reflexivity.
  Qed.

  Lemma bfs_total V maxd fuel st :
    (forall u, In u (g_targets g) -> In (t_id u) V) ->
    measure V st < fuel -> exists r, bfs fuel g incsub maxd st = Some r.
  Proof.
    intros HV. revert st. induction fuel as [|k IH]; intros st Hm; [lia|].
    cbn [bfs]. destruct st as [qq dn rt]. cbn [q done ret]. destruct qq as [|[l d] rest].
    - exists rt. reflexivity.
    - apply IH. eapply Nat.le_lt_trans.
      + apply (fold_visit_measure V maxd d). intros t Ht. apply revdeps_of_In in Ht.
        destruct Ht as [u [Hu [Heq _]]]. subst t. apply HV. exact Hu.
      + unfold measure in *. cbn [q done length] in *. lia.
  Qed.

  Lemma init_measure V labels st :
    (forall l, In l labels -> In l V) ->
    measure V (fold_left (fun st l => push l 0%Z st) labels st) <= measure V st.
  Proof.
    revert st. induction labels as [|l labels IH]; intros st Hl; cbn [fold_left]; [apply le_n|].
    eapply Nat.le_trans; [apply IH; intros x Hx; apply Hl; right; exact Hx|].
    apply push_measure. apply Hl. left. reflexivity.
  Qed.

  Lemma find_revdeps_total maxd labels : exists r, find_revdeps g incsub maxd labels = Some r.
  Proof.
    unfold find_revdeps. set (V := map t_id (g_targets g) ++ labels).
    apply (bfs_total V).
    - intros u Hu. apply in_app_iff. left. apply in_map. exact Hu.
    - eapply Nat.le_lt_trans; [apply (init_measure V); intros l Hl; apply in_app_iff; right; exact Hl|].
      unfold measure. cbn [q done length]. unfold undone.
      assert (Hle : length (filter (fun x => negb (mem x [])) V) <= length V).
      { clear. induction V as [|v V IH]; cbn [filter]; [apply le_n|].
        destruct (negb (mem v [])); cbn [length]; lia. }
      unfold V in *. rewrite app_length, map_length in Hle. cbn [plus]. lia.
  Qed.
End Closure.

(* ------------------------------------------------------------------------------------------ *)
(* changedTargets *)

Theorem changed_targets_spec g files ch0 level incsub :
  exists rep, changed_targets g files ch0 level incsub = Some rep
    /\ (forall l, In l (changed_by_files g files ch0) -> shown g incsub l = true -> In l rep)
    /\ (level = (-1)%Z ->
        forall l t, reach g incsub (changed_by_files g files ch0) l -> In t (revdeps_of g incsub l) ->
                    shown g incsub t = true -> In t rep).
Proof.
  unfold changed_targets. set (ch := changed_by_files g files ch0).
  destruct (level =? 0)%Z eqn:Hl0.
  - exists (filter (shown g incsub) ch). split; [reflexivity|]. split.
    + intros l Hl Hs. apply filter_In. split; assumption.
    + intros Hlev. subst level. discriminate.
  - destruct (find_revdeps_total g incsub level ch) as [r Hr]. rewrite Hr.
    exists (filter (shown g incsub) (ch ++ filter (fun l => negb (mem l ch)) r)).
    split; [reflexivity|]. split.
    + intros l Hl Hs. apply filter_In. split; [apply in_app_iff; left; exact Hl | exact Hs].
    + intros Hlev l t Hreach Ht Hs. subst level. apply filter_In. split; [|exact Hs].
      pose proof (find_revdeps_closed g incsub ch r Hr l t Hreach Ht) as Hin.
      apply in_app_iff. destruct (mem t ch) eqn:Hm; [left; apply mem_In; exact Hm|].
      right. apply filter_In. split; [exact Hin | rewrite Hm; reflexivity].
Qed.

(* everything reported is a shown graph target *)
Lemma changed_targets_shown g files ch0 level incsub rep l :
  changed_targets g files ch0 level incsub = Some rep -> In l rep -> shown g incsub l = true.
Proof.
  unfold changed_targets. intros H Hin.
  destruct (if (level =? 0)%Z then _ else _) as [ls|]; [|discriminate].
  cbn [option_map] in H. inversion H; subst rep. apply filter_In in Hin. apply Hin.
Qed.

(* ------------------------------------------------------------------------------------------ *)
(* diffGraphs *)

Definition def_changed (cfg_changed : bool) (before : graph) (a : target) : Prop :=
  find before (t_id a) = None
  \/ (exists b, find before (t_id a) = Some b /\ (t_defkey b <> t_defkey a \/ t_srckey b <> t_srckey a))
  \/ cfg_changed = true.

Lemma diff_graphs_complete cfg before after a :
  In a (g_targets after) -> def_changed cfg before a -> In (t_id a) (diff_graphs cfg before after).
Proof.
  intros Hin Hd. unfold diff_graphs. apply in_map. apply filter_In. split; [exact Hin|].
  unfold diff_one, target_changed. destruct Hd as [Hn | [[b [Hb Hk]] | Hc]].
  - rewrite Hn. reflexivity.
  - rewrite Hb. apply orb_true_iff. left. apply orb_true_iff.
    destruct Hk as [Hk | Hk]; [left | right]; apply negb_true_iff; apply N.eqb_neq; exact Hk.
  - destruct (find before (t_id a)); [|reflexivity]. rewrite Hc. apply orb_true_r.
Qed.

Lemma diff_graphs_sound cfg before after l :
  In l (diff_graphs cfg before after) ->
  exists a, In a (g_targets after) /\ t_id a = l /\ def_changed cfg before a.
Proof.
  unfold diff_graphs. intros Hin. apply in_map_iff in Hin. destruct Hin as [a [Hid Hin]].
  apply filter_In in Hin. destruct Hin as [Hin Hd]. exists a. split; [exact Hin|]. split; [exact Hid|].
  unfold diff_one, target_changed in Hd. unfold def_changed.
  destruct (find before (t_id a)) as [b|]; [|left; reflexivity].
  right. apply orb_true_iff in Hd. destruct Hd as [Hd | Hd]; [left | right; exact Hd].
  exists b. split; [reflexivity|]. apply orb_true_iff in Hd.
  destruct Hd as [Hd | Hd]; [left | right]; apply negb_true_iff in Hd; apply N.eqb_neq; exact Hd.
Qed.

(* ------------------------------------------------------------------------------------------ *)
(* closest-package ownership: the loop of changedTargets finds the deepest enclosing package *)

Fixpoint join (segs : list str) : str :=
  match segs with
  | [] => []
  | x :: rest => match rest with [] => x | _ => x ++ slash :: join rest end
  end.

(* a path segment: not empty, no separator, not "." *)
Definition wf_seg (x : str) : Prop := x <> [] /\ ~ In slash x /\ x <> s ".".

(* [rdirs]: the directory segments of the file, deepest first.  The candidates are tried from the file's own
   directory up to the repository root (package ""). *)
Fixpoint closest_aux (pkgs : list str) (rdirs : list str) : option str :=
  match rdirs with
  | [] => if existsb (str_eqb []) pkgs then Some [] else None
  | _ :: rest => if existsb (str_eqb (join (rev rdirs))) pkgs then Some (join (rev rdirs)) else closest_aux pkgs rest
  end.
Definition closest (pkgs : list str) (segs : list str) : option str := closest_aux pkgs (tl (rev segs)).

Lemma bls_none x : ~ In slash x -> before_last_slash x = None.
Proof.
  induction x as [|c x IH]; intros Hn; cbn [before_last_slash]; [reflexivity|].
  rewrite IH by (intros H; apply Hn; right; exact H).
  destruct (N.eqb c slash) eqn:Hc; [|reflexivity].
  apply N.eqb_eq in Hc. exfalso. apply Hn. left. exact Hc.
Qed.

Lemma bls_app a x : ~ In slash x -> before_last_slash (a ++ slash :: x) = Some a.
Proof.
  intros Hn. induction a as [|c a IH]; cbn [app before_last_slash].
  - rewrite (bls_none x Hn). rewrite N.eqb_refl. reflexivity.
  - rewrite IH. reflexivity.
Qed.

Lemma join_snoc init x : init <> [] -> join (init ++ [x]) = join init ++ slash :: x.
Proof.
  induction init as [|y init IH]; intros Hne; [exfalso; apply Hne; reflexivity|].
  destruct init as [|z r].
  - reflexivity.
  - change (join ((y :: z :: r) ++ [x])) with (y ++ slash :: join ((z :: r) ++ [x])).
    rewrite IH by discriminate.
    change (join (y :: z :: r)) with (y ++ slash :: join (z :: r)).
    rewrite <- app_assoc. reflexivity.
Qed.

Lemma join_last_nonslash init :
  init <> [] -> Forall wf_seg init -> exists y c, join init = y ++ [c] /\ c <> slash.
Proof.
  intros Hne Hwf. destruct (exists_last Hne) as [init' [z Hinit]]. subst init.
  apply Forall_app in Hwf. destruct Hwf as [_ Hz]. inversion Hz as [|? ? [Hz1 [Hz2 _]] _]; subst.
  destruct (exists_last Hz1) as [z' [c Hzc]]. subst z.
  assert (Hc : c <> slash).
  { intros Heq. apply Hz2. apply in_app_iff. right. left. exact Heq. }
  destruct init' as [|y r].
  - exists z', c. split; [reflexivity | exact Hc].
  - exists (join (y :: r) ++ slash :: z'), c. split; [|exact Hc].
    rewrite join_snoc by discriminate. rewrite <- app_assoc. reflexivity.
Qed.

Lemma strip_trailing_nonslash y c : c <> slash -> strip_trailing_slashes (y ++ [c]) = y ++ [c].
Proof.
  intros Hc. unfold strip_trailing_slashes. rewrite rev_app_distr. cbn [rev app strip_trailing_slashes_rev].
  apply N.eqb_neq in Hc. rewrite Hc. cbn [rev]. rewrite rev_involutive. reflexivity.
Qed.

Lemma path_dir_join init x :
  init <> [] -> Forall wf_seg init -> ~ In slash x -> path_dir (join (init ++ [x])) = join init.
Proof.
  intros Hne Hwf Hx. rewrite join_snoc by exact Hne. unfold path_dir. rewrite (bls_app _ x Hx).
  destruct (join_last_nonslash init Hne Hwf) as [y [c [Hj Hc]]]. rewrite Hj.
  rewrite (strip_trailing_nonslash y c Hc). destruct (y ++ [c]) eqn:He; [|reflexivity].
  exfalso. apply (app_cons_not_nil y [] c). symmetry. exact He.
Qed.

Lemma join_not_special segs :
  segs <> [] -> Forall wf_seg segs -> join segs <> s "." /\ join segs <> s "/".
Proof.
  intros Hne Hwf. destruct (exists_last Hne) as [init [x Hs]]. subst segs.
  pose proof Hwf as Hwf'. apply Forall_app in Hwf'. destruct Hwf' as [Hinit Hx].
  inversion Hx as [|? ? [Hx1 [Hx2 Hx3]] _]; subst.
  destruct init as [|y r].
  - cbn [app join]. split; [exact Hx3|]. intros Heq. apply Hx2. rewrite Heq. left. reflexivity.
  - rewrite join_snoc by discriminate.
    destruct (join_last_nonslash (y :: r)) as [a [c [Hj _]]]; [discriminate | exact Hinit|].
    rewrite Hj. split; intros Heq; apply (f_equal (@length N)) in Heq;
      rewrite !app_length in Heq; cbn [length s] in Heq; lia.
Qed.

Lemma owner_loop_dot k pkgs : owner_loop k pkgs (s ".") = None.
Proof. destruct k; reflexivity. Qed.

Lemma owner_loop_closest pkgs rd : forall x fuel,
  Forall wf_seg (x :: rd) -> length rd < fuel ->
  owner_loop fuel pkgs (join (rev (x :: rd))) = closest_aux pkgs rd.
Proof.
  induction rd as [|y rd IH]; intros x fuel Hwf Hfuel; (destruct fuel as [|k]; [lia|]).
  - cbn [rev app join]. inversion Hwf as [|? ? [Hx1 [Hx2 Hx3]] _]; subst.
    destruct (join_not_special [x]) as [Hd Hs]; [discriminate | exact Hwf|]. cbn [join] in Hd, Hs.
    cbn [owner_loop]. apply str_eqb_neq in Hd, Hs. rewrite Hd, Hs. cbn [orb].
    unfold path_dir. rewrite (bls_none x Hx2). rewrite str_eqb_refl.
    cbn [closest_aux]. destruct (existsb (str_eqb []) pkgs); [reflexivity | apply owner_loop_dot].
  - assert (Hrev : Forall wf_seg (rev (x :: y :: rd))) by (apply Forall_rev; exact Hwf).
    destruct (join_not_special (rev (x :: y :: rd))) as [Hd Hs]; [|exact Hrev|].
    { cbn [rev]. intros He. apply app_eq_nil in He. destruct He as [_ He]. discriminate. }
    cbn [owner_loop]. apply str_eqb_neq in Hd, Hs. rewrite Hd, Hs. cbn [orb].
    inversion Hwf as [|? ? [Hx1 [Hx2 Hx3]] Hwf']; subst.
    assert (Hrev' : Forall wf_seg (rev (y :: rd))) by (apply Forall_rev; exact Hwf').
    assert (Hne' : rev (y :: rd) <> []).
    { cbn [rev]. intros He. apply app_eq_nil in He. destruct He as [_ He]. discriminate. }
    change (rev (x :: y :: rd)) with (rev (y :: rd) ++ [x]).
    assert (Hpd : path_dir (join (rev (y :: rd) ++ [x])) = join (rev (y :: rd)))
      by (apply path_dir_join; assumption).
    rewrite Hpd.
    destruct (join_not_special (rev (y :: rd)) Hne' Hrev') as [Hd' _].
    apply str_eqb_neq in Hd'. rewrite Hd'.
    cbn [closest_aux]. destruct (existsb (str_eqb (join (rev (y :: rd)))) pkgs); [reflexivity|].
    apply IH; [exact Hwf' | cbn [length] in Hfuel; lia].
Qed.

Lemma join_length segs : Forall wf_seg segs -> length segs <= length (join segs).
Proof.
  induction segs as [|x rest IH]; intros Hwf; [apply le_n|].
  inversion Hwf as [|? ? [Hx1 _] Hrest]; subst. specialize (IH Hrest).
  destruct rest as [|y r].
  - cbn [join length]. destruct x; [exfalso; apply Hx1; reflexivity | cbn [length]; lia].
  - change (join (x :: y :: r)) with (x ++ slash :: join (y :: r)).
    rewrite app_length. cbn [length] in *. lia.
Qed.

(* the loop of changedTargets returns the closest enclosing package of a well-formed relative path *)
Theorem owner_closest g segs :
  segs <> [] -> Forall wf_seg segs -> owner g (join segs) = closest (g_pkgs g) segs.
Proof.
  intros Hne Hwf. unfold owner, closest.
  assert (Hr : rev segs <> []).
  { intros He. apply Hne. rewrite <- (rev_involutive segs), He. reflexivity. }
  destruct (rev segs) as [|x rd] eqn:Hrev; [exfalso; apply Hr; reflexivity|].
  assert (Hs : segs = rev (x :: rd)) by (rewrite <- Hrev, rev_involutive; reflexivity).
  cbn [tl]. rewrite Hs at 2. apply owner_loop_closest.
  - rewrite <- Hrev. apply Forall_rev. exact Hwf.
  - pose proof (join_length segs Hwf) as Hl. rewrite <- (rev_length segs), Hrev in Hl. cbn [length] in Hl. lia.
Qed.

Definition wf_segb (x : str) : bool := negb (str_eqb x []) && negb (mem slash x) && negb (str_eqb x (s ".")).

Lemma wf_segb_ok x : wf_segb x = true -> wf_seg x.
Proof.
  unfold wf_segb, wf_seg. intros H. apply andb_true_iff in H. destruct H as [H H3].
  apply andb_true_iff in H. destruct H as [H1 H2].
  apply negb_true_iff in H1, H2, H3. apply str_eqb_neq in H1, H3. apply mem_false in H2.
  repeat split; assumption.
Qed.

Lemma Forall_wf_segb segs : forallb wf_segb segs = true -> Forall wf_seg segs.
Proof.
  intros H. apply Forall_forall. intros x Hx. apply wf_segb_ok.
  rewrite forallb_forall in H. apply H. exact Hx.
Qed.

Lemma join_rel segs : segs <> [] -> Forall wf_seg segs -> hd_error (join segs) <> Some slash.
Proof.
  intros Hne Hwf. destruct segs as [|x rest]; [exfalso; apply Hne; reflexivity|].
  inversion Hwf as [|? ? [Hx1 [Hx2 _]] _]; subst.
  destruct x as [|c x']; [exfalso; apply Hx1; reflexivity|].
  assert (Hc : c <> slash) by (intros Heq; apply Hx2; left; exact Heq).
  destruct rest; cbn [join app hd_error]; intros Heq; inversion Heq; subst; apply Hc; reflexivity.
Qed.

(* ------------------------------------------------------------------------------------------ *)
(* the property, over the model *)

(* t consumes the repository file f: one of its sources / data entries is f or a directory above f *)
Definition consumes (t : target) (f : str) : Prop :=
  exists p, In p (t_inputs t) /\ file_matches (t_pkg t) p f.

(* f is a repository-relative path (given by its segments) and the package of the host target t is the
   closest enclosing package of f - plz refuses sources and data that belong to another package
   (BuildTarget.CheckTargetOwnsBuildInputs) *)
Definition owned (g : graph) (t : target) (f : str) : Prop :=
  t_sub t = false
  /\ exists segs, segs <> [] /\ Forall wf_seg segs /\ f = join segs /\ closest (g_pkgs g) segs = Some (t_pkg t).

Definition direct (g : graph) (files : list str) (t : target) : Prop :=
  In t (g_targets g) /\ exists f, In f files /\ consumes t f /\ owned g t f.

(* u depends on the target labelled l *)
Definition depends (subincludes : bool) (g : graph) (u : target) (l : label) : Prop :=
  (* a declared dependency, resolved through require/provide as the build resolves it *)
  (exists d t2, In d (t_deps u) /\ find g d = Some t2 /\ In l (provide_for t2 u))
  (* the targets of a subrepo depend on the target that defines the subrepo *)
  \/ (t_sub u = true /\ t_subtarget u = Some l)
  (* the targets of a package depend on what its BUILD file subincludes (only when no `before` graph tells
     whether their definition changed) *)
  \/ (subincludes = true /\ t_sub u = false /\ In (t_pkg u, l) (g_subincludes g)).

(* everything that transitively depends on a base target, over the edge relation E *)
Inductive affected (g : graph) (E : target -> label -> Prop) (base : label -> Prop) : label -> Prop :=
| aff_base l : base l -> affected g E base l
| aff_step u l : affected g E base l -> In u (g_targets g) -> E u l -> affected g E base (t_id u).

Lemma direct_changed g files ch0 t :
  direct g files t -> In (t_id t) (changed_by_files g files ch0).
Proof.
  intros [Hin [f [Hf [[p [Hp Hm]] [Hsub [segs [Hne [Hwf [Hj Hc]]]]]]]]].
  apply (changed_by_files_hit g files ch0 f (t_pkg t) t Hf).
  - subst f. rewrite (owner_closest g segs Hne Hwf). exact Hc.
  - apply pkg_targets_In. repeat split; assumption.
  - apply (has_abs_source_complete t p f Hp Hm). subst f. apply join_rel; assumption.
Qed.

Lemma affected_code_cases g incsub ch (base : label -> Prop) :
  (forall l, base l -> In l ch) ->
  forall x, affected g (code_dep g incsub) base x ->
  reach g incsub ch x /\ (base x \/ exists l, reach g incsub ch l /\ In x (revdeps_of g incsub l)).
Proof.
  intros Hbase x Ha. induction Ha as [l Hl | u l _ [IHr _] Hu He].
  - split; [apply reach_base, Hbase, Hl | left; exact Hl].
  - assert (Hin : In (t_id u) (revdeps_of g incsub l)).
    { apply revdeps_of_In. exists u. repeat split; assumption. }
    split; [apply (reach_step g incsub ch l _ IHr Hin)|]. right. exists l. split; assumption.
Qed.

(* the general theorem about changedTargets: for every graph, file list, initial changed set, level and flag *)
Theorem changed_targets_complete g files ch0 level incsub :
  exists rep, changed_targets g files ch0 level incsub = Some rep
    /\ (forall l, In l ch0 -> shown g incsub l = true -> In l rep)
    /\ (forall t, direct g files t -> shown g incsub (t_id t) = true -> In (t_id t) rep)
    /\ (level = (-1)%Z ->
        forall x, affected g (code_dep g incsub) (fun l => In l ch0 \/ exists t, direct g files t /\ t_id t = l) x ->
                  shown g incsub x = true -> In x rep).
Proof.
  destruct (changed_targets_spec g files ch0 level incsub) as [rep [Hrep [H1 H2]]].
  exists rep. split; [exact Hrep|]. split; [|split].
  - intros l Hl Hs. apply H1; [apply changed_by_files_mono; exact Hl | exact Hs].
  - intros t Ht Hs. apply H1; [apply direct_changed; exact Ht | exact Hs].
  - intros Hlev x Ha Hs.
    assert (Hbase : forall l, (In l ch0 \/ exists t, direct g files t /\ t_id t = l) ->
                              In l (changed_by_files g files ch0)).
    { intros l [Hl | [t [Ht Hid]]]; [apply changed_by_files_mono; exact Hl | subst l; apply direct_changed; exact Ht]. }
    destruct (affected_code_cases g incsub (changed_by_files g files ch0) _ Hbase x Ha) as [_ [Hb | [l [Hr Hx]]]].
    + apply H1; [apply Hbase; exact Hb | exact Hs].
    + apply (H2 Hlev l x Hr Hx Hs).
Qed.

(* the shapes on which the unchanged code misses an affected target *)
Definition defect_class (subincludes : bool) (g : graph) (incsub : bool) : option N :=
  if negb incsub && existsb (fun t => t_sub t && match t_subtarget t with Some _ => true | None => false end) (g_targets g)
  then Some 1%N   (* subrepo-edge-needs-include-subrepos *)
  else if subincludes && match g_subincludes g with [] => false | _ => true end
  then Some 2%N   (* subincluding-package-not-followed *)
  else None.

Lemma depends_code_dep sub g incsub u l :
  defect_class sub g incsub = None -> In u (g_targets g) -> depends sub g u l -> code_dep g incsub u l.
Proof.
  unfold defect_class. intros Hc Hu [Hd | [[Hs Ht] | [Hsub [Hs Hi]]]].
  - left. exact Hd.
  - right. destruct incsub; [repeat split; assumption|]. cbn [negb andb] in Hc.
    replace (existsb _ (g_targets g)) with true in Hc; [discriminate|].
    symmetry. apply existsb_exists. exists u. split; [exact Hu|]. rewrite Hs, Ht. reflexivity.
  - exfalso. subst sub. destruct (negb incsub && _); [discriminate|].
    destruct (g_subincludes g); [destruct Hi | discriminate].
Qed.

Lemma affected_mono g (E E' : target -> label -> Prop) base x :
  (forall u l, In u (g_targets g) -> E u l -> E' u l) -> affected g E base x -> affected g E' base x.
Proof.
  intros HE Ha. induction Ha as [l Hl | u l _ IH Hu He]; [apply aff_base; exact Hl|].
  apply (aff_step g E' base u l IH Hu). apply HE; assumption.
Qed.

Lemma affected_base_mono g (E : target -> label -> Prop) (base base' : label -> Prop) x :
  (forall l, base l -> base' l) -> affected g E base x -> affected g E base' x.
Proof.
  intros Hb Ha. induction Ha as [l Hl | u l _ IH Hu He]; [apply aff_base, Hb, Hl|].
  apply (aff_step g E base' u l IH Hu He).
Qed.

(* "rep misses nothing": every base target and, with level -1, everything that transitively depends on one
   is in rep unless the include/exclude labels or the subrepo filter hide it *)
Definition complete (g : graph) (incsub : bool) (level : Z) (E : target -> label -> Prop)
           (base : label -> Prop) (rep : list label) : Prop :=
  (forall l, base l -> shown g incsub l = true -> In l rep)
  /\ (level = (-1)%Z -> forall x, affected g E base x -> shown g incsub x = true -> In x rep).

Definition base_files (g : graph) (files : list str) : label -> Prop :=
  fun l => exists t, direct g files t /\ t_id t = l.

Definition base_diff (cfg : bool) (before after : graph) (files : list str) : label -> Prop :=
  fun l => (exists a, In a (g_targets after) /\ def_changed cfg before a /\ t_id a = l) \/ base_files after files l.

Definition files_claim (E : graph -> bool -> target -> label -> Prop) : Prop :=
  forall g files level incsub,
    exists rep, changes g files level incsub = Some rep
                /\ complete g incsub level (E g incsub) (base_files g files) rep.

Definition diff_claim (E : graph -> bool -> target -> label -> Prop) : Prop :=
  forall cfg before after files level incsub,
    exists rep, diff_changes cfg before after files level incsub = Some rep
                /\ complete after incsub level (E after incsub) (base_diff cfg before after files) rep.

Lemma changes_complete (E : target -> label -> Prop) g files level incsub :
  (forall u l, In u (g_targets g) -> E u l -> code_dep g incsub u l) ->
  exists rep, changes g files level incsub = Some rep /\ complete g incsub level E (base_files g files) rep.
Proof.
  intros HE. unfold changes.
  destruct (changed_targets_complete g files [] level incsub) as [rep [Hrep [_ [H2 H3]]]].
  exists rep. split; [exact Hrep|]. split.
  - intros l [t [Ht Hid]] Hs. subst l. apply H2; assumption.
  - intros Hlev x Ha Hs. apply (H3 Hlev x); [|exact Hs].
    apply (affected_mono g E _ _ x HE). apply (affected_base_mono g E (base_files g files)); [|exact Ha].
    intros l Hl. right. exact Hl.
Qed.

Lemma diff_complete (E : target -> label -> Prop) cfg before after files level incsub :
  (forall u l, In u (g_targets after) -> E u l -> code_dep after incsub u l) ->
  exists rep, diff_changes cfg before after files level incsub = Some rep
              /\ complete after incsub level E (base_diff cfg before after files) rep.
Proof.
  intros HE. unfold diff_changes.
  destruct (changed_targets_complete after files (diff_graphs cfg before after) level incsub) as [rep [Hrep [H1 [H2 H3]]]].
  assert (Hb : forall l, base_diff cfg before after files l ->
                         In l (diff_graphs cfg before after) \/ exists t, direct after files t /\ t_id t = l).
  { intros l [[a [Ha [Hd Hid]]] | Hl]; [left; subst l; apply diff_graphs_complete; assumption | right; exact Hl]. }
  exists rep. split; [exact Hrep|]. split.
  - intros l Hl Hs. destruct (Hb l Hl) as [Hin | [t [Ht Hid]]]; [apply H1; assumption | subst l; apply H2; assumption].
  - intros Hlev x Ha Hs. apply (H3 Hlev x); [|exact Hs].
    apply (affected_mono after E _ _ x HE).
    apply (affected_base_mono after E (base_diff cfg before after files)); [exact Hb | exact Ha].
Qed.

Lemma files_claim_code : files_claim code_dep.
Proof. intros g files level incsub. apply changes_complete. intros u l _ H. exact H. Qed.

Lemma diff_claim_code : diff_claim code_dep.
Proof. intros cfg before after files level incsub. apply diff_complete. intros u l _ H. exact H. Qed.

Lemma files_claim_class g files level incsub :
  defect_class true g incsub = None ->
  exists rep, changes g files level incsub = Some rep
              /\ complete g incsub level (depends true g) (base_files g files) rep.
Proof. intros Hc. apply changes_complete. intros u l Hu H. exact (depends_code_dep true g incsub u l Hc Hu H). Qed.

Lemma diff_claim_class cfg before after files level incsub :
  defect_class false after incsub = None ->
  exists rep, diff_changes cfg before after files level incsub = Some rep
              /\ complete after incsub level (depends false after) (base_diff cfg before after files) rep.
Proof. intros Hc. apply diff_complete. intros u l Hu H. exact (depends_code_dep false after incsub u l Hc Hu H). Qed.

(* ---- witnesses of the two defect classes ---- *)

(* //defs:defs (rules.build_defs), //a:lib in a package that subincludes //defs:defs *)
Definition w_defs : target := mkT 0%N (s "defs") false None [s "rules.build_defs"] [] [] [] [] [] true 1%N 1%N.
Definition w_lib : target := mkT 1%N (s "a") false None [s "lib.go"] [] [] [] [] [] true 2%N 1%N.
Definition w_incl : graph := mkG [w_defs; w_lib] [s "a"; s "defs"] [(s "a", 0%N)].

Lemma w_incl_direct : direct w_incl [s "defs/rules.build_defs"] w_defs.
Proof.
  split; [left; reflexivity|]. exists (s "defs/rules.build_defs"). split; [left; reflexivity|]. split.
  - exists (s "rules.build_defs"). split; [left; reflexivity | left; reflexivity].
  - split; [reflexivity|]. exists [s "defs"; s "rules.build_defs"].
    split; [discriminate|]. split; [apply Forall_wf_segb; reflexivity|]. split; reflexivity.
Qed.

Lemma files_claim_refuted : ~ files_claim (fun g _ => depends true g).
Proof.
  intros H. destruct (H w_incl [s "defs/rules.build_defs"] (-1)%Z false) as [rep [Hrep [_ Hcl]]].
  vm_compute in Hrep. inversion Hrep; subst rep.
  assert (Hin : In 1%N [0%N]).
  { apply Hcl; [reflexivity | | reflexivity].
    change 1%N with (t_id w_lib). apply (aff_step _ _ _ w_lib 0%N).
    - apply aff_base. exists w_defs. split; [exact w_incl_direct | reflexivity].
    - right. left. reflexivity.
    - right. right. split; [reflexivity|]. split; [reflexivity | left; reflexivity]. }
  destruct Hin as [Hin | []]. discriminate.
Qed.

(* //third_party:sr defines the subrepo sr, ///sr//x:lib lives in it, //a:app depends on ///sr//x:lib *)
Definition w_sr : target := mkT 2%N (s "third_party") false None [s "sr.patch"] [] [] [] [] [] true 1%N 1%N.
Definition w_srlib : target := mkT 0%N (s "x") true (Some 2%N) [] [] [] [] [] [] true 2%N 1%N.
Definition w_app : target := mkT 1%N (s "a") false None [] [0%N] [] [] [] [] true 3%N 1%N.
Definition w_subrepo : graph := mkG [w_srlib; w_app; w_sr] [s "a"; s "third_party"] [].

Lemma w_subrepo_direct : direct w_subrepo [s "third_party/sr.patch"] w_sr.
Proof.
  split; [right; right; left; reflexivity|]. exists (s "third_party/sr.patch"). split; [left; reflexivity|]. split.
  - exists (s "sr.patch"). split; [left; reflexivity | left; reflexivity].
  - split; [reflexivity|]. exists [s "third_party"; s "sr.patch"].
    split; [discriminate|]. split; [apply Forall_wf_segb; reflexivity|]. split; reflexivity.
Qed.

Lemma w_subrepo_affected sub (base : label -> Prop) :
  base 2%N -> affected w_subrepo (depends sub w_subrepo) base 1%N.
Proof.
  intros Hb. change 1%N with (t_id w_app). apply (aff_step _ _ _ w_app 0%N).
  - change 0%N with (t_id w_srlib). apply (aff_step _ _ _ w_srlib 2%N).
    + apply aff_base. exact Hb.
    + left. reflexivity.
    + right. left. split; reflexivity.
  - right. left. reflexivity.
  - left. exists 0%N, w_srlib. split; [left; reflexivity|]. split; [reflexivity | left; reflexivity].
Qed.

Lemma diff_claim_refuted : ~ diff_claim (fun g _ => depends false g).
Proof.
  intros H. destruct (H false w_subrepo w_subrepo [s "third_party/sr.patch"] (-1)%Z false) as [rep [Hrep [_ Hcl]]].
  vm_compute in Hrep. inversion Hrep; subst rep.
  assert (Hin : In 1%N [2%N]).
  { apply Hcl; [reflexivity | | reflexivity]. apply w_subrepo_affected.
    right. exists w_sr. split; [exact w_subrepo_direct | reflexivity]. }
  destruct Hin as [Hin | []]. discriminate.
Qed.

Lemma files_claim_refuted_subrepo :
  ~ (forall g files level incsub, g_subincludes g = [] ->
       exists rep, changes g files level incsub = Some rep
                   /\ complete g incsub level (depends true g) (base_files g files) rep).
Proof.
  intros H. destruct (H w_subrepo [s "third_party/sr.patch"] (-1)%Z false eq_refl) as [rep [Hrep [_ Hcl]]].
  vm_compute in Hrep. inversion Hrep; subst rep.
  assert (Hin : In 1%N [2%N]).
  { apply Hcl; [reflexivity | | reflexivity]. apply w_subrepo_affected.
    exists w_sr. split; [exact w_subrepo_direct | reflexivity]. }
  destruct Hin as [Hin | []]. discriminate.
Qed.

(* ---- a graph for the non-vacuity examples ---- *)
Definition e_lib : target := mkT 0%N (s "a") false None [s "lib.go"; s "res"] [] [] [] [] [] true 1%N 1%N.
Definition e_bin : target := mkT 1%N (s "a/b") false None [s "main.go"] [0%N] [] [] [] [] true 2%N 1%N.
Definition e_tst : target := mkT 2%N (s "a/b") false None [s "t.go"; s "testdata"] [1%N] [] [] [] [] true 3%N 1%N.
Definition e_g : graph := mkG [e_lib; e_bin; e_tst] [s "a"; s "a/b"] [].
(* the same graph before //a/b:bin was edited and //a/b:test was added *)
Definition e_g0 : graph :=
  mkG [e_lib; mkT 1%N (s "a/b") false None [s "main.go"] [0%N] [] [] [] [] true 9%N 1%N] [s "a"; s "a/b"] [].

Lemma e_direct : direct e_g [s "a/res/img/x.png"] e_lib.
Proof.
  split; [left; reflexivity|]. exists (s "a/res/img/x.png"). split; [left; reflexivity|]. split.
  - exists (s "res"). split; [right; left; reflexivity|]. right. exists (s "img/x.png"). reflexivity.
  - split; [reflexivity|]. exists [s "a"; s "res"; s "img"; s "x.png"].
    split; [discriminate|]. split; [apply Forall_wf_segb; reflexivity|]. split; reflexivity.
Qed.

Lemma e_affected : affected e_g (depends true e_g) (base_files e_g [s "a/res/img/x.png"]) 2%N.
Proof.
  change 2%N with (t_id e_tst). apply (aff_step _ _ _ e_tst 1%N).
  - change 1%N with (t_id e_bin). apply (aff_step _ _ _ e_bin 0%N).
    + apply aff_base. exists e_lib. split; [exact e_direct | reflexivity].
    + right. left. reflexivity.
    + left. exists 0%N, e_lib. split; [left; reflexivity|]. split; [reflexivity | left; reflexivity].
  - right. right. left. reflexivity.
  - left. exists 1%N, e_bin. split; [left; reflexivity|]. split; [reflexivity | left; reflexivity].
Qed.
