(* C30 - proofs about the timeout protocol of Model/C30.v.
   The operating system enters through three named hypotheses of Section Protocol; they are
   discharged for the concrete `linux` model (the one the correspondence check runs) at the end. *)
From PlzV Require Import Base.Harness Gen.KillTimings Model.C30.
From Coq Require Import Lia.
Local Open Scope N_scope.

(* ---- what the proofs use of the regenerated source facts ---- *)
Lemma gen_protocol : kill_protocol = [(sigterm, 30); (sigkill, 1000)].
Proof. reflexivity. Qed.
Lemma gen_second_unconditional : second_signal_unconditional = true.
Proof. reflexivity. Qed.
Lemma sig2_is_kill : sig2 = sigkill.
Proof. reflexivity. Qed.
Lemma kill_group_true : kill_group = true.
Proof. reflexivity. Qed.
Lemma waits_sum : d1 + d2 = 1030.
Proof. reflexivity. Qed.
(* the timeout branch does not receive from ch again after KillProcess, and runCommand does not close ch *)
Lemma gen_no_drain : drains = false.
Proof. reflexivity. Qed.
Lemma gen_no_close : closes = false.
Proof. reflexivity. Qed.
Lemma after_kill_ret : forall t k, after_kill t k = PcRet t ErrDeadline.
Proof. intros. unfold after_kill. rewrite gen_no_drain. reflexivity. Qed.

(* ExecCommand, run on the regenerated statement list, for EVERY configuration of the executor and
   of the action (namespace policy, builtin or external sandbox, sandboxed or not): the command
   that is returned - the one cmd.Start() starts - has a SysProcAttr, with Setpgid, and no nil
   SysProcAttr was dereferenced on the way *)
Lemma exec_command_ok : forall m,
  group_set (exec_command m) = true /\ crashed (exec_command m) = false
  /\ returned (exec_command m) = true /\ attr_set (exec_command m) = true.
Proof. intros [[] [] []]; vm_compute; repeat split. Qed.

Lemma start_in_group : forall m, in_group (start_proc m) = true.
Proof. intros m. unfold start_proc. cbn [in_group]. apply exec_command_ok. Qed.

Lemma start_proc_eq : forall m, start_proc m = mkProc true true false true false false.
Proof. intros m. unfold start_proc. destruct (exec_command_ok m) as (H & _). rewrite H. reflexivity. Qed.

Lemma start_enabled : forall m, returned (exec_command m) && negb (crashed (exec_command m)) = true.
Proof. intros m. destruct (exec_command_ok m) as (_ & H1 & H2 & _). rewrite H1, H2. reflexivity. Qed.

(* from here on the constants are symbols: the proofs use only the lemmas above *)
Local Opaque d1 d2 sig1 sig2 kill_group drains closes after_kill exec_command start_proc.

(* ---- per-process predicates ---- *)
Definition Pg (p : proc) : Prop := in_group p = true -> alive p = true -> got_kill p = true.
Definition Pq (p : proc) : Prop := alive p = true -> holds_pipe p = false.
Definition Ph (p : proc) : Prop := holds_pipe p = true.
Definition Pd (p : proc) : Prop := alive p = false.
Definition Pin (p : proc) : Prop := in_group p = true.

Definition main_dead (l : list proc) : Prop := match l with [] => True | m :: _ => alive m = false end.

(* every member of the group is dead or has been sent SIGKILL *)
Definition G (l : list proc) : Prop := Forall Pg l.
(* what a normal return guarantees: process 0 is gone and nothing alive holds the output pipes *)
Definition Quiet (l : list proc) : Prop := main_dead l /\ Forall Pq l.

(* ---- environment steps ---- *)
Inductive env_rel : bool -> list proc -> list proc -> Prop :=
| R_fork l p x : nth_error l p = Some x -> runs x = true -> env_rel false l (l ++ [child x])
| R_exit l i l' : upd i f_exit l = Some l' -> env_rel false l l'
| R_escape l i l' : upd i f_escape l = Some l' -> env_rel false l l'
| R_setign l i b l' : upd i (f_setign b) l = Some l' -> env_rel false l l'
| R_close l i l' : upd i f_close l = Some l' -> env_rel true l l'.

Lemma upd_Forall (P : proc -> Prop) f : (forall x y, P x -> f x = Some y -> P y) ->
  forall i l l', upd i f l = Some l' -> Forall P l -> Forall P l'.
Proof.
  intros Hf i. induction i as [|j IH]; intros l l' H HF; destruct l as [|x r]; cbn in H; try discriminate.
  - destruct (f x) as [y|] eqn:E; [|discriminate]. inversion H; subst. inversion HF; subst.
    constructor; eauto.
  - destruct (upd j f r) as [r'|] eqn:E; [|discriminate]. inversion H; subst. inversion HF; subst.
    constructor; eauto.
Qed.

Lemma upd_main_dead f : (forall x y, f x = Some y -> alive x = true) ->
  forall i l l', upd i f l = Some l' -> main_dead l -> main_dead l'.
Proof.
  intros Hf i l l' H Hm. destruct l as [|x r]; [destruct i; discriminate|]. destruct i as [|j]; cbn in H.
  - destruct (f x) as [y|] eqn:E; [|discriminate]. apply Hf in E. cbn in Hm. congruence.
  - destruct (upd j f r); [|discriminate]. inversion H; subst. exact Hm.
Qed.

Lemma upd_nonempty f i l l' : upd i f l = Some l' -> l <> [].
Proof. destruct l; [destruct i; discriminate|discriminate]. Qed.

Ltac fcases H :=
  match type of H with
  | f_exit ?x = Some _ => unfold f_exit in H; destruct (alive x) eqn:?; [|discriminate]; inversion H; subst; clear H
  | f_escape ?x = Some _ => unfold f_escape, runs in H; destruct (alive x) eqn:?, (got_kill x) eqn:?, (in_group x) eqn:?; try discriminate; inversion H; subst; clear H
  | f_setign _ ?x = Some _ => unfold f_setign, runs in H; destruct (alive x) eqn:?, (got_kill x) eqn:?; try discriminate; inversion H; subst; clear H
  | f_close ?x = Some _ => unfold f_close, runs in H; destruct (alive x) eqn:?, (got_kill x) eqn:?; try discriminate; inversion H; subst; clear H
  end.

Lemma f_alive :
  (forall x y, f_exit x = Some y -> alive x = true) /\ (forall x y, f_escape x = Some y -> alive x = true)
  /\ (forall b x y, f_setign b x = Some y -> alive x = true) /\ (forall x y, f_close x = Some y -> alive x = true).
Proof. repeat split; intros; match goal with H : _ = Some _ |- _ => fcases H end; reflexivity. Qed.

Lemma env_rel_Forall (P : proc -> Prop) :
  (forall x, P x -> runs x = true -> P (child x)) ->
  (forall x y, P x -> f_exit x = Some y -> P y) ->
  (forall x y, P x -> f_escape x = Some y -> P y) ->
  (forall b x y, P x -> f_setign b x = Some y -> P y) ->
  forall (closes : bool), (closes = true -> forall x y, P x -> f_close x = Some y -> P y) ->
  forall l l', env_rel closes l l' -> Forall P l -> Forall P l'.
Proof.
  intros Hfork Hexit Hesc Hign closes Hclose l l' R HF. destruct R.
  - apply Forall_app. split; [assumption|]. constructor; [|constructor].
    apply Hfork; [|assumption]. rewrite Forall_forall in HF. apply HF. eapply nth_error_In; eassumption.
  - eapply upd_Forall; [|eassumption|assumption]. eauto.
  - eapply upd_Forall; [|eassumption|assumption]. eauto.
  - eapply upd_Forall; [|eassumption|assumption]. eauto.
  - eapply upd_Forall; [|eassumption|assumption]. eauto.
Qed.

Lemma env_rel_main_dead c l l' : env_rel c l l' -> main_dead l -> main_dead l'.
Proof.
  destruct f_alive as (A1 & A2 & A3 & A4).
  intros R Hm. destruct R; try (eapply upd_main_dead; [|eassumption|assumption]; eauto).
  destruct l; [destruct p; discriminate|exact Hm].
Qed.

Lemma env_rel_nonempty c l l' : env_rel c l l' -> l <> [].
Proof.
  intros R. destruct R; try (eapply upd_nonempty; eassumption).
  destruct l; [destruct p; discriminate|discriminate].
Qed.

Lemma env_G c l l' : env_rel c l l' -> G l -> G l'.
Proof.
  intros R. apply (env_rel_Forall Pg) with (closes := c); [..|exact R]; unfold Pg.
  - intros x Hx Hr. unfold runs in Hr. cbn. intros Hg _.
    destruct (alive x) eqn:Ea, (got_kill x) eqn:Ek; try discriminate. specialize (Hx Hg eq_refl). discriminate.
  - intros x y Hx H. fcases H. cbn. discriminate.
  - intros x y Hx H. fcases H. cbn. discriminate.
  - intros b x y Hx H. fcases H. cbn. auto.
  - intros _ x y Hx H. fcases H. cbn. auto.
Qed.

Lemma env_Pq c l l' : env_rel c l l' -> Forall Pq l -> Forall Pq l'.
Proof.
  intros R. apply (env_rel_Forall Pq) with (closes := c); [..|exact R]; unfold Pq.
  - intros x Hx Hr. unfold runs in Hr. cbn. intros _. apply Hx. destruct (alive x); [reflexivity|discriminate].
  - intros x y Hx H. fcases H. cbn. discriminate.
  - intros x y Hx H. fcases H. cbn. auto.
  - intros b x y Hx H. fcases H. cbn. auto.
  - intros _ x y Hx H. fcases H. cbn. auto.
Qed.

Lemma env_Quiet c l l' : env_rel c l l' -> Quiet l -> Quiet l'.
Proof. intros R [Hm Hq]. split; [eapply env_rel_main_dead|eapply env_Pq]; eassumption. Qed.

Lemma env_Ph l l' : env_rel false l l' -> Forall Ph l -> Forall Ph l'.
Proof.
  intros R. apply (env_rel_Forall Ph) with (closes := false); [..|exact R]; unfold Ph; try discriminate.
  - intros x Hx _. exact Hx.
  - intros x y Hx H. fcases H. exact Hx.
  - intros x y Hx H. fcases H. exact Hx.
  - intros b x y Hx H. fcases H. exact Hx.
Qed.

(* once everything is dead nothing can happen any more *)
Lemma env_Pd c l l' : env_rel c l l' -> Forall Pd l -> False.
Proof.
  destruct f_alive as (A1 & A2 & A3 & A4).
  assert (U : forall f, (forall x y, f x = Some y -> alive x = true) ->
            forall i l l', upd i f l = Some l' -> Forall Pd l -> False).
  { intros f Hf i. induction i as [|j IH]; intros l0 l0' H HF; destruct l0 as [|x r]; cbn in H; try discriminate;
      inversion HF; subst.
    - destruct (f x) eqn:E; [|discriminate]. apply Hf in E. unfold Pd in *. congruence.
    - destruct (upd j f r) eqn:E; [|discriminate]. eauto. }
  intros R HF. destruct R; try (eapply U; [|eassumption|eassumption]; eauto).
  rewrite Forall_forall in HF. apply nth_error_In in H. apply HF in H. unfold Pd, runs in *.
  rewrite H in H0. discriminate.
Qed.

Ltac splits := repeat match goal with |- _ /\ _ => split end.

Section Protocol.
  Variable os : os_model.

  (* OS-1: a SIGKILL addressed to the process group reaches every live member of the group
     (kill(2) with a negative pid; members cannot fork out of its way). *)
  Hypothesis os_sigkill_reaches_group : forall l, G (os_kill os true sigkill l).
  (* OS-2: cmd.Wait() returns only after process 0 was reaped and the pipe readers saw end of
     file, and a pipe gives end of file only when no live process has its write end open. *)
  Hypothesis os_wait_done_sound : forall l, os_wait_done os l = true -> Quiet l.
  (* OS-3: sending a signal closes nobody's descriptors. *)
  Hypothesis os_kill_keeps_pipes : forall g sg l, Forall Ph l -> Forall Ph (os_kill os g sg l).
  (* OS-4: sending a signal moves nobody out of the process group. *)
  Hypothesis os_kill_keeps_group : forall g sg l, Forall Pin l -> Forall Pin (os_kill os g sg l).

  Variables T lat : N.

  Definition Inv (st : state) : Prop :=
    match ctl st with
    | PcInit => now st <= lat /\ procs st = []
    | PcSelect => now st <= T + lat
    | PcWait1 a => T <= a /\ a <= T + lat /\ a <= now st /\ now st <= a + d1 + lat
    | PcWait2 a _ => T <= a /\ a <= T + d1 + 2 * lat /\ a <= now st /\ now st <= a + d2 + lat /\ G (procs st)
    | PcDrain _ _ => False   (* the timeout branch does not wait for the channel (gen_no_drain) *)
    | PcRet t e => t <= now st /\
        match e with
        | ErrDeadline => T <= t /\ t <= T + d1 + d2 + 3 * lat /\ G (procs st)
        | ErrNone => t <= T + lat /\ Quiet (procs st)
        | ErrStart => t <= lat /\ procs st = []
        end
    end.

  Lemma step_env : forall st e st', step os T lat st e = Some st' ->
    match e with
    | Tick d => now st' = now st + d /\ ctl st' = ctl st /\ procs st' = procs st
    | EFork _ | EExit _ | EEscape _ | ESetIgn _ _ =>
        now st' = now st /\ ctl st' = ctl st /\ env_rel false (procs st) (procs st')
    | EClosePipe _ => now st' = now st /\ ctl st' = ctl st /\ env_rel true (procs st) (procs st')
    | _ => True
    end.
  Proof.
    intros st e st' H. destruct e; cbn in H; try exact I.
    - cbv zeta in H. match type of H with (if ?c then _ else _) = _ => destruct c; [|discriminate] end.
      inversion H; subst. cbn. auto.
    - destruct (nth_error (procs st) p) as [x|] eqn:E; [|discriminate]. destruct (runs x) eqn:Er; [|discriminate].
      inversion H; subst. cbn. repeat split. econstructor; eassumption.
    - unfold with_procs in H. destruct (upd p f_exit (procs st)) eqn:E; [|discriminate]. inversion H; subst. cbn.
      repeat split. econstructor; eassumption.
    - unfold with_procs in H. destruct (upd p f_escape (procs st)) eqn:E; [|discriminate]. inversion H; subst. cbn.
      repeat split. econstructor; eassumption.
    - unfold with_procs in H. destruct (upd p (f_setign b) (procs st)) eqn:E; [|discriminate]. inversion H; subst. cbn.
      repeat split. econstructor; eassumption.
    - unfold with_procs in H. destruct (upd p f_close (procs st)) eqn:E; [|discriminate]. inversion H; subst. cbn.
      repeat split. econstructor; eassumption.
  Qed.

  Lemma kill2_G : forall l, G (os_kill os kill_group sig2 l).
  Proof. intros l. rewrite kill_group_true, sig2_is_kill. apply os_sigkill_reaches_group. Qed.

  Lemma Inv_env : forall c st st', Inv st -> now st' = now st -> ctl st' = ctl st ->
    env_rel c (procs st) (procs st') -> Inv st'.
  Proof.
    intros c st st' HI Hn Hc R. unfold Inv in *. rewrite Hc, Hn.
    destruct (ctl st) as [| |a|a k|a k|t e].
    - destruct HI as [_ HE]. apply env_rel_nonempty in R. contradiction.
    - exact HI.
    - exact HI.
    - destruct HI as (?&?&?&?&HG). splits; try assumption. eapply env_G; eassumption.
    - exact HI.
    - destruct HI as (Ht & HI). split; [assumption|]. destruct e.
      + destruct HI as [? HQ]. split; [assumption|]. eapply env_Quiet; eassumption.
      + destruct HI as [_ HE]. apply env_rel_nonempty in R. contradiction.
      + destruct HI as (?&?&HG). splits; try assumption. eapply env_G; eassumption.
  Qed.

  Lemma step_inv : forall st e st', Inv st -> step os T lat st e = Some st' -> Inv st'.
  Proof.
    intros st e st' HI H. pose proof (step_env _ _ _ H) as HE.
    destruct e; try (destruct HE as (Hn & Hc & R); eapply Inv_env; eassumption).
    - (* Tick *)
      destruct HE as (Hn & Hc & Hp). cbn in H. unfold Inv in *. rewrite Hc, Hn, Hp.
      destruct (ctl st) as [| |a|a k|a k|t e]; try contradiction; cbv zeta in H; cbn match in H;
        try (match type of H with (if ?c then _ else _) = _ => destruct c eqn:Eb; [|discriminate] end;
             apply N.leb_le in Eb).
      + destruct HI. split; [lia|assumption].
      + lia.
      + lia.
      + destruct HI as (?&?&?&?&?). splits; try assumption; lia.
      + destruct HI as [? HI]. split; [lia|exact HI].
    - (* CStart *)
      cbn in H. unfold Inv in HI. destruct (ctl st); try discriminate. destruct HI as [Hl Hp].
      rewrite start_enabled in H.
      destruct ok; inversion H; subst; unfold Inv; cbn [now ctl procs].
      + lia.
      + split; [lia|]. split; [lia|reflexivity].
    - (* CChan *)
      cbn in H. unfold Inv in HI. destruct (ctl st); try discriminate.
      destruct (os_wait_done os (procs st)) eqn:E; [|discriminate]. inversion H; subst. unfold Inv; cbn [now ctl procs].
      split; [lia|]. split; [assumption|]. apply os_wait_done_sound. assumption.
    - (* CDeadline *)
      cbn in H. unfold Inv in HI. destruct (ctl st); try discriminate.
      destruct (T <=? now st) eqn:E; [|discriminate]. apply N.leb_le in E. inversion H; subst. unfold Inv; cbn [now ctl procs]. lia.
    - (* CRecv *)
      cbn in H. unfold Inv in HI. destruct (ctl st) as [| |a|a k|a k|t e]; try discriminate; try contradiction.
      + destruct (os_wait_done os (procs st)) eqn:E; [|discriminate]. inversion H; subst. unfold Inv; cbn [now ctl procs].
        destruct HI as (?&?&?&?). splits; try lia. apply kill2_G.
      + destruct k; [rewrite gen_no_close in H; discriminate|]. destruct (os_wait_done os (procs st)) eqn:E; [|discriminate].
        rewrite after_kill_ret in H.
        inversion H; subst. unfold Inv; cbn [now ctl procs]. destruct HI as (?&?&?&?&?). splits; try assumption; lia.
    - (* CExpire *)
      cbn in H. unfold Inv in HI. destruct (ctl st) as [| |a|a k|a k|t e]; try discriminate; try contradiction.
      + destruct (a + d1 <=? now st) eqn:E; [|discriminate]. apply N.leb_le in E. inversion H; subst. unfold Inv; cbn [now ctl procs].
        destruct HI as (?&?&?&?). splits; try lia. apply kill2_G.
      + destruct (a + d2 <=? now st) eqn:E; [|discriminate]. apply N.leb_le in E. rewrite after_kill_ret in H.
        inversion H; subst. unfold Inv; cbn [now ctl procs].
        destruct HI as (?&?&?&?&?). splits; try assumption; lia.
  Qed.

  Lemma init_inv : Inv init.
  Proof. unfold Inv, init; cbn [now ctl procs]. split; [lia|reflexivity]. Qed.

  Lemma run_inv : forall tr st st', Inv st -> run os T lat st tr = Some st' -> Inv st'.
  Proof.
    induction tr as [|e r IH]; intros st st' HI H; cbn in H.
    - inversion H; subst. assumption.
    - destruct (step os T lat st e) as [st1|] eqn:E; [|discriminate]. eapply IH; [|eassumption]. eapply step_inv; eassumption.
  Qed.

  Lemma reachable_inv : forall tr st, run os T lat init tr = Some st -> Inv st.
  Proof. intros. eapply run_inv; [apply init_inv|eassumption]. Qed.

  (* ---- the consequences, in the words of the property ---- *)
  Definition bound : N := T + d1 + d2 + 3 * lat.

  (* the action is reported by the bound, and time cannot pass the bound before it is *)
  Lemma reported_by_bound : forall tr st, run os T lat init tr = Some st ->
    match ctl st with PcRet t _ => t <= bound | _ => now st <= bound end.
  Proof.
    intros tr st H. apply reachable_inv in H. unfold Inv, bound in *. destruct (ctl st) as [| |a|a k|a k|t e].
    - lia.
    - lia.
    - lia.
    - lia.
    - contradiction.
    - destruct H as [_ H]. destruct e; lia.
  Qed.

  (* a report later than deadline + lat is a timeout failure; a timeout is never reported early;
     a command still running lat after the deadline is already being killed *)
  Lemma reported_failed : forall tr st, run os T lat init tr = Some st ->
    (forall t e, ctl st = PcRet t e -> (T + lat < t -> e = ErrDeadline) /\ (e = ErrDeadline -> T <= t))
    /\ (ctl st = PcInit \/ ctl st = PcSelect -> now st <= T + lat).
  Proof.
    intros tr st H. apply reachable_inv in H. unfold Inv in H. split.
    - intros t e Hc. rewrite Hc in H. destruct H as [_ H]. destruct e; split; intros; try lia; try reflexivity; try discriminate.
    - intros [Hc|Hc]; rewrite Hc in H; lia.
  Qed.

  (* the loop never hangs: whenever time cannot advance, the controller can move *)
  Lemma never_stuck : forall tr st, run os T lat init tr = Some st ->
    (exists t e, ctl st = PcRet t e)
    \/ (exists st', step os T lat st (Tick 1) = Some st')
    \/ (exists e st', is_controller e = true /\ step os T lat st e = Some st').
  Proof.
    intros tr st H. apply reachable_inv in H. unfold Inv in H.
    destruct (ctl st) as [| |a|a k|a k|t e] eqn:Ec.
    - right; right. exists (CStart true no_sandbox). eexists. split; [reflexivity|]. cbn. rewrite Ec, start_enabled. reflexivity.
    - destruct (now st + 1 <=? T + lat) eqn:E.
      + right; left. eexists. cbn. rewrite Ec, E. reflexivity.
      + right; right. exists CDeadline. eexists. split; [reflexivity|]. cbn. rewrite Ec.
        apply N.leb_gt in E. assert (E' : (T <=? now st) = true) by (apply N.leb_le; lia). rewrite E'. reflexivity.
    - destruct (now st + 1 <=? a + d1 + lat) eqn:E.
      + right; left. eexists. cbn. rewrite Ec, E. reflexivity.
      + right; right. exists CExpire. eexists. split; [reflexivity|]. cbn. rewrite Ec.
        apply N.leb_gt in E. assert (E' : (a + d1 <=? now st) = true) by (apply N.leb_le; lia). rewrite E'. reflexivity.
    - destruct (now st + 1 <=? a + d2 + lat) eqn:E.
      + right; left. eexists. cbn. rewrite Ec, E. reflexivity.
      + right; right. exists CExpire. eexists. split; [reflexivity|]. cbn. rewrite Ec.
        apply N.leb_gt in E. assert (E' : (a + d2 <=? now st) = true) by (apply N.leb_le; lia). rewrite E'. reflexivity.
    - contradiction.
    - left. eauto.
  Qed.

  (* after a timeout report every process of the group is dead or was sent SIGKILL - at the
     moment of the report and in every later state *)
  Lemma timeout_group_stopped : forall tr st t, run os T lat init tr = Some st -> ctl st = PcRet t ErrDeadline ->
    forall p, In p (procs st) -> in_group p = true -> alive p = false \/ got_kill p = true.
  Proof.
    intros tr st t H Hc p Hin Hg. apply reachable_inv in H. unfold Inv in H. rewrite Hc in H.
    destruct H as (_ & _ & _ & HG). unfold G in HG. rewrite Forall_forall in HG. specialize (HG p Hin).
    destruct (alive p) eqn:Ea; [right; apply HG; auto|left; reflexivity].
  Qed.

  (* after a normal report process 0 is gone and whatever is alive has given up the output pipes *)
  Lemma normal_return_quiet : forall tr st t, run os T lat init tr = Some st -> ctl st = PcRet t ErrNone ->
    main_dead (procs st) /\ forall p, In p (procs st) -> alive p = true -> holds_pipe p = false.
  Proof.
    intros tr st t H Hc. apply reachable_inv in H. unfold Inv in H. rewrite Hc in H.
    destruct H as (_ & _ & Hm & Hq). split; [assumption|]. intros p Hin. rewrite Forall_forall in Hq. apply Hq. assumption.
  Qed.

  (* a failed start leaves no process *)
  Lemma start_failure_no_process : forall tr st t, run os T lat init tr = Some st -> ctl st = PcRet t ErrStart -> procs st = [].
  Proof. intros tr st t H Hc. apply reachable_inv in H. unfold Inv in H. rewrite Hc in H. tauto. Qed.

  (* ---- commands none of whose processes detaches from the output pipes ---- *)
  Definition Inv2 (st : state) : Prop :=
    Forall Ph (procs st) /\ (forall t, ctl st = PcRet t ErrNone -> Forall Pd (procs st)).

  Lemma step_inv2 : forall st e st', Inv2 st -> step os T lat st e = Some st' ->
    match e with EClosePipe _ => False | _ => True end -> Inv2 st'.
  Proof.
    intros st e st' [Hh Hd] H Hne. pose proof (step_env _ _ _ H) as HE.
    destruct e; try contradiction;
      try (destruct HE as (Hn & Hc & R); split;
           [eapply env_Ph; eassumption | intros t Ht; rewrite Hc in Ht; exfalso; eapply env_Pd; [exact R|eauto]]).
    - destruct HE as (Hn & Hc & Hp). unfold Inv2. rewrite Hc, Hp. split; assumption.
    - cbn in H. destruct (ctl st) eqn:Ec; try discriminate. rewrite start_enabled in H.
      destruct ok; inversion H; subst; unfold Inv2; cbn [now ctl procs].
      + split; [rewrite start_proc_eq; repeat constructor|discriminate].
      + split; [constructor|discriminate].
    - cbn in H. destruct (ctl st) eqn:Ec; try discriminate. destruct (os_wait_done os (procs st)) eqn:E; [|discriminate].
      inversion H; subst. unfold Inv2; cbn [now ctl procs]. split; [assumption|]. intros _ _.
      apply os_wait_done_sound in E. destruct E as [_ Hq]. rewrite Forall_forall in *. intros p Hin.
      specialize (Hq p Hin). specialize (Hh p Hin). unfold Pq, Ph, Pd in *. destruct (alive p); [|reflexivity].
      rewrite Hq in Hh by reflexivity. discriminate.
    - cbn in H. destruct (ctl st) eqn:Ec; try discriminate. destruct (T <=? now st); [|discriminate].
      inversion H; subst. unfold Inv2; cbn [now ctl procs]. split; [apply os_kill_keeps_pipes; assumption|discriminate].
    - cbn in H. destruct (ctl st) as [| |a|a k|a k|t e] eqn:Ec; try discriminate.
      + destruct (os_wait_done os (procs st)); [|discriminate]. inversion H; subst. unfold Inv2; cbn [now ctl procs].
        split; [apply os_kill_keeps_pipes; assumption|discriminate].
      + destruct k; [rewrite gen_no_close in H; discriminate|]. destruct (os_wait_done os (procs st)); [|discriminate].
        rewrite after_kill_ret in H. inversion H; subst.
        unfold Inv2; cbn [now ctl procs]. split; [assumption|discriminate].
      + destruct k; [rewrite gen_no_close in H; discriminate|]. destruct (os_wait_done os (procs st)); [|discriminate].
        inversion H; subst. unfold Inv2; cbn [now ctl procs]. split; [assumption|discriminate].
    - cbn in H. destruct (ctl st) as [| |a|a k|a k|t e] eqn:Ec; try discriminate.
      + destruct (a + d1 <=? now st); [|discriminate]. inversion H; subst. unfold Inv2; cbn [now ctl procs].
        split; [apply os_kill_keeps_pipes; assumption|discriminate].
      + destruct (a + d2 <=? now st); [|discriminate]. rewrite after_kill_ret in H. inversion H; subst. unfold Inv2; cbn [now ctl procs].
        split; [assumption|discriminate].
  Qed.

  Lemma run_inv2 : forall tr st st', Inv2 st -> detaches tr = false -> run os T lat st tr = Some st' -> Inv2 st'.
  Proof.
    induction tr as [|e r IH]; intros st st' HI Hd H; cbn in H.
    - inversion H; subst. assumption.
    - destruct (step os T lat st e) as [st1|] eqn:E; [|discriminate]. unfold detaches in Hd. cbn in Hd.
      apply Bool.orb_false_iff in Hd. destruct Hd as [He Hr]. eapply IH; [|exact Hr|eassumption].
      eapply step_inv2; [eassumption|eassumption|]. destruct e; try exact I. discriminate.
  Qed.

  Lemma attached_all_dead : forall tr st t, detaches tr = false -> run os T lat init tr = Some st ->
    ctl st = PcRet t ErrNone -> forall p, In p (procs st) -> alive p = false.
  Proof.
    intros tr st t Hd H Hc p Hin. assert (HI : Inv2 init) by (split; [constructor|discriminate]).
    pose proof (run_inv2 _ _ _ HI Hd H) as [_ Hall]. specialize (Hall t Hc). rewrite Forall_forall in Hall.
    apply Hall. assumption.
  Qed.
  (* ---- actions none of whose processes leaves the process group: EVERY process is stopped ----
     (this is where the group set up by ExecCommand for every configuration is used) *)
  Lemma step_all_in_group : forall st e st', Forall Pin (procs st) -> step os T lat st e = Some st' ->
    match e with EEscape _ => False | _ => True end -> Forall Pin (procs st').
  Proof.
    intros st e st' HP H Hne. destruct e; try contradiction; cbn in H.
    - cbv zeta in H. match type of H with (if ?c then _ else _) = _ => destruct c; [|discriminate] end.
      inversion H; subst. exact HP.
    - destruct (nth_error (procs st) p) as [x|] eqn:E; [|discriminate]. destruct (runs x); [|discriminate].
      inversion H; subst. cbn [procs]. apply Forall_app. split; [exact HP|]. constructor; [|constructor].
      rewrite Forall_forall in HP. apply nth_error_In in E. apply HP in E. exact E.
    - unfold with_procs in H. destruct (upd p f_exit (procs st)) eqn:E; [|discriminate]. inversion H; subst. cbn [procs].
      eapply upd_Forall; [|exact E|exact HP]. intros x y Hx Hf. fcases Hf. exact Hx.
    - unfold with_procs in H. destruct (upd p (f_setign b) (procs st)) eqn:E; [|discriminate]. inversion H; subst. cbn [procs].
      eapply upd_Forall; [|exact E|exact HP]. intros x y Hx Hf. fcases Hf. exact Hx.
    - unfold with_procs in H. destruct (upd p f_close (procs st)) eqn:E; [|discriminate]. inversion H; subst. cbn [procs].
      eapply upd_Forall; [|exact E|exact HP]. intros x y Hx Hf. fcases Hf. exact Hx.
    - destruct (ctl st); try discriminate. rewrite start_enabled in H. destruct ok; inversion H; subst; cbn [procs].
      + constructor; [apply start_in_group|constructor].
      + constructor.
    - destruct (ctl st); try discriminate. destruct (os_wait_done os (procs st)); [|discriminate]. inversion H; subst. exact HP.
    - destruct (ctl st); try discriminate. destruct (T <=? now st); [|discriminate]. inversion H; subst. cbn [procs].
      apply os_kill_keeps_group. exact HP.
    - destruct (ctl st) as [| |a|a k|a k|t e]; try discriminate.
      + destruct (os_wait_done os (procs st)); [|discriminate]. inversion H; subst. cbn [procs]. apply os_kill_keeps_group. exact HP.
      + destruct k; [destruct closes; [|discriminate]|destruct (os_wait_done os (procs st)); [|discriminate]]; inversion H; subst; exact HP.
      + destruct k; [destruct closes; [|discriminate]|destruct (os_wait_done os (procs st)); [|discriminate]]; inversion H; subst; exact HP.
    - destruct (ctl st) as [| |a|a k|a k|t e]; try discriminate.
      + destruct (a + d1 <=? now st); [|discriminate]. inversion H; subst. cbn [procs]. apply os_kill_keeps_group. exact HP.
      + destruct (a + d2 <=? now st); [|discriminate]. inversion H; subst. exact HP.
  Qed.

  Lemma run_all_in_group : forall tr st st', Forall Pin (procs st) -> escapes tr = false ->
    run os T lat st tr = Some st' -> Forall Pin (procs st').
  Proof.
    induction tr as [|e r IH]; intros st st' HP He H; cbn in H.
    - inversion H; subst. exact HP.
    - destruct (step os T lat st e) as [st1|] eqn:E; [|discriminate]. unfold escapes in He. cbn in He.
      apply Bool.orb_false_iff in He. destruct He as [He Hr]. eapply IH; [|exact Hr|exact H].
      eapply step_all_in_group; [exact HP|exact E|]. destruct e; try exact I. discriminate.
  Qed.

  (* whatever the sandbox configuration: when no process ever left the group, a reported timeout
     means every process the action started - not just those that happen to be in the group - is
     dead or was sent SIGKILL *)
  Lemma timeout_all_stopped : forall tr st t, escapes tr = false -> run os T lat init tr = Some st ->
    ctl st = PcRet t ErrDeadline -> forall p, In p (procs st) -> alive p = false \/ got_kill p = true.
  Proof.
    intros tr st t He H Hc p Hin. eapply timeout_group_stopped; try eassumption.
    assert (HP : Forall Pin (procs st)) by (eapply (run_all_in_group tr init st); [cbn; constructor|exact He|exact H]).
    rewrite Forall_forall in HP. apply HP. exact Hin.
  Qed.

  (* ---- the report does not wait for whoever holds the output pipes ----
     From every reachable state the controller reaches its return through clock events alone
     (Tick, cmd.Start returning, ctx.Done(), time.After): no receive from ch, no step of any
     process.  So no process - in particular none that left the group and kept the pipes, which
     the group kill cannot reach and which keeps cmd.Wait() from returning for ever - can delay
     the report beyond the bound. *)
  Definition done_by_timers (st : state) : Prop :=
    exists tr' st' t e, forallb timer_only tr' = true /\ run os T lat st tr' = Some st' /\ ctl st' = PcRet t e.

  Lemma run_app : forall a b st, run os T lat st (a ++ b) =
    match run os T lat st a with Some s1 => run os T lat s1 b | None => None end.
  Proof.
    induction a as [|e r IH]; intros b st; cbn; [reflexivity|].
    destruct (step os T lat st e); [apply IH|reflexivity].
  Qed.

  Lemma extend_timers : forall st tr1 st1, forallb timer_only tr1 = true -> run os T lat st tr1 = Some st1 ->
    done_by_timers st1 -> done_by_timers st.
  Proof.
    intros st tr1 st1 Ht H (tr' & st' & t & e & Ht' & H' & Hc). exists (tr1 ++ tr'), st', t, e.
    split; [rewrite forallb_app, Ht, Ht'; reflexivity|]. split; [|exact Hc]. rewrite run_app, H. exact H'.
  Qed.

  Lemma leb_true : forall a b, a <= b -> (a <=? b) = true.
  Proof. intros. apply N.leb_le. assumption. Qed.

  Lemma finish_wait2 : forall st a k, Inv st -> ctl st = PcWait2 a k -> done_by_timers st.
  Proof.
    intros [n c l] a k HI Hc. cbn in Hc. subst c. unfold Inv in HI. cbn [now ctl procs] in HI. destruct HI as (?&?&?&?&?).
    exists [Tick (a + d2 - n); CExpire]. eexists. exists (n + (a + d2 - n)), ErrDeadline. split; [reflexivity|].
    cbn [run step now ctl procs]. cbv zeta. rewrite (leb_true (n + (a + d2 - n)) (a + d2 + lat)) by lia.
    cbn [now ctl procs]. rewrite (leb_true (a + d2) (n + (a + d2 - n))) by lia. rewrite after_kill_ret. split; reflexivity.
  Qed.

  Lemma finish_wait1 : forall st a, Inv st -> ctl st = PcWait1 a -> done_by_timers st.
  Proof.
    intros [n c l] a HI Hc. cbn in Hc. subst c. pose proof HI as HI0. unfold Inv in HI. cbn [now ctl procs] in HI. destruct HI as (?&?&?&?).
    assert (R : run os T lat (mkState n (PcWait1 a) l) [Tick (a + d1 - n); CExpire]
                = Some (mkState (n + (a + d1 - n)) (PcWait2 (n + (a + d1 - n)) false) (os_kill os kill_group sig2 l))).
    { cbn [run step now ctl procs]. cbv zeta. rewrite (leb_true (n + (a + d1 - n)) (a + d1 + lat)) by lia.
      cbn [now ctl procs]. rewrite (leb_true (a + d1) (n + (a + d1 - n))) by lia. reflexivity. }
    eapply extend_timers; [|exact R|]; [reflexivity|].
    eapply finish_wait2; [eapply run_inv; [exact HI0|exact R]|reflexivity].
  Qed.

  Lemma finish_select : forall st, Inv st -> ctl st = PcSelect -> done_by_timers st.
  Proof.
    intros [n c l] HI Hc. cbn in Hc. subst c. pose proof HI as HI0. unfold Inv in HI. cbn [now ctl procs] in HI.
    assert (R : run os T lat (mkState n PcSelect l) [Tick (T - n); CDeadline]
                = Some (mkState (n + (T - n)) (PcWait1 (n + (T - n))) (os_kill os kill_group sig1 l))).
    { cbn [run step now ctl procs]. cbv zeta. rewrite (leb_true (n + (T - n)) (T + lat)) by lia.
      cbn [now ctl procs]. rewrite (leb_true T (n + (T - n))) by lia. reflexivity. }
    eapply extend_timers; [|exact R|]; [reflexivity|].
    eapply finish_wait1; [eapply run_inv; [exact HI0|exact R]|reflexivity].
  Qed.

  Lemma finish_any : forall st, Inv st -> done_by_timers st.
  Proof.
    intros st HI. destruct (ctl st) as [| |a|a k|a k|t e] eqn:Ec.
    - destruct st as [n c l]. cbn in Ec. subst c.
      assert (R : run os T lat (mkState n PcInit l) [CStart true no_sandbox] = Some (mkState n PcSelect [start_proc no_sandbox])).
      { cbn [run step now ctl procs]. rewrite start_enabled. reflexivity. }
      eapply extend_timers; [|exact R|]; [reflexivity|].
      eapply finish_select; [eapply run_inv; [exact HI|exact R]|reflexivity].
    - eapply finish_select; eassumption.
    - eapply finish_wait1; eassumption.
    - eapply finish_wait2; eassumption.
    - unfold Inv in HI. rewrite Ec in HI. contradiction.
    - exists [], st, t, e. split; [reflexivity|]. split; [reflexivity|exact Ec].
  Qed.

  Lemma report_needs_no_eof : forall tr st, run os T lat init tr = Some st ->
    exists tr' st' t e, forallb timer_only tr' = true /\ run os T lat st tr' = Some st'
                        /\ ctl st' = PcRet t e /\ t <= bound.
  Proof.
    intros tr st H. destruct (finish_any st (reachable_inv _ _ H)) as (tr' & st' & t & e & Ht & H' & Hc).
    exists tr', st', t, e. split; [exact Ht|]. split; [exact H'|]. split; [exact Hc|].
    assert (Hr : run os T lat init (tr ++ tr') = Some st') by (rewrite run_app, H; exact H').
    pose proof (reported_by_bound _ _ Hr) as Hb. rewrite Hc in Hb. exact Hb.
  Qed.

  (* and while any live process - escaped from the group or not - has the pipes open, cmd.Wait()
     has not returned: nothing is ever sent on ch *)
  Lemma pipe_holder_blocks_wait : forall l p, In p l -> alive p = true -> holds_pipe p = true -> os_wait_done os l = false.
  Proof.
    intros l p Hin Ha Hh. destruct (os_wait_done os l) eqn:E; [|reflexivity]. apply os_wait_done_sound in E.
    destruct E as [_ Hq]. rewrite Forall_forall in Hq. specialize (Hq p Hin Ha). congruence.
  Qed.
End Protocol.

(* ---- the concrete OS model satisfies the three hypotheses ---- *)
Lemma linux_sigkill_reaches_group : forall l, G (os_kill linux true sigkill l).
Proof.
  intros l. unfold G. cbn. unfold linux_kill. apply Forall_forall. intros q Hq. apply in_map_iff in Hq.
  destruct Hq as (p & Hp & _). subst q. unfold Pg. destruct (in_group p) eqn:Eg, (alive p) eqn:Ea; cbn; try rewrite Eg; try rewrite Ea;
    intros; try discriminate; try congruence. apply Bool.orb_true_r.
Qed.

Lemma linux_wait_done_sound : forall l, os_wait_done linux l = true -> Quiet l.
Proof.
  intros l H. cbn in H. unfold linux_wait_done in H. destruct l as [|m r]; [discriminate|].
  apply Bool.andb_true_iff in H. destruct H as [Hm Hall]. split.
  - cbn. destruct (alive m); [discriminate|reflexivity].
  - rewrite forallb_forall in Hall. apply Forall_forall. intros p Hin. specialize (Hall p Hin). unfold Pq.
    intros Ha. rewrite Ha in Hall. destruct (holds_pipe p); [discriminate|reflexivity].
Qed.

Lemma linux_kill_keeps_pipes : forall g sg l, Forall Ph l -> Forall Ph (os_kill linux g sg l).
Proof.
  intros g sg l H. cbn. unfold linux_kill. destruct g.
  - apply Forall_forall. intros q Hq. apply in_map_iff in Hq. destruct Hq as (p & Hp & Hin). subst q.
    rewrite Forall_forall in H. specialize (H p Hin). unfold Ph in *. destruct (in_group p && alive p); cbn; assumption.
  - destruct l as [|m r]; [constructor|]. inversion H; subst. constructor; [|assumption].
    unfold Ph in *. destruct (alive m); cbn; assumption.
Qed.

Lemma linux_kill_keeps_group : forall g sg l, Forall Pin l -> Forall Pin (os_kill linux g sg l).
Proof.
  intros g sg l H. cbn. unfold linux_kill. destruct g.
  - apply Forall_forall. intros q Hq. apply in_map_iff in Hq. destruct Hq as (p & Hp & Hin). subst q.
    rewrite Forall_forall in H. specialize (H p Hin). unfold Pin in *. destruct (in_group p && alive p); cbn; assumption.
  - destruct l as [|m r]; [constructor|]. inversion H; subst. constructor; [|assumption].
    unfold Pin in *. destruct (alive m); cbn; assumption.
Qed.

(* ---- the witness against the full statement ---- *)
Definition witness_trace : list event := [CStart true no_sandbox; EFork 0; EClosePipe 1; Tick 5; EExit 0; CChan; Tick 100000].

Lemma witness_runs :
  exists st, run linux 1000 0 init witness_trace = Some st /\ ctl st = PcRet 5 ErrNone
             /\ In (mkProc true true false false false false) (procs st).
Proof. eexists. split; [vm_compute; reflexivity|]. split; [reflexivity|]. cbn. right. left. reflexivity. Qed.

Lemma witness_not_stopped :
  exists st p, run linux 1000 0 init witness_trace = Some st /\ ctl st = PcRet 5 ErrNone /\ now st = 100005
               /\ In p (procs st) /\ in_group p = true /\ alive p = true /\ got_kill p = false.
Proof.
  destruct witness_runs as (st & Hr & Hc & Hin). exists st, (mkProc true true false false false false).
  repeat split; try assumption. revert Hr. vm_compute. intros H. inversion H; subst. reflexivity.
Qed.

Lemma bound_1030 : forall T lat, bound T lat = T + 1030 + 3 * lat.
Proof. intros. unfold bound. pose proof waits_sum. lia. Qed.
