(* C09 - proofs about the path-hash stream model. *)
From PlzV Require Import Base.Harness Base.StrFacts Model.C09 Gen.PathHashProg.
From Coq Require Import Lia List.

(* ---- ties to the regenerated emit programs (Gen/PathHashProg.v): every later proof goes
        through these, so a change of what the source writes to the hash breaks them ---- *)
Lemma gen_marker : marker = [2%N].
Proof. reflexivity. Qed.
Lemma gen_top_file c : run top_file c [] = c.
Proof. cbn. apply app_nil_r. Qed.
Lemma gen_top_link t : run top_link_in_repo [] t = 2%N :: t.
Proof. cbn. rewrite app_nil_r. reflexivity. Qed.
Lemma gen_walk_file c : run walk_file c [] = c.
Proof. cbn. apply app_nil_r. Qed.
Lemma gen_walk_link t : run walk_link [] t = [2%N].
Proof. reflexivity. Qed.
Lemma gen_walk_dir : run walk_dir [] [] = [].
Proof. reflexivity. Qed.
Lemma gen_walk_sorted : walk_sorted = true.
Proof. reflexivity. Qed.
Lemma gen_walk_no_follow : walk_follows_links = false.
Proof. reflexivity. Qed.

(* ---- induction over trees ---- *)
Section node_induction.
  Variable P : node -> Prop.
  Hypothesis HF : forall c, P (File c).
  Hypothesis HL : forall t, P (Link t).
  Hypothesis HD : forall es, Forall (fun e => P (snd e)) es -> P (Dir es).
  Fixpoint node_ind' (n : node) : P n :=
    match n with
    | File c => HF c
    | Link t => HL t
    | Dir es =>
        HD es ((fix go (l : list (str * node)) : Forall (fun e => P (snd e)) l :=
                  match l with
                  | [] => Forall_nil _
                  | e :: r => Forall_cons e (node_ind' (snd e)) (go r)
                  end) es)
    end.
End node_induction.

(* ---- the sort only looks at names ---- *)
Definition vmap {A B} (g : A -> B) (l : list (str * A)) : list (str * B) :=
  map (fun e => (fst e, g (snd e))) l.

Lemma insert_vmap {A B} (g : A -> B) x l :
  insert (fst x, g (snd x)) (vmap g l) = vmap g (insert x l).
Proof.
  induction l as [|y l IH]; cbn [vmap map insert fst snd]; [reflexivity|].
  destruct (str_ltb (fst x) (fst y)); cbn [map fst snd]; [reflexivity|].
  f_equal. exact IH.
Qed.

Lemma sort_vmap {A B} (g : A -> B) l : sort_by_name (vmap g l) = vmap g (sort_by_name l).
Proof.
  induction l as [|x l IH]; cbn [vmap map sort_by_name fold_right]; [reflexivity|].
  fold (vmap g l). fold (sort_by_name (vmap g l)). fold (sort_by_name l).
  rewrite IH. apply (insert_vmap g x).
Qed.

Lemma map_ext_Forall {A B} (f g : A -> B) l : Forall (fun x => f x = g x) l -> map f l = map g l.
Proof. induction 1 as [|x l Hx _ IH]; cbn; [reflexivity|]. rewrite Hx, IH. reflexivity. Qed.

Lemma bytes_of_app a b : bytes_of (a ++ b) = bytes_of a ++ bytes_of b.
Proof. unfold bytes_of. apply flat_map_app. Qed.

Lemma bytes_of_concat_vmap (l : list (str * list (option str))) :
  concat (map snd (vmap bytes_of l)) = bytes_of (concat (map snd l)).
Proof.
  induction l as [|x l IH]; cbn [vmap map concat snd]; [reflexivity|].
  rewrite bytes_of_app. f_equal. exact IH.
Qed.

(* ---- the stream is the byte image of the leaf sequence ---- *)
Lemma walk_bytes n : walk n = bytes_of (dleaves n).
Proof.
  induction n as [c|t|es IH] using node_ind'.
  - cbn [walk dleaves]. rewrite gen_walk_file. cbn. rewrite app_nil_r. reflexivity.
  - cbn [walk dleaves]. rewrite gen_walk_link. reflexivity.
  - cbn [walk dleaves]. rewrite gen_walk_dir. cbn [app]. unfold visit_order. rewrite gen_walk_sorted.
    rewrite (map_ext_Forall (fun e => (fst e, walk (snd e)))
                            (fun e => (fst e, bytes_of (dleaves (snd e)))) es).
    2:{ eapply Forall_impl; [|exact IH]. cbn. intros e He. rewrite He. reflexivity. }
    change (map (fun e => (fst e, bytes_of (dleaves (snd e)))) es)
      with (map (fun e : str * node => (fst e, bytes_of (dleaves (snd e)))) es).
    replace (map (fun e : str * node => (fst e, bytes_of (dleaves (snd e)))) es)
      with (vmap bytes_of (map (fun e : str * node => (fst e, dleaves (snd e))) es)).
    2:{ unfold vmap. rewrite map_map. reflexivity. }
    rewrite sort_vmap. apply bytes_of_concat_vmap.
Qed.

Lemma stream_bytes n : stream n = bytes_of (tleaves n).
Proof.
  destruct n as [c|t|es]; cbn [stream tleaves].
  - rewrite gen_top_file. cbn. rewrite app_nil_r. reflexivity.
  - rewrite gen_top_link. cbn. rewrite app_nil_r. reflexivity.
  - apply walk_bytes.
Qed.

(* ---- byte runs between markers ---- *)
Definition join (p : str * list str) : str := fst p ++ flat_map (fun r => 2%N :: r) (snd p).
Definition no2 (c : str) : Prop := existsb (N.eqb 2) c = false.

Lemma join_segs ls : bytes_of ls = join (segs ls).
Proof.
  induction ls as [|[c|] ls IH]; cbn [bytes_of flat_map segs leaf_bytes].
  - reflexivity.
  - fold (bytes_of ls). rewrite IH. destruct (segs ls) as [f rs]. unfold join; cbn [fst snd].
    apply app_assoc.
  - fold (bytes_of ls). rewrite IH. destruct (segs ls) as [f rs]. unfold join; cbn [fst snd flat_map app].
    reflexivity.
Qed.

Lemma no2_app a b : no2 (a ++ b) <-> no2 a /\ no2 b.
Proof. unfold no2. rewrite existsb_app, orb_false_iff. reflexivity. Qed.

Lemma segs_no2 ls : has2 ls = false -> no2 (fst (segs ls)) /\ Forall no2 (snd (segs ls)).
Proof.
  induction ls as [|[c|] ls IH]; cbn [has2 existsb segs].
  - intros _. split; [reflexivity|constructor].
  - fold (has2 ls). rewrite orb_false_iff. intros [Hc Hls]. destruct (IH Hls) as [Hf Hr].
    destruct (segs ls) as [f rs]; cbn [fst snd] in *. split; [apply no2_app; split; assumption|assumption].
  - fold (has2 ls). cbn [orb]. intros Hls. destruct (IH Hls) as [Hf Hr].
    destruct (segs ls) as [f rs]; cbn [fst snd] in *. split; [reflexivity|constructor; assumption].
Qed.

Definition starts2 (x : str) : Prop := x = [] \/ exists r, x = 2%N :: r.

Lemma split_at_marker f1 : forall f2 x y,
  no2 f1 -> no2 f2 -> starts2 x -> starts2 y -> f1 ++ x = f2 ++ y -> f1 = f2 /\ x = y.
Proof.
  induction f1 as [|a f1 IH]; intros [|b f2] x y H1 H2 Hx Hy E; cbn [app] in E.
  - split; [reflexivity|exact E].
  - exfalso. destruct Hx as [->|[r ->]]; [discriminate|]. injection E as <- _.
    unfold no2 in H2. cbn in H2. discriminate.
  - exfalso. destruct Hy as [->|[r ->]]; [discriminate|]. injection E as -> _.
    unfold no2 in H1. cbn in H1. discriminate.
  - injection E as -> E. unfold no2 in H1, H2. cbn [existsb] in H1, H2.
    apply orb_false_iff in H1 as [_ H1]. apply orb_false_iff in H2 as [_ H2].
    destruct (IH f2 x y H1 H2 Hx Hy E) as [-> ->]. split; reflexivity.
Qed.

Lemma starts2_runs rs : starts2 (flat_map (fun r => 2%N :: r) rs).
Proof. destruct rs as [|r rs]; [left; reflexivity|right; cbn; eexists; reflexivity]. Qed.

Lemma join_inj r1 : forall f1 f2 r2,
  no2 f1 -> no2 f2 -> Forall no2 r1 -> Forall no2 r2 -> join (f1, r1) = join (f2, r2) -> f1 = f2 /\ r1 = r2.
Proof.
  induction r1 as [|s1 r1 IH]; intros f1 f2 r2 H1 H2 HR1 HR2 E; unfold join in E; cbn [fst snd] in E.
  - destruct (split_at_marker f1 f2 _ _ H1 H2 (starts2_runs []) (starts2_runs r2) E) as [-> E'].
    destruct r2; [split; reflexivity|discriminate].
  - destruct (split_at_marker f1 f2 _ _ H1 H2 (starts2_runs (s1 :: r1)) (starts2_runs r2) E) as [-> E'].
    destruct r2 as [|s2 r2]; [discriminate|]. cbn [flat_map app] in E'. injection E' as E'.
    inversion HR1 as [|? ? Hs1 HR1']; subst. inversion HR2 as [|? ? Hs2 HR2']; subst.
    destruct (IH s1 s2 r2 Hs1 Hs2 HR1' HR2' E') as [-> ->]. split; reflexivity.
Qed.

Lemma segs_eqb_refl p : segs_eqb p p = true.
Proof.
  unfold segs_eqb. rewrite str_eqb_refl. cbn.
  destruct (list_eqb_spec str_eqb str_eqb_spec (snd p) (snd p)); congruence.
Qed.

Lemma segs_eqb_eq p q : segs_eqb p q = true -> p = q.
Proof.
  destruct p as [f r], q as [g t]. unfold segs_eqb; cbn [fst snd]. rewrite andb_true_iff. intros [Hf Hr].
  apply str_eqb_eq in Hf. destruct (list_eqb_spec str_eqb str_eqb_spec r t); congruence.
Qed.

(* without \x02 bytes in any content, equal streams have equal byte runs *)
Lemma bytes_eq_segs_eq la lb :
  has2 la = false -> has2 lb = false -> bytes_of la = bytes_of lb -> segs la = segs lb.
Proof.
  intros Ha Hb E. rewrite !join_segs in E.
  destruct (segs_no2 la Ha) as [Hfa Hra]. destruct (segs_no2 lb Hb) as [Hfb Hrb].
  destruct (segs la) as [fa ra], (segs lb) as [fb rb]; cbn [fst snd] in *.
  destruct (join_inj ra fa fb rb Hfa Hfb Hra Hrb E) as [-> ->]. reflexivity.
Qed.

(* ---- completeness of the classifier: every collision of distinct trees is in a known class ---- *)
Lemma classify_dirs_complete a b : stream a = stream b -> classify_dirs a b <> None.
Proof.
  intros E. unfold classify_dirs.
  destruct (is_dir a && is_dir b && eq_nameless true a b); [discriminate|].
  destruct (is_dir a && is_dir b && eq_nameless false a b); [discriminate|].
  destruct (negb (is_dir a && is_dir b) && segs_eqb (segs (tleaves a)) (segs (tleaves b))); [discriminate|].
  destruct (list_eqb leaf_eqb (tleaves a) (tleaves b)); [discriminate|].
  destruct (segs_eqb (segs (tleaves a)) (segs (tleaves b))) eqn:Hsegs; [discriminate|].
  rewrite E, str_eqb_refl, andb_true_r.
  destruct (has2 (tleaves a)) eqn:Ha; [discriminate|].
  destruct (has2 (tleaves b)) eqn:Hb; [discriminate|].
  exfalso. rewrite !stream_bytes in E.
  rewrite (bytes_eq_segs_eq _ _ Ha Hb E), segs_eqb_refl in Hsegs. discriminate.
Qed.

Lemma collision_classified a b : a <> b -> stream a = stream b -> defect_class a b <> None.
Proof.
  intros Hne E. destruct a as [c|t|es], b as [c'|t'|es']; cbn [defect_class];
    try (apply classify_dirs_complete; exact E).
  - exfalso. apply Hne. cbn [stream] in E. rewrite !gen_top_file in E. congruence.
  - cbn [stream] in E. rewrite gen_top_file, gen_top_link in E. rewrite E, str_eqb_refl. discriminate.
  - cbn [stream] in E. rewrite gen_top_file, gen_top_link in E. rewrite <- E, str_eqb_refl. discriminate.
  - exfalso. apply Hne. cbn [stream] in E. rewrite !gen_top_link in E. congruence.
Qed.

Section Hash.
  Variable H : str -> str.
  Hypothesis H_inj : forall x y, H x = H y -> x = y.

  Lemma unclassified_pairs_hash_apart a b :
    wf a = true -> wf b = true -> a <> b -> defect_class a b = None -> H (stream a) <> H (stream b).
  Proof.
    intros _ _ Hne Hcls E. apply (collision_classified a b Hne (H_inj _ _ E)). exact Hcls.
  Qed.
End Hash.

(* ---- canonical presentations: the sort is the identity ---- *)
Lemma sort_sorted {A} (l : list (str * A)) : strictly_sorted (map fst l) = true -> sort_by_name l = l.
Proof.
  induction l as [|x l IH]; cbn [map strictly_sorted sort_by_name fold_right]; [reflexivity|].
  fold (sort_by_name l). rewrite andb_true_iff. intros [Hhd Htl]. rewrite (IH Htl).
  destruct l as [|y r]; cbn [insert map] in *; [reflexivity|]. rewrite Hhd. reflexivity.
Qed.

Lemma wf_dir es : wf (Dir es) = true ->
  strictly_sorted (map fst es) = true /\ Forall (fun e => wf (snd e) = true) es.
Proof.
  cbn [wf]. rewrite andb_true_iff. intros [Hs Hall]. split; [exact Hs|].
  rewrite forallb_forall in Hall. apply Forall_forall. intros e He.
  specialize (Hall e He). apply andb_true_iff in Hall as [_ Hw]. exact Hw.
Qed.

Lemma dleaves_wf es : strictly_sorted (map fst es) = true ->
  dleaves (Dir es) = flat_map (fun e => dleaves (snd e)) es.
Proof.
  intros Hs. cbn [dleaves]. rewrite sort_sorted.
  - rewrite map_map. cbn [snd]. rewrite flat_map_concat_map. reflexivity.
  - rewrite map_map. cbn [fst]. exact Hs.
Qed.

Lemma walk_wf es : strictly_sorted (map fst es) = true ->
  walk (Dir es) = flat_map (fun e => walk (snd e)) es.
Proof.
  intros Hs. cbn [walk]. rewrite gen_walk_dir. cbn [app]. unfold visit_order. rewrite gen_walk_sorted, sort_sorted.
  - rewrite map_map. cbn [snd]. rewrite flat_map_concat_map. reflexivity.
  - rewrite map_map. cbn [fst]. exact Hs.
Qed.

(* ---- soundness of the classifier: every recognised pair really collides ---- *)
Lemma eq_nameless_leaves ct a : forall b,
  wf a = true -> wf b = true -> eq_nameless ct a b = true -> dleaves a = dleaves b.
Proof.
  induction a as [c|t|es IH] using node_ind'; intros [c'|t'|es'] Ha Hb E; cbn [eq_nameless] in E; try discriminate.
  - apply str_eqb_eq in E. subst. reflexivity.
  - reflexivity.
  - destruct (wf_dir es Ha) as [Hs Hw]. destruct (wf_dir es' Hb) as [Hs' Hw'].
    rewrite (dleaves_wf es Hs), (dleaves_wf es' Hs'). clear Ha Hb Hs Hs'.
    revert es' Hw' E. induction es as [|[k x] es IHes]; intros [|[k' y] es'] Hw' E; try discriminate.
    + reflexivity.
    + apply andb_true_iff in E as [Exy Erest].
      inversion IH as [|? ? IHx IHrest]; subst. inversion Hw as [|? ? Hwx Hwrest]; subst.
      inversion Hw' as [|? ? Hwy Hwrest']; subst. cbn [flat_map snd] in *.
      rewrite (IHx y Hwx Hwy Exy). f_equal. apply IHes; assumption.
Qed.

Lemma leaf_eqb_spec x y : reflect (x = y) (leaf_eqb x y).
Proof.
  destruct x as [c|], y as [d|]; cbn; try (constructor; congruence).
  destruct (str_eqb_spec c d); constructor; congruence.
Qed.

Lemma classify_dirs_sound a b d :
  wf a = true -> wf b = true -> classify_dirs a b = Some d -> stream a = stream b.
Proof.
  intros Ha Hb. unfold classify_dirs.
  assert (Hnl : forall ct, is_dir a && is_dir b && eq_nameless ct a b = true -> stream a = stream b).
  { intros ct Hc. apply andb_true_iff in Hc as [Hd E]. apply andb_true_iff in Hd as [Hda Hdb].
    destruct a as [| |es]; try discriminate. destruct b as [| |es']; try discriminate.
    cbn [stream]. rewrite !walk_bytes. f_equal. exact (eq_nameless_leaves ct _ _ Ha Hb E). }
  assert (Hsg : segs_eqb (segs (tleaves a)) (segs (tleaves b)) = true -> stream a = stream b).
  { intros Hs. rewrite !stream_bytes, !join_segs. f_equal. exact (segs_eqb_eq _ _ Hs). }
  destruct (is_dir a && is_dir b && eq_nameless true a b) eqn:C1; [intros _; exact (Hnl true C1)|].
  destruct (is_dir a && is_dir b && eq_nameless false a b) eqn:C2; [intros _; exact (Hnl false C2)|].
  destruct (negb (is_dir a && is_dir b) && segs_eqb (segs (tleaves a)) (segs (tleaves b))) eqn:C3.
  { intros _. apply andb_true_iff in C3 as [_ C3]. exact (Hsg C3). }
  destruct (list_eqb_spec leaf_eqb leaf_eqb_spec (tleaves a) (tleaves b)) as [C4|_].
  { intros _. rewrite !stream_bytes, C4. reflexivity. }
  destruct (segs_eqb (segs (tleaves a)) (segs (tleaves b))) eqn:C5; [intros _; exact (Hsg eq_refl)|].
  destruct ((has2 (tleaves a) || has2 (tleaves b)) && str_eqb (stream a) (stream b)) eqn:C6; [|discriminate].
  intros _. apply andb_true_iff in C6 as [_ C6]. apply str_eqb_eq. exact C6.
Qed.

Lemma classified_collides a b d :
  wf a = true -> wf b = true -> defect_class a b = Some d -> stream a = stream b.
Proof.
  intros Ha Hb. destruct a as [c|t|es], b as [c'|t'|es']; cbn [defect_class];
    try (apply classify_dirs_sound; assumption); try discriminate.
  - destruct (str_eqb_spec c (2%N :: t')) as [->|]; [|discriminate]. intros _.
    cbn [stream]. rewrite gen_top_file, gen_top_link. reflexivity.
  - destruct (str_eqb_spec c' (2%N :: t)) as [->|]; [|discriminate]. intros _.
    cbn [stream]. rewrite gen_top_file, gen_top_link. reflexivity.
Qed.

(* ---- local sensitivity: one edit / one added entry, at any depth, changes the stream ---- *)
Lemma wf_dir_mid es1 k n es2 : wf (Dir (es1 ++ (k, n) :: es2)) = true -> wf n = true.
Proof.
  intros Hw. destruct (wf_dir _ Hw) as [_ Hall]. rewrite Forall_forall in Hall.
  apply (Hall (k, n)). apply in_or_app. right. left. reflexivity.
Qed.

Lemma below_walk (R : node -> node -> Prop) :
  (forall a b, R a b -> wf a = true -> wf b = true -> walk a <> walk b) ->
  forall a b, below R a b -> wf a = true -> wf b = true -> walk a <> walk b.
Proof.
  intros HR a b Hab. induction Hab as [a b Hr|es1 k n n' es2 _ IH]; intros Ha Hb; [exact (HR a b Hr Ha Hb)|].
  destruct (wf_dir _ Ha) as [Hs _]. destruct (wf_dir _ Hb) as [Hs' _].
  rewrite (walk_wf _ Hs), (walk_wf _ Hs'), !flat_map_app. cbn [flat_map snd].
  intros E. apply app_inv_head in E. apply app_inv_tail in E.
  exact (IH (wf_dir_mid _ _ _ _ Ha) (wf_dir_mid _ _ _ _ Hb) E).
Qed.

Lemma strictly_sorted_remove (l1 : list str) x l2 :
  strictly_sorted (l1 ++ x :: l2) = true -> strictly_sorted (l1 ++ l2) = true.
Proof.
  induction l1 as [|a l1 IH]; cbn [app].
  - cbn [strictly_sorted]. rewrite andb_true_iff. intros [_ Hr]. exact Hr.
  - intros Hs. cbn [strictly_sorted] in Hs. apply andb_true_iff in Hs as [Hhd Htl].
    cbn [strictly_sorted]. rewrite (IH Htl), andb_true_r.
    destruct l1 as [|b l1]; cbn [app] in *; [|exact Hhd].
    destruct l2 as [|c l2]; [reflexivity|].
    cbn [strictly_sorted] in Htl. apply andb_true_iff in Htl as [Hxc _].
    unfold str_ltb in *. destruct (str_cmp a x) eqn:Eax; try discriminate.
    destruct (str_cmp x c) eqn:Exc; try discriminate.
    rewrite (str_cmp_lt_trans a x c Eax Exc). reflexivity.
Qed.

Lemma change_walk a b :
  file_edit a b \/ entry_added a b -> wf a = true -> wf b = true -> walk a <> walk b.
Proof.
  intros [Hfe|Hadd] Ha Hb.
  - destruct Hfe as [c c' Hne]. cbn [walk]. rewrite !gen_walk_file. exact Hne.
  - assert (Hgen : forall es1 k n es2, wf (Dir (es1 ++ (k, n) :: es2)) = true -> walk n <> [] ->
                   walk (Dir (es1 ++ es2)) <> walk (Dir (es1 ++ (k, n) :: es2))).
    { intros es1 k n es2 Hw Hn. destruct (wf_dir _ Hw) as [Hs _].
      assert (Hs0 : strictly_sorted (map fst (es1 ++ es2)) = true).
      { rewrite map_app in *. cbn [map] in Hs. exact (strictly_sorted_remove _ _ _ Hs). }
      rewrite (walk_wf _ Hs0), (walk_wf _ Hs), !flat_map_app. cbn [flat_map snd].
      intros E. apply app_inv_head in E. apply (f_equal (@length N)) in E. rewrite app_length in E.
      destruct (walk n); [apply Hn; reflexivity|cbn [length] in E; lia]. }
    destruct Hadd as [es1 k t es2|es1 k x c es2]; apply Hgen; try exact Hb.
    + cbn [walk]. rewrite gen_walk_link. discriminate.
    + cbn [walk]. rewrite gen_walk_file. discriminate.
Qed.

Lemma single_change_stream a b :
  single_change a b -> wf a = true -> wf b = true -> stream a <> stream b.
Proof.
  intros Hc Ha Hb.
  assert (Hw : walk a <> walk b) by exact (below_walk _ change_walk a b Hc Ha Hb).
  assert (Hsa : stream a = walk a /\ stream b = walk b).
  { inversion Hc as [x y [Hfe|Hadd]|es1 k n n' es2 Hn]; subst.
    - destruct Hfe. cbn [stream walk]. rewrite ?gen_top_file, ?gen_walk_file. split; reflexivity.
    - destruct Hadd; split; reflexivity.
    - split; reflexivity. }
  destruct Hsa as [-> ->]. exact Hw.
Qed.

Section HashLocal.
  Variable H : str -> str.
  Hypothesis H_inj : forall x y, H x = H y -> x = y.

  Lemma single_change_hash a b :
    wf a = true -> wf b = true -> single_change a b -> H (stream a) <> H (stream b).
  Proof. intros Ha Hb Hc E. exact (single_change_stream a b Hc Ha Hb (H_inj _ _ E)). Qed.
End HashLocal.

(* ---- paths that are not directories: injective up to the marker alias ---- *)
Section HashFlat.
  Variable H : str -> str.
  Hypothesis H_inj : forall x y, H x = H y -> x = y.

  Lemma nondir_injective :
    (forall c c', c <> c' -> H (stream (File c)) <> H (stream (File c')))
    /\ (forall t t', t <> t' -> H (stream (Link t)) <> H (stream (Link t')))
    /\ (forall c t, c <> 2%N :: t -> H (stream (File c)) <> H (stream (Link t))).
  Proof.
    repeat split; intros x y Hne E; apply H_inj in E; cbn [stream] in E;
      rewrite ?gen_top_file, ?gen_top_link in E; congruence.
  Qed.

  Lemma classified_hash_equal a b d :
    wf a = true -> wf b = true -> defect_class a b = Some d -> H (stream a) = H (stream b).
  Proof. intros Ha Hb Hd. f_equal. exact (classified_collides a b d Ha Hb Hd). Qed.
End HashFlat.

(* ---- the refutation: concrete collisions, one per class (all replayed on the real hasher by
        harness/cmd/c09) ---- *)
Definition collides (a b : node) (d : defect) : Prop :=
  wf a = true /\ wf b = true /\ a <> b /\ stream a = stream b /\ defect_class a b = Some d.

Ltac collision := unfold collides; repeat split; try (vm_compute; reflexivity); discriminate.

Lemma witness_rename :
  collides (Dir [(s "a", File (s "x"))]) (Dir [(s "b", File (s "x"))]) DirNames.
Proof. collision. Qed.
Lemma witness_boundary :
  collides (Dir [(s "a", File (s "xy"))]) (Dir [(s "a", File (s "x")); (s "b", File (s "y"))]) FileBoundaries.
Proof. collision. Qed.
Lemma witness_empty_file : collides (Dir []) (Dir [(s "e", File [])]) FileBoundaries.
Proof. collision. Qed.
Lemma witness_link_target :
  collides (Dir [(s "l", Link (s "p"))]) (Dir [(s "l", Link (s "q"))]) DirLinkTarget.
Proof. collision. Qed.
Lemma witness_empty_dir : collides (Dir []) (Dir [(s "d", Dir [])]) DirNesting.
Proof. collision. Qed.
Lemma witness_move_into_subdir :
  collides (Dir [(s "a", File (s "x"))]) (Dir [(s "a", Dir [(s "b", File (s "x"))])]) DirNesting.
Proof. collision. Qed.
Lemma witness_file_vs_dir : collides (File (s "x")) (Dir [(s "a", File (s "x"))]) RootKind.
Proof. collision. Qed.
Lemma witness_link_vs_dir :
  collides (Link (s "x")) (Dir [(s "a", Link (s "q")); (s "b", File (s "x"))]) RootKind.
Proof. collision. Qed.
Lemma witness_marker_top : collides (Link (s "t")) (File (2%N :: s "t")) MarkerAlias.
Proof. collision. Qed.
Lemma witness_marker_in_dir :
  collides (Dir [(s "a", Link (s "t"))]) (Dir [(s "a", File [2%N])]) MarkerAlias.
Proof. collision. Qed.

Lemma full_statement_refuted :
  ~ (forall (H : str -> str), (forall x y, H x = H y -> x = y) ->
     forall a b, wf a = true -> wf b = true -> a <> b -> H (stream a) <> H (stream b)).
Proof.
  intros S. destruct witness_rename as (Ha & Hb & Hne & E & _).
  exact (S (fun x => x) (fun _ _ e => e) _ _ Ha Hb Hne E).
Qed.
