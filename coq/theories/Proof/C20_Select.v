(* C20 - proofs about pattern selection: Includes, Matches, validateSandbox, the experimental tree,
   exclusion and the expansion of pseudo-targets.  Everything here is about the conditions gotrans
   translated from the source (Gen/LabelTables.v), not about hand-copied ones. *)
From Coq Require Import String.
From PlzV Require Import Base.Harness Base.StrFacts Gen.LabelTables Model.C20.
From Coq Require Import Lia List.
Local Open Scope list_scope.

(* ---- the documented selection rule ------------------------------------------------------------------------ *)

(* q is package p, or a package below the directory p: p followed by '/' and more.  The root contains all. *)
Definition under (p q : str) : Prop := p = [] \/ q = p \/ exists r, q = p ++ 47%N :: r.

Definition dots : str := lit "...".
Definition all_ : str := lit "all".

(* what the pattern //p:n selects among labels //q:m *)
Definition selects (p n q m : str) : Prop :=
  (n = dots /\ under p q) \/ (n = all_ /\ q = p) \/ (n <> dots /\ n <> all_ /\ q = p /\ m = n).

(* ---- has_prefix ----------------------------------------------------------------------------------------- *)

Lemma has_prefix_spec pre x : LabelTables.has_prefix pre x = true <-> exists r, x = pre ++ r.
Proof.
  revert x; induction pre as [|a pre IH]; intros x; cbn [LabelTables.has_prefix].
  - split; [intros _; exists x; reflexivity | reflexivity].
  - destruct x as [|b x].
    + split; [discriminate | intros [r Hr]; discriminate].
    + rewrite andb_true_iff, N.eqb_eq, IH. split.
      * intros [-> [r ->]]. exists r. reflexivity.
      * intros [r Hr]. injection Hr as -> ->. split; [reflexivity | exists r; reflexivity].
Qed.

Lemma has_prefix_slash p q : LabelTables.has_prefix (p ++ s "/") q = true <-> exists r, q = p ++ 47%N :: r.
Proof.
  rewrite has_prefix_spec. change (s "/") with [47%N].
  split; intros [r ->]; exists r; rewrite <- app_assoc; reflexivity.
Qed.

Lemma is_all_sub_iff l : is_all_sub l = true <-> l_name l = dots.
Proof. unfold is_all_sub. apply str_eqb_eq. Qed.
Lemma is_all_targets_iff l : is_all_targets l = true <-> l_name l = all_.
Proof. unfold is_all_targets. apply str_eqb_eq. Qed.

Lemma dots_not_all : dots <> all_.
Proof. discriminate. Qed.

(* ---- the three translated conditions ------------------------------------------------------------------------ *)

Lemma includes_guard_spec lp tp lall :
  includes_guard_cond lp tp lall = true <-> (lp = [] /\ lall = true) \/ tp = lp \/ exists r, tp = lp ++ 47%N :: r.
Proof.
  unfold includes_guard_cond.
  rewrite !orb_true_iff, andb_true_iff, !str_eqb_eq, has_prefix_slash. change (s "") with (@nil N). tauto.
Qed.

Lemma matches_allsub_spec lp op :
  matches_allsub_cond lp op = true <-> lp = s "." \/ under lp op.
Proof.
  unfold matches_allsub_cond, under.
  rewrite !orb_true_iff, !str_eqb_eq, has_prefix_slash. change (s "") with (@nil N). tauto.
Qed.

Lemma sandbox_expdir_spec pkg dir :
  sandbox_expdir_cond pkg dir = true <-> pkg = dir \/ exists r, pkg = dir ++ 47%N :: r.
Proof.
  unfold sandbox_expdir_cond. rewrite orb_true_iff, str_eqb_eq, has_prefix_slash. tauto.
Qed.

(* for a directory that is not the root this is exactly `under` *)
Lemma sandbox_expdir_under pkg dir : dir <> [] -> (sandbox_expdir_cond pkg dir = true <-> under dir pkg).
Proof. intros Hd. rewrite sandbox_expdir_spec. unfold under. tauto. Qed.

(* ---- Includes ---------------------------------------------------------------------------------------------- *)

Theorem includes_spec pat that :
  includes pat that = true <-> selects (l_pkg pat) (l_name pat) (l_pkg that) (l_name that).
Proof.
  unfold includes, selects.
  destruct (includes_guard_cond (l_pkg pat) (l_pkg that) (is_all_sub pat)) eqn:G.
  - apply includes_guard_spec in G.
    destruct (is_all_sub pat) eqn:A.
    + apply is_all_sub_iff in A. split; [intros _|reflexivity].
      left. split; [exact A|]. unfold under. destruct G as [[G _]|[G|G]]; auto.
    + assert (HA : l_name pat <> dots) by (intros H; apply is_all_sub_iff in H; congruence).
      destruct (str_eqb (l_pkg pat) (l_pkg that)) eqn:P.
      * apply str_eqb_eq in P. rewrite orb_true_iff, str_eqb_eq, is_all_targets_iff. split.
        -- intros [N|T].
           ++ destruct (str_eqb_spec (l_name pat) all_) as [E|E]; [right; left; auto|].
              right; right. repeat split; auto.
           ++ right; left. auto.
        -- intros [[H _]|[[H _]|(_ & _ & _ & H)]]; [contradiction|right; exact H|left; auto].
      * apply str_eqb_neq in P. split; [discriminate|].
        intros [[H _]|[[_ H]|(_ & _ & H & _)]]; [contradiction| |]; exfalso; apply P; auto.
  - split; [discriminate|]. intros H. exfalso.
    assert (G' : includes_guard_cond (l_pkg pat) (l_pkg that) (is_all_sub pat) = true); [|congruence].
    apply includes_guard_spec.
    destruct H as [[H U]|[[_ H]|(_ & _ & H & _)]]; [|right; left; exact H|right; left; exact H].
    apply is_all_sub_iff in H. destruct U as [U|[U|U]]; auto.
Qed.

(* ---- Matches ----------------------------------------------------------------------------------------------- *)

Lemma label_eqb_eq a b : label_eqb a b = true <-> a = b.
Proof.
  unfold label_eqb. rewrite !andb_true_iff, !str_eqb_eq. destruct a, b; cbn.
  split; [intros [[-> ->] ->]; reflexivity | intros H; injection H as -> -> ->; auto].
Qed.

(* Matches treats the package name "." (PackageDir of the root package) like the root. *)
Definition matches_selects (pat other : label) : Prop :=
  (l_name pat = dots /\ (l_pkg pat = s "." \/ under (l_pkg pat) (l_pkg other)))
  \/ (l_name pat = all_ /\ l_pkg other = l_pkg pat)
  \/ (l_name pat <> dots /\ l_name pat <> all_ /\ pat = parent other).

Theorem matches_spec pat other : matches pat other = true <-> matches_selects pat other.
Proof.
  unfold matches, matches_selects.
  destruct (is_all_sub pat) eqn:A.
  - apply is_all_sub_iff in A. rewrite matches_allsub_spec. split.
    + intros H. left. auto.
    + intros [[_ H]|[[H _]|[H _]]]; [exact H| |contradiction]. rewrite A in H. discriminate.
  - assert (HA : l_name pat <> dots) by (intros H; apply is_all_sub_iff in H; congruence).
    destruct (is_all_targets pat) eqn:T.
    + apply is_all_targets_iff in T. rewrite str_eqb_eq. split.
      * intros H. right; left. auto.
      * intros [[H _]|[[_ H]|(_ & H & _)]]; [contradiction|auto|contradiction].
    + assert (HT : l_name pat <> all_) by (intros H; apply is_all_targets_iff in H; congruence).
      rewrite label_eqb_eq. split.
      * intros H. right; right. auto.
      * intros [[H _]|[[H _]|(_ & _ & H)]]; [contradiction|contradiction|exact H].
Qed.

(* ---- never a sibling that merely shares the prefix ------------------------------------------------------------ *)

Lemma under_sibling p x : p <> [] -> x <> [] -> head_is 47 x = false -> ~ under p (p ++ x).
Proof.
  intros Hp Hx Hh [U|[U|[r U]]].
  - contradiction.
  - rewrite <- (app_nil_r p) in U at 2. apply app_inv_head in U. contradiction.
  - apply app_inv_head in U. subst x. cbn in Hh. discriminate.
Qed.

Theorem includes_no_sibling p x m s1 s2 :
  p <> [] -> x <> [] -> head_is 47 x = false -> includes (L p dots s1) (L (p ++ x) m s2) = false.
Proof.
  intros Hp Hx Hh. destruct (includes _ _) eqn:E; [|reflexivity]. exfalso.
  apply includes_spec in E. cbn in E.
  destruct E as [[_ U]|[[E _]|(E & _)]].
  - exact (under_sibling p x Hp Hx Hh U).
  - exact (dots_not_all E).
  - apply E; reflexivity.
Qed.

Theorem matches_no_sibling p x m s1 s2 :
  p <> [] -> p <> s "." -> x <> [] -> head_is 47 x = false -> matches (L p dots s1) (L (p ++ x) m s2) = false.
Proof.
  intros Hp Hd Hx Hh. destruct (matches _ _) eqn:E; [|reflexivity]. exfalso.
  apply matches_spec in E. unfold matches_selects in E. cbn in E.
  destruct E as [[_ [U|U]]|[[E _]|(E & _)]].
  - contradiction.
  - exact (under_sibling p x Hp Hx Hh U).
  - exact (dots_not_all E).
  - apply E; reflexivity.
Qed.

(* `//p:all` selects exactly package p *)
Theorem all_selects_exactly p q m s1 s2 :
  (includes (L p all_ s1) (L q m s2) = true <-> q = p) /\ (matches (L p all_ s1) (L q m s2) = true <-> q = p).
Proof.
  split.
  - rewrite includes_spec. unfold selects. cbn. split.
    + intros [[E _]|[[_ E]|(_ & E & _)]]; [symmetry in E; destruct (dots_not_all E)|exact E|destruct E; reflexivity].
    + intros ->. right; left. auto.
  - rewrite matches_spec. unfold matches_selects. cbn. split.
    + intros [[E _]|[[_ E]|(_ & E & _)]]; [symmetry in E; destruct (dots_not_all E)|exact E|destruct E; reflexivity].
    + intros ->. right; left. auto.
Qed.

(* ---- experimental tree, validateSandbox ------------------------------------------------------------------------- *)

(* the obligation on the source: isExperimental starts by sending every subrepo label away (seeded r2-m2) *)
Lemma gen_experimental_guard : is_experimental_subrepo_guard = true.
Proof. reflexivity. Qed.

Theorem is_experimental_spec dirs l :
  is_experimental dirs l = true <-> l_sub l = [] /\ exists d, In d dirs /\ under d (l_pkg l).
Proof.
  unfold is_experimental, experimental_labels. rewrite gen_experimental_guard. cbn [andb].
  destruct (l_sub l) as [|c r]; cbn [is_nil negb].
  - rewrite existsb_exists. split.
    + intros [e [He Hi]]. apply in_map_iff in He. destruct He as [d [<- Hd]].
      apply includes_spec in Hi. cbn in Hi. split; [reflexivity|]. exists d. split; [exact Hd|].
      destruct Hi as [[_ U]|[[E _]|(E & _)]]; [exact U|destruct (dots_not_all E)|destruct E; reflexivity].
    + intros [_ [d [Hd U]]]. exists (L d (lit all_subpackages_name) []). split.
      * apply in_map_iff. exists d. auto.
      * apply includes_spec. cbn. left. split; [reflexivity|exact U].
  - split; [discriminate|]. intros [H _]. discriminate.
Qed.

Definition opts_out (t : sbx_target) : Prop :=
  t_remote t = true \/ t_sandbox t = false \/ t_test t = Some false.

Theorem validate_sandbox_spec whitelist dirs t :
  validate_sandbox whitelist dirs t = true <->
    t_filegroup t = true \/ whitelist = [] \/ ~ opts_out t \/ l_pkg (t_label t) = lit "_please"
    \/ (exists w, In w whitelist /\ matches_selects w (t_label t))
    \/ (exists d, In d dirs /\ (l_pkg (t_label t) = d \/ exists r, l_pkg (t_label t) = d ++ 47%N :: r)).
Proof.
  unfold validate_sandbox, opts_out.
  destruct (t_filegroup t); cbn [orb]; [tauto|].
  destruct whitelist as [|w0 wl]; cbn [is_nil]; [tauto|].
  set (wlist := w0 :: wl).
  destruct (negb (t_remote t) && (t_sandbox t && match t_test t with None => true | Some b => b end)) eqn:O.
  - split; [intros _|reflexivity]. right; right; left.
    apply andb_true_iff in O. destruct O as [O1 O2]. apply andb_true_iff in O2. destruct O2 as [O2 O3].
    apply negb_true_iff in O1. intros [H|[H|H]]; try congruence. rewrite H in O3. discriminate.
  - assert (HO : t_remote t = true \/ t_sandbox t = false \/ t_test t = Some false).
    { destruct (t_remote t); [auto|]. destruct (t_sandbox t); [|auto]. cbn in O.
      destruct (t_test t) as [[|]|]; try discriminate. auto. }
    destruct (str_eqb (l_pkg (t_label t)) (lit "_please")) eqn:P.
    + apply str_eqb_eq in P. tauto.
    + apply str_eqb_neq in P.
      destruct (existsb (fun w => matches w (t_label t)) wlist) eqn:W.
      * apply existsb_exists in W. destruct W as [w [Hw Hm]]. apply matches_spec in Hm.
        split; [intros _|reflexivity]. do 4 right. left. exists w. auto.
      * rewrite existsb_exists. split.
        -- intros [d [Hd Hc]]. apply sandbox_expdir_spec in Hc. do 5 right. exists d. auto.
        -- intros [H|[H|[H|[H|[[w [Hw Hm]]|[d [Hd Hc]]]]]]]; try discriminate; try contradiction.
           ++ exfalso. apply matches_spec in Hm.
              assert (E : existsb (fun w => matches w (t_label t)) wlist = true)
                by (apply existsb_exists; exists w; auto). congruence.
           ++ exists d. split; [exact Hd|]. apply sandbox_expdir_spec. exact Hc.
Qed.

(* ---- exclusion and expansion -------------------------------------------------------------------------------------- *)

Theorem excluded_spec excl l :
  excluded excl l = true <-> exists e, In e excl /\ selects (l_pkg e) (l_name e) (l_pkg l) (l_name l).
Proof.
  unfold excluded. rewrite existsb_exists. split; intros [e [He H]]; exists e; (split; [exact He|]); apply includes_spec; exact H.
Qed.

(* the packages an original pseudo-target expands to: exactly the packages of the graph the pattern selects *)
Theorem selected_packages_spec pat pkgs q :
  l_name pat = dots \/ l_name pat = all_ ->
  (In q (selected_packages pat pkgs) <-> In q pkgs /\ ((l_name pat = dots /\ under (l_pkg pat) q) \/ (l_name pat = all_ /\ q = l_pkg pat))).
Proof.
  intros Hp. unfold selected_packages.
  destruct (is_all_targets pat) eqn:T.
  - apply is_all_targets_iff in T. rewrite filter_In, str_eqb_eq. split.
    + intros [Hq E]. split; [exact Hq|]. right. auto.
    + intros [Hq [[E _]|[_ E]]]; [rewrite T in E; symmetry in E; destruct (dots_not_all E)|auto].
  - assert (HT : l_name pat <> all_) by (intros H; apply is_all_targets_iff in H; congruence).
    destruct Hp as [Hd|Ha]; [|contradiction].
    rewrite filter_In, includes_spec. unfold selects. cbn. split.
    + intros [Hq [[_ U]|[[E _]|(E & _)]]]; [|contradiction|contradiction]. split; [exact Hq|]. left; auto.
    + intros [Hq [[_ U]|[E _]]]; [|contradiction]. split; [exact Hq|]. left; auto.
Qed.

(* ---- visibility (CanSee) ------------------------------------------------------------------------------------------- *)

Theorem can_see_spec dirs l dep vis :
  can_see dirs l dep vis = true <->
    l_pkg l = l_pkg dep
    \/ (~ (is_experimental dirs dep = true /\ is_experimental dirs l = false)
        /\ ((exists v, In v vis /\ selects (l_pkg v) (l_name v) (l_pkg (parent l)) (l_name (parent l)))
            \/ l_pkg dep = l_pkg (parent l) \/ is_experimental dirs l = true)).
Proof.
  unfold can_see.
  destruct (str_eqb (l_pkg l) (l_pkg dep)) eqn:P.
  - apply str_eqb_eq in P. tauto.
  - apply str_eqb_neq in P.
    destruct (is_experimental dirs dep && negb (is_experimental dirs l)) eqn:X.
    + apply andb_true_iff in X. destruct X as [X1 X2]. apply negb_true_iff in X2.
      split; [discriminate|]. intros [H|[H _]]; [contradiction|]. exfalso. apply H. auto.
    + assert (HX : ~ (is_experimental dirs dep = true /\ is_experimental dirs l = false)).
      { intros [X1 X2]. rewrite X1, X2 in X. discriminate. }
      destruct (existsb (fun v => includes v (parent l)) vis) eqn:V.
      * apply existsb_exists in V. destruct V as [v [Hv Hi]]. apply includes_spec in Hi.
        split; [intros _|reflexivity]. right. split; [exact HX|]. left. exists v. auto.
      * destruct (str_eqb (l_pkg dep) (l_pkg (parent l))) eqn:Q.
        -- apply str_eqb_eq in Q. split; [intros _|reflexivity]. right. auto.
        -- apply str_eqb_neq in Q. split.
           ++ intros H. right. auto.
           ++ intros [H|[_ [[v [Hv Hi]]|[H|H]]]]; try contradiction; [|exact H].
              exfalso. apply includes_spec in Hi.
              assert (E : existsb (fun v => includes v (parent l)) vis = true)
                by (apply existsb_exists; exists v; auto). congruence.
Qed.
