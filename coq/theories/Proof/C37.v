(* C37 - proofs about the model of the command location expansions (Model/C37.v). *)
From Coq Require Import String Lia.
From PlzV Require Import Base.Harness Base.StrFacts Gen.CmdReplTables Model.C37.
From PlzV Require Model.C20 Proof.C20_Parse.
Local Open Scope list_scope.

(* ---- the regenerated tables ------------------------------------------------------------------------------------- *)

(* the control operators of the shell: the characters `quote` is documented to neutralise *)
Definition operators : str := s "|&;()<>".

Lemma quote_set_covers_operators : forallb (fun c => C20.mem_byte c quote_set) operators = true.
Proof. vm_compute. reflexivity. Qed.

(* double quotes neutralise every character `quote` reacts to *)
Lemma quote_set_inert_in_quotes : forallb (fun c => negb (dq_active c)) quote_set = true.
Proof. vm_compute. reflexivity. Qed.

(* every pass hands replaceSequence exactly the captured group: in[N:len(in)-1] with N = len("$(KW ") *)
Lemma passes_offsets_ok :
  forallb (fun p => Nat.eqb (snd (fst p)) (length (pass_prefix (fst (fst p))))) passes = true.
Proof. vm_compute. reflexivity. Qed.

Lemma passes_pin :
  passes = [("location", 11, (false, false, false, false, false));
            ("locations", 12, (false, true, false, false, false));
            ("exe", 6, (true, false, false, false, false));
            ("out_location", 15, (false, false, false, true, false));
            ("out_locations", 16, (false, true, false, true, false));
            ("out_exe", 10, (true, false, false, true, false));
            ("dir", 6, (false, true, true, false, false));
            ("out_dir", 10, (false, true, true, true, false));
            ("hash", 7, (false, true, true, false, true))]%string.
Proof. reflexivity. Qed.

Lemma unescape_pin : s unescape_from = [92; 36]%N /\ s unescape_to = [36]%N /\ ep_sep = 124%N.
Proof. repeat split. Qed.

(* ---- general facts ---------------------------------------------------------------------------------------------- *)

Lemma has_prefix_app a b : has_prefix a (a ++ b) = true.
Proof.
  unfold has_prefix, C20.has_prefix. induction a as [|x a IH]; cbn [app LabelTables.has_prefix].
  - destruct b; reflexivity.
  - rewrite N.eqb_refl. exact IH.
Qed.

Lemma has_prefix_app_l a b c : has_prefix (a ++ b) (a ++ c) = has_prefix b c.
Proof.
  unfold has_prefix, C20.has_prefix. induction a as [|x a IH]; cbn [app LabelTables.has_prefix].
  - reflexivity.
  - rewrite N.eqb_refl. exact IH.
Qed.

Lemma lbl_eqb_eq a b : lbl_eqb a b = true -> a = b.
Proof.
  destruct a as [[a1 a2] a3], b as [[b1 b2] b3]. unfold lbl_eqb, lb_pkg, lb_name, lb_sub. cbn [fst snd]. intro H.
  apply andb_true_iff in H as [H H3]. apply andb_true_iff in H as [H1 H2].
  apply str_eqb_eq in H1, H2, H3. subst. reflexivity.
Qed.

Lemma lbl_eqb_refl a : lbl_eqb a a = true.
Proof. unfold lbl_eqb. rewrite !str_eqb_refl. reflexivity. Qed.

(* ---- the dependency lookups of replaceSequenceLabel (regenerated) --------------------------------------------- *)

(* the code as it stands asks target.DependenciesFor once, with the label as written (subrepo included) *)
Lemma dep_lookup_pin : dep_lookup = [LookupExact].
Proof. reflexivity. Qed.

Lemma find_dep_exact w k : find_dep w dep_lookup k = if declared w k then Some k else None.
Proof. rewrite dep_lookup_pin. cbn [find_dep lookup_key]. destruct (declared w k); reflexivity. Qed.

(* whatever the list of lookups is: the key that is found is a declared dependency, and it differs from the label
   as written at most by a dropped subrepo (an invariant of the fold over the lookup steps) *)
Lemma find_dep_sound w steps k k' : find_dep w steps k = Some k' ->
  declared w k' = true /\ lb_pkg k' = lb_pkg k /\ lb_name k' = lb_name k /\ (lb_sub k' = lb_sub k \/ lb_sub k' = []).
Proof.
  induction steps as [|st steps IH]; cbn [find_dep]; [discriminate|].
  destruct (lookup_key st k) as [k1|] eqn:K; [|exact IH].
  destruct (declared w k1) eqn:D; [|exact IH].
  intro H. injection H as <-. split; [exact D|].
  destruct st; cbn [lookup_key] in K.
  - injection K as <-. repeat split. left. reflexivity.
  - destruct (is_nil (lb_sub k)); [discriminate|]. injection K as <-. repeat split. right. reflexivity.
Qed.

(* with exact lookups only, nothing but the label as written is ever found *)
Lemma find_dep_only_exact w steps k k' :
  forallb (fun st => match st with LookupExact => true | _ => false end) steps = true ->
  find_dep w steps k = Some k' -> k' = k.
Proof.
  induction steps as [|st steps IH]; cbn [find_dep forallb]; [discriminate|].
  intro H. apply andb_true_iff in H as [Hs Hr]. destruct st; [|discriminate]. cbn [lookup_key].
  destruct (declared w k); [intro E; injection E as <-; reflexivity | exact (IH Hr)].
Qed.

(* the labels the rule names as sources, tools and deps *)
Definition declared_labels (w : world) : list lbl :=
  flat_map (fun i => match input_label i with Some l => [l] | None => [] end) (w_srcs w ++ w_tools w) ++ w_deps w.

Lemma existsb_has_label_in k l : existsb (has_label k) l = true ->
  In k (flat_map (fun i => match input_label i with Some l => [l] | None => [] end) l).
Proof.
  intro H. apply existsb_exists in H as [i [Hi E]]. apply in_flat_map. exists i. split; [exact Hi|].
  unfold has_label in E. destruct (input_label i) as [j|]; [|discriminate].
  apply lbl_eqb_eq in E. subst j. left. reflexivity.
Qed.

(* `declared` is exact: package, name and subrepo of some source, tool or dep all coincide with the key *)
Lemma declared_in w k : declared w k = true -> In k (declared_labels w).
Proof.
  unfold declared, declared_labels. intro H. apply orb_true_iff in H as [H|H].
  - apply in_or_app. left. rewrite flat_map_app. apply in_or_app.
    apply orb_true_iff in H as [H|H]; [left | right]; exact (existsb_has_label_in _ _ H).
  - apply in_or_app. right. apply existsb_exists in H as [j [Hj E]]. apply lbl_eqb_eq in E. subst j. exact Hj.
Qed.

Lemma lookup_tgt_some l g d : lookup_tgt l g = Some d -> In d g /\ t_lbl d = l.
Proof.
  induction g as [|x g IH]; cbn [lookup_tgt]; [discriminate|].
  destruct (lbl_eqb (t_lbl x) l) eqn:E.
  - intro H. injection H as ->. split; [left; reflexivity | exact (lbl_eqb_eq _ _ E)].
  - intro H. destruct (IH H) as [H1 H2]. split; [right; exact H1 | exact H2].
Qed.

Lemma join_ne a b : is_nil a = false -> is_nil b = false -> join a b = a ++ 47%N :: b.
Proof. unfold join. intros -> ->. reflexivity. Qed.

Lemma join_nil_l b : join [] b = b.
Proof. reflexivity. Qed.

Lemma is_nil_app_cons {A} (a : list A) x b : is_nil (a ++ x :: b) = false.
Proof. destruct a; reflexivity. Qed.

Lemma out_dir_ne d : is_nil (out_dir d) = false.
Proof.
  unfold out_dir. generalize (join (lb_sub (t_lbl d)) (lb_pkg (t_lbl d))). intro x.
  unfold join. destruct (t_binary d); cbn [is_nil bin_dir gen_dir s]; destruct x; reflexivity.
Qed.

Lemma covers_refl x : covers x x = true.
Proof. unfold covers. rewrite str_eqb_refl. reflexivity. Qed.

(* covers o out -> out is not empty when o is not *)
Lemma covers_ne o out : is_nil o = false -> covers o out = true -> is_nil out = false.
Proof.
  unfold covers. intros Ho H. apply orb_true_iff in H as [H|H].
  - apply str_eqb_eq in H. subst. exact Ho.
  - destruct out; [|reflexivity]. destruct o; [discriminate|]. discriminate.
Qed.

(* prefixing both sides with a directory keeps `covers` *)
Lemma covers_join x o out : is_nil o = false -> covers o out = true -> covers (join x o) (join x out) = true.
Proof.
  intros Ho H. pose proof (covers_ne _ _ Ho H) as Hout.
  destruct x as [|c x]; [exact H|].
  rewrite (join_ne (c :: x) o), (join_ne (c :: x) out) by (reflexivity || assumption).
  unfold covers in *. apply orb_true_iff in H as [H|H].
  - apply str_eqb_eq in H. subst. rewrite str_eqb_refl. reflexivity.
  - apply orb_true_iff. right.
    replace (((c :: x) ++ 47%N :: o) ++ [47%N]) with (((c :: x) ++ [47%N]) ++ (o ++ [47%N])).
    2:{ rewrite <- !app_assoc. reflexivity. }
    replace ((c :: x) ++ 47%N :: out) with (((c :: x) ++ [47%N]) ++ out).
    2:{ rewrite <- app_assoc. reflexivity. }
    rewrite has_prefix_app_l. exact H.
Qed.

(* x/ is a prefix of join x o *)
Lemma dir_of_join x o : is_nil x = false -> is_nil o = false -> dir_of x (join x o) = true.
Proof.
  intros Hx Ho. rewrite (join_ne _ _ Hx Ho). unfold dir_of.
  replace (x ++ 47%N :: o) with ((x ++ [47%N]) ++ o) by (rewrite <- app_assoc; reflexivity).
  apply has_prefix_app.
Qed.

(* ---- the shell word splitter ------------------------------------------------------------------------------------ *)

Lemma quote_char_unsafe c : N.eqb c 34 = true -> unsafe c = true.
Proof. intro H. apply N.eqb_eq in H. subst. vm_compute. reflexivity. Qed.

Lemma quote_char_dq_active c : N.eqb c 34 = true -> dq_active c = true.
Proof. intro H. apply N.eqb_eq in H. subst. vm_compute. reflexivity. Qed.

Lemma sw_plain p : forall r cur st, plain_safe p = true ->
  sw (p ++ r) cur st false = sw r (cur ++ p) (st || negb (is_nil p)) false.
Proof.
  induction p as [|c p IH]; intros r cur st H.
  - cbn [app is_nil negb]. rewrite app_nil_r, orb_false_r. reflexivity.
  - cbn [plain_safe forallb] in H. apply andb_true_iff in H as [Hc Hp].
    apply andb_true_iff in Hc as [Hb Hu]. apply negb_true_iff in Hb, Hu.
    cbn [app sw]. rewrite Hb.
    destruct (N.eqb c 34) eqn:E34; [rewrite (quote_char_unsafe _ E34) in Hu; discriminate|].
    rewrite Hu. rewrite (IH r (cur ++ [c]) true Hp). rewrite <- app_assoc. cbn [app is_nil negb].
    rewrite orb_true_r. reflexivity.
Qed.

Lemma sw_inq p : forall r cur, dq_safe p = true ->
  sw (p ++ 34%N :: r) cur true true = sw r (cur ++ p) true false.
Proof.
  induction p as [|c p IH]; intros r cur H.
  - cbn [app sw]. rewrite N.eqb_refl, app_nil_r. reflexivity.
  - cbn [dq_safe forallb] in H. apply andb_true_iff in H as [Hc Hp]. apply negb_true_iff in Hc.
    cbn [app sw].
    destruct (N.eqb c 34) eqn:E34; [rewrite (quote_char_dq_active _ E34) in Hc; discriminate|].
    rewrite Hc. rewrite (IH r (cur ++ [c]) Hp). rewrite <- app_assoc. reflexivity.
Qed.

Lemma sw_quoted p r cur st : dq_safe p = true ->
  sw (34%N :: p ++ 34%N :: r) cur st false = sw r (cur ++ p) true false.
Proof. intro H. cbn [sw]. change (is_blank 34) with false. cbn [N.eqb Pos.eqb]. apply sw_inq. exact H. Qed.

Lemma sw_piece p r : piece_ok p = true ->
  sw (piece_text p ++ r) [] false false = sw r (piece_word p) true false.
Proof.
  intro H. destruct p as [b x|b x|t]; cbn [piece_ok piece_text piece_word] in *;
    apply andb_true_iff in H as [Hne H]; apply negb_true_iff in Hne.
  1,2: unfold quote; destruct (needs_quote x).
  1,3: replace ((34%N :: x ++ [34%N]) ++ r) with (34%N :: x ++ 34%N :: r)
         by (cbn [app]; rewrite <- app_assoc; reflexivity);
       rewrite (sw_quoted x r [] false H); reflexivity.
  all: rewrite (sw_plain _ r [] false H); rewrite Hne; reflexivity.
Qed.

Definition txt (ps : list piece) : str := concat (map (fun p => piece_text p ++ [32%N]) ps).

Lemma sw_txt ps : forallb piece_ok ps = true -> sw (txt ps) [] false false = Some (map piece_word ps).
Proof.
  induction ps as [|p ps IH]; intro H; [reflexivity|].
  cbn [forallb] in H. apply andb_true_iff in H as [Hp Hps].
  unfold txt. cbn [map concat]. rewrite <- app_assoc. rewrite (sw_piece p _ Hp).
  cbn [app sw]. change (is_blank 32) with true. cbv iota.
  fold (txt ps). rewrite (IH Hps). reflexivity.
Qed.

Lemma sw_spaces_out n : forall cur st, sw (repeat 32%N n) cur st false = Some (if st then [cur] else []).
Proof.
  induction n as [|n IH]; intros cur st; [reflexivity|].
  cbn [repeat sw]. change (is_blank 32) with true. cbv iota. rewrite IH. destruct st; reflexivity.
Qed.

Lemma sw_spaces_in n : forall cur st, sw (repeat 32%N n) cur st true = None.
Proof.
  induction n as [|n IH]; intros cur st; [reflexivity|].
  cbn [repeat sw]. change (N.eqb 32 34) with false. change (dq_active 32) with false. cbv iota. apply IH.
Qed.

Lemma sw_app_spaces n y : forall cur st inq, sw (y ++ repeat 32%N n) cur st inq = sw y cur st inq.
Proof.
  induction y as [|c y IH]; intros cur st inq.
  - cbn [app]. destruct inq; [rewrite sw_spaces_in | rewrite sw_spaces_out]; reflexivity.
  - cbn [app sw]. rewrite !IH. reflexivity.
Qed.

Lemma drop_while_spaces l : exists n, l = repeat 32%N n ++ C20.drop_while (N.eqb 32) l.
Proof.
  induction l as [|c l [n IH]]; [exists O; reflexivity|].
  cbn [C20.drop_while]. destruct (N.eqb 32 c) eqn:E.
  - apply N.eqb_eq in E. subst c. exists (S n). cbn [repeat app]. f_equal. exact IH.
  - exists O. reflexivity.
Qed.

Lemma rev_repeat {A} (a : A) n : rev (repeat a n) = repeat a n.
Proof.
  induction n as [|n IH]; [reflexivity|]. cbn [repeat rev]. rewrite IH.
  clear IH. induction n as [|n IH]; [reflexivity|]. cbn [repeat app]. f_equal. exact IH.
Qed.

Lemma trim_right_sp_spec x : exists n, x = trim_right_sp x ++ repeat 32%N n.
Proof.
  unfold trim_right_sp, C20.trim_right. destruct (drop_while_spaces (rev x)) as [n H].
  exists n. rewrite <- (rev_involutive x) at 1. rewrite H at 1. rewrite rev_app_distr, rev_repeat. reflexivity.
Qed.

Lemma sw_trim x : shell_words (trim_right_sp x) = shell_words x.
Proof.
  unfold shell_words. destruct (trim_right_sp_spec x) as [n H]. rewrite H at 2. rewrite sw_app_spaces. reflexivity.
Qed.

Lemma words_of_pieces ps : forallb piece_ok ps = true ->
  shell_words (trim_right_sp (txt ps)) = Some (map piece_word ps).
Proof. intro H. rewrite sw_trim. exact (sw_txt ps H). Qed.

Lemma words_of_piece p : piece_ok p = true -> shell_words (piece_text p) = Some [piece_word p].
Proof.
  intro H. unfold shell_words. rewrite <- (app_nil_r (piece_text p)). rewrite (sw_piece p [] H). reflexivity.
Qed.

(* names made of ordinary characters and of the control operators `quote` is documented to handle *)
Definition name_char_ok (c : N) : bool := (negb (is_blank c) && negb (unsafe c)) || C20.mem_byte c operators.
Definition name_ok (x : str) : bool := negb (is_nil x) && forallb name_char_ok x.

Lemma operator_in_quote_set c : C20.mem_byte c operators = true -> C20.mem_byte c quote_set = true.
Proof.
  intro H. pose proof quote_set_covers_operators as Q. rewrite forallb_forall in Q.
  unfold C20.mem_byte in H. apply existsb_exists in H as [o [Ho Hc]]. apply N.eqb_eq in Hc. subst o.
  apply Q. exact Ho.
Qed.

Lemma operator_not_dq_active c : C20.mem_byte c operators = true -> dq_active c = false.
Proof.
  intro H. unfold C20.mem_byte in H. apply existsb_exists in H as [o [Ho Hc]]. apply N.eqb_eq in Hc. subst o.
  revert c Ho. apply Forall_forall. vm_compute. repeat constructor.
Qed.

Lemma unsafe_of_dq_active c : dq_active c = true -> unsafe c = true.
Proof.
  intro H. unfold dq_active, C20.mem_byte in H. apply existsb_exists in H as [o [Ho Hc]]. apply N.eqb_eq in Hc. subst o.
  revert c Ho. apply Forall_forall. vm_compute. repeat constructor.
Qed.

Lemma name_ok_word_ok x : name_ok x = true ->
  negb (is_nil x) && (if needs_quote x then dq_safe x else plain_safe x) = true.
Proof.
  unfold name_ok. intro H. apply andb_true_iff in H as [Hne H]. rewrite Hne. cbn [andb].
  rewrite forallb_forall in H.
  destruct (needs_quote x) eqn:Q.
  - unfold dq_safe. apply forallb_forall. intros c Hc. specialize (H c Hc). unfold name_char_ok in H.
    apply orb_true_iff in H as [H|H].
    + apply andb_true_iff in H as [_ H]. apply negb_true_iff in H.
      destruct (dq_active c) eqn:D; [rewrite (unsafe_of_dq_active _ D) in H; discriminate | reflexivity].
    + rewrite (operator_not_dq_active _ H). reflexivity.
  - unfold plain_safe. apply forallb_forall. intros c Hc. specialize (H c Hc). unfold name_char_ok in H.
    apply orb_true_iff in H as [H|H]; [exact H|]. exfalso.
    unfold needs_quote, C20.contains_any in Q.
    assert (existsb (fun c => C20.mem_byte c quote_set) x = true) as E.
    { apply existsb_exists. exists c. split; [exact Hc | exact (operator_in_quote_set _ H)]. }
    rewrite E in Q. discriminate.
Qed.

Definition piece_name_ok (p : piece) : bool :=
  match p with PRaw t => negb (is_nil t) && plain_safe t | PFile _ x => name_ok x | PDir _ x => name_ok x end.

Lemma piece_name_ok_ok p : piece_name_ok p = true -> piece_ok p = true.
Proof. destruct p; cbn [piece_name_ok piece_ok]; auto using name_ok_word_ok. Qed.

(* ---- where the outputs are ---------------------------------------------------------------------------------------- *)

Lemma sel_subset (dir : bool) (f : str -> bool) (outs : list str) o :
  In o (if dir then firstn 1 (filter f outs) else filter f outs) -> In o outs.
Proof.
  intro H. assert (In o (filter f outs)) as H'.
  { destruct dir; [|exact H]. destruct (filter f outs) as [|a l]; [destruct H|].
    cbn [firstn] in H. destruct H as [<-|[]]. left. reflexivity. }
  apply filter_In in H'. exact (proj1 H').
Qed.

Lemma in_out_layout w k d o :
  lookup_tgt k (w_graph w) = Some d -> declared w k = true -> In o (t_outs d) ->
  In (join (out_dir d) o) (out_layout w).
Proof.
  intros L D Ho. destruct (lookup_tgt_some _ _ _ L) as [Hin Hl].
  unfold out_layout. apply in_flat_map. exists d. split; [exact Hin|].
  rewrite Hl, D. apply in_map. exact Ho.
Qed.

Lemma all_outs_of_spec w k d o :
  lookup_tgt k (w_graph w) = Some d -> In o (t_outs d) -> In (join (lb_pkg (t_lbl d)) o) (all_outs_of w k).
Proof. intros L Ho. unfold all_outs_of. rewrite L. unfold prefixed. apply in_map. exact Ho. Qed.

Lemma in_tmp_layout_placed w k d o :
  placed_whole w k d = true -> lookup_tgt k (w_graph w) = Some d -> In o (t_outs d) ->
  In (join (lb_pkg (t_lbl d)) o) (tmp_layout w).
Proof.
  intros P L Ho. unfold placed_whole in P. unfold tmp_layout. apply in_or_app.
  apply orb_true_iff in P as [P|P].
  - left. apply existsb_exists in P as [i [Hi Pi]]. apply in_flat_map. exists i. split; [exact Hi|].
    destruct i as [f|k'|k' ann|p]; try discriminate.
    + apply lbl_eqb_eq in Pi. subst k'. cbn [input_paths]. exact (all_outs_of_spec _ _ _ _ L Ho).
    + apply andb_true_iff in Pi as [Pk Pe]. apply lbl_eqb_eq in Pk. subst k'. cbn [input_paths]. rewrite L.
      destruct (assoc ann (t_eps d)); [|discriminate]. unfold prefixed. apply in_map. exact Ho.
  - right. apply andb_true_iff in P as [Pd Pt]. apply negb_true_iff in Pt.
    apply existsb_exists in Pd as [k' [Hk' E]]. apply lbl_eqb_eq in E. subst k'.
    apply in_flat_map. exists k. split; [exact Hk'|]. rewrite Pt. exact (all_outs_of_spec _ _ _ _ L Ho).
Qed.

Lemma present_file_tmp w x r : In r (tmp_layout w) -> covers r x = true -> present w (PFile InTmp x) = true.
Proof. intros Hr Hc. cbn [present]. apply existsb_exists. exists r. split; assumption. Qed.

Lemma present_file_repo w x r : In r (out_layout w) -> covers r x = true -> present w (PFile InRepo x) = true.
Proof. intros Hr Hc. cbn [present]. apply existsb_exists. exists r. split; assumption. Qed.

(* the conditions under which the classifier finds no defect in a sequence that names the dependency d *)
Definition dep_ok (w : world) (k : lbl) (d : tgt) (tool dir outp hash : bool) (ep : str) : Prop :=
  hash = true \/ outp = true \/ (is_nil ep = true /\ tool = true)
  \/ (tool = false /\ placed_whole w k d = true
      /\ (dir && is_nil (lb_pkg (t_lbl d)) && (negb (is_nil ep) || negb (is_nil (t_outs d))) = false)).

Lemma car_present w (runnable multiple dir outp hash : bool) tool d ep inp text ps k :
  wf_tgt d = true -> lookup_tgt k (w_graph w) = Some d -> declared w k = true ->
  check_and_replace w false (runnable, multiple, dir, outp, hash) false tool true d ep inp = ROk (text, ps) ->
  dep_ok w k d tool dir outp hash ep ->
  forall p, In p ps -> present w p = true.
Proof.
  intros WF L D H OK p Hp. unfold check_and_replace in H.
  apply andb_true_iff in WF as [WFo WFe]. rewrite forallb_forall in WFo, WFe.
  assert (forall o, In o (t_outs d) -> is_nil o = false) as One.
  { intros o Ho. apply negb_true_iff. exact (WFo o Ho). }
  destruct (true && negb multiple && Nat.ltb 1 (length (t_outs d)) && is_nil ep); [discriminate|].
  destruct (runnable && negb (t_binary d)); [discriminate|].
  destruct (runnable && is_nil (t_outs d)); [discriminate|].
  cbn [andb] in H.
  destruct hash.
  { injection H as _ <-. destruct Hp as [<-|[]]. reflexivity. }
  destruct (is_nil ep) eqn:Eep.
  - (* the loop over the outputs *)
    injection H as _ <-. apply in_map_iff in Hp as [o [<- Ho]]. apply sel_subset in Ho.
    pose proof (One o Ho) as Hone. pose proof (out_dir_ne d) as Hod.
    unfold one_out. destruct tool.
    + (* a tool: absolute path below plz-out *)
      pose proof (in_out_layout w k d o L D Ho) as Hin.
      unfold mk_piece, handle_dir. destruct dir; cbn [present]; apply existsb_exists;
        exists (join (out_dir d) o); (split; [exact Hin|]).
      * (* the directory *)
        rewrite (join_ne (out_dir d) o Hod Hone).
        destruct (w_root w) as [|c root].
        -- rewrite !join_nil_l. rewrite <- (join_ne _ _ Hod Hone). apply dir_of_join; assumption.
        -- rewrite (join_ne (c :: root) (out_dir d)) by (reflexivity || assumption).
           rewrite (join_ne (c :: root) (out_dir d ++ 47%N :: o)) by (reflexivity || apply is_nil_app_cons).
           unfold dir_of.
           replace (((c :: root) ++ 47%N :: out_dir d) ++ [47%N]) with (((c :: root) ++ [47%N]) ++ (out_dir d ++ [47%N]))
             by (rewrite <- !app_assoc; reflexivity).
           replace ((c :: root) ++ 47%N :: out_dir d ++ 47%N :: o) with (((c :: root) ++ [47%N]) ++ ((out_dir d ++ [47%N]) ++ o))
             by (rewrite <- !app_assoc; reflexivity).
           rewrite has_prefix_app_l. apply has_prefix_app.
      * apply covers_refl.
    + unfold file_destination. cbn [andb]. destruct outp.
      * (* out_ forms: below plz-out, relative to the repository root *)
        pose proof (in_out_layout w k d o L D Ho) as Hin.
        unfold mk_piece, handle_dir. destruct dir; cbn [present]; apply existsb_exists;
          exists (join (out_dir d) o); (split; [exact Hin|]).
        -- apply dir_of_join; assumption.
        -- apply covers_refl.
      * (* the build directory *)
        destruct OK as [OK|[OK|[[_ OK]|[_ [P R]]]]]; [discriminate OK | discriminate OK | discriminate OK |].
        pose proof (in_tmp_layout_placed w k d o P L Ho) as Hin.
        unfold mk_piece, handle_dir. destruct dir; cbn [present].
        -- destruct (is_nil (lb_pkg (t_lbl d))) eqn:Epkg.
           ++ exfalso. try rewrite Epkg in R. try rewrite Eep in R. cbn [andb negb orb] in R. apply negb_false_iff in R.
              destruct (t_outs d); [destruct Ho | discriminate].
           ++ cbn [negb andb]. apply existsb_exists. exists (join (lb_pkg (t_lbl d)) o). split; [exact Hin|].
              apply dir_of_join; assumption.
        -- apply existsb_exists. exists (join (lb_pkg (t_lbl d)) o). split; [exact Hin | apply covers_refl].
  - (* an entry point *)
    destruct (assoc ep (t_eps d)) as [out|] eqn:A; [|discriminate].
    injection H as _ <-. destruct Hp as [<-|[]].
    assert (In (ep, out) (t_eps d)) as Hin_ep.
    { clear - A. induction (t_eps d) as [|[a b] l IH]; cbn [assoc] in A; [discriminate|].
      destruct (str_eqb a ep) eqn:E; [|right; exact (IH A)].
      apply str_eqb_eq in E. injection A as ->. subst. left. reflexivity. }
    specialize (WFe _ Hin_ep). cbn [snd] in WFe. apply existsb_exists in WFe as [o [Ho Hc]].
    pose proof (One o Ho) as Hone. pose proof (out_dir_ne d) as Hod.
    unfold file_destination. cbn [andb]. destruct outp.
    + pose proof (in_out_layout w k d o L D Ho) as Hin.
      unfold mk_piece, handle_dir. destruct dir; cbn [present]; apply existsb_exists;
        exists (join (out_dir d) o); (split; [exact Hin|]).
      * apply dir_of_join; assumption.
      * apply covers_join; assumption.
    + destruct OK as [OK|[OK|[[OK _]|[_ [P R]]]]]; [discriminate OK | discriminate OK | rewrite Eep in OK; discriminate OK |].
      pose proof (in_tmp_layout_placed w k d o P L Ho) as Hin.
      unfold mk_piece, handle_dir. destruct dir; cbn [present].
      * destruct (is_nil (lb_pkg (t_lbl d))) eqn:Epkg.
        -- exfalso. try rewrite Epkg in R. try rewrite Eep in R. cbn [andb negb orb] in R. discriminate R.
        -- cbn [negb andb]. apply existsb_exists. exists (join (lb_pkg (t_lbl d)) o). split; [exact Hin|].
           apply dir_of_join; assumption.
      * apply existsb_exists. exists (join (lb_pkg (t_lbl d)) o). split; [exact Hin | apply covers_join; assumption].
Qed.

(* ---- the sequence level ------------------------------------------------------------------------------------------- *)

Lemma wf_world_tgt w k d : wf_world w = true -> lookup_tgt k (w_graph w) = Some d -> wf_tgt d = true.
Proof.
  intros WF L. unfold wf_world in WF. apply andb_true_iff in WF as [_ WF]. rewrite forallb_forall in WF. apply WF. exact (proj1 (lookup_tgt_some _ _ _ L)).
Qed.

(* C37_exists, as far as the code allows: a build-command sequence in none of the defect classes expands to
   paths that are present (build directory / plz-out / absolute plz-out) *)
Theorem exists_partial w fl inp text ps :
  wf_world w = true -> replace_sequence w false fl inp = ROk (text, ps) -> defect_class w fl inp = None ->
  forall p, In p ps -> present w p = true.
Proof.
  destruct fl as [[[[runnable multiple] dir] outp] hash]. intros WF H D.
  unfold replace_sequence in H. unfold defect_class in D. cbv beta iota in H, D.
  destruct (looks_like_label inp).
  - destruct (split_entry_point inp) as [lbl_s ep].
    destruct (C20.try_parse lbl_s (w_pkg w) []) as [l| |]; try discriminate.
    unfold replace_label in H. cbv zeta in H, D.
    set (k := label_key l) in *.
    destruct (lbl_eqb k (t_lbl (w_self w))); [discriminate D|].
    rewrite find_dep_exact in H.
    destruct (declared w k) eqn:Dk; [|discriminate].
    destruct (lookup_tgt k (w_graph w)) as [d|] eqn:L; [|discriminate].
    apply (car_present w runnable multiple dir outp hash (is_tool w k) d ep lbl_s text ps k
             (wf_world_tgt _ _ _ WF L) L Dk H).
    unfold dep_ok. destruct hash; [left; reflexivity|]. destruct outp; [right; left; reflexivity|].
    cbn [orb] in D. right. right.
    destruct (is_nil ep) eqn:Eep; cbn [negb] in D.
    + destruct (is_tool w k); [left; split; reflexivity|]. right.
      destruct (placed_whole w k d); cbn [negb] in D; [|discriminate D].
      split; [reflexivity|]. split; [reflexivity|]. cbn [negb orb].
      destruct (dir && is_nil (lb_pkg (t_lbl d)) && negb (is_nil (t_outs d))); [discriminate D | reflexivity].
    + destruct (is_tool w k); [discriminate D|]. right.
      destruct (placed_whole w k d); cbn [negb] in D; [|discriminate D].
      split; [reflexivity|]. split; [reflexivity|]. cbn [negb orb].
      destruct (dir && is_nil (lb_pkg (t_lbl d))); [discriminate D | reflexivity].
  - destruct (runnable && existsb (input_string_is inp) (w_tools w)).
    { injection H as _ <-. intros p [<-|[]]. reflexivity. }
    destruct hash.
    { injection H as _ <-. intros p [<-|[]]. reflexivity. }
    destruct (has_prefix (s "/") inp).
    { injection H as _ <-. intros p [<-|[]]. reflexivity. }
    destruct (file_declared w inp) eqn:F; [|discriminate D].
    injection H as _ <-. intros p [<-|[]].
    unfold file_declared in F. apply existsb_exists in F as [i [Hi Hc]]. destruct i as [f| | |]; try discriminate.
    apply (present_file_tmp w _ (join (w_pkg w) f)); [|exact Hc].
    unfold tmp_layout. apply in_or_app. left. apply in_flat_map. exists (IFile f). split; [exact Hi | left; reflexivity].
Qed.

(* the text of an expansion is its pieces, quoted, separated by one space *)
Definition text_of (text : str) (ps : list piece) : Prop :=
  text = trim_right_sp (txt ps) \/ exists p, ps = [p] /\ text = piece_text p.

Lemma car_shape w test fl is_self tool all d ep inp text ps :
  check_and_replace w test fl is_self tool all d ep inp = ROk (text, ps) -> text_of text ps.
Proof.
  destruct fl as [[[[runnable multiple] dir] outp] hash]. unfold check_and_replace. intro H.
  destruct (all && negb multiple && Nat.ltb 1 (length (t_outs d)) && is_nil ep); [discriminate|].
  destruct (runnable && negb (t_binary d)); [discriminate|].
  destruct (runnable && is_nil (t_outs d)); [discriminate|].
  destruct (test && tool); [discriminate|].
  destruct hash.
  { injection H as <- <-. right. eexists. split; reflexivity. }
  destruct (is_nil ep).
  - injection H as <- <-. left. reflexivity.
  - destruct (assoc ep (t_eps d)); [|discriminate]. injection H as <- <-. right. eexists. split; reflexivity.
Qed.

Lemma rs_shape w test fl inp text ps : replace_sequence w test fl inp = ROk (text, ps) -> text_of text ps.
Proof.
  destruct fl as [[[[runnable multiple] dir] outp] hash]. unfold replace_sequence. cbv beta iota. intro H.
  destruct (looks_like_label inp).
  - destruct (split_entry_point inp) as [lbl_s ep].
    destruct (C20.try_parse lbl_s (w_pkg w) []) as [l| |]; try discriminate.
    unfold replace_label in H. cbv zeta in H.
    destruct (lbl_eqb _ _); [exact (car_shape _ _ _ _ _ _ _ _ _ _ _ H)|].
    destruct (find_dep _ _ _); [|discriminate]. destruct (lookup_tgt _ _); [|discriminate].
    exact (car_shape _ _ _ _ _ _ _ _ _ _ _ H).
  - destruct (runnable && existsb (input_string_is inp) (w_tools w)).
    { injection H as <- <-. right. eexists. split; reflexivity. }
    destruct hash.
    { injection H as <- <-. right. eexists. split; reflexivity. }
    destruct (has_prefix (s "/") inp); injection H as <- <-; right; eexists; split; reflexivity.
Qed.

(* C37_one_word: when every produced path is a word the splitter can vouch for, the expansion is exactly those words *)
Theorem one_word w test fl inp text ps :
  replace_sequence w test fl inp = ROk (text, ps) -> forallb piece_ok ps = true ->
  shell_words text = Some (map piece_word ps).
Proof.
  intros H OK. destruct (rs_shape _ _ _ _ _ _ H) as [->|[p [-> ->]]].
  - exact (words_of_pieces ps OK).
  - cbn [forallb] in OK. apply andb_true_iff in OK as [OK _]. exact (words_of_piece p OK).
Qed.

(* ... in particular for names made of ordinary characters and the operators `quote` handles (uses the regenerated set) *)
Theorem one_word_names w test fl inp text ps :
  replace_sequence w test fl inp = ROk (text, ps) -> forallb piece_name_ok ps = true ->
  shell_words text = Some (map piece_word ps).
Proof.
  intros H OK. apply (one_word _ _ _ _ _ _ H). rewrite forallb_forall in *. intros p Hp.
  exact (piece_name_ok_ok p (OK p Hp)).
Qed.

(* ---- rejection ------------------------------------------------------------------------------------------------------ *)

Definition is_some {A} (o : option A) : bool := match o with Some _ => true | None => false end.

(* the argument looks like a label but names nothing the rule depends on (nor the rule itself) *)
Definition names_label_not_dependency (w : world) (inp : str) : bool :=
  looks_like_label inp &&
  (let (lbl_s, _) := split_entry_point inp in
   match C20.try_parse lbl_s (w_pkg w) [] with
   | C20.Parsed l =>
       let k := label_key l in      (* package, name and subrepo *)
       negb (lbl_eqb k (t_lbl (w_self w))) && negb (declared w k && is_some (lookup_tgt k (w_graph w)))
   | C20.Invalid => true
   | C20.OutOfFuel => false
   end).

(* the argument is a plain name that is neither a source file of the rule, nor one of its system tools, nor absolute *)
Definition names_file_not_dependency (w : world) (fl : flags) (inp : str) : bool :=
  let '(runnable, _, _, _, hash) := fl in
  negb (looks_like_label inp) && negb (runnable && existsb (input_string_is inp) (w_tools w)) && negb hash
  && negb (has_prefix (s "/") inp) && negb (file_declared w inp).

Theorem rejects_label w test fl inp : names_label_not_dependency w inp = true -> replace_sequence w test fl inp = RErr.
Proof.
  destruct fl as [[[[runnable multiple] dir] outp] hash]. unfold names_label_not_dependency, replace_sequence.
  cbv beta iota. intro H. apply andb_true_iff in H as [-> H].
  destruct (split_entry_point inp) as [lbl_s ep].
  destruct (C20.try_parse lbl_s (w_pkg w) []) as [l| |]; [|reflexivity|discriminate].
  unfold replace_label. cbv zeta in *.
  apply andb_true_iff in H as [H1 H2]. apply negb_true_iff in H1, H2. rewrite H1. rewrite find_dep_exact.
  destruct (declared w _); [|reflexivity]. destruct (lookup_tgt _ _); [discriminate H2 | reflexivity].
Qed.

(* the argument resolves to the dependency d *)
Definition resolves (w : world) (inp lbl_s ep : str) (d : tgt) : Prop :=
  looks_like_label inp = true /\ split_entry_point inp = (lbl_s, ep) /\
  exists l, C20.try_parse lbl_s (w_pkg w) [] = C20.Parsed l /\
            lbl_eqb (label_key l) (t_lbl (w_self w)) = false /\
            declared w (label_key l) = true /\
            lookup_tgt (label_key l) (w_graph w) = Some d.

Lemma resolves_eq w test fl inp lbl_s ep d : resolves w inp lbl_s ep d ->
  exists tool, replace_sequence w test fl inp = check_and_replace w test fl false tool true d ep lbl_s.
Proof.
  destruct fl as [[[[runnable multiple] dir] outp] hash]. intros [LL [SP [l [P [NS [D L]]]]]].
  unfold replace_sequence. cbv beta iota. rewrite LL, SP, P. unfold replace_label. cbv zeta.
  rewrite NS, find_dep_exact, D, L.
  eexists. reflexivity.
Qed.

(* $(location), $(exe), $(out_location), $(out_exe) of a dependency with several outputs *)
Theorem rejects_wrong_count w test runnable dir outp hash inp lbl_s d :
  resolves w inp lbl_s [] d -> (1 < length (t_outs d))%nat ->
  replace_sequence w test (runnable, false, dir, outp, hash) inp = RErr.
Proof.
  intros R N. destruct (resolves_eq w test (runnable, false, dir, outp, hash) _ _ _ _ R) as [tool ->].
  unfold check_and_replace. apply Nat.ltb_lt in N. rewrite N. reflexivity.
Qed.

(* $(exe) of something that is not a binary *)
Theorem rejects_not_binary w test multiple dir outp hash inp lbl_s ep d :
  resolves w inp lbl_s ep d -> t_binary d = false ->
  replace_sequence w test (true, multiple, dir, outp, hash) inp = RErr.
Proof.
  intros R N. destruct (resolves_eq w test (true, multiple, dir, outp, hash) _ _ _ _ R) as [tool ->].
  unfold check_and_replace. rewrite N. cbn [negb andb].
  match goal with |- (if ?c then _ else _) = _ => destruct c end; reflexivity.
Qed.

(* an entry point the dependency does not have: never an expansion (an error, or log.Fatalf) *)
Theorem rejects_unknown_entry_point w test fl inp lbl_s ep d :
  resolves w inp lbl_s ep d -> is_nil ep = false -> assoc ep (t_eps d) = None ->
  replace_sequence w test fl inp = RErr \/ replace_sequence w test fl inp = RFatal
  \/ (exists h, replace_sequence w test fl inp = ROk (h, [PRaw h]) /\ snd fl = true).
Proof.
  intros R N A. destruct (resolves_eq w test fl _ _ _ _ R) as [tool ->].
  destruct fl as [[[[runnable multiple] dir] outp] hash]. unfold check_and_replace. rewrite N, A.
  destruct (true && negb multiple && Nat.ltb 1 (length (t_outs d)) && false); [left; reflexivity|].
  destruct (runnable && negb (t_binary d)); [left; reflexivity|].
  destruct (runnable && is_nil (t_outs d)); [left; reflexivity|].
  destruct (test && tool); [left; reflexivity|].
  destruct hash; [|right; left; reflexivity].
  right. right. eexists. split; reflexivity.
Qed.

Lemma car_no_fuel w test fl is_self tool all d ep inp : check_and_replace w test fl is_self tool all d ep inp <> RFuel.
Proof.
  destruct fl as [[[[runnable multiple] dir] outp] hash]. unfold check_and_replace.
  destruct (all && negb multiple && Nat.ltb 1 (length (t_outs d)) && is_nil ep); [discriminate|].
  destruct (runnable && negb (t_binary d)); [discriminate|].
  destruct (runnable && is_nil (t_outs d)); [discriminate|].
  destruct (test && tool); [discriminate|].
  destruct hash; [discriminate|]. destruct (is_nil ep); [discriminate|].
  destruct (assoc ep (t_eps d)); discriminate.
Qed.

(* the fuel of the label parser is always enough *)
Theorem never_out_of_fuel w test fl inp : replace_sequence w test fl inp <> RFuel.
Proof.
  destruct fl as [[[[runnable multiple] dir] outp] hash]. unfold replace_sequence. cbv beta iota.
  destruct (looks_like_label inp).
  - destruct (split_entry_point inp) as [lbl_s ep].
    destruct (C20.try_parse lbl_s (w_pkg w) []) as [l| |] eqn:P; [|discriminate|].
    + unfold replace_label. cbv zeta.
      destruct (lbl_eqb _ _); [apply car_no_fuel|].
      destruct (find_dep _ _ _); [|discriminate]. destruct (lookup_tgt _ _); [apply car_no_fuel | discriminate].
    + exfalso. exact (C20_Parse.try_parse_never_out_of_fuel _ _ _ P).
  - destruct (runnable && existsb (input_string_is inp) (w_tools w)); [discriminate|].
    destruct hash; [discriminate|]. destruct (has_prefix (s "/") inp); discriminate.
Qed.

(* ---- the exact label, subrepo included ---------------------------------------------------------------------------- *)

(* C37_exact_label: a label-like argument expands only if the label as written - package, name AND subrepo - is the
   rule itself, or is literally one of the labels the rule names as a source, tool or dep and that target exists.
   (Uses dep_lookup = [LookupExact], regenerated from replaceSequenceLabel: a retry under another subrepo, like the
   cross-compile TODO in the source, would have to be listed there and breaks this proof.) *)
Theorem expands_only_exact_dependency w test fl inp text ps :
  looks_like_label inp = true -> replace_sequence w test fl inp = ROk (text, ps) ->
  exists l, C20.try_parse (fst (split_entry_point inp)) (w_pkg w) [] = C20.Parsed l /\
    (label_key l = t_lbl (w_self w)
     \/ (In (label_key l) (declared_labels w)
         /\ exists d, lookup_tgt (label_key l) (w_graph w) = Some d /\ In d (w_graph w) /\ t_lbl d = label_key l)).
Proof.
  destruct fl as [[[[runnable multiple] dir] outp] hash]. unfold replace_sequence. cbv beta iota. intros -> H.
  destruct (split_entry_point inp) as [lbl_s ep]. cbn [fst].
  destruct (C20.try_parse lbl_s (w_pkg w) []) as [l| |]; try discriminate.
  exists l. split; [reflexivity|]. unfold replace_label in H. cbv zeta in H.
  destruct (lbl_eqb (label_key l) (t_lbl (w_self w))) eqn:E; [left; exact (lbl_eqb_eq _ _ E)|].
  rewrite find_dep_exact in H. right.
  destruct (declared w (label_key l)) eqn:D; [|discriminate].
  destruct (lookup_tgt (label_key l) (w_graph w)) as [d|] eqn:L; [|discriminate].
  split; [exact (declared_in _ _ D)|]. exists d. destruct (lookup_tgt_some _ _ _ L) as [L1 L2]. repeat split; assumption.
Qed.

(* the same label in another repository is another label: naming ///sub//p:n while depending on //p:n (or the other
   way round, or on another subrepo) is rejected *)
Theorem rejects_other_subrepo w test fl inp l :
  looks_like_label inp = true -> C20.try_parse (fst (split_entry_point inp)) (w_pkg w) [] = C20.Parsed l ->
  label_key l <> t_lbl (w_self w) -> ~ In (label_key l) (declared_labels w) ->
  replace_sequence w test fl inp = RErr.
Proof.
  intros LL P NS ND. destruct (replace_sequence w test fl inp) as [[text ps]| | |] eqn:H; [| reflexivity | |].
  - exfalso. destruct (expands_only_exact_dependency _ _ _ _ _ _ LL H) as [l' [P' [S|[D _]]]];
      rewrite P in P'; injection P' as <-; [exact (NS S) | exact (ND D)].
  - exfalso. revert H. destruct fl as [[[[runnable multiple] dir] outp] hash]. unfold replace_sequence. cbv beta iota.
    rewrite LL. destruct (split_entry_point inp) as [lbl_s ep]. cbn [fst] in P. rewrite P.
    unfold replace_label. cbv zeta.
    destruct (lbl_eqb (label_key l) (t_lbl (w_self w))) eqn:E; [exfalso; exact (NS (lbl_eqb_eq _ _ E))|].
    rewrite find_dep_exact. destruct (declared w (label_key l)) eqn:D; [exfalso; exact (ND (declared_in _ _ D))|].
    discriminate.
  - exfalso. exact (never_out_of_fuel _ _ _ _ H).
Qed.

(* ---- quoting each path: splitting the expansion gives the paths back --------------------------------------------- *)

(* strings.Join(xs, " ") *)
Fixpoint join_sp (xs : list str) : str :=
  match xs with
  | [] => []
  | x :: r => match r with [] => x | _ :: _ => x ++ 32%N :: join_sp r end
  end.

Lemma out_loop_pin : out_loop_writes = ["quote"; "quote"; "sep"]%string /\ s out_loop_sep = [32%N].
Proof. split; reflexivity. Qed.

(* C37_split_join: for every list of paths, each non-empty and made of ordinary characters and the operators
   | & ; ( ) < > (name_ok: no blank, no newline, none of dollar, backquote, backslash, double quote, single quote,
   star, question mark, open bracket, hash, tilde, equals, percent, braces - the characters `quote`
   cannot protect, because it only adds double quotes and only when it sees an operator), shell-splitting the
   space-joined list of the individually quoted paths returns exactly the paths.  By induction on the list. *)
Theorem split_join_quote ps : forallb name_ok ps = true -> shell_words (join_sp (map quote ps)) = Some ps.
Proof.
  unfold shell_words. induction ps as [|p ps IH]; intro H; [reflexivity|].
  cbn [forallb] in H. apply andb_true_iff in H as [Hp Hps].
  assert (piece_ok (PFile InTmp p) = true) as OK by exact (name_ok_word_ok p Hp).
  cbn [map join_sp]. destruct ps as [|q ps].
  - cbn [map]. rewrite <- (app_nil_r (quote p)). exact (sw_piece (PFile InTmp p) [] OK).
  - cbn [map]. change (quote p ++ 32%N :: join_sp (quote q :: map quote ps))
      with (piece_text (PFile InTmp p) ++ 32%N :: join_sp (map quote (q :: ps))).
    rewrite (sw_piece (PFile InTmp p) _ OK). cbn [piece_word sw]. change (is_blank 32) with true. cbv iota.
    rewrite (IH Hps). reflexivity.
Qed.

Lemma name_ok_dq_safe x : name_ok x = true -> dq_safe x = true.
Proof.
  unfold name_ok. intro H. apply andb_true_iff in H as [_ H]. rewrite forallb_forall in H.
  apply forallb_forall. intros c Hc. specialize (H c Hc). unfold name_char_ok in H.
  apply orb_true_iff in H as [H|H].
  - apply andb_true_iff in H as [_ H]. apply negb_true_iff in H.
    destruct (dq_active c) eqn:D; [rewrite (unsafe_of_dq_active _ D) in H; discriminate | reflexivity].
  - rewrite (operator_not_dq_active _ H). reflexivity.
Qed.

Lemma dq_safe_app a b : dq_safe (a ++ b) = dq_safe a && dq_safe b.
Proof. unfold dq_safe. apply forallb_app. Qed.

Lemma join_sp_dq_safe ps : forallb name_ok ps = true -> dq_safe (join_sp ps) = true.
Proof.
  induction ps as [|p ps IH]; intro H; [reflexivity|].
  cbn [forallb] in H. apply andb_true_iff in H as [Hp Hps]. cbn [join_sp]. destruct ps as [|q ps].
  - exact (name_ok_dq_safe p Hp).
  - rewrite dq_safe_app, (name_ok_dq_safe p Hp). cbn [andb]. change (32%N :: join_sp (q :: ps)) with ([32%N] ++ join_sp (q :: ps)).
    rewrite dq_safe_app, (IH Hps). reflexivity.
Qed.

(* ... whereas quoting the joined list once (the tempting simplification quote(strings.Join(paths, " "))) makes ONE
   word of two or more such paths as soon as one of them holds an operator: it is not a refinement of the above *)
Theorem quote_joined_once_is_one_word ps : forallb name_ok ps = true -> needs_quote (join_sp ps) = true ->
  shell_words (quote (join_sp ps)) = Some [join_sp ps].
Proof.
  intros H Q. unfold quote. rewrite Q. unfold shell_words.
  change (34%N :: join_sp ps ++ [34%N]) with (34%N :: join_sp ps ++ 34%N :: []).
  rewrite (sw_quoted (join_sp ps) [] [] false (join_sp_dq_safe ps H)). reflexivity.
Qed.

Corollary quote_joined_once_wrong p q ps : forallb name_ok (p :: q :: ps) = true ->
  needs_quote (join_sp (p :: q :: ps)) = true -> shell_words (quote (join_sp (p :: q :: ps))) <> Some (p :: q :: ps).
Proof. intros H Q. rewrite (quote_joined_once_is_one_word _ H Q). discriminate. Qed.

(* ---- the builder loop of checkAndReplaceSequence is strings.Join of the individually quoted paths ------------------ *)

Lemma trim_right_sp_snoc_sp x : trim_right_sp (x ++ [32%N]) = trim_right_sp x.
Proof. unfold trim_right_sp, C20.trim_right. rewrite rev_app_distr. reflexivity. Qed.

Lemma trim_right_sp_id x c : N.eqb 32 c = false -> trim_right_sp (x ++ [c]) = x ++ [c].
Proof.
  intro E. unfold trim_right_sp, C20.trim_right. rewrite rev_app_distr. cbn [rev app C20.drop_while]. rewrite E.
  cbn [rev]. rewrite rev_involutive. reflexivity.
Qed.

Lemma name_char_not_space c : name_char_ok c = true -> N.eqb 32 c = false.
Proof.
  intro H. destruct (N.eqb 32 c) eqn:E; [|reflexivity]. apply N.eqb_eq in E. subst c. vm_compute in H. discriminate H.
Qed.

(* a quoted name ends in a byte that is not a space (so TrimRight leaves it alone) *)
Lemma quote_ends_nonblank x : name_ok x = true -> exists y c, quote x = y ++ [c] /\ N.eqb 32 c = false.
Proof.
  unfold name_ok. intro H. apply andb_true_iff in H as [Hne H]. unfold quote. destruct (needs_quote x).
  - exists (34%N :: x), 34%N. split; reflexivity.
  - destruct (exists_last (l := x)) as [y [c E]]; [intro E; subst x; discriminate Hne|].
    exists y, c. split; [exact E|]. rewrite forallb_forall in H. apply name_char_not_space. apply H.
    rewrite E. apply in_or_app. right. left. reflexivity.
Qed.

Lemma join_ends_nonblank p ps : forallb name_ok (p :: ps) = true ->
  exists y c, join_sp (map quote (p :: ps)) = y ++ [c] /\ N.eqb 32 c = false.
Proof.
  revert p. induction ps as [|q ps IH]; intros p H; cbn [forallb] in H; apply andb_true_iff in H as [Hp Hps].
  - exact (quote_ends_nonblank p Hp).
  - destruct (IH q Hps) as [y [c [E Hc]]]. exists (quote p ++ 32%N :: y), c. split; [|exact Hc].
    cbn [map join_sp] in *. rewrite E. rewrite <- app_assoc. reflexivity.
Qed.

Definition builder (xs : list str) : str := concat (map (fun x => x ++ [32%N]) xs).

Lemma builder_join x xs : builder (x :: xs) = join_sp (x :: xs) ++ [32%N].
Proof.
  revert x. induction xs as [|y xs IH]; intro x.
  - unfold builder. cbn [map concat join_sp]. rewrite app_nil_r. reflexivity.
  - unfold builder in *. cbn [map concat]. cbn [map concat] in IH. rewrite IH. cbn [join_sp].
    rewrite <- !app_assoc. reflexivity.
Qed.

(* C37_join: for names over ordinary characters and the operators, what the loop builds - quote(path), a space, ...,
   trimmed - is strings.Join(map quote paths, " "); with split_join_quote: splitting it gives the paths *)
Theorem builder_is_join ps : forallb name_ok ps = true ->
  trim_right_sp (builder (map quote ps)) = join_sp (map quote ps).
Proof.
  destruct ps as [|p ps]; intro H; [reflexivity|].
  cbn [map]. rewrite builder_join. rewrite trim_right_sp_snoc_sp.
  destruct (join_ends_nonblank p ps H) as [y [c [E Hc]]]. cbn [map] in E. rewrite E. exact (trim_right_sp_id y c Hc).
Qed.

Lemma one_out_text w test is_self tool d dir outp o :
  piece_text (one_out w test is_self tool d dir outp o) = quote (piece_word (one_out w test is_self tool d dir outp o)).
Proof.
  unfold one_out, file_destination, mk_piece. destruct tool; [destruct dir; reflexivity|].
  destruct outp; [destruct dir; reflexivity|]. destruct (test && is_self); [reflexivity|]. destruct dir; reflexivity.
Qed.

(* the model's expansion of a sequence without entry point and without $(hash): Join of the quoted paths *)
Theorem car_text_is_join w test runnable multiple dir outp is_self tool all d inp text ps :
  check_and_replace w test (runnable, multiple, dir, outp, false) is_self tool all d [] inp = ROk (text, ps) ->
  forallb name_ok (map piece_word ps) = true ->
  text = join_sp (map quote (map piece_word ps)) /\ shell_words text = Some (map piece_word ps).
Proof.
  unfold check_and_replace. intros H OK.
  destruct (all && negb multiple && Nat.ltb 1 (length (t_outs d)) && is_nil []); [discriminate|].
  destruct (runnable && negb (t_binary d)); [discriminate|].
  destruct (runnable && is_nil (t_outs d)); [discriminate|].
  destruct (test && tool); [discriminate|]. cbn [is_nil] in H. injection H as <- <-.
  set (sel := if dir then _ else _) in *.
  assert (map (fun p => piece_text p ++ [32%N]) (map (one_out w test is_self tool d dir outp) sel)
          = map (fun x => x ++ [32%N]) (map quote (map piece_word (map (one_out w test is_self tool d dir outp) sel)))) as E.
  { rewrite !map_map. apply map_ext. intro o. rewrite one_out_text. reflexivity. }
  rewrite E. fold (builder (map quote (map piece_word (map (one_out w test is_self tool d dir outp) sel)))).
  rewrite (builder_is_join _ OK). split; [reflexivity | exact (split_join_quote _ OK)].
Qed.

(* ---- witnesses of the defects of the unchanged code ------------------------------------------------------------------ *)

Definition loc_flags : flags := (false, false, false, false, false).       (* $(location) *)
Definition locs_flags : flags := (false, true, false, false, false).       (* $(locations) *)
Definition exe_flags : flags := (true, false, false, false, false).        (* $(exe) *)
Definition dir_flags : flags := (false, true, true, false, false).         (* $(dir) *)

Definition self_p : tgt := T (s "p", s "gen", []) [s "gen.out"] [] [] false.

(* an output named `a b.txt` *)
Definition w_space : world :=
  mk_world self_p [ILabel (s "p", s "sp", [])] [] [] [T (s "p", s "sp", []) [s "a b.txt"] [] [] false] (s "/r").

Lemma loc_flags_in : In loc_flags (map snd passes).
Proof. left. reflexivity. Qed.

Lemma w_space_wf : wf_world w_space = true.
Proof. reflexivity. Qed.

Lemma w_space_expands :
  replace_sequence w_space false loc_flags (s ":sp") = ROk (s "p/a b.txt", [PFile InTmp (s "p/a b.txt")]).
Proof. vm_compute. reflexivity. Qed.

Lemma w_space_fails :
  (forall p, In p [PFile InTmp (s "p/a b.txt")] -> present w_space p = true)
  /\ shell_words (s "p/a b.txt") = Some (map piece_word [PFile InTmp (s "p/a b.txt")]) -> False.
Proof. intros [_ H]. vm_compute in H. discriminate H. Qed.

(* a file that is not a source *)
Definition w_nofile : world := mk_world self_p [] [] [] [] (s "/r").
(* a source //p:named|n1 *)
Definition w_named : world :=
  mk_world self_p [IAnnot (s "p", s "named", []) (s "n1")] [] []
           [T (s "p", s "named", []) [s "n1.txt"; s "n2.txt"] [(s "n1", [s "n1.txt"]); (s "n2", [s "n2.txt"])] [] false] (s "/r").
(* a tool with an entry point *)
Definition w_toolep : world :=
  mk_world self_p [] [ILabel (s "p", s "tool", [])] [] [T (s "p", s "tool", []) [s "bin/t.sh"] [] [(s "main", s "bin/t.sh")] true] (s "/r").
(* a dependency in the root package *)
Definition w_rootdir : world :=
  mk_world (T ([], s "gen", []) [s "gen.out"] [] [] false) [ILabel ([], s "rootdep", [])] [] [] [T ([], s "rootdep", []) [s "r.txt"] [] [] false] (s "/r").
