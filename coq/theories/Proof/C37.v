(* C37 - proofs about the model of the command location expansions (Model/C37.v). *)
From Coq Require Import String Lia.
From PlzV Require Import Base.Harness Base.StrFacts Gen.CmdReplTables Model.C37.
From PlzV Require Model.C20 Proof.C20_Parse.
Local Open Scope list_scope.

(* ---- the regenerated tables ------------------------------------------------------------------------------------- *)

(* the control operators of the shell: the characters `quote` is documented to neutralise *)
Definition operators : str := s "|&;()<>".

Lemma quote_set_covers_operators : forallb (fun c => C20.mem_byte c quote_set) operators = true.
Proof. vm_compute. reflexivity. Qed.

(* double quotes neutralise every character `quote` reacts to *)
Lemma quote_set_inert_in_quotes : forallb (fun c => negb (dq_active c)) quote_set = true.
Proof. vm_compute. reflexivity. Qed.

(* every pass hands replaceSequence exactly the captured group: in[N:len(in)-1] with N = len("$(KW ") *)
Lemma passes_offsets_ok :
  forallb (fun p => Nat.eqb (snd (fst p)) (length (pass_prefix (fst (fst p))))) passes = true.
Proof. vm_compute. reflexivity. Qed.

Lemma passes_pin :
  passes = [("location", 11, (false, false, false, false, false));
            ("locations", 12, (false, true, false, false, false));
            ("exe", 6, (true, false, false, false, false));
            ("out_location", 15, (false, false, false, true, false));
            ("out_locations", 16, (false, true, false, true, false));
            ("out_exe", 10, (true, false, false, true, false));
            ("dir", 6, (false, true, true, false, false));
            ("out_dir", 10, (false, true, true, true, false));
            ("hash", 7, (false, true, true, false, true))]%string.
Proof. reflexivity. Qed.

Lemma unescape_pin : s unescape_from = [92; 36]%N /\ s unescape_to = [36]%N /\ ep_sep = 124%N.
Proof. repeat split. Qed.

(* ---- general facts ---------------------------------------------------------------------------------------------- *)

Lemma has_prefix_app a b : has_prefix a (a ++ b) = true.
Proof.
  unfold has_prefix, C20.has_prefix. induction a as [|x a IH]; cbn [app LabelTables.has_prefix].
  - destruct b; reflexivity.
  - rewrite N.eqb_refl. exact IH.
Qed.

Lemma has_prefix_app_l a b c : has_prefix (a ++ b) (a ++ c) = has_prefix b c.
Proof.
  unfold has_prefix, C20.has_prefix. induction a as [|x a IH]; cbn [app LabelTables.has_prefix].
  - reflexivity.
  - rewrite N.eqb_refl. exact IH.
Qed.

Lemma lbl_eqb_eq a b : lbl_eqb a b = true -> a = b.
Proof.
  destruct a as [a1 a2], b as [b1 b2]. unfold lbl_eqb. cbn [fst snd]. intro H.
  apply andb_true_iff in H as [H1 H2]. apply str_eqb_eq in H1, H2. subst. reflexivity.
Qed.

Lemma lbl_eqb_refl a : lbl_eqb a a = true.
Proof. destruct a. unfold lbl_eqb. cbn [fst snd]. rewrite !str_eqb_refl. reflexivity. Qed.

Lemma lookup_tgt_some l g d : lookup_tgt l g = Some d -> In d g /\ t_lbl d = l.
Proof.
  induction g as [|x g IH]; cbn [lookup_tgt]; [discriminate|].
  destruct (lbl_eqb (t_lbl x) l) eqn:E.
  - intro H. injection H as ->. split; [left; reflexivity | exact (lbl_eqb_eq _ _ E)].
  - intro H. destruct (IH H) as [H1 H2]. split; [right; exact H1 | exact H2].
Qed.

Lemma join_ne a b : is_nil a = false -> is_nil b = false -> join a b = a ++ 47%N :: b.
Proof. unfold join. intros -> ->. reflexivity. Qed.

Lemma join_nil_l b : join [] b = b.
Proof. reflexivity. Qed.

Lemma is_nil_app_cons {A} (a : list A) x b : is_nil (a ++ x :: b) = false.
Proof. destruct a; reflexivity. Qed.

Lemma out_dir_ne d : is_nil (out_dir d) = false.
Proof.
  unfold out_dir, join. destruct (t_binary d); cbn [is_nil bin_dir gen_dir s];
    destruct (fst (t_lbl d)); reflexivity.
Qed.

Lemma covers_refl x : covers x x = true.
Proof. unfold covers. rewrite str_eqb_refl. reflexivity. Qed.

(* covers o out -> out is not empty when o is not *)
Lemma covers_ne o out : is_nil o = false -> covers o out = true -> is_nil out = false.
Proof.
  unfold covers. intros Ho H. apply orb_true_iff in H as [H|H].
  - apply str_eqb_eq in H. subst. exact Ho.
  - destruct out; [|reflexivity]. destruct o; [discriminate|]. discriminate.
Qed.

(* prefixing both sides with a directory keeps `covers` *)
Lemma covers_join x o out : is_nil o = false -> covers o out = true -> covers (join x o) (join x out) = true.
Proof.
  intros Ho H. pose proof (covers_ne _ _ Ho H) as Hout.
  destruct x as [|c x]; [exact H|].
  rewrite (join_ne (c :: x) o), (join_ne (c :: x) out) by (reflexivity || assumption).
  unfold covers in *. apply orb_true_iff in H as [H|H].
  - apply str_eqb_eq in H. subst. rewrite str_eqb_refl. reflexivity.
  - apply orb_true_iff. right.
    replace (((c :: x) ++ 47%N :: o) ++ [47%N]) with (((c :: x) ++ [47%N]) ++ (o ++ [47%N])).
    2:{ rewrite <- !app_assoc. reflexivity. }
    replace ((c :: x) ++ 47%N :: out) with (((c :: x) ++ [47%N]) ++ out).
    2:{ rewrite <- app_assoc. reflexivity. }
    rewrite has_prefix_app_l. exact H.
Qed.

(* x/ is a prefix of join x o *)
Lemma dir_of_join x o : is_nil x = false -> is_nil o = false -> dir_of x (join x o) = true.
Proof.
  intros Hx Ho. rewrite (join_ne _ _ Hx Ho). unfold dir_of.
  replace (x ++ 47%N :: o) with ((x ++ [47%N]) ++ o) by (rewrite <- app_assoc; reflexivity).
  apply has_prefix_app.
Qed.

(* ---- the shell word splitter ------------------------------------------------------------------------------------ *)

Lemma quote_char_unsafe c : N.eqb c 34 = true -> unsafe c = true.
Proof. intro H. apply N.eqb_eq in H. subst. vm_compute. reflexivity. Qed.

Lemma quote_char_dq_active c : N.eqb c 34 = true -> dq_active c = true.
Proof. intro H. apply N.eqb_eq in H. subst. vm_compute. reflexivity. Qed.

Lemma sw_plain p : forall r cur st, plain_safe p = true ->
  sw (p ++ r) cur st false = sw r (cur ++ p) (st || negb (is_nil p)) false.
Proof.
  induction p as [|c p IH]; intros r cur st H.
  - cbn [app is_nil negb]. rewrite app_nil_r, orb_false_r. reflexivity.
  - cbn [plain_safe forallb] in H. apply andb_true_iff in H as [Hc Hp].
    apply andb_true_iff in Hc as [Hb Hu]. apply negb_true_iff in Hb, Hu.
    cbn [app sw]. rewrite Hb.
    destruct (N.eqb c 34) eqn:E34; [rewrite (quote_char_unsafe _ E34) in Hu; discriminate|].
    rewrite Hu. rewrite (IH r (cur ++ [c]) true Hp). rewrite <- app_assoc. cbn [app is_nil negb].
    rewrite orb_true_r. reflexivity.
Qed.

Lemma sw_inq p : forall r cur, dq_safe p = true ->
  sw (p ++ 34%N :: r) cur true true = sw r (cur ++ p) true false.
Proof.
  induction p as [|c p IH]; intros r cur H.
  - cbn [app sw]. rewrite N.eqb_refl, app_nil_r. reflexivity.
  - cbn [dq_safe forallb] in H. apply andb_true_iff in H as [Hc Hp]. apply negb_true_iff in Hc.
    cbn [app sw].
    destruct (N.eqb c 34) eqn:E34; [rewrite (quote_char_dq_active _ E34) in Hc; discriminate|].
    rewrite Hc. rewrite (IH r (cur ++ [c]) Hp). rewrite <- app_assoc. reflexivity.
Qed.

Lemma sw_quoted p r cur st : dq_safe p = true ->
  sw (34%N :: p ++ 34%N :: r) cur st false = sw r (cur ++ p) true false.
Proof. intro H. cbn [sw]. change (is_blank 34) with false. cbn [N.eqb Pos.eqb]. apply sw_inq. exact H. Qed.

Lemma sw_piece p r : piece_ok p = true ->
  sw (piece_text p ++ r) [] false false = sw r (piece_word p) true false.
Proof.
  intro H. destruct p as [b x|b x|t]; cbn [piece_ok piece_text piece_word] in *;
    apply andb_true_iff in H as [Hne H]; apply negb_true_iff in Hne.
  1,2: unfold quote; destruct (needs_quote x).
  1,3: replace ((34%N :: x ++ [34%N]) ++ r) with (34%N :: x ++ 34%N :: r)
         by (cbn [app]; rewrite <- app_assoc; reflexivity);
       rewrite (sw_quoted x r [] false H); reflexivity.
  all: rewrite (sw_plain _ r [] false H); rewrite Hne; reflexivity.
Qed.

Definition txt (ps : list piece) : str := concat (map (fun p => piece_text p ++ [32%N]) ps).

Lemma sw_txt ps : forallb piece_ok ps = true -> sw (txt ps) [] false false = Some (map piece_word ps).
Proof.
  induction ps as [|p ps IH]; intro H; [reflexivity|].
  cbn [forallb] in H. apply andb_true_iff in H as [Hp Hps].
  unfold txt. cbn [map concat]. rewrite <- app_assoc. rewrite (sw_piece p _ Hp).
  cbn [app sw]. change (is_blank 32) with true. cbv iota.
  fold (txt ps). rewrite (IH Hps). reflexivity.
Qed.

Lemma sw_spaces_out n : forall cur st, sw (repeat 32%N n) cur st false = Some (if st then [cur] else []).
Proof.
  induction n as [|n IH]; intros cur st; [reflexivity|].
  cbn [repeat sw]. change (is_blank 32) with true. cbv iota. rewrite IH. destruct st; reflexivity.
Qed.

Lemma sw_spaces_in n : forall cur st, sw (repeat 32%N n) cur st true = None.
Proof.
  induction n as [|n IH]; intros cur st; [reflexivity|].
  cbn [repeat sw]. change (N.eqb 32 34) with false. change (dq_active 32) with false. cbv iota. apply IH.
Qed.

Lemma sw_app_spaces n y : forall cur st inq, sw (y ++ repeat 32%N n) cur st inq = sw y cur st inq.
Proof.
  induction y as [|c y IH]; intros cur st inq.
  - cbn [app]. destruct inq; [rewrite sw_spaces_in | rewrite sw_spaces_out]; reflexivity.
  - cbn [app sw]. rewrite !IH. reflexivity.
Qed.

Lemma drop_while_spaces l : exists n, l = repeat 32%N n ++ C20.drop_while (N.eqb 32) l.
Proof.
  induction l as [|c l [n IH]]; [exists O; reflexivity|].
  cbn [C20.drop_while]. destruct (N.eqb 32 c) eqn:E.
  - apply N.eqb_eq in E. subst c. exists (S n). cbn [repeat app]. f_equal. exact IH.
  - exists O. reflexivity.
Qed.

Lemma rev_repeat {A} (a : A) n : rev (repeat a n) = repeat a n.
Proof.
  induction n as [|n IH]; [reflexivity|]. cbn [repeat rev]. rewrite IH.
  clear IH. induction n as [|n IH]; [reflexivity|]. cbn [repeat app]. f_equal. exact IH.
Qed.

Lemma trim_right_sp_spec x : exists n, x = trim_right_sp x ++ repeat 32%N n.
Proof.
  unfold trim_right_sp, C20.trim_right. destruct (drop_while_spaces (rev x)) as [n H].
  exists n. rewrite <- (rev_involutive x) at 1. rewrite H at 1. rewrite rev_app_distr, rev_repeat. reflexivity.
Qed.

Lemma sw_trim x : shell_words (trim_right_sp x) = shell_words x.
Proof.
  unfold shell_words. destruct (trim_right_sp_spec x) as [n H]. rewrite H at 2. rewrite sw_app_spaces. reflexivity.
Qed.

Lemma words_of_pieces ps : forallb piece_ok ps = true ->
  shell_words (trim_right_sp (txt ps)) = Some (map piece_word ps).
Proof. intro H. rewrite sw_trim. exact (sw_txt ps H). Qed.

Lemma words_of_piece p : piece_ok p = true -> shell_words (piece_text p) = Some [piece_word p].
Proof.
  intro H. unfold shell_words. rewrite <- (app_nil_r (piece_text p)). rewrite (sw_piece p [] H). reflexivity.
Qed.

(* names made of ordinary characters and of the control operators `quote` is documented to handle *)
Definition name_char_ok (c : N) : bool := (negb (is_blank c) && negb (unsafe c)) || C20.mem_byte c operators.
Definition name_ok (x : str) : bool := negb (is_nil x) && forallb name_char_ok x.

Lemma operator_in_quote_set c : C20.mem_byte c operators = true -> C20.mem_byte c quote_set = true.
Proof.
  intro H. pose proof quote_set_covers_operators as Q. rewrite forallb_forall in Q.
  unfold C20.mem_byte in H. apply existsb_exists in H as [o [Ho Hc]]. apply N.eqb_eq in Hc. subst o.
  apply Q. exact Ho.
Qed.

Lemma operator_not_dq_active c : C20.mem_byte c operators = true -> dq_active c = false.
Proof.
  intro H. unfold C20.mem_byte in H. apply existsb_exists in H as [o [Ho Hc]]. apply N.eqb_eq in Hc. subst o.
  revert c Ho. apply Forall_forall. vm_compute. repeat constructor.
Qed.

Lemma unsafe_of_dq_active c : dq_active c = true -> unsafe c = true.
Proof.
  intro H. unfold dq_active, C20.mem_byte in H. apply existsb_exists in H as [o [Ho Hc]]. apply N.eqb_eq in Hc. subst o.
  revert c Ho. apply Forall_forall. vm_compute. repeat constructor.
Qed.

Lemma name_ok_word_ok x : name_ok x = true ->
  negb (is_nil x) && (if needs_quote x then dq_safe x else plain_safe x) = true.
Proof.
  unfold name_ok. intro H. apply andb_true_iff in H as [Hne H]. rewrite Hne. cbn [andb].
  rewrite forallb_forall in H.
  destruct (needs_quote x) eqn:Q.
  - unfold dq_safe. apply forallb_forall. intros c Hc. specialize (H c Hc). unfold name_char_ok in H.
    apply orb_true_iff in H as [H|H].
    + apply andb_true_iff in H as [_ H]. apply negb_true_iff in H.
      destruct (dq_active c) eqn:D; [rewrite (unsafe_of_dq_active _ D) in H; discriminate | reflexivity].
    + rewrite (operator_not_dq_active _ H). reflexivity.
  - unfold plain_safe. apply forallb_forall. intros c Hc. specialize (H c Hc). unfold name_char_ok in H.
    apply orb_true_iff in H as [H|H]; [exact H|]. exfalso.
    unfold needs_quote, C20.contains_any in Q.
    assert (existsb (fun c => C20.mem_byte c quote_set) x = true) as E.
    { apply existsb_exists. exists c. split; [exact Hc | exact (operator_in_quote_set _ H)]. }
    rewrite E in Q. discriminate.
Qed.

Definition piece_name_ok (p : piece) : bool :=
  match p with PRaw t => negb (is_nil t) && plain_safe t | PFile _ x => name_ok x | PDir _ x => name_ok x end.

Lemma piece_name_ok_ok p : piece_name_ok p = true -> piece_ok p = true.
Proof. destruct p; cbn [piece_name_ok piece_ok]; auto using name_ok_word_ok. Qed.

(* ---- where the outputs are ---------------------------------------------------------------------------------------- *)

Lemma sel_subset (dir : bool) (f : str -> bool) (outs : list str) o :
  In o (if dir then firstn 1 (filter f outs) else filter f outs) -> In o outs.
Proof.
  intro H. assert (In o (filter f outs)) as H'.
  { destruct dir; [|exact H]. destruct (filter f outs) as [|a l]; [destruct H|].
    cbn [firstn] in H. destruct H as [<-|[]]. left. reflexivity. }
  apply filter_In in H'. exact (proj1 H').
Qed.

Lemma in_out_layout w k d o :
  lookup_tgt k (w_graph w) = Some d -> declared w k = true -> In o (t_outs d) ->
  In (join (out_dir d) o) (out_layout w).
Proof.
  intros L D Ho. destruct (lookup_tgt_some _ _ _ L) as [Hin Hl].
  unfold out_layout. apply in_flat_map. exists d. split; [exact Hin|].
  rewrite Hl, D. apply in_map. exact Ho.
Qed.

Lemma all_outs_of_spec w k d o :
  lookup_tgt k (w_graph w) = Some d -> In o (t_outs d) -> In (join (fst (t_lbl d)) o) (all_outs_of w k).
Proof. intros L Ho. unfold all_outs_of. rewrite L. unfold prefixed. apply in_map. exact Ho. Qed.

Lemma in_tmp_layout_placed w k d o :
  placed_whole w k d = true -> lookup_tgt k (w_graph w) = Some d -> In o (t_outs d) ->
  In (join (fst (t_lbl d)) o) (tmp_layout w).
Proof.
  intros P L Ho. unfold placed_whole in P. unfold tmp_layout. apply in_or_app.
  apply orb_true_iff in P as [P|P].
  - left. apply existsb_exists in P as [i [Hi Pi]]. apply in_flat_map. exists i. split; [exact Hi|].
    destruct i as [f|k'|k' ann|p]; try discriminate.
    + apply lbl_eqb_eq in Pi. subst k'. cbn [input_paths]. exact (all_outs_of_spec _ _ _ _ L Ho).
    + apply andb_true_iff in Pi as [Pk Pe]. apply lbl_eqb_eq in Pk. subst k'. cbn [input_paths]. rewrite L.
      destruct (assoc ann (t_eps d)); [|discriminate]. unfold prefixed. apply in_map. exact Ho.
  - right. apply andb_true_iff in P as [Pd Pt]. apply negb_true_iff in Pt.
    apply existsb_exists in Pd as [k' [Hk' E]]. apply lbl_eqb_eq in E. subst k'.
    apply in_flat_map. exists k. split; [exact Hk'|]. rewrite Pt. exact (all_outs_of_spec _ _ _ _ L Ho).
Qed.

Lemma present_file_tmp w x r : In r (tmp_layout w) -> covers r x = true -> present w (PFile InTmp x) = true.
Proof. intros Hr Hc. cbn [present]. apply existsb_exists. exists r. split; assumption. Qed.

Lemma present_file_repo w x r : In r (out_layout w) -> covers r x = true -> present w (PFile InRepo x) = true.
Proof. intros Hr Hc. cbn [present]. apply existsb_exists. exists r. split; assumption. Qed.

(* the conditions under which the classifier finds no defect in a sequence that names the dependency d *)
Definition dep_ok (w : world) (k : lbl) (d : tgt) (tool dir outp hash : bool) (ep : str) : Prop :=
  hash = true \/ outp = true \/ (is_nil ep = true /\ tool = true)
  \/ (tool = false /\ placed_whole w k d = true
      /\ (dir && is_nil (fst (t_lbl d)) && (negb (is_nil ep) || negb (is_nil (t_outs d))) = false)).

Lemma car_present w (runnable multiple dir outp hash : bool) tool d ep inp text ps k :
  wf_tgt d = true -> lookup_tgt k (w_graph w) = Some d -> declared w k = true ->
  check_and_replace w false (runnable, multiple, dir, outp, hash) false tool true d ep inp = ROk (text, ps) ->
  dep_ok w k d tool dir outp hash ep ->
  forall p, In p ps -> present w p = true.
Proof.
  intros WF L D H OK p Hp. unfold check_and_replace in H.
  apply andb_true_iff in WF as [WFo WFe]. rewrite forallb_forall in WFo, WFe.
  assert (forall o, In o (t_outs d) -> is_nil o = false) as One.
  { intros o Ho. apply negb_true_iff. exact (WFo o Ho). }
  destruct (true && negb multiple && Nat.ltb 1 (length (t_outs d)) && is_nil ep); [discriminate|].
  destruct (runnable && negb (t_binary d)); [discriminate|].
  destruct (runnable && is_nil (t_outs d)); [discriminate|].
  cbn [andb] in H.
  destruct hash.
  { injection H as _ <-. destruct Hp as [<-|[]]. reflexivity. }
  destruct (is_nil ep) eqn:Eep.
  - (* the loop over the outputs *)
    injection H as _ <-. apply in_map_iff in Hp as [o [<- Ho]]. apply sel_subset in Ho.
    pose proof (One o Ho) as Hone. pose proof (out_dir_ne d) as Hod.
    unfold one_out. destruct tool.
    + (* a tool: absolute path below plz-out *)
      pose proof (in_out_layout w k d o L D Ho) as Hin.
      unfold mk_piece, handle_dir. destruct dir; cbn [present]; apply existsb_exists;
        exists (join (out_dir d) o); (split; [exact Hin|]).
      * (* the directory *)
        rewrite (join_ne (out_dir d) o Hod Hone).
        destruct (w_root w) as [|c root].
        -- rewrite !join_nil_l. rewrite <- (join_ne _ _ Hod Hone). apply dir_of_join; assumption.
        -- rewrite (join_ne (c :: root) (out_dir d)) by (reflexivity || assumption).
           rewrite (join_ne (c :: root) (out_dir d ++ 47%N :: o)) by (reflexivity || apply is_nil_app_cons).
           unfold dir_of.
           replace (((c :: root) ++ 47%N :: out_dir d) ++ [47%N]) with (((c :: root) ++ [47%N]) ++ (out_dir d ++ [47%N]))
             by (rewrite <- !app_assoc; reflexivity).
           replace ((c :: root) ++ 47%N :: out_dir d ++ 47%N :: o) with (((c :: root) ++ [47%N]) ++ ((out_dir d ++ [47%N]) ++ o))
             by (rewrite <- !app_assoc; reflexivity).
           rewrite has_prefix_app_l. apply has_prefix_app.
      * apply covers_refl.
    + unfold file_destination. cbn [andb]. destruct outp.
      * (* out_ forms: below plz-out, relative to the repository root *)
        pose proof (in_out_layout w k d o L D Ho) as Hin.
        unfold mk_piece, handle_dir. destruct dir; cbn [present]; apply existsb_exists;
          exists (join (out_dir d) o); (split; [exact Hin|]).
        -- apply dir_of_join; assumption.
        -- apply covers_refl.
      * (* the build directory *)
        destruct OK as [OK|[OK|[[_ OK]|[_ [P R]]]]]; [discriminate OK | discriminate OK | discriminate OK |].
        pose proof (in_tmp_layout_placed w k d o P L Ho) as Hin.
        unfold mk_piece, handle_dir. destruct dir; cbn [present].
        -- destruct (is_nil (fst (t_lbl d))) eqn:Epkg.
           ++ exfalso. rewrite Epkg in R. cbn [andb] in R. apply orb_false_iff in R as [_ R]. apply negb_false_iff in R.
              destruct (t_outs d); [destruct Ho | discriminate].
           ++ cbn [negb andb]. apply existsb_exists. exists (join (fst (t_lbl d)) o). split; [exact Hin|].
              apply dir_of_join; assumption.
        -- apply existsb_exists. exists (join (fst (t_lbl d)) o). split; [exact Hin | apply covers_refl].
  - (* an entry point *)
    destruct (assoc ep (t_eps d)) as [out|] eqn:A; [|discriminate].
    injection H as _ <-. destruct Hp as [<-|[]].
    assert (In (ep, out) (t_eps d)) as Hin_ep.
    { clear - A. induction (t_eps d) as [|[a b] l IH]; cbn [assoc] in A; [discriminate|].
      destruct (str_eqb a ep) eqn:E; [|right; exact (IH A)].
      apply str_eqb_eq in E. injection A as ->. subst. left. reflexivity. }
    specialize (WFe _ Hin_ep). cbn [snd] in WFe. apply existsb_exists in WFe as [o [Ho Hc]].
    pose proof (One o Ho) as Hone. pose proof (out_dir_ne d) as Hod.
    unfold file_destination. cbn [andb]. destruct outp.
    + pose proof (in_out_layout w k d o L D Ho) as Hin.
      unfold mk_piece, handle_dir. destruct dir; cbn [present]; apply existsb_exists;
        exists (join (out_dir d) o); (split; [exact Hin|]).
      * apply dir_of_join; assumption.
      * apply covers_join; assumption.
    + destruct OK as [OK|[OK|[[OK _]|[_ [P R]]]]]; [discriminate OK | discriminate OK | rewrite Eep in OK; discriminate OK |].
      pose proof (in_tmp_layout_placed w k d o P L Ho) as Hin.
      unfold mk_piece, handle_dir. destruct dir; cbn [present].
      * destruct (is_nil (fst (t_lbl d))) eqn:Epkg.
        -- exfalso. rewrite Epkg, Eep in R. cbn [andb negb orb] in R. discriminate R.
        -- cbn [negb andb]. apply existsb_exists. exists (join (fst (t_lbl d)) o). split; [exact Hin|].
           apply dir_of_join; assumption.
      * apply existsb_exists. exists (join (fst (t_lbl d)) o). split; [exact Hin | apply covers_join; assumption].
Qed.
