(* C17 - parametricity of the evaluator in the ids it allocates, part 7: whole BUILD files and sequences of them;
   THE THEOREM: from an interpreter at rest (RestInv) whose state is closed (every id that occurs in it is the id of
   an existing object - true of every state the interpreter can reach, and tested by closed_stateb), the outcomes
   (globals right after the file ran / error) of any BUILD files bs are the same whether or not other BUILD files h
   were interpreted before them. *)
From Coq Require Import String Lia.
From PlzV Require Import Base.Harness Base.StrFacts Gen.AspTables Model.C16_Syntax Model.C16_Ops Model.C16_Prim Model.C16_Eval.
From PlzV Require Import Proof.C17_Inv Proof.C17_Ops Proof.C17_Main Proof.C17_NoConst Proof.C17_Scopes Proof.C17_Iso.
From PlzV Require Import Proof.C17_Sim1 Proof.C17_Sim2 Proof.C17_Sim3 Proof.C17_Sim4 Proof.C17_Sim5 Proof.C17_Sim6.
Local Open Scope list_scope.
Local Open Scope nat_scope.

(* ---------------------------------------------------------------- files and sequences of files *)
Section Top.
Variable W : shift.
Variable defs : list (str * prog).
Notation rn_env := (C17_Sim1.rn_env W).
Notation sim := (C17_Sim1.sim W defs).
Notation shs := (C17_Sim1.shs W).

Lemma exec_top_sim : forall fuel ss st st', sim st st' ->
  fst (exec_top Asp defs fuel ss st') = fst (exec_top Asp defs fuel ss st) /\
  sim (snd (exec_top Asp defs fuel ss st)) (snd (exec_top Asp defs fuel ss st')).
Proof.
  intros fuel. induction ss as [|s0 r IH]; intros st st' HS; cbn [exec_top].
  - split; [reflexivity|exact HS].
  - pose proof (si_S _ _ _ (all_sims W defs fuel) s0 st st' HS) as H.
    destruct (exec_stmt Asp defs fuel s0 st) as [[r0 s1]|k|], (exec_stmt Asp defs fuel s0 st') as [[r0' s1']|k'|]; cbn in H; try contradiction.
    + destruct H as [Hr H1]. red in Hr. subst r0'. destruct r0; cbn [C17_Sim4.rn_sres]; try (split; [reflexivity|exact H1]).
      apply IH. exact H1.
    + subst k'. split; [reflexivity|exact HS].
    + split; [reflexivity|exact HS].
Qed.

Theorem run_builds_sim : forall fuel builds st st', sim st st' ->
  map (@snd _ _) (fst (run_builds Asp defs fuel builds st')) = map (@snd _ _) (fst (run_builds Asp defs fuel builds st)) /\
  sim (snd (run_builds Asp defs fuel builds st)) (snd (run_builds Asp defs fuel builds st')).
Proof.
  intros fuel. induction builds as [|p r IH]; intros st st' HS; cbn [run_builds].
  - split; [reflexivity|exact HS].
  - pose proof (new_scope_sim W defs st st' HS) as HN.
    destruct (exec_top_sim fuel p _ _ HN) as [Hfst Hsim].
    destruct (exec_top Asp defs fuel p (set_locals [] (set_cur (length (fscopes st)) (set_fscopes (fscopes st ++ [[]]) st)))) as [[e oof] s2].
    destruct (exec_top Asp defs fuel p (set_locals [] (set_cur (length (fscopes st')) (set_fscopes (fscopes st' ++ [[]]) st')))) as [[e' oof'] s2'].
    cbn [fst snd] in Hfst, Hsim. injection Hfst as -> ->.
    assert (Hafter : render_env Asp s2' (nth (length (fscopes st')) (fscopes s2') []) = render_env Asp s2 (nth (length (fscopes st)) (fscopes s2) [])).
    { rewrite <- (hrel_len _ _ _ _ _ _ (sm_fs _ _ _ _ HS)). fold shs. rewrite (fscope_sim _ _ _ _ Hsim). apply (render_env_sim _ _ _ _ Hsim). }
    assert (Hl : sim (set_locals [] s2) (set_locals [] s2')) by (apply (set_locals_sim W defs _ _ [] Hsim)).
    destruct e as [k|]; [destruct k|destruct oof].
    + destruct (IH _ _ Hl) as [H1 H2].
      destruct (run_builds Asp defs fuel r (set_locals [] s2)) as [rest s3], (run_builds Asp defs fuel r (set_locals [] s2')) as [rest' s3'].
      cbn [fst snd map] in *. split; [f_equal; exact H1|exact H2].
    + destruct (IH _ _ Hl) as [H1 H2].
      destruct (run_builds Asp defs fuel r (set_locals [] s2)) as [rest s3], (run_builds Asp defs fuel r (set_locals [] s2')) as [rest' s3'].
      cbn [fst snd map] in *. split; [f_equal; exact H1|exact H2].
    + destruct (IH _ _ Hl) as [H1 H2].
      destruct (run_builds Asp defs fuel r (set_locals [] s2)) as [rest s3], (run_builds Asp defs fuel r (set_locals [] s2')) as [rest' s3'].
      cbn [fst snd map] in *. split; [f_equal; exact H1|exact H2].
    + destruct (IH _ _ Hl) as [H1 H2].
      destruct (run_builds Asp defs fuel r (set_locals [] s2)) as [rest s3], (run_builds Asp defs fuel r (set_locals [] s2')) as [rest' s3'].
      cbn [fst snd map] in *. split; [f_equal; exact H1|exact H2].
    + destruct (IH _ _ Hsim) as [H1 H2].
      destruct (run_builds Asp defs fuel r s2) as [rest s3], (run_builds Asp defs fuel r s2') as [rest' s3'].
      cbn [fst snd map] in *. split; [|exact H2]. rewrite Hafter, H1. reflexivity.
Qed.

End Top.

(* run_builds never reads the current scope and the local scopes of the state it starts from *)
Lemma run_builds_ctl : forall defs fuel builds st c l,
  fst (run_builds Asp defs fuel builds (set_locals l (set_cur c st))) = fst (run_builds Asp defs fuel builds st).
Proof. intros defs fuel builds st c l. destruct builds as [|p r]; [reflexivity|]. destruct st. reflexivity. Qed.

(* ---------------------------------------------------------------- closed states *)
(* every id that occurs in the state is the id of an object that exists *)
Definition idsb (la ld lf : nat) (v : value) : bool :=
  match v with
  | VList sl | VFrozenList sl => s_arr sl <? la
  | VDict i | VFrozenDict i => i <? ld
  | VFunc i => i <? lf
  | _ => true
  end.

Definition env_idsb (la ld lf : nat) (e : env) : bool := forallb (fun kv => idsb la ld lf (snd kv)) e.

Definition func_idsb (la ld lf ls : nat) (fd : func) : bool :=
  forallb (fun a : str * fdefault => match snd a with DConst v => idsb la ld lf v | _ => true end) (f_args fd) && (f_scope fd <? ls).

Definition closed_stateb (st : state) : bool :=
  let la := length (arrays st) in
  let ld := length (dicts st) in
  let lf := length (funcs st) in
  let ls := length (fscopes st) in
  forallb (forallb (idsb la ld lf)) (arrays st) && forallb (env_idsb la ld lf) (dicts st) &&
  forallb (env_idsb la ld lf) (fscopes st) && forallb (idsb la ld lf) (consts st) &&
  forallb (fun le => env_idsb la ld lf (snd le)) (subcache st) && forallb (func_idsb la ld lf ls) (funcs st).

Section Start.
Variables (st0 st1 : state) (defs : list (str * prog)).

Definition shift_of : shift :=
  Shift (length (arrays st0)) (length (arrays st1) - length (arrays st0))
        (length (dicts st0)) (length (dicts st1) - length (dicts st0))
        (length (funcs st0)) (length (funcs st1) - length (funcs st0))
        (length (fscopes st0)) (length (fscopes st1) - length (fscopes st0)).

Notation W := shift_of.
Notation la := (length (arrays st0)).
Notation ld := (length (dicts st0)).
Notation lf := (length (funcs st0)).
Notation ls := (length (fscopes st0)).

Lemma sh_below : forall n k i, i < n -> sh n k i = i.
Proof. intros n k i H. unfold sh. replace (i <? n) with true; [reflexivity|]. symmetry. apply Nat.ltb_lt. exact H. Qed.

Lemma rn_closed : forall v, idsb la ld lf v = true -> rn W v = v.
Proof.
  intros v H. destruct v; cbn [rn idsb] in *; try reflexivity; apply Nat.ltb_lt in H.
  - unfold rn_slice, sha. cbn [w_na w_ka W]. rewrite sh_below by exact H. destruct sl; reflexivity.
  - unfold rn_slice, sha. cbn [w_na w_ka W]. rewrite sh_below by exact H. destruct sl; reflexivity.
  - unfold shd. cbn [w_nd w_kd W]. rewrite sh_below by exact H. reflexivity.
  - unfold shd. cbn [w_nd w_kd W]. rewrite sh_below by exact H. reflexivity.
  - unfold shf. cbn [w_nf w_kf W]. rewrite sh_below by exact H. reflexivity.
Qed.

Lemma rn_list_closed : forall l, forallb (idsb la ld lf) l = true -> map (rn W) l = l.
Proof.
  induction l as [|v r IH]; intros H; cbn [map]; [reflexivity|]. cbn [forallb] in H. apply andb_prop in H. destruct H as [H1 H2].
  rewrite rn_closed by exact H1. rewrite IH by exact H2. reflexivity.
Qed.

Lemma rn_env_closed : forall e, env_idsb la ld lf e = true -> rn_env W e = e.
Proof.
  unfold env_idsb, rn_env. induction e as [|[k v] r IH]; intros H; cbn [map]; [reflexivity|]. cbn [forallb snd] in H. apply andb_prop in H. destruct H as [H1 H2].
  unfold rn_kv at 1. cbn [fst snd]. rewrite rn_closed by exact H1. rewrite IH by exact H2. reflexivity.
Qed.

Lemma rn_func_closed : forall fd, func_idsb la ld lf ls fd = true -> rn_func W fd = fd.
Proof.
  intros fd H. unfold func_idsb in H. apply andb_prop in H. destruct H as [H1 H2]. apply Nat.ltb_lt in H2.
  unfold rn_func, shs. cbn [w_ns w_ks W]. rewrite sh_below by exact H2.
  replace (map (rn_arg W) (f_args fd)) with (f_args fd); [destruct fd; reflexivity|].
  induction (f_args fd) as [|[a df] r IH]; cbn [map]; [reflexivity|]. cbn [forallb snd] in H1. apply andb_prop in H1. destruct H1 as [Ha Hr].
  rewrite <- IH by exact Hr. unfold rn_arg at 1. cbn [fst snd]. destruct df; cbn [rn_dflt]; try reflexivity. rewrite rn_closed by exact Ha. reflexivity.
Qed.

Lemma forallb_nth : forall {A} (p : A -> bool) l i d, forallb p l = true -> i < length l -> p (nth i l d) = true.
Proof. intros A p l i d H Hi. rewrite forallb_forall in H. apply H. apply nth_In. exact Hi. Qed.

(* the two interpreters - the one that has, and the one that has not interpreted the earlier packages - are in the
   simulation relation when the next package starts *)
Lemma sim_start : closed_stateb st0 = true -> unchanged st0 st1 -> cachedall defs st0 ->
  sim W defs (set_locals [] (set_cur (length (fscopes st0)) st0)) (set_locals [] (set_cur (length (fscopes st1)) st1)).
Proof.
  intros Hc U Hcache. unfold closed_stateb in Hc. cbv zeta in Hc.
  repeat match type of Hc with (_ && _)%bool = true => let H1 := fresh "Hc" in apply andb_prop in Hc; destruct Hc as [Hc H1] end.
  destruct U as [Ua Ud Us [X Uf] Usub Ucs Ula Uld Uls].
  constructor; cbn [arrays dicts funcs fscopes cur locals consts subcache set_cur set_locals].
  - split; [cbn [w_ka W]; lia|]. split; [cbn [w_na W]; lia|]. intros i Hi. cbn [w_na w_ka W]. rewrite sh_below by exact Hi.
    change (nth i (arrays st1) []) with (arr_of st1 i). rewrite Ua by exact Hi. unfold arr_of. symmetry. apply rn_list_closed.
    apply (forallb_nth (forallb (idsb la ld lf))); assumption.
  - split; [cbn [w_kd W]; unfold env in *; lia|]. split; [cbn [w_nd W]; unfold env in *; lia|]. intros i Hi. cbn [w_nd w_kd W]. rewrite sh_below by exact Hi.
    change (nth i (dicts st1) []) with (dict_of st1 i). rewrite Ud by exact Hi. unfold dict_of. symmetry. apply rn_env_closed.
    apply (forallb_nth (env_idsb la ld lf)); assumption.
  - split; [cbn [w_kf W]; rewrite Uf, app_length; lia|]. split; [cbn [w_nf W]; lia|]. intros i Hi. cbn [w_nf w_kf W]. rewrite sh_below by exact Hi.
    rewrite Uf, app_nth1 by exact Hi. symmetry. apply rn_func_closed. apply (forallb_nth (func_idsb la ld lf ls)); assumption.
  - split; [cbn [w_ks W]; unfold env in *; lia|]. split; [cbn [w_ns W]; unfold env in *; lia|]. intros i Hi. cbn [w_ns w_ks W]. rewrite sh_below by exact Hi.
    rewrite Us by exact Hi. symmetry. apply rn_env_closed. apply (forallb_nth (env_idsb la ld lf)); assumption.
  - unfold shs. cbn [w_ns w_ks W]. rewrite sh_fresh by lia. lia.
  - reflexivity.
  - rewrite Ucs. symmetry. apply rn_list_closed. assumption.
  - rewrite Usub. symmetry. clear - Hc1. induction (subcache st0) as [|[k e] r IH]; cbn [map]; [reflexivity|].
    cbn [forallb snd] in Hc1. apply andb_prop in Hc1. destruct Hc1 as [H1 H2]. rewrite IH by exact H2.
    unfold rn_cache at 1. cbn [fst snd]. rewrite rn_env_closed by exact H1. reflexivity.
  - exact Hcache.
Qed.

End Start.

(* ================================================================ THE THEOREM *)
(* A package computes the same results whether or not other packages were parsed before it: from an interpreter at
   rest, the BUILD files bs interpreted after any BUILD files h have the outcomes they have when they are interpreted
   without h - the same globals (rendered right after each file ran), the same failures. *)
Theorem package_result_independent_of_earlier_packages : forall defs fuel D st0 h outs_h st1 bs,
  RestInv defs D st0 -> closed_stateb st0 = true ->
  Forall (fun p => no_const p = true) h ->
  run_builds Asp defs fuel h st0 = (outs_h, st1) ->
  map (@snd _ _) (fst (run_builds Asp defs fuel bs st1)) = map (@snd _ _) (fst (run_builds Asp defs fuel bs st0)).
Proof.
  intros defs fuel D st0 h outs_h st1 bs R Hc Hh Hrun.
  destruct (isolation defs fuel h D st0 outs_h st1 R Hh Hrun) as [U _].
  pose proof (sim_start st0 st1 defs Hc U (r_defs _ _ _ R)) as HS.
  destruct (run_builds_sim (shift_of st0 st1) defs fuel bs _ _ HS) as [H _].
  rewrite !run_builds_ctl in H. exact H.
Qed.

(* both halves of the property for states at rest: with any earlier BUILD files h and any later ones bs, every later
   file computes what it computes without h, and what h computed is not changed by bs *)
Theorem packages_do_not_interfere : forall defs fuel D st0 h bs outs st',
  RestInv defs D st0 -> closed_stateb st0 = true ->
  Forall (fun p => no_const p = true) (h ++ bs) ->
  run_builds Asp defs fuel (h ++ bs) st0 = (outs, st') ->
  exists o1 st1 o2, run_builds Asp defs fuel h st0 = (o1, st1) /\ run_builds Asp defs fuel bs st1 = (o2, st') /\ outs = o1 ++ o2
    /\ map (@snd _ _) o2 = map (@snd _ _) (fst (run_builds Asp defs fuel bs st0))
    /\ unchanged st0 st1 /\ unchanged st1 st'.
Proof.
  intros defs fuel D st0 h bs outs st' R Hc Hb Hrun.
  destruct (later_packages_change_nothing defs fuel h bs D st0 outs st' R Hb Hrun) as (o1 & st1 & o2 & H1 & H2 & H3 & U1 & U2).
  exists o1, st1, o2. split; [exact H1|]. split; [exact H2|]. split; [exact H3|]. split; [|split; [exact U1|exact U2]].
  apply Forall_app in Hb. destruct Hb as [Hh _].
  pose proof (package_result_independent_of_earlier_packages defs fuel D st0 h o1 st1 bs R Hc Hh H1) as H. rewrite H2 in H. exact H.
Qed.
