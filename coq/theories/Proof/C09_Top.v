(* C09 follow-up - paths given to Hash that are symlinks with absolute targets, or symlinks outside the
   repo: their stream is the stream of an in-repo symlink (marker ++ text), so the collisions are the
   six tree classes plus four classes of their own; the classifier is complete and exact. *)
From PlzV Require Import Base.Harness Base.StrFacts Model.C09 Proof.C09 Gen.PathHashProg.
From Coq Require Import List Bool Lia.

Lemma gen_run_top_in t : run_top top_link_in_repo t [] = 2%N :: t.
Proof. cbn. rewrite app_nil_r. reflexivity. Qed.
Lemma gen_run_top_out c : run_top top_link_outside [] c = 2%N :: c.
Proof. cbn. rewrite app_nil_r. reflexivity. Qed.

Lemma link_stream_text root path dest p v :
  link_stream root path dest p = Some v ->
  exists t, link_text root path dest p = Some t /\ v = stream (Link t).
Proof.
  unfold link_stream, link_text. cbn [stream]. destruct (link_in_repo root path dest).
  - intros E. injection E as <-. eexists. split; [reflexivity|]. cbn; rewrite ?app_nil_r; reflexivity.
  - destruct p as [c|]; cbn [option_map]; [|discriminate]. intros E. injection E as <-.
    eexists. split; [reflexivity|]. cbn; rewrite ?app_nil_r; reflexivity.
Qed.

(* the stream of a top-level path is the stream of its equivalent in-repo node *)
Lemma top_stream_eff root x v :
  top_stream root x = Some v -> exists n, eff root x = Some n /\ v = stream n.
Proof.
  destruct x as [n|t p|t p]; cbn [top_stream eff].
  - intros E. injection E as <-. eauto.
  - intros E. destruct (link_stream_text _ _ _ _ _ E) as (u & -> & ->). cbn [option_map]. eauto.
  - intros E. destruct (link_stream_text _ _ _ _ _ E) as (u & -> & ->). cbn [option_map]. eauto.
Qed.

Lemma eff_stream root x n : eff root x = Some n -> top_stream root x = Some (stream n).
Proof.
  destruct x as [m|t p|t p]; cbn [top_stream eff]; unfold link_stream, link_text.
  - intros E. injection E as <-. reflexivity.
  - destruct (link_in_repo root [] t); cbn [option_map].
    + intros E. injection E as <-. cbn [stream]. cbn; rewrite ?app_nil_r; reflexivity.
    + destruct p as [c|]; cbn [option_map]; [|discriminate]. intros E. injection E as <-.
      cbn [stream]. cbn; rewrite ?app_nil_r; reflexivity.
  - destruct (link_in_repo root [47%N] t); cbn [option_map].
    + intros E. injection E as <-. cbn [stream]. cbn; rewrite ?app_nil_r; reflexivity.
    + destruct p as [c|]; cbn [option_map]; [|discriminate]. intros E. injection E as <-.
      cbn [stream]. cbn; rewrite ?app_nil_r; reflexivity.
Qed.

Lemma tkind_node root x : tkind_of root x = KNode -> exists n, x = TNode n.
Proof.
  destruct x as [n|t p|t p]; cbn [tkind_of]; [eauto| |discriminate].
  destruct (link_in_repo root [] t); [destruct (sibling_of_root root t)|]; discriminate.
Qed.

Lemma eff_is_link root x n :
  tkind_of root x <> KNode -> eff root x = Some n -> exists t, n = Link t.
Proof.
  destruct x as [m|t p|t p]; cbn [tkind_of eff]; [congruence| |]; intros _;
    destruct (link_text _ _ _ _); cbn [option_map]; try discriminate; intros E; injection E as <-; eauto.
Qed.

Lemma node_eqb_refl n : node_eqb n n = true.
Proof.
  induction n as [c|t|es IH] using node_ind'; cbn [node_eqb]; try apply str_eqb_refl.
  induction es as [|[k x] es IHes]; [reflexivity|].
  inversion IH as [|? ? Hx Hr]; subst. cbn [snd] in Hx.
  rewrite str_eqb_refl, Hx. cbn [andb]. apply IHes. exact Hr.
Qed.

(* ---- completeness: every collision of different top-level paths is classified ---- *)
Lemma top_collision_classified root x y v :
  top_differs x y = true -> top_stream root x = Some v -> top_stream root y = Some v ->
  top_class root x y <> None.
Proof.
  intros Hd Hx Hy.
  destruct (top_stream_eff _ _ _ Hx) as (a & Ea & Sa). destruct (top_stream_eff _ _ _ Hy) as (b & Eb & Sb).
  assert (E : stream a = stream b) by congruence.
  unfold top_class. rewrite Ea, Eb.
  assert (Hgen : a <> b -> option_map TInherited (defect_class a b) <> None).
  { intros Hne. pose proof (collision_classified a b Hne E) as Hc.
    destruct (defect_class a b); [discriminate|congruence]. }
  assert (Hlink : tkind_of root x <> KNode \/ tkind_of root y <> KNode ->
                  same_link_text a b = false -> a <> b).
  { intros Hk Hs Eab. subst b. destruct Hk as [Hk|Hk].
    - destruct (eff_is_link _ _ _ Hk Ea) as (t & ->). unfold same_link_text in Hs. rewrite str_eqb_refl in Hs. discriminate.
    - destruct (eff_is_link _ _ _ Hk Eb) as (t & ->). unfold same_link_text in Hs. rewrite str_eqb_refl in Hs. discriminate. }
  destruct (tkind_of root x) eqn:Kx; destruct (tkind_of root y) eqn:Ky;
    try (destruct (same_link_text a b) eqn:Es; [discriminate|];
         apply Hgen; apply Hlink; [solve [left; discriminate | right; discriminate]|first [exact Es|reflexivity]]).
  (* both are plain in-repo nodes *)
  destruct (tkind_node _ _ Kx) as (n & ->). destruct (tkind_node _ _ Ky) as (m & ->).
  cbn [eff] in Ea, Eb. injection Ea as <-. injection Eb as <-.
  apply Hgen. intros ->. unfold top_differs in Hd. rewrite node_eqb_refl in Hd. destruct m; discriminate Hd.
Qed.

(* ---- exactness: a classified pair does collide.  The tree classes need well-formedness of
        directories only (the text of an equivalent link is arbitrary bytes) ---- *)
Lemma classify_dirs_sound_d a b d :
  (is_dir a = true -> wf a = true) -> (is_dir b = true -> wf b = true) ->
  classify_dirs a b = Some d -> stream a = stream b.
Proof.
  intros Ha Hb. unfold classify_dirs.
  assert (Hnl : forall ct, is_dir a && is_dir b && eq_nameless ct a b = true -> stream a = stream b).
  { intros ct Hc. apply andb_true_iff in Hc as [Hd E]. apply andb_true_iff in Hd as [Hda Hdb].
    destruct a as [| |es]; try discriminate. destruct b as [| |es']; try discriminate.
    cbn [stream]. rewrite !walk_bytes. f_equal. exact (eq_nameless_leaves ct _ _ (Ha eq_refl) (Hb eq_refl) E). }
  assert (Hsg : segs_eqb (segs (tleaves a)) (segs (tleaves b)) = true -> stream a = stream b).
  { intros Hs. rewrite !stream_bytes, !join_segs. f_equal. exact (segs_eqb_eq _ _ Hs). }
  destruct (is_dir a && is_dir b && eq_nameless true a b) eqn:C1; [intros _; exact (Hnl true C1)|].
  destruct (is_dir a && is_dir b && eq_nameless false a b) eqn:C2; [intros _; exact (Hnl false C2)|].
  destruct (negb (is_dir a && is_dir b) && segs_eqb (segs (tleaves a)) (segs (tleaves b))) eqn:C3.
  { intros _. apply andb_true_iff in C3 as [_ C3]. exact (Hsg C3). }
  destruct (list_eqb_spec leaf_eqb leaf_eqb_spec (tleaves a) (tleaves b)) as [C4|_].
  { intros _. rewrite !stream_bytes, C4. reflexivity. }
  destruct (segs_eqb (segs (tleaves a)) (segs (tleaves b))) eqn:C5; [intros _; exact (Hsg eq_refl)|].
  destruct ((has2 (tleaves a) || has2 (tleaves b)) && str_eqb (stream a) (stream b)) eqn:C6; [|discriminate].
  intros _. apply andb_true_iff in C6 as [_ C6]. apply str_eqb_eq. exact C6.
Qed.

Lemma classified_collides_d a b d :
  (is_dir a = true -> wf a = true) -> (is_dir b = true -> wf b = true) ->
  defect_class a b = Some d -> stream a = stream b.
Proof.
  intros Ha Hb. destruct a as [c|t|es], b as [c'|t'|es']; cbn [defect_class];
    try (apply classify_dirs_sound_d; assumption); try discriminate.
  - destruct (str_eqb_spec c (2%N :: t')) as [->|]; [|discriminate]. intros _.
    cbn [stream]. rewrite gen_top_file, gen_top_link. reflexivity.
  - destruct (str_eqb_spec c' (2%N :: t)) as [->|]; [|discriminate]. intros _.
    cbn [stream]. rewrite gen_top_file, gen_top_link. reflexivity.
Qed.

Lemma eff_wf_dir root x n : top_wf x = true -> eff root x = Some n -> is_dir n = true -> wf n = true.
Proof.
  destruct x as [m|t p|t p]; cbn [top_wf eff].
  - intros Hw E _. injection E as <-. exact Hw.
  - intros _. destruct (link_text _ _ _ _); cbn [option_map]; [|discriminate]. intros E. injection E as <-. discriminate.
  - intros _. destruct (link_text _ _ _ _); cbn [option_map]; [|discriminate]. intros E. injection E as <-. discriminate.
Qed.

Lemma same_link_text_eq a b : same_link_text a b = true -> a = b.
Proof.
  destruct a as [|t|], b as [|t'|]; cbn; try discriminate. intros E. apply str_eqb_eq in E. congruence.
Qed.

Lemma top_classified_collides root x y d vx vy :
  top_wf x = true -> top_wf y = true ->
  top_stream root x = Some vx -> top_stream root y = Some vy ->
  top_class root x y = Some d -> vx = vy.
Proof.
  intros Wx Wy Hx Hy.
  destruct (top_stream_eff _ _ _ Hx) as (a & Ea & ->). destruct (top_stream_eff _ _ _ Hy) as (b & Eb & ->).
  unfold top_class. rewrite Ea, Eb.
  assert (Hinh : option_map TInherited (defect_class a b) = Some d -> stream a = stream b).
  { destruct (defect_class a b) as [d'|] eqn:Ed; [|discriminate]. intros _.
    exact (classified_collides_d a b d' (eff_wf_dir _ _ _ Wx Ea) (eff_wf_dir _ _ _ Wy Eb) Ed). }
  destruct (tkind_of root x); destruct (tkind_of root y); try exact Hinh;
    (destruct (same_link_text a b) eqn:Es; [intros _; f_equal; exact (same_link_text_eq _ _ Es)|exact Hinh]).
Qed.

Section HashTop.
  Variable H : str -> str.
  Hypothesis H_inj : forall x y, H x = H y -> x = y.

  (* different top-level paths: the hashes are equal exactly on the classified pairs *)
  Lemma top_pairs root x y vx vy :
    top_wf x = true -> top_wf y = true -> top_differs x y = true ->
    top_stream root x = Some vx -> top_stream root y = Some vy ->
    (top_class root x y = None -> H vx <> H vy)
    /\ (forall d, top_class root x y = Some d -> H vx = H vy).
  Proof.
    intros Wx Wy Hd Hx Hy. split.
    - intros Hc E. apply H_inj in E. subst vy.
      exact (top_collision_classified root x y vx Hd Hx Hy Hc).
    - intros d Hc. f_equal. exact (top_classified_collides root x y d vx vy Wx Wy Hx Hy Hc).
  Qed.

  (* a symlink leaving the repo is never hashed like the regular file holding the same bytes
     (mutation m1 breaks exactly this) *)
  Lemma external_link_vs_same_file root t c v :
    link_in_repo root [] t = false ->
    top_stream root (TAbsLink t (Some c)) = Some v -> H v <> H (stream (File c)).
  Proof.
    intros Hout. cbn [top_stream]. unfold link_stream. rewrite Hout. cbn [option_map].
    intros E. assert (Ev : v = run_top top_link_outside [] c) by congruence. subst v.
    rewrite gen_run_top_out. cbn [stream]. rewrite gen_top_file.
    intros E'. apply H_inj in E'. apply (f_equal (@length N)) in E'. cbn [length] in E'. lia.
  Qed.
End HashTop.

(* ---- witnesses of the four new classes, root /r, outside directory /o ---- *)
Definition top_collides (root : str) (x y : top) (d : tdefect) : Prop :=
  root_ok root = true /\ top_wf x = true /\ top_wf y = true /\ top_differs x y = true
  /\ top_stream root x = top_stream root y /\ top_stream root x <> None /\ top_class root x y = Some d.
Ltac top_collision := unfold top_collides; repeat split; try (vm_compute; reflexivity); vm_compute; discriminate.

Lemma witness_ext_target :
  top_collides (s "/r") (TAbsLink (s "/o/f1") (Some (s "tool"))) (TAbsLink (s "/o/f2") (Some (s "tool"))) TExtTarget.
Proof. top_collision. Qed.
Lemma witness_ext_content :
  top_collides (s "/r") (TAbsLink (s "/o/f3") (Some (s "a"))) (TNode (Link (s "a"))) TExtContentAsTarget.
Proof. top_collision. Qed.
Lemma witness_root_stripped :
  top_collides (s "/r") (TAbsLink (s "/r/a") None) (TNode (Link (s "a"))) TRootStripped.
Proof. top_collision. Qed.
Lemma witness_sibling :
  top_collides (s "/r") (TAbsLink (s "/r2/x") None) (TNode (Link (s "2/x"))) TSiblingStripped.
Proof. top_collision. Qed.
(* ... and a pair the classifier lets through: an external link and the regular file with the same bytes *)
Lemma ext_link_vs_file_unclassified :
  let x := TAbsLink (s "/o/f1") (Some (s "tool")) in
  let y := TNode (File (s "tool")) in
  top_wf x = true /\ top_wf y = true /\ top_differs x y = true /\ top_class (s "/r") x y = None
  /\ top_stream (s "/r") x <> top_stream (s "/r") y.
Proof. repeat split; try (vm_compute; reflexivity). vm_compute. discriminate. Qed.
