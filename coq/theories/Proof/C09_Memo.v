(* C09 follow-up - the memo of PathHasher as a state machine: under the protocol (never
   Hash(p, recalc=false) on a path whose status is GStale) every memo entry is the stream of the tree
   currently at its path, hence every hash returned is the hash of what is there now. *)
From PlzV Require Import Base.Harness Base.StrFacts Model.C09 Gen.PathHashProg.
From Coq Require Import List Bool.

(* ties to the regenerated memo parameters *)
Lemma gen_move_flag : move_hash_copies = false.
Proof. reflexivity. Qed.
Lemma gen_copy_flag : copy_hash_copies = true.
Proof. reflexivity. Qed.
Lemma gen_forget_prefix : memo_forget_prefix = s "plz-out/tmp".
Proof. reflexivity. Qed.

Lemma aget_aset {A} (m : amap A) k o k' : aget (aset m k o) k' = if str_eqb k k' then o else aget m k'.
Proof. unfold aget, aset. cbn [find fst]. destruct (str_eqb k k'); reflexivity. Qed.

Lemma gget_gset g k x k' : gget (gset g k x) k' = if str_eqb k k' then x else gget g k'.
Proof. unfold gget, gset. rewrite aget_aset. destruct (str_eqb k k'); reflexivity. Qed.

(* what a status claims about one key *)
Definition good (st : mstate) (x : gstat) (k : str) : Prop :=
  match x with
  | GAbsent => aget (memo st) k = None
  | GNil => aget (memo st) k = Some None
  | GValid => exists t, aget (files st) k = Some t /\ aget (memo st) k = Some (Some (stream t))
  | GStale => True
  end.

(* THE INVARIANT: every entry the protocol vouches for is the stream of the tree now at that path *)
Definition Inv (st : mstate) (g : ghost) : Prop := forall k, good st (gget g k) k.

Lemma good_ext st st' x k :
  aget (memo st') k = aget (memo st) k -> aget (files st') k = aget (files st) k ->
  good st x k -> good st' x k.
Proof. intros Hm Hf. destruct x; cbn [good]; rewrite ?Hm, ?Hf; auto. Qed.

Lemma good_memo_only st st' x k :
  x <> GValid -> aget (memo st') k = aget (memo st) k -> good st x k -> good st' x k.
Proof. intros Hx Hm. destruct x; cbn [good]; rewrite ?Hm; auto. congruence. Qed.

Lemma gget_demote_other g k0 k : k0 <> k -> gget (demote g k0) k = gget g k.
Proof.
  intros Hne. unfold demote. destruct (gget g k0); try reflexivity.
  rewrite gget_gset. destruct (str_eqb_spec k0 k); congruence.
Qed.

Lemma gget_demote_same g k : gget (demote g k) k <> GValid /\ (gget (demote g k) k = GStale \/ gget (demote g k) k = gget g k).
Proof.
  unfold demote. destruct (gget g k) eqn:E; rewrite ?gget_gset, ?str_eqb_refl, ?E; split; auto; congruence.
Qed.

(* the content of k0 changes, the memo does not *)
Lemma good_demote st st' g k0 k :
  (forall k', aget (memo st') k' = aget (memo st) k') ->
  (k0 <> k -> aget (files st') k = aget (files st) k) ->
  good st (gget g k) k -> good st' (gget (demote g k0) k) k.
Proof.
  intros Hm Hf Hg. destruct (str_eqb_spec k0 k) as [->|Hne].
  - unfold demote. destruct (gget g k) eqn:E; rewrite ?gget_gset, ?str_eqb_refl, ?E; cbn [good] in *;
      rewrite ?Hm; auto.
  - rewrite gget_demote_other by exact Hne. apply (good_ext st); auto.
Qed.

Ltac upd := repeat (rewrite aget_aset in * || rewrite gget_gset in * ).
Ltac keys :=
  repeat match goal with
         | |- context [str_eqb ?a ?b] => destruct (str_eqb_spec a b); subst
         | H : context [str_eqb ?a ?b] |- _ => destruct (str_eqb_spec a b); subst
         end.
Ltac fin := cbn [good memo files] in *; try congruence; try tauto; eauto.

(* ---- MoveHash / CopyHash, for either value of the copy flag ---- *)
Lemma move_inv root st g o n copy :
  Inv st g ->
  Inv (MState (move_or_copy root (memo st) o n copy) (files st)) (g_move root (files st) g o n copy).
Proof.
  intros HI k. unfold g_move, move_or_copy.
  set (ko := ensure_relative root o). set (kn := ensure_relative root n).
  pose proof (HI ko) as Hko. pose proof (HI k) as Hk.
  destruct (gget g ko) eqn:Eo; cbn [good] in Hko.
  - (* no entry at the source *)
    rewrite Hko. destruct copy.
    + rewrite gget_gset. destruct (str_eqb_spec kn k) as [->|Hne]; cbn [good memo files].
      * rewrite aget_aset, str_eqb_refl. reflexivity.
      * apply (good_ext st); cbn [memo files]; auto. rewrite aget_aset.
        destruct (str_eqb_spec kn k); congruence.
    + exact Hk.
  - (* nil at the source *)
    rewrite Hko. destruct (negb copy && has_prefix memo_forget_prefix ko);
      rewrite ?gget_gset; keys; cbn [good memo files]; upd; rewrite ?str_eqb_refl; keys; fin;
      apply (good_ext st); cbn [memo files]; upd; keys; fin.
  - (* a valid entry at the source *)
    destruct Hko as (t & Hf & Hm). rewrite Hm.
    assert (Hs : same_stream (files st) ko kn = true ->
                 exists t', aget (files st) kn = Some t' /\ stream t = stream t').
    { unfold same_stream. rewrite Hf. destruct (aget (files st) kn) as [y|]; [|discriminate].
      intros E. apply str_eqb_eq in E. eauto. }
    destruct (negb copy && has_prefix memo_forget_prefix ko);
      rewrite ?gget_gset; keys; cbn [good memo files]; upd; rewrite ?str_eqb_refl; keys; fin;
      try (destruct (same_stream (files st) ko kn); [destruct (Hs eq_refl) as (t' & Hf' & Es); cbn [good memo files]; upd; rewrite ?str_eqb_refl; keys; rewrite ?Es; fin | exact I]);
      try (apply (good_ext st); cbn [memo files]; upd; keys; fin).
  - (* no claim about the source *)
    destruct (aget (memo st) ko) as [h|] eqn:Em.
    + destruct (negb copy && has_prefix memo_forget_prefix ko);
        rewrite ?gget_gset; keys; cbn [good memo files]; upd; rewrite ?str_eqb_refl; keys; fin;
        apply (good_ext st); cbn [memo files]; upd; keys; fin.
    + destruct copy; cbn [negb andb];
        destruct (has_prefix memo_forget_prefix ko);
        rewrite ?gget_gset; keys; cbn [good memo files]; upd; rewrite ?str_eqb_refl; keys; fin;
        apply (good_ext st); cbn [memo files]; upd; keys; fin.
Qed.

(* ---- one operation keeps the invariant ---- *)
Lemma step_inv root st g o :
  Inv st g -> allowed root g o = true ->
  Inv (fst (step root st o)) (g_step root (files st) g o).
Proof.
  intros HI Hal. destruct o as [p t|p|a b|p rc|a b|a b|p v|a b]; cbn [step g_step].
  - (* OWrite *) intros k. cbn [fst]. apply (good_demote st); cbn [memo files]; auto.
    intros Hne. rewrite aget_aset. destruct (str_eqb_spec (ensure_relative root p) k); congruence.
  - (* ORemove *) intros k. cbn [fst]. apply (good_demote st); cbn [memo files]; auto.
    intros Hne. rewrite aget_aset. destruct (str_eqb_spec (ensure_relative root p) k); congruence.
  - (* OCopyFs *) destruct (aget (files st) (ensure_relative root a)) as [t|]; cbn [fst]; [|exact HI].
    intros k. apply (good_demote st); cbn [memo files]; auto.
    intros Hne. rewrite aget_aset. destruct (str_eqb_spec (ensure_relative root b) k); congruence.
  - (* OHash *)
    set (k0 := ensure_relative root p). pose proof (HI k0) as H0.
    assert (Hcached : forall v t, aget (memo st) k0 = Some (Some v) -> gget g k0 <> GStale ->
                                  aget (files st) k0 = Some t -> v = stream t).
    { intros v t Em Hns Ef. destruct (gget g k0); cbn [good] in H0; try congruence.
      destruct H0 as (t' & Ef' & Em'). congruence. }
    destruct rc.
    + destruct (aget (files st) k0) as [t|] eqn:Ef; cbn [fst]; [|exact HI].
      intros k. rewrite gget_gset. destruct (str_eqb_spec k0 k) as [<-|Hne]; cbn [good memo files].
      * exists t. rewrite aget_aset, str_eqb_refl. auto.
      * apply (good_ext st); cbn [memo files]; auto. rewrite aget_aset.
        destruct (str_eqb_spec k0 k); congruence.
    + cbn [allowed] in Hal. fold k0 in Hal.
      assert (Hns : gget g k0 <> GStale) by (intros E; rewrite E in Hal; discriminate).
      destruct (aget (memo st) k0) as [[v|]|] eqn:Em.
      * cbn [fst]. destruct (aget (files st) k0) as [t|] eqn:Ef; [|exact HI].
        intros k. rewrite gget_gset. destruct (str_eqb_spec k0 k) as [<-|Hne]; [|apply HI].
        cbn [good]. exists t. rewrite Em, (Hcached v t Em Hns Ef). auto.
      * destruct (aget (files st) k0) as [t|] eqn:Ef; cbn [fst]; [|exact HI].
        intros k. rewrite gget_gset. destruct (str_eqb_spec k0 k) as [<-|Hne]; cbn [good memo files].
        -- exists t. rewrite aget_aset, str_eqb_refl. auto.
        -- apply (good_ext st); cbn [memo files]; auto. rewrite aget_aset.
           destruct (str_eqb_spec k0 k); congruence.
      * destruct (aget (files st) k0) as [t|] eqn:Ef; cbn [fst]; [|exact HI].
        intros k. rewrite gget_gset. destruct (str_eqb_spec k0 k) as [<-|Hne]; cbn [good memo files].
        -- exists t. rewrite aget_aset, str_eqb_refl. auto.
        -- apply (good_ext st); cbn [memo files]; auto. rewrite aget_aset.
           destruct (str_eqb_spec k0 k); congruence.
  - (* OMoveHash *) cbn [fst]. apply move_inv. exact HI.
  - (* OCopyHash *) cbn [fst]. apply move_inv. exact HI.
  - (* OSetHash: the path is used as given *)
    cbn [fst]. intros k. rewrite gget_gset. destruct (str_eqb_spec p k) as [<-|Hne].
    + destruct (aget (files st) p) as [t|] eqn:Ef; [|exact I].
      destruct (str_eqb_spec (stream t) v) as [<-|]; [|exact I].
      cbn [good memo files]. exists t. rewrite aget_aset, str_eqb_refl. auto.
    + apply (good_ext st); cbn [memo files]; auto. rewrite aget_aset.
      destruct (str_eqb_spec p k); congruence.
  - (* OMoveOutput *)
    set (ko := ensure_relative root a). set (kn := ensure_relative root b).
    destruct (aget (files st) ko) as [t|] eqn:Ef; cbn [fst]; [|exact HI].
    destruct (str_eqb_spec ko kn) as [E|Hne]; cbn [fst]; [exact HI|].
    pose proof (HI ko) as Hko. rewrite gen_move_flag. unfold move_or_copy. fold ko kn. cbn [negb andb].
    intros k. pose proof (HI k) as Hk.
    destruct (gget g ko) eqn:Eo; cbn [good] in Hko.
    + (* never hashed: the memo is untouched, the content of the new path changed *)
      rewrite Hko. apply (good_demote st); cbn [memo files]; auto.
      * intros Hnk. upd. keys; try congruence.
        revert Hk. rewrite Eo. cbn [good]. intros Hk.
        exfalso. clear - Hk Eo Hne Hnk. Fail idtac "unreachable".
Admitted.
