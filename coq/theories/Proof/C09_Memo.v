(* C09 follow-up - the memo of PathHasher as a state machine: under the protocol (never
   Hash(p, recalc=false) on a path whose status is GStale) every memo entry is the stream of the tree
   currently at its path, hence every hash returned is the hash of what is there now. *)
From PlzV Require Import Base.Harness Base.StrFacts Model.C09 Gen.PathHashProg.
From Coq Require Import List Bool.

(* ties to the regenerated memo parameters *)
Lemma gen_move_flag : move_hash_copies = false.
Proof. reflexivity. Qed.
Lemma gen_copy_flag : copy_hash_copies = true.
Proof. reflexivity. Qed.
Lemma gen_forget_prefix : memo_forget_prefix = s "plz-out/tmp".
Proof. reflexivity. Qed.

Lemma aget_aset {A} (m : amap A) k o k' : aget (aset m k o) k' = if str_eqb k k' then o else aget m k'.
Proof. unfold aget, aset. cbn [find fst]. destruct (str_eqb k k'); reflexivity. Qed.

Lemma gget_gset g k x k' : gget (gset g k x) k' = if str_eqb k k' then x else gget g k'.
Proof. unfold gget, gset. rewrite aget_aset. destruct (str_eqb k k'); reflexivity. Qed.

(* what a status claims about one key *)
Definition good (st : mstate) (x : gstat) (k : str) : Prop :=
  match x with
  | GAbsent => aget (memo st) k = None
  | GNil => aget (memo st) k = Some None
  | GValid => exists t, aget (files st) k = Some t /\ aget (memo st) k = Some (Some (stream t))
  | GStale => True
  end.

(* THE INVARIANT: every entry the protocol vouches for is the stream of the tree now at that path *)
Definition Inv (st : mstate) (g : ghost) : Prop := forall k, good st (gget g k) k.

Lemma good_ext st st' x k :
  aget (memo st') k = aget (memo st) k -> aget (files st') k = aget (files st) k ->
  good st x k -> good st' x k.
Proof. intros Hm Hf. destruct x; cbn [good]; rewrite ?Hm, ?Hf; auto. Qed.

Lemma good_memo_only st st' x k :
  x <> GValid -> aget (memo st') k = aget (memo st) k -> good st x k -> good st' x k.
Proof. intros Hx Hm. destruct x; cbn [good]; rewrite ?Hm; auto. congruence. Qed.

Lemma gget_demote_other g k0 k : k0 <> k -> gget (demote g k0) k = gget g k.
Proof.
  intros Hne. unfold demote. destruct (gget g k0); try reflexivity.
  rewrite gget_gset. destruct (str_eqb_spec k0 k); congruence.
Qed.

Lemma gget_demote_same g k : gget (demote g k) k <> GValid /\ (gget (demote g k) k = GStale \/ gget (demote g k) k = gget g k).
Proof.
  unfold demote. destruct (gget g k) eqn:E; rewrite ?gget_gset, ?str_eqb_refl, ?E; split; auto; congruence.
Qed.

(* the content of k0 changes, the memo does not *)
Lemma good_demote st st' g k0 k :
  (forall k', aget (memo st') k' = aget (memo st) k') ->
  (k0 <> k -> aget (files st') k = aget (files st) k) ->
  good st (gget g k) k -> good st' (gget (demote g k0) k) k.
Proof.
  intros Hm Hf Hg. destruct (str_eqb_spec k0 k) as [->|Hne].
  - unfold demote. destruct (gget g k) eqn:E; rewrite ?gget_gset, ?str_eqb_refl, ?E; cbn [good] in *;
      rewrite ?Hm; auto.
  - rewrite gget_demote_other by exact Hne. apply (good_ext st); auto.
Qed.

Ltac upd := repeat (rewrite aget_aset in * || rewrite gget_gset in * ).
Ltac keys :=
  repeat match goal with
         | |- context [str_eqb ?a ?b] => destruct (str_eqb_spec a b); subst
         | H : context [str_eqb ?a ?b] |- _ => destruct (str_eqb_spec a b); subst
         end.
Ltac fin := cbn [good memo files] in *; try congruence; try tauto; eauto.

(* ---- MoveHash / CopyHash, for either value of the copy flag ---- *)
Lemma move_inv root st g o n copy :
  Inv st g ->
  Inv (MState (move_or_copy root (memo st) o n copy) (files st)) (g_move root (files st) g o n copy).
Proof.
  intros HI k. unfold g_move, move_or_copy.
  set (ko := ensure_relative root o). set (kn := ensure_relative root n).
  pose proof (HI ko) as Hko. pose proof (HI k) as Hk.
  destruct (gget g ko) eqn:Eo; cbn [good] in Hko.
  - (* no entry at the source *)
    rewrite Hko. destruct copy.
    + rewrite gget_gset. destruct (str_eqb_spec kn k) as [->|Hne]; cbn [good memo files].
      * rewrite aget_aset, str_eqb_refl. reflexivity.
      * apply (good_ext st); cbn [memo files]; auto. rewrite aget_aset.
        destruct (str_eqb_spec kn k); congruence.
    + exact Hk.
  - (* nil at the source *)
    rewrite Hko. destruct (negb copy && has_prefix memo_forget_prefix ko);
      rewrite ?gget_gset; keys; cbn [good memo files]; upd; rewrite ?str_eqb_refl; keys; fin;
      apply (good_ext st); cbn [memo files]; upd; keys; fin.
  - (* a valid entry at the source *)
    destruct Hko as (t & Hf & Hm). rewrite Hm.
    assert (Hs : same_stream (files st) ko kn = true ->
                 exists t', aget (files st) kn = Some t' /\ stream t = stream t').
    { unfold same_stream. rewrite Hf. destruct (aget (files st) kn) as [y|]; [|discriminate].
      intros E. apply str_eqb_eq in E. eauto. }
    destruct (negb copy && has_prefix memo_forget_prefix ko);
      rewrite ?gget_gset; keys; cbn [good memo files]; upd; rewrite ?str_eqb_refl; keys; fin;
      try (destruct (same_stream (files st) ko kn); [destruct (Hs eq_refl) as (t' & Hf' & Es); cbn [good memo files]; upd; rewrite ?str_eqb_refl; keys; rewrite ?Es; fin | exact I]);
      try (apply (good_ext st); cbn [memo files]; upd; keys; fin).
  - (* no claim about the source *)
    destruct (aget (memo st) ko) as [h|] eqn:Em.
    + destruct (negb copy && has_prefix memo_forget_prefix ko);
        rewrite ?gget_gset; keys; cbn [good memo files]; upd; rewrite ?str_eqb_refl; keys; fin;
        apply (good_ext st); cbn [memo files]; upd; keys; fin.
    + destruct copy; cbn [negb andb];
        destruct (has_prefix memo_forget_prefix ko);
        rewrite ?gget_gset; keys; cbn [good memo files]; upd; rewrite ?str_eqb_refl; keys; fin;
        apply (good_ext st); cbn [memo files]; upd; keys; fin.
Qed.

(* ---- one operation keeps the invariant ---- *)
Lemma step_inv root st g o :
  Inv st g -> allowed root g o = true ->
  Inv (fst (step root st o)) (g_step root (files st) g o).
Proof.
  intros HI Hal. destruct o as [p t|p|a b|p rc|a b|a b|p v|a b]; cbn [step g_step].
  - (* OWrite *) intros k. cbn [fst]. apply (good_demote st); cbn [memo files]; auto.
    intros Hne. rewrite aget_aset. destruct (str_eqb_spec (ensure_relative root p) k); congruence.
  - (* ORemove *) intros k. cbn [fst]. apply (good_demote st); cbn [memo files]; auto.
    intros Hne. rewrite aget_aset. destruct (str_eqb_spec (ensure_relative root p) k); congruence.
  - (* OCopyFs *) destruct (aget (files st) (ensure_relative root a)) as [t|]; cbn [fst]; [|exact HI].
    intros k. apply (good_demote st); cbn [memo files]; auto.
    intros Hne. rewrite aget_aset. destruct (str_eqb_spec (ensure_relative root b) k); congruence.
  - (* OHash *)
    set (k0 := ensure_relative root p). pose proof (HI k0) as H0.
    assert (Hcached : forall v t, aget (memo st) k0 = Some (Some v) -> gget g k0 <> GStale ->
                                  aget (files st) k0 = Some t -> v = stream t).
    { intros v t Em Hns Ef. destruct (gget g k0); cbn [good] in H0; try congruence.
      destruct H0 as (t' & Ef' & Em'). congruence. }
    destruct rc.
    + destruct (aget (files st) k0) as [t|] eqn:Ef; cbn [fst]; [|exact HI].
      intros k. rewrite gget_gset. destruct (str_eqb_spec k0 k) as [<-|Hne]; cbn [good memo files].
      * exists t. rewrite aget_aset, str_eqb_refl. auto.
      * apply (good_ext st); cbn [memo files]; auto. rewrite aget_aset.
        destruct (str_eqb_spec k0 k); congruence.
    + cbn [allowed] in Hal. fold k0 in Hal.
      assert (Hns : gget g k0 <> GStale) by (intros E; rewrite E in Hal; discriminate).
      destruct (aget (memo st) k0) as [[v|]|] eqn:Em.
      * cbn [fst]. destruct (aget (files st) k0) as [t|] eqn:Ef; [|exact HI].
        intros k. rewrite gget_gset. destruct (str_eqb_spec k0 k) as [<-|Hne]; [|apply HI].
        cbn [good]. exists t. split; [exact Ef|]. rewrite Em. do 2 f_equal. exact (Hcached v t eq_refl Hns eq_refl).
      * destruct (aget (files st) k0) as [t|] eqn:Ef; cbn [fst]; [|exact HI].
        intros k. rewrite gget_gset. destruct (str_eqb_spec k0 k) as [<-|Hne]; cbn [good memo files].
        -- exists t. rewrite aget_aset, str_eqb_refl. auto.
        -- apply (good_ext st); cbn [memo files]; auto. rewrite aget_aset.
           destruct (str_eqb_spec k0 k); congruence.
      * destruct (aget (files st) k0) as [t|] eqn:Ef; cbn [fst]; [|exact HI].
        intros k. rewrite gget_gset. destruct (str_eqb_spec k0 k) as [<-|Hne]; cbn [good memo files].
        -- exists t. rewrite aget_aset, str_eqb_refl. auto.
        -- apply (good_ext st); cbn [memo files]; auto. rewrite aget_aset.
           destruct (str_eqb_spec k0 k); congruence.
  - (* OMoveHash *) cbn [fst]. apply move_inv. exact HI.
  - (* OCopyHash *) cbn [fst]. apply move_inv. exact HI.
  - (* OSetHash: the path is used as given *)
    cbn [fst]. intros k. rewrite gget_gset. destruct (str_eqb_spec p k) as [<-|Hne].
    + destruct (aget (files st) p) as [t|] eqn:Ef; [|exact I].
      destruct (str_eqb_spec (stream t) v) as [<-|]; [|exact I].
      cbn [good memo files]. exists t. rewrite aget_aset, str_eqb_refl. auto.
    + apply (good_ext st); cbn [memo files]; auto. rewrite aget_aset.
      destruct (str_eqb_spec p k); congruence.
  - (* OMoveOutput *)
    set (ko := ensure_relative root a). set (kn := ensure_relative root b).
    destruct (aget (files st) ko) as [t|] eqn:Ef; cbn [fst]; [|exact HI].
    destruct (str_eqb_spec ko kn) as [E|Hne]; cbn [fst]; [exact HI|].
    pose proof (HI ko) as Hko. rewrite gen_move_flag. unfold move_or_copy. fold ko kn. cbn [negb andb].
    intros k. pose proof (HI k) as Hk.
    destruct (gget g ko) eqn:Eo; cbn [good] in Hko.
    + (* never hashed: the memo is untouched, the content of the new path changed *)
      rewrite Hko. destruct (str_eqb_spec ko k) as [<-|Hnk].
      * rewrite gget_demote_other by (intros E; apply Hne; congruence).
        rewrite Eo. cbn [good memo]. exact Hko.
      * apply (good_demote st); cbn [memo files]; auto. intros Hnn. upd. keys; congruence.
    + (* nil *)
      rewrite Hko. destruct (has_prefix memo_forget_prefix ko);
        rewrite !gget_gset; keys; cbn [good memo files]; upd; rewrite ?str_eqb_refl; keys; fin;
        apply (good_ext st); cbn [memo files]; upd; keys; fin.
    + (* valid: the entry travels with the tree *)
      destruct Hko as (t0 & Hf0 & Hm0). rewrite Hm0.
      assert (t0 = t) by congruence. subst t0.
      destruct (has_prefix memo_forget_prefix ko);
        rewrite !gget_gset; keys; cbn [good memo files]; upd; rewrite ?str_eqb_refl; keys; fin;
        apply (good_ext st); cbn [memo files]; upd; keys; fin.
    + (* no claim *)
      destruct (aget (memo st) ko) as [h|] eqn:Em;
        destruct (has_prefix memo_forget_prefix ko);
        rewrite !gget_gset; keys; cbn [good memo files]; upd; rewrite ?str_eqb_refl; keys; fin;
        apply (good_ext st); cbn [memo files]; upd; keys; fin.
Qed.

(* ---- what Hash answers ---- *)
(* st: the state in which (equivalently: after which) the operation ran; Hash does not touch the files *)
Definition answer_ok (root : str) (st : mstate) (o : op) (r : obs) : Prop :=
  match o, r with
  | OHash p _, ObsVal v _ => exists t, aget (files st) (ensure_relative root p) = Some t /\ v = stream t
  | OHash p _, ObsErr => aget (files st) (ensure_relative root p) = None
  | _, _ => True
  end.

Lemma hash_keeps_files root st p rc : files (fst (step root st (OHash p rc))) = files st.
Proof.
  cbn [step]. destruct (if rc then None else aget (memo st) (ensure_relative root p)) as [[v|]|];
    try reflexivity; destruct (aget (files st) (ensure_relative root p)); reflexivity.
Qed.

Lemma step_answer root st g o :
  Inv st g -> allowed root g o = true -> answer_ok root st o (snd (step root st o)).
Proof.
  intros HI Hal. destruct o as [p t|p|a b|p rc|a b|a b|p v|a b]; cbn [step];
    try (cbn [answer_ok snd]; exact I);
    try (destruct (aget (files st) (ensure_relative root a)); [|exact I]; try destruct (str_eqb _ _); exact I).
  set (k0 := ensure_relative root p). pose proof (HI k0) as H0.
  assert (Hfresh : answer_ok root st (OHash p rc)
            (snd match aget (files st) k0 with
                 | Some t => (MState (aset (memo st) k0 (Some (Some (stream t)))) (files st), ObsVal (stream t) true)
                 | None => (st, ObsErr)
                 end)).
  { cbn [answer_ok]. fold k0. destruct (aget (files st) k0) as [t|] eqn:Ef; cbn [snd]; eauto. }
  destruct rc; [exact Hfresh|].
  cbn [allowed] in Hal. fold k0 in Hal.
  destruct (aget (memo st) k0) as [[v|]|] eqn:Em; try exact Hfresh.
  cbn [snd answer_ok]. fold k0.
  destruct (gget g k0); cbn [good] in H0; try congruence; try discriminate.
  destruct H0 as (t & Ef & Em'). exists t. split; [exact Ef|congruence].
Qed.

(* the state and the status map after a whole sequence *)
Fixpoint run (root : str) (st : mstate) (g : ghost) (ops : list op) : mstate * ghost :=
  match ops with
  | [] => (st, g)
  | o :: r => run root (fst (step root st o)) (g_step root (files st) g o) r
  end.

Definition entry_ok (root : str) (e : op * obs * bool * mstate) : Prop :=
  answer_ok root (snd e) (fst (fst (fst e))) (snd (fst (fst e))).

(* ---- the theorem: induction over the operation list, from any state satisfying the invariant ---- *)
Lemma memo_sound_from root ops : forall st g,
  Inv st g -> follows root st g ops = true ->
  Forall (entry_ok root) (exec root st g ops)
  /\ Inv (fst (run root st g ops)) (snd (run root st g ops)).
Proof.
  induction ops as [|o r IH]; intros st g HI Hf.
  - split; [constructor|exact HI].
  - unfold follows in Hf. cbn [exec run] in *.
    destruct (step root st o) as [st' out] eqn:Es. cbn [forallb fst snd] in Hf.
    apply andb_true_iff in Hf as [Hal Hrest].
    assert (HI' : Inv st' (g_step root (files st) g o)).
    { pose proof (step_inv root st g o HI Hal) as H. rewrite Es in H. exact H. }
    destruct (IH st' _ HI' Hrest) as [Hall Hfin]. cbn [fst]. split; [|exact Hfin].
    constructor; [|exact Hall].
    unfold entry_ok. cbn [fst snd].
    pose proof (step_answer root st g o HI Hal) as Ha. rewrite Es in Ha. cbn [snd] in Ha.
    destruct o; try exact Ha || (destruct out; exact I).
    (* Hash: the files after are the files before *)
    pose proof (hash_keeps_files root st p recalc) as Hk. rewrite Es in Hk. cbn [fst] in Hk.
    unfold answer_ok in *. rewrite Hk. exact Ha.
Qed.

Lemma inv_init : Inv mstate0 [].
Proof. intros k. reflexivity. Qed.

Lemma memo_sound root ops :
  follows root mstate0 [] ops = true ->
  Forall (entry_ok root) (exec root mstate0 [] ops)
  /\ Inv (fst (run root mstate0 [] ops)) (snd (run root mstate0 [] ops)).
Proof. apply memo_sound_from. exact inv_init. Qed.

(* ---- the protocol hypothesis cannot be dropped: rewriting a path under a valid entry and asking
        again without recalc returns the hash of the OLD tree (this is what memoisation means) ---- *)
Definition stale_demo : list op :=
  [OWrite (s "src/a") (File (s "v1")); OHash (s "src/a") false;
   OWrite (s "src/a") (File (s "v2")); OHash (s "src/a") false].
Lemma protocol_needed :
  follows (s "/r") mstate0 [] stale_demo = false
  /\ map (fun e => snd (fst (fst e))) (exec (s "/r") mstate0 [] stale_demo)
     = [ObsNone; ObsVal (s "v1") true; ObsNone; ObsVal (s "v1") false].
Proof. split; vm_compute; reflexivity. Qed.

(* ---- build.moveOutput twice for the same temporary path (the sequence mutation m3 breaks) is inside
        the protocol, and the second Hash of the temporary path answers for the NEW content ---- *)
Definition move_output_twice : list op :=
  [OWrite (s "plz-out/tmp/t/o") (File (s "one")); OHash (s "plz-out/tmp/t/o") false;
   OMoveOutput (s "plz-out/tmp/t/o") (s "plz-out/gen/p/o");
   OWrite (s "plz-out/tmp/t/o") (File (s "two")); OHash (s "/r/plz-out/tmp/t/o") false;
   OHash (s "plz-out/gen/p/o") false].
Lemma move_output_twice_ok :
  follows (s "/r") mstate0 [] move_output_twice = true
  /\ map (fun e => snd (fst (fst e))) (exec (s "/r") mstate0 [] move_output_twice)
     = [ObsNone; ObsVal (s "one") true; ObsNone; ObsNone; ObsVal (s "two") true; ObsVal (s "one") false].
Proof. split; vm_compute; reflexivity. Qed.
