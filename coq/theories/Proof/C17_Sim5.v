(* C17 - parametricity of the evaluator in the ids it allocates, part 5: function calls and blocks
   (run_func, exec_block, call_value) for one more unit of fuel. *)
From Coq Require Import String Lia.
From PlzV Require Import Base.Harness Base.StrFacts Gen.AspTables Model.C16_Syntax Model.C16_Ops Model.C16_Prim Model.C16_Eval.
From PlzV Require Import Proof.C17_Inv Proof.C17_Ops Proof.C17_Scopes Proof.C17_Sim1 Proof.C17_Sim2 Proof.C17_Sim3 Proof.C17_Sim4.
Local Open Scope list_scope.
Local Open Scope nat_scope.

Lemma list_set_map : forall {A B} (g : A -> B) i x (l : list A), list_set i (g x) (map g l) = map g (list_set i x l).
Proof. intros A B g i x l. revert i. induction l as [|y r IH]; intros [|i]; cbn; try reflexivity. f_equal. apply IH. Qed.

Lemma combine_map_l : forall {A B} (g : A -> A) (a : list A) (b : list B), combine (map g a) b = map (fun p => (g (fst p), snd p)) (combine a b).
Proof. intros A B g. induction a as [|x r IH]; intros [|y ys]; cbn; try reflexivity. f_equal. apply IH. Qed.

Lemma existsb_map : forall {A} (p : A -> bool) (g : A -> A) l, (forall x, p (g x) = p x) -> existsb p (map g l) = existsb p l.
Proof. intros A p g l Hp. induction l as [|x r IH]; cbn; [reflexivity|]. rewrite Hp, IH. reflexivity. Qed.

Lemma filter_keep_map : forall {B} (g : B -> B) (keep : list (bool * B)),
  map (@snd _ _) (filter (@fst _ _) (map (fun p : bool * B => (fst p, g (snd p))) keep)) = map g (map (@snd _ _) (filter (@fst _ _) keep)).
Proof. intros B g. induction keep as [|[b x] r IH]; [reflexivity|]. cbn [map filter fst snd]. destruct b; cbn [map snd]; rewrite IH; reflexivity. Qed.

#[local] Arguments chain : simpl never.
#[local] Arguments is_const : simpl never.
#[local] Arguments const_alloc : simpl never.
#[local] Arguments native : simpl never.
#[local] Arguments native_method : simpl never.
#[local] Arguments native_sig : simpl never.
#[local] Arguments method_sig : simpl never.
#[local] Arguments validate : simpl never.
#[local] Arguments apply_bin : simpl never.
#[local] Arguments vindex : simpl never.
#[local] Arguments vslice : simpl never.
#[local] Arguments vindex_assign : simpl never.
#[local] Arguments unpack_names : simpl never.
#[local] Arguments iter_items : simpl never.
#[local] Arguments new_list : simpl never.
#[local] Arguments alloc_list : simpl never.
#[local] Arguments alloc_dict : simpl never.
#[local] Arguments lookup : simpl never.
#[local] Arguments set_var : simpl never.
#[local] Arguments truthy : simpl never.
#[local] Arguments strict_list : simpl never.
#[local] Arguments str_eqb : simpl never.
#[local] Arguments existsb : simpl never.
#[local] Arguments assoc_get : simpl never.
#[local] Arguments find_def : simpl never.
#[local] Arguments opt_stmts : simpl never.
#[local] Arguments drop_pass : simpl never.
#[local] Arguments freeze_env : simpl never.
#[local] Arguments mapM : simpl never.
#[local] Arguments mapR : simpl never.
#[local] Arguments rbind : simpl never.
#[local] Arguments s : simpl never.
#[local] Arguments str_methods : simpl never.
#[local] Arguments dict_methods : simpl never.
#[local] Arguments Nat.ltb : simpl never.
#[local] Arguments Nat.leb : simpl never.
#[local] Arguments nth : simpl never.
#[local] Arguments fold_left : simpl never.
#[local] Arguments combine : simpl never.
#[local] Arguments map : simpl never.
#[local] Arguments length : simpl never.
#[local] Arguments env_get : simpl never.
#[local] Arguments tl : simpl never.
#[local] Arguments C17_Sim1.rn_env : simpl never.
#[local] Arguments C17_Sim1.rn_slice : simpl never.
#[local] Arguments C17_Sim1.rn_func : simpl never.
#[local] Arguments C17_Sim1.rsim : simpl never.
#[local] Arguments sh : simpl never.


Section Sim5.
Variable W : shift.
Variable defs : list (str * prog).
Notation rn := (C17_Sim1.rn W).
Notation rn_env := (C17_Sim1.rn_env W).
Notation rn_kv := (C17_Sim1.rn_kv W).
Notation rn_arg := (C17_Sim1.rn_arg W).
Notation rn_func := (C17_Sim1.rn_func W).
Notation sim := (C17_Sim1.sim W defs).
Notation rsim := (C17_Sim1.rsim W defs).
Notation vR := (C17_Sim1.vR W).
Notation shd := (C17_Sim1.shd W).
Notation shf := (C17_Sim1.shf W).
Notation shs := (C17_Sim1.shs W).
Notation sR := (C17_Sim4.sR W).
Notation rn_sres := (C17_Sim4.rn_sres W).
Notation E_sim := (C17_Sim4.E_sim W defs).
Notation V_sim := (C17_Sim4.V_sim W defs).
Notation C_sim := (C17_Sim4.C_sim W defs).
Notation R_sim := (C17_Sim4.R_sim W defs).
Notation B_sim := (C17_Sim4.B_sim W defs).
Notation S_sim := (C17_Sim4.S_sim W defs).

Ltac sim_fields := cbn [arrays dicts funcs fscopes cur locals consts subcache set_arrays set_dicts set_funcs set_fscopes set_cur set_locals set_consts set_subcache].

Lemma restore_sim : forall st2 st2' st4 st4', sim st2 st2' -> sim st4 st4' ->
  sim (set_locals (locals st2) (set_cur (cur st2) st4)) (set_locals (locals st2') (set_cur (cur st2') st4')).
Proof.
  intros st2 st2' st4 st4' H2 H4. rewrite (sm_cur _ _ _ _ H2), (sm_loc _ _ _ _ H2).
  apply set_locals_sim, set_cur_sim. exact H4.
Qed.

Lemma map_fst_rn_arg : forall l, map (@fst _ _) (map rn_arg l) = map (@fst _ _) l.
Proof. intros l. rewrite map_map. apply map_ext. intros a. reflexivity. Qed.

Lemma step_R : forall f, E_sim f -> B_sim f -> R_sim (S f).
Proof.
  intros f IHE IHB id bound st1 st1' HS. simpl. change (Func [] [] [] 0) with dflt_func.
  destruct (Nat.lt_ge_cases id (length (funcs st1))) as [Hlt|Hge].
  - rewrite (func_sim _ _ _ _ HS id Hlt). set (fd := nth id (funcs st1) dflt_func).
    cbn [C17_Sim1.rn_func f_args f_body f_scope].
    match goal with |- rsim _ (rbind (?go _ _ _) _) _ =>
      assert (Hgo : forall l acc s0 s0', sim s0 s0' -> rsim (fun e e' => e' = rn_env e) (go l acc s0) (go (map rn_arg l) (rn_env acc) s0')) end.
    { induction l as [|[a df] r IH]; intros acc s0 s0' H0.
      - split; [reflexivity|exact H0].
      - cbn [map C17_Sim1.rn_arg fst snd]. simpl. rewrite rn_env_get.
        destruct (env_get a acc); cbn [option_map]; [apply IH; exact H0|].
        destruct df as [|v|e]; cbn [C17_Sim1.rn_dflt]; [reflexivity| |].
        + rewrite rn_env_set. apply IH. exact H0.
        + eapply rsim_bind; [apply IHE; exact H0|]. intros v s' v' s'' Hv H'. cbv beta match. rsubst.
          rewrite rn_env_set. apply IH. exact H'. }
    eapply rsim_bind; [apply Hgo; exact HS|]. intros full s2 full' s2' Hfull H2. cbv beta match. rsubst.
    eapply rsim_bind.
    + apply IHB. apply (set_locals_sim W defs _ _ [full]). apply set_cur_sim. exact H2.
    + intros r s4 r' s4' Hr H4. cbv beta match. red in Hr. subst r'.
      pose proof (restore_sim _ _ _ _ H2 H4) as H5.
      destruct r; cbn [C17_Sim4.rn_sres]; (split; [reflexivity|exact H5]).
  - destruct (func_out _ _ _ _ HS id Hge) as [E1 E2]. rewrite E1, E2. unfold dflt_func. simpl.
    assert (H5 : sim (set_locals (locals st1) (set_cur (cur st1) (set_locals [bound] (set_cur 0 st1))))
                     (set_locals (locals st1') (set_cur (cur st1') (set_locals [rn_env bound] (set_cur 0 st1'))))).
    { destruct HS. constructor; sim_fields; auto. }
    destruct f; simpl; [exact I|]. split; [reflexivity|exact H5].
Qed.

Lemma step_B : forall f, B_sim f -> S_sim f -> B_sim (S f).
Proof.
  intros f IHB IHS ss st st' HS. destruct ss as [|s0 r]; simpl.
  - split; [reflexivity|exact HS].
  - eapply rsim_bind; [apply IHS; exact HS|]. intros res0 s1 res0' s1' Hr H1. cbv beta match. red in Hr. subst res0'.
    destruct res0; cbn [C17_Sim4.rn_sres]; try (split; [reflexivity|exact H1]). apply IHB. exact H1.
Qed.

Lemma nth_rn_arg : forall i l, nth i (map rn_arg l) ([], DNo) = rn_arg (nth i l ([], DNo)).
Proof. intros. change ([], DNo) with (rn_arg ([], DNo)) at 1. apply map_nth. Qed.

Lemma step_C : forall f, E_sim f -> R_sim f -> C_sim (S f).
Proof.
  intros f IHE IHR fn name args st st' HS. destruct fn; simpl; try reflexivity.
  - (* a function defined by def *)
    change (Func [] [] [] 0) with dflt_func. rewrite (func_args_sim _ _ _ _ HS id).
    set (formals := f_args (nth id (funcs st) dflt_func)).
    match goal with |- rsim _ (rbind (?go _ _ _ _) _) (rbind (?go' _ _ _ _) _) => set (G := go); set (G' := go') end.
    assert (Hgo : forall l i acc s0 s0', sim s0 s0' -> rsim (fun e e' => e' = rn_env e) (G l i acc s0) (G' l i (rn_env acc) s0')).
    { induction l as [|[[k|] e] r IH]; intros i acc s0 s0' H0; unfold G, G'; simpl; fold G; fold G'.
      - split; [reflexivity|exact H0].
      - rewrite (existsb_map (fun a : str * fdefault => str_eqb (fst a) k) rn_arg) by (intros; reflexivity).
        destruct (existsb _ _); [|reflexivity].
        eapply rsim_bind; [apply IHE; exact H0|]. intros v s' v' s'' Hv H'. cbv beta match. rsubst.
        rewrite rn_env_set. apply IH. exact H'.
      - rewrite map_length. destruct (Nat.leb _ _); [reflexivity|].
        eapply rsim_bind; [apply IHE; exact H0|]. intros v s' v' s'' Hv H'. cbv beta match. rsubst.
        rewrite nth_rn_arg. cbn [C17_Sim1.rn_arg fst]. rewrite rn_env_set. apply IH. exact H'. }
    eapply rsim_bind; [apply (Hgo args 0 []); exact HS|]. intros bound s1 bound' s1' Hb H1. cbv beta match. rsubst.
    apply IHR. exact H1.
  - (* a builtin *)
    destruct (native_sig n) as [[sg varargs]|] eqn:Esg.
    + pose proof (native_sig_closed W _ _ _ Esg) as Hsg.
      assert (Hnth : forall j dv, snd (nth j sg ([], 0%N, None)) = Some dv -> rn dv = dv).
      { intros j dv. apply (Forall_nth (fun x => forall dv, snd x = Some dv -> rn dv = dv)); [exact Hsg|]. cbn. discriminate. }
      match goal with |- rsim _ (rbind (?go _ _ _ _ _) _) _ =>
        assert (Hgo : forall l i slots extra s0 s0', sim s0 s0' ->
                  rsim (fun p p' : list (option value) * list value => p' = (map (option_map rn) (fst p), map rn (snd p)))
                       (go l i slots extra s0) (go l i (map (option_map rn) slots) (map rn extra) s0')) end.
      { induction l as [|[[k|] e] r IH]; intros i slots extra s0 s0' H0; simpl.
        - split; [reflexivity|exact H0].
        - match goal with |- rsim _ (match ?x with _ => _ end) _ => destruct x as [j|] end; [|reflexivity].
          specialize (Hnth j). destruct (nth j sg ([], 0%N, None)) as [[a t] def]. cbn [snd] in Hnth.
          eapply rsim_bind; [apply IHE; exact H0|]. intros v s' v' s'' Hv H'. cbv beta match. rsubst.
          rewrite (validate_rn W t def v Hnth). apply rsim_pure. intros v' Hv'.
          change (Some (rn v')) with (option_map rn (Some v')). rewrite list_set_map. apply IH. exact H'.
        - destruct (Nat.leb _ _).
          + destruct varargs; [|reflexivity].
            eapply rsim_bind; [apply IHE; exact H0|]. intros v s' v' s'' Hv H'. cbv beta match. rsubst.
            change [rn v] with (map rn [v]). rewrite <- map_app. apply IH. exact H'.
          + specialize (Hnth i). destruct (nth i sg ([], 0%N, None)) as [[a t] def]. cbn [snd] in Hnth.
            eapply rsim_bind; [apply IHE; exact H0|]. intros v s' v' s'' Hv H'. cbv beta match. rsubst.
            rewrite (validate_rn W t def v Hnth). apply rsim_pure. intros v' Hv'.
            change (Some (rn v')) with (option_map rn (Some v')). rewrite list_set_map. apply IH. exact H'. }
      eapply rsim_bind.
      { assert (Hinit : map (fun _ : str * N * option value => @None value) sg = map (option_map rn) (map (fun _ => None) sg)).
        { rewrite map_map. reflexivity. }
        rewrite Hinit at 2. apply (Hgo args 0 _ []). exact HS. }
      intros [filled extra] s1 [filled' extra'] s1' Hp H1. cbv beta in Hp. injection Hp as -> ->. cbn [fst snd]. cbv beta match.
      rewrite combine_map_l.
      rewrite (mapR_rmap (fun sv : option value * (str * N * option value) => match fst sv with
                                    | Some v => Ok v
                                    | None => match snd sv with (_, _, Some dv) => Ok dv | _ => Err EType end
                                    end)
                         (fun sv : option value * (str * N * option value) => match fst sv with
                                    | Some v => Ok v
                                    | None => match snd sv with (_, _, Some dv) => Ok dv | _ => Err EType end
                                    end)
                         (fun p : option value * (str * N * option value) => (option_map rn (fst p), snd p)) rn).
      * apply rsim_pure. intros vals Hvals. rewrite <- map_app. apply native_sim. exact H1.
      * intros [o [[a t] def]] Hin. cbn [fst snd]. destruct o as [v|]; cbn [option_map rmap]; [reflexivity|].
        destruct def as [dv|]; [|reflexivity]. cbn [rmap]. apply in_combine_r in Hin.
        unfold closed_sig in Hsg. rewrite Forall_forall in Hsg. rewrite (Hsg _ Hin dv eq_refl). reflexivity.
    + (* map / filter / reduce *)
      destruct (_ || _)%bool; [|reflexivity]. destruct (_ || _)%bool; [reflexivity|].
      match goal with |- rsim _ (rbind (?go _ _ _) _) _ =>
        assert (Hgo : forall l ts s0 s0', sim s0 s0' -> rsim (fun vs vs' => vs' = map rn vs) (go l ts s0) (go l ts s0')) end.
      { induction l as [|[k e] r IH]; intros ts s0 s0' H0; simpl.
        - split; [reflexivity|exact H0].
        - destruct ts as [|t tr]; [split; [reflexivity|exact H0]|].
          eapply rsim_bind; [apply IHE; exact H0|]. intros v s' v' s'' Hv H'. cbv beta match. rsubst.
          rewrite (validate_rn W t None v) by (intros dv Hd; discriminate Hd). apply rsim_pure. intros v' Hv'.
          eapply rsim_bind; [apply IH; exact H'|]. intros vs s2 vs' s2' Hvs H2. cbv beta match. rsubst.
          split; [reflexivity|exact H2]. }
      eapply rsim_bind; [apply Hgo; exact HS|]. intros vals s1 vals' s1' Hvals H1. cbv beta match. rsubst.
      rewrite map_length. destruct (Nat.ltb _ _); [reflexivity|]. rewrite !nth_rn.
      destruct (nth 0 vals VNone) as [ | | | | | | | | | | fid | ]; cbn [C17_Sim1.rn]; try reflexivity.
      rewrite (strict_list_sim _ _ _ _ H1). apply rsim_pure. intros l Hl.
      assert (Hcall : forall xs s0 s0', sim s0 s0' ->
                rsim vR
                  (if Nat.ltb (length (f_args (nth fid (funcs s0) dflt_func))) (length xs) then Err EType
                   else run_func Asp defs f fid (combine (map (@fst _ _) (f_args (nth fid (funcs s0) dflt_func))) xs) s0)
                  (if Nat.ltb (length (f_args (nth (shf fid) (funcs s0') dflt_func))) (length (map rn xs)) then Err EType
                   else run_func Asp defs f (shf fid) (combine (map (@fst _ _) (f_args (nth (shf fid) (funcs s0') dflt_func))) (map rn xs)) s0')).
      { intros xs s0 s0' H0. rewrite (func_args_sim _ _ _ _ H0 fid), !map_length, map_fst_rn_arg, combine_rn.
        destruct (Nat.ltb _ _); [reflexivity|]. apply IHR. exact H0. }
      change (Func [] [] [] 0) with dflt_func.
      destruct (str_eqb n (s "map")).
      { eapply rsim_bind.
        - apply (mapM_sim W defs rn rn); [|exact H1]. intros x _ s0 s0' H0. exact (Hcall [x] s0 s0' H0).
        - intros out s2 out' s2' Hout H2. cbv beta match. rsubst. apply new_list_sim. exact H2. }
      destruct (str_eqb n (s "filter")).
      { eapply rsim_bind.
        - apply (mapM_sim W defs rn (fun p : bool * value => (fst p, rn (snd p)))); [|exact H1]. intros x _ s0 s0' H0.
          eapply rsim_bind; [exact (Hcall [x] s0 s0' H0)|]. intros r s' r' s'' Hr H'. cbv beta match. rsubst.
          rewrite (truthy_sim _ _ _ _ H'). split; [reflexivity|exact H'].
        - intros keep s2 keep' s2' Hkeep H2. cbv beta match. rsubst.
          pose proof (filter_keep_map rn keep) as Hout.
          rewrite Hout. destruct (map (@snd _ _) (filter (@fst _ _) keep)) as [|o1 orest]; [split; [reflexivity|exact H2]|].
          change (map rn (o1 :: orest)) with (rn o1 :: map rn orest). cbv beta match.
          change (rn o1 :: map rn orest) with (map rn (o1 :: orest)). rewrite !map_length.
          match goal with |- rsim _ (if ?c then _ else _) (if ?c then _ else _) => destruct c end; [reflexivity|].
          match goal with |- rsim _ (Ok (VList {| s_arr := _; s_off := _; s_len := _; s_cap := Nat.max ?c _ |}, _)) _ =>
            pose proof (alloc_list_rsim W defs (o1 :: orest) c _ _ H2) as Ha end.
          unfold alloc_list in Ha. rewrite map_length in Ha. exact Ha. }
      (* reduce *)
      destruct l as [|x r]; [apply (ret_val W defs (nth 2 vals VNone)); exact H1|].
      assert (Hgo2 : forall l0 acc s0 s0', sim s0 s0' -> rsim vR
                ((fix go (l0 : list value) (acc : value) (st0 : state) : res (value * state) :=
                    match l0 with
                    | [] => Ok (acc, st0)
                    | y :: r0 =>
                        rbind (if Nat.ltb (length (f_args (nth fid (funcs st0) dflt_func))) (length [acc; y]) then Err EType
                               else run_func Asp defs f fid (combine (map (@fst _ _) (f_args (nth fid (funcs st0) dflt_func))) [acc; y]) st0)
                              (fun '(acc', st') => go r0 acc' st')
                    end) l0 acc s0)
                ((fix go (l0 : list value) (acc : value) (st0 : state) : res (value * state) :=
                    match l0 with
                    | [] => Ok (acc, st0)
                    | y :: r0 =>
                        rbind (if Nat.ltb (length (f_args (nth (shf fid) (funcs st0) dflt_func))) (length [acc; y]) then Err EType
                               else run_func Asp defs f (shf fid) (combine (map (@fst _ _) (f_args (nth (shf fid) (funcs st0) dflt_func))) [acc; y]) st0)
                              (fun '(acc', st') => go r0 acc' st')
                    end) (map rn l0) (rn acc) s0')).
      { induction l0 as [|y r0 IH]; intros acc s0 s0' H0.
        - apply ret_val. exact H0.
        - change (map rn (y :: r0)) with (rn y :: map rn r0). simpl.
          eapply rsim_bind; [exact (Hcall [acc; y] s0 s0' H0)|]. intros acc' s' acc'' s'' Hacc H'. cbv beta match. rsubst.
          apply IH. exact H'. }
      change (map rn (x :: r)) with (rn x :: map rn r).
      destruct (nth 2 vals VNone); cbn [C17_Sim1.rn]; cbv beta match;
        first [ exact (Hgo2 (x :: r) _ s1 s1' H1) | exact (Hgo2 r x s1 s1' H1) ].
Qed.

End Sim5.
