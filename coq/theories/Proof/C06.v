(* C06 - cycle detection: specification vocabulary, invariants and proofs about Model/C06.v. *)
From PlzV Require Import Base.Harness Model.C06.
From Coq Require Import Lia Permutation Relations Operators_Properties.

(* ------------------------------------------------------------------------------------------- *)
(* Specification vocabulary (used by Props/C06.v)                                               *)

(* a depends on b *)
Definition edge (g : graph) (a b : nat) : Prop := In b (deps g a).

(* each listed target depends on the next *)
Fixpoint chain (g : graph) (l : list nat) : Prop :=
  match l with
  | [] => True
  | a :: r => match r with
              | [] => True
              | b :: _ => edge g a b /\ chain g r
              end
  end.

(* a genuine cycle: non-empty, each listed target depends on the next, the last on the first *)
Definition is_cycle (g : graph) (c : list nat) : Prop :=
  c <> [] /\ chain g c /\ edge g (last c 0) (hd 0 c).

Definition has_cycle (g : graph) : Prop := exists c, is_cycle g c.

(* every resolved dependency is a target of the graph *)
Definition wf (g : graph) : Prop := forall v d, In d (deps g v) -> d < length g.

(* AllTargets() lists every target once *)
Definition nodes (g : graph) : list nat := seq 0 (length g).

(* ------------------------------------------------------------------------------------------- *)
(* Sets as lists                                                                                 *)

Lemma mem_In v l : mem v l = true <-> In v l.
Proof.
  unfold mem. rewrite existsb_exists. split.
  - intros (x & Hx & He). apply Nat.eqb_eq in He. subst. exact Hx.
  - intros H. exists v. split; [exact H | apply Nat.eqb_refl].
Qed.

Lemma mem_notIn v l : mem v l = false -> ~ In v l.
Proof. intros H Hin. apply mem_In in Hin. congruence. Qed.

Lemma del_In x v l : In x (del v l) -> In x l /\ x <> v.
Proof.
  induction l as [|y r IH]; cbn [del]; [intros [] |].
  destruct (Nat.eqb v y) eqn:E.
  - intros H. destruct (IH H) as [H1 H2]. split; [right; exact H1 | exact H2].
  - apply Nat.eqb_neq in E. intros [H | H].
    + subst. split; [left; reflexivity | congruence].
    + destruct (IH H) as [H1 H2]. split; [right; exact H1 | exact H2].
Qed.

Lemma del_notin v l : ~ In v l -> del v l = l.
Proof.
  induction l as [|y r IH]; cbn [del]; [reflexivity |].
  intros H. destruct (Nat.eqb v y) eqn:E.
  - apply Nat.eqb_eq in E. subst. exfalso. apply H. left. reflexivity.
  - f_equal. apply IH. intros Hin. apply H. right. exact Hin.
Qed.

Lemma del_head v l : ~ In v l -> del v (v :: l) = l.
Proof. intros H. cbn [del]. rewrite Nat.eqb_refl. apply del_notin. exact H. Qed.

Lemma last_cons (t : nat) c : c <> [] -> last (t :: c) 0 = last c 0.
Proof. destruct c; [congruence | reflexivity]. Qed.

Lemma deps_lt g v d : In d (deps g v) -> v < length g.
Proof.
  unfold deps. intros H. destruct (Nat.lt_ge_cases v (length g)) as [Hl | Hl]; [exact Hl |].
  rewrite nth_overflow in H by exact Hl. destruct H.
Qed.

(* ------------------------------------------------------------------------------------------- *)
(* Soundness: what a returned (cycle, done) means.  Needs no assumption on the graph.            *)

(* P is the partial set on entry.  done: the cycle is closed.  not done: cycle is a dependency
   path from the visited target down to a target that is still partially visited. *)
Definition cyc_spec (g : graph) (P : list nat) (t : nat) (c : list nat) (done : bool) : Prop :=
  if done then is_cycle g c
  else chain g c /\ hd_error c = Some t /\ In (last c 0) P.

Definition sound_res (g : graph) (P : list nat) (t : nat) (r : res) : Prop :=
  match r with
  | OutOfFuel => True
  | NoCyc st' => incl (partial st') P
  | Cyc c done => cyc_spec g P t c done
  end.

Lemma visit_deps_sound g vis t P :
  (forall st d, sound_res g (partial st) d (vis st d)) ->
  forall ds st, incl ds (deps g t) -> incl (partial st) (t :: P) ->
  sound_res g P t (visit_deps vis t ds st).
Proof.
  intros Hvis. induction ds as [|a ds IH]; intros st Hds Hp; cbn [visit_deps].
  - cbn. intros x Hx. apply del_In in Hx as [Hx Hne]. apply Hp in Hx.
    destruct Hx as [Hx | Hx]; [congruence | exact Hx].
  - pose proof (Hvis st a) as Ha. destruct (vis st a) as [|st'|c d]; cbn [sound_res] in Ha.
    + exact I.
    + apply IH.
      * intros x Hx. apply Hds. right. exact Hx.
      * eapply incl_tran; [exact Ha | exact Hp].
    + assert (Hta : edge g t a) by (apply Hds; left; reflexivity).
      destruct d; cbn [orb].
      * exact Ha.
      * destruct Ha as (Hch & Hhd & Hlast).
        destruct c as [|b r]; [discriminate Hhd |]. cbn in Hhd. injection Hhd as ->.
        destruct (Nat.eqb t (last (a :: r) 0)) eqn:Et.
        -- apply Nat.eqb_eq in Et. cbn [sound_res cyc_spec].
           split; [discriminate |]. split; [exact Hch |]. rewrite <- Et. exact Hta.
        -- apply Nat.eqb_neq in Et. cbn [sound_res cyc_spec]. split; [| split].
           ++ split; [exact Hta | exact Hch].
           ++ reflexivity.
           ++ rewrite last_cons by discriminate. apply Hp in Hlast.
              destruct Hlast as [Hl | Hl]; [congruence | exact Hl].
Qed.

Lemma visit_sound fuel g : forall st t, sound_res g (partial st) t (visit fuel g st t).
Proof.
  induction fuel as [|f IH]; intros st t; cbn [visit]; [exact I |].
  destruct (mem t (complete st)) eqn:Ec; [apply incl_refl |].
  destruct (mem t (partial st)) eqn:Ep.
  - cbn. split; [exact I |]. split; [reflexivity | apply mem_In; exact Ep].
  - apply visit_deps_sound; [exact IH | apply incl_refl | apply incl_refl].
Qed.

Lemma check_loop_sound fuel g : forall order st c,
  partial st = [] -> check_loop fuel g order st = Found c -> is_cycle g c.
Proof.
  induction order as [|t rest IH]; intros st c Hp; cbn [check_loop]; [discriminate |].
  destruct (mem t (complete st)); [apply IH; exact Hp |].
  pose proof (visit_sound fuel g st t) as Hv.
  destruct (visit fuel g st t) as [|st'|c0 d]; cbn [sound_res] in Hv.
  - discriminate.
  - apply IH. rewrite Hp in Hv. apply incl_l_nil. exact Hv.
  - intros H. injection H as ->. destruct d; cbn [cyc_spec] in Hv; [exact Hv |].
    destruct Hv as (_ & _ & Hl). rewrite Hp in Hl. destruct Hl.
Qed.

Theorem detect_sound g order c : detect g order = Found c -> is_cycle g c.
Proof. apply check_loop_sound. reflexivity. Qed.

(* ------------------------------------------------------------------------------------------- *)
(* The complete set: listed in post-order, so every member's dependencies come later in it.      *)

Fixpoint post (g : graph) (cs : list nat) : Prop :=
  match cs with
  | [] => True
  | t :: r => incl (deps g t) r /\ post g r
  end.

Lemma post_closed g : forall cs v w, post g cs -> In v cs -> edge g v w -> In w cs.
Proof.
  induction cs as [|t r IH]; intros v w Hp Hv He; [destruct Hv |].
  destruct Hp as [Hd Hp]. right. destruct Hv as [-> | Hv].
  - apply Hd. exact He.
  - eapply IH; eassumption.
Qed.

Lemma post_reach g cs v w : post g cs -> clos_trans nat (edge g) v w -> In v cs -> In w cs.
Proof.
  intros Hp H. induction H as [x y He | x y z _ IH1 _ IH2]; intros Hv.
  - eapply post_closed; eassumption.
  - auto.
Qed.

(* nothing in the complete set lies on a cycle *)
Lemma post_acyclic g : forall cs v, post g cs -> In v cs -> ~ clos_trans nat (edge g) v v.
Proof.
  induction cs as [|t r IH]; intros v Hp Hv Hc; [destruct Hv |].
  destruct Hp as [Hd Hp]. destruct Hv as [<- | Hv]; [| exact (IH v Hp Hv Hc)].
  assert (Ht : In t r).
  { apply clos_trans_t1n in Hc. inversion Hc as [y He | y z He Hr]; subst.
    - apply Hd. exact He.
    - apply clos_t1n_trans in Hr. eapply post_reach; [exact Hp | exact Hr | apply Hd; exact He]. }
  exact (IH t Hp Ht Hc).
Qed.

Lemma chain_rt g : forall r x, chain g (x :: r) -> clos_refl_trans nat (edge g) x (last (x :: r) 0).
Proof.
  induction r as [|a r IH]; intros x H.
  - apply rt_refl.
  - destruct H as [He Hc]. change (last (x :: a :: r) 0) with (last (a :: r) 0).
    eapply rt_trans; [apply rt_step; exact He | apply IH; exact Hc].
Qed.

Lemma cycle_reach g c : is_cycle g c -> clos_trans nat (edge g) (hd 0 c) (hd 0 c).
Proof.
  intros (Hne & Hch & He). destruct c as [|x r]; [congruence |]. cbn [hd] in *.
  eapply clos_rt_t; [apply chain_rt; exact Hch | apply t_step; exact He].
Qed.

(* ------------------------------------------------------------------------------------------- *)
(* Fuel never runs out; a visit that finds nothing restores partial and completes its target     *)

Lemma nodup_bound n l : NoDup l -> (forall x, In x l -> x < n) -> length l <= n.
Proof.
  intros Hnd Hlt. rewrite <- (seq_length n 0). apply NoDup_incl_length; [exact Hnd |].
  intros x Hx. apply in_seq. specialize (Hlt x Hx). lia.
Qed.

Definition ok_res (g : graph) (st : state) (t : nat) (r : res) : Prop :=
  match r with
  | OutOfFuel => False
  | NoCyc st' => partial st' = partial st /\ post g (complete st')
                 /\ incl (complete st) (complete st') /\ In t (complete st')
  | Cyc _ _ => True
  end.

Lemma visit_deps_ok g vis t P1 :
  (forall st d, partial st = P1 -> post g (complete st) -> d < length g -> ok_res g st d (vis st d)) ->
  forall ds st, partial st = P1 -> post g (complete st) -> (forall d, In d ds -> d < length g) ->
  match visit_deps vis t ds st with
  | OutOfFuel => False
  | NoCyc st' => partial st' = del t P1 /\
                 exists cs, complete st' = t :: cs /\ post g cs /\ incl (complete st) cs
                            /\ (forall d, In d ds -> In d cs)
  | Cyc _ _ => True
  end.
Proof.
  intros Hvis. induction ds as [|a ds IH]; intros st Hp Hpost Hlt; cbn [visit_deps].
  - cbn. split; [rewrite Hp; reflexivity |]. exists (complete st).
    split; [reflexivity |]. split; [exact Hpost |]. split; [apply incl_refl | intros d []].
  - pose proof (Hvis st a Hp Hpost (Hlt a (or_introl eq_refl))) as Ha.
    destruct (vis st a) as [|st'|c d]; cbn [ok_res] in Ha.
    + exact Ha.
    + destruct Ha as (Hp' & Hpost' & Hincl & Hin).
      specialize (IH st' (eq_trans Hp' Hp) Hpost' (fun d H => Hlt d (or_intror H))).
      destruct (visit_deps vis t ds st') as [|st''|]; [exact IH | | exact I].
      destruct IH as (Hp'' & cs & Hc & Hpcs & Hi & Hall). split; [exact Hp'' |].
      exists cs. split; [exact Hc |]. split; [exact Hpcs |]. split.
      * eapply incl_tran; eassumption.
      * intros d [<- | Hd]; [apply Hi; exact Hin | apply Hall; exact Hd].
    + destruct (d || Nat.eqb t (last c 0)); exact I.
Qed.

Lemma visit_ok g : wf g -> forall fuel st t,
  NoDup (partial st) -> (forall x, In x (partial st) -> x < length g) -> post g (complete st) ->
  t < length g -> length g < fuel + length (partial st) ->
  ok_res g st t (visit fuel g st t).
Proof.
  intros Hwf. induction fuel as [|f IH]; intros st t Hnd Hlt Hpost Ht Hfuel.
  - pose proof (nodup_bound _ _ Hnd Hlt). cbn in Hfuel. lia.
  - cbn [visit]. destruct (mem t (complete st)) eqn:Ec.
    { cbn. split; [reflexivity |]. split; [exact Hpost |]. split; [apply incl_refl | apply mem_In; exact Ec]. }
    destruct (mem t (partial st)) eqn:Ep; [exact I |].
    apply mem_notIn in Ep.
    assert (Hvis : forall st' d, partial st' = t :: partial st -> post g (complete st') -> d < length g ->
                                 ok_res g st' d (visit f g st' d)).
    { intros st' d Hp' Hpost' Hd. apply IH; try assumption.
      - rewrite Hp'. constructor; assumption.
      - rewrite Hp'. intros x [<- | Hx]; [exact Ht | apply Hlt; exact Hx].
      - rewrite Hp'. cbn [length]. lia. }
    pose proof (visit_deps_ok g (visit f g) t (t :: partial st) Hvis (deps g t)
                  (St (t :: partial st) (complete st)) eq_refl Hpost (fun d Hd => Hwf t d Hd)) as H.
    destruct (visit_deps (visit f g) t (deps g t) (St (t :: partial st) (complete st))) as [|st'|];
      [exact H | | exact I].
    destruct H as (Hp' & cs & Hc & Hpcs & Hi & Hall). cbn [ok_res partial complete] in *.
    split; [rewrite Hp'; apply del_head; exact Ep |]. rewrite Hc.
    split; [split; [intros d Hd; apply Hall; exact Hd | exact Hpcs] |].
    split; [apply incl_tl; exact Hi | left; reflexivity].
Qed.

Lemma check_loop_ok g fuel : wf g -> length g < fuel -> forall order st,
  partial st = [] -> post g (complete st) -> (forall t, In t order -> t < length g) ->
  match check_loop fuel g order st with
  | Fuel => False
  | Clean => exists cs, post g cs /\ incl (complete st) cs /\ forall t, In t order -> In t cs
  | Found _ => True
  end.
Proof.
  intros Hwf Hfuel. induction order as [|t rest IH]; intros st Hp Hpost Hlt; cbn [check_loop].
  - exists (complete st). split; [exact Hpost |]. split; [apply incl_refl | intros t []].
  - destruct (mem t (complete st)) eqn:Ec.
    + specialize (IH st Hp Hpost (fun x H => Hlt x (or_intror H))).
      destruct (check_loop fuel g rest st); [exact IH | | exact I].
      destruct IH as (cs & Hpcs & Hi & Hall). exists cs. split; [exact Hpcs |]. split; [exact Hi |].
      intros x [<- | Hx]; [apply Hi; apply mem_In; exact Ec | apply Hall; exact Hx].
    + assert (Hv : ok_res g st t (visit fuel g st t)).
      { apply visit_ok; try assumption.
        - rewrite Hp. constructor.
        - rewrite Hp. intros x [].
        - apply Hlt. left. reflexivity.
        - rewrite Hp. cbn [length]. lia. }
      destruct (visit fuel g st t) as [|st'|]; cbn [ok_res] in Hv; [exact Hv | | exact I].
      destruct Hv as (Hp' & Hpost' & Hincl & Hin).
      specialize (IH st' (eq_trans Hp' Hp) Hpost' (fun x H => Hlt x (or_intror H))).
      destruct (check_loop fuel g rest st'); [exact IH | | exact I].
      destruct IH as (cs & Hpcs & Hi & Hall). exists cs. split; [exact Hpcs |].
      split; [eapply incl_tran; eassumption |].
      intros x [<- | Hx]; [apply Hi; exact Hin | apply Hall; exact Hx].
Qed.

Lemma order_lt g order : Permutation order (nodes g) -> forall t, In t order -> t < length g.
Proof.
  intros Hperm t Ht. eapply Permutation_in in Ht; [| exact Hperm]. apply in_seq in Ht. lia.
Qed.

(* what a nil result means: every listed target ended up in a post-ordered complete set *)
Lemma detect_outcome g order : wf g -> (forall t, In t order -> t < length g) ->
  match detect g order with
  | Fuel => False
  | Clean => exists cs, post g cs /\ forall t, In t order -> In t cs
  | Found c => is_cycle g c
  end.
Proof.
  intros Hwf Hlt.
  pose proof (check_loop_ok g (fuel_for g) Hwf (Nat.lt_succ_diag_r _) order (St [] []) eq_refl I Hlt) as H.
  pose proof (detect_sound g order) as Hs. unfold detect in *.
  destruct (check_loop (fuel_for g) g order (St [] [])) as [| |c]; [exact H | | apply Hs; reflexivity].
  destruct H as (cs & Hpcs & _ & Hall). exists cs. split; assumption.
Qed.

Theorem detect_fuel g order : wf g -> (forall t, In t order -> t < length g) -> detect g order <> Fuel.
Proof.
  intros Hwf Hlt E. pose proof (detect_outcome g order Hwf Hlt) as H. rewrite E in H. exact H.
Qed.

(* Clean => no cycle anywhere in the graph *)
Lemma clean_acyclic g order :
  wf g -> Permutation order (nodes g) -> detect g order = Clean -> ~ has_cycle g.
Proof.
  intros Hwf Hperm E [c Hc].
  pose proof (detect_outcome g order Hwf (order_lt g order Hperm)) as H. rewrite E in H.
  destruct H as (cs & Hpcs & Hall).
  pose proof (cycle_reach g c Hc) as Hr.
  assert (Hx : hd 0 c < length g).
  { assert (Hy : exists y, edge g (hd 0 c) y).
    { pose proof (clos_trans_t1n _ _ _ _ Hr) as Hr1.
      inversion Hr1 as [y H1 | y z H1 _]; eexists; exact H1. }
    destruct Hy as [y Hy]. exact (deps_lt g _ y Hy). }
  apply (post_acyclic g cs (hd 0 c) Hpcs); [| exact Hr].
  apply Hall. eapply Permutation_in; [apply Permutation_sym; exact Hperm |].
  apply in_seq. lia.
Qed.

Theorem detect_complete g order :
  wf g -> Permutation order (nodes g) -> has_cycle g -> exists c, detect g order = Found c.
Proof.
  intros Hwf Hperm Hcyc. destruct (detect g order) as [| |c] eqn:E.
  - exfalso. exact (detect_fuel g order Hwf (order_lt g order Hperm) E).
  - exfalso. exact (clean_acyclic g order Hwf Hperm E Hcyc).
  - exists c. reflexivity.
Qed.

Theorem detect_acyclic g order :
  wf g -> Permutation order (nodes g) -> ~ has_cycle g -> detect g order = Clean.
Proof.
  intros Hwf Hperm Hac. destruct (detect g order) as [| |c] eqn:E.
  - exfalso. exact (detect_fuel g order Hwf (order_lt g order Hperm) E).
  - reflexivity.
  - exfalso. apply Hac. exists c. exact (detect_sound g order c E).
Qed.

(* The statement of Props/C06.v, assembled. *)
Theorem detect_correct :
  (forall g order c, detect g order = Found c -> is_cycle g c)
  /\ (forall g order, wf g -> Permutation order (nodes g) ->
        detect g order <> Fuel
        /\ (has_cycle g -> exists c, detect g order = Found c /\ is_cycle g c)
        /\ (~ has_cycle g -> detect g order = Clean)).
Proof.
  split; [exact detect_sound |]. intros g order Hwf Hperm. split; [| split].
  - exact (detect_fuel g order Hwf (order_lt g order Hperm)).
  - intros Hc. destruct (detect_complete g order Hwf Hperm Hc) as [c E].
    exists c. split; [exact E | exact (detect_sound g order c E)].
  - exact (detect_acyclic g order Hwf Hperm).
Qed.
