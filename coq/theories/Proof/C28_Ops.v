(* C28 - the builder state after a list of insertions (dirBuilder.dir with hasChild, then the append)
   characterised independently of the insertion order. *)
From PlzV Require Import Base.Harness Base.StrFacts Model.C28 Proof.C28.
From Coq Require Import Lia Permutation.

(* ================================================================================================ *)
(* paths                                                                                             *)

Lemma path_eqb_spec a b : reflect (a = b) (path_eqb a b).
Proof. apply list_eqb_spec. apply str_eqb_spec. Qed.

Lemma path_eqb_refl a : path_eqb a a = true.
Proof. destruct (path_eqb_spec a a); congruence. Qed.

Lemma path_eqb_neq a b : a <> b -> path_eqb a b = false.
Proof. destruct (path_eqb_spec a b); congruence. Qed.

Definition prefix (q p : path) : Prop := exists r, p = q ++ r.

Lemma prefix_refl p : prefix p p.
Proof. exists []. rewrite app_nil_r. reflexivity. Qed.

Lemma prefix_nil p : prefix [] p.
Proof. exists p. reflexivity. Qed.

Lemma prefix_len q p : prefix q p -> (length q <= length p)%nat.
Proof. intros (r & ->). rewrite app_length. lia. Qed.

Lemma prefix_nil_r q : prefix q [] -> q = [].
Proof. intros (r & E). symmetry in E. apply app_eq_nil in E. tauto. Qed.

Lemma prefix_snoc q l b : prefix q (l ++ [b]) <-> q = l ++ [b] \/ prefix q l.
Proof.
  split.
  - intros (r & E). induction r as [|c r' _] using rev_ind.
    + left. rewrite app_nil_r in E. congruence.
    + right. rewrite app_assoc in E. apply app_inj_tail in E. destruct E as [E _]. exists r'. exact E.
  - intros [->|(r & ->)]; [apply prefix_refl|]. exists (r ++ [b]). rewrite app_assoc. reflexivity.
Qed.

Lemma prefix_drop q x p : prefix (q ++ [x]) p -> prefix q p.
Proof. intros (r & ->). exists ([x] ++ r). rewrite app_assoc. reflexivity. Qed.

Lemma prefix_longer l (b : str) : ~ prefix (l ++ [b]) l.
Proof. intros Hp. apply prefix_len in Hp. rewrite app_length in Hp. cbn in Hp. lia. Qed.

Lemma prefix_longer2 l (b x : str) : ~ prefix ((l ++ [b]) ++ [x]) (l ++ [b]).
Proof. apply prefix_longer. Qed.

Lemma snoc_not_nil (q : path) x : q ++ [x] <> [].
Proof. destruct q; discriminate. Qed.

Lemma prefix_in q x p : prefix (q ++ [x]) p -> In x p.
Proof. intros (r & ->). rewrite !in_app_iff. left. right. left. reflexivity. Qed.

(* ================================================================================================ *)
(* dir(): an equation that recurses on the ORIGINAL map                                              *)

Definition link_opt (c : option str) (d : dirmsg) : dirmsg :=
  match c with Some c => link c d | None => d end.

Lemma add_child_eq k c st q :
  add_child k c st q = if path_eqb q k then option_map (link_opt c) (st q) else st q.
Proof.
  destruct c; cbn [add_child link_opt]; unfold upd; [reflexivity|].
  destruct (path_eqb q k); [destruct (st q); reflexivity|reflexivity].
Qed.

Lemma add_child_frame k c st st2 key v :
  k <> key -> (forall q, st2 q = if path_eqb q key then Some v else st q) ->
  forall q, add_child k c st2 q = if path_eqb q key then Some v else add_child k c st q.
Proof.
  intros Hk Hst q. rewrite !add_child_eq. destruct (path_eqb_spec q k) as [->|Hq].
  - rewrite Hst, (path_eqb_neq _ _ Hk). reflexivity.
  - apply Hst.
Qed.

Lemma dir_rev_frame rp : forall c st st2 key v,
  ~ prefix key (rev rp) ->
  (forall q, st2 q = if path_eqb q key then Some v else st q) ->
  forall q, dir_rev rp c st2 q = if path_eqb q key then Some v else dir_rev rp c st q.
Proof.
  induction rp as [|b par IH]; intros c st st2 key v Hnp Hst.
  - cbn [dir_rev]. apply add_child_frame; [|exact Hst]. intros <-. apply Hnp. apply prefix_nil.
  - cbn [dir_rev]. cbn [rev] in *. set (k := rev par ++ [b]) in *.
    assert (Hk : k <> key) by (intros <-; apply Hnp; apply prefix_refl).
    rewrite (Hst k), (path_eqb_neq _ _ Hk).
    destruct (st k) as [dk|] eqn:Ek.
    + apply add_child_frame; assumption.
    + apply add_child_frame; [exact Hk|].
      apply IH.
      * intros Hp. apply Hnp. apply prefix_snoc. right. exact Hp.
      * intros q. unfold set. destruct (path_eqb_spec q k) as [->|Hq].
        -- rewrite (path_eqb_neq _ _ Hk). reflexivity.
        -- apply Hst.
Qed.

Lemma dir_rev_step b par c st q :
  dir_rev (b :: par) c st q =
    match st (rev par ++ [b]) with
    | Some _ => if path_eqb q (rev par ++ [b]) then option_map (link_opt c) (st q) else st q
    | None => if path_eqb q (rev par ++ [b]) then Some (link_opt c empty_dir) else dir_rev par (Some b) st q
    end.
Proof.
  cbn [dir_rev rev]. set (k := rev par ++ [b]).
  destruct (st k) as [dk|] eqn:Ek; rewrite add_child_eq; [reflexivity|].
  rewrite (dir_rev_frame par (Some b) st (set k empty_dir st) k empty_dir).
  - destruct (path_eqb q k); reflexivity.
  - apply prefix_longer.
  - intros q'. reflexivity.
Qed.

(* ================================================================================================ *)
(* effect of dir() on a map that is closed under parents                                             *)

Definition oget (st : state) (q : path) : dirmsg :=
  match st q with Some d => d | None => empty_dir end.

Record closed (st : state) : Prop := {
  c_root : st [] <> None;
  c_parent : forall q x, st (q ++ [x]) <> None -> st q <> None }.

Lemma closed_prefix st : closed st -> forall p q, st p <> None -> prefix q p -> st q <> None.
Proof.
  intros C p q Hp (r & ->). induction r as [|x r IH] using rev_ind.
  - rewrite app_nil_r in Hp. exact Hp.
  - apply IH. apply (c_parent _ C _ x). rewrite <- app_assoc. exact Hp.
Qed.

Lemma dir_rev_present rp : forall c st, closed st ->
  forall q, dir_rev rp c st q <> None <-> (st q <> None \/ prefix q (rev rp)).
Proof.
  induction rp as [|b par IH]; intros c st C q.
  - cbn [dir_rev rev]. rewrite add_child_eq. destruct (path_eqb_spec q []) as [->|Hq].
    + pose proof (c_root _ C) as Hr. destruct (st []); cbn; [|contradiction].
      split; [intros _; left; discriminate|intros _; discriminate].
    + split; [tauto|]. intros [Hs|Hp]; [exact Hs|]. apply prefix_nil_r in Hp. contradiction.
  - rewrite dir_rev_step. cbn [rev]. set (k := rev par ++ [b]).
    destruct (st k) as [dk|] eqn:Ek.
    + destruct (path_eqb_spec q k) as [->|Hq].
      * rewrite Ek. cbn. split; [intros _; left; discriminate|intros _; discriminate].
      * split; [tauto|]. intros [Hs|Hp]; [exact Hs|].
        apply (closed_prefix _ C k q); [rewrite Ek; discriminate|exact Hp].
    + destruct (path_eqb_spec q k) as [->|Hq].
      * split; [intros _; right; apply prefix_refl|intros _; discriminate].
      * rewrite (IH (Some b) st C q). unfold k. rewrite prefix_snoc. tauto.
Qed.

Lemma link_opt_files c d : files (link_opt c d) = files d /\ syms (link_opt c d) = syms d.
Proof. destruct c; cbn [link_opt]; [unfold link; destruct (has_child d s)|]; split; reflexivity. Qed.

Lemma dir_rev_files rp : forall c st q,
  files (oget (dir_rev rp c st) q) = files (oget st q) /\ syms (oget (dir_rev rp c st) q) = syms (oget st q).
Proof.
  induction rp as [|b par IH]; intros c st q; unfold oget.
  - cbn [dir_rev]. rewrite add_child_eq. destruct (path_eqb q []); [|split; reflexivity].
    destruct (st q); cbn [option_map]; [apply link_opt_files|split; reflexivity].
  - rewrite dir_rev_step. set (k := rev par ++ [b]).
    destruct (st k) as [dk|] eqn:Ek.
    + destruct (path_eqb q k); [|split; reflexivity].
      destruct (st q); cbn [option_map]; [apply link_opt_files|split; reflexivity].
    + destruct (path_eqb_spec q k) as [->|Hq].
      * rewrite Ek. destruct (link_opt_files c empty_dir) as [-> ->]. split; reflexivity.
      * apply IH.
Qed.

Lemma link_opt_dirs c d n :
  In n (dirs (link_opt c d)) <-> In n (dirs d) \/ exists x, n = DN x None /\ has_child d x = false /\ c = Some x.
Proof.
  destruct c as [c|]; cbn [link_opt].
  - unfold link. destruct (has_child d c) eqn:Hc; cbn [dirs].
    + split; [tauto|]. intros [Hin|(x & _ & Hx & E)]; [exact Hin|]. inversion E; subst. congruence.
    + rewrite in_app_iff. cbn [In]. split.
      * intros [Hin|[<-|[]]]; [left; exact Hin|]. right. exists c. auto.
      * intros [Hin|(x & -> & _ & E)]; [left; exact Hin|]. inversion E; subst. right. left. reflexivity.
  - split; [tauto|]. intros [Hin|(x & _ & _ & E)]; [exact Hin|discriminate].
Qed.

(* the DirectoryNodes dir() appends: one per directory it creates, unless hasChild says no *)
Definition NEW (st : state) (rp : list str) (c : option str) (q : path) (x : str) : Prop :=
  (st (q ++ [x]) = None /\ prefix (q ++ [x]) (rev rp)) \/ (q = rev rp /\ c = Some x).

Lemma dir_rev_dirs rp : forall c st, closed st -> forall q n,
  In n (dirs (oget (dir_rev rp c st) q)) <->
  In n (dirs (oget st q)) \/ exists x, n = DN x None /\ has_child (oget st q) x = false /\ NEW st rp c q x.
Proof.
  induction rp as [|b par IH]; intros c st C q n.
  - unfold oget at 1. cbn [dir_rev rev]. rewrite add_child_eq. destruct (path_eqb_spec q []) as [->|Hq].
    + unfold oget. pose proof (c_root _ C) as Hr. destruct (st []) as [d|]; [|contradiction]. cbn [option_map].
      rewrite link_opt_dirs. unfold NEW. cbn [rev]. split; (intros [Hin|(x & E1 & E2 & E3)]; [left; exact Hin|right; exists x]).
      * auto.
      * destruct E3 as [[_ Hp]|[_ E3]]; [|auto]. apply prefix_nil_r in Hp. destruct (snoc_not_nil _ _ Hp).
    + fold (oget st q). split; [tauto|]. intros [Hin|(x & _ & _ & [[_ Hp]|[E _]])]; [exact Hin| |contradiction].
      apply prefix_nil_r in Hp. destruct (snoc_not_nil _ _ Hp).
  - unfold oget at 1. rewrite dir_rev_step. unfold NEW. cbn [rev]. set (k := rev par ++ [b]).
    destruct (st k) as [dk|] eqn:Ek.
    + destruct (path_eqb_spec q k) as [->|Hq].
      * unfold oget. rewrite Ek. cbn [option_map]. rewrite link_opt_dirs.
        split; (intros [Hin|(x & E1 & E2 & E3)]; [left; exact Hin|right; exists x]).
        -- auto.
        -- destruct E3 as [[_ Hp]|[_ E3]]; [|auto]. destruct (prefix_longer _ _ Hp).
      * fold (oget st q). split; [tauto|]. intros [Hin|(x & _ & _ & [[Hn Hp]|[E _]])]; [exact Hin| |contradiction].
        exfalso. apply (closed_prefix _ C k (q ++ [x])); [rewrite Ek; discriminate|exact Hp|exact Hn].
    + destruct (path_eqb_spec q k) as [->|Hq].
      * unfold oget. rewrite Ek. rewrite link_opt_dirs.
        split; (intros [Hin|(x & E1 & E2 & E3)]; [left; exact Hin|right; exists x]).
        -- auto.
        -- destruct E3 as [[_ Hp]|[_ E3]]; [|auto]. destruct (prefix_longer _ _ Hp).
      * fold (oget (dir_rev par (Some b) st) q). rewrite (IH (Some b) st C q n). unfold NEW.
        split; (intros [Hin|(x & E1 & E2 & E3)]; [left; exact Hin|right; exists x; split; [exact E1|split; [exact E2|]]]).
        -- destruct E3 as [[Hn Hp]|[E3 E4]].
           ++ left. split; [exact Hn|]. unfold k. apply prefix_snoc. right. exact Hp.
           ++ inversion E4; subst. left. split; [exact Ek|apply prefix_refl].
        -- destruct E3 as [[Hn Hp]|[E3 _]]; [|contradiction].
           unfold k in Hp. apply prefix_snoc in Hp. destruct Hp as [E|Hp].
           ++ apply app_inj_tail in E. destruct E as [-> ->]. right. auto.
           ++ left. auto.
Qed.

(* ================================================================================================ *)
(* the builder state after a list of insertions                                                      *)

Definition op_name (o : op) : str :=
  match o with AddFile _ n => fname n | AddDir _ x _ => x | AddSym _ n => sname n end.
Definition is_opaque (o : op) : bool := match o with AddDir _ _ _ => true | _ => false end.

(* the hypothesis of the theorem, on the declarations *)
Definition clean_names (ops : list op) : Prop :=
  forall o, In o ops -> op_name o <> [] /\ forall sg, In sg (op_path o) -> sg <> [].
(* one (directory, name) = one declaration: one kind, one payload; it may be repeated verbatim *)
Definition one_entry (ops : list op) : Prop :=
  forall o1 o2, In o1 ops -> In o2 ops -> op_path o1 = op_path o2 -> op_name o1 = op_name o2 -> o1 = o2.
(* a file or symlink is not also a directory that holds other inputs *)
Definition leaf_not_dir (ops : list op) : Prop :=
  forall o1 o2, In o1 ops -> In o2 ops -> is_opaque o1 = false -> ~ prefix (op_path o1 ++ [op_name o1]) (op_path o2).
Definition realizable (ops : list op) : Prop := clean_names ops /\ one_entry ops /\ leaf_not_dir ops.
(* defect class: an output directory p/x with a known digest AND another input below p/x *)
Definition no_overlap (ops : list op) : Prop :=
  forall o1 o2, In o1 ops -> In o2 ops -> is_opaque o1 = true -> ~ prefix (op_path o1 ++ [op_name o1]) (op_path o2).

Definition is_key (done : list op) (q : path) : Prop :=
  q = [] \/ exists o, In o done /\ prefix q (op_path o).

Lemma is_key_cons o done q : is_key (o :: done) q <-> is_key done q \/ prefix q (op_path o).
Proof.
  unfold is_key. cbn [In]. split.
  - intros [E|(o' & [<-|Hin] & Hp)]; [left; left; exact E|right; exact Hp|left; right; exists o'; auto].
  - intros [[E|(o' & Hin & Hp)]|Hp]; [left; exact E|right; exists o'; auto|right; exists o; auto].
Qed.

Lemma is_key_parent done q x : is_key done (q ++ [x]) -> is_key done q.
Proof.
  intros [E|(o & Hin & Hp)]; [destruct (snoc_not_nil _ _ E)|].
  right. exists o. split; [exact Hin|]. exact (prefix_drop _ _ _ Hp).
Qed.

(* the state, described by the SET of declarations made so far *)
Record J (st : state) (done : list op) : Prop := {
  j_key : forall q, st q <> None <-> is_key done q;
  j_files : forall q n, In n (files (oget st q)) <-> In (AddFile q n) done;
  j_syms : forall q n, In n (syms (oget st q)) <-> In (AddSym q n) done;
  j_opq : forall q x dg, In (DN x (Some dg)) (dirs (oget st q)) <-> In (AddDir q x dg) done;
  j_nil : forall q x, In (DN x None) (dirs (oget st q)) <-> is_key done (q ++ [x]) }.

Lemma J_init : J init [].
Proof.
  constructor.
  - intros q. unfold is_key, init. destruct q; split.
    + intros _. left. reflexivity.
    + intros _. discriminate.
    + intros Hn. contradiction.
    + intros [E|(o & [] & _)]. discriminate.
  - intros q n. unfold oget, init. destruct q; cbn; tauto.
  - intros q n. unfold oget, init. destruct q; cbn; tauto.
  - intros q x dg. unfold oget, init. destruct q; cbn; tauto.
  - intros q x. unfold oget, init. split.
    + destruct q; cbn; tauto.
    + intros [E|(o & [] & _)]. destruct (snoc_not_nil _ _ E).
Qed.

Lemma J_closed st done : J st done -> closed st.
Proof.
  intros HJ. constructor.
  - apply (j_key _ _ HJ). left. reflexivity.
  - intros q x Hp. apply (j_key _ _ HJ). apply (is_key_parent _ _ x). apply (j_key _ _ HJ). exact Hp.
Qed.

(* the nodes one declaration appends *)
Definition gen (o : op) (d : dirmsg) : dirmsg :=
  match o with
  | AddFile _ n => DM (files d ++ [n]) (dirs d) (syms d)
  | AddDir _ x dg => DM (files d) (dirs d ++ [DN x (Some dg)]) (syms d)
  | AddSym _ n => DM (files d) (dirs d) (syms d ++ [n])
  end.

Lemma apply_eq st o q :
  apply st o q = if path_eqb q (op_path o) then option_map (gen o) (ensure (op_path o) st q) else ensure (op_path o) st q.
Proof. destruct o; reflexivity. Qed.

Lemma ensure_present st done p : J st done -> forall q, ensure p st q <> None <-> (is_key done q \/ prefix q p).
Proof.
  intros HJ q. unfold ensure. rewrite (dir_rev_present _ _ _ (J_closed _ _ HJ)), rev_involutive.
  rewrite (j_key _ _ HJ). tauto.
Qed.

Lemma oget_apply st done o q : J st done ->
  oget (apply st o) q = if path_eqb q (op_path o) then gen o (oget (ensure (op_path o) st) q) else oget (ensure (op_path o) st) q.
Proof.
  intros HJ. unfold oget at 1. rewrite apply_eq. destruct (path_eqb_spec q (op_path o)) as [->|Hq]; [|reflexivity].
  unfold oget. assert (Hp : ensure (op_path o) st (op_path o) <> None).
  { apply (ensure_present _ _ _ HJ). right. apply prefix_refl. }
  destruct (ensure (op_path o) st (op_path o)); [reflexivity|contradiction].
Qed.

Lemma ensure_dirs st done p q n : J st done ->
  In n (dirs (oget (ensure p st) q)) <->
  In n (dirs (oget st q)) \/ exists x, n = DN x None /\ has_child (oget st q) x = false /\ st (q ++ [x]) = None /\ prefix (q ++ [x]) p.
Proof.
  intros HJ. unfold ensure. rewrite (dir_rev_dirs _ _ _ (J_closed _ _ HJ)). unfold NEW. rewrite rev_involutive.
  split; (intros [Hin|(x & E1 & E2 & E3)]; [left; exact Hin|right; exists x; split; [exact E1|split; [exact E2|]]]).
  - destruct E3 as [E3|[_ E3]]; [exact E3|discriminate].
  - left. exact E3.
Qed.

Lemma has_child_false d x : has_child d x = false -> forall n, In n (dirs d) -> dname n <> x.
Proof.
  unfold has_child. intros Hc n Hin E.
  assert (X : existsb (fun n0 => str_eqb (dname n0) x) (dirs d) = true).
  { apply existsb_exists. exists n. split; [exact Hin|]. apply str_eqb_eq. exact E. }
  congruence.
Qed.

Lemma has_child_true d x : has_child d x = true -> exists n, In n (dirs d) /\ dname n = x.
Proof.
  unfold has_child. intros Hc. apply existsb_exists in Hc. destruct Hc as (n & Hin & E).
  exists n. split; [exact Hin|]. apply str_eqb_eq. exact E.
Qed.

(* One more declaration. The only thing that can go wrong is hasChild finding an output
   directory of the same name where dir() wants to link the directory it just created. *)
Lemma J_apply st done o : J st done -> no_overlap (o :: done) -> J (apply st o) (o :: done).
Proof.
  intros HJ Hno. set (p := op_path o).
  assert (Hf : forall q, files (oget (ensure p st) q) = files (oget st q)) by (intros q; apply dir_rev_files).
  assert (Hs : forall q, syms (oget (ensure p st) q) = syms (oget st q)) by (intros q; apply dir_rev_files).
  constructor.
  - intros q. rewrite is_key_cons. fold p. rewrite <- (ensure_present _ _ p HJ). rewrite apply_eq. fold p.
    destruct (path_eqb q p); [|tauto]. destruct (ensure p st q); cbn; split; congruence.
  - intros q n. rewrite (oget_apply _ _ _ _ HJ). fold p. cbn [In].
    destruct (path_eqb_spec q p) as [->|Hq].
    + destruct o as [p0 n0|p0 x0 dg0|p0 n0]; cbn [gen files]; rewrite ?in_app_iff, Hf, (j_files _ _ HJ); cbn [In op_path] in *.
      * subst p. split; [intros [Hin|[<-|[]]]; auto|intros [E|Hin]; [inversion E; auto|auto]].
      * split; [auto|intros [E|Hin]; [discriminate|auto]].
      * split; [auto|intros [E|Hin]; [discriminate|auto]].
    + rewrite Hf, (j_files _ _ HJ). split; [auto|]. intros [E|Hin]; [|exact Hin].
      subst o. cbn in p. subst p. contradiction.
  - intros q n. rewrite (oget_apply _ _ _ _ HJ). fold p. cbn [In].
    destruct (path_eqb_spec q p) as [->|Hq].
    + destruct o as [p0 n0|p0 x0 dg0|p0 n0]; cbn [gen syms]; rewrite ?in_app_iff, Hs, (j_syms _ _ HJ); cbn [In op_path] in *.
      * split; [auto|intros [E|Hin]; [discriminate|auto]].
      * split; [auto|intros [E|Hin]; [discriminate|auto]].
      * subst p. split; [intros [Hin|[<-|[]]]; auto|intros [E|Hin]; [inversion E; auto|auto]].
    + rewrite Hs, (j_syms _ _ HJ). split; [auto|]. intros [E|Hin]; [|exact Hin].
      subst o. cbn in p. subst p. contradiction.
  - intros q x dg. rewrite (oget_apply _ _ _ _ HJ). fold p. cbn [In].
    assert (He : In (DN x (Some dg)) (dirs (oget (ensure p st) q)) <-> In (AddDir q x dg) done).
    { rewrite (ensure_dirs _ _ _ _ _ HJ), (j_opq _ _ HJ). split; [|auto].
      intros [Hin|(y & E & _)]; [exact Hin|discriminate]. }
    destruct (path_eqb_spec q p) as [->|Hq].
    + destruct o as [p0 n0|p0 x0 dg0|p0 n0]; cbn [gen dirs]; rewrite ?in_app_iff, He; cbn [In op_path] in *.
      * split; [auto|intros [E|Hin]; [discriminate|auto]].
      * subst p. split; [intros [Hin|[E|[]]]; [auto|inversion E; auto]|intros [E|Hin]; [inversion E; auto|auto]].
      * split; [auto|intros [E|Hin]; [discriminate|auto]].
    + rewrite He. split; [auto|]. intros [E|Hin]; [|exact Hin].
      subst o. cbn in p. subst p. contradiction.
  - intros q x. rewrite is_key_cons. fold p.
    assert (He : In (DN x None) (dirs (oget (apply st o) q)) <-> In (DN x None) (dirs (oget (ensure p st) q))).
    { rewrite (oget_apply _ _ _ _ HJ). fold p. destruct (path_eqb q p); [|tauto].
      destruct o as [p0 n0|p0 x0 dg0|p0 n0]; cbn [gen dirs]; rewrite ?in_app_iff; cbn [In]; [tauto| |tauto].
      split; [intros [Hin|[E|[]]]; [exact Hin|discriminate]|auto]. }
    rewrite He, (ensure_dirs _ _ _ _ _ HJ), (j_nil _ _ HJ). split.
    + intros [Hk|(y & E & _ & _ & Hp)]; [left; exact Hk|]. inversion E; subst. right. exact Hp.
    + intros [Hk|Hp]; [left; exact Hk|].
      destruct (st (q ++ [x])) as [dq|] eqn:Eq.
      { left. apply (j_key _ _ HJ). rewrite Eq. discriminate. }
      right. exists x. split; [reflexivity|]. split; [|split; [exact Eq|exact Hp]].
      destruct (has_child (oget st q) x) eqn:Hc; [exfalso|reflexivity].
      apply has_child_true in Hc. destruct Hc as ([y [dg|]] & Hin & Ey); cbn in Ey; subst y.
      * apply (j_opq _ _ HJ) in Hin.
        apply (Hno (AddDir q x dg) o); [right; exact Hin|left; reflexivity|reflexivity|exact Hp].
      * apply (j_nil _ _ HJ) in Hin. apply (j_key _ _ HJ) in Hin. congruence.
Qed.

Lemma no_overlap_incl ops ops' : (forall o, In o ops' -> In o ops) -> no_overlap ops -> no_overlap ops'.
Proof. intros Hi Hno o1 o2 H1 H2. apply Hno; apply Hi; assumption. Qed.

Lemma J_run_gen ops : forall st done, J st done -> no_overlap (rev ops ++ done) ->
  J (fold_left apply ops st) (rev ops ++ done).
Proof.
  induction ops as [|o ops IH]; intros st done HJ Hno; cbn [fold_left rev] in *; [exact HJ|].
  rewrite <- app_assoc in *. cbn [app] in *. apply IH.
  - apply J_apply; [exact HJ|]. eapply no_overlap_incl; [|exact Hno].
    intros o' Hin. apply in_or_app. right. exact Hin.
  - exact Hno.
Qed.

Theorem J_run ops : no_overlap ops -> J (run ops) (rev ops).
Proof.
  intros Hno. unfold run. rewrite <- (app_nil_r (rev ops)). apply J_run_gen; [exact J_init|].
  rewrite app_nil_r. eapply no_overlap_incl; [|exact Hno]. intros o Hin. apply in_rev. exact Hin.
Qed.

(* ================================================================================================ *)
(* consequences                                                                                      *)

Lemma is_key_same a b q : (forall o, In o a <-> In o b) -> is_key a q <-> is_key b q.
Proof.
  intros Hs. unfold is_key. split; (intros [E|(o & Hin & Hp)]; [left; exact E|right; exists o; split; [apply Hs; exact Hin|exact Hp]]).
Qed.

Lemma J_oget st q d : st q = Some d -> oget st q = d.
Proof. unfold oget. intros ->. reflexivity. Qed.

(* two states described by the same set of declarations hold the same entries *)
Lemma J_equiv st1 st2 a b : J st1 a -> J st2 b -> (forall o, In o a <-> In o b) -> st_equiv st1 st2.
Proof.
  intros J1 J2 Hs q.
  pose proof (j_key _ _ J1 q) as K1. pose proof (j_key _ _ J2 q) as K2. rewrite (is_key_same a b q Hs) in K1.
  destruct (st1 q) as [d1|] eqn:E1, (st2 q) as [d2|] eqn:E2.
  - pose proof (J_oget _ _ _ E1) as O1. pose proof (J_oget _ _ _ E2) as O2.
    split; [|split]; intros n.
    + rewrite <- O1, <- O2, (j_files _ _ J1), (j_files _ _ J2). apply Hs.
    + rewrite <- O1, <- O2. destruct n as [x [dg|]].
      * rewrite (j_opq _ _ J1), (j_opq _ _ J2). apply Hs.
      * rewrite (j_nil _ _ J1), (j_nil _ _ J2). apply is_key_same. exact Hs.
    + rewrite <- O1, <- O2, (j_syms _ _ J1), (j_syms _ _ J2). apply Hs.
  - exfalso. assert (X : Some d1 <> None) by discriminate. apply K1 in X. apply K2 in X. congruence.
  - exfalso. assert (X : Some d2 <> None) by discriminate. apply K2 in X. apply K1 in X. congruence.
  - exact I.
Qed.

Lemma perm_rev_mem (ops ops' : list op) : Permutation ops ops' -> forall o, In o (rev ops) <-> In o (rev ops').
Proof.
  intros Hp o. rewrite <- !in_rev. split; apply Permutation_in; [exact Hp|apply Permutation_sym; exact Hp].
Qed.

Theorem run_equiv ops ops' : Permutation ops ops' -> no_overlap ops -> st_equiv (run ops) (run ops').
Proof.
  intros Hp Hno. apply (J_equiv _ _ (rev ops) (rev ops')); [apply J_run; exact Hno| |apply perm_rev_mem; exact Hp].
  apply J_run. eapply no_overlap_incl; [|exact Hno]. intros o. apply Permutation_in. apply Permutation_sym. exact Hp.
Qed.

(* every directory of the state is one a file system could hold *)
Theorem run_good ops : realizable ops -> no_overlap ops -> st_good (run ops).
Proof.
  intros (Hcl & Hone & Hleaf) Hno q d Eq.
  pose proof (J_run ops Hno) as HJ. pose proof (J_oget _ _ _ Eq) as O. rewrite <- O.
  assert (inops : forall o, In o (rev ops) -> In o ops) by (intros o; apply in_rev).
  assert (nilkey : forall x, In (DN x None) (dirs (oget (run ops) q)) -> exists o, In o ops /\ prefix (q ++ [x]) (op_path o)).
  { intros x Hin. apply (j_nil _ _ HJ) in Hin. destruct Hin as [E|(o & Hin & Hp)]; [destruct (snoc_not_nil _ _ E)|].
    exists o. auto. }
  constructor.
  - intros a b Ha Hb E. apply (j_files _ _ HJ) in Ha, Hb.
    assert (X := Hone _ _ (inops _ Ha) (inops _ Hb) eq_refl E). inversion X; reflexivity.
  - intros [xa [da|]] [xb [db|]] Ha Hb E; cbn in E; subst xb.
    + apply (j_opq _ _ HJ) in Ha, Hb. assert (X := Hone _ _ (inops _ Ha) (inops _ Hb) eq_refl eq_refl). inversion X; reflexivity.
    + exfalso. apply (j_opq _ _ HJ) in Ha. destruct (nilkey _ Hb) as (o & Ho & Hp).
      exact (Hno _ _ (inops _ Ha) Ho eq_refl Hp).
    + exfalso. apply (j_opq _ _ HJ) in Hb. destruct (nilkey _ Ha) as (o & Ho & Hp).
      exact (Hno _ _ (inops _ Hb) Ho eq_refl Hp).
    + reflexivity.
  - intros a b Ha Hb E. apply (j_syms _ _ HJ) in Ha, Hb.
    assert (X := Hone _ _ (inops _ Ha) (inops _ Hb) eq_refl E). inversion X; reflexivity.
  - intros x Hx. apply (j_files _ _ HJ) in Hx. exact (proj1 (Hcl _ (inops _ Hx))).
  - intros [x [dg|]] Hx; cbn.
    + apply (j_opq _ _ HJ) in Hx. exact (proj1 (Hcl _ (inops _ Hx))).
    + destruct (nilkey _ Hx) as (o & Ho & Hp). apply (proj2 (Hcl _ Ho)). exact (prefix_in _ _ _ Hp).
  - intros x Hx. apply (j_syms _ _ HJ) in Hx. exact (proj1 (Hcl _ (inops _ Hx))).
  - intros x [y [dg|]] Hx Hy E; cbn in E; apply (j_files _ _ HJ) in Hx.
    + apply (j_opq _ _ HJ) in Hy. assert (X := Hone _ _ (inops _ Hx) (inops _ Hy) eq_refl E). discriminate.
    + destruct (nilkey _ Hy) as (o & Ho & Hp). apply (Hleaf _ _ (inops _ Hx) Ho eq_refl). cbn. rewrite E. exact Hp.
  - intros x y Hx Hy E. apply (j_files _ _ HJ) in Hx. apply (j_syms _ _ HJ) in Hy.
    assert (X := Hone _ _ (inops _ Hx) (inops _ Hy) eq_refl E). discriminate.
  - intros [x [dg|]] y Hx Hy E; cbn in E; apply (j_syms _ _ HJ) in Hy.
    + apply (j_opq _ _ HJ) in Hx. assert (X := Hone _ _ (inops _ Hx) (inops _ Hy) eq_refl E). discriminate.
    + destruct (nilkey _ Hx) as (o & Ho & Hp). apply (Hleaf _ _ (inops _ Hy) Ho eq_refl). cbn. rewrite <- E. exact Hp.
Qed.

Lemma fuel_perm ops ops' : Permutation ops ops' -> fuel_of ops = fuel_of ops'.
Proof.
  intros Hp. unfold fuel_of. f_equal.
  induction Hp as [|x l l' _ IH|x y l|l l' l'' _ IH1 _ IH2]; cbn [fold_right]; lia.
Qed.

Lemma fuel_bound ops o : In o ops -> (length (op_path o) <= fold_right (fun o m => Nat.max (length (op_path o)) m) 0%nat ops)%nat.
Proof. induction ops as [|x r IH]; cbn [In fold_right]; [tauto|]. intros [->|Hin]; [lia|]. specialize (IH Hin). lia. Qed.

Section Final.
  Variable H : dirmsg -> str.
  Variable srt : sorter.
  Hypothesis srt_ok : sorter_ok srt.

  Lemma walk_S f st p : walk H srt (S f) st p =
    match st p with
    | None => None
    | Some d => match fill H (walk H srt f st) p (dirs d) with
                | None => None
                | Some (em, ds) => let m := finish srt (DM (files d) ds (syms d)) in Some (em ++ [m], m)
                end
    end.
  Proof. reflexivity. Qed.

  (* walk terminates within the fuel, and never dereferences a missing directory *)
  Lemma walk_total st done : J st done -> forall f p, is_key done p ->
    (forall o, In o done -> (length (op_path o) <= f + length p)%nat) -> walk H srt (S f) st p <> None.
  Proof.
    intros HJ. induction f as [|f IH]; intros p Hk Hb; rewrite walk_S.
    - apply (j_key _ _ HJ) in Hk. destruct (st p) as [d|] eqn:Ep; [|contradiction].
      destruct (fill H (walk H srt 0 st) p (dirs d)) as [[em ds]|] eqn:F; [discriminate|].
      apply fill_none in F. destruct F as ([x [dg|]] & Hin & Hd & _); [discriminate|]. cbn in Hd.
      rewrite <- (J_oget _ _ _ Ep) in Hin. apply (j_nil _ _ HJ) in Hin.
      destruct Hin as [E|(o & Ho & Hp)]; [destruct (snoc_not_nil _ _ E)|].
      apply prefix_len in Hp. rewrite app_length in Hp. cbn in Hp. specialize (Hb o Ho). lia.
    - pose proof Hk as Hk'. apply (j_key _ _ HJ) in Hk. destruct (st p) as [d|] eqn:Ep; [|contradiction].
      destruct (fill H (walk H srt (S f) st) p (dirs d)) as [[em ds]|] eqn:F; [discriminate|].
      apply fill_none in F. destruct F as ([x [dg|]] & Hin & Hd & Hr); [discriminate|]. cbn in Hr.
      rewrite <- (J_oget _ _ _ Ep) in Hin. apply (j_nil _ _ HJ) in Hin.
      exfalso. apply (IH (p ++ [x]) Hin); [|exact Hr].
      intros o Ho. specialize (Hb o Ho). rewrite app_length. cbn. lia.
  Qed.

  Theorem build_total ops : no_overlap ops -> build H srt ops <> None.
  Proof.
    intros Hno. unfold build, fuel_of. apply (walk_total _ _ (J_run ops Hno)); [left; reflexivity|].
    intros o Ho. apply in_rev in Ho. cbn [length]. rewrite Nat.add_0_r. apply fuel_bound. exact Ho.
  Qed.

  (* THE ORDER THEOREM: the root message (hence the input-root digest) does not depend on the
     order of the insertions. *)
  Theorem build_perm ops ops' : Permutation ops ops' -> realizable ops -> no_overlap ops ->
    option_map snd (build H srt ops) = option_map snd (build H srt ops').
  Proof.
    intros Hp Hr Hno. unfold build. rewrite <- (fuel_perm _ _ Hp).
    apply (walk_equiv H srt srt_ok); [apply run_equiv; assumption|apply run_good; assumption].
  Qed.

  Theorem root_digest_perm ops ops' : Permutation ops ops' -> realizable ops -> no_overlap ops ->
    root_digest H srt ops = root_digest H srt ops' /\ root_digest H srt ops <> None.
  Proof.
    intros Hp Hr Hno. pose proof (build_perm _ _ Hp Hr Hno) as E. pose proof (build_total _ Hno) as T.
    unfold root_digest. destruct (build H srt ops) as [[em m]|], (build H srt ops') as [[em' m']|]; cbn in E; try discriminate; try contradiction.
    inversion E; subst. split; [reflexivity|discriminate].
  Qed.

  Theorem build_canonical ops em m : build H srt ops = Some (em, m) -> Forall canonical em /\ canonical m.
  Proof. apply (walk_canonical H srt srt_ok). Qed.

  (* buildEnv: the sorted list does not depend on the enumeration order of the map *)
  Lemma le_nodup_lt {A} (key : A -> str) l : le_sorted key l -> NoDup (map key l) -> lt_sorted key l.
  Proof.
    induction 1 as [|x r Hs IH Hx]; intros Hnd; [constructor|].
    cbn [map] in Hnd. inversion Hnd as [|? ? Hnotin Hnd']; subst.
    constructor; [apply IH; exact Hnd'|]. rewrite Forall_forall in *. intros y Hy.
    destruct (sle_slt_or_eq _ _ (Hx y Hy)) as [L|E]; [exact L|].
    exfalso. apply Hnotin. rewrite E. apply in_map. exact Hy.
  Qed.

  Theorem env_order_free loc home e e' : Permutation e e' -> NoDup (map fst e) ->
    env_vars srt loc home e = env_vars srt loc home e' /\ lt_sorted fst (env_vars srt loc home e).
  Proof.
    intros Hp Hnd. unfold env_vars.
    assert (Hk : forall l, map fst (map (env_entry loc home) l) = map fst l).
    { intros l. rewrite map_map. apply map_ext. intros kv. unfold env_entry. destruct (str_eqb (fst kv) (s "PATH")); reflexivity. }
    destruct (srt_ok _ fst (map (env_entry loc home) e)) as [P1 S1].
    destruct (srt_ok _ fst (map (env_entry loc home) e')) as [P2 S2].
    assert (Pm : Permutation (map (env_entry loc home) e) (map (env_entry loc home) e')) by (apply Permutation_map; exact Hp).
    assert (N1 : NoDup (map fst (srt _ fst (map (env_entry loc home) e)))).
    { eapply Permutation_NoDup; [apply Permutation_map; exact P1|]. rewrite Hk. exact Hnd. }
    assert (N2 : NoDup (map fst (srt _ fst (map (env_entry loc home) e')))).
    { eapply Permutation_NoDup; [apply Permutation_map; exact P2|]. rewrite Hk.
      eapply Permutation_NoDup; [apply Permutation_map; exact Hp|exact Hnd]. }
    split; [|apply le_nodup_lt; assumption].
    apply (lt_sorted_ext fst); try (apply le_nodup_lt; assumption).
    apply perm_same. rewrite <- P1, <- P2. exact Pm.
  Qed.
End Final.

(* ================================================================================================ *)
(* the executable classifier of the known defect class, and the refutation witness                  *)

Fixpoint prefixb (q p : path) : bool :=
  match q, p with
  | [], _ => true
  | a :: q', b :: p' => str_eqb a b && prefixb q' p'
  | _ :: _, [] => false
  end.

Lemma prefixb_true q p : prefix q p -> prefixb q p = true.
Proof. intros (r & ->). induction q as [|a q IH]; cbn; [reflexivity|]. rewrite str_eqb_refl. exact IH. Qed.

Definition overlapb (ops : list op) : bool :=
  existsb (fun o1 => is_opaque o1 && existsb (fun o2 => prefixb (op_path o1 ++ [op_name o1]) (op_path o2)) ops) ops.

(* None = outside every known defect class *)
Definition defect_class (ops : list op) : option str :=
  if overlapb ops then Some (s "output-dir-overlaps-interior-dir") else None.

Lemma defect_class_none ops : defect_class ops = None -> no_overlap ops.
Proof.
  unfold defect_class. destruct (overlapb ops) eqn:E; [discriminate|]. intros _ o1 o2 H1 H2 Ho Hp.
  assert (X : overlapb ops = true); [|congruence].
  unfold overlapb. apply existsb_exists. exists o1. split; [exact H1|]. rewrite Ho. cbn.
  apply existsb_exists. exists o2. split; [exact H2|]. apply prefixb_true. exact Hp.
Qed.

(* a hash that tells the two roots of the witness apart (any injective hash does) *)
Definition wit_H (m : dirmsg) : str :=
  flat_map (fun n => dname n ++ match ddig n with Some d => d | None => [] end) (dirs m) ++ flat_map fname (files m) ++ flat_map sname (syms m).

Definition wit_ops : list op := [AddDir [] (s "x") (s "D"); AddFile [s "x"] (FN (s "f") (s "d") false)].
Definition wit_ops' : list op := [AddFile [s "x"] (FN (s "f") (s "d") false); AddDir [] (s "x") (s "D")].

Ltac no_prefix := let r := fresh "r" in let E := fresh "E" in intros (r & E); vm_compute in E; congruence.

Lemma wit_realizable : realizable wit_ops.
Proof.
  split; [|split].
  - intros o [<-|[<-|[]]]; cbn; (split; [discriminate|]); intros sg; cbn; intuition (subst; discriminate).
  - intros o1 o2 [<-|[<-|[]]] [<-|[<-|[]]]; cbn; intros; try reflexivity; discriminate.
  - intros o1 o2 [<-|[<-|[]]] [<-|[<-|[]]]; cbn; intros; try discriminate; no_prefix.
Qed.

Lemma wit_differs : root_digest wit_H isort wit_ops <> root_digest wit_H isort wit_ops'.
Proof. vm_compute. congruence. Qed.

Lemma wit_class : defect_class wit_ops = Some (s "output-dir-overlaps-interior-dir").
Proof. reflexivity. Qed.
