(* Engine_Gen - ties the engine model (Model/Engine.v) to facts regenerated from the source by gotrans
   (Gen/EngineRecord.v): the record written by writeRuleHash, the slots readRuleHashFromXattrs reads, the
   order of the comparisons in needsBuilding and the parts CollapseHash folds into the cache key.
   A change of any of these in /repo changes Gen/EngineRecord.v and breaks a proof here. *)
From Coq Require Import List Bool Arith.
Import ListNotations.
From PlzV Require Import Gen.EngineRecord.

Definition part_eqb (a b : part) : bool :=
  match a, b with
  | PRulePre, PRulePre | PRulePost, PRulePost | PConfig, PConfig | PSource, PSource | PSecret, PSecret => true
  | _, _ => false
  end.
Definition field_eqb (a b : field) : bool :=
  match a, b with
  | FRule, FRule | FConfig, FConfig | FSource, FSource | FSecret, FSecret => true
  | _, _ => false
  end.

(* the part a field must be read from: before the build the pre-build rule hash, after it the post-build one *)
Definition part_of (post : bool) (f : field) : part :=
  match f with
  | FRule => if post then PRulePost else PRulePre
  | FConfig => PConfig
  | FSource => PSource
  | FSecret => PSecret
  end.

(* every field is read from the slot where writeRuleHash put the corresponding hash, and all four are read *)
Definition layout_ok (post : bool) (l : list (field * nat)) : bool :=
  forallb (fun fn => match nth_error written_parts (snd fn) with
                     | Some p => part_eqb p (part_of post (fst fn))
                     | None => false
                     end) l
  && forallb (fun f => existsb (fun fn => field_eqb (fst fn) f) l) [FRule; FConfig; FSource; FSecret].

(* the model's record (rule key, source key) is the (rule, source) projection of what the code writes and reads
   back: the model's needs_build compares exactly these two (config and secret are constant in the histories) *)
Theorem record_layout_consistent : layout_ok false read_pre = true /\ layout_ok true read_post = true.
Proof. split; vm_compute; reflexivity. Qed.

(* needs_build in the model: metadata, (config), rule, source, (secret), outputs exist - in the code's order *)
Theorem needs_building_order :
  needs_building_checks = [CMetadata; CConfig; CRule; CSource; CSecret; COutputsExist; CForced].
Proof. reflexivity. Qed.

(* the cache key folds in a rule hash, the config hash and the source hash whichever branch is taken: the
   model's key (rule key, source key) is not coarser than the code's *)
Theorem collapse_covers_rule_and_source :
  (In 0 collapse_rules_equal /\ In 2 collapse_rules_equal /\ In 3 collapse_rules_equal)
  /\ (In 0 collapse_rules_differ /\ In 1 collapse_rules_differ /\ In 2 collapse_rules_differ /\ In 3 collapse_rules_differ)
  /\ nth_error written_parts 0 = Some PRulePre /\ nth_error written_parts 3 = Some PSource.
Proof. vm_compute. intuition. Qed.

(* the pre-build check reads the pre-build rule hash, the post-build check the post-build one, and they read
   everything else from the same slots: the model's needs_build / needs_build_post differ in exactly that *)
Theorem pre_post_differ_in_the_rule_slot_only :
  In (FRule, 0) read_pre /\ In (FRule, 1) read_post
  /\ filter (fun fn => negb (field_eqb (fst fn) FRule)) read_pre = filter (fun fn => negb (field_eqb (fst fn) FRule)) read_post.
Proof. vm_compute. intuition. Qed.

(* buildTarget (build_step.go:164), targets the build can modify: pre-build check, the outputs of the stored
   metadata are added, post-build check, "Unchanged"; a build adds what it found in the output directories, stores
   the metadata, moves the outputs and only then writes the record - the order Model/Engine.v follows in
   build_rule_od and run_od (gotrans fails closed when the source has these statements in another order) *)
Theorem build_target_order_ok :
  build_target_order = [SPreCheck; SCouldModify; SLoadMetadata; SAddMetadataOuts; SPostCheck; SUnchanged;
                        SRunCommand; SAddFoundOuts; SStoreMetadata; SMoveOutputs; SWriteRecord].
Proof. reflexivity. Qed.

(* ------------------------------------------------------------------------------------------ *)
(* sourceHash, the temporary directory, filegroupBuilder.Build (follow-up of the seeded mutations C01/m1-m3, C03/m2) *)
From PlzV Require Model.Engine.

(* sourceHash (incrementality.go:112) writes, per source, the path hash AND the path; per output of a tool, the path hash
   and nothing else - exactly the entries of the model's source key: (path, stream) for a source, (no path, stream)
   for a tool output (Engine.key_of, Engine.anon_ins, Engine.source_key) *)
Definition key_entry_writes (with_path : bool) : list hwrite := if with_path then [WHash; WPath] else [WHash].
Theorem source_key_matches_source_hash :
  source_hash_per_source = key_entry_writes true /\ source_hash_per_tool_output = key_entry_writes false
  /\ (forall p n, Engine.key_of [(p, n)] = [(p, Engine.stream n)])
  /\ (forall p n, Engine.key_of (Engine.anon_ins [(p, n)]) = [(Engine.nopath, Engine.stream n)]).
Proof. repeat split. Qed.

(* prepareDirectories removes and recreates the temporary directory before every build (prepareDirectory(tmpDir, true),
   called by buildTarget before build()): the model's run_action computes the command on the sources alone *)
Theorem tmp_dir_is_fresh : tmp_dir_removed_before_build = true.
Proof. reflexivity. Qed.

(* filegroupBuilder.Build: source exists, keep `to` when the hashes are equal, else RemoveAll(to), EnsureDir, link
   recursively - the steps of Engine.build_filegroup (C03.filegroup_output_exact_or_kept is about exactly these) *)
Theorem filegroup_build_steps_ok :
  filegroup_build_steps = [FgSourceExists; FgSameHashKeep; FgRemoveAll; FgEnsureDir; FgLinkRecursively].
Proof. reflexivity. Qed.

(* ------------------------------------------------------------------------------------------ *)
(* follow-up of the seeded mutations C02/m2, m3 *)

(* the tools loop of sourceHash ranges over AllTools(): list-form tools followed by the dict-form (named) ones.
   Model/Engine.v follows the regenerated accessor (Engine.hashed_tool_paths); with TAllTools every tool output is hashed *)
Theorem source_hash_covers_named_tools :
  source_hash_tools = TAllTools /\ Engine.hash_named_tools = true
  /\ (forall r t, Engine.hashed_tool_paths r t = Engine.tool_paths r t).
Proof. repeat split. Qed.

(* outputHash re-hashes every output (recalc = true) on the single-output branch and in the loop; on the restore path the
   outputs are hashed before the cache is asked and again after the retrieve (Model/C02.v, restore_trace) *)
Theorem output_hash_always_recalculates :
  output_hash_recalc_single = true /\ output_hash_recalc_each = true /\ restore_hashes_before_and_after = true.
Proof. repeat split. Qed.
