(* C03 - no-op and cut-off, proved on the engine model (cache off) for all well-formed repositories,
   all stores and all edits. *)
From PlzV Require Import Base.Harness Base.StrFacts Model.Engine Proof.Engine.
From Coq Require Import Lia.

(* ------------------------------------------------------------------------------------------ *)
(* what needs_build reads *)

Lemma gather_ext rd rd' l : (forall p, In p l -> rd' p = rd p) -> gather rd' l = gather rd l.
Proof.
  induction l as [|p l IH]; intros H; cbn [gather]; [reflexivity|].
  rewrite (H p) by (left; reflexivity). rewrite IH by (intros q Hq; apply H; right; exact Hq). reflexivity.
Qed.

Lemma dedup_incl l : forall seen p, In p (dedup seen l) -> In p l.
Proof.
  induction l as [|q l IH]; intros seen p; cbn [dedup]; [tauto|].
  destruct (mem (snd q) seen).
  - intros H. right. eapply IH. exact H.
  - intros [->|H]; [left; reflexivity|right; eapply IH; exact H].
Qed.

(* everything a target reads: its sources and the outputs of its tools *)
Definition all_reads (r : repo) (t : target) : list path := all_paths r t ++ tool_paths r t.

Definition reads_agree (r : repo) (t : target) (st st' : store) : Prop :=
  forall p, In p (all_reads r t) -> fst p = true -> s_outs st' (snd p) = s_outs st (snd p).

Lemma read_ext r t st st' p : reads_agree r t st st' -> In p (all_reads r t) -> read r st' p = read r st p.
Proof.
  intros H Hin. unfold read. destruct (fst p) eqn:E; [|reflexivity]. rewrite (H p Hin E). reflexivity.
Qed.

Lemma source_key_ext r t st st' : reads_agree r t st st' -> source_key r st' t = source_key r st t.
Proof.
  intros H. unfold source_key. rewrite (hashed_tool_paths_all r t).
  rewrite (gather_ext (read r st) (read r st') (iter_sources r t)).
  - rewrite (gather_ext (read r st) (read r st') (tool_paths r t)); [reflexivity|].
    intros p Hp. eapply read_ext; [exact H|]. unfold all_reads. apply in_or_app. right. exact Hp.
  - intros p Hp. eapply read_ext; [exact H|]. unfold all_reads. apply in_or_app. left.
    unfold iter_sources in Hp. eapply dedup_incl. exact Hp.
Qed.

Lemma gather_in_ext r t st st' : reads_agree r t st st' -> gather_in r st' t = gather_in r st t.
Proof.
  intros H. unfold gather_in.
  rewrite (gather_ext (read r st) (read r st') (all_paths r t)).
  - rewrite (gather_ext (read r st) (read r st') (tool_paths r t)); [reflexivity|].
    intros p Hp. eapply read_ext; [exact H|]. unfold all_reads. apply in_or_app. right. exact Hp.
  - intros p Hp. eapply read_ext; [exact H|]. unfold all_reads. apply in_or_app. left. exact Hp.
Qed.

Lemma common_rec_ext st st' rels : (forall rel, In rel rels -> s_outs st' rel = s_outs st rel) ->
  common_rec st' rels = common_rec st rels.
Proof.
  induction rels as [|x rest IH]; intros H; [reflexivity|].
  assert (Hx : rec_at st' x = rec_at st x) by (unfold rec_at; rewrite (H x) by (left; reflexivity); reflexivity).
  cbn [common_rec]. rewrite Hx. rewrite IH by (intros y Hy; apply H; right; exact Hy). reflexivity.
Qed.

Lemma needs_build_ext r t st st' :
  (forall rel, In rel (out_rels t) -> s_outs st' rel = s_outs st rel) ->
  reads_agree r t st st' -> s_meta st' (t_label t) = s_meta st (t_label t) ->
  needs_build r st' t = needs_build r st t.
Proof.
  intros Ho Hr Hm. unfold needs_build. rewrite Hm, (common_rec_ext st st' _ Ho), (source_key_ext _ _ _ _ Hr). reflexivity.
Qed.

Lemma needs_build_post_ext r t st st' outs :
  (forall rel, In rel (map (out_rel t) outs) -> s_outs st' rel = s_outs st rel) ->
  reads_agree r t st st' -> s_meta st' (t_label t) = s_meta st (t_label t) ->
  needs_build_post r st' t outs = needs_build_post r st t outs.
Proof.
  intros Ho Hr Hm. unfold needs_build_post. rewrite Hm, (common_rec_ext st st' _ Ho), (source_key_ext _ _ _ _ Hr). reflexivity.
Qed.

(* the loop of readRuleHashFromXattrs as regenerated from the source compares every record with the one seen before
   (EngineRecord.read_record_loop contains RDifferentFails): with "first output only" this is false and common_rec_each,
   hence every theorem that trusts a record, stops checking *)
Lemma rec_all_equal_true : rec_all_equal = true.
Proof. reflexivity. Qed.

Lemma common_rec_all st rk rels : rels <> [] -> (forall rel, In rel rels -> rec_at st rel = Some rk) ->
  common_rec st rels = Some rk.
Proof.
  induction rels as [|x rest IH]; intros Hne H; [congruence|].
  cbn [common_rec]. destruct rest as [|y rest'].
  - apply H. left. reflexivity.
  - rewrite (H x) by (left; reflexivity). rewrite IH; [|discriminate|intros z Hz; apply H; right; exact Hz].
    rewrite rec_all_equal_true, rkey_eqb_refl. reflexivity.
Qed.

(* a record shared by all outputs is the record of each *)
Lemma common_rec_each st rels rk : common_rec st rels = Some rk -> forall rel, In rel rels -> rec_at st rel = Some rk.
Proof.
  induction rels as [|x rest IH]; intros H rel Hin; [destruct Hin|].
  cbn [common_rec] in H. destruct rest as [|y rest'].
  - destruct Hin as [<-|[]]. exact H.
  - destruct (rec_at st x) as [a|] eqn:Ea; [|discriminate].
    destruct (common_rec st (y :: rest')) as [b|] eqn:Eb; [|discriminate].
    rewrite rec_all_equal_true in H.
    destruct (rkey_eqb_spec a b) as [->|]; [|discriminate]. injection H as ->.
    destruct Hin as [<-|Hin]; [exact Ea|]. apply IH; [reflexivity|exact Hin].
Qed.

(* ------------------------------------------------------------------------------------------ *)
(* settled: a second look at the target changes nothing *)

Definition fg_file_ok (r : repo) (st : store) (t : target) (f : str) : Prop :=
  exists c e, fg_src r (join (t_pkg t) f) = Some c
              /\ s_outs st (join (t_pkg t) f) = Some e /\ str_eqb (stream (e_node e)) (stream c) = true.

(* for a target with output_dirs: both checks pass, the second one on the outputs the metadata names *)
Definition settled (r : repo) (st : store) (t : target) : Prop :=
  if is_filegroup t then forall f, In f (outputs t) -> fg_file_ok r st t f
  else if could_modify t then needs_build r st t = false /\ needs_build_post r st t (meta_outs st t) = false
  else needs_build r st t = false.

(* the paths a settled target relies on *)
Definition own_rels (st : store) (t : target) : list str :=
  out_rels t ++ (if could_modify t then map (out_rel t) (meta_outs st t) else []).

Lemma settled_ext r t st st' :
  (forall rel, In rel (own_rels st t) -> s_outs st' rel = s_outs st rel) ->
  reads_agree r t st st' -> s_meta st' (t_label t) = s_meta st (t_label t) ->
  s_dyn st' (t_label t) = s_dyn st (t_label t) ->
  settled r st t -> settled r st' t.
Proof.
  intros Ho Hr Hm Hd. unfold settled.
  assert (Ho1 : forall rel, In rel (out_rels t) -> s_outs st' rel = s_outs st rel).
  { intros rel Hi. apply Ho. unfold own_rels. apply in_or_app. left. exact Hi. }
  destruct (is_filegroup t).
  - intros H f Hf. destruct (H f Hf) as (c & e & H1 & H2 & H3). exists c, e. repeat split; try assumption.
    rewrite Ho1; [exact H2|]. unfold out_rels, out_rel. apply in_map. exact Hf.
  - destruct (could_modify t) eqn:Ecm.
    + intros [H1 H2]. split; [rewrite (needs_build_ext r t st st' Ho1 Hr Hm); exact H1|].
      assert (Emo : meta_outs st' t = meta_outs st t) by (unfold meta_outs; rewrite Hd; reflexivity).
      rewrite Emo. rewrite (needs_build_post_ext r t st st' _); [exact H2| |exact Hr|exact Hm].
      intros rel Hi. apply Ho. unfold own_rels. rewrite Ecm. apply in_or_app. right. exact Hi.
    + intros H. rewrite (needs_build_ext r t st st' Ho1 Hr Hm). exact H.
Qed.

Lemma fg_noop r t rn fs : (forall f, In f fs -> fg_file_ok r (rn_st rn) t f) ->
  fold_left (fun rn f =>
               let rel := join (t_pkg t) f in
               match fg_src r rel with
               | None => fail_run rn t (rn_st rn)
               | Some c =>
                   let st := rn_st rn in
                   match s_outs st rel with
                   | Some e => if str_eqb (stream (e_node e)) (stream c) then rn
                               else mkRun (set_out st rel (Some (mkE c None))) (rn_log rn) (rn_failed rn)
                   | None => mkRun (set_out st rel (Some (mkE c None))) (rn_log rn) (rn_failed rn)
                   end
               end) fs rn = rn.
Proof.
  induction fs as [|f fs IH]; intros H; cbn [fold_left]; [reflexivity|].
  destruct (H f (or_introl eq_refl)) as (c & e & H1 & H2 & H3).
  cbn zeta. rewrite H1, H2, H3. apply IH. intros g Hg. apply H. right. exact Hg.
Qed.

Lemma settled_noop r rn t : settled r (rn_st rn) t -> blocked r rn t = false -> build_one false r rn t = rn.
Proof.
  unfold settled, build_one. intros Hs ->. destruct (is_filegroup t).
  - unfold build_filegroup. apply fg_noop. exact Hs.
  - destruct (could_modify t).
    + destruct Hs as [H1 H2]. unfold build_rule_od. rewrite H1, H2. reflexivity.
    + unfold build_rule. rewrite Hs. reflexivity.
Qed.

(* ------------------------------------------------------------------------------------------ *)
(* a build step that does not fail leaves its target settled *)

Lemma repeat_app_nil {A} (x : A) n l : repeat x n ++ l = l -> n = 0.
Proof.
  intros H. apply (f_equal (@length A)) in H. rewrite app_length, repeat_length in H. lia.
Qed.

Lemma fg_step_preserves r t rn f p c :
  fg_src r p = Some c ->
  (exists e, s_outs (rn_st rn) p = Some e /\ str_eqb (stream (e_node e)) (stream c) = true) ->
  let rel := join (t_pkg t) f in
  let rn1 := match fg_src r rel with
             | None => fail_run rn t (rn_st rn)
             | Some c =>
                 let st := rn_st rn in
                 match s_outs st rel with
                 | Some e => if str_eqb (stream (e_node e)) (stream c) then rn
                             else mkRun (set_out st rel (Some (mkE c None))) (rn_log rn) (rn_failed rn)
                 | None => mkRun (set_out st rel (Some (mkE c None))) (rn_log rn) (rn_failed rn)
                 end
             end in
  exists e, s_outs (rn_st rn1) p = Some e /\ str_eqb (stream (e_node e)) (stream c) = true.
Proof.
  intros Hc [e [He Hs]]. cbn zeta.
  destruct (fg_src r (join (t_pkg t) f)) as [c'|] eqn:Ec'; [|exists e; split; assumption].
  destruct (str_eqb_spec p (join (t_pkg t) f)) as [->|Hne].
  - rewrite He. assert (c' = c) by congruence. subst c'. rewrite Hs. exists e. split; assumption.
  - destruct (s_outs (rn_st rn) (join (t_pkg t) f)) as [e'|].
    + destruct (str_eqb (stream (e_node e')) (stream c')); [exists e; split; assumption|].
      cbn [rn_st]. rewrite set_out_other by exact Hne. exists e. split; assumption.
    + cbn [rn_st]. rewrite set_out_other by exact Hne. exists e. split; assumption.
Qed.

Lemma fg_settles r t fs : forall rn,
  let rn' := fold_left (fun rn f =>
               let rel := join (t_pkg t) f in
               match fg_src r rel with
               | None => fail_run rn t (rn_st rn)
               | Some c =>
                   let st := rn_st rn in
                   match s_outs st rel with
                   | Some e => if str_eqb (stream (e_node e)) (stream c) then rn
                               else mkRun (set_out st rel (Some (mkE c None))) (rn_log rn) (rn_failed rn)
                   | None => mkRun (set_out st rel (Some (mkE c None))) (rn_log rn) (rn_failed rn)
                   end
               end) fs rn in
  (exists n, rn_failed rn' = repeat (t_label t) n ++ rn_failed rn)
  /\ (rn_failed rn' = rn_failed rn ->
      (forall f, In f fs -> fg_file_ok r (rn_st rn') t f)
      /\ (forall p c, fg_src r p = Some c ->
            (exists e, s_outs (rn_st rn) p = Some e /\ str_eqb (stream (e_node e)) (stream c) = true) ->
            exists e, s_outs (rn_st rn') p = Some e /\ str_eqb (stream (e_node e)) (stream c) = true)).
Proof.
  induction fs as [|f fs IH]; intros rn; cbn [fold_left].
  - cbn zeta. split; [exists 0; reflexivity|]. intros _. split; [intros f []|]. intros p c _ H. exact H.
  - set (rn1 := match fg_src r (join (t_pkg t) f) with Some c => _ | None => _ end).
    specialize (IH rn1). cbn zeta in IH. destruct IH as ([n Hn] & IH).
    assert (Hf1 : rn_failed rn1 = rn_failed rn \/ rn_failed rn1 = t_label t :: rn_failed rn).
    { subst rn1. destruct (fg_src r (join (t_pkg t) f)) as [c|]; [|right; reflexivity].
      destruct (s_outs (rn_st rn) (join (t_pkg t) f)) as [e|]; [destruct (str_eqb _ _)|]; left; reflexivity. }
    cbn zeta. split.
    + destruct Hf1 as [E|E]; rewrite Hn, E; [exists n; reflexivity|].
      exists (S n). replace (S n) with (n + 1) by lia. rewrite repeat_app, <- app_assoc. reflexivity.
    + intros Hfin.
      assert (Hno : rn_failed rn1 = rn_failed rn /\ n = 0).
      { destruct Hf1 as [E|E]; rewrite E in Hn.
        - split; [exact E|]. rewrite Hfin in Hn. symmetry in Hn. eapply repeat_app_nil. exact Hn.
        - exfalso. rewrite Hfin in Hn. symmetry in Hn.
          replace (repeat (t_label t) n ++ t_label t :: rn_failed rn)
            with (repeat (t_label t) (n + 1) ++ rn_failed rn) in Hn
            by (rewrite repeat_app, <- app_assoc; reflexivity).
          apply repeat_app_nil in Hn. lia. }
      destruct Hno as [E ->]. cbn [repeat app] in Hn.
      destruct (IH Hn) as [IHa IHb].
      assert (Hpres : forall p c, fg_src r p = Some c ->
                (exists e, s_outs (rn_st rn) p = Some e /\ str_eqb (stream (e_node e)) (stream c) = true) ->
                exists e, s_outs (rn_st rn1) p = Some e /\ str_eqb (stream (e_node e)) (stream c) = true).
      { intros p c Hc Hp. subst rn1. apply (fg_step_preserves r t rn f p c Hc Hp). }
      split.
      * intros g [<-|Hg]; [|apply IHa; exact Hg].
        (* the step for f itself succeeded and left the right content; later steps preserve it *)
        assert (Hstep : exists c, fg_src r (join (t_pkg t) f) = Some c
                   /\ exists e, s_outs (rn_st rn1) (join (t_pkg t) f) = Some e /\ str_eqb (stream (e_node e)) (stream c) = true).
        { subst rn1. destruct (fg_src r (join (t_pkg t) f)) as [c|] eqn:Ec.
          - exists c. split; [reflexivity|].
            destruct (s_outs (rn_st rn) (join (t_pkg t) f)) as [e|] eqn:Ee.
            + destruct (str_eqb (stream (e_node e)) (stream c)) eqn:Es.
              * exists e. split; assumption.
              * cbn [rn_st]. rewrite set_out_same. eexists. split; [reflexivity|]. cbn. apply str_eqb_refl.
            + cbn [rn_st]. rewrite set_out_same. eexists. split; [reflexivity|]. cbn. apply str_eqb_refl.
          - exfalso. cbn in E. symmetry in E. apply (f_equal (@length str)) in E. cbn in E. lia. }
        destruct Hstep as (c & Hc & Hp). destruct (IHb _ _ Hc Hp) as (e & He & Hs).
        exists c, e. repeat split; assumption.
      * intros p c Hc Hp. apply IHb; [exact Hc|]. apply Hpres; assumption.
Qed.

(* ------------------------------------------------------------------------------------------ *)
(* filegroups of files and of DIRECTORIES: an output is replaced wholesale or kept, never merged *)

Definition fg_step (r : repo) (t : target) (rn : run) (f : str) : run :=
  let rel := join (t_pkg t) f in
  match fg_src r rel with
  | None => fail_run rn t (rn_st rn)
  | Some c =>
      let st := rn_st rn in
      match s_outs st rel with
      | Some e => if str_eqb (stream (e_node e)) (stream c) then rn
                  else mkRun (set_out st rel (Some (mkE c None))) (rn_log rn) (rn_failed rn)
      | None => mkRun (set_out st rel (Some (mkE c None))) (rn_log rn) (rn_failed rn)
      end
  end.

Lemma build_filegroup_steps r t rn : build_filegroup r t rn = fold_left (fg_step r t) (outputs t) rn.
Proof. reflexivity. Qed.

Lemma join_inj_l pkg a b : join pkg a = join pkg b -> a = b.
Proof.
  unfold join. destruct pkg as [|c pk]; [tauto|]. intros H. apply app_inv_head in H. injection H as ->. reflexivity.
Qed.

Lemma fg_step_other r t rn g f : g <> f -> s_outs (rn_st (fg_step r t rn g)) (join (t_pkg t) f) = s_outs (rn_st rn) (join (t_pkg t) f).
Proof.
  intros Hne. assert (Hrel : join (t_pkg t) f <> join (t_pkg t) g) by (intros E; apply join_inj_l in E; congruence).
  unfold fg_step. destruct (fg_src r (join (t_pkg t) g)); [|reflexivity].
  destruct (s_outs (rn_st rn) (join (t_pkg t) g)); [destruct (str_eqb _ _); [reflexivity|]|]; cbn [rn_st]; apply set_out_other; exact Hrel.
Qed.

Lemma fg_fold_other r t fs : forall rn f, ~ In f fs ->
  s_outs (rn_st (fold_left (fg_step r t) fs rn)) (join (t_pkg t) f) = s_outs (rn_st rn) (join (t_pkg t) f).
Proof.
  induction fs as [|g fs IH]; intros rn f Hn; cbn [fold_left]; [reflexivity|].
  rewrite IH by (intros Hi; apply Hn; right; exact Hi). apply fg_step_other. intros ->. apply Hn. left. reflexivity.
Qed.

(* what a filegroup leaves at the place of a source that exists (a file, or a directory with everything below it):
   EXACTLY the source tree (RemoveAll, then a recursive link: nothing of an older tree survives), or the untouched old
   output when its path hash equals that of the source.  For every repository, target, store and position in the run;
   whether other sources of the filegroup are missing does not matter. *)
Theorem filegroup_output_exact_or_kept r t fs : forall rn f n, NoDup fs -> In f fs -> fg_src r (join (t_pkg t) f) = Some n ->
  let rel := join (t_pkg t) f in
  let rn' := fold_left (fg_step r t) fs rn in
  s_outs (rn_st rn') rel = Some (mkE n None)
  \/ (s_outs (rn_st rn') rel = s_outs (rn_st rn) rel
      /\ exists e, s_outs (rn_st rn) rel = Some e /\ stream (e_node e) = stream n).
Proof.
  induction fs as [|g fs IH]; intros rn f n Hnd Hin Hsrc; [destruct Hin|].
  inversion Hnd as [|? ? Hnot Hnd']; subst. cbn zeta. cbn [fold_left]. destruct Hin as [->|Hin].
  - rewrite (fg_fold_other r t fs _ f Hnot). unfold fg_step. rewrite Hsrc. cbn zeta.
    destruct (s_outs (rn_st rn) (join (t_pkg t) f)) as [e|] eqn:Ee.
    + destruct (str_eqb_spec (stream (e_node e)) (stream n)) as [Es|_].
      * right. split; [exact Ee|]. exists e. split; [reflexivity|exact Es].
      * left. cbn [rn_st]. apply set_out_same.
    + left. cbn [rn_st]. apply set_out_same.
  - assert (Hne : g <> f) by (intros ->; contradiction).
    destruct (IH (fg_step r t rn g) f n Hnd' Hin Hsrc) as [H|[H1 [e [H2 H3]]]]; [left; exact H|].
    right. rewrite (fg_step_other r t rn g f Hne) in H1, H2. split; [exact H1|]. exists e. split; assumption.
Qed.

Lemma out_rels_nonempty t : has_outs t = true -> is_filegroup t = false -> out_rels t <> [].
Proof.
  intros Hhas Efg. unfold has_outs in Hhas. rewrite Efg in Hhas. cbn [orb] in Hhas. unfold out_rels, outputs.
  unfold is_filegroup in Efg.
  destruct (t_kind t); try discriminate; destruct (t_outs t) as [|o os]; try discriminate;
    cbn [sort_str fold_right]; (destruct (fold_right ins_str [] os); cbn [ins_str]; [discriminate|destruct (str_leb _ _); discriminate]).
Qed.

Lemma strs_eqb_refl (a : list str) : list_eqb str_eqb a a = true.
Proof. destruct (strs_eqb_spec a a); congruence. Qed.

Lemma failed_cons_neq (l : list str) x : x :: l = l -> False.
Proof. intros H. apply (f_equal (@length str)) in H. cbn in H. lia. Qed.

(* a successful build of an output_dirs target from its declared outputs leaves both checks passing *)
Lemma rebuild_od_settles r rn t :
  has_outs t = true -> is_filegroup t = false ->
  (forall p, In p (all_reads r t) -> fst p = true -> ~ In (snd p) (claimed r t)) -> could_modify t = true ->
  rn_failed (rebuild_od r rn t (outputs t)) = rn_failed rn ->
  let st1 := rn_st (rebuild_od r rn t (outputs t)) in
  needs_build r st1 t = false /\ needs_build_post r st1 t (meta_outs st1 t) = false
  /\ s_meta st1 (t_label t) = true /\ s_dyn st1 (t_label t) = found_names r t.
Proof.
  intros Hhas Efg Hdisj Hcm. unfold rebuild_od.
  destruct (source_key r (rn_st rn) t) as [sk|] eqn:Esk.
  2:{ unfold fail_run. cbn. intros H. exfalso. eapply failed_cons_neq. exact H. }
  unfold run_od. destruct (gather (read r (rn_st rn)) (all_paths r t)) as [ins|] eqn:Eg.
  2:{ unfold fail_run. cbn. intros H. exfalso. eapply failed_cons_neq. exact H. }
  destruct (od_cmd (outputs t) (tmp_ins ins)) as [[found news]|] eqn:Ec.
  2:{ cbn. intros H. exfalso. eapply failed_cons_neq. exact H. }
  pose proof (od_cmd_found _ _ _ _ Ec) as Hf. subst found. rewrite (found_names_spec r (rn_st rn) t ins Eg).
  set (outs1 := add_outs (found_names r t) (outputs t)).
  destruct (collect (copy_entries (tmp_ins ins) ++ news) outs1) as [moved|] eqn:Eco.
  2:{ cbn. intros H. exfalso. eapply failed_cons_neq. exact H. }
  cbn [rn_st rn_failed]. intros _.
  pose proof (collect_names _ _ _ Eco) as Hnames.
  set (rk := ((t_defkey t, outs1), sk)).
  set (st0 := set_meta_dyn (rn_st rn) (t_label t) (found_names r t)).
  set (st1 := fold_left (move_output rk t) moved st0).
  assert (Hm : s_meta st1 (t_label t) = true).
  { subst st1 st0. rewrite move_fold_meta. cbn. unfold upd. rewrite str_eqb_refl. reflexivity. }
  assert (Hd : s_dyn st1 (t_label t) = found_names r t).
  { subst st1 st0. rewrite move_fold_dyn. cbn. unfold upd. rewrite str_eqb_refl. reflexivity. }
  assert (Hmo : meta_outs st1 t = outs1) by (unfold meta_outs; rewrite Hd; reflexivity).
  assert (Hrec : forall o, In o outs1 -> rec_at st1 (out_rel t o) = Some rk).
  { intros o Ho. rewrite <- Hnames in Ho. destruct (move_fold_rec rk t moved st0 o Ho) as [e [He Hr]].
    unfold rec_at. subst st1. rewrite He. exact Hr. }
  assert (Hsub : forall o, In o (outputs t) -> In o outs1).
  { intros o Ho. subst outs1. apply add_outs_In. right. exact Ho. }
  assert (Hagree : reads_agree r t (rn_st rn) st1).
  { intros p Hp Hg. subst st1. rewrite move_fold_outs; [reflexivity|]. rewrite Hnames.
    intros Hi. apply (Hdisj p Hp Hg). apply in_map_iff in Hi. destruct Hi as [o [Hrel Ho]]. subst outs1.
    apply add_outs_In in Ho. unfold claimed. rewrite Hcm. apply in_or_app. rewrite <- Hrel.
    destruct Ho as [Ho|Ho]; [right|left]; apply in_map; exact Ho. }
  assert (Hne : out_rels t <> []) by (apply out_rels_nonempty; assumption).
  assert (Hcr1 : common_rec st1 (out_rels t) = Some rk).
  { apply common_rec_all; [exact Hne|]. intros rel Hrel. unfold out_rels in Hrel. apply in_map_iff in Hrel.
    destruct Hrel as [o [<- Ho]]. apply Hrec. apply Hsub. exact Ho. }
  assert (Hcr2 : common_rec st1 (map (out_rel t) outs1) = Some rk).
  { apply common_rec_all.
    - unfold out_rels in Hne. destruct (outputs t) as [|o os] eqn:Eo; [exfalso; apply Hne; reflexivity|].
      intros E. apply map_eq_nil in E. pose proof (Hsub o (or_introl eq_refl)) as Hi. rewrite E in Hi. destruct Hi.
    - intros rel Hrel. apply in_map_iff in Hrel. destruct Hrel as [o [<- Ho]]. apply Hrec. exact Ho. }
  assert (Hsk : source_key r st1 t = Some sk) by (rewrite (source_key_ext r t _ _ Hagree); exact Esk).
  split; [|split; [|split; [exact Hm|exact Hd]]].
  - unfold needs_build. rewrite Hm, Hcr1, Hsk. subst rk. unfold rk_def. cbn [fst snd negb orb].
    rewrite str_eqb_refl, skey_eqb_refl. reflexivity.
  - rewrite Hmo. unfold needs_build_post. rewrite Hm, Hcr2, Hsk. subst rk. unfold rk_def, rk_outs. cbn [fst snd negb orb].
    rewrite str_eqb_refl, strs_eqb_refl, skey_eqb_refl. reflexivity.
Qed.

Lemma build_one_settles r rn t :
  has_outs t = true ->
  (forall p, In p (all_reads r t) -> fst p = true -> ~ In (snd p) (claimed r t)) ->
  quiet_step r rn t ->
  rn_failed (build_one false r rn t) = rn_failed rn ->
  settled r (rn_st (build_one false r rn t)) t.
Proof.
  intros Hhas Hdisj Hq. unfold build_one, settled. unfold quiet_step in Hq.
  destruct (blocked r rn t).
  { unfold fail_run. cbn. intros H. exfalso. apply (f_equal (@length str)) in H. cbn in H. lia. }
  specialize (Hq eq_refl).
  destruct (is_filegroup t) eqn:Efg.
  - intros Hf. unfold build_filegroup in *. destruct (fg_settles r t (outputs t) rn) as (_ & H). apply H. exact Hf.
  - destruct (could_modify t) eqn:Ecm.
    { unfold build_rule_od. unfold stale_flow in Hq. rewrite Ecm in Hq. cbn [andb] in Hq.
      destruct (needs_build r (rn_st rn) t) eqn:Enb.
      - intros Hf. destruct (rebuild_od_settles r rn t Hhas Efg Hdisj Ecm Hf) as (H1 & H2 & _). split; assumption.
      - cbn [negb andb] in Hq. rewrite Hq. intros _. split; assumption. }
    assert (Hdisj' : forall p, In p (all_reads r t) -> fst p = true -> ~ In (snd p) (out_rels t)).
    { intros p Hp Hg Hi. apply (Hdisj p Hp Hg). apply out_rels_claimed. exact Hi. }
    unfold build_rule. destruct (needs_build r (rn_st rn) t) eqn:Enb; cbn [negb]; [|intros _; exact Enb].
    destruct (source_key r (rn_st rn) t) as [sk|] eqn:Esk.
    2:{ unfold fail_run. cbn. intros H. exfalso. apply (f_equal (@length str)) in H. cbn in H. lia. }
    unfold run_action. destruct (gather_in r (rn_st rn) t) as [ins|].
    2:{ unfold fail_run. cbn. intros H. exfalso. apply (f_equal (@length str)) in H. cbn in H. lia. }
    destruct (act (t_kind t) (outputs t) (tmp_ins ins)) as [news|] eqn:Ha.
    2:{ cbn. intros H. exfalso. apply (f_equal (@length str)) in H. cbn in H. lia. }
    cbn [rn_st rn_failed]. intros _.
    apply act_names in Ha.
    set (rk := ((t_defkey t, @nil str), sk)). set (st1 := fold_left (move_output rk t) news (set_meta (rn_st rn) (t_label t))).
    assert (Hagree : reads_agree r t (rn_st rn) st1).
    { intros p Hp Hg. subst st1. rewrite move_fold_outs; [reflexivity|]. rewrite Ha. apply Hdisj'; assumption. }
    unfold needs_build.
    assert (Hm : s_meta st1 (t_label t) = true) by (subst st1; rewrite move_fold_meta; apply set_meta_same).
    rewrite Hm. cbn [negb orb].
    assert (Hcr : common_rec st1 (out_rels t) = Some rk).
    { apply common_rec_all.
      - apply out_rels_nonempty; assumption.
      - intros rel Hrel. unfold out_rels in Hrel. apply in_map_iff in Hrel. destruct Hrel as [o [<- Ho]].
        rewrite <- Ha in Ho. destruct (move_fold_rec rk t news (set_meta (rn_st rn) (t_label t)) o Ho) as [e [He Hr]].
        unfold rec_at. subst st1. rewrite He. exact Hr. }
    rewrite Hcr. subst rk. unfold rk_def. cbn [fst snd]. rewrite str_eqb_refl. cbn [negb orb].
    rewrite (source_key_ext r t _ _ Hagree), Esk, skey_eqb_refl. reflexivity.
Qed.

(* ------------------------------------------------------------------------------------------ *)
(* well-formedness as propositions *)

Record WF (r : repo) : Prop := {
  wf_labels : NoDup (map t_label (r_targets r));
  wf_paths : NoDup (flat_map (claimed r) (r_targets r));
  wf_topo : forall done t todo, r_targets r = done ++ t :: todo ->
            forall l, In l (label_srcs (t_srcs t)) -> exists d, In d done /\ find_target (r_targets r) l = Some d;
  wf_has : forall t, In t (r_targets r) -> has_outs t = true;
  wf_nood : forall t l d, In t (r_targets r) -> In l (label_srcs (t_srcs t)) -> find_target (r_targets r) l = Some d -> could_modify d = false
}.

Lemma find_target_first ts : forall l d, In d ts -> t_label d = l -> NoDup (map t_label ts) -> find_target ts l = Some d.
Proof.
  induction ts as [|t ts IH]; intros l d Hin Hl Hnd; [destruct Hin|].
  cbn [find_target]. cbn [map] in Hnd. inversion Hnd as [|? ? Hnot Hnd']; subst.
  destruct Hin as [->|Hin].
  - rewrite str_eqb_refl. reflexivity.
  - destruct (str_eqb_spec (t_label d) (t_label t)) as [E|_].
    + exfalso. apply Hnot. rewrite <- E. apply in_map. exact Hin.
    + apply IH; auto.
Qed.

Lemma topo_spec ts0 : forall done seen ts, ts0 = done ++ ts -> NoDup (map t_label ts0) ->
  (forall l, In l seen -> exists d, In d done /\ t_label d = l) ->
  topo seen ts = true ->
  forall pre t post, ts = pre ++ t :: post -> forall l, In l (label_srcs (t_srcs t)) ->
  exists d, In d (done ++ pre) /\ find_target ts0 l = Some d.
Proof.
  intros done seen ts. revert done seen. induction ts as [|u ts IH]; intros done seen Hts Hnd Hseen Htopo pre t post Hsplit l Hl.
  - destruct pre; discriminate.
  - cbn [topo] in Htopo. apply andb_prop in Htopo. destruct Htopo as [Hu Hrest].
    destruct pre as [|u' pre].
    + cbn [app] in Hsplit. injection Hsplit as -> ->.
      rewrite forallb_forall in Hu. specialize (Hu l Hl). apply mem_In in Hu.
      destruct (Hseen l Hu) as [d [Hd Hdl]]. exists d. rewrite app_nil_r. split; [exact Hd|].
      apply find_target_first; [subst ts0; apply in_or_app; left; exact Hd|exact Hdl|exact Hnd].
    + cbn [app] in Hsplit. injection Hsplit as -> ->.
      destruct (IH (done ++ [u']) (t_label u' :: seen)) with (pre := pre) (t := t) (post := post) (l := l) as [d [Hd Hf]]; auto.
      * rewrite <- app_assoc. exact Hts.
      * intros x [<-|Hx].
        -- exists u'. split; [apply in_or_app; right; left; reflexivity|reflexivity].
        -- destruct (Hseen x Hx) as [d [Hd Hdl]]. exists d. split; [apply in_or_app; left; exact Hd|exact Hdl].
      * exists d. split; [|exact Hf]. rewrite <- app_assoc in Hd. exact Hd.
Qed.

Lemma wf_repo_WF r : wf_repo r = true -> WF r.
Proof.
  unfold wf_repo. intros H.
  apply andb_prop in H. destruct H as [H Hnood]. apply andb_prop in H. destruct H as [H Hhas].
  apply andb_prop in H. destruct H as [H Hpaths]. apply andb_prop in H. destruct H as [Hlab Htopo].
  assert (Hnd : NoDup (map t_label (r_targets r))) by (apply nodup_str_NoDup; assumption).
  constructor.
  - exact Hnd.
  - apply nodup_str_NoDup. assumption.
  - intros done t todo Hsplit l Hl.
    destruct (topo_spec (r_targets r) [] [] (r_targets r) eq_refl Hnd) with (pre := done) (t := t) (post := todo) (l := l) as [d [Hd Hf]]; auto.
    + intros x [].
    + exists d. split; assumption.
  - intros t Ht. rewrite forallb_forall in Hhas. apply Hhas. exact Ht.
  - intros t l d Ht Hl Hf. rewrite forallb_forall in Hnood. specialize (Hnood t Ht). unfold no_od_deps in Hnood.
    rewrite forallb_forall in Hnood. specialize (Hnood l Hl). rewrite Hf in Hnood. apply negb_true_iff in Hnood. exact Hnood.
Qed.

Lemma nodup_app_disjoint {A} (l1 l2 : list A) x : NoDup (l1 ++ l2) -> In x l1 -> In x l2 -> False.
Proof.
  induction l1 as [|a l1 IH]; intros Hnd H1 H2; [destruct H1|].
  cbn [app] in Hnd. inversion Hnd as [|? ? Hnot Hnd']; subst.
  destruct H1 as [->|H1].
  - apply Hnot. apply in_or_app. right. exact H2.
  - apply IH; assumption.
Qed.

(* what a target claims is disjoint from what every earlier target claims *)
Lemma claimed_disjoint r done t todo d rel : WF r -> r_targets r = done ++ t :: todo -> In d done ->
  In rel (claimed r d) -> In rel (claimed r t) -> False.
Proof.
  intros W Hs Hd H1 H2. pose proof (wf_paths r W) as Hnd. rewrite Hs, flat_map_app in Hnd.
  eapply (nodup_app_disjoint _ _ rel Hnd).
  - apply in_flat_map. exists d. split; assumption.
  - cbn [flat_map]. apply in_or_app. left. exact H2.
Qed.

Lemma outs_disjoint r done t todo d rel : WF r -> r_targets r = done ++ t :: todo -> In d done ->
  In rel (out_rels d) -> In rel (out_rels t) -> False.
Proof.
  intros W Hs Hd H1 H2. eapply (claimed_disjoint r done t todo d rel); try eassumption; apply out_rels_claimed; assumption.
Qed.

Lemma label_srcs_label l srcs : In (SLabel l) srcs -> In l (label_srcs srcs).
Proof.
  induction srcs as [|y ys IH]; intros Hx; [destruct Hx|]. destruct Hx as [->|Hx]; cbn [label_srcs].
  - left. reflexivity.
  - destruct y; [apply IH; exact Hx|right; apply IH; exact Hx|right; apply IH; exact Hx].
Qed.
Lemma label_srcs_tool l srcs : In (STool l) srcs -> In l (label_srcs srcs).
Proof.
  induction srcs as [|y ys IH]; intros Hx; [destruct Hx|]. destruct Hx as [->|Hx]; cbn [label_srcs].
  - left. reflexivity.
  - destruct y; [apply IH; exact Hx|right; apply IH; exact Hx|right; apply IH; exact Hx].
Qed.

(* every generated input of a target - source or tool - is an output of an earlier target *)
Lemma inputs_earlier r done t todo p : WF r -> r_targets r = done ++ t :: todo ->
  In p (all_reads r t) -> fst p = true -> exists d, In d done /\ In (snd p) (out_rels d).
Proof.
  intros W Hs Hp Hg. unfold all_reads in Hp. apply in_app_or in Hp.
  assert (Hdep : forall l, In l (label_srcs (t_srcs t)) ->
            In p (match find_target (r_targets r) l with
                  | Some d => map (fun o => (true, out_rel d o)) (outputs d) | None => [] end) ->
            exists d, In d done /\ In (snd p) (out_rels d)).
  { intros l Hl Hp'. destruct (wf_topo r W done t todo Hs l Hl) as [d [Hd Hf]]. rewrite Hf in Hp'.
    apply in_map_iff in Hp'. destruct Hp' as [o [<- Ho]]. exists d. split; [exact Hd|].
    cbn [snd]. unfold out_rels. apply in_map. exact Ho. }
  destruct Hp as [Hp|Hp].
  - unfold all_paths in Hp. apply in_flat_map in Hp. destruct Hp as [x [Hx Hp]].
    destruct x as [f|l|l]; cbn [src_paths] in Hp.
    + destruct Hp as [<-|[]]. discriminate.
    + apply (Hdep l); [apply label_srcs_label; exact Hx|exact Hp].
    + destruct Hp.
  - unfold tool_paths in Hp. apply in_flat_map in Hp. destruct Hp as [x [Hx Hp]].
    destruct x as [f|l|l]; try (destruct Hp; fail).
    apply (Hdep l); [apply label_srcs_tool; exact Hx|exact Hp].
Qed.

Lemma inputs_not_own r done t todo p : WF r -> r_targets r = done ++ t :: todo ->
  In p (all_reads r t) -> fst p = true -> ~ In (snd p) (claimed r t).
Proof.
  intros W Hs Hp Hg Hown. destruct (inputs_earlier r done t todo p W Hs Hp Hg) as [d [Hd Hrel]].
  eapply (claimed_disjoint r done t todo d); try eassumption. apply out_rels_claimed. exact Hrel.
Qed.

Lemma labels_distinct r done t todo d : WF r -> r_targets r = done ++ t :: todo -> In d done -> t_label d <> t_label t.
Proof.
  intros W Hs Hd E. pose proof (wf_labels r W) as Hnd. rewrite Hs, map_app in Hnd.
  eapply (nodup_app_disjoint _ _ (t_label d) Hnd).
  - apply in_map. exact Hd.
  - cbn [map]. left. symmetry. exact E.
Qed.

(* the metadata of an output_dirs target names only what the target can discover *)
Definition DynOK (r : repo) (st : store) : Prop :=
  forall d, In d (r_targets r) -> could_modify d = true -> incl (s_dyn st (t_label d)) (found_names r d).

Lemma own_rels_claimed r st d : In d (r_targets r) -> DynOK r st -> forall rel, In rel (own_rels st d) -> In rel (claimed r d).
Proof.
  intros Hd Hdyn rel Hi. unfold own_rels in Hi. unfold claimed. apply in_app_or in Hi. apply in_or_app.
  destruct Hi as [Hi|Hi]; [left; exact Hi|]. destruct (could_modify d) eqn:Ecm; [|destruct Hi].
  apply in_map_iff in Hi. destruct Hi as [o [<- Ho]]. unfold meta_outs in Ho. apply add_outs_In in Ho.
  destruct Ho as [Ho|Ho]; [right; apply in_map; apply (Hdyn d Hd Ecm); exact Ho|left; unfold out_rels; apply in_map; exact Ho].
Qed.

(* building a later target does not disturb an earlier settled one *)
Lemma settled_preserved r done t todo d rn : WF r -> r_targets r = done ++ t :: todo -> In d done ->
  DynOK r (rn_st rn) -> quiet_step r rn t ->
  settled r (rn_st rn) d -> settled r (rn_st (build_one false r rn t)) d.
Proof.
  intros W Hs Hd Hdyn Hq Hset. destruct (build_one_frame r rn t Hq) as [Ho Hm].
  assert (Hdin : In d (r_targets r)) by (rewrite Hs; apply in_or_app; left; exact Hd).
  assert (Hlab : t_label d <> t_label t) by (eapply labels_distinct; eassumption).
  apply in_split in Hd. destruct Hd as [d1 [d2 Hdone]].
  eapply settled_ext; [| | | |exact Hset].
  - intros rel Hrel. apply Ho. intros Hown. eapply (claimed_disjoint r done t todo d); try eassumption.
    + subst done. apply in_or_app. right. left. reflexivity.
    + eapply own_rels_claimed; eassumption.
  - intros p Hp Hg. apply Ho. intros Hown.
    assert (Hs' : r_targets r = d1 ++ d :: (d2 ++ t :: todo)) by (rewrite Hs, Hdone, <- app_assoc; reflexivity).
    destruct (inputs_earlier r d1 d _ p W Hs' Hp Hg) as [d0 [Hd0 Hrel]].
    eapply (claimed_disjoint r done t todo d0); try eassumption.
    + subst done. apply in_or_app. left. exact Hd0.
    + apply out_rels_claimed. exact Hrel.
  - apply Hm. exact Hlab.
  - apply Hm. exact Hlab.
Qed.

(* ------------------------------------------------------------------------------------------ *)
(* the first build settles everything *)

Lemma failed_mono c r todo : forall rn, exists pre, rn_failed (fold_left (build_one c r) todo rn) = pre ++ rn_failed rn.
Proof.
  induction todo as [|t todo IH]; intros rn; cbn [fold_left]; [exists []; reflexivity|].
  destruct (IH (build_one c r rn t)) as [pre Hpre]. destruct (build_one_failed c r rn t) as [n Hn].
  exists (pre ++ repeat (t_label t) n). rewrite Hpre, Hn, app_assoc. reflexivity.
Qed.

Lemma stale_in_cons c r t todo rn : stale_in c r (t :: todo) rn = false ->
  quiet_step r rn t /\ stale_in c r todo (build_one c r rn t) = false.
Proof.
  cbn [stale_in]. intros H. apply orb_false_elim in H. destruct H as [H1 H2]. split; [|exact H2].
  unfold quiet_step. intros Hb. rewrite Hb in H1. exact H1.
Qed.

(* the metadata keeps naming only discoverable files *)
Lemma dynok_step r done t todo rn : WF r -> r_targets r = done ++ t :: todo -> quiet_step r rn t ->
  DynOK r (rn_st rn) -> DynOK r (rn_st (build_one false r rn t)).
Proof.
  intros W Hs Hq Hdyn d Hd Ecm.
  destruct (list_eq_dec N.eq_dec (t_label d) (t_label t)) as [El|Hl].
  - assert (d = t).
    { pose proof (wf_labels r W) as Hnd. rewrite Hs in Hd.
      assert (Ht : In t (r_targets r)) by (rewrite Hs; apply in_or_app; right; left; reflexivity).
      rewrite <- Hs in Hd.
      assert (Hf1 := find_target_first (r_targets r) (t_label t) d Hd El Hnd).
      assert (Hf2 := find_target_first (r_targets r) (t_label t) t Ht eq_refl Hnd). congruence. }
    subst d. unfold build_one. destruct (blocked r rn t); [apply Hdyn; assumption|].
    assert (Efg : is_filegroup t = false) by (unfold could_modify in Ecm; unfold is_filegroup; destruct (t_kind t); [reflexivity|discriminate|discriminate]).
    rewrite Efg, Ecm.
    assert (Hre : forall outs0, incl (s_dyn (rn_st (rebuild_od r rn t outs0)) (t_label t)) (found_names r t)).
    { intros outs0. unfold rebuild_od. destruct (source_key r (rn_st rn) t) as [sk|].
      2:{ unfold fail_run. cbn [rn_st]. rewrite remove_outs_dyn. apply Hdyn; assumption. }
      unfold run_od. destruct (gather (read r (rn_st rn)) (all_paths r t)) as [ins|] eqn:Eg.
      2:{ unfold fail_run. cbn [rn_st]. rewrite remove_outs_dyn. apply Hdyn; assumption. }
      destruct (od_cmd outs0 (tmp_ins ins)) as [[found news]|] eqn:Ec.
      2:{ cbn [rn_st]. rewrite remove_outs_dyn. apply Hdyn; assumption. }
      pose proof (od_cmd_found _ _ _ _ Ec) as Hf. subst found. rewrite (found_names_spec r (rn_st rn) t ins Eg).
      destruct (collect _ _); cbn [rn_st]; [rewrite move_fold_dyn|rewrite remove_outs_dyn];
        cbn; unfold upd; rewrite str_eqb_refl; apply incl_refl. }
    unfold build_rule_od. destruct (needs_build r (rn_st rn) t); [apply Hre|].
    destruct (needs_build_post _ _ _ _); [apply Hre|apply Hdyn; assumption].
  - destruct (build_one_frame r rn t Hq) as [_ Hm]. destruct (Hm (t_label d) Hl) as [_ E]. rewrite E. apply Hdyn; assumption.
Qed.

Lemma run_settles r : WF r -> forall todo done rn, r_targets r = done ++ todo ->
  rn_failed rn = [] -> DynOK r (rn_st rn) -> stale_in false r todo rn = false ->
  (forall d, In d done -> settled r (rn_st rn) d) ->
  rn_failed (fold_left (build_one false r) todo rn) = [] ->
  (forall d, In d (r_targets r) -> settled r (rn_st (fold_left (build_one false r) todo rn)) d)
  /\ DynOK r (rn_st (fold_left (build_one false r) todo rn)).
Proof.
  intros W. induction todo as [|t todo IH]; intros done rn Hs Hf Hdyn Hst Hinv Hfin; cbn [fold_left] in *.
  - split; [|exact Hdyn]. intros d Hd. rewrite Hs, app_nil_r in Hd. apply Hinv. exact Hd.
  - destruct (stale_in_cons _ _ _ _ _ Hst) as [Hq Hst'].
    assert (Hf1 : rn_failed (build_one false r rn t) = []).
    { destruct (failed_mono false r todo (build_one false r rn t)) as [pre Hpre]. rewrite Hfin in Hpre.
      symmetry in Hpre. apply app_eq_nil in Hpre. apply Hpre. }
    apply (IH (done ++ [t]) (build_one false r rn t)); auto.
    + rewrite <- app_assoc. exact Hs.
    + eapply dynok_step; eassumption.
    + intros x Hx. apply in_app_or in Hx. destruct Hx as [Hx|[<-|[]]].
      * eapply settled_preserved; eauto.
      * apply build_one_settles.
        -- apply (wf_has r W). rewrite Hs. apply in_or_app. right. left. reflexivity.
        -- intros p Hp Hg. eapply inputs_not_own; eauto.
        -- exact Hq.
        -- rewrite Hf1, Hf. reflexivity.
Qed.

Lemma run_noop r : WF r -> forall todo done rn, r_targets r = done ++ todo -> rn_failed rn = [] ->
  (forall d, In d todo -> settled r (rn_st rn) d) -> fold_left (build_one false r) todo rn = rn.
Proof.
  intros W. induction todo as [|t todo IH]; intros done rn Hs Hf Hset; cbn [fold_left]; [reflexivity|].
  assert (Hb : blocked r rn t = false).
  { unfold blocked. apply not_true_is_false. intros Hex. apply existsb_exists in Hex. destruct Hex as [l [Hl Hbad]].
    rewrite Hf in Hbad. cbn [mem existsb orb] in Hbad.
    destruct (wf_topo r W done t todo Hs l Hl) as [d [_ Hfd]]. rewrite Hfd in Hbad. discriminate. }
  rewrite (settled_noop r rn t (Hset t (or_introl eq_refl)) Hb).
  apply (IH (done ++ [t])); auto.
  - rewrite <- app_assoc. exact Hs.
  - intros d Hd. apply Hset. right. exact Hd.
Qed.

(* executable form of DynOK for the initial plz-out *)
Definition dyn_ok (r : repo) (st : store) : bool :=
  forallb (fun d => negb (could_modify d) || subset (s_dyn st (t_label d)) (found_names r d)) (r_targets r).

Lemma dyn_ok_DynOK r st : dyn_ok r st = true -> DynOK r st.
Proof.
  unfold dyn_ok. intros H d Hd Ecm. rewrite forallb_forall in H. specialize (H d Hd). rewrite Ecm in H. cbn [negb orb] in H.
  unfold subset in H. rewrite forallb_forall in H. intros x Hx. apply mem_In. apply H. exact Hx.
Qed.

(* C03 (a): after a successful build of a well-formed repository in which no output_dirs target was rebuilt with
   the outputs of an old metadata file (stale_in), from a plz-out whose metadata names only discoverable files
   (dyn_ok; both hold trivially without output_dirs targets), building again does nothing at all *)
Theorem noop_build_all r st : wf_repo r = true ->
  run_ok (build_all false r st) = true ->
  stale_in false r (r_targets r) (mkRun st [] []) = false -> dyn_ok r st = true ->
  build_all false r (rn_st (build_all false r st)) = mkRun (rn_st (build_all false r st)) [] [].
Proof.
  intros Hwf Hok Hst Hdyn. apply wf_repo_WF in Hwf. apply dyn_ok_DynOK in Hdyn. unfold build_all in *.
  set (rn1 := fold_left (build_one false r) (r_targets r) (mkRun st [] [])) in *.
  assert (Hf : rn_failed rn1 = []) by (unfold run_ok in Hok; destruct (rn_failed rn1); [reflexivity|discriminate]).
  apply (run_noop r Hwf (r_targets r) []); auto.
  intros d Hd. change (rn_st (mkRun (rn_st rn1) [] [])) with (rn_st rn1).
  apply (run_settles r Hwf (r_targets r) [] (mkRun st [] [])); auto. intros x [].
Qed.

(* ------------------------------------------------------------------------------------------ *)
(* cut-off *)

(* the log of a run mentions a label only if the step of a target with that label wrote it *)
Lemma log_only_own c r todo : forall rn l, In l (rn_log (fold_left (build_one c r) todo rn)) ->
  In l (rn_log rn) \/ exists pre t post, todo = pre ++ t :: post /\ t_label t = l
       /\ rn_log (build_one c r (fold_left (build_one c r) pre rn) t) = l :: rn_log (fold_left (build_one c r) pre rn).
Proof.
  induction todo as [|t todo IH]; intros rn l Hin; cbn [fold_left] in Hin; [left; exact Hin|].
  destruct (IH _ _ Hin) as [H|[pre [u [post [Hs [Hl Hlog]]]]]].
  - destruct (build_one_log c r rn t) as [E|E]; rewrite E in H.
    + left. exact H.
    + destruct H as [<-|H]; [|left; exact H]. right. exists [], t, todo. repeat split. exact E.
  - right. exists (t :: pre), u, post. subst todo. repeat split; assumption.
Qed.

(* what a target looks like to needs_build does not change while OTHER targets of the repository build *)
Lemma view_preserved r : WF r -> forall pre rn done t todo, r_targets r = done ++ pre ++ t :: todo ->
  stale_in false r pre rn = false ->
  let rn' := fold_left (build_one false r) pre rn in
  (forall rel, In rel (out_rels t) -> s_outs (rn_st rn') rel = s_outs (rn_st rn) rel)
  /\ s_meta (rn_st rn') (t_label t) = s_meta (rn_st rn) (t_label t).
Proof.
  intros W. induction pre as [|u pre IH]; intros rn done t todo Hs Hst; cbn [fold_left]; [split; reflexivity|].
  destruct (stale_in_cons _ _ _ _ _ Hst) as [Hq Hst'].
  cbn zeta. destruct (IH (build_one false r rn u) (done ++ [u]) t todo) as [Ho Hm].
  { rewrite <- app_assoc. exact Hs. }
  { exact Hst'. }
  destruct (build_one_frame r rn u Hq) as [Ho1 Hm1].
  assert (Hs' : r_targets r = (done ++ u :: pre) ++ t :: todo) by (rewrite Hs, <- app_assoc; reflexivity).
  split.
  - intros rel Hrel. rewrite Ho by exact Hrel. apply Ho1. intros Hu.
    eapply (claimed_disjoint r (done ++ u :: pre) t todo u); try eassumption.
    + apply in_or_app. right. left. reflexivity.
    + apply out_rels_claimed. exact Hrel.
  - rewrite Hm. apply Hm1. intros E.
    eapply (labels_distinct r (done ++ u :: pre) t todo u); try eassumption.
    + apply in_or_app. right. left. reflexivity.
    + symmetry. exact E.
Qed.

(* C03 (b), one step: the command of t runs only if needsBuilding said so - before the build, or, for a target
   with output_dirs, after the outputs of its metadata were added (stale_flow) *)
Lemma executed_needs_build r rn t :
  rn_log (build_one false r rn t) = t_label t :: rn_log rn ->
  needs_build r (rn_st rn) t = true \/ stale_flow r (rn_st rn) t = true.
Proof.
  unfold build_one. intros H.
  assert (Hne : forall l : list str, l <> t_label t :: l).
  { intros l E. apply (f_equal (@length str)) in E. cbn in E. lia. }
  destruct (blocked r rn t); [exfalso; apply (Hne _ H)|].
  destruct (is_filegroup t).
  - destruct (build_filegroup_frame r t rn) as (_ & _ & Hl & _). rewrite Hl in H. exfalso. apply (Hne _ H).
  - destruct (could_modify t) eqn:Ecm.
    + unfold build_rule_od in H. unfold stale_flow. rewrite Ecm. destruct (needs_build r (rn_st rn) t); [left; reflexivity|].
      right. cbn [negb andb]. destruct (needs_build_post _ _ _ _); [reflexivity|]. exfalso. apply (Hne _ H).
    + unfold build_rule in H. destruct (needs_build r (rn_st rn) t); [left; reflexivity|]. exfalso. apply (Hne _ H).
Qed.

Lemma needs_build_reasons r st t : needs_build r st t = true ->
  s_meta st (t_label t) = false
  \/ common_rec st (out_rels t) = None
  \/ exists rk, common_rec st (out_rels t) = Some rk
       /\ (rk_def rk <> t_defkey t \/ source_key r st t = None \/ exists k, source_key r st t = Some k /\ k <> snd rk).
Proof.
  unfold needs_build. destruct (s_meta st (t_label t)); [|left; reflexivity]. cbn [negb orb].
  destruct (common_rec st (out_rels t)) as [rk|]; [|right; left; reflexivity].
  intros H. right. right. exists rk. split; [reflexivity|].
  destruct (str_eqb_spec (rk_def rk) (t_defkey t)) as [E|E]; [|left; exact E]. cbn [negb orb] in H.
  destruct (source_key r st t) as [k|]; [|right; left; reflexivity].
  right. right. exists k. split; [reflexivity|]. destruct (skey_eqb_spec (snd rk) k) as [E'|E']; [discriminate|].
  intros ->. apply E'. reflexivity.
Qed.

(* the post-build check fails only when an output named by the metadata has no or another record, the recorded
   post-build rule hash is not the one over the present outputs, or a source changed *)
Lemma stale_flow_reasons r st t : stale_flow r st t = true ->
  could_modify t = true /\ needs_build r st t = false
  /\ (common_rec st (map (out_rel t) (meta_outs st t)) = None
      \/ exists rk, common_rec st (map (out_rel t) (meta_outs st t)) = Some rk
           /\ (rk_def rk <> t_defkey t \/ rk_outs rk <> meta_outs st t \/ source_key r st t = None
               \/ exists k, source_key r st t = Some k /\ k <> snd rk)).
Proof.
  unfold stale_flow. intros H. apply andb_prop in H. destruct H as [H Hp]. apply andb_prop in H. destruct H as [Hc Hn].
  apply negb_true_iff in Hn. split; [exact Hc|]. split; [exact Hn|].
  unfold needs_build_post in Hp.
  assert (Hm : s_meta st (t_label t) = true).
  { unfold needs_build in Hn. destruct (s_meta st (t_label t)); [reflexivity|discriminate]. }
  rewrite Hm in Hp. cbn [negb orb] in Hp.
  destruct (common_rec st (map (out_rel t) (meta_outs st t))) as [rk|]; [|left; reflexivity].
  right. exists rk. split; [reflexivity|].
  destruct (str_eqb_spec (rk_def rk) (t_defkey t)) as [E|E]; [|left; exact E].
  destruct (strs_eqb_spec (rk_outs rk) (meta_outs st t)) as [E2|E2]; [|right; left; exact E2].
  cbn [andb negb orb] in Hp.
  destruct (source_key r st t) as [k|]; [|right; right; left; reflexivity].
  right. right. right. exists k. split; [reflexivity|]. destruct (skey_eqb_spec (snd rk) k) as [E'|E']; [discriminate|].
  intros ->. apply E'. reflexivity.
Qed.

(* C03 (c), two builds: r1 was built successfully (store st1 = its result); the tree was edited to r2.
   A rule t (without output_dirs) that is in both with the same definition, and whose source key when its turn
   comes in the second build equals its source key after the first build, is not executed - whatever happened to
   its dependencies in between (in particular when they were rebuilt to outputs with equal path hashes). *)
Theorem cutoff_two_builds r1 r2 st0 t pre post :
  wf_repo r1 = true -> wf_repo r2 = true ->
  run_ok (build_all false r1 st0) = true ->
  stale_in false r1 (r_targets r1) (mkRun st0 [] []) = false -> dyn_ok r1 st0 = true ->
  In t (r_targets r1) -> r_targets r2 = pre ++ t :: post -> is_filegroup t = false -> could_modify t = false ->
  let st1 := rn_st (build_all false r1 st0) in
  let before := fold_left (build_one false r2) pre (mkRun st1 [] []) in
  stale_in false r2 pre (mkRun st1 [] []) = false ->
  source_key r2 (rn_st before) t = source_key r1 st1 t ->
  ~ In (t_label t) (rn_log (build_all false r2 st1)).
Proof.
  intros Hwf1 Hwf2 Hok Hq1 Hdyn1 Hin1 Hs2 Hfg Hcm st1 before Hq2 Hkey Hlog.
  apply wf_repo_WF in Hwf1. apply wf_repo_WF in Hwf2. apply dyn_ok_DynOK in Hdyn1.
  (* after the first build t is settled *)
  assert (Hset : settled r1 st1 t).
  { subst st1. unfold build_all in *.
    assert (Hf : rn_failed (fold_left (build_one false r1) (r_targets r1) (mkRun st0 [] [])) = []).
    { unfold run_ok in Hok. destruct (rn_failed _); [reflexivity|discriminate]. }
    apply (run_settles r1 Hwf1 (r_targets r1) [] (mkRun st0 [] [])); auto. intros x []. }
  unfold settled in Hset. rewrite Hfg, Hcm in Hset.
  (* when t's turn comes in the second build it is still not in need of building *)
  destruct (view_preserved r2 Hwf2 pre (mkRun st1 [] []) [] t post Hs2 Hq2) as [Ho Hm].
  fold before in Ho, Hm. cbn [rn_st] in Ho, Hm.
  assert (Hnb : needs_build r2 (rn_st before) t = false).
  { unfold needs_build in *. rewrite Hm, (common_rec_ext st1 (rn_st before) _ Ho), Hkey. exact Hset. }
  (* so its step logs nothing, and no other step can log its label *)
  unfold build_all in Hlog. rewrite Hs2 in Hlog.
  destruct (log_only_own false r2 _ _ _ Hlog) as [[]|[pre' [u [post' [Hsplit [Hl Hex]]]]]].
  assert (Hpos : pre' = pre /\ u = t).
  { pose proof (wf_labels r2 Hwf2) as Hnd. rewrite Hs2 in Hnd.
    clear -Hsplit Hl Hnd. revert pre' Hsplit. induction pre as [|a pre IH]; intros pre' Hsplit.
    - destruct pre' as [|b pre']; cbn [app] in Hsplit.
      + injection Hsplit as <- _. split; reflexivity.
      + injection Hsplit as <- ->. exfalso. cbn [app map] in Hnd. inversion Hnd as [|? ? Hnot _]; subst.
        apply Hnot. rewrite map_app. apply in_or_app. right. left. exact Hl.
    - destruct pre' as [|b pre']; cbn [app] in Hsplit.
      + injection Hsplit as <- _. exfalso. cbn [app map] in Hnd. inversion Hnd as [|? ? Hnot _]; subst.
        apply Hnot. rewrite map_app. apply in_or_app. right. left. symmetry. exact Hl.
      + injection Hsplit as <- Hsplit. cbn [app map] in Hnd. inversion Hnd as [|? ? _ Hnd']; subst.
        destruct (IH Hnd' pre' Hsplit) as [-> ->]. split; reflexivity. }
  destruct Hpos as [-> ->]. fold before in Hex.
  apply executed_needs_build in Hex. destruct Hex as [Hex|Hex]; [congruence|].
  unfold stale_flow in Hex. rewrite Hcm in Hex. discriminate.
Qed.

(* the source key is a function of the path-hash streams of the inputs: equal streams, equal key.  Of a tool only
   the streams of its outputs count - not even their paths *)
Lemma gather_key_streams (rd1 rd2 : path -> option node) l :
  (forall p, In p l -> option_map stream (rd2 p) = option_map stream (rd1 p)) ->
  option_map key_of (gather rd2 l) = option_map key_of (gather rd1 l).
Proof.
  induction l as [|p l IH]; intros H; [reflexivity|].
  cbn [gather]. pose proof (H p (or_introl eq_refl)) as Hp.
  assert (IH' := IH (fun q Hq => H q (or_intror Hq))). clear IH.
  destruct (rd2 p) as [n2|], (rd1 p) as [n1|]; cbn [option_map] in Hp; try discriminate.
  - destruct (gather rd2 l) as [a|], (gather rd1 l) as [b|]; cbn [option_map] in *; try discriminate.
    + injection Hp as Hp. injection IH' as IH'. unfold key_of in *. cbn [map fst snd]. rewrite Hp, IH'. reflexivity.
    + reflexivity.
  - reflexivity.
Qed.

Lemma gather_anon_streams (rd1 rd2 : path -> option node) : forall l1 l2,
  map (fun p => option_map stream (rd2 p)) l2 = map (fun p => option_map stream (rd1 p)) l1 ->
  option_map (fun b => key_of (anon_ins b)) (gather rd2 l2) = option_map (fun b => key_of (anon_ins b)) (gather rd1 l1).
Proof.
  induction l1 as [|p1 l1 IH]; intros [|p2 l2] H; try discriminate; [reflexivity|].
  cbn [map] in H. injection H as Hp Hrest. specialize (IH l2 Hrest). cbn [gather].
  destruct (rd2 p2) as [n2|], (rd1 p1) as [n1|]; cbn [option_map] in Hp; try discriminate.
  - destruct (gather rd2 l2) as [a|], (gather rd1 l1) as [b|]; cbn [option_map] in *; try discriminate.
    + injection Hp as Hp. injection IH as IH. unfold key_of, anon_ins in *. cbn [map fst snd]. rewrite Hp, IH. reflexivity.
    + reflexivity.
  - reflexivity.
Qed.

Lemma source_key_streams r1 r2 st1 st2 t :
  iter_sources r2 t = iter_sources r1 t ->
  (forall p, In p (iter_sources r1 t) -> option_map stream (read r2 st2 p) = option_map stream (read r1 st1 p)) ->
  map (fun p => option_map stream (read r2 st2 p)) (tool_paths r2 t)
  = map (fun p => option_map stream (read r1 st1 p)) (tool_paths r1 t) ->
  source_key r2 st2 t = source_key r1 st1 t.
Proof.
  unfold source_key. rewrite (hashed_tool_paths_all r2 t), (hashed_tool_paths_all r1 t). intros -> H Ht.
  pose proof (gather_key_streams (read r1 st1) (read r2 st2) _ H) as Ha.
  pose proof (gather_anon_streams (read r1 st1) (read r2 st2) _ _ Ht) as Hb.
  destruct (gather (read r2 st2) (iter_sources r1 t)) as [a2|], (gather (read r1 st1) (iter_sources r1 t)) as [a1|];
    cbn [option_map] in Ha; try discriminate; [|reflexivity].
  destruct (gather (read r2 st2) (tool_paths r2 t)) as [b2|], (gather (read r1 st1) (tool_paths r1 t)) as [b1|];
    cbn [option_map] in Hb; try discriminate; [|reflexivity].
  injection Ha as Ha. injection Hb as Hb. rewrite Ha, Hb. reflexivity.
Qed.
