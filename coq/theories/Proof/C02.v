(* C02 (follow-up of the seeded mutations m2 / m3) - proofs.
   Part 1: the cache key follows the output of every tool, dict-form (named) tools included.
   Part 2: the restore step of the engine model: dependents read the restored trees.
   Part 3: the path hasher's memo (Model/C02.v): coherent off the stale set along ANY trace; after the restore path a
           dependent's Hash(path, recalc = false) returns the hash of the restored tree. *)
From PlzV Require Import Base.Harness Base.StrFacts Model.Engine Model.C02 Proof.Engine Proof.C03 Proof.C01.
From Coq Require Import Lia.

(* ------------------------------------------------------------------------------------------ *)
(* Part 1: key injectivity over the tool part of the source key *)

Lemma gather_reads (rd : path -> option node) : forall l ins, gather rd l = Some ins ->
  map rd l = map (fun pn => Some (snd pn)) ins.
Proof.
  induction l as [|p l IH]; intros ins; cbn [gather].
  - intros H. injection H as <-. reflexivity.
  - destruct (rd p) as [n|] eqn:E; [|discriminate]. destruct (gather rd l) as [ns|]; [|discriminate].
    intros H. injection H as <-. cbn [map snd]. rewrite E, (IH ns eq_refl). reflexivity.
Qed.

Lemma gather_length (rd : path -> option node) l ins : gather rd l = Some ins -> length ins = length l.
Proof. intros H. apply gather_paths in H. rewrite <- H. rewrite map_length. reflexivity. Qed.

Lemma key_of_length ins : length (key_of ins) = length ins.
Proof. unfold key_of. apply map_length. Qed.

Lemma anon_key_streams : forall b b', key_of (anon_ins b) = key_of (anon_ins b') ->
  map (fun pn => stream (snd pn)) b = map (fun pn => stream (snd pn)) b'.
Proof.
  unfold key_of, anon_ins. induction b as [|x b IH]; intros [|y b'] H; try discriminate; [reflexivity|].
  cbn [map fst snd] in *. injection H as Hs Hr. rewrite Hs, (IH b' Hr). reflexivity.
Qed.

Lemma gather_streams (rd : path -> option node) l ins : gather rd l = Some ins ->
  map (fun p => option_map stream (rd p)) l = map (fun pn => Some (stream (snd pn))) ins.
Proof.
  intros H. apply gather_reads in H.
  rewrite <- (map_map rd (option_map stream)), H, map_map. reflexivity.
Qed.

Lemma app_inv_len {A} : forall (l l' m m' : list A), length l = length l' -> l ++ m = l' ++ m' -> m = m'.
Proof.
  induction l as [|x l IH]; intros [|y l'] m m' Hl H; cbn [length] in Hl; try discriminate; [exact H|].
  cbn [app] in H. injection H as _ H. apply (IH l' m m'); [lia|exact H].
Qed.

(* equal source keys (two trees r1, r2 in which t has as many sources; two states of plz-out) => every output of every
   tool of t - list-form AND dict-form - has the same path-hash stream on both sides *)
Theorem source_key_tool_streams r1 r2 st1 st2 t k :
  length (iter_sources r1 t) = length (iter_sources r2 t) ->
  source_key r1 st1 t = Some k -> source_key r2 st2 t = Some k ->
  map (fun p => option_map stream (read r1 st1 p)) (tool_paths r1 t)
  = map (fun p => option_map stream (read r2 st2 p)) (tool_paths r2 t).
Proof.
  unfold source_key. rewrite (hashed_tool_paths_all r1 t), (hashed_tool_paths_all r2 t). intros Hlen H1 H2.
  destruct (gather (read r1 st1) (iter_sources r1 t)) as [a1|] eqn:Ea1; [|discriminate].
  destruct (gather (read r1 st1) (tool_paths r1 t)) as [b1|] eqn:Eb1; [|discriminate].
  destruct (gather (read r2 st2) (iter_sources r2 t)) as [a2|] eqn:Ea2; [|discriminate].
  destruct (gather (read r2 st2) (tool_paths r2 t)) as [b2|] eqn:Eb2; [|discriminate].
  injection H1 as H1. injection H2 as H2. rewrite <- H2 in H1. clear H2.
  assert (Hl : length (key_of a1) = length (key_of a2)).
  { rewrite !key_of_length, (gather_length _ _ _ Ea1), (gather_length _ _ _ Ea2). exact Hlen. }
  assert (Hb : key_of (anon_ins b1) = key_of (anon_ins b2)).
  { exact (app_inv_len _ _ _ _ Hl H1). }
  apply anon_key_streams in Hb.
  rewrite (gather_streams _ _ _ Eb1), (gather_streams _ _ _ Eb2).
  rewrite <- (map_map (fun pn => stream (snd pn)) Some b1), <- (map_map (fun pn => stream (snd pn)) Some b2), Hb.
  reflexivity.
Qed.

(* the contrapositive, on one tree: when the stream of ONE output of ONE tool differs between the state the key k0 was
   taken in and now, the key now is another one *)
Theorem tool_output_change_changes_key r st0 st t k0 k p :
  source_key r st0 t = Some k0 -> source_key r st t = Some k -> In p (tool_paths r t) ->
  option_map stream (read r st0 p) <> option_map stream (read r st p) -> k0 <> k.
Proof.
  intros H0 H1 Hp Hd E. subst k0.
  pose proof (source_key_tool_streams r r st0 st t k eq_refl H0 H1) as Hs.
  apply Hd. revert Hp Hs. generalize (tool_paths r t). intros l. induction l as [|q l IH]; intros Hin Hs; [destruct Hin|].
  cbn [map] in Hs. injection Hs as Hq Hr. destruct Hin as [->|Hin]; [exact Hq|exact (IH Hin Hr)].
Qed.

(* hence an entry stored when the tool had another output is not the one the cache is asked for now: the lookup under the
   current key does not see it, and with no other entry under the current key the command runs *)
Theorem stale_tool_entry_not_restored r st0 rn t k0 k p v :
  source_key r st0 t = Some k0 -> source_key r (rn_st rn) t = Some k -> In p (tool_paths r t) ->
  option_map stream (read r st0 p) <> option_map stream (read r (rn_st rn) p) ->
  forall stc, s_cache (set_cache stc (t_label t) ((t_defkey t, []), k0) v) (t_label t) ((t_defkey t, []), k)
              = s_cache stc (t_label t) ((t_defkey t, []), k).
Proof.
  intros H0 H1 Hp Hd stc. pose proof (tool_output_change_changes_key r st0 (rn_st rn) t k0 k p H0 H1 Hp Hd) as Hne.
  unfold set_cache. cbn [s_cache]. rewrite str_eqb_refl. cbn [andb].
  destruct (rkey_eqb_spec ((t_defkey t, []), k) ((t_defkey t, []), k0)) as [E|_]; [|reflexivity].
  injection E as E. congruence.
Qed.

(* ------------------------------------------------------------------------------------------ *)
(* Part 2: the restore step: what dependents read afterwards are the restored trees, under the record of the current key *)

Lemma set_meta_outs st l : s_outs (set_meta st l) = s_outs st.
Proof. reflexivity. Qed.

Theorem restore_reads_restored r rn t sk cached :
  needs_build r (rn_st rn) t = true -> source_key r (rn_st rn) t = Some sk ->
  s_cache (rn_st rn) (t_label t) ((t_defkey t, []), sk) = Some cached ->
  NoDup (map fst cached) ->
  let rn' := build_rule true r rn t in
  rn_log rn' = rn_log rn
  /\ forall o n, In (o, n) cached ->
       read r (rn_st rn') (true, out_rel t o) = Some n
       /\ rec_at (rn_st rn') (out_rel t o) = Some ((t_defkey t, []), sk).
Proof.
  intros Hnb Hsk Hc Hnd. unfold build_rule. rewrite Hnb, Hsk. cbn [negb]. rewrite Hc. cbn [rn_log rn_st].
  split; [reflexivity|]. intros o n Hin.
  pose proof (restore_fold_exact ((t_defkey t, []), sk) t cached (rn_st rn) Hnd o n Hin) as He.
  unfold read, rec_at. cbn [fst snd]. rewrite set_meta_outs, He. cbn [option_map e_node e_rec]. split; reflexivity.
Qed.

(* ------------------------------------------------------------------------------------------ *)
(* Part 3: the memo of the path hasher *)

Lemma upd_same {A} (f : str -> A) k v : upd f k v k = v.
Proof. unfold upd. rewrite str_eqb_refl. reflexivity. Qed.
Lemma upd_other {A} (f : str -> A) k v k' : k' <> k -> upd f k v k' = f k'.
Proof. intros H. unfold upd. apply str_eqb_neq in H. rewrite H. reflexivity. Qed.

Lemma remove_str_In p q l : In q (remove_str p l) <-> In q l /\ q <> p.
Proof.
  unfold remove_str. rewrite filter_In. split; intros [H1 H2]; (split; [exact H1|]).
  - intros ->. rewrite str_eqb_refl in H2. discriminate.
  - apply str_eqb_neq in H2. rewrite H2. reflexivity.
Qed.

(* every memo entry of a path outside s is the hash of what is on disk *)
Definition coherent_off (s : list str) (h : hasher) : Prop :=
  forall p v, ~ In p s -> h_memo h p = Some v -> h_fs h p = Some v.

Lemma hash_fs rc p h : h_fs (snd (hash rc p h)) = h_fs h.
Proof.
  unfold hash. destruct (if rc then None else h_memo h p); [reflexivity|]. destruct (h_fs h p); reflexivity.
Qed.

Lemma stale_step_coherent h s e : coherent_off s h -> coherent_off (snd (stale_step (h, s) e)) (fst (stale_step (h, s) e)).
Proof.
  intros Hc. unfold stale_step. cbn [fst snd]. destruct e as [p v|rc p|p v]; cbn [ev_step].
  - (* the disk changes: p becomes stale *)
    intros q w Hq Hm. cbn [h_fs h_memo] in *. rewrite upd_other by (intros ->; apply Hq; left; reflexivity).
    apply Hc; [intros Hi; apply Hq; right; exact Hi|exact Hm].
  - (* Hash *)
    intros q w Hq Hm. rewrite hash_fs. unfold hash in Hm.
    destruct rc.
    + cbn [h_memo] in Hm. destruct (h_fs h p) as [x|] eqn:Ef; cbn [snd h_memo] in Hm.
      * destruct (str_eqb_spec q p) as [->|Hne].
        -- rewrite upd_same in Hm. congruence.
        -- rewrite upd_other in Hm by exact Hne. apply Hc; [|exact Hm].
           intros Hi. apply Hq. apply remove_str_In. split; assumption.
      * apply Hc; assumption.
    + destruct (h_memo h p) as [x|] eqn:Em; cbn [snd] in Hm; [apply Hc; assumption|].
      destruct (h_fs h p) as [x|] eqn:Ef; cbn [snd h_memo] in Hm; [|apply Hc; assumption].
      destruct (str_eqb_spec q p) as [->|Hne].
      * rewrite upd_same in Hm. congruence.
      * rewrite upd_other in Hm by exact Hne. apply Hc; assumption.
  - (* disk and memo change together *)
    intros q w Hq Hm. cbn [h_fs h_memo] in *. destruct (str_eqb_spec q p) as [->|Hne].
    + rewrite upd_same in *. exact Hm.
    + rewrite upd_other in * by exact Hne. apply Hc; [|exact Hm].
      intros Hi. apply Hq. apply remove_str_In. split; assumption.
Qed.

Lemma stale_fold_fst evs : forall h s, fst (fold_left stale_step evs (h, s)) = run_evs evs h.
Proof.
  unfold run_evs. induction evs as [|e evs IH]; intros h s; cbn [fold_left]; [reflexivity|].
  unfold stale_step at 2. apply IH.
Qed.

(* THE INVARIANT, for every trace of writes, hashes and moves: the memo is coherent off the stale set *)
Theorem memo_coherent_off_stale evs : forall h s, coherent_off s h -> coherent_off (stale_after evs h s) (run_evs evs h).
Proof.
  unfold stale_after. induction evs as [|e evs IH]; intros h s Hc; [exact Hc|].
  cbn [fold_left]. unfold run_evs. cbn [fold_left].
  pose proof (stale_step_coherent h s e Hc) as H1.
  destruct (stale_step (h, s) e) as [h1 s1] eqn:E. cbn [fst snd] in H1.
  assert (Hh : h1 = ev_step h e) by (unfold stale_step in E; injection E as <- _; reflexivity).
  rewrite <- Hh. apply IH. exact H1.
Qed.

(* a hash answered for a path outside the stale set is the hash of what is on disk *)
Corollary seen_fresh_off_stale evs h s p v : coherent_off s h -> ~ In p (stale_after evs h s) ->
  seen (run_evs evs h) p = Some v -> h_fs (run_evs evs h) p = Some v.
Proof.
  intros Hc Hp. pose proof (memo_coherent_off_stale evs h s Hc) as Hi. unfold seen, hash.
  destruct (h_memo (run_evs evs h) p) as [x|] eqn:Em; cbn [fst].
  - intros H. injection H as <-. apply Hi; assumption.
  - destruct (h_fs (run_evs evs h) p); cbn [fst]; intros H; [exact H|discriminate].
Qed.

(* --- the restore path --- *)

Lemma run_app a b h : run_evs (a ++ b) h = run_evs b (run_evs a h).
Proof. unfold run_evs. apply fold_left_app. Qed.

Lemma run_hashes_fs rc (ps : list (str * str)) : forall h, h_fs (run_evs (map (fun pv => EHash rc (fst pv)) ps) h) = h_fs h.
Proof.
  induction ps as [|pv ps IH]; intros h; [reflexivity|]. cbn [map]. unfold run_evs. cbn [fold_left ev_step].
  fold (run_evs (map (fun pv => EHash rc (fst pv)) ps) (snd (hash rc (fst pv) h))). rewrite IH. apply hash_fs.
Qed.

Lemma run_writes_memo (ps : list (str * str)) : forall h,
  h_memo (run_evs (map (fun pv => EWrite (fst pv) (Some (snd pv))) ps) h) = h_memo h.
Proof.
  induction ps as [|pv ps IH]; intros h; [reflexivity|]. cbn [map]. unfold run_evs. cbn [fold_left ev_step].
  fold (run_evs (map (fun pv => EWrite (fst pv) (Some (snd pv))) ps) (mkH (upd (h_fs h) (fst pv) (Some (snd pv))) (h_memo h))).
  rewrite IH. reflexivity.
Qed.

Lemma run_writes_fs (ps : list (str * str)) : forall h, NoDup (map fst ps) -> forall p v, In (p, v) ps ->
  h_fs (run_evs (map (fun pv => EWrite (fst pv) (Some (snd pv))) ps) h) p = Some v.
Proof.
  induction ps as [|[p' v'] ps IH]; intros h Hnd p v Hin; [destruct Hin|].
  cbn [map fst] in Hnd. inversion Hnd as [|? ? Hnot Hnd']; subst.
  cbn [map]. unfold run_evs. cbn [fold_left ev_step fst snd].
  fold (run_evs (map (fun pv => EWrite (fst pv) (Some (snd pv))) ps) (mkH (upd (h_fs h) p' (Some v')) (h_memo h))).
  destruct Hin as [E|Hin]; [|apply IH; assumption].
  injection E as -> ->.
  assert (Hfr : forall (qs : list (str * str)) g, ~ In p (map fst qs) ->
            h_fs (run_evs (map (fun pv => EWrite (fst pv) (Some (snd pv))) qs) g) p = h_fs g p).
  { induction qs as [|[q w] qs IHq]; intros g Hn; [reflexivity|].
    cbn [map]. unfold run_evs. cbn [fold_left ev_step fst snd].
    fold (run_evs (map (fun pv => EWrite (fst pv) (Some (snd pv))) qs) (mkH (upd (h_fs g) q (Some w)) (h_memo g))).
    rewrite IHq by (intros Hi; apply Hn; right; exact Hi). cbn [h_fs].
    apply upd_other. intros ->. apply Hn. left. reflexivity. }
  rewrite Hfr by exact Hnot. cbn [h_fs]. apply upd_same.
Qed.

(* a path that is on disk with value v and memoised as v stays so under further hashes *)
Lemma hash_keeps rc q h p v : h_fs h p = Some v -> h_memo h p = Some v ->
  h_memo (snd (hash rc q h)) p = Some v.
Proof.
  intros Hf Hm. unfold hash. destruct (if rc then None else h_memo h q); [exact Hm|].
  destruct (h_fs h q) as [x|] eqn:Eq; cbn [snd h_memo]; [|exact Hm].
  destruct (str_eqb_spec p q) as [->|Hne]; [rewrite upd_same; congruence|rewrite upd_other by exact Hne; exact Hm].
Qed.

(* re-hashing every output with recalc = true after the files were swapped: the memo of every output is the hash of the
   file that is there now *)
Lemma run_rehash_memo (ps : list (str * str)) : forall h, (forall p v, In (p, v) ps -> h_fs h p = Some v) ->
  forall p v, In (p, v) ps -> h_memo (run_evs (map (fun pv => EHash true (fst pv)) ps) h) p = Some v.
Proof.
  assert (Hkeep : forall (qs : list (str * str)) g p v, h_fs g p = Some v -> h_memo g p = Some v ->
            h_memo (run_evs (map (fun pv => EHash true (fst pv)) qs) g) p = Some v).
  { induction qs as [|[q w] qs IHq]; intros g p v Hf Hm; [exact Hm|].
    cbn [map]. unfold run_evs. cbn [fold_left ev_step fst].
    fold (run_evs (map (fun pv => EHash true (fst pv)) qs) (snd (hash true q g))).
    apply IHq; [rewrite hash_fs; exact Hf|apply hash_keeps; assumption]. }
  induction ps as [|[p' v'] ps IH]; intros h Hfs p v Hin; [destruct Hin|].
  cbn [map]. unfold run_evs. cbn [fold_left ev_step fst].
  fold (run_evs (map (fun pv => EHash true (fst pv)) ps) (snd (hash true p' h))).
  destruct Hin as [E|Hin].
  - injection E as -> ->. apply Hkeep.
    + rewrite hash_fs. apply Hfs. left. reflexivity.
    + unfold hash. rewrite (Hfs p v (or_introl eq_refl)). cbn [snd h_memo]. apply upd_same.
  - apply IH; [|exact Hin]. intros q w Hq. rewrite hash_fs. apply Hfs. right. exact Hq.
Qed.

(* THE RESTORE PATH with the recalc arguments the source has (both true): whatever the memo held before (the hashes of the
   outputs of another state of the tree, hashed a moment ago for oldOutputHash), a dependent's Hash(path, recalc = false)
   returns the hash of the RESTORED tree of every output *)
Theorem restore_memo_fresh single_file k news h :
  NoDup (map fst news) ->
  forall p v, In (p, v) news -> seen (run_evs (restore_trace single_file k news) h) p = Some v.
Proof.
  intros Hnd p v Hin. unfold restore_trace, restore_trace_with.
  replace (if single_file then EngineRecord.output_hash_recalc_single else EngineRecord.output_hash_recalc_each) with true
    by (destruct single_file; reflexivity).
  rewrite !run_app. set (h1 := run_evs (map (fun pv => EHash EngineRecord.output_hash_recalc_each (fst pv)) (firstn k news)) h).
  set (h2 := run_evs (map (fun pv => EWrite (fst pv) (Some (snd pv))) news) h1).
  assert (Hfs : forall q w, In (q, w) news -> h_fs h2 q = Some w) by (intros q w Hq; apply run_writes_fs; assumption).
  unfold seen, hash. rewrite (run_rehash_memo news h2 Hfs p v Hin). reflexivity.
Qed.

(* ... and that needs the second recalc: with recalc = false in the second outputHash (the seeded mutation m2) the A, B, A
   history reads B's hash of a restored state-A output *)
Definition m2_before : hasher := mkH (fun p => if str_eqb p (s "o1") then Some (s "B1") else if str_eqb p (s "o2") then Some (s "B2") else None)
                                     (fun _ => None).
Definition m2_news : list (str * str) := [(s "o1", s "A1"); (s "o2", s "A2")].
Theorem restore_without_recalc_is_stale :
  seen (run_evs (restore_trace_with true false 2 m2_news) m2_before) (s "o1") = Some (s "B1")
  /\ h_fs (run_evs (restore_trace_with true false 2 m2_news) m2_before) (s "o1") = Some (s "A1").
Proof. split; vm_compute; reflexivity. Qed.

(* the same through the general invariant: the restore path leaves no output in the stale set *)
Lemma writes_keep_some (qs : list (str * str)) : forall g q, (exists w, h_fs g q = Some w) ->
  exists w, h_fs (run_evs (map (fun pv => EWrite (fst pv) (Some (snd pv))) qs) g) q = Some w.
Proof.
  induction qs as [|[q1 w1] qs IH]; intros g q Hq; [exact Hq|].
  cbn [map]. unfold run_evs. cbn [fold_left ev_step fst snd].
  fold (run_evs (map (fun pv => EWrite (fst pv) (Some (snd pv))) qs) (mkH (upd (h_fs g) q1 (Some w1)) (h_memo g))).
  apply IH. cbn [h_fs]. destruct (str_eqb_spec q q1) as [->|Hne]; [exists w1; apply upd_same|].
  rewrite upd_other by exact Hne. exact Hq.
Qed.

Lemma writes_all_some (ps : list (str * str)) : forall g q, In q (map fst ps) ->
  exists w, h_fs (run_evs (map (fun pv => EWrite (fst pv) (Some (snd pv))) ps) g) q = Some w.
Proof.
  induction ps as [|[q0 w0] ps IH]; intros g q Hq; [destruct Hq|].
  cbn [map]. unfold run_evs. cbn [fold_left ev_step fst snd].
  fold (run_evs (map (fun pv => EWrite (fst pv) (Some (snd pv))) ps) (mkH (upd (h_fs g) q0 (Some w0)) (h_memo g))).
  cbn [map fst] in Hq. destruct Hq as [<-|Hq]; [|apply IH; exact Hq].
  apply writes_keep_some. exists w0. cbn [h_fs]. apply upd_same.
Qed.

Lemma rehash_stale_mono (qs : list (str * str)) : forall hs x, ~ In x (snd hs) ->
  ~ In x (snd (fold_left stale_step (map (fun pv => EHash true (fst pv)) qs) hs)).
Proof.
  induction qs as [|[q1 w1] qs IHq]; intros [g' s'] x Hx; [exact Hx|].
  cbn [map fold_left fst]. apply IHq. unfold stale_step. cbn [snd]. destruct (h_fs g' q1); [|exact Hx].
  intros Hi. apply remove_str_In in Hi. apply Hx. apply Hi.
Qed.

Lemma rehash_clears (ps : list (str * str)) : forall hs, (forall q, In q (map fst ps) -> exists w, h_fs (fst hs) q = Some w) ->
  forall p, In p (map fst ps) -> ~ In p (snd (fold_left stale_step (map (fun pv => EHash true (fst pv)) ps) hs)).
Proof.
  induction ps as [|[q0 w0] ps IH]; intros [g sg] Hfs p Hp; [destruct Hp|].
  cbn [map fold_left fst]. cbn [fst] in Hfs.
  destruct (Hfs q0 (or_introl eq_refl)) as [w Hw].
  assert (Hstep : stale_step (g, sg) (EHash true q0) = (snd (hash true q0 g), remove_str q0 sg)).
  { unfold stale_step. cbn [ev_step]. rewrite Hw. reflexivity. }
  rewrite Hstep. cbn [map fst] in Hp. destruct Hp as [<-|Hp].
  - apply rehash_stale_mono. cbn [snd]. intros Hi. apply remove_str_In in Hi. destruct Hi as [_ Hi]. apply Hi. reflexivity.
  - apply IH; [|exact Hp]. intros q Hq. cbn [fst]. rewrite hash_fs. apply Hfs. right. exact Hq.
Qed.

Theorem restore_leaves_no_output_stale single_file k news h s0 :
  forall p, In p (map fst news) -> ~ In p (stale_after (restore_trace single_file k news) h s0).
Proof.
  intros p Hp. unfold restore_trace, restore_trace_with.
  replace (if single_file then EngineRecord.output_hash_recalc_single else EngineRecord.output_hash_recalc_each) with true
    by (destruct single_file; reflexivity).
  unfold stale_after. rewrite !fold_left_app.
  set (hs1 := fold_left stale_step (map (fun pv => EHash EngineRecord.output_hash_recalc_each (fst pv)) (firstn k news)) (h, s0)).
  apply rehash_clears; [|exact Hp].
  intros q Hq. destruct hs1 as [g1 s1]. rewrite stale_fold_fst. apply writes_all_some. exact Hq.
Qed.
