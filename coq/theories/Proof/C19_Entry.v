(* C19 - the wrapper around the recursive-descent parser: parseFileInput's statement order (regenerated
   by gotrans) and Parser.parseAndHandleErrors, i.e. what the PUBLIC entry points ParseData / ParseReader /
   ParseFileOnly / ParseFile return.

   1. the generated skeleton is the one the proofs are about (a moved statement breaks `entry_steps_ok`);
   2. parse_data = parse up to the result type (for the generated order), hence safe for ALL byte strings,
      including lexical errors in token 0 (parse_data_safe);
   3. for ANY arrangement of the statements and any choice of what parseAndHandleErrors returns: the
      executable criterion safe_order implies that no input at all makes a panic leave the entry point
      (safe_order_no_crash, by an invariant over the statement list: "input is allocated" / "the recover is
      registered"), and for every arrangement the translator can emit the criterion is exact - when it
      fails, the empty file or a single tab crashes (order_decides_crash). *)
From Coq Require Import String Lia.
From PlzV Require Import Base.Harness Model.C19 Proof.C19 Proof.C19_Parser.
From PlzV Require Gen.C19Tables.

(* ---- 1. the generated skeleton ------------------------------------------------------------------ *)
Lemma entry_steps_ok : entry_steps = [SAlloc; SDefer; SNewLexer; SLoop; SReturn].
Proof. reflexivity. Qed.

Lemma handler_derefs_ok :
  Gen.C19Tables.handle_ok_derefs_input = true /\ Gen.C19Tables.handle_err_derefs_input = true.
Proof. split; reflexivity. Qed.

(* every public way into the parser goes through parseAndHandleErrors, the only caller of parseFileInput *)
Lemma entry_points_ok :
  Gen.C19Tables.entry_points = ["Parser.ParseReader"; "Parser.parse"; "Parser.ParseData"]%string
  /\ Gen.C19Tables.parse_file_input_callers = ["Parser.parseAndHandleErrors"]%string.
Proof. split; reflexivity. Qed.

(* ---- 2. the entry point on the generated order --------------------------------------------------- *)
Definition of_pres (r : pres) : eres :=
  match r with
  | POk v _ => EProg (count_of v)
  | PSyn p => ESyn p
  | PInternal => EInternal
  | PDeep => EDeep
  end.

Definition entry_ok (r : eres) : Prop :=
  match r with EProg _ | ESyn _ => True | EInternal | ECrash | EDeep => False end.

Lemma parse_data_spec isld f b : parse_data isld f b = of_pres (parse isld f b).
Proof.
  unfold parse_data, parse_data_with. rewrite entry_steps_ok.
  destruct handler_derefs_ok as [-> ->].
  unfold parse. cbn [fi_exec fi_init fi_input fi_defer fi_lex].
  destruct (new_lexer isld (buffer b) f) as [t l|p| |]; cbn [fi_raise fi_defer fi_input handle of_perr of_pres]; try reflexivity.
  cbn [fi_lex fi_input fi_defer].
  destruct (run isld (buffer b) f (PFile 0) (mkP l t false)) as [v st|p| |];
    cbn [fi_exec fi_raise fi_defer fi_input handle of_perr of_pres]; reflexivity.
Qed.

Lemma of_pres_ok r : outcome_ok r -> entry_ok (of_pres r).
Proof. destruct r; cbn; auto. Qed.

Lemma parse_data_safe isld bs depth : parse_depth bs <= depth -> entry_ok (parse_data isld depth bs).
Proof. intro H. rewrite parse_data_spec. apply of_pres_ok, parse_safe, H. Qed.

Lemma parse_data_fuel_safe isld bs : entry_ok (parse_data isld (parse_fuel bs) bs).
Proof. rewrite parse_data_spec. apply of_pres_ok, parse_fuel_safe. Qed.

(* ---- 3. any arrangement of the statements --------------------------------------------------------- *)
(* a: input has been allocated, d: the recover is registered - BEFORE the statement at the head *)
Fixpoint safe_order (dok derr a d : bool) (steps : list fi_step) : bool :=
  match steps with
  | [] => a || negb dok
  | SAlloc :: r => safe_order dok derr true d r
  | SDefer :: r => safe_order dok derr a true r
  | SNewLexer :: r => d && (a || negb derr) && safe_order dok derr a d r
  | SLoop :: r => d && (a || negb derr) && safe_order dok derr a d r
  | SReturn :: _ => a || negb dok
  | SUnknown :: _ => false
  end.

Definition is_crash (r : eres) : bool := match r with ECrash => true | _ => false end.

Lemma raise_no_crash dok derr a d st e :
  (a = true -> fi_input st <> None) -> (d = true -> fi_defer st = true) ->
  d && (a || negb derr) = true -> is_crash (handle dok derr (fi_raise st e)) = false.
Proof.
  intros Ha Hd H. apply andb_true_iff in H as [Hd1 H]. unfold fi_raise. rewrite (Hd Hd1). cbn [handle].
  destruct derr; [|destruct e; reflexivity].
  cbn in H. rewrite orb_false_r in H. specialize (Ha H).
  destruct (fi_input st); [destruct e; reflexivity|congruence].
Qed.

Lemma ret_no_crash dok derr a st :
  (a = true -> fi_input st <> None) -> a || negb dok = true ->
  is_crash (handle dok derr (FRet (fi_input st) None)) = false.
Proof.
  intros Ha H. cbn [handle]. destruct dok; [|reflexivity].
  cbn in H. rewrite orb_false_r in H. specialize (Ha H). destruct (fi_input st); [reflexivity|congruence].
Qed.

Lemma exec_no_crash dok derr isld bytes f : forall steps a d st,
  (a = true -> fi_input st <> None) -> (d = true -> fi_defer st = true) ->
  safe_order dok derr a d steps = true ->
  is_crash (handle dok derr (fi_exec isld bytes f steps st)) = false.
Proof.
  induction steps as [|x r IH]; intros a d st Ha Hd Hs.
  - cbn [fi_exec]. eapply ret_no_crash; eauto.
  - destruct x; cbn [safe_order fi_exec] in *.
    + apply (IH true d); auto. cbn. congruence.
    + apply (IH a true); auto.
    + apply andb_true_iff in Hs as [Hr Hs].
      destruct (new_lexer isld bytes f) as [t l|p| |]; try (eapply raise_no_crash; eauto); try reflexivity.
      apply (IH a d); auto.
    + apply andb_true_iff in Hs as [Hr Hs].
      destruct (fi_lex st) as [[t l]|]; [|eapply raise_no_crash; eauto].
      destruct (run isld bytes f (PFile 0) (mkP l t false)) as [v st'|p| |];
        try (eapply raise_no_crash; eauto); try reflexivity.
      destruct (fi_input st) as [k|] eqn:Ek.
      * apply (IH a d); auto. cbn. congruence.
      * destruct (count_of v); [apply (IH a d); auto; rewrite Ek; auto|eapply raise_no_crash; eauto; rewrite Ek; auto].
    + eapply ret_no_crash; eauto.
    + discriminate.
Qed.

Lemma safe_order_no_crash steps dok derr :
  safe_order dok derr false false steps = true ->
  forall isld f b, parse_data_with steps dok derr isld f b <> ECrash.
Proof.
  intros Hs isld f b E.
  pose proof (exec_no_crash dok derr isld (buffer b) f steps false false fi_init
                ltac:(discriminate) ltac:(discriminate) Hs) as H.
  unfold parse_data_with in E. rewrite E in H. discriminate.
Qed.

(* the arrangements gotrans can emit: defer, new_lexer, loop exactly once, alloc at most once, new_lexer
   and alloc before the loop, return last *)
Fixpoint insert_all (x : fi_step) (l : list fi_step) : list (list fi_step) :=
  match l with
  | [] => [[x]]
  | y :: r => (x :: l) :: map (cons y) (insert_all x r)
  end.
Fixpoint perms (l : list fi_step) : list (list fi_step) :=
  match l with
  | [] => [[]]
  | x :: r => flat_map (insert_all x) (perms r)
  end.
Definition fi_step_eqb (x y : fi_step) : bool :=
  match x, y with
  | SAlloc, SAlloc | SDefer, SDefer | SNewLexer, SNewLexer | SLoop, SLoop | SReturn, SReturn | SUnknown, SUnknown => true
  | _, _ => false
  end.
Fixpoint before (x y : fi_step) (l : list fi_step) : bool :=      (* no y before the first x *)
  match l with
  | [] => true
  | z :: r => if fi_step_eqb z x then true else if fi_step_eqb z y then false else before x y r
  end.
Definition emit_shapes : list (list fi_step) :=
  map (fun l => l ++ [SReturn])
    (filter (fun l => before SNewLexer SLoop l && (negb (existsb (fi_step_eqb SAlloc) l) || before SAlloc SLoop l))
       (perms [SAlloc; SDefer; SNewLexer; SLoop] ++ perms [SDefer; SNewLexer; SLoop])).

Definition no_letters : N -> bool := fun _ => false.
(* the two test files: empty, and a single tab (a lexical error in token 0) *)
Definition crash_witness (steps : list fi_step) (dok derr : bool) : bool :=
  is_crash (parse_data_with steps dok derr no_letters 20 [])
  || is_crash (parse_data_with steps dok derr no_letters 20 [9%N]).

Lemma shapes_decided :
  forallb (fun steps =>
    forallb (fun fl : bool * bool =>
      Bool.eqb (safe_order (fst fl) (snd fl) false false steps) (negb (crash_witness steps (fst fl) (snd fl))))
      [(true, true); (true, false); (false, true); (false, false)]) emit_shapes = true.
Proof. vm_compute. reflexivity. Qed.

Lemma emit_shapes_count : length emit_shapes = 11 /\ In entry_steps emit_shapes.
Proof. split; [reflexivity|]. rewrite entry_steps_ok. vm_compute. tauto. Qed.

Lemma order_decides_crash steps dok derr :
  In steps emit_shapes ->
  (safe_order dok derr false false steps = true
   <-> forall isld f b, parse_data_with steps dok derr isld f b <> ECrash).
Proof.
  intro Hin. split; [apply safe_order_no_crash|].
  intro Hall.
  pose proof shapes_decided as H. rewrite forallb_forall in H. specialize (H steps Hin).
  rewrite forallb_forall in H. specialize (H (dok, derr)).
  assert (Hf : In (dok, derr) [(true, true); (true, false); (false, true); (false, false)]).
  { destruct dok, derr; cbn; tauto. }
  specialize (H Hf). cbn [fst snd] in H.
  destruct (safe_order dok derr false false steps); [reflexivity|].
  exfalso. apply Bool.eqb_prop in H. unfold crash_witness in H.
  symmetry in H. apply negb_false_iff, orb_true_iff in H as [H|H].
  - apply (Hall no_letters 20 []). destruct (parse_data_with steps dok derr no_letters 20 []); try discriminate. reflexivity.
  - apply (Hall no_letters 20 [9%N]). destruct (parse_data_with steps dok derr no_letters 20 [9%N]); try discriminate. reflexivity.
Qed.

(* the arrangement of seeded mutation m1 (the allocation moved below the construction of the lexer): it is one
   of the shapes, the criterion rejects it and the file "\t" crashes the entry point - while parseFileInput
   itself still reports the positioned error *)
Example moved_alloc_crashes :
  let steps := [SDefer; SNewLexer; SAlloc; SLoop; SReturn] in
  In steps emit_shapes
  /\ safe_order true true false false steps = false
  /\ parse_data_with steps true true no_letters 20 [9%N] = ECrash
  /\ fi_exec no_letters (buffer [9%N]) 20 steps fi_init = FRet None (Some (ErrPos 0))
  /\ parse_data no_letters 20 [9%N] = ESyn 0.
Proof. vm_compute. repeat split; tauto. Qed.
